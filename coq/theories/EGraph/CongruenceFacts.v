(* EGraph/CongruenceFacts.v — C02: the CONGRUENCE clause on the model ("congruence closure is complete,
   immediately after union returns").

   Notation.  n2 = `set_apps n1 l`: the node n1 with its child invocations replaced, in occurrence order, by l: same
   variant, same slots, same binders.  `kid_eq s a b` (NodeCong.v): a, b cover their classes and eg_eq s a b = Ok true.
   `filt c m`: m restricted to the slots of the class c (what lookup_internal returns is
   {| aid := i; am := filt c (inv cb ** b) |} for the stored bijection cb and the bijection b of the looked-up shape).

   THE PREMISE `ss_ok s` (SELF-SYMMETRY COMPLETENESS; decidable: `ss_okb`, `ss_okb_sound`).  For every entry
   sh |-> (cb, src) stored in class i and every group variant v of sh (`variants s sh`: the children of sh composed
   with elements of their class groups) that has the weak shape sh again, with bijection bv
   (wshape v = Ok (sh, bv), wshape sh = Ok (sh, b0)):
       eg_eq s {| i; filt c (inv cb ** b0) |} {| i; filt c (inv cb ** bv) |} = Ok true,
   i.e. every symmetry of a stored e-node that is induced by symmetries of its children is in the group of its class
   (what determine_self_symmetries is there to establish).  It is NOT a consequence of inv3 /\ hc_ok: it is false
   between union_internal and rebuild (`node_congruence_false_mid_union`).  It is true (vm_compute) after every
   operation of the 13 histories of section 12 (`cong_histories_checked`; 5 of them have non-trivial instances in
   some state, 3 in the final state: `cong_histories_nontrivial`).  That it holds in every reachable state with pending = [] is NOT proved here
   (an invariant of the whole union/rebuild core, through determine_self_symmetries): it is the one remaining
   hypothesis of every theorem below, always as the explicit premise `ss_ok s` (or `ss_okb s = true`), never as an axiom.

   PROVED (all closed under the global context):
   1. NODE LEVEL.  `shape_kid_eq_strong`: shape_kid_eq of ShapeCong.v with its witnesses (the two first minima are
      variants of ONE node, with the same weak shape).
      `node_congruence` : inv3 s -> hc_ok s -> ss_ok s -> NoDup (binders n) -> Forall2 (kid_eq s) (app_occ n) l ->
         eg_lookup s n = Ok (Some x1) -> eg_lookup s (set_apps n l) = Ok (Some x2) -> eg_eq s x1 x2 = Ok true.
      (`node_congruence_checked`: with ss_okb s = true; `node_congruence_at`: only `ss_at s sh` for the ONE shape sh
      = fst (shape s n) that the lookup hits is needed; ss_ok s = forall sh, ss_at s sh.)  Route: both shapes are equal (one hashcons key, one class,
      one stored bijection); the two bijections belong to two variants of one node; `ss_ok_var` transports ss_ok
      from the stored shape to that node: a variant has the same variants (`variants_members`), `wshape_fwd` gives
      the renaming g with sh = ren g v1, variants commute with ren (`variants_ren`), the bijection of a renamed node
      is the renamed bijection (`ws_ren_get`, from ShapeFacts.shape_bij), and eg_eq is closed under renaming
      (`eg_eq_rename`).  NoDup (binders n) is the premise of wshape_fwd (part of node_pre for inserted nodes).
      `stored_congruent`: two congruent e-nodes listed for classes i1, i2 (pending = []) have equal invocations
      of i1 and i2; `stored_congruent_same_class`: i1 and i2 have the same leader.  `ss_ok_empty`.
   2. TERM LEVEL.  `tcong s t1 t2`: found terms with equal invocations, closed under "same node over pairwise tcong
      children".  `term_congruence`: tcong s t1 t2 -> lookup_rec s t1 = Ok (Some x1) -> lookup_rec s t2 = Ok (Some x2)
      -> eg_eq s x1 x2 = Ok true.  `rep s t a` (a is a handle of t: t is found and the invocation found equals a;
      `repb`, `repb_sound`).  `handles_congruent`: handles of congruent terms are equal.  `reinsert_equal`:
      rep s t a -> add_expr t s = Ok (a', s') -> s' = s /\ eg_eq s' a a' = Ok true (needs no ss_ok).
      `insert_congruent`: inserting two congruent found terms one after the other changes nothing and returns
      equal handles.
      GAP (stated, not proved): that a handle returned by an EARLIER add_expr is still a handle in a later state
      (`rep s' t a`: the term stays found, by an invocation equal to the old handle).  Checked per run:
      `handles_repb` is true for every handle after every operation of the 13 histories.  It is false between
      union_internal and rebuild (`handles_false_mid_union`).
   3. UNION + CONGRUENCE, immediately.  `union_congruence`: after eg_union a b s = Ok (u, s') (inv3 s, hc_ok s, a and b
      cover): inv3 s', hc_ok s', pending s' = [], eg_eq s' a b = Ok true, and under ss_ok s': for every node n with
      covering children and every l obtained by swapping a and b at any positions, if n and set_apps n l are both
      found then the invocations found are equal in s'.
   4. CLOSURE.  `Rt s t1 t2` (both found, invocations equal): `Rt_equivalence` (reflexive on found terms,
      symmetric, transitive), `Rt_congruence` (closed under congruence for found terms); with `eg_union_establishes`
      and `eg_eq_rename` of MonotoneFacts.v this is the relative completeness: every equation between found terms
      that follows from equations between found terms by reflexivity, symmetry, transitivity and congruence THROUGH
      FOUND TERMS holds in the e-graph.  `reachable_node_congruence`: 1, 2 for every state of a run (ops_pre). *)
From SE Require Import Slots.SlotMapFacts Group.GroupSound Lang.LangFacts Lang.ShapeFacts Lang.RenameFacts
  Slots.SlotFacts Base.TextFacts EGraph.Model EGraph.ModelFacts EGraph.ModelMachine EGraph.PendingFacts EGraph.UnionFindFacts
  EGraph.InvariantFacts EGraph.UnionInvariantFacts EGraph.AddCoversFacts EGraph.MonotoneFacts EGraph.HashconsShape
  EGraph.Mod4Facts EGraph.HashconsAbs EGraph.Model9 EGraph.HashconsFacts EGraph.NodeCong EGraph.KidEqFacts EGraph.ShapeCong.
Require Import ZArith Lia ZifyBool ZifyN ZifyNat.

Local Notation "a ** b" := (compose_partial a b) (at level 40, left associativity).
Local Notation inv := inverse_nocheck.
Local Notation ectr := Model.ctr.

(* ================================================================== *)
(* 1. definitions *)

(* the restriction of `lookup_internal` to the slots of the class *)
Definition filt (c : eclass) (m : slotmap) : slotmap := filter (fun p => sset_mem (fst p) (c_slots c)) m.

(* SELF-SYMMETRY COMPLETENESS, on the variants of an arbitrary node with canonical children: two group
   variants of one node that have the weak shape of a stored entry give equal invocations of its class *)
Definition ss_var_at (s : egraph) (sh : node) : Prop :=
  forall i c cb src N vs v1 v2 b1 b2,
    get_class s i = Ok c -> na_get (c_nodes c) sh = Some (cb, src) ->
    (forall a, In a (app_occ N) -> ckid s a) -> NoDup (binders N) ->
    variants s N = Ok vs -> In v1 vs -> In v2 vs ->
    wshape v1 = Ok (sh, b1) -> wshape v2 = Ok (sh, b2) ->
    eg_eq s {| aid := i; am := filt c (inv cb ** b1) |} {| aid := i; am := filt c (inv cb ** b2) |} = Ok true.
Definition ss_var (s : egraph) : Prop := forall sh, ss_var_at s sh.

(* ================================================================== *)
(* 2. `shape_kid_eq` with its witnesses: both minima are variants of ONE node *)

Lemma shape_kid_eq_strong : forall s n l sh b, eg_inv s -> Forall2 (kid_eq s) (app_occ n) l -> shape s n = Ok (sh, b) ->
  exists N vs p p' b',
    (forall a, In a (app_occ N) -> ckid s a) /\ binders N = binders n /\
    variants s N = Ok vs /\ In p vs /\ In p' vs /\
    wshape p = Ok (sh, b) /\ wshape p' = Ok (sh, b') /\ shape s (set_apps n l) = Ok (sh, b').
Proof.
  intros s n l sh b Hs HK S. unfold shape in S.
  destruct (pre_shape s n) as [p|] eqn:P; cbn [bind] in S; [|discriminate].
  unfold pre_shape in P.
  destruct (find_enode s n) as [N|] eqn:F; cbn [bind] in P; [|discriminate].
  destruct (variants s N) as [vs|] eqn:V; cbn [bind] in P; [|discriminate].
  pose proof (find_enode_binders s n N F) as BN.
  unfold find_enode in F.
  destruct (mapr (find_applied_id s) (app_occ n)) as [LA|] eqn:EA; cbn [bind] in F; [|discriminate].
  inversion F; subst N; clear F.
  destruct (kids_found s _ _ Hs HK LA EA) as (LB & EB & R1 & R2).
  pose proof (Forall2_length' _ _ _ HK) as Ll.
  pose proof (mapr_length _ _ _ EA) as LLA. pose proof (mapr_length _ _ _ EB) as LLB.
  pose proof (app_occ_set_apps n l Ll) as Ol.
  pose proof (app_occ_set_apps n LA LLA) as OA.
  assert (OB : app_occ (set_apps n LB) = LB) by (apply app_occ_set_apps; lia).
  assert (FB : find_enode s (set_apps n l) = Ok (set_apps n LB)).
  { unfold find_enode. rewrite Ol, EB. cbn [bind]. rewrite set_apps_twice by lia. reflexivity. }
  assert (NB : set_apps (set_apps n LA) LB = set_apps n LB) by (apply set_apps_twice; lia).
  assert (NA : set_apps (set_apps n LB) LA = set_apps n LA) by (apply set_apps_twice; lia).
  rewrite <- OA in R1. destruct (variants_sub1 s _ LB vs R1 V) as (vs' & V' & S2). rewrite NB in V'.
  rewrite <- OB in R2. destruct (variants_sub1 s _ LA vs' R2 V') as (vs'' & V'' & S1). rewrite NA, V in V''.
  inversion V''; subst vs''; clear V''.
  destruct (min_same_key vs vs' p P S1 S2) as (p' & P' & Ip & Ip' & K).
  destruct (weak_shape_total false p') as (sh' & b' & W'). fold (wshape p') in W'.
  assert (Esh : sh = sh').
  { apply (variants_key_inj s (set_apps n LA) vs p p' sh b sh' b'); try assumption.
    - exact (proj1 (krel_facts s _ _ R1)).
    - unfold kof in K. rewrite S, W' in K. exact K. }
  subst sh'.
  exists (set_apps n LA), vs, p, p', b'.
  split; [exact (proj1 (krel_facts s _ _ R1))|]. split; [exact BN|].
  split; [exact V|]. split; [exact Ip|]. split; [exact Ip'|]. split; [exact S|]. split; [exact W'|].
  unfold shape, pre_shape. rewrite FB. cbn [bind]. rewrite V'. cbn [bind]. rewrite P'. cbn [bind]. exact W'.
Qed.

(* ================================================================== *)
(* 3. NODE-LEVEL CONGRUENCE from `ss_var` *)

Lemma lookup_internal_inv : forall s sh b x, lookup_internal s (sh, b) = Ok (Some x) ->
  exists i c cb src, na_get (hashcons s) sh = Some i /\ get_class s i = Ok c /\
    na_get (c_nodes c) sh = Some (cb, src) /\ x = {| aid := i; am := filt c (inv cb ** b) |}.
Proof.
  intros s sh b x H. unfold lookup_internal in H.
  destruct (na_get (hashcons s) sh) as [i|] eqn:Hh; [|discriminate].
  destruct (get_class s i) as [c|] eqn:Hc; cbn [bind] in H; [|discriminate].
  destruct (na_get (c_nodes c) sh) as [[cb src]|] eqn:G; [|discriminate].
  inversion H; subst x. exists i, c, cb, src. auto.
Qed.

Theorem node_congruence_var_at : forall s n l sh b x1 x2, eg_inv s -> shape s n = Ok (sh, b) -> ss_var_at s sh ->
  NoDup (binders n) -> Forall2 (kid_eq s) (app_occ n) l ->
  eg_lookup s n = Ok (Some x1) -> eg_lookup s (set_apps n l) = Ok (Some x2) ->
  eg_eq s x1 x2 = Ok true.
Proof.
  intros s n l sh b x1 x2 Hs S1 SS ND HK L1 L2. unfold eg_lookup in L1, L2.
  rewrite S1 in L1. cbn [bind] in L1.
  destruct (shape_kid_eq_strong s n l sh b Hs HK S1) as (N & vs & p & p' & b' & Ck & BN & V & Ip & Ip' & W & W' & S2).
  rewrite S2 in L2. cbn [bind] in L2.
  destruct (lookup_internal_inv _ _ _ _ L1) as (i & c & cb & src & Hh & Hc & G & ->).
  destruct (lookup_internal_inv _ _ _ _ L2) as (i' & c' & cb' & src' & Hh' & Hc' & G' & ->).
  rewrite Hh in Hh'. inversion Hh'; subst i'. rewrite Hc in Hc'. inversion Hc'; subst c'.
  rewrite G in G'. inversion G'; subst cb' src'.
  apply (SS i c cb src N vs p p' b b'); try assumption. rewrite BN. exact ND.
Qed.

Theorem node_congruence_var : forall s n l x1 x2, eg_inv s -> ss_var s -> NoDup (binders n) ->
  Forall2 (kid_eq s) (app_occ n) l ->
  eg_lookup s n = Ok (Some x1) -> eg_lookup s (set_apps n l) = Ok (Some x2) ->
  eg_eq s x1 x2 = Ok true.
Proof.
  intros s n l x1 x2 Hs SS ND HK L1 L2. pose proof L1 as L1'. unfold eg_lookup in L1'.
  destruct (shape s n) as [[sh b]|] eqn:S1; cbn [bind] in L1'; [|discriminate].
  exact (node_congruence_var_at s n l sh b x1 x2 Hs S1 (SS sh) ND HK L1 L2).
Qed.

(* ================================================================== *)
(* 4. the executable form: SELF-SYMMETRY COMPLETENESS on the stored shapes themselves *)

Definition ss_at (s : egraph) (sh : node) : Prop :=
  forall i c cb src vs v b0 bv,
    get_class s i = Ok c -> na_get (c_nodes c) sh = Some (cb, src) ->
    variants s sh = Ok vs -> In v vs -> wshape sh = Ok (sh, b0) -> wshape v = Ok (sh, bv) ->
    eg_eq s {| aid := i; am := filt c (inv cb ** b0) |} {| aid := i; am := filt c (inv cb ** bv) |} = Ok true.
Definition ss_ok (s : egraph) : Prop := forall sh, ss_at s sh.

(* 4.1 a variant and the node have the same variants *)
Lemma variant_krel : forall s apps groups l, eg_inv s -> Forall2 (kid_cg s) apps groups -> Forall2 (@In perm) l groups ->
  Forall2 (krel s) apps (zip_with gvar apps l) /\ Forall2 (krel s) (zip_with gvar apps l) apps.
Proof.
  intros s apps groups l Hs H. revert l.
  induction H as [|a G apps' groups' ((La & Ca) & c & Hc & HG) _ IH]; intros l Hl.
  - inversion Hl; subst. split; constructor.
  - inversion Hl as [|p0 ? t0 ? Hp0 Ht0]; subst. destruct (IH t0 Ht0) as (A & B). cbn [zip_with].
    assert (Hg : grp_ok c).
    { destruct Ca as (c' & Hc' & Hg & _). rewrite Hc in Hc'. inversion Hc'; subst. exact Hg. }
    destruct (gall_member c G p0 Hg HG Hp0) as (Ppo & _).
    destruct (gvar_eg_eq s a c G p0 Hs Ca La Hc HG Hp0) as (Cva & Cvb & E).
    pose proof (eg_eq_sym_true s _ _ Hs Cva Cvb E) as E'.
    pose proof (lkid_fixed s a (ei_uf _ Hs) La) as Fa.
    pose proof (lkid_fixed s (gvar a p0) (ei_uf _ Hs) (lkid_gvar s a c p0 La Hc Ppo)) as Fb.
    split; constructor; try assumption.
    + exact (kid_eq_krel s (gvar a p0) a (gvar a p0) a Hs Cvb Cva E' Fb Fa).
    + exact (kid_eq_krel s a (gvar a p0) a (gvar a p0) Hs Cva Cvb E Fa Fb).
Qed.

Lemma variants_members : forall s N vs v, eg_inv s -> (forall a, In a (app_occ N) -> ckid s a) ->
  variants s N = Ok vs -> In v vs ->
  exists vs', variants s v = Ok vs' /\ (forall w, In w vs -> In w vs').
Proof.
  intros s N vs v Hs Ck V Hv.
  destruct (variants_inv s N vs Ck V) as (cls & Ec & [(Tr & ->)|(Tr & groups & Eg & KC & ->)]).
  - destruct Hv as [<-|[]]. exists [N]. split; [exact V|auto].
  - apply in_map_iff in Hv. destruct Hv as (l & <- & Hl). apply cart_in in Hl.
    destruct (variant_krel s _ _ l Hs KC Hl) as (R1 & R2).
    set (LB := zip_with gvar (app_occ N) l) in *.
    pose proof (Forall2_length' _ _ _ R1) as Len.
    destruct (variants_sub1 s N LB _ R1 V) as (vs' & V' & S1).
    exists vs'. split; [exact V'|].
    assert (R2' : Forall2 (krel s) (app_occ (set_apps N LB)) (app_occ N)).
    { rewrite app_occ_set_apps by exact Len. exact R2. }
    destruct (variants_sub1 s (set_apps N LB) (app_occ N) vs' R2' V') as (vs'' & V'' & S2).
    rewrite set_apps_twice, set_apps_self in V'' by lia. rewrite V in V''. inversion V''; subst vs''. exact S2.
Qed.

(* 4.2 the bijection returned by the weak shape, under a renaming *)
Lemma map_some_rel : forall {A} (f f' : A -> option slot) (h : slot -> slot) L P,
  map f L = map Some (map h P) -> map f' L = map Some P -> forall k, In k L -> f k = option_map h (f' k).
Proof.
  intros A f f' h. induction L as [|x L IH]; intros P H1 H2 k Hk; [destruct Hk|].
  destruct P as [|y P]; cbn [map] in *; [discriminate|].
  inversion H1. inversion H2. destruct Hk as [<-|Hk].
  - rewrite H0, H4. reflexivity.
  - eapply IH; eauto.
Qed.

Lemma ws_ren_get : forall g v sh b b', ren_ok g v -> wshape v = Ok (sh, b) -> wshape (RenameFacts.ren g v) = Ok (sh, b') ->
  forall k, get b' k = option_map (g true) (get b k).
Proof.
  intros g v sh b b' (G1 & G2 & G3) W W' k.
  destruct (shape_bij _ _ _ W) as (_ & K & M). destruct (shape_bij _ _ _ W') as (_ & K' & M').
  rewrite (ren_pub_occ g v G1 G2) in M'.
  destruct (in_dec N.eq_dec k (pub_occ sh)) as [Hk|Hk].
  - exact (map_some_rel (fun k => get b' k) (fun k => get b k) (g true) _ _ M' M k Hk).
  - destruct (get b' k) eqn:E1; [exfalso; apply Hk, K'; congruence|].
    destruct (get b k) eqn:E2; [exfalso; apply Hk, K; congruence|]. reflexivity.
Qed.

Lemma filt_compose : forall c m sg, wf m -> filt c (m ** sg) = filt c m ** sg.
Proof.
  intros c m sg W. unfold filt.
  apply ext_eq; [apply (filter_key_wf (fun k => sset_mem k (c_slots c))), compose_partial_wf|apply compose_partial_wf|].
  intros k. rewrite (get_filter_key (fun k => sset_mem k (c_slots c))).
  rewrite !get_compose_partial by (try assumption; apply (filter_key_wf (fun k => sset_mem k (c_slots c))); assumption).
  rewrite (get_filter_key (fun k => sset_mem k (c_slots c))). destruct (sset_mem k (c_slots c)); reflexivity.
Qed.

Lemma lookup_internal_intro : forall s sh b i c cb src, na_get (hashcons s) sh = Some i -> get_class s i = Ok c ->
  na_get (c_nodes c) sh = Some (cb, src) ->
  lookup_internal s (sh, b) = Ok (Some {| aid := i; am := filt c (inv cb ** b) |}).
Proof. intros s sh b i c cb src Hh Hc G. unfold lookup_internal. rewrite Hh, Hc. cbn [bind]. rewrite G. reflexivity. Qed.

(* 4.3 the reduction: the property on the stored shapes gives the property on all nodes *)
Theorem ss_at_var : forall s sh, eg_inv s -> nodes_ok s -> hc_ok s -> ss_at s sh -> ss_var_at s sh.
Proof.
  intros s sh Hs Nk Hh SS i c cb src N vs v1 v2 b1 b2 Hc G Ck ND V I1 I2 W1 W2.
  destruct (variants_sub s N vs v1 V I1) as (B1 & P1).
  destruct (variants_members s N vs v1 Hs Ck V I1) as (vs1 & V1 & M1). pose proof (M1 v2 I2) as I2'.
  destruct (wshape_fwd v1 sh b1 W1) as (g & Esh & Rg); [rewrite B1; exact ND|].
  pose proof (variants_ren s g v1 vs1 V1) as VR.
  destruct (variants_sub s v1 vs1 v2 V1 I2') as (B2 & P2).
  assert (Rg2 : ren_ok g v2) by (apply (ren_ok_sub g v1); assumption).
  destruct (ren_ok_same_wshape g v1 Rg sh b1 W1) as (b0 & W0).
  destruct (ren_ok_same_wshape g v2 Rg2 sh b2 W2) as (b2' & W2').
  pose proof (ws_ren_get g v1 sh b1 b0 Rg W1 W0) as R0.
  pose proof (ws_ren_get g v2 sh b2 b2' Rg2 W2 W2') as R2.
  rewrite <- Esh in VR, W0.
  pose proof (SS i c cb src _ (RenameFacts.ren g v2) b0 b2' Hc G VR (in_map _ _ _ I2') W0 W2') as E.
  destruct (shape_bij_props _ _ _ W1) as (Wb1 & Bb1 & Vb1).
  destruct (shape_bij_props _ _ _ W2) as (Wb2 & Bb2 & Vb2).
  destruct (shape_bij_props _ _ _ W0) as (Wb0 & Bb0 & _).
  destruct (shape_bij_props _ _ _ W2') as (Wb2' & Bb2' & _).
  set (sg := inv b0 ** b1).
  assert (SG : forall x, In x (pub_occ v1) -> get sg (g true x) = Some x).
  { intros x Hx. apply Vb1 in Hx. destruct Hx as (k & Gk). unfold sg.
    rewrite get_compose_partial by apply inverse_wf.
    assert (G0 : get b0 k = Some (g true x)) by (rewrite R0, Gk; reflexivity).
    apply (get_inverse b0 _ _ Wb0 Bb0) in G0. rewrite G0. exact Gk. }
  assert (E0 : b0 ** sg = b1).
  { apply ext_eq; [apply compose_partial_wf|exact Wb1|]. intros k. rewrite get_compose_partial by exact Wb0.
    rewrite R0. destruct (get b1 k) as [x|] eqn:Gk; cbn [option_map]; [|reflexivity].
    apply SG, Vb1. eauto. }
  assert (E2 : b2' ** sg = b2).
  { apply ext_eq; [apply compose_partial_wf|exact Wb2|]. intros k. rewrite get_compose_partial by exact Wb2'.
    rewrite R2. destruct (get b2 k) as [x|] eqn:Gk; cbn [option_map]; [|reflexivity].
    apply SG, P2, Vb2. eauto. }
  assert (Isg : injective sg).
  { apply compose_injective; [apply inverse_wf| |apply is_bijection_injective; assumption].
    apply inv_injective; [exact Wb0|apply is_bijection_injective; assumption]. }
  assert (St : na_get (hashcons s) sh = Some i).
  { apply (tb_bwd s (proj1 Hh) i sh (cb, src)). unfold stored, cnodes. rewrite Hc. exact G. }
  pose proof (lookup_covers s sh (sh, b0) _ Nk W0 (lookup_internal_intro s sh b0 i c cb src St Hc G)) as CA.
  pose proof (lookup_covers s _ (sh, b2') _ Nk W2' (lookup_internal_intro s sh b2' i c cb src St Hc G)) as CB.
  assert (WA : forall b, wf (filt c (inv cb ** b))).
  { intros b. apply (filter_key_wf (fun k => sset_mem k (c_slots c))), compose_partial_wf. }
  pose proof (eg_eq_rename s _ _ sg Hs CA CB (WA b0) (WA b2') Isg) as RN. cbn [aid am] in RN.
  rewrite <- !filt_compose in RN by apply compose_partial_wf.
  rewrite !compose_partial_assoc in RN by (try assumption; apply inverse_wf).
  rewrite E0, E2 in RN. apply RN; [|exact E].
  intros k y Gk. unfold filt in Gk. rewrite (get_filter_key (fun k => sset_mem k (c_slots c))) in Gk.
  destruct (sset_mem k (c_slots c)); [|discriminate].
  rewrite get_compose_partial in Gk by apply inverse_wf.
  destruct (get (inv cb) k) as [k'|]; [|discriminate].
  rewrite R0 in Gk. destruct (get b1 k') as [x|] eqn:Gx; cbn [option_map] in Gk; [|discriminate].
  inversion Gk; subst y. rewrite SG; [discriminate|]. apply Vb1. eauto.
Qed.

Corollary ss_ok_var : forall s, eg_inv s -> nodes_ok s -> hc_ok s -> ss_ok s -> ss_var s.
Proof. intros s Hs Nk Hh SS sh. apply ss_at_var; auto. Qed.

(* NODE-LEVEL CONGRUENCE at one entry: only the self-symmetries of the entry that the lookup hits are needed *)
Theorem node_congruence_at : forall s n l sh b x1 x2, inv3 s -> hc_ok s -> shape s n = Ok (sh, b) -> ss_at s sh ->
  NoDup (binders n) -> Forall2 (kid_eq s) (app_occ n) l ->
  eg_lookup s n = Ok (Some x1) -> eg_lookup s (set_apps n l) = Ok (Some x2) ->
  eg_eq s x1 x2 = Ok true.
Proof.
  intros s n l sh b x1 x2 [[Hs _] Nk] Hh S1 SS. apply (node_congruence_var_at s n l sh b x1 x2 Hs S1).
  apply ss_at_var; assumption.
Qed.

(* NODE-LEVEL CONGRUENCE, from the executable property *)
Theorem node_congruence : forall s n l x1 x2, inv3 s -> hc_ok s -> ss_ok s -> NoDup (binders n) ->
  Forall2 (kid_eq s) (app_occ n) l ->
  eg_lookup s n = Ok (Some x1) -> eg_lookup s (set_apps n l) = Ok (Some x2) ->
  eg_eq s x1 x2 = Ok true.
Proof.
  intros s n l x1 x2 [[Hs _] Nk] Hh SS. apply node_congruence_var; [exact Hs|].
  apply ss_ok_var; assumption.
Qed.

(* ================================================================== *)
(* 5. the per-state checker of `ss_ok` *)

Definition eqtb (s : egraph) (a b : appid) : bool := match eg_eq s a b with Ok true => true | _ => false end.

Definition ss_entryb (s : egraph) (i : N) (c : eclass) (e : node * (slotmap * N)) : bool :=
  let sh := fst e in let cb := fst (snd e) in
  match variants s sh, wshape sh with
  | Ok vs, Ok (_, b0) =>
     forallb (fun v => match wshape v with
        | Ok (shv, bv) => if node_eqb shv sh then
             eqtb s {| aid := i; am := filt c (inv cb ** b0) |} {| aid := i; am := filt c (inv cb ** bv) |}
           else true
        | Err _ => false end) vs
  | _, _ => false end.

Definition ss_okb (s : egraph) : bool :=
  forallb (fun k => match get_class s (N.of_nat k) with
                    | Ok c => forallb (ss_entryb s (N.of_nat k) c) (c_nodes c)
                    | Err _ => true end) (seq 0 (List.length (classes s))).

Theorem ss_okb_sound : forall s, ss_okb s = true -> ss_ok s.
Proof.
  intros s H sh i c cb src vs v b0 bv Hc G V Iv W0 Wv. unfold ss_okb in H.
  assert (Hk : In (N.to_nat i) (seq 0 (List.length (classes s)))).
  { apply in_seq. unfold get_class in Hc. destruct (nth_opt (classes s) (N.to_nat i)) as [c'|] eqn:E; [|discriminate].
    apply nth_opt_lt in E. lia. }
  pose proof (proj1 (forallb_forall _ _) H _ Hk) as H1. cbn beta in H1.
  rewrite N2Nat.id, Hc in H1.
  pose proof (proj1 (forallb_forall _ _) H1 _ (na_get_in _ _ _ G)) as H2.
  unfold ss_entryb in H2. cbn [fst snd] in H2. rewrite V, W0 in H2.
  pose proof (proj1 (forallb_forall _ _) H2 _ Iv) as H3. cbn beta in H3. rewrite Wv, node_eqb_refl in H3.
  unfold eqtb in H3. destruct (eg_eq s _ _) as [[|]|]; try discriminate. reflexivity.
Qed.

Corollary node_congruence_checked : forall s n l x1 x2, inv3 s -> hc_ok s -> ss_okb s = true -> NoDup (binders n) ->
  Forall2 (kid_eq s) (app_occ n) l ->
  eg_lookup s n = Ok (Some x1) -> eg_lookup s (set_apps n l) = Ok (Some x2) ->
  eg_eq s x1 x2 = Ok true.
Proof. intros s n l x1 x2 I3 Hh SS. apply node_congruence; try assumption. apply ss_okb_sound. exact SS. Qed.

(* ================================================================== *)
(* 6. TERM LEVEL *)

Lemma eg_lookup_covers : forall s n x, nodes_ok s -> eg_lookup s n = Ok (Some x) -> covers s x.
Proof.
  intros s n x Nk H. unfold eg_lookup in H. destruct (shape s n) as [t|] eqn:S; cbn [bind] in H; [|discriminate].
  unfold shape in S. destruct (pre_shape s n) as [p|]; cbn [bind] in S; [|discriminate].
  exact (lookup_covers s p t x Nk S H).
Qed.

(* the children of a found term are found, and the root is the lookup of the node over their invocations *)
Lemma lookup_rec_inv : forall s n ch x, lookup_rec s (RT n ch) = Ok (Some x) ->
  exists l, Forall2 (fun c a => lookup_rec s c = Ok (Some a)) ch l /\
    (List.length l <= List.length (app_occ n))%nat /\ eg_lookup s (set_apps n l) = Ok (Some x).
Proof.
  intros s n ch x H. cbn [lookup_rec] in H.
  match type of H with context [bind (?go ch) _] => set (G := go) in * end.
  assert (K : forall l, G ch = Ok (Some l) -> Forall2 (fun c a => lookup_rec s c = Ok (Some a)) ch l).
  { clear H. induction ch as [|c r IHr]; intros l Hl; cbn in Hl.
    - inversion Hl. constructor.
    - destruct (lookup_rec s c) as [[ac|]|] eqn:Ec; cbn [bind] in Hl; try discriminate.
      destruct (G r) as [[lr|]|] eqn:Er; cbn [bind] in Hl; try discriminate. inversion Hl; subst l.
      constructor; [exact Ec|apply IHr; reflexivity]. }
  destruct (G ch) as [[l|]|] eqn:Eg; cbn [bind] in H; try discriminate.
  exists l. split; [apply K; reflexivity|].
  destruct (Nat.ltb (List.length (app_occ n)) (List.length l)) eqn:E; [discriminate|].
  apply Nat.ltb_ge in E. split; [exact E|exact H].
Qed.

Lemma lookup_rec_covers : forall s t a, nodes_ok s -> lookup_rec s t = Ok (Some a) -> covers s a.
Proof.
  intros s [n ch] a Nk H. destruct (lookup_rec_inv _ _ _ _ H) as (l & _ & _ & Q). exact (eg_lookup_covers _ _ _ Nk Q).
Qed.

(* CONGRUENT TERMS over a state: found terms with equal invocations, closed under "same node over
   pairwise congruent children" (one child per position, binder names of the node pairwise distinct) *)
Fixpoint tcong (s : egraph) (t1 t2 : rterm) {struct t1} : Prop :=
  (exists x1 x2, lookup_rec s t1 = Ok (Some x1) /\ lookup_rec s t2 = Ok (Some x2) /\ eg_eq s x1 x2 = Ok true) \/
  match t1, t2 with
  | RT n1 ch1, RT n2 ch2 =>
      n1 = n2 /\ NoDup (binders n1) /\ List.length ch1 = List.length (app_occ n1) /\
      (fix go (l1 l2 : list rterm) {struct l1} : Prop :=
         match l1, l2 with
         | [], [] => True
         | c1 :: r1, c2 :: r2 => tcong s c1 c2 /\ go r1 r2
         | _, _ => False
         end) ch1 ch2
  end.

Theorem term_congruence : forall s, inv3 s -> hc_ok s -> ss_ok s ->
  forall t1 t2 x1 x2, tcong s t1 t2 -> lookup_rec s t1 = Ok (Some x1) -> lookup_rec s t2 = Ok (Some x2) ->
  eg_eq s x1 x2 = Ok true.
Proof.
  intros s I3 Hh SS. pose proof I3 as [[Hs _] Nk].
  fix IH 1. intros [n1 ch1] [n2 ch2] x1 x2 T L1 L2. cbn [tcong] in T.
  destruct T as [(y1 & y2 & M1 & M2 & E)|(<- & ND & Len & T)].
  - rewrite L1 in M1. rewrite L2 in M2. inversion M1; inversion M2; subst. exact E.
  - destruct (lookup_rec_inv s n1 ch1 x1 L1) as (l1 & F1 & Le1 & Q1).
    destruct (lookup_rec_inv s n1 ch2 x2 L2) as (l2 & F2 & Le2 & Q2).
    pose proof (Forall2_length' _ _ _ F1) as Ll1. pose proof (Forall2_length' _ _ _ F2) as Ll2.
    assert (K : Forall2 (kid_eq s) l1 l2).
    { clear Q1 Q2 Le1 Le2 Len L1 L2 Ll1 Ll2. revert ch2 l1 l2 T F1 F2.
      induction ch1 as [|c1 r1 IHr]; intros ch2 l1 l2 T F1 F2; destruct ch2 as [|c2 r2]; try contradiction.
      - inversion F1; inversion F2; subst. constructor.
      - destruct T as (Tc & Tr). inversion F1 as [|? a1 ? t1 Ha1 Ht1]; subst. inversion F2 as [|? a2 ? t2 Ha2 Ht2]; subst.
        constructor; [|exact (IHr r2 t1 t2 Tr Ht1 Ht2)].
        split; [exact (lookup_rec_covers _ _ _ Nk Ha1)|]. split; [exact (lookup_rec_covers _ _ _ Nk Ha2)|].
        exact (IH c1 c2 a1 a2 Tc Ha1 Ha2). }
    assert (O1 : app_occ (set_apps n1 l1) = l1) by (apply app_occ_set_apps; lia).
    pose proof (Forall2_length' _ _ _ K) as LK.
    apply (node_congruence s (set_apps n1 l1) l2 x1 x2 I3 Hh SS).
    + rewrite binders_set_apps by lia. exact ND.
    + rewrite O1. exact K.
    + exact Q1.
    + rewrite set_apps_twice by lia. exact Q2.
Qed.

(* ================================================================== *)
(* 7. handles: re-insertion, insertion of congruent terms *)

(* a is a handle of the term t in s: t is found, and the invocation found is equal to a *)
Definition rep (s : egraph) (t : rterm) (a : appid) : Prop :=
  covers s a /\ exists x, lookup_rec s t = Ok (Some x) /\ eg_eq s x a = Ok true.
Definition repb (s : egraph) (t : rterm) (a : appid) : bool :=
  coversb s a && match lookup_rec s t with Ok (Some x) => eqtb s x a | _ => false end.

Lemma repb_sound : forall s t a, repb s t a = true -> rep s t a.
Proof.
  intros s t a H. unfold repb in H. apply andb_prop in H. destruct H as (C & H).
  split; [apply coversb_sound; exact C|]. destruct (lookup_rec s t) as [[x|]|]; try discriminate.
  exists x. split; [reflexivity|]. unfold eqtb in H. destruct (eg_eq s x a) as [[|]|]; try discriminate. reflexivity.
Qed.

Theorem handles_congruent : forall s t1 t2 a1 a2, inv3 s -> hc_ok s -> ss_ok s ->
  rep s t1 a1 -> rep s t2 a2 -> tcong s t1 t2 -> eg_eq s a1 a2 = Ok true.
Proof.
  intros s t1 t2 a1 a2 I3 Hh SS (C1 & x1 & L1 & E1) (C2 & x2 & L2 & E2) T. pose proof I3 as [[Hs _] Nk].
  pose proof (lookup_rec_covers _ _ _ Nk L1) as Cx1. pose proof (lookup_rec_covers _ _ _ Nk L2) as Cx2.
  pose proof (term_congruence s I3 Hh SS t1 t2 x1 x2 T L1 L2) as E.
  apply (eg_eq_trans_true s a1 x1 a2 Hs C1 Cx1 C2); [apply eg_eq_sym_true; assumption|].
  apply (eg_eq_trans_true s x1 x2 a2 Hs Cx1 Cx2 C2); assumption.
Qed.

(* re-inserting a term that has a handle: nothing changes, and the new handle is equal to the old one *)
Theorem reinsert_equal : forall s t a a' s', inv3 s -> rep s t a -> add_expr t s = Ok (a', s') ->
  s' = s /\ eg_eq s' a a' = Ok true.
Proof.
  intros s t a a' s' [[Hs _] Nk] (C & x & L & E) H. rewrite (lookup_rec_add_expr t s x L) in H.
  inversion H; subst a' s'. split; [reflexivity|].
  apply eg_eq_sym_true; try assumption. exact (lookup_rec_covers _ _ _ Nk L).
Qed.

(* inserting two congruent found terms, in either order: nothing changes, the handles are equal *)
Theorem insert_congruent : forall s t1 t2 x1 x2 a1 s1 a2 s2, inv3 s -> hc_ok s -> ss_ok s ->
  tcong s t1 t2 -> lookup_rec s t1 = Ok (Some x1) -> lookup_rec s t2 = Ok (Some x2) ->
  add_expr t1 s = Ok (a1, s1) -> add_expr t2 s1 = Ok (a2, s2) ->
  s1 = s /\ s2 = s /\ eg_eq s2 a1 a2 = Ok true.
Proof.
  intros s t1 t2 x1 x2 a1 s1 a2 s2 I3 Hh SS T L1 L2 H1 H2.
  rewrite (lookup_rec_add_expr t1 s x1 L1) in H1. inversion H1; subst a1 s1.
  rewrite (lookup_rec_add_expr t2 s x2 L2) in H2. inversion H2; subst a2 s2.
  split; [reflexivity|]. split; [reflexivity|]. exact (term_congruence s I3 Hh SS t1 t2 x1 x2 T L1 L2).
Qed.

(* ================================================================== *)
(* 8. UNION + CONGRUENCE, immediately *)

Definition swap_ab (a b p q : appid) : Prop := p = q \/ (p = a /\ q = b) \/ (p = b /\ q = a).

Theorem union_congruence : forall a b s u s', inv3 s -> hc_ok s -> covers s a -> covers s b ->
  eg_union a b s = Ok (u, s') -> ss_ok s' ->
  inv3 s' /\ hc_ok s' /\ pending s' = [] /\ eg_eq s' a b = Ok true /\
  forall n l x1 x2, NoDup (binders n) -> Forall (covers s') (app_occ n) -> Forall2 (swap_ab a b) (app_occ n) l ->
    eg_lookup s' n = Ok (Some x1) -> eg_lookup s' (set_apps n l) = Ok (Some x2) -> eg_eq s' x1 x2 = Ok true.
Proof.
  intros a b s u s' I3 Hh Ca Cb H SS.
  destruct (eg_union_inv3 a b s u s' I3 Ca Cb H) as (I3' & E).
  pose proof (hc_ok_eg_union a b s u s' I3 Ca Cb H Hh) as Hh'.
  pose proof (eg_union_establishes a b s u s' I3 Ca Cb H) as Eab.
  pose proof (covers_ext _ _ _ E Ca) as Ca'. pose proof (covers_ext _ _ _ E Cb) as Cb'.
  pose proof I3' as [[Hs' _] _].
  split; [exact I3'|]. split; [exact Hh'|]. split; [exact (eg_union_drains a b s u s' H)|]. split; [exact Eab|].
  intros n l x1 x2 ND Cv F L1 L2. apply (node_congruence s' n l x1 x2 I3' Hh' SS ND); [|exact L1|exact L2].
  clear L1 L2. induction F as [|p q lp lq Hpq F IH]; [constructor|].
  inversion Cv as [|? ? Cp Ct]; subst. constructor; [|exact (IH Ct)].
  destruct Hpq as [<-|[(-> & ->)|(-> & ->)]].
  - split; [exact Cp|]. split; [exact Cp|]. apply eg_eq_refl_inv; [exact (ei_uf _ Hs')|exact (ei_slots _ Hs')|exact Cp].
  - split; [exact Ca'|]. split; [exact Cb'|]. exact Eab.
  - split; [exact Cb'|]. split; [exact Ca'|]. apply eg_eq_sym_true; assumption.
Qed.

(* ================================================================== *)
(* 9. stored e-nodes: two congruent e-nodes listed for the classes i1 and i2 have equal invocations of
   i1 and i2 (congruent e-nodes are never kept apart) *)

Theorem stored_congruent : forall s i1 i2 sh1 bij1 src1 sh2 bij2 src2 nd1 l,
  inv3 s -> hc_ok s -> pending s = [] -> bij4 s -> ss_ok s ->
  stored s i1 sh1 (bij1, src1) -> apply_slotmap false bij1 sh1 = Ok nd1 ->
  stored s i2 sh2 (bij2, src2) -> apply_slotmap false bij2 sh2 = Ok (set_apps nd1 l) ->
  NoDup (binders nd1) -> Forall2 (kid_eq s) (app_occ nd1) l ->
  exists x1 x2, aid x1 = i1 /\ aid x2 = i2 /\ eg_eq s x1 x2 = Ok true.
Proof.
  intros s i1 i2 sh1 bij1 src1 sh2 bij2 src2 nd1 l I3 Hh Pe B4 SS S1 A1 S2 A2 ND K.
  pose proof I3 as [_ Nk].
  destruct (stored_enode_lookup s i1 sh1 bij1 src1 nd1 Hh Pe Nk B4 S1 A1) as (x1 & L1 & Ex1).
  destruct (stored_enode_lookup s i2 sh2 bij2 src2 _ Hh Pe Nk B4 S2 A2) as (x2 & L2 & Ex2).
  exists x1, x2. split; [exact Ex1|]. split; [exact Ex2|].
  exact (node_congruence s nd1 l x1 x2 I3 Hh SS ND K L1 L2).
Qed.

(* ... hence the two classes have the same leader in the union-find: congruent stored e-nodes are in ONE e-class *)
Corollary stored_congruent_same_class : forall s i1 i2 sh1 bij1 src1 sh2 bij2 src2 nd1 l,
  inv3 s -> hc_ok s -> pending s = [] -> bij4 s -> ss_ok s ->
  stored s i1 sh1 (bij1, src1) -> apply_slotmap false bij1 sh1 = Ok nd1 ->
  stored s i2 sh2 (bij2, src2) -> apply_slotmap false bij2 sh2 = Ok (set_apps nd1 l) ->
  NoDup (binders nd1) -> Forall2 (kid_eq s) (app_occ nd1) l ->
  exists p1 p2, unionfind_get s i1 = Ok p1 /\ unionfind_get s i2 = Ok p2 /\ aid p1 = aid p2.
Proof.
  intros s i1 i2 sh1 bij1 src1 sh2 bij2 src2 nd1 l I3 Hh Pe B4 SS S1 A1 S2 A2 ND K.
  destruct (stored_congruent s i1 i2 sh1 bij1 src1 sh2 bij2 src2 nd1 l I3 Hh Pe B4 SS S1 A1 S2 A2 ND K)
    as (x1 & x2 & <- & <- & E).
  destruct (eg_eq_true_inv _ _ _ E) as (a' & b' & c & Fa & Fb & Ei & _).
  unfold find_applied_id in Fa, Fb.
  destruct (unionfind_get s (aid x1)) as [p1|]; cbn [bind] in Fa; [|discriminate].
  destruct (unionfind_get s (aid x2)) as [p2|]; cbn [bind] in Fb; [|discriminate].
  inversion Fa; subst a'. inversion Fb; subst b'. cbn [aid] in Ei. exists p1, p2. auto.
Qed.

Lemma ss_ok_empty : ss_ok empty_egraph.
Proof. intros sh i c cb src vs v b0 bv Hc. unfold get_class in Hc. cbn in Hc. destruct (N.to_nat i); discriminate. Qed.

(* ================================================================== *)
(* 10. the relation on FOUND terms: an equivalence closed under congruence *)

Definition Rt (s : egraph) (t1 t2 : rterm) : Prop :=
  exists x1 x2, lookup_rec s t1 = Ok (Some x1) /\ lookup_rec s t2 = Ok (Some x2) /\ eg_eq s x1 x2 = Ok true.

Lemma Rt_tcong : forall s t1 t2, Rt s t1 t2 -> tcong s t1 t2.
Proof. intros s [n1 ch1] [n2 ch2] H. cbn [tcong]. left. exact H. Qed.

Theorem Rt_equivalence : forall s, inv3 s ->
  (forall t x, lookup_rec s t = Ok (Some x) -> Rt s t t) /\
  (forall t1 t2, Rt s t1 t2 -> Rt s t2 t1) /\
  (forall t1 t2 t3, Rt s t1 t2 -> Rt s t2 t3 -> Rt s t1 t3).
Proof.
  intros s [[Hs _] Nk]. split; [|split].
  - intros t x L. exists x, x. split; [exact L|]. split; [exact L|].
    apply eg_eq_refl_inv; [exact (ei_uf _ Hs)|exact (ei_slots _ Hs)|exact (lookup_rec_covers _ _ _ Nk L)].
  - intros t1 t2 (x1 & x2 & L1 & L2 & E). exists x2, x1. split; [exact L2|]. split; [exact L1|].
    apply eg_eq_sym_true; try assumption; eapply lookup_rec_covers; eauto.
  - intros t1 t2 t3 (x1 & x2 & L1 & L2 & E) (y2 & x3 & M2 & L3 & E'). rewrite L2 in M2. inversion M2; subst y2.
    exists x1, x3. split; [exact L1|]. split; [exact L3|].
    apply (eg_eq_trans_true s x1 x2 x3 Hs); try assumption; eapply lookup_rec_covers; eauto.
Qed.

(* closed under congruence for represented terms: the same node over pairwise related children *)
Theorem Rt_congruence : forall s n ch1 ch2 x1 x2, inv3 s -> hc_ok s -> ss_ok s ->
  NoDup (binders n) -> List.length ch1 = List.length (app_occ n) -> Forall2 (Rt s) ch1 ch2 ->
  lookup_rec s (RT n ch1) = Ok (Some x1) -> lookup_rec s (RT n ch2) = Ok (Some x2) ->
  Rt s (RT n ch1) (RT n ch2).
Proof.
  intros s n ch1 ch2 x1 x2 I3 Hh SS ND Len F L1 L2. exists x1, x2. split; [exact L1|]. split; [exact L2|].
  apply (term_congruence s I3 Hh SS (RT n ch1) (RT n ch2) x1 x2); [|exact L1|exact L2].
  cbn [tcong]. right. split; [reflexivity|]. split; [exact ND|]. split; [exact Len|].
  clear L1 L2 Len. induction F as [|c1 c2 r1 r2 Hc F IH]; [exact I|]. split; [apply Rt_tcong; exact Hc|exact IH].
Qed.

(* ================================================================== *)
(* 11. reachable states *)

Theorem reachable_node_congruence : forall terms ops hs s, ops_pre terms ops [] empty_egraph ->
  run_ops terms ops [] empty_egraph = Ok (hs, s) -> ss_ok s ->
  pending s = [] /\
  (forall n l x1 x2, NoDup (binders n) -> Forall2 (kid_eq s) (app_occ n) l ->
     eg_lookup s n = Ok (Some x1) -> eg_lookup s (set_apps n l) = Ok (Some x2) -> eg_eq s x1 x2 = Ok true) /\
  (forall t1 t2 x1 x2, tcong s t1 t2 -> lookup_rec s t1 = Ok (Some x1) -> lookup_rec s t2 = Ok (Some x2) ->
     eg_eq s x1 x2 = Ok true) /\
  (forall t1 t2 a1 a2, rep s t1 a1 -> rep s t2 a2 -> tcong s t1 t2 -> eg_eq s a1 a2 = Ok true) /\
  (forall t a a' s', rep s t a -> add_expr t s = Ok (a', s') -> s' = s /\ eg_eq s' a a' = Ok true).
Proof.
  intros terms ops hs s A H SS. pose proof (hc_ok_reachable _ _ _ _ A H) as Hh.
  destruct (reachable_inv3 _ _ _ _ H) as [I3 _].
  split; [exact (reachable_no_pending_empty _ _ _ _ H)|].
  split; [intros; eapply node_congruence; eauto|].
  split; [intros; eapply term_congruence; eauto|].
  split; [intros; eapply handles_congruent; eauto|].
  intros; eapply reinsert_equal; eauto.
Qed.

(* ================================================================== *)
(* 12. executable checks and counterexamples *)

Fixpoint prefixes {A} (l : list A) : list (list A) :=
  match l with [] => [[]] | x :: t => [] :: map (cons x) (prefixes t) end.
Definition add_idx (ops : list hop) : list nat := flat_map (fun o => match o with HAdd k => [k] | _ => [] end) ops.
(* every handle returned so far is still a handle of its term *)
Definition handles_repb (terms : list rterm) (ops : list hop) (hs : list appid) (s : egraph) : bool :=
  forallb (fun p => match nth_opt terms (fst p) with Some t => repb s t (snd p) | None => false end) (combine (add_idx ops) hs).
(* after EVERY prefix of the history: ss_okb, and all handles are handles *)
Definition cong_chk (p : list rterm * list hop) : bool :=
  forallb (fun ops => match run_ops (fst p) ops [] empty_egraph with
     | Ok (hs, s) => ss_okb s && handles_repb (fst p) ops hs s && Nat.eqb (List.length hs) (List.length (add_idx ops))
     | Err _ => false end) (prefixes (snd p)).
(* the number of (stored entry, variant) pairs with the weak shape of the entry and another bijection:
   the instances on which ss_okb is not trivially true *)
Definition nsym (s : egraph) : nat :=
  fold_left (fun acc c => fold_left (fun acc e =>
     match variants s (fst e), wshape (fst e) with
     | Ok vs, Ok (_, b0) => (acc + List.length (filter (fun v => match wshape v with Ok (shv, bv) => node_eqb shv (fst e) && negb (eqb_map bv b0) | _ => false end) vs))%nat
     | _, _ => acc end) (c_nodes c) acc) (classes s) 0%nat.

(* f(x,y) = f(y,x) below b(f(x,y), f(y,x)), u(b(..)), lam x. b(..), b(f(x,y), f(y,z)), lam y. b(f(x,y), f(y,z)); then f3 with a 3-cycle *)
Definition zT13 := [xs2 2 2 6; xs2 2 6 2; xbin 4 (xs2 2 2 6) (xs2 2 6 2); xun 3 (xbin 4 (xs2 2 2 6) (xs2 2 6 2));
  xlam 2 (xbin 4 (xs2 2 2 6) (xs2 2 6 2)); xbin 4 (xs2 2 2 6) (xs2 2 6 10); xlam 6 (xbin 4 (xs2 2 2 6) (xs2 2 6 10));
  xs3 8 2 6 10; xs3 8 6 10 2; xbin 4 (xs3 8 2 6 10) (xs2 2 2 6); xbin 4 (xs3 8 6 10 2) (xs2 2 6 2); xun 3 (xbin 4 (xs3 8 2 6 10) (xs2 2 2 6))].
Definition zO13 := [HAdd 2; HAdd 3; HAdd 4; HAdd 5; HAdd 6; HAdd 0; HAdd 1; xU 5 6; HAdd 2; HAdd 3; HAdd 4; HAdd 5; HAdd 6;
  HAdd 9; HAdd 10; HAdd 11; HAdd 7; HAdd 8; xU 15 16; HAdd 9; HAdd 10; HAdd 11; xU 13 14; HAdd 11; xU 7 8; xU 0 3].

Definition cong_hists := [(xT1, xO1); (xT2, xO2); (xT3, xO3); (xT4, xO4); (xT5, xO5); (xT6, xO6);
     (yT7, yO7); (yT8, yO8); (yT9, yO9); (yT10, yO10); (yT11, yO11); (yT12, yO12); (zT13, zO13)].

Example cong_histories_checked : map cong_chk cong_hists
  = [true; true; true; true; true; true; true; true; true; true; true; true; true].
Proof. vm_compute. reflexivity. Qed.

(* the check is not vacuous: final states with variants that have the shape of the entry and another bijection *)
Example cong_histories_nontrivial :
  map (fun p => match run_ops (fst p) (snd p) [] empty_egraph with Ok (_, s) => nsym s | Err _ => 0%nat end)
      [(xT1, xO1); (xT5, xO5); (zT13, zO13)] = [1%nat; 10%nat; 2%nat].
Proof. vm_compute. reflexivity. Qed.

(* the state between `union_internal` and `rebuild` *)
Definition mid_state (ts : list rterm) (ops : list hop) (i j : nat) : res (list appid * egraph) :=
  match run_ops ts ops [] empty_egraph with
  | Ok (hs, s) => match nth_opt hs i, nth_opt hs j with
      | Some a, Some b => match uint a b s with Ok (_, s1) => Ok (hs, s1) | Err e => Err e end
      | _, _ => Err OutOfBounds end
  | Err e => Err e end.

(* COUNTEREXAMPLE 1 (node level, pending <> []): f(x,y) = f(y,x) with the parent u(f(x,y)), after union_internal
   and before rebuild.  The tables are consistent (hc_allb), one entry is pending, ss_okb is FALSE; the children
   f(x,y) and f(y,x) are equal, both u(f(x,y)) and u(f(y,x)) are found (in the same class), and the invocations
   found are NOT equal: the symmetry of the parent has not been derived yet.  So the node-level statement is
   false on the states with inv3 and hc_ok alone; `ss_ok` (true when pending = [], see below) is the missing premise. *)
Example node_congruence_false_mid_union :
  match mid_state [xs2 2 2 6; xs2 2 6 2; xun 3 (xs2 2 2 6)] [HAdd 0; HAdd 1; HAdd 2] 0 1 with
  | Ok (hs, s) =>
      match nth_opt hs 0, nth_opt hs 1 with
      | Some a, Some b =>
          let n := {| nvar := 3; nargs := [AApp a] |} in
          match eg_lookup s n, eg_lookup s (set_apps n [b]) with
          | Ok (Some x1), Ok (Some x2) =>
              Some (hc_allb s, eg_invb s && nodes_okb s, List.length (pending s), ss_okb s, eg_eq s a b, aid x1 =? aid x2, eg_eq s x1 x2)
          | _, _ => None end
      | _, _ => None end
  | Err _ => None end
  = Some (true, true, 1%nat, false, Ok true, true, Ok false).
Proof. vm_compute. reflexivity. Qed.

(* COUNTEREXAMPLE 2 (handles, pending <> []): a = b with the parents u(a), u(b), after union_internal and before
   rebuild: ss_okb holds, but the handle of u(a) is no longer a handle (`repb` false: the lookup of u(a) now finds
   the class of u(b)) and the handles of u(a) and u(b) are not equal.  After the rebuild both hold. *)
Example handles_false_mid_union :
  match mid_state [xc0 5; xc0 6; xun 3 (xc0 5); xun 3 (xc0 6)] [HAdd 0; HAdd 1; HAdd 2; HAdd 3] 0 1 with
  | Ok (hs, s) =>
      match nth_opt hs 2, nth_opt hs 3 with
      | Some a, Some b =>
          match rebuild rebuild_fuel s with
          | Ok (_, s') =>
             Some (ss_okb s, List.length (pending s), eg_eq s a b, repb s (xun 3 (xc0 5)) a && repb s (xun 3 (xc0 6)) b,
                   ss_okb s', List.length (pending s'), eg_eq s' a b, repb s' (xun 3 (xc0 5)) a && repb s' (xun 3 (xc0 6)) b)
          | Err _ => None end
      | _, _ => None end
  | Err _ => None end
  = Some (true, 2%nat, Ok false, false, true, 0%nat, Ok true, true).
Proof. vm_compute. reflexivity. Qed.

(* ------------------------------------------------------------------ *)
Print Assumptions shape_kid_eq_strong.
Print Assumptions node_congruence_var.
Print Assumptions ss_at_var.
Print Assumptions node_congruence_at.
Print Assumptions ss_ok_var.
Print Assumptions node_congruence.
Print Assumptions ss_okb_sound.
Print Assumptions node_congruence_checked.
Print Assumptions term_congruence.
Print Assumptions handles_congruent.
Print Assumptions reinsert_equal.
Print Assumptions insert_congruent.
Print Assumptions union_congruence.
Print Assumptions stored_congruent.
Print Assumptions stored_congruent_same_class.
Print Assumptions ss_ok_empty.
Print Assumptions Rt_equivalence.
Print Assumptions Rt_congruence.
Print Assumptions reachable_node_congruence.
Print Assumptions cong_histories_checked.
Print Assumptions cong_histories_nontrivial.
Print Assumptions node_congruence_false_mid_union.
Print Assumptions handles_false_mid_union.
