(* EGraph/EntriesPersist.v — the union core only MOVES entries between classes: every (key, source id) pair
   stored in some class after a step of the union core was already stored in some class before it.
   The development follows the pS_* lemmas of SoundStruct.v. *)
From SE Require Import Slots.SlotMapFacts Group.GroupSound Lang.LangFacts Lang.ShapeFacts Lang.RenameFacts
  Base.TextFacts EGraph.Model EGraph.ModelFacts EGraph.ModelMachine EGraph.UnionFindFacts EGraph.InvariantFacts
  EGraph.UnionInvariantFacts EGraph.AddCoversFacts EGraph.MonotoneFacts EGraph.SoundFacts EGraph.SoundUnion
  EGraph.SoundSyn EGraph.SoundNode EGraph.SoundPending EGraph.SoundStruct.
From SE Require Import Sem.Deriv Sem.DerivFacts Explain.CheckerFacts.
Require Import ZArith Lia ZifyBool ZifyN ZifyNat.
Ltac Zify.zify_post_hook ::= Z.div_mod_to_equations.

Local Notation "a ** b" := (compose_partial a b) (at level 40, left associativity).
Local Notation inv := inverse_nocheck.
Local Notation ectr := Model.ctr.

Local Ltac neq := repeat match goal with
  | H : (_ =? _) = true |- _ => apply N.eqb_eq in H
  | H : (_ =? _) = false |- _ => apply N.eqb_neq in H
  end.

(* ====================================================================== *)
(* 1. the relation                                                         *)
(* ====================================================================== *)

Definition has_entry (s : egraph) (sh : node) (src : N) : Prop :=
  exists j c bij, get_class s j = Ok c /\ In (sh, (bij, src)) (c_nodes c).
Definition EP (s s' : egraph) : Prop := forall sh src, has_entry s' sh src -> has_entry s sh src.
(* entries persist, except possibly for one (key, source) pair *)
Definition EPx (sh : node) (src : N) (s s' : egraph) : Prop :=
  forall sh' src', has_entry s' sh' src' -> has_entry s sh' src' \/ (sh' = sh /\ src' = src).

Lemma EP_refl : forall s, EP s s.
Proof. intros s sh src H. exact H. Qed.
Lemma EP_trans : forall a b c, EP a b -> EP b c -> EP a c.
Proof. intros a b c H1 H2 sh src H. apply H1. apply H2. exact H. Qed.

Lemma EPx_EP : forall sh src s s', EPx sh src s s' -> has_entry s sh src -> EP s s'.
Proof. intros sh src s s' X E sh' src' H. destruct (X _ _ H) as [O|[-> ->]]; [exact O|exact E]. Qed.

(* ====================================================================== *)
(* 2. the combinators                                                      *)
(* ====================================================================== *)

Local Notation pE := (pres EP).
Lemma pE_bind : forall A C (m : M A) (k : A -> M C), pE m -> (forall a, pE (k a)) -> pE (mbind m k).
Proof. apply (pres_bind EP EP_trans). Qed.
Lemma pE_ret : forall A (a : A), pE (ret a).
Proof. apply (pres_ret EP EP_refl). Qed.
Lemma pE_reads : forall A (f : egraph -> res A), pE (reads f).
Proof. apply (pres_reads EP EP_refl). Qed.
Lemma pE_lift : forall A (r : res A), pE (Model.lift r).
Proof. apply (pres_lift EP EP_refl). Qed.
Lemma pE_iterM : forall A (f : A -> M unit) l, (forall x, pE (f x)) -> pE (iterM f l).
Proof. apply (pres_iterM EP EP_refl EP_trans). Qed.

Lemma EP_nodes_same : forall s s', nodes_same s s' -> EP s s'.
Proof.
  intros s s' H sh src (j & c' & bij & Hc' & Hin). destruct (H _ _ Hc') as (c & Hc & En).
  exists j, c, bij. split; [exact Hc|]. rewrite <- En. exact Hin.
Qed.

(* every step that keeps the nodes of all classes *)
Lemma pE_npres : forall A (m : M A), pres nsame m -> pE m.
Proof. intros A m H s x s' E. apply EP_nodes_same. apply nsame_nodes_same. eapply H; eauto. Qed.

Lemma pE_pending_insert : forall sh ty, pE (pending_insert sh ty).
Proof. intros sh ty. apply pE_npres. apply n_pending_insert. Qed.
Lemma pE_touched_class : forall i ty, pE (touched_class i ty).
Proof. intros i ty. apply pE_npres. apply n_touched_class. Qed.
Lemma pE_with_ctr : forall A (f : N -> A * N), pE (with_ctr f).
Proof. intros A f. apply pE_npres. apply n_with_ctr. Qed.
Lemma pE_fresh : pE fresh.
Proof. apply pE_npres. apply n_fresh. Qed.
Lemma pE_fill_fresh : forall l m, pE (fill_fresh l m).
Proof. intros l m. apply pE_npres. apply n_fill_fresh. Qed.
Lemma pE_synify_app_id : forall a, pE (synify_app_id a).
Proof. intros a. apply pE_npres. apply n_synify_app_id. Qed.
Lemma pE_synify_enode : forall n, pE (synify_enode n).
Proof. intros n. apply pE_npres. apply n_synify_enode. Qed.
Lemma pE_pc_congruence : forall a b, pE (pc_congruence a b).
Proof. intros a b. apply pE_npres. apply n_pc_congruence. Qed.
Lemma pE_ufset : forall i p, pE (unionfind_set i p).
Proof. intros i p. apply pE_npres. apply n_unionfind_set. Qed.

(* a class update that keeps the nodes *)
Lemma pE_upd_class : forall i f, (forall c, c_nodes (f c) = c_nodes c) -> pE (upd_class i f).
Proof.
  intros i f Hf s x s' H. apply EP_nodes_same.
  apply upd_class_inv in H. destruct H as (c & Hc & ->). pose proof (get_class_lt _ _ _ Hc) as L.
  intros j cj Hj. rewrite (get_class_upd s i (f c) j L) in Hj. destruct (j =? i) eqn:Ej; neq.
  - subst j. inversion Hj; subst cj. exists c. split; [exact Hc|apply Hf].
  - exists cj. auto.
Qed.

Lemma pE_witness : forall i cap, pE (record_redundancy_witness i cap).
Proof.
  intros i cap. unfold record_redundancy_witness. apply pE_bind; [apply pE_reads|]. intros ss. apply pE_ufset.
Qed.

(* the entries after raw_add_to_class: the old ones, and the added (key, source) *)
Lemma raw_add_entries : forall id sh bij src s x s', raw_add_to_class id (sh, bij) src s = Ok (x, s') ->
  forall sh' src', has_entry s' sh' src' -> has_entry s sh' src' \/ (sh' = sh /\ src' = src).
Proof.
  intros id sh bij src s x s' H sh' src' (j & cj & bij' & Hj & Hin).
  destruct (SoundPending.raw_add_nodes _ _ _ _ _ _ _ H _ _ _ Hj Hin) as [[_ Eq]|(c & Hc & Hin0)].
  - right. inversion Eq. split; reflexivity.
  - left. exists j, c, bij'. split; assumption.
Qed.

Lemma raw_add_EPx : forall id sh bij src s x s', raw_add_to_class id (sh, bij) src s = Ok (x, s') -> EPx sh src s s'.
Proof. intros id sh bij src s x s' H sh' src' E. exact (raw_add_entries _ _ _ _ _ _ _ H _ _ E). Qed.

(* adding an entry whose (key, source) is already stored somewhere *)
Lemma pE_raw_add : forall id sh bij src s x s', raw_add_to_class id (sh, bij) src s = Ok (x, s') ->
  has_entry s sh src -> EP s s'.
Proof. intros id sh bij src s x s' H E. exact (EPx_EP _ _ _ _ (raw_add_EPx _ _ _ _ _ _ _ H) E). Qed.

(* entries only disappear *)
Lemma raw_remove_entries : forall id sh s p s', raw_remove_from_class id sh s = Ok (p, s') -> EP s s'.
Proof.
  intros id sh s p s' H sh' src' (j & cj & bij' & Hj & Hin).
  destruct (SoundPending.raw_remove_nodes _ _ _ _ _ H _ _ _ Hj Hin) as (c & Hc & Hin0).
  exists j, c, bij'. split; assumption.
Qed.

Lemma pE_raw_remove : forall id sh, pE (raw_remove_from_class id sh).
Proof. intros id sh s p s' H. exact (raw_remove_entries _ _ _ _ _ H). Qed.

(* ====================================================================== *)
(* 3. move_to                                                              *)
(* ====================================================================== *)

(* relative to a fixed reference state s0 in which the moved (key, source) is stored *)
Lemma pE_move_body : forall s0 idf idt mi sh bij src, has_entry s0 sh src ->
  forall s x s',
  (dom _ <- raw_remove_from_class idf sh;
   dom new_bij <- with_ctr (compose_fresh bij mi);
   dom _ <- raw_add_to_class idt (sh, new_bij) src;
   pending_insert sh true) s = Ok (x, s') -> EP s0 s -> EP s0 s'.
Proof.
  intros s0 idf idt mi sh bij src E0 s x s' H N.
  apply mbind_inv in H. destruct H as (p & s1 & Hr & H).
  apply mbind_inv in H. destruct H as (nb & s2 & Hcf & H).
  apply mbind_inv in H. destruct H as (u3 & s3 & Ha & Hp).
  pose proof (EP_trans _ _ _ N (pE_raw_remove _ _ _ _ _ Hr)) as N1.
  pose proof (EP_trans _ _ _ N1 (pE_with_ctr _ _ _ _ _ Hcf)) as N2.
  assert (N3 : EP s0 s3).
  { intros sh' src' E'. destruct (raw_add_entries _ _ _ _ _ _ _ Ha _ _ E') as [O|[-> ->]]; [apply N2; exact O|exact E0]. }
  exact (EP_trans _ _ _ N3 (pE_pending_insert _ _ _ _ _ Hp)).
Qed.

Lemma pE_move_loop : forall s0 idf idt mi l, (forall sh bij src, In (sh, (bij, src)) l -> has_entry s0 sh src) ->
  forall s x s',
  iterM (fun e => let '(sh, (bij, src_id)) := e in
                  dom _ <- raw_remove_from_class idf sh;
                  dom new_bij <- with_ctr (compose_fresh bij mi);
                  dom _ <- raw_add_to_class idt (sh, new_bij) src_id;
                  pending_insert sh true) l s = Ok (x, s') -> EP s0 s -> EP s0 s'.
Proof.
  intros s0 idf idt mi. induction l as [|[sh [bij src]] t IH]; intros Hl s x s' H N; cbn [iterM] in H.
  - inversion H; subst. exact N.
  - apply mbind_inv in H. destruct H as (u & s1 & H1 & H).
    assert (E0 : has_entry s0 sh src) by (apply (Hl sh bij src); left; reflexivity).
    pose proof (pE_move_body s0 idf idt mi sh bij src E0 _ _ _ H1 N) as N1.
    apply (IH (fun sh' bij' src' Hin => Hl sh' bij' src' (or_intror Hin)) _ _ _ H N1).
Qed.

Theorem pE_move_to : forall from to, pE (move_to from to).
Proof.
  intros from to s x s' H. unfold move_to in H. cbv zeta in H.
  apply mbind_inv in H. destruct H as (u1 & s1 & H1 & H).
  pose proof (pE_ufset _ _ _ _ _ H1) as N1.
  apply bind_reads_inv in H. destruct H as (cf & Hcf & H).
  apply mbind_inv in H. destruct H as (u2 & s2 & H2 & H).
  assert (LQ : forall sh bij src, In (sh, (bij, src)) (c_nodes cf) -> has_entry s1 sh src).
  { intros sh bij src He. exists (aid from), cf, bij. split; [exact Hcf|exact He]. }
  pose proof (pE_move_loop s1 (aid from) (aid to) _ (c_nodes cf) LQ s1 u2 s2 H2 (EP_refl s1)) as N2.
  apply (EP_trans _ _ _ N1). apply (EP_trans _ _ _ N2).
  revert H. generalize s2. clear. intros s2.
  apply pE_bind; [apply pE_reads|]. intros cf2. apply pE_bind; [apply pE_reads|]. intros ct2.
  apply pE_bind; [apply pE_lift|]. intros r. apply pE_bind; [apply pE_upd_class; intros c; reflexivity|]. intros _.
  apply pE_bind; [destruct (snd r); [apply pE_touched_class|apply pE_ret]|]. intros _. apply pE_touched_class.
Qed.

(* ====================================================================== *)
(* 4. union_internal                                                       *)
(* ====================================================================== *)

Section EUi.
  Variable ui : appid -> appid -> M bool.
  Hypothesis H_ui : forall l r, pE (ui l r).

  Lemma pE_shrink_slots_gen : forall from cap, pE (shrink_slots ui from cap).
  Proof.
    intros from cap. unfold shrink_slots.
    apply pE_bind; [apply pE_lift|]. intros ocl. apply pE_bind; [apply pE_witness|]. intros _. cbv zeta.
    apply pE_bind; [apply pE_reads|]. intros c. apply pE_bind; [apply pE_lift|]. intros flags.
    apply pE_bind; [apply pE_lift|]. intros g.
    apply pE_bind; [apply pE_upd_class; intros c0; reflexivity|]. intros _.
    apply pE_bind; [apply pE_touched_class|]. intros _. apply pE_iterM. intros pp.
    apply pE_bind; [apply pE_reads|]. intros sl. apply pE_bind; [apply pE_lift|]. intros ps.
    apply pE_bind; [apply H_ui|]. intros _. apply pE_ret.
  Qed.

  Lemma pE_union_leaders : forall l r, pE (union_leaders ui l r).
  Proof.
    intros l r. unfold union_leaders. apply pE_bind; [apply pE_reads|]. intros e.
    destruct e; [apply pE_ret|]. cbv zeta.
    destruct (negb (sset_eqb (values (am l)) _)).
    { apply pE_bind; [apply pE_shrink_slots_gen|]. intros _. apply pE_bind; [apply H_ui|]. intros _. apply pE_ret. }
    destruct (negb (sset_eqb (values (am r)) _)).
    { apply pE_bind; [apply pE_shrink_slots_gen|]. intros _. apply pE_bind; [apply H_ui|]. intros _. apply pE_ret. }
    destruct (aid l =? aid r).
    - apply pE_bind; [apply pE_reads|]. intros c. apply pE_bind; [apply pE_lift|]. intros bc.
      destruct bc; [apply pE_ret|]. apply pE_bind; [apply pE_lift|]. intros g.
      apply pE_bind; [apply pE_upd_class; intros c0; reflexivity|]. intros _.
      apply pE_bind; [apply pE_touched_class|]. intros _. apply pE_ret.
    - apply pE_bind; [apply pE_reads|]. intros cl. apply pE_bind; [apply pE_reads|]. intros cr. cbv zeta.
      apply pE_bind; [|intros _; apply pE_ret].
      match goal with |- pres _ (if ?b then _ else _) => destruct b end; apply pE_move_to.
  Qed.
End EUi.

Theorem pE_union_internal : forall fuel l r, pE (union_internal fuel l r).
Proof.
  induction fuel as [|f IH]; intros l r; [intros s x s' H; discriminate|].
  rewrite union_internal_S. unfold union_internal_body.
  apply pE_bind; [apply pE_reads|]. intros l'. apply pE_bind; [apply pE_reads|]. intros r'.
  apply pE_union_leaders. exact IH.
Qed.

Corollary pE_uint : forall l r, pE (uint l r).
Proof. intros l r. apply pE_union_internal. Qed.

Theorem pE_shrink_slots : forall from cap, pE (shrink_slots uint from cap).
Proof. intros from cap. apply pE_shrink_slots_gen. apply pE_uint. Qed.

(* ====================================================================== *)
(* 5. the pieces of rebuild around the union core                          *)
(* ====================================================================== *)

Lemma pE_handle_shrink : forall src, pE (handle_shrink_in_upwards_merge src).
Proof.
  intros src. unfold handle_shrink_in_upwards_merge. apply pE_bind; [apply pE_reads|]. intros pc1.
  apply pE_bind; [apply pE_reads|]. intros n2. apply pE_bind; [apply pE_pc_congruence|]. intros [a b].
  apply pE_shrink_slots.
Qed.

Lemma pE_handle_congruence : forall pc, pE (handle_congruence pc).
Proof.
  intros pc. unfold handle_congruence. apply pE_bind; [apply pE_reads|]. intros sh.
  apply pE_bind; [apply pE_reads|]. intros pc2. apply pE_bind; [apply pE_pc_congruence|]. intros ab.
  apply pE_bind; [apply pE_uint|]. intros _. apply pE_ret.
Qed.

Lemma pE_determine_self_symmetries : forall src, pE (determine_self_symmetries src).
Proof.
  intros src. unfold determine_self_symmetries. apply pE_bind; [apply pE_reads|]. intros pc1.
  apply pE_bind; [apply pE_lift|]. intros w. cbv zeta. apply pE_bind; [apply pE_reads|]. intros vs.
  apply pE_iterM. intros pn2. apply pE_bind; [apply pE_lift|]. intros w2.
  destruct (node_eqb (fst w) (fst w2)); [|apply pE_ret].
  apply pE_bind; [apply pE_pc_congruence|]. intros ab. apply pE_bind; [apply pE_uint|]. intros _. apply pE_ret.
Qed.

Lemma pE_hp_loop : forall fuel src e i, pE (hp_loop fuel src e i).
Proof.
  induction fuel as [|f IH]; intros src e i; [intros s x s' H; discriminate|]. cbn [hp_loop].
  destruct (sset_subset (values (am i)) (slots e)); [apply pE_ret|].
  apply pE_bind; [apply pE_handle_shrink|]. intros _.
  apply pE_bind; [apply pE_reads|]. intros e1. apply pE_bind; [apply pE_reads|]. intros i1. apply IH.
Qed.

(* ====================================================================== *)
(* 6. a new class has no entries                                           *)
(* ====================================================================== *)

Lemma pE_alloc : forall sl syn, pE (alloc_eclass sl syn).
Proof.
  intros sl syn s i s' H. pose proof (alloc_eclass_exact _ _ _ _ _ H) as (_ & _ & C & _).
  intros sh src (j & cj & bij & Hcj & He). apply (get_class_ext_inv s s' _ C) in Hcj.
  destruct Hcj as [Hcj|[_ ->]]; [exists j, cj, bij; split; assumption|].
  cbn [c_nodes] in He. contradiction.
Qed.

Print Assumptions EP_refl.
Print Assumptions EP_trans.
Print Assumptions raw_add_entries.
Print Assumptions raw_remove_entries.
Print Assumptions pE_raw_add.
Print Assumptions pE_upd_class.
Print Assumptions pE_witness.
Print Assumptions pE_move_to.
Print Assumptions pE_union_internal.
Print Assumptions pE_uint.
Print Assumptions pE_shrink_slots.
Print Assumptions pE_handle_shrink.
Print Assumptions pE_handle_congruence.
Print Assumptions pE_determine_self_symmetries.
Print Assumptions pE_hp_loop.
Print Assumptions pE_alloc.
