(* EGraph/ExtractSound.v — soundness of the syntactic extraction get_syn_expr (EGraph/Rewrite.v): the
   extracted term is denoted by the invocation it was extracted through. *)
From SE Require Import Slots.SlotMapFacts Group.GroupSound Lang.LangFacts Lang.ShapeFacts Lang.RenameFacts
  Base.TextFacts Parse.Parser
  EGraph.Model EGraph.ModelFacts EGraph.ModelMachine EGraph.UnionFindFacts EGraph.InvariantFacts
  EGraph.UnionInvariantFacts EGraph.AddCoversFacts EGraph.MonotoneFacts EGraph.Mod4Facts EGraph.SoundFacts EGraph.SoundUnion
  EGraph.SoundSyn EGraph.SoundNode EGraph.SoundStruct EGraph.NodePass EGraph.SoundBase EGraph.SoundAddNew EGraph.SoundVals
  EGraph.SoundAddExpr EGraph.SoundPending EGraph.SoundRebuild EGraph.SoundGuard EGraph.SoundFinal EGraph.SoundClosed
  EGraph.Rewrite EGraph.RewriteFacts EGraph.ProgressFacts EGraph.MatchDefs EGraph.MatchFacts EGraph.KidsFacts
  EGraph.MatchVals EGraph.RewriteSoundInst EGraph.RewriteSound EGraph.SynPriv EGraph.SynPrivOps EGraph.SubstDefs.
From SE Require EGraph.MatchLookup EGraph.KidsCov EGraph.SoundReadd.
From SE Require Import Sem.Deriv Sem.DerivFacts Sem.AlgebraFacts Sem.EgMachine Explain.CheckerFacts.
Require Import ZArith Lia ZifyBool ZifyN ZifyNat.
Ltac Zify.zify_post_hook ::= Z.div_mod_to_equations.

Local Notation ectr := Model.ctr.

(* ====================================================================== *)
(* 1. the premises on the invocation                                       *)
(* ====================================================================== *)

(* the class exists; the map is injective, total on the syntactic slots, and has no reserved value *)
Definition tot_inv (s : egraph) (i : appid) : Prop :=
  exists c, get_class s (aid i) = Ok c /\ injective (am i) /\
    (forall y, In y (slots (c_syn c)) -> get (am i) y <> None) /\
    (forall v, In v (values_vec (am i)) -> is_B v = false).

(* no value of the map is a private binder name of the syntactic node of a class with id <= aid i *)
Definition clear_inv (s : egraph) (i : appid) : Prop :=
  forall j c p, j <= aid i -> get_class s j = Ok c -> In p (binders (c_syn c)) -> ~ In p (values_vec (am i)).

Lemma get_values : forall (m : slotmap) k v, get m k = Some v -> In v (values_vec m).
Proof.
  intros m k v G. apply get_in in G. unfold values_vec. apply in_map_iff. exists (k, v). split; [reflexivity|exact G].
Qed.

(* ====================================================================== *)
(* 2. the children of the extracted node                                   *)
(* ====================================================================== *)

Section Kids.
  Variables (s : egraph) (i : appid) (c : eclass).
  Hypothesis W : syn_wf s.
  Hypothesis SCv : SoundReadd.syn_cov s.
  Hypothesis P3 : priv3 s.
  Hypothesis CK : cls_ok s.
  Hypothesis Hc : get_class s (aid i) = Ok c.
  Hypothesis Ii : injective (am i).
  Hypothesis Ti : forall y, In y (slots (c_syn c)) -> get (am i) y <> None.
  Hypothesis Vi : forall v, In v (values_vec (am i)) -> is_B v = false.
  Hypothesis Ci : clear_inv s i.

  (* the values of a child map: a binder of the syntactic node in scope, or the image of a public slot *)
  Lemma kid_val : forall a0 bd v, In a0 (app_occ (c_syn c)) ->
    (forall x, In x bd -> In x (binders (c_syn c))) ->
    (forall v, In v (values_vec (am a0)) -> existsb (N.eqb v) bd = false -> In v (pub_occ (c_syn c))) ->
    In v (values_vec (am a0)) ->
    let w := asm_g (am i) (negb (existsb (N.eqb v) bd)) v in
    (In v bd /\ w = v /\ In v (binders (c_syn c))) \/
    (~ In v bd /\ get (am i) v = Some w /\ In w (values_vec (am i))).
  Proof.
    intros a0 bd v Ha0 Hbd Hpub Hv w. unfold w.
    destruct (bd_case bd v) as [[-> Hb]|[Eb Hb]]; cbn [negb].
    - left. split; [exact Hb|]. split; [reflexivity|]. apply Hbd. exact Hb.
    - right. split; [exact Hb|]. rewrite Eb. cbn [negb].
      specialize (Hpub v Hv Eb). apply slots_spec in Hpub. specialize (Ti v Hpub).
      unfold asm_g. destruct (get (am i) v) as [y|] eqn:G; [|congruence].
      split; [reflexivity|]. exact (get_values _ _ _ G).
  Qed.

  Lemma kid_facts : forall en j, get_syn_node s i = Ok en -> In j (app_occ en) ->
    aid j < aid i /\ tot_inv s j /\ clear_inv s j /\ covers s j /\ vnb j.
  Proof.
    intros en j En Hj. pose proof En as En0. unfold get_syn_node in En. rewrite Hc in En. cbn [bind] in En.
    apply apply_slotmap_ren in En. subst en.
    destruct (KidsCov.app_occ_ren _ _ _ Hj) as (a0 & bd & Ha0 & Ej & Hbd & Hpub).
    destruct (W _ _ _ Hc Ha0) as [Lt Tot0].
    destruct (SCv _ _ _ Hc Ha0) as (cj & Hcj & Ij0 & Kj0).
    assert (Aj : aid j = aid a0) by (rewrite Ej; reflexivity).
    assert (Mj : am j = ren_vals (asm_g (am i)) bd (am a0)) by (rewrite Ej; reflexivity).
    assert (VAL : forall v, In v (values_vec (am j)) ->
              (In v (binders (c_syn c))) \/ In v (values_vec (am i))).
    { intros w Hw. rewrite Mj in Hw. unfold values_vec, ren_vals in Hw. rewrite map_map in Hw.
      apply in_map_iff in Hw. destruct Hw as ([k v] & <- & Hin). cbn [fst snd].
      assert (Hv : In v (values_vec (am a0))) by (unfold values_vec; apply in_map_iff; exists (k, v); split; [reflexivity|exact Hin]).
      destruct (kid_val a0 bd v Ha0 Hbd Hpub Hv) as [(_ & -> & B)|(_ & _ & B)]; [left; exact B|right; exact B]. }
    assert (NBj : vnb j).
    { intros v Hv. destruct (VAL v Hv) as [B|B]; [|apply Vi; exact B].
      apply mod1_not_B. exact (proj1 (proj1 P3 _ _ _ Hc B)). }
    assert (Ij : injective (am j)).
    { intros k1 k2 w G1 G2. rewrite Mj, get_ren_vals in G1, G2.
      destruct (get (am a0) k1) as [v1|] eqn:E1; cbn [option_map] in G1; [|discriminate].
      destruct (get (am a0) k2) as [v2|] eqn:E2; cbn [option_map] in G2; [|discriminate].
      inversion G1 as [F1]; inversion G2 as [F2]; clear G1 G2.
      assert (EV : v1 = v2).
      { destruct (kid_val a0 bd v1 Ha0 Hbd Hpub (get_values _ _ _ E1)) as [(B1 & X1 & Y1)|(B1 & X1 & Y1)];
        destruct (kid_val a0 bd v2 Ha0 Hbd Hpub (get_values _ _ _ E2)) as [(B2 & X2 & Y2)|(B2 & X2 & Y2)];
        cbv zeta in *.
        - congruence.
        - exfalso. rewrite F2 in Y2. rewrite <- F1, X1 in Y2. exact (Ci (aid i) c v1 (N.le_refl _) Hc Y1 Y2).
        - exfalso. rewrite F1 in Y1. rewrite <- F2, X2 in Y1. exact (Ci (aid i) c v2 (N.le_refl _) Hc Y2 Y1).
        - rewrite F1 in X1. rewrite F2 in X2. exact (Ii _ _ _ X1 X2). }
      subst v2. exact (Ij0 _ _ _ E1 E2). }
    assert (Tj : forall y, In y (slots (c_syn cj)) -> get (am j) y <> None).
    { intros y Hy. apply (get_syn_node_kids_total s i _ j W En0 Hj). unfold SS. rewrite Aj, Hcj. exact Hy. }
    split; [rewrite Aj; exact Lt|]. split; [|split; [|split]].
    - exists cj. rewrite Aj. split; [exact Hcj|]. split; [exact Ij|]. split; [exact Tj|exact NBj].
    - intros j' c' p Lj' Hc' Hp Hin. destruct (VAL p Hin) as [B|B].
      + apply (proj2 P3 j' (aid i) c' c p Hc' Hc); [rewrite Aj in Lj'; lia|exact Hp|exact B].
      + apply (Ci j' c' p); [rewrite Aj in Lj'; lia|exact Hc'|exact Hp|exact B].
    - exists cj. rewrite Aj. split; [exact Hcj|]. split; [exact Ij|]. intros k Hk. apply Tj.
      destruct (CK _ _ Hcj) as (_ & _ & Inc). apply Inc. exact Hk.
    - exact NBj.
  Qed.
End Kids.

(* ====================================================================== *)
(* 3. one level: from the children to the invocation                       *)
(* ====================================================================== *)

Lemma extract_level : forall E s i c en Ts, syn_wf s -> get_class s (aid i) = Ok c ->
  (forall y, In y (slots (c_syn c)) -> get (am i) y <> None) ->
  (forall v, In v (values_vec (am i)) -> is_B v = false) ->
  (forall p, In p (binders (c_syn c)) -> ~ In p (values_vec (am i))) ->
  get_syn_node s i = Ok en ->
  Forall2 (kid_den E s) (app_occ en) (map rt_t Ts) ->
  handle_ok E s i (rt_t (RT (nullify en) Ts)).
Proof.
  intros E s i c en Ts W Hc Ti Vi Cl En F.
  split; [intros x v G; apply Vi; exact (get_values _ _ _ G)|]. intros sg [Rs Cs].
  pose proof En as En0. unfold get_syn_node in En. rewrite Hc in En. cbn [bind] in En.
  apply apply_slotmap_ren in En.
  destruct (bridgeT_args E s W (fun y => y) (fun y => eq_refl) (nargs (nullify en)) (app_occ en) (map rt_t Ts) F) as (ts & Fs & Ds).
  { fold (app_occ (nullify en)). rewrite nullify_app_len. lia. }
  assert (EA : set_apps_args (nargs (nullify en)) (app_occ en) = nargs en).
  { pose proof (MatchLookup.set_apps_nullify en) as X. apply (f_equal nargs) in X. exact X. }
  rewrite EA in Fs.
  assert (EV : nvar (nullify en) = nvar en).
  { pose proof (MatchLookup.set_apps_nullify en) as X. apply (f_equal nvar) in X. exact X. }
  set (tN := CT (nvar en) ts).
  assert (D1 : Deriv E 0 (rt_t (RT (nullify en) Ts)) tN).
  { rewrite rt_t_eq. unfold node_t, tN. rewrite EV. apply D_cong. exact Ds. }
  assert (NT : NodeT s (fun y => y) en tN) by (exists ts; split; [exact Fs|reflexivity]).
  set (rho' := fun x => asm_g (am i) true x).
  assert (NT' : NodeT s rho' (c_syn c) tN).
  { rewrite En in NT. apply (NodeT_ren s (am i) (c_syn c) (fun y => y) rho' tN); [| |exact NT].
    - intros x _. reflexivity.
    - intros k v G Hb. exact (Cl v Hb (get_values _ _ _ G)). }
  pose proof (NodeT_syn s (aid i) c rho' tN W Hc NT') as ET.
  assert (EC : clsT s sg (aid i) = clsT s rho' (aid i)).
  { apply clsT_rho_ext. intros x Hx. unfold SS in Hx. rewrite Hc in Hx. specialize (Ti x Hx).
    unfold rho', asm_g. destruct (get (am i) x) as [v|] eqn:G; [|congruence]. exact (Cs _ _ G). }
  rewrite EC, <- ET. exact D1.
Qed.

(* ====================================================================== *)
(* 4. the theorem                                                          *)
(* ====================================================================== *)

Lemma Forall2_map_in : forall {A B C} (R : A -> B -> Prop) (Q : A -> C -> Prop) (g : B -> C) l r,
  Forall2 R l r -> (forall x y, In x l -> R x y -> Q x (g y)) -> Forall2 Q l (map g r).
Proof.
  intros A B C R Q g l r F. induction F as [|x y l r Hxy F IH]; intros H; cbn [map]; constructor.
  - apply H; [left; reflexivity|exact Hxy].
  - apply IH. intros x' y' Hx'. apply H. right. exact Hx'.
Qed.

Theorem get_syn_expr_kid_den : forall E s, RSt E s -> priv3 s -> forall fuel i T,
  tot_inv s i -> clear_inv s i -> get_syn_expr fuel s i = Ok T -> handle_ok E s i (rt_t T).
Proof.
  intros E s (I3 & W & _ & RIs & _) P3.
  assert (CK : cls_ok s) by (apply ei_cls; apply I3).
  assert (SCv : SoundReadd.syn_cov s) by (destruct RIs as (_ & (Sc & _) & _); exact Sc).
  induction fuel as [|f IH]; intros i T (c & Hc & Ii & Ti & Vi) Ci H; cbn [get_syn_expr] in H; [discriminate|].
  destruct (get_syn_node s i) as [en|] eqn:En; cbn [bind] in H; [|discriminate].
  destruct (mapr (get_syn_expr f s) (app_occ en)) as [Ts|] eqn:Ec; cbn [bind] in H; [|discriminate].
  inversion H; subst T; clear H.
  apply (extract_level E s i c en Ts W Hc Ti Vi); [|exact En|].
  - intros p Hp. exact (Ci (aid i) c p (N.le_refl _) Hc Hp).
  - apply mapr_ok in Ec. apply (Forall2_map_in _ _ _ _ _ Ec). intros j Tj Hj Ej.
    destruct (kid_facts s i c W SCv P3 CK Hc Ii Ti Vi Ci en j En Hj) as (_ & Tj' & Cj & Cvj & NBj).
    split; [|split; assumption]. exact (IH j Tj Tj' Cj Ej).
Qed.

Theorem get_syn_expr_handle : forall E fuel s i T, RSt E s -> priv3 s -> tot_inv s i -> clear_inv s i ->
  get_syn_expr fuel s i = Ok T -> handle_ok E s i (rt_t T).
Proof. intros E fuel s i T R P Ti Ci H. exact (get_syn_expr_kid_den E s R P fuel i T Ti Ci H). Qed.

Print Assumptions extract_level.
Print Assumptions kid_facts.
Print Assumptions get_syn_expr_handle.
