(* EGraph/HashconsAbs.v — `add_internal` on a lookup miss: the weak shape under which the new
   e-node is first stored is not yet hash-consed.

   `add_shape_absent_proved` (closed under the global context): in a state with `inv3` whose
   hash-consed shapes are all canonical (shape s sh = Ok (sh, _)), if the lookup of t = shape s n
   misses, then the weak shape sh0 of the fresh syntactic node built by add_internal /
   mk_singleton_class is not a key of the hashcons.

   Premises that are NOT in the informal statement and why they are there:
   - `Forall (covers s) (app_occ n)`: every child invocation of n is defined on all the slots of its
     class.  ESSENTIAL: `absent_needs_covers` is a reachable state and a node with a non-covering child
     for which the conclusion is false (synify_enode then adds a key that IS a class slot, and
     find_enode does not drop it).
   - `Model.ctr s mod 4 = 1` and "every public slot of n is older than the counter or is not 1 mod 4":
     the fresh names drawn by refresh_private do not capture / are not captured by the numbered slots
     of the shape (0 mod 4) and by the public slots of n.  (`ctr mod 4 = 1` is part of the invariant
     `m4` of Mod4Facts.v.)  The premise on the public slots is ESSENTIAL too: `absent_needs_old_slots`
     (a covering child whose map has the value `ctr s`, which refresh_private draws for the binder).
   - `exists b, shape s (fst t) = Ok (fst t, b)`: idempotence of `shape` at the result.  It is
     discharged by `shape_idem_nodup` when the binders of n are pairwise distinct:
     `add_shape_absent_nodup`.

   Route: assume sh0 is hash-consed; then shape s sh0 = (sh0, _).  `shape s` is invariant under
   renamings (`shape_ren_conv`), and sh0 = ren g1 synf (`wshape_fwd`), synf = ren (asm_g o2f) en3
   (`asf_ren`), find_enode s en3 = find_enode s en2 (`find_enode_synify`: the keys added by synify are
   not class slots because the children of en2 are defined on all class slots: `kids_full`), en2 =
   ren (asm_g bij) en1, en1 = ren g0 (fst t).  Hence fst (shape s (fst t)) = sh0, so sh0 = fst t, which
   is not hash-consed. *)
From SE Require Import Slots.SlotMapFacts Group.GroupSound Lang.LangFacts Lang.ShapeFacts Lang.RenameFacts Base.TextFacts EGraph.Model EGraph.ModelFacts EGraph.ModelMachine EGraph.UnionFindFacts EGraph.InvariantFacts EGraph.UnionInvariantFacts EGraph.AddCoversFacts EGraph.HashconsShape.
Require Import ZArith Lia ZifyBool ZifyN ZifyNat.

Local Notation "a ** b" := (compose_partial a b) (at level 40, left associativity).
Local Notation inv := inverse_nocheck.
Local Notation ectr := Model.ctr.

(* ================================================================== *)
(* 1. synify only adds keys: the old keys keep their values *)

Definition agree_old (a a' : appid) : Prop :=
  aid a' = aid a /\ forall k, get (am a) k <> None -> get (am a') k = get (am a) k.

Lemma get_insert_other : forall m x f k, k <> x -> get (insert x f m) k = get m k.
Proof.
  induction m as [|[k0 v0] t IH]; intros x f k Hk; cbn [insert get].
  - destruct (k =? x) eqn:E; [apply N.eqb_eq in E; congruence|reflexivity].
  - destruct (x <? k0).
    + cbn [get]. destruct (k =? x) eqn:E; [apply N.eqb_eq in E; congruence|reflexivity].
    + destruct (x =? k0) eqn:E0.
      * apply N.eqb_eq in E0. subst k0. cbn [get].
        destruct (k =? x) eqn:E; [apply N.eqb_eq in E; congruence|reflexivity].
      * cbn [get]. destruct (k =? k0); [reflexivity|]. apply IH. assumption.
Qed.

Lemma fill_fresh_old : forall l m s m' s', fill_fresh l m s = Ok (m', s') ->
  forall k, get m k <> None -> get m' k = get m k.
Proof.
  induction l as [|x t IH]; intros m s m' s' H k Hk; cbn [fill_fresh] in H.
  - inversion H; subst. reflexivity.
  - unfold contains_key in H. destruct (get m x) eqn:G.
    + eapply IH; eauto.
    + apply mbind_inv in H. destruct H as (f & s1 & H1 & H).
      assert (Kx : k <> x) by (intros ->; congruence).
      rewrite (IH _ _ _ _ H k); [apply get_insert_other; assumption|].
      rewrite get_insert_other by assumption. assumption.
Qed.

Lemma synify_app_id_agree : forall a s a' s', synify_app_id a s = Ok (a', s') -> agree_old a a'.
Proof.
  intros a s a' s' H. unfold synify_app_id in H.
  apply bind_reads_inv in H. destruct H as (ss & _ & H).
  apply mbind_inv in H. destruct H as (m' & s1 & H1 & H). inversion H; subst a' s1; clear H.
  change (fill_fresh ss (am a) s = Ok (m', s')) in H1.
  split; [reflexivity|]. cbn [am]. intros k Hk. eapply fill_fresh_old; eauto.
Qed.

Lemma mapM_synify_agree : forall l s r s', mapM synify_app_id l s = Ok (r, s') -> Forall2 agree_old l r.
Proof.
  induction l as [|a t IH]; intros s r s' H; cbn [mapM] in H.
  - inversion H; subst. constructor.
  - apply mbind_inv in H. destruct H as (a' & s1 & H1 & H).
    apply mbind_inv in H. destruct H as (r' & s2 & H2 & H). inversion H; subst r s2; clear H.
    constructor; [eapply synify_app_id_agree; eauto|eapply IH; eauto].
Qed.

(* ================================================================== *)
(* 2. find only looks at the class slots of the child *)

Lemma compose_ext_r : forall a m m', (forall kv, In kv a -> get m (snd kv) = get m' (snd kv)) -> a ** m = a ** m'.
Proof.
  intros a m m' H. unfold compose_partial. f_equal.
  induction a as [|kv t IH]; cbn [flat_map]; [reflexivity|].
  rewrite (H kv (or_introl eq_refl)). f_equal. apply IH. intros x Hx. apply H. right. assumption.
Qed.

Lemma find_agree : forall s a a', eg_inv s -> kid_full s a -> agree_old a a' ->
  find_applied_id s a' = find_applied_id s a.
Proof.
  intros s a a' [Hok Hsl _] (c & Hc & Full) [Ea Ag]. unfold find_applied_id, unionfind_get. rewrite Ea.
  destruct (uf_get_go _ _ (aid a)) as [p|] eqn:Hp; [|reflexivity]. cbn [bind].
  destruct (uf_get_go_canon s Hok Hsl _ _ _ _ Hp Hc) as (cl & _ & Wp & _ & _ & Vp).
  do 2 f_equal. apply compose_ext_r. intros [k v] Hin. cbn [snd]. apply in_get in Hin; [|exact Wp].
  apply Ag. apply Full. eapply Vp; eauto.
Qed.

Lemma mapr_find_agree : forall s l r, eg_inv s -> Forall (kid_full s) l -> Forall2 agree_old l r ->
  mapr (find_applied_id s) r = mapr (find_applied_id s) l.
Proof.
  intros s l r Hs HF H. induction H as [|a a' l r Ha _ IH]; [reflexivity|].
  inversion HF as [|? ? Fa Ft]; subst. cbn [mapr]. rewrite (find_agree s a a' Hs Fa Ha), (IH Ft). reflexivity.
Qed.

Theorem find_enode_synify : forall s s1 n n' s', eg_inv s -> kids_full s n ->
  synify_enode n s1 = Ok (n', s') -> find_enode s n' = find_enode s n.
Proof.
  intros s s1 n n' s' Hs Full H. unfold synify_enode in H.
  apply mbind_inv in H. destruct H as (l & s2 & H1 & H). inversion H; subst n' s2; clear H.
  pose proof (mapM_synify_agree _ _ _ _ H1) as Ag.
  pose proof (Forall2_length' _ _ _ Ag) as Len.
  unfold find_enode. rewrite (app_occ_set_apps n l Len).
  rewrite (mapr_find_agree s (app_occ n) l Hs Full Ag).
  destruct (mapr (find_applied_id s) (app_occ n)) as [r|] eqn:E; cbn [bind]; [|reflexivity].
  f_equal. apply set_apps_twice. rewrite (mapr_length _ _ _ E). lia.
Qed.

Corollary shape_synify : forall s s1 n n' s', eg_inv s -> kids_full s n ->
  synify_enode n s1 = Ok (n', s') -> shape s n' = shape s n.
Proof.
  intros s s1 n n' s' Hs Full H. unfold shape, pre_shape.
  rewrite (find_enode_synify s s1 n n' s' Hs Full H). reflexivity.
Qed.

(* ================================================================== *)
(* 3. kids_full only depends on the ids and the key vectors of the children *)

Definition kfk (s : egraph) (p : N * list slot) : Prop :=
  exists c, get_class s (fst p) = Ok c /\ incl (c_slots c) (snd p).

Lemma kids_full_ckeys : forall s n, kids_full s n <-> Forall (kfk s) (ckeys n).
Proof.
  intros s n. unfold kids_full, ckeys. rewrite Forall_map.
  split; apply Forall_impl; intros a (c & Hc & K); exists c; cbn [fst snd] in *; (split; [assumption|]).
  - intros k Hk. apply get_in_keys. apply K. assumption.
  - intros k Hk. apply get_in_keys. apply K. assumption.
Qed.

Lemma kids_full_skel : forall s n n', skel n = skel n' -> kids_full s n -> kids_full s n'.
Proof.
  intros s n n' E H. apply kids_full_ckeys. rewrite <- (skel_ckeys _ _ E). apply kids_full_ckeys. assumption.
Qed.

(* ================================================================== *)
(* 4. the children of the pre-shape of a node with covering children are defined on all class slots *)

Definition lfull (s : egraph) (a : appid) : Prop := lkid s a /\ kid_full s a.

Lemma find_enode_full : forall s n n1, eg_inv s -> Forall (covers s) (app_occ n) -> find_enode s n = Ok n1 ->
  Forall (lfull s) (app_occ n1).
Proof.
  intros s n n1 Hs Cv H. unfold find_enode in H.
  destruct (mapr (find_applied_id s) (app_occ n)) as [l|] eqn:E; cbn [bind] in H; [|discriminate].
  inversion H; subst n1; clear H.
  rewrite (app_occ_set_apps n l (mapr_length _ _ _ E)).
  apply Forall_forall. intros a Ha. destruct (mapr_in _ _ _ E a Ha) as (a0 & Ha0 & Fa).
  split; [eapply found_lkid; eauto|].
  pose proof (proj1 (Forall_forall _ _) Cv a0 Ha0) as C0.
  destruct (find_canon s a0 a (ei_uf _ Hs) (ei_slots _ Hs) C0 Fa) as (c & Hc & _ & _ & _ & K).
  exists c. split; [assumption|]. intros k Hk. apply keys_spec. rewrite K. assumption.
Qed.

Lemma gvar_full : forall s a c pp, kid_full s a -> get_class s (aid a) = Ok c -> perm_on (c_slots c) pp ->
  kid_full s (gvar a pp).
Proof.
  intros s a c pp (c' & Hc' & Full) Hc (Wp & Kp & Vp & _). rewrite Hc in Hc'. inversion Hc'; subst c'.
  exists c. unfold gvar. cbn [aid am]. split; [assumption|]. intros k Hk.
  rewrite get_compose_partial by assumption. destruct (get pp k) as [v|] eqn:G.
  - apply Full. eapply Vp; eauto.
  - apply Kp in Hk. congruence.
Qed.

Lemma zip_gvar_full : forall s apps (groups : list (list perm)) l,
  Forall2 (fun a G => lfull s a /\ exists c, get_class s (aid a) = Ok c /\ gall_perms false (c_group c) = Ok G) apps groups ->
  Forall2 (@In perm) l groups ->
  Forall (kid_full s) (zip_with gvar apps l) /\ List.length (zip_with gvar apps l) = List.length apps.
Proof.
  intros s apps groups l H. revert l. induction H as [|a G apps' groups' Ha _ IH]; intros l Hl.
  - inversion Hl; subst. split; [constructor|reflexivity].
  - inversion Hl as [|pp ? t ? Hpp Ht]; subst. destruct (IH t Ht) as (A & B).
    cbn [zip_with List.length]. split; [|rewrite B; reflexivity]. constructor; [|assumption].
    destruct Ha as ((La & Fa) & c & Hc & HG).
    assert (Hg : grp_ok c).
    { destruct La as (e & c' & _ & _ & Hc' & Hg & _). rewrite Hc in Hc'. inversion Hc'; subst. exact Hg. }
    destruct (grp_facts c G Hg HG) as (Hpo & _ & _).
    eapply gvar_full; eauto.
Qed.

Lemma variants_full : forall s n vs v, Forall (lfull s) (app_occ n) -> variants s n = Ok vs -> In v vs ->
  kids_full s v.
Proof.
  intros s n vs v Lf H Hv. unfold variants in H.
  destruct (mapr (fun a => get_class s (aid a)) (app_occ n)) as [cls|] eqn:Ec; cbn [bind] in H; [|discriminate].
  destruct (forallb _ cls).
  - inversion H; subst vs. destruct Hv as [<-|[]]. unfold kids_full. revert Lf. apply Forall_impl. intros a [_ Fa]. exact Fa.
  - destruct (mapr _ cls) as [groups|] eqn:Eg; cbn [bind] in H; [|discriminate]. inversion H; subst vs; clear H.
    apply in_map_iff in Hv. destruct Hv as (l & <- & Hl). apply cart_in in Hl.
    change (kids_full s (set_apps n (zip_with gvar (app_occ n) l))).
    pose proof (mapr_mapr_F2 (lfull s) _ _ _ _ _ (proj1 (Forall_forall _ _) Lf) Ec Eg) as F2.
    destruct (zip_gvar_full s (app_occ n) groups l F2 Hl) as (A & B).
    unfold kids_full. rewrite (app_occ_set_apps n _ B). exact A.
Qed.

(* ================================================================== *)
(* 5. small facts on renamings *)

Lemma NoDup_map_inj_on : forall {A B} (f : A -> B) l, inj_on f l -> NoDup l -> NoDup (map f l).
Proof.
  intros A B f l. induction l as [|x t IH]; intros Hi Hn; cbn [map]; [constructor|].
  inversion Hn as [|? ? Hx Ht]; subst. constructor.
  - intros Hin. apply in_map_iff in Hin. destruct Hin as (y & E & Hy).
    assert (y = x) by (apply Hi; [right; assumption|left; reflexivity|assumption]). subst y. contradiction.
  - apply IH; [|assumption]. intros a b Ha Hb. apply Hi; right; assumption.
Qed.

Lemma pub_in_all : forall n x, In x (pub_occ n) -> In x (all_occ n).
Proof.
  intros n x H. apply (Permutation.Permutation_in x (Permutation.Permutation_sym (occ_partition n))).
  apply in_or_app. left. assumption.
Qed.

(* refresh_private as a renaming *)
Lemma refresh_private_ren : forall n c n' c', refresh_private n c = (Ok n', c') ->
  exists g, n' = RenameFacts.ren g n /\ (forall x, g true x = x) /\ inj_on (g false) (binders n) /\
    forall b, In b (binders n) -> c <= g false b < c' /\ g false b mod 4 = c mod 4.
Proof.
  intros n c n' c' H. unfold refresh_private, refresh_by in H.
  destruct (bijection_from_fresh_to (sset_of_list (prv_occ n)) c) as [bf c1] eqn:E.
  injection H as H Hc. subst c1.
  destruct (sset_of_list_spec (prv_occ n)) as [Hswf Hin].
  destruct (fresh_spec _ _ _ _ Hswf E) as [F1 F2].
  apply trav_res_ren in H.
  set (g := fun (b : bool) (s : slot) =>
              match (if negb b then index (inverse_nocheck bf) s else Ok s) with Ok y => y | Err _ => s end) in H.
  assert (Hg : forall s, In s (binders n) ->
                 get (inverse_nocheck bf) s = Some (g false s) /\ c <= g false s < c' /\ g false s mod 4 = c mod 4).
  { intros s Hs. apply binders_prv in Hs. apply Hin in Hs. destruct (F1 s Hs) as [y [G1 G2]].
    unfold g. cbn [negb]. unfold index. rewrite G1. split; [reflexivity|assumption]. }
  exists g. split; [assumption|]. split; [reflexivity|]. split.
  - intros x y Hx Hy Hxy. destruct (Hg x Hx) as [G1 _]. destruct (Hg y Hy) as [G2 _].
    rewrite Hxy in G1. eapply F2; eassumption.
  - intros b Hb. exact (proj2 (Hg b Hb)).
Qed.

(* ================================================================== *)
(* 6. the theorem *)

Theorem add_shape_absent_proved : forall s n t en1 c1 en2 en3 s3 f2o c2 synf c3 sh0 b0,
  inv3 s ->
  (forall sh i, na_get (hashcons s) sh = Some i -> exists b, shape s sh = Ok (sh, b)) ->
  (* additional premises *)
  Forall (covers s) (app_occ n) ->
  ectr s mod 4 = 1 ->
  (forall x, In x (pub_occ n) -> x < ectr s \/ x mod 4 <> 1) ->
  (exists b, shape s (fst t) = Ok (fst t, b)) ->
  (* the run of add_internal on a miss *)
  shape s n = Ok t -> na_get (hashcons s) (fst t) = None ->
  refresh_private (fst t) (ectr s) = (Ok en1, c1) -> apply_slotmap false (snd t) en1 = Ok en2 ->
  synify_enode en2 (set_ctr s c1) = Ok (en3, s3) ->
  bijection_from_fresh_to (slots en3) (ectr s3) = (f2o, c2) ->
  apply_slotmap_fresh false (inverse_nocheck f2o) en3 c2 = (synf, c3) ->
  wshape synf = Ok (sh0, b0) -> na_get (hashcons s) sh0 = None.
Proof.
  intros s n [sh bij] en1 c1 en2 en3 s3 f2o c2 synf c3 sh0 b0 I3 Hcan Cv C4 Pn [bi Idem] H Miss RP AS SY BF ASF W.
  cbn [fst snd] in *.
  pose proof (proj1 (proj1 I3)) as Hs.
  destruct (na_get (hashcons s) sh0) as [i|] eqn:Hit; [exfalso|reflexivity].
  destruct (Hcan sh0 i Hit) as [bc Sc].
  (* the pre-shape p of n *)
  unfold shape in H. destruct (pre_shape s n) as [p|] eqn:P; cbn [bind] in H; [|discriminate].
  unfold pre_shape in P.
  destruct (find_enode s n) as [n1|] eqn:F; cbn [bind] in P; [|discriminate].
  destruct (variants s n1) as [vs|] eqn:V; cbn [bind] in P; [|discriminate].
  apply min_variant_in in P. destruct P as [P|[k P]]; [|discriminate].
  destruct (find_enode_sub s n n1 F) as (B1 & P1). destruct (variants_sub s n1 vs p V P) as (B2 & P2).
  assert (Pp : incl (pub_occ p) (pub_occ n)) by (intros x Hx; apply P1, P2, Hx).
  pose proof (variants_full s n1 vs p (find_enode_full s n n1 Hs Cv F) V P) as Fullp.
  destruct (ws_top _ _ _ H) as (_ & _ & _ & _ & Sk & _).
  assert (Fullsh : kids_full s sh) by (apply (kids_full_skel s p sh); [symmetry; exact Sk|exact Fullp]).
  pose proof (ws_binders_nodup _ _ _ H) as NDsh.
  pose proof (shape_all_occ_mod4 _ _ _ H) as M4.
  destruct (shape_bij _ _ _ H) as (Sb1 & Sb2 & _).
  (* en1 = ren g0 sh *)
  pose proof (refresh_private_step sh (ectr s)) as St1. rewrite RP in St1. cbn [snd] in St1. apply ctr_step_le in St1.
  destruct (refresh_private_ren _ _ _ _ RP) as (g0 & E1 & G0t & G0i & G0r).
  assert (R1b : forall x b, In x (pub_occ sh) -> In b (binders sh) -> g0 true x <> g0 false b).
  { intros x b Hx Hb. rewrite G0t. apply pub_in_all in Hx. apply M4 in Hx.
    destruct (G0r b Hb) as (_ & Gm). intros E. rewrite <- E in Gm. lia. }
  assert (R1c : inj_on (g0 true) (pub_occ sh)) by (intros x y _ _; rewrite !G0t; auto).
  assert (Pub1 : pub_occ en1 = pub_occ sh).
  { rewrite E1, (ren_pub_occ g0 sh G0i R1b). rewrite <- (map_id (pub_occ sh)) at 2. apply map_ext. exact G0t. }
  assert (Bi1 : binders en1 = map (g0 false) (binders sh)) by (rewrite E1; apply ren_binders).
  assert (ND1 : NoDup (binders en1)) by (rewrite Bi1; apply NoDup_map_inj_on; assumption).
  assert (Rg1 : forall b, In b (binders en1) -> ectr s <= b < c1 /\ b mod 4 = 1).
  { intros b Hb. rewrite Bi1 in Hb. apply in_map_iff in Hb. destruct Hb as (b' & <- & Hb').
    destruct (G0r b' Hb') as (A & B). split; [assumption|]. rewrite B. exact C4. }
  assert (Sk1 : skel en1 = skel sh) by (rewrite E1; apply ren_skel).
  (* en2 = ren (asm_g bij) en1 *)
  pose proof (apply_slotmap_ren _ _ _ AS) as E2.
  assert (R2a : inj_on (asm_g bij false) (binders en1)) by (intros x y _ _ E; exact E).
  assert (R2b : forall x b, In x (pub_occ en1) -> In b (binders en1) -> asm_g bij true x <> asm_g bij false b).
  { intros x b Hx Hb. rewrite Pub1 in Hx. unfold asm_g. apply Sb2 in Hx.
    destruct (get bij x) as [y|] eqn:G; [|congruence].
    assert (Hy : In y (pub_occ n)) by (apply Pp; apply Sb1; eauto).
    destruct (Rg1 b Hb) as (A & B). destruct (Pn y Hy) as [Q|Q]; intros ->; lia. }
  assert (R2c : inj_on (asm_g bij true) (pub_occ en1)).
  { intros x y Hx Hy. rewrite Pub1 in Hx, Hy. unfold asm_g. apply Sb2 in Hx, Hy.
    destruct (get bij x) as [u|] eqn:Gx; [|congruence]. destruct (get bij y) as [v|] eqn:Gy; [|congruence].
    intros ->. exact (shape_bij_inj p sh bij H x y v Gx Gy). }
  assert (Bi2 : binders en2 = binders en1) by (rewrite E2, ren_binders; unfold asm_g; apply map_id).
  assert (Sk2 : skel en2 = skel en1) by (rewrite E2; apply ren_skel).
  assert (Full2 : kids_full s en2).
  { apply (kids_full_skel s sh en2); [rewrite Sk2, Sk1; reflexivity|exact Fullsh]. }
  (* en3 *)
  pose proof (synify_enode_binders _ _ _ _ SY) as Bi3.
  pose proof (shape_synify s _ en2 en3 s3 Hs Full2 SY) as Sh3.
  pose proof (s_synify_enode _ _ _ _ SY) as [_ L13]. cbn [Model.ctr set_ctr] in L13.
  (* synf = ren (asm_g o2f) en3 *)
  pose proof (slots_sorted en3) as W3.
  destruct (fresh_spec _ _ _ _ W3 BF) as (F1 & F2).
  set (o2f := inverse_nocheck f2o) in *.
  assert (K : forall x, In x (pub_occ en3) -> get o2f x <> None).
  { intros x Hx. apply slots_spec in Hx. destruct (F1 x Hx) as (y & -> & _). discriminate. }
  rewrite (asf_ren o2f en3 c2 K) in ASF. fold (asm_g o2f) in ASF. injection ASF as E4 _.
  assert (R4a : inj_on (asm_g o2f false) (binders en3)) by (intros x y _ _ E'; exact E').
  assert (R4b : forall x b, In x (pub_occ en3) -> In b (binders en3) -> asm_g o2f true x <> asm_g o2f false b).
  { intros x b Hx Hb. unfold asm_g. apply slots_spec in Hx. destruct (F1 x Hx) as (y & -> & Hy & _).
    rewrite Bi3, Bi2 in Hb. destruct (Rg1 b Hb) as (A & _). lia. }
  assert (R4c : inj_on (asm_g o2f true) (pub_occ en3)).
  { intros x y Hx Hy. unfold asm_g. apply slots_spec in Hx, Hy.
    destruct (F1 x Hx) as (u & Gu & _). destruct (F1 y Hy) as (v & Gv & _). rewrite Gu, Gv. intros ->.
    eapply F2; eauto. }
  assert (ND4 : NoDup (binders synf)).
  { rewrite <- E4, ren_binders. unfold asm_g. rewrite map_id, Bi3, Bi2. exact ND1. }
  (* sh0 = ren g1 synf *)
  destruct (wshape_fwd synf sh0 b0 W ND4) as (g1 & E5 & (R5a & R5b & R5c)).
  (* the chain *)
  assert (S5 : shape s (RenameFacts.ren g1 synf) = Ok (sh0, bc)) by (rewrite <- E5; exact Sc).
  destruct (shape_ren_conv s g1 synf (sh0, bc) R5a R5b R5c S5) as [b4 S4]. cbn [fst] in S4.
  rewrite <- E4 in S4.
  destruct (shape_ren_conv s (asm_g o2f) en3 (sh0, b4) R4a R4b R4c S4) as [b3 S3]. cbn [fst] in S3.
  rewrite Sh3, E2 in S3.
  destruct (shape_ren_conv s (asm_g bij) en1 (sh0, b3) R2a R2b R2c S3) as [b1 S1]. cbn [fst] in S1.
  rewrite E1 in S1.
  destruct (shape_ren_conv s g0 sh (sh0, b1) G0i R1b R1c S1) as [b' S0]. cbn [fst] in S0.
  rewrite Idem in S0. inversion S0; subst sh0. congruence.
Qed.

(* the idempotence premise holds when the binders of n are pairwise distinct *)
Corollary add_shape_absent_nodup : forall s n t en1 c1 en2 en3 s3 f2o c2 synf c3 sh0 b0,
  inv3 s ->
  (forall sh i, na_get (hashcons s) sh = Some i -> exists b, shape s sh = Ok (sh, b)) ->
  Forall (covers s) (app_occ n) ->
  ectr s mod 4 = 1 ->
  (forall x, In x (pub_occ n) -> x < ectr s \/ x mod 4 <> 1) ->
  NoDup (binders n) ->
  shape s n = Ok t -> na_get (hashcons s) (fst t) = None ->
  refresh_private (fst t) (ectr s) = (Ok en1, c1) -> apply_slotmap false (snd t) en1 = Ok en2 ->
  synify_enode en2 (set_ctr s c1) = Ok (en3, s3) ->
  bijection_from_fresh_to (slots en3) (ectr s3) = (f2o, c2) ->
  apply_slotmap_fresh false (inverse_nocheck f2o) en3 c2 = (synf, c3) ->
  wshape synf = Ok (sh0, b0) -> na_get (hashcons s) sh0 = None.
Proof.
  intros s n t en1 c1 en2 en3 s3 f2o c2 synf c3 sh0 b0 I3 Hcan Cv C4 Pn ND H.
  apply (add_shape_absent_proved s n t en1 c1 en2 en3 s3 f2o c2 synf c3 sh0 b0 I3 Hcan Cv C4 Pn); [|exact H].
  pose proof (proj1 (proj1 I3)) as Hs. destruct t as [sh bij]. cbn [fst].
  pose proof H as H'. unfold shape, pre_shape in H'.
  destruct (find_enode s n) as [n1|] eqn:F; cbn [bind] in H'; [|discriminate]. clear H'.
  destruct (find_enode_idem s n n1 (ei_uf _ Hs) F) as [Fi _].
  assert (Sn1 : shape s n1 = Ok (sh, bij)).
  { unfold shape, pre_shape in *. rewrite Fi. rewrite F in H. exact H. }
  apply (shape_idem_nodup s n n1 sh bij Hs F); [|exact Sn1].
  rewrite (find_enode_binders s n n1 F). exact ND.
Qed.

(* ================================================================== *)
(* 7. the statement, executed: reachable states, and the two counterexamples that justify the premises *)

(* Ok None: the lookup hits; Ok (Some b): it misses, b = "sh0 is not a key of the hashcons" *)
Definition abs_chk (s : egraph) (n : node) : res (option bool) :=
  do t <- shape s n;
  match na_get (hashcons s) (fst t) with
  | Some _ => Ok None
  | None =>
    let '(r, c1) := refresh_private (fst t) (ectr s) in
    do en1 <- r;
    do en2 <- apply_slotmap false (snd t) en1;
    match synify_enode en2 (set_ctr s c1) with
    | Err e => Err e
    | Ok (en3, s3) =>
      let '(f2o, c2) := bijection_from_fresh_to (slots en3) (ectr s3) in
      let '(synf, c3) := apply_slotmap_fresh false (inverse_nocheck f2o) en3 c2 in
      do w <- wshape synf;
      Ok (Some (match na_get (hashcons s) (fst w) with None => true | Some _ => false end))
    end
  end.

(* every hash-consed shape is canonical *)
Definition hc_canonb (s : egraph) : bool :=
  forallb (fun e => match shape s (fst e) with Ok t => node_eqb (fst t) (fst e) | Err _ => false end) (hashcons s).

(* the decidable premises of the theorem *)
Definition abs_premb (s : egraph) (n : node) : bool :=
  forallb (coversb s) (app_occ n) && (ectr s mod 4 =? 1)
  && forallb (fun x => (x <? ectr s) || negb (x mod 4 =? 1)) (pub_occ n).

Definition abs_nd v args : node := {| nvar := v; nargs := args |}.
Definition abs_cands (hs : list appid) : list node :=
  flat_map (fun h => [abs_nd 3 [AApp h]; abs_nd 6 [AApp h]; abs_nd 0 [ABind 2 (AApp h)]; abs_nd 0 [ABind 6 (AApp h)];
                      abs_nd 0 [ABind 2 (ABind 2 (AApp h))]; abs_nd 0 [ABind 6 (ABind 2 (AApp h))];
                      abs_nd 11 [ASlot 2; ABind 2 (AApp h)]]
     ++ flat_map (fun h' => [abs_nd 4 [AApp h; AApp h']; abs_nd 12 [ABind 2 (AApp h); ABind 2 (AApp h')];
                             abs_nd 12 [ABind 2 (AApp h); ABind 6 (AApp h')]]) hs) hs.

(* after every prefix of a history: (number of candidate nodes whose lookup misses,
   all candidates satisfy the premises and the conclusion, all hash-consed shapes canonical) *)
Definition abs_tst T O : list (option (nat * bool * bool)) :=
  map (fun k => match run_ops T (firstn k O) [] empty_egraph with
       | Ok (hs, s) =>
          let cs := abs_cands hs in
          let rs := map (abs_chk s) cs in
          Some (List.length (filter (fun r => match r with Ok (Some _) => true | _ => false end) rs),
                forallb (abs_premb s) cs &&
                forallb (fun r => match r with Ok (Some true) => true | Ok None => true | _ => false end) rs,
                hc_canonb s)
       | Err _ => None end) (seq 0 (S (List.length O))).

Example abs_histories_checked :
  forallb (fun p => forallb (fun r => match r with Some (_, true, true) => true | _ => false end) (abs_tst (fst p) (snd p)))
    [(xT1, xO1); (xT2, xO2); (xT3, xO3); (xT4, xO4)] = true.
Proof. vm_compute. reflexivity. Qed.

(* without `Forall (covers s) (app_occ n)` the conclusion is false: class 0 = f(x,y) has two slots, the
   node g(c0[]) has a child that is defined on none of them; synify_enode adds both, and the weak shape
   of the fresh syntactic node is the shape of the g-node that is already there *)
Example absent_needs_covers :
  match run_ops xT1 (firstn 3 xO1) [] empty_egraph with
  | Ok (_, s) => let n := abs_nd 3 [AApp {| aid := 0; am := [] |}] in
      hc_canonb s = true /\ forallb (coversb s) (app_occ n) = false /\ abs_chk s n = Ok (Some false)
  | Err _ => False
  end.
Proof. vm_compute. repeat split; reflexivity. Qed.

(* without the premise on the public slots of n the conclusion is false: the public slot 17 = ctr s is
   the name that refresh_private draws for the binder, and is captured *)
Example absent_needs_old_slots :
  match run_ops xT4 (firstn 1 xO4) [] empty_egraph with
  | Ok (_, s) => let n := abs_nd 0 [ABind 2 (AApp {| aid := 0; am := [(1, ectr s); (5, 6)] |})] in
      hc_canonb s = true /\ forallb (coversb s) (app_occ n) = true /\ ectr s mod 4 = 1 /\ abs_chk s n = Ok (Some false)
  | Err _ => False
  end.
Proof. vm_compute. repeat split; reflexivity. Qed.

Print Assumptions find_enode_synify.
Print Assumptions add_shape_absent_nodup.
Print Assumptions absent_needs_covers.
Print Assumptions absent_needs_old_slots.
Print Assumptions abs_histories_checked.
Print Assumptions add_shape_absent_proved.
