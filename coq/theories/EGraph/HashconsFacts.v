(* EGraph/HashconsFacts.v — the HASH-CONS / CANONICAL-SHAPE invariant of the e-graph model
   (EGraph/Model.v), for every state reached by insertions and unions, and its consequences
   ("the structure is consistent after every operation", "insertion is canonical").

   Definitions.
   - `stored s i sh p`: class i stores the shape sh with (bijection, src) = p (total view `cnodes`).
   - `tab_ok s`: (a) every stored shape is a weak shape (`is_ws`); the hashcons and the node tables of
     the classes have no duplicate keys and AGREE: `hashcons s sh = Some i  <->  class i stores sh`
     (`tb_fwd`, `tb_bwd`: in particular no shape is stored in two classes); (c) `tb_use`: a stored
     shape that mentions class j is listed in `c_usages` of class j.
   - `canon s sh`: (b) every child of sh is a leader and re-computing the shape gives sh back:
     `shape s sh = Ok (sh, _)`.
   - `hce E s` = `tab_ok s` /\ every stored shape is pending (with type Full) or `canon` or in the
     exception set E (the entries in flight inside one operation); `hc_ok s` = `hce (fun _ => False) s`.
     When `pending s = []` every stored shape is canonical.
   The formulation was found with the executable checker `hc_allb` (section 12) on twelve histories,
   evaluated after every `handle_pending` step of every rebuild.

   Proved (all closed under the global context):
   - `canon_frame` / `shape_frame`: `canon s sh` depends on the union-find entries and the groups of
     the children of sh only.
   - primitive steps: `hce_ctr_only`, `hce_pending_touch/insert`, `hce_touched_class` (removes the
     exception "mentions class i", by `tb_use`), `hce_unionfind_set`, `hce_upd_class` (add that
     exception), `hce_raw_add` (needs the shape ABSENT from the hashcons; adds the exception "= sh"),
     `hce_raw_remove` (removes it), `hce_alloc`.
   - `hce_move_to`, `hce_shrink_slots`, `hce_union_leaders`, `hce_union_internal` / `hce_uint`:
     unions keep `hce E` for EVERY E, with no premise on the state or the handles.
   - `hce_handle_shrink`, `hce_handle_congruence`, `hce_determine_self_symmetries`, `hce_hp_loop`,
     `hc_ok_handle_pending` (the popped entry is the exception; the re-inserted entry is canonical by
     idempotence of `shape`, EGraph/HashconsShape.v `shape_idem_nodup`, the binders of a stored shape
     being pairwise distinct: `ws_binders_nodup`), `hc_ok_rebuild`, `hc_ok_eg_union` (premises:
     `inv3 s` and the handles cover their classes, both true in every reachable state).
   - `hce_mk_singleton`, `hce_add_internal`, `hc_ok_eg_add`: insertion of a node n keeps `hc_ok` when
     `node_pre s n` holds (children cover their classes, user slots do not collide with fresh slots
     still to be drawn, binder names pairwise distinct): then the weak shape under which the new
     e-node is first stored is not yet in the hashcons (EGraph/HashconsAbs.v `add_shape_absent_nodup`;
     `raw_add_to_class` overwrites; the premises are needed: `absent_needs_covers`,
     `absent_needs_old_slots` there are reachable states on which an insertion of a node violating
     them breaks the invariant).  `hc_ok_add_expr`, `hc_ok_reachable`: for terms / histories all of
     whose node insertions satisfy `node_pre` (`term_pre`, `ops_pre`: explicit premises, checked
     executably on the histories of section 12: `node_preb`).
   - consequences: `stored_unique` (no e-node in two classes), `hashcons_iff_stored`,
     `stored_canonical`, `stored_shape_lookup`, `stored_enode_lookup` (every e-node `sh[bij]` listed
     for a class looks up to that class; uses `shape_apply` of HashconsShape.v and `bij4` of
     EGraph/Mod4Facts.v: stored bijections only have self-generated slots, = 1 mod 4, which cannot be
     captured by the binders of a shape, = 0 mod 4), `reachable_consistent`, `reachable_readd_stored`.
   - `lookup_rec_add_expr`: a term whose recursive lookup hits is inserted WITHOUT touching the
     state; `second_insertion_creates_nothing`.
   - Examples: `hc_histories_checked` (checker + `node_preb` + shape-absent + "lookup after add hits an equal
     invocation" after every operation of 12 histories), `strict_false_mid_rebuild` (the formulation
     without the pending exemption is false between union_internal and rebuild). *)
From SE Require Import Slots.SlotMapFacts Group.GroupSound Lang.LangFacts Lang.ShapeFacts Lang.RenameFacts
  Base.TextFacts EGraph.Model EGraph.ModelFacts EGraph.ModelMachine EGraph.PendingFacts EGraph.UnionFindFacts
  EGraph.InvariantFacts EGraph.UnionInvariantFacts EGraph.AddCoversFacts EGraph.HashconsShape EGraph.Mod4Facts EGraph.HashconsAbs EGraph.Model9.
Require Import ZArith Lia ZifyBool ZifyN ZifyNat.

Local Notation "a ** b" := (compose_partial a b) (at level 40, left associativity).
Local Notation inv := inverse_nocheck.
Local Notation ectr := Model.ctr.

Local Ltac neq := repeat match goal with
  | H : (_ =? _) = true |- _ => apply N.eqb_eq in H
  | H : (_ =? _) = false |- _ => apply N.eqb_neq in H
  end.

(* ------------------------------------------------------------------ *)
(* 1. definitions *)

(* total views of the class table *)
Definition cnodes (s : egraph) (i : N) : list (node * (slotmap * N)) :=
  match get_class s i with Ok c => c_nodes c | Err _ => [] end.
Definition cusages (s : egraph) (i : N) : list node :=
  match get_class s i with Ok c => c_usages c | Err _ => [] end.
Definition cgroup (s : egraph) (i : N) : option group :=
  match get_class s i with Ok c => Some (c_group c) | Err _ => None end.

(* class i stores the shape sh with (bijection, src) = p *)
Definition stored (s : egraph) (i : N) (sh : node) (p : slotmap * N) : Prop := na_get (cnodes s i) sh = Some p.

(* a weak shape *)
Definition is_ws (sh : node) : Prop := exists n b, wshape n = Ok (sh, b).

(* (a) + (c): the hashcons and the node tables of the classes agree; usages are complete *)
Record tab_ok (s : egraph) : Prop := {
  tb_ws : forall i sh p, stored s i sh p -> is_ws sh;
  tb_hc : na_nodup (hashcons s);
  tb_cn : forall i, na_nodup (cnodes s i);
  tb_fwd : forall sh i, na_get (hashcons s) sh = Some i -> exists p, stored s i sh p;
  tb_bwd : forall i sh p, stored s i sh p -> na_get (hashcons s) sh = Some i;
  tb_use : forall i sh p j, stored s i sh p -> In j (node_ids sh) -> In sh (cusages s j) }.

(* (b) a shape is canonical in s: its children are leaders and re-computing its shape gives it back *)
Definition canon (s : egraph) (sh : node) : Prop :=
  (forall j, In j (node_ids sh) -> leader s j) /\ exists b, shape s sh = Ok (sh, b).

(* the invariant, with a set E of excepted shapes (the entries in flight) *)
Definition hce (E : node -> Prop) (s : egraph) : Prop :=
  tab_ok s /\
  forall i sh p, stored s i sh p -> na_get (pending s) sh = Some true \/ canon s sh \/ E sh.

Definition noex : node -> Prop := fun _ => False.
Definition hc_ok (s : egraph) : Prop := hce noex s.

Lemma hce_weaken : forall (E E' : node -> Prop) s, (forall sh, E sh -> E' sh) -> hce E s -> hce E' s.
Proof.
  intros E E' s H [T C]. split; [assumption|]. intros i sh p S.
  destruct (C i sh p S) as [A|[A|A]]; auto.
Qed.

(* ------------------------------------------------------------------ *)
(* 2. frame lemma for `canon`: it depends on the union-find entries and on the groups of the
   children of the shape only *)

Lemma leader_find : forall s a, leader s (aid a) ->
  exists e, uentry (unionfind s) (aid a) = Some e /\ aid e = aid a /\
            find_applied_id s a = Ok {| aid := aid e; am := am e ** am a |}.
Proof.
  intros s a (e & He & Ha). exists e. split; [assumption|]. split; [assumption|].
  unfold find_applied_id, unionfind_get. cbn [uf_get_go]. unfold uentry in He. rewrite He.
  replace (aid e =? aid a) with true by (symmetry; apply N.eqb_eq; assumption). reflexivity.
Qed.

Lemma find_frame : forall s s' a, leader s (aid a) ->
  uentry (unionfind s') (aid a) = uentry (unionfind s) (aid a) ->
  find_applied_id s' a = find_applied_id s a /\ exists b, find_applied_id s a = Ok b /\ aid b = aid a.
Proof.
  intros s s' a L E. destruct (leader_find s a L) as (e & He & Ha & F).
  assert (L' : leader s' (aid a)) by (exists e; split; [rewrite E; assumption|assumption]).
  destruct (leader_find s' a L') as (e' & He' & Ha' & F'). rewrite E, He in He'. inversion He'; subst e'.
  split; [congruence|]. eexists. split; [exact F|]. cbn [aid]. assumption.
Qed.

Lemma mapr_groups_frame : forall s s' (l : list appid) cls,
  (forall a, In a l -> cgroup s' (aid a) = cgroup s (aid a)) ->
  mapr (fun a => get_class s (aid a)) l = Ok cls ->
  exists cls', mapr (fun a => get_class s' (aid a)) l = Ok cls' /\ map c_group cls' = map c_group cls.
Proof.
  induction l as [|a t IH]; intros cls H E; cbn [mapr] in *.
  - inversion E. exists []. split; reflexivity.
  - destruct (get_class s (aid a)) as [c|] eqn:Ec; cbn [bind] in E; [|discriminate].
    destruct (mapr _ t) as [r|] eqn:Er; cbn [bind] in E; [|discriminate]. inversion E; subst cls.
    destruct (IH r) as (r' & Er' & Em); [intros; apply H; right; assumption|reflexivity|].
    pose proof (H a (or_introl eq_refl)) as G. unfold cgroup in G. rewrite Ec in G.
    destruct (get_class s' (aid a)) as [c'|]; [|discriminate]. inversion G as [G'].
    exists (c' :: r'). rewrite Er'. cbn [bind map]. split; [reflexivity|]. rewrite G', Em. reflexivity.
Qed.

Lemma variants_frame : forall s s' n vs,
  (forall a, In a (app_occ n) -> cgroup s' (aid a) = cgroup s (aid a)) ->
  variants s n = Ok vs -> variants s' n = Ok vs.
Proof.
  intros s s' n vs H E. unfold variants in *.
  destruct (mapr (fun a => get_class s (aid a)) (app_occ n)) as [cls|] eqn:Ec; cbn [bind] in E; [|discriminate].
  destruct (mapr_groups_frame s s' _ cls H Ec) as (cls' & Ec' & Em). rewrite Ec'. cbn [bind].
  rewrite (forallb_map c_group gis_trivial cls) in E. rewrite (forallb_map c_group gis_trivial cls'), Em.
  destruct (forallb gis_trivial (map c_group cls)); [assumption|].
  rewrite (mapr_map c_group (gall_perms false) cls) in E. rewrite (mapr_map c_group (gall_perms false) cls'), Em.
  assumption.
Qed.

Definition unch (s s' : egraph) (j : N) : Prop :=
  uentry (unionfind s') j = uentry (unionfind s) j /\ cgroup s' j = cgroup s j.

Lemma Forall2_aid : forall s (l r : list appid),
  Forall2 (fun x y => find_applied_id s x = Ok y) l r ->
  (forall a, In a l -> exists b, find_applied_id s a = Ok b /\ aid b = aid a) -> map aid r = map aid l.
Proof.
  intros s l r F. induction F as [|x y l r Hxy _ IH]; intros H; [reflexivity|]. cbn [map].
  destruct (H x (or_introl eq_refl)) as (b & Hb & Ab). rewrite Hxy in Hb. inversion Hb; subst b.
  f_equal; [assumption|]. apply IH. intros a Ha. apply H. right. assumption.
Qed.

Lemma shape_frame : forall s s' sh t,
  (forall j, In j (node_ids sh) -> leader s j) ->
  (forall j, In j (node_ids sh) -> unch s s' j) ->
  shape s sh = Ok t -> shape s' sh = Ok t.
Proof.
  intros s s' sh t L U H. unfold shape, pre_shape in *.
  assert (Fa : forall a, In a (app_occ sh) ->
            find_applied_id s' a = find_applied_id s a /\ exists b, find_applied_id s a = Ok b /\ aid b = aid a).
  { intros a Ha. assert (Hj : In (aid a) (node_ids sh)) by (unfold node_ids; apply in_map; assumption).
    apply find_frame; [apply L; assumption|apply (U _ Hj)]. }
  assert (Fe : find_enode s' sh = find_enode s sh).
  { unfold find_enode. rewrite (mapr_ext (find_applied_id s') (find_applied_id s)); [reflexivity|].
    intros a Ha. apply Fa. assumption. }
  rewrite Fe. destruct (find_enode s sh) as [n1|] eqn:E1; cbn [bind] in *; [|discriminate].
  destruct (variants s n1) as [vs|] eqn:Ev; cbn [bind] in H; [|discriminate].
  rewrite (variants_frame s s' n1 vs); [cbn [bind]; assumption| |assumption].
  intros a Ha. unfold find_enode in E1.
  destruct (mapr (find_applied_id s) (app_occ sh)) as [l|] eqn:El; cbn [bind] in E1; [|discriminate].
  inversion E1; subst n1. rewrite app_occ_set_apps in Ha by (eapply mapr_length; eauto).
  pose proof (Forall2_aid s _ _ (mapr_ok _ _ _ El) (fun a Ha => proj2 (Fa a Ha))) as Ea.
  assert (Hj : In (aid a) (node_ids sh)).
  { unfold node_ids. rewrite <- Ea. apply in_map. assumption. }
  apply (U _ Hj).
Qed.

Lemma canon_frame : forall s s' sh, (forall j, In j (node_ids sh) -> unch s s' j) -> canon s sh -> canon s' sh.
Proof.
  intros s s' sh U [L (b & H)]. split.
  - intros j Hj. destruct (L j Hj) as (e & He & Ha). exists e. split; [|assumption].
    rewrite (proj1 (U j Hj)). assumption.
  - exists b. eapply shape_frame; eauto.
Qed.

(* ------------------------------------------------------------------ *)
(* 3. state relations of the primitive steps *)

(* nothing the invariant looks at changes, pending may change *)
Definition same_tabs (s s' : egraph) : Prop :=
  hashcons s' = hashcons s /\ (forall j, cnodes s' j = cnodes s j) /\ (forall j, cusages s' j = cusages s j).

(* only the union-find entry and the group of class i change *)
Definition mod_at (i : N) (s s' : egraph) : Prop :=
  same_tabs s s' /\ pending s' = pending s /\ forall j, j <> i -> unch s s' j.

Lemma same_tabs_refl : forall s, same_tabs s s.
Proof. intros s. repeat split. Qed.

Lemma tab_ok_same : forall s s', same_tabs s s' -> tab_ok s -> tab_ok s'.
Proof.
  intros s s' (Hh & Hn & Hu) [Z A B C D E]. constructor.
  - intros i sh p H. unfold stored in H. rewrite Hn in H. eapply Z; eauto.
  - rewrite Hh. assumption.
  - intros i. rewrite Hn. apply B.
  - intros sh i H. rewrite Hh in H. destruct (C sh i H) as [p Hp]. exists p. unfold stored. rewrite Hn. assumption.
  - intros i sh p H. unfold stored in H. rewrite Hn in H. rewrite Hh. eapply D; eauto.
  - intros i sh p j H Hj. unfold stored in H. rewrite Hn in H. rewrite Hu. eapply E; eauto.
Qed.

Lemma hce_mod_at : forall E i s s', mod_at i s s' -> hce E s -> hce (fun sh => E sh \/ In i (node_ids sh)) s'.
Proof.
  intros E i s s' (T & P & U) [Tb C]. split; [eapply tab_ok_same; eauto|].
  intros i0 sh p S. unfold stored in S. rewrite (proj1 (proj2 T)) in S.
  destruct (C i0 sh p S) as [A|[A|A]].
  - left. rewrite P. assumption.
  - destruct (in_dec N.eq_dec i (node_ids sh)) as [I|I]; [right; right; right; assumption|].
    right. left. eapply canon_frame; [|exact A]. intros j Hj. apply U. intros ->. contradiction.
  - right. right. left. assumption.
Qed.

(* the relation for steps that change nothing but pending (growing) and the counter *)
Definition pend_mono (s s' : egraph) : Prop :=
  forall sh, na_get (pending s) sh = Some true -> na_get (pending s') sh = Some true.

Lemma hce_same : forall E s s', same_tabs s s' -> (forall j, unch s s' j) -> pend_mono s s' -> hce E s -> hce E s'.
Proof.
  intros E s s' T U P [Tb C]. split; [eapply tab_ok_same; eauto|].
  intros i sh p S. unfold stored in S. rewrite (proj1 (proj2 T)) in S.
  destruct (C i sh p S) as [A|[A|A]]; [left; apply P; assumption| |right; right; assumption].
  right. left. eapply canon_frame; [|exact A]. intros j _. apply U.
Qed.

(* ------------------------------------------------------------------ *)
(* 4. the primitive steps *)

Lemma views_set_ctr : forall s c, same_tabs s (set_ctr s c) /\ (forall j, unch s (set_ctr s c) j) /\ pending (set_ctr s c) = pending s.
Proof. intros s c. repeat split. Qed.

Lemma hce_ctr_only : forall E s s', ctr_only s s' -> hce E s -> hce E s'.
Proof.
  intros E s s' [c ->] H. destruct (views_set_ctr s c) as (A & B & C).
  eapply hce_same; eauto. intros sh. rewrite C. auto.
Qed.

Lemma hce_with_ctr : forall E A (f : N -> A * N) s x s', with_ctr f s = Ok (x, s') -> hce E s -> hce E s'.
Proof. intros E A f s x s' H. apply hce_ctr_only. eapply with_ctr_only; eauto. Qed.

Lemma hce_fresh : forall E s x s', fresh s = Ok (x, s') -> hce E s -> hce E s'.
Proof. intros E s x s' H. inversion H. apply hce_ctr_only. eexists; reflexivity. Qed.

Lemma hce_fill_fresh : forall E l m s m' s', fill_fresh l m s = Ok (m', s') -> hce E s -> hce E s'.
Proof.
  intros E l m s m' s' H. apply hce_ctr_only.
  apply (pres_fill_fresh ctr_only ctr_only_refl ctr_only_trans) in H; [assumption|].
  intros s0 x s0' H0. inversion H0. eexists; reflexivity.
Qed.

Lemma hce_pc_congruence : forall E a b s x s', pc_congruence a b s = Ok (x, s') -> hce E s -> hce E s'.
Proof.
  intros E a b s x s' H. apply hce_ctr_only.
  apply (pres_pc_congruence ctr_only ctr_only_refl ctr_only_trans) in H; [assumption| |];
    intros; intros s0 y s0' H0; eapply with_ctr_only; eauto.
Qed.

Lemma hce_synify_app_id : forall E a s x s', synify_app_id a s = Ok (x, s') -> hce E s -> hce E s'.
Proof.
  intros E a s x s' H. apply hce_ctr_only.
  apply (pres_synify_app_id ctr_only ctr_only_refl ctr_only_trans) in H; [assumption|].
  intros s0 y s0' H0. inversion H0. eexists; reflexivity.
Qed.

Lemma hce_synify_enode : forall E n s x s', synify_enode n s = Ok (x, s') -> hce E s -> hce E s'.
Proof.
  intros E n s x s' H. apply hce_ctr_only.
  apply (pres_synify_enode ctr_only ctr_only_refl ctr_only_trans) in H; [assumption|].
  intros s0 y s0' H0. inversion H0. eexists; reflexivity.
Qed.

(* pending *)
Lemma na_get_app_last : forall {V} (l : list (node * V)) k v k',
  na_get (l ++ [(k, v)]) k' = match na_get l k' with Some x => Some x | None => if node_eqb k' k then Some v else None end.
Proof.
  induction l as [|[k0 v0] t IH]; intros k v k'; cbn [app na_get]; [reflexivity|].
  destruct (node_eqb k' k0); [reflexivity|apply IH].
Qed.

Lemma hce_set_pending : forall (E E' : node -> Prop) s p',
  (forall sh, na_get (pending s) sh = Some true -> na_get p' sh = Some true) ->
  (forall sh, E sh -> E' sh \/ na_get p' sh = Some true) ->
  hce E s -> hce E' (set_pending s p').
Proof.
  intros E E' s p' M X [T C]. split; [eapply tab_ok_same; [|exact T]; repeat split|].
  intros i sh p S. change (stored s i sh p) in S.
  destruct (C i sh p S) as [A|[A|A]].
  - left. apply M. assumption.
  - right. left. eapply canon_frame; [|exact A]. intros j _. split; reflexivity.
  - destruct (X sh A) as [B|B]; [right; right; assumption|left; assumption].
Qed.

Lemma touch_spec : forall s sh,
  let p' := match na_get (pending s) sh with
            | None => pending s ++ [(sh, true)]
            | Some v => na_set (pending s) sh (v || true)
            end in
  na_get p' sh = Some true /\ forall y, na_get (pending s) y = Some true -> na_get p' y = Some true.
Proof.
  intros s sh. cbv zeta. destruct (na_get (pending s) sh) as [v|] eqn:G.
  - rewrite orb_true_r. split; [apply na_get_set_same|]. intros y Hy.
    destruct (node_eqb y sh) eqn:E.
    + apply node_eqb_iff in E. subst y. apply na_get_set_same.
    + rewrite na_get_set_other; [assumption|]. intros ->. rewrite node_eqb_refl in E. discriminate.
  - split.
    + rewrite na_get_app_last, G, node_eqb_refl. reflexivity.
    + intros y Hy. rewrite na_get_app_last, Hy. reflexivity.
Qed.

Lemma hce_pending_touch : forall E sh s x s', pending_touch sh true s = Ok (x, s') ->
  hce (fun y => E y \/ y = sh) s -> hce E s'.
Proof.
  intros E sh s x s' H. inversion H; subst x s'; clear H. destruct (touch_spec s sh) as [A B].
  apply hce_set_pending; [exact B|]. intros y [Hy| ->]; [left; assumption|right; exact A].
Qed.

Lemma hce_pending_insert : forall E sh s x s', pending_insert sh true s = Ok (x, s') ->
  hce (fun y => E y \/ y = sh) s -> hce E s'.
Proof.
  intros E sh s x s' H. inversion H; subst x s'; clear H.
  apply hce_set_pending.
  - intros y Hy. destruct (node_eqb y sh) eqn:Ey.
    + apply node_eqb_iff in Ey. subst y. apply na_get_set_same.
    + rewrite na_get_set_other; [assumption|]. intros ->. rewrite node_eqb_refl in Ey. discriminate.
  - intros y [Hy| ->]; [left; assumption|right; apply na_get_set_same].
Qed.

(* touched_class: every usage becomes pending *)
Lemma touch_list_spec : forall l s x s', iterM (fun sh => pending_touch sh true) l s = Ok (x, s') ->
  exists p', s' = set_pending s p' /\
    (forall y, na_get (pending s) y = Some true -> na_get p' y = Some true) /\
    (forall y, In y l -> na_get p' y = Some true).
Proof.
  induction l as [|sh t IH]; intros s x s' H; cbn [iterM] in H.
  - inversion H; subst x s'. exists (pending s). split; [destruct s; reflexivity|]. split; [auto|contradiction].
  - apply mbind_inv in H. destruct H as (u & s1 & H1 & H). inversion H1; subst u s1; clear H1.
    destruct (touch_spec s sh) as [A B]. set (p1 := match na_get (pending s) sh with None => _ | Some _ => _ end) in *.
    destruct (IH _ _ _ H) as (p' & -> & M & L). exists p'. split; [reflexivity|].
    cbn [pending set_pending] in M. split.
    + intros y Hy. apply M, B. assumption.
    + intros y [<-|Hy]; [apply M; exact A|apply L; assumption].
Qed.

Lemma hce_touched_class : forall E i s x s', touched_class i true s = Ok (x, s') ->
  hce (fun sh => E sh \/ In i (node_ids sh)) s -> hce E s'.
Proof.
  intros E i s x s' H [T C]. unfold touched_class in H.
  apply bind_reads_inv in H. destruct H as (c & Hc & H).
  destruct (touch_list_spec _ _ _ _ H) as (p' & -> & M & L).
  split; [eapply tab_ok_same; [|exact T]; repeat split|].
  intros i0 sh p S. change (stored s i0 sh p) in S.
  destruct (C i0 sh p S) as [A|[A|[A|A]]].
  - left. apply M. assumption.
  - right. left. eapply canon_frame; [|exact A]. intros j _. split; reflexivity.
  - right. right. assumption.
  - left. apply L. pose proof (tb_use s T i0 sh p i S A) as U. unfold cusages in U. rewrite Hc in U. exact U.
Qed.

(* class updates that keep nodes and usages *)
Lemma upd_class_views : forall i f s x s', upd_class i f s = Ok (x, s') ->
  exists c, get_class s i = Ok c /\ get_class s' i = Ok (f c) /\ (forall j, j <> i -> get_class s' j = get_class s j) /\
            unionfind s' = unionfind s /\ hashcons s' = hashcons s /\ pending s' = pending s.
Proof.
  intros i f s x s' H. apply upd_class_inv in H. destruct H as (c & Hc & ->). exists c.
  pose proof (get_class_lt _ _ _ Hc) as L. split; [assumption|]. split.
  - rewrite (get_class_upd s i (f c) i L), N.eqb_refl. reflexivity.
  - split; [|repeat split]. intros j Hj. rewrite (get_class_upd s i (f c) j L).
    destruct (j =? i) eqn:E; neq; [contradiction|reflexivity].
Qed.

Lemma upd_class_mod_at : forall i f s x s', (forall c, c_nodes (f c) = c_nodes c /\ c_usages (f c) = c_usages c) ->
  upd_class i f s = Ok (x, s') -> mod_at i s s'.
Proof.
  intros i f s x s' Hf H. destruct (upd_class_views _ _ _ _ _ H) as (c & Hc & Hc' & Ho & U & Hh & P).
  assert (V : forall j, cnodes s' j = cnodes s j /\ cusages s' j = cusages s j).
  { intros j. unfold cnodes, cusages. destruct (N.eq_dec j i) as [->|Hj].
    - rewrite Hc, Hc'. apply Hf.
    - rewrite (Ho j Hj). split; reflexivity. }
  split; [split; [assumption|split; intros j; apply V]|]. split; [assumption|].
  intros j Hj. split; [rewrite U; reflexivity|]. unfold cgroup. rewrite (Ho j Hj). reflexivity.
Qed.

(* ... and the group *)
Lemma upd_class_same_group : forall E i f s x s' c, get_class s i = Ok c ->
  c_nodes (f c) = c_nodes c -> c_usages (f c) = c_usages c -> c_group (f c) = c_group c ->
  upd_class i f s = Ok (x, s') -> hce E s -> hce E s'.
Proof.
  intros E i f s x s' c Hc0 A B G H. destruct (upd_class_views _ _ _ _ _ H) as (c1 & Hc & Hc' & Ho & U & Hh & P).
  rewrite Hc0 in Hc. inversion Hc; subst c1; clear Hc.
  apply hce_same.
  - split; [assumption|]. split; intros j; unfold cnodes, cusages; (destruct (N.eq_dec j i) as [->|Hj]; [rewrite Hc0, Hc'; assumption|rewrite (Ho j Hj); reflexivity]).
  - intros j. split; [rewrite U; reflexivity|]. unfold cgroup. destruct (N.eq_dec j i) as [->|Hj]; [rewrite Hc0, Hc', G; reflexivity|rewrite (Ho j Hj); reflexivity].
  - intros sh. rewrite P. auto.
Qed.

Lemma nth_opt_app_other : forall {A} (u : list A) p n, n <> List.length u -> nth_opt (u ++ [p]) n = nth_opt u n.
Proof.
  intros A u p n H. destruct (Nat.lt_ge_cases n (List.length u)) as [L|L].
  - apply nth_opt_app1. assumption.
  - assert (N1 : nth_opt u n = None).
    { destruct (nth_opt u n) eqn:E; [|reflexivity]. apply nth_opt_Some_lt in E. lia. }
    rewrite N1. destruct (nth_opt (u ++ [p]) n) eqn:E; [|reflexivity].
    apply nth_opt_Some_lt in E. rewrite app_length in E. cbn in E. lia.
Qed.

Lemma uentry_app_other : forall (u : list appid) p j, N.to_nat j <> List.length u -> uentry (u ++ [p]) j = uentry u j.
Proof. intros u p j H. unfold uentry. apply nth_opt_app_other. assumption. Qed.

Lemma unionfind_set_mod_at : forall i p s x s', unionfind_set i p s = Ok (x, s') -> mod_at i s s'.
Proof.
  intros i p s x s' H. unfold unionfind_set in H.
  assert (G : forall u, (forall j, j <> i -> uentry u j = uentry (unionfind s) j) -> mod_at i s (set_uf s u)).
  { intros u Hu. split; [repeat split|]. split; [reflexivity|]. intros j Hj. split; [apply Hu; assumption|reflexivity]. }
  destruct (Nat.eqb _ _) eqn:E1.
  - inversion H; subst. apply G. intros j Hj. apply uentry_app_other. apply Nat.eqb_eq in E1. lia.
  - destruct (Nat.ltb _ _); [|discriminate]. inversion H; subst. apply G. intros j Hj.
    unfold uentry. apply nth_opt_set_other. lia.
Qed.

Lemma hce_unionfind_set : forall E i p s x s', unionfind_set i p s = Ok (x, s') ->
  hce E s -> hce (fun sh => E sh \/ In i (node_ids sh)) s'.
Proof. intros E i p s x s' H. apply hce_mod_at. eapply unionfind_set_mod_at; eauto. Qed.

Lemma hce_upd_class : forall E i f s x s', (forall c, c_nodes (f c) = c_nodes c /\ c_usages (f c) = c_usages c) ->
  upd_class i f s = Ok (x, s') -> hce E s -> hce (fun sh => E sh \/ In i (node_ids sh)) s'.
Proof. intros E i f s x s' Hf H. apply hce_mod_at. eapply upd_class_mod_at; eauto. Qed.

(* the usage updates of raw_add_to_class / raw_remove_from_class *)
Lemma usages_iter_views : forall (F : list node -> list node) l s x s',
  iterM (fun r => upd_class r (fun c => with_usages c (F (c_usages c)))) l s = Ok (x, s') ->
  unionfind s' = unionfind s /\ hashcons s' = hashcons s /\ pending s' = pending s /\
  (forall j, cnodes s' j = cnodes s j /\ cgroup s' j = cgroup s j) /\
  (forall j y, (forall u, In y u -> In y (F u)) -> In y (cusages s j) -> In y (cusages s' j)) /\
  (forall j y, In j l -> (forall u, In y (F u)) -> In y (cusages s' j)).
Proof.
  intros F. induction l as [|r t IH]; intros s x s' H; cbn [iterM] in H.
  - inversion H; subst x s'. repeat split; auto. intros j y [].
  - apply mbind_inv in H. destruct H as (u & s1 & H1 & H).
    destruct (upd_class_views _ _ _ _ _ H1) as (c & Hc & Hc' & Ho & U1 & Hh1 & P1).
    destruct (IH _ _ _ H) as (U & Hh & P & V & Mn & Ad).
    split; [congruence|]. split; [congruence|]. split; [congruence|]. split; [|split].
    + intros j. destruct (V j) as [V1 V2]. rewrite V1, V2. unfold cnodes, cgroup.
      destruct (N.eq_dec j r) as [->|Hj]; [rewrite Hc, Hc'; split; reflexivity|rewrite (Ho j Hj); split; reflexivity].
    + intros j y Fy Hy. apply Mn; [assumption|]. unfold cusages in *.
      destruct (N.eq_dec j r) as [->|Hj]; [rewrite Hc'; rewrite Hc in Hy; cbn [c_usages with_usages]; apply Fy; assumption|rewrite (Ho j Hj); assumption].
    + intros j y [<-|Hj] Fy; [|apply Ad; assumption].
      apply Mn; [intros; apply Fy|]. unfold cusages. rewrite Hc'. cbn [c_usages with_usages]. apply Fy.
Qed.

Lemma ns_add_in : forall u sh y, In y (ns_add u sh) <-> y = sh \/ In y u.
Proof.
  intros u sh y. unfold ns_add. destruct (existsb (node_eqb sh) u) eqn:E.
  - split; [auto|]. intros [->|H]; [|assumption]. apply existsb_exists in E. destruct E as (z & Hz & Ez).
    apply node_eqb_iff in Ez. subst z. assumption.
  - rewrite in_app_iff. cbn [In]. intuition auto.
Qed.

Lemma ns_remove_in : forall u sh y, In y (ns_remove u sh) <-> y <> sh /\ In y u.
Proof.
  intros u sh y. unfold ns_remove. rewrite filter_In. split.
  - intros [H E]. split; [|assumption]. intros ->. rewrite node_eqb_refl in E. discriminate.
  - intros [H1 H2]. split; [assumption|]. rewrite node_eqb_neq; [reflexivity|]. intros ->. contradiction.
Qed.

Lemma raw_add_views : forall id sh bij src s x s', raw_add_to_class id (sh, bij) src s = Ok (x, s') ->
  hashcons s' = na_set (hashcons s) sh id /\ pending s' = pending s /\ (forall j, unch s s' j) /\
  cnodes s' id = na_set (cnodes s id) sh (bij, src) /\ (forall j, j <> id -> cnodes s' j = cnodes s j) /\
  (forall j y, In y (cusages s j) -> In y (cusages s' j)) /\
  (forall j, In j (node_ids sh) -> In sh (cusages s' j)).
Proof.
  intros id sh bij src s x s' H. unfold raw_add_to_class in H.
  apply mbind_inv in H. destruct H as (u1 & s1 & H1 & H).
  destruct (upd_class_views _ _ _ _ _ H1) as (c & Hc & Hc' & Ho & U1 & Hh1 & P1).
  apply mbind_inv in H. destruct H as (u2 & s2 & H2 & H). inversion H2; subst u2 s2; clear H2.
  apply (usages_iter_views (fun u => ns_add u sh)) in H. destruct H as (U & Hh & P & V & Mn & Ad).
  cbn [unionfind hashcons pending set_hashcons] in U, Hh, P.
  assert (G : forall j, get_class (set_hashcons s1 (na_set (hashcons s1) sh id)) j = get_class s1 j) by reflexivity.
  split; [congruence|]. split; [congruence|]. split; [|split; [|split; [|split]]].
  - intros j. split; [rewrite U, U1; reflexivity|]. rewrite (proj2 (V j)). unfold cgroup. rewrite G.
    destruct (N.eq_dec j id) as [->|Hj]; [rewrite Hc, Hc'; reflexivity|rewrite (Ho j Hj); reflexivity].
  - rewrite (proj1 (V id)). unfold cnodes. rewrite G, Hc, Hc'. reflexivity.
  - intros j Hj. rewrite (proj1 (V j)). unfold cnodes. rewrite G, (Ho j Hj). reflexivity.
  - intros j y Hy. apply Mn; [intros u Hu; apply ns_add_in; right; assumption|].
    unfold cusages in *. rewrite G. destruct (N.eq_dec j id) as [->|Hj]; [rewrite Hc'; rewrite Hc in Hy; exact Hy|rewrite (Ho j Hj); assumption].
  - intros j Hj. apply Ad; [assumption|]. intros u. apply ns_add_in. left. reflexivity.
Qed.

Lemma raw_remove_views : forall id sh s p s', raw_remove_from_class id sh s = Ok (p, s') ->
  stored s id sh p /\
  hashcons s' = na_remove (hashcons s) sh /\ pending s' = pending s /\ (forall j, unch s s' j) /\
  cnodes s' id = na_remove (cnodes s id) sh /\ (forall j, j <> id -> cnodes s' j = cnodes s j) /\
  (forall j y, y <> sh -> In y (cusages s j) -> In y (cusages s' j)).
Proof.
  intros id sh s p s' H. unfold raw_remove_from_class in H.
  apply bind_reads_inv in H. destruct H as (c0 & Hc0 & H).
  apply mbind_inv in H. destruct H as (u1 & s1 & H1 & H).
  destruct (upd_class_views _ _ _ _ _ H1) as (c & Hc & Hc' & Ho & U1 & Hh1 & P1).
  rewrite Hc0 in Hc. inversion Hc; subst c; clear Hc.
  apply mbind_inv in H. destruct H as (u2 & s2 & H2 & H). inversion H2; subst u2 s2; clear H2.
  apply mbind_inv in H. destruct H as (u3 & s3 & H3 & H).
  destruct (na_get (c_nodes c0) sh) as [q|] eqn:Gq; [|discriminate]. inversion H; subst q s3; clear H.
  apply (usages_iter_views (fun u => ns_remove u sh)) in H3. destruct H3 as (U & Hh & P & V & Mn & _).
  cbn [unionfind hashcons pending set_hashcons] in U, Hh, P.
  assert (G : forall j, get_class (set_hashcons s1 (na_remove (hashcons s1) sh)) j = get_class s1 j) by reflexivity.
  split; [unfold stored, cnodes; rewrite Hc0; assumption|].
  split; [congruence|]. split; [congruence|]. split; [|split; [|split]].
  - intros j. split; [rewrite U, U1; reflexivity|]. rewrite (proj2 (V j)). unfold cgroup. rewrite G.
    destruct (N.eq_dec j id) as [->|Hj]; [rewrite Hc0, Hc'; reflexivity|rewrite (Ho j Hj); reflexivity].
  - rewrite (proj1 (V id)). unfold cnodes. rewrite G, Hc0, Hc'. reflexivity.
  - intros j Hj. rewrite (proj1 (V j)). unfold cnodes. rewrite G, (Ho j Hj). reflexivity.
  - intros j y Hy Iy. apply Mn; [intros u Hu; apply ns_remove_in; split; assumption|].
    unfold cusages in *. rewrite G. destruct (N.eq_dec j id) as [->|Hj]; [rewrite Hc'; rewrite Hc0 in Iy; exact Iy|rewrite (Ho j Hj); assumption].
Qed.

Lemma node_dec : forall a b : node, {a = b} + {a <> b}.
Proof.
  intros a b. destruct (node_eqb a b) eqn:E; [left; apply node_eqb_iff; assumption|right].
  intros ->. rewrite node_eqb_refl in E. discriminate.
Qed.

Lemma hce_raw_add : forall E id sh bij src s x s', na_get (hashcons s) sh = None -> is_ws sh ->
  raw_add_to_class id (sh, bij) src s = Ok (x, s') -> hce E s ->
  hce (fun y => E y \/ y = sh) s' /\ stored s' id sh (bij, src).
Proof.
  intros E id sh bij src s x s' Abs Ws H [T C].
  destruct (raw_add_views _ _ _ _ _ _ _ H) as (Hh & P & U & Nid & No & Mn & Ad).
  assert (St : stored s' id sh (bij, src)) by (unfold stored; rewrite Nid; apply na_get_set_same).
  assert (Old : forall i y p, y <> sh -> stored s' i y p -> stored s i y p).
  { intros i y p Hy S. unfold stored in *. destruct (N.eq_dec i id) as [->|Hi].
    - rewrite Nid, na_get_set_other in S; assumption.
    - rewrite (No i Hi) in S. assumption. }
  assert (Oth : forall i y p, i <> id -> stored s' i y p -> y <> sh).
  { intros i y p Hi S -> . unfold stored in S. rewrite (No i Hi) in S.
    pose proof (tb_bwd s T i sh p S) as B. congruence. }
  split; [|exact St]. split.
  - constructor.
    + intros i y p S. destruct (node_dec y sh) as [->|Ny]; [assumption|]. eapply (tb_ws s T). apply Old; eauto.
    + rewrite Hh. apply na_nodup_set. apply (tb_hc s T).
    + intros i. destruct (N.eq_dec i id) as [->|Hi]; [rewrite Nid; apply na_nodup_set|rewrite (No i Hi)]; apply (tb_cn s T).
    + intros y i Hy. rewrite Hh in Hy. destruct (node_dec y sh) as [->|Ny].
      * rewrite na_get_set_same in Hy. inversion Hy; subst i. eexists; exact St.
      * rewrite na_get_set_other in Hy by assumption. destruct (tb_fwd s T y i Hy) as [p Sp]. exists p.
        unfold stored in *. destruct (N.eq_dec i id) as [->|Hi]; [rewrite Nid, na_get_set_other; assumption|rewrite (No i Hi); assumption].
    + intros i y p S. rewrite Hh. destruct (node_dec y sh) as [->|Ny].
      * rewrite na_get_set_same. destruct (N.eq_dec i id) as [->|Hi]; [reflexivity|]. exfalso. exact (Oth i sh p Hi S eq_refl).
      * rewrite na_get_set_other by assumption. apply (tb_bwd s T i y p). apply Old; assumption.
    + intros i y p j S Hj. destruct (node_dec y sh) as [->|Ny]; [apply Ad; assumption|].
      apply Mn. apply (tb_use s T i y p j); [apply Old; assumption|assumption].
  - intros i y p S. destruct (node_dec y sh) as [->|Ny]; [right; right; right; reflexivity|].
    destruct (C i y p (Old i y p Ny S)) as [A|[A|A]].
    + left. rewrite P. assumption.
    + right. left. eapply canon_frame; [|exact A]. intros j _. apply U.
    + right. right. left. assumption.
Qed.

Lemma hce_raw_remove : forall (E : node -> Prop) id sh s p s', raw_remove_from_class id sh s = Ok (p, s') ->
  hce (fun y => E y \/ y = sh) s ->
  hce E s' /\ na_get (hashcons s') sh = None /\ stored s id sh p.
Proof.
  intros E id sh s p s' H [T C].
  destruct (raw_remove_views _ _ _ _ _ H) as (St & Hh & P & U & Nid & No & Mn).
  assert (Old : forall i y q, stored s' i y q -> stored s i y q /\ y <> sh).
  { intros i y q S. unfold stored in *. destruct (N.eq_dec i id) as [->|Hi].
    - rewrite Nid in S. destruct (node_dec y sh) as [->|Ny].
      + rewrite na_get_remove_same in S by (apply (tb_cn s T)). discriminate.
      + rewrite na_get_remove_other in S by assumption. auto.
    - rewrite (No i Hi) in S. split; [assumption|]. intros ->.
      pose proof (tb_bwd s T i sh q S) as B1. pose proof (tb_bwd s T id sh p St) as B2. congruence. }
  split; [|split; [|exact St]].
  - split.
    + constructor.
      * intros i y q S. destruct (Old i y q S) as [S0 _]. eapply (tb_ws s T); eauto.
      * rewrite Hh. apply na_nodup_remove. apply (tb_hc s T).
      * intros i. destruct (N.eq_dec i id) as [->|Hi]; [rewrite Nid; apply na_nodup_remove|rewrite (No i Hi)]; apply (tb_cn s T).
      * intros y i Hy. rewrite Hh in Hy. destruct (node_dec y sh) as [->|Ny].
        { rewrite na_get_remove_same in Hy by (apply (tb_hc s T)). discriminate. }
        rewrite na_get_remove_other in Hy by assumption. destruct (tb_fwd s T y i Hy) as [q Sq]. exists q.
        unfold stored in *. destruct (N.eq_dec i id) as [->|Hi]; [rewrite Nid, na_get_remove_other; assumption|rewrite (No i Hi); assumption].
      * intros i y q S. destruct (Old i y q S) as [S0 Ny]. rewrite Hh, na_get_remove_other by assumption.
        apply (tb_bwd s T i y q S0).
      * intros i y q j S Hj. destruct (Old i y q S) as [S0 Ny]. apply Mn; [assumption|].
        apply (tb_use s T i y q j S0 Hj).
    + intros i y q S. destruct (Old i y q S) as [S0 Ny]. destruct (C i y q S0) as [A|[A|[A|A]]].
      * left. rewrite P. assumption.
      * right. left. eapply canon_frame; [|exact A]. intros j _. apply U.
      * right. right. assumption.
      * contradiction.
  - rewrite Hh. apply na_get_remove_same. apply (tb_hc s T).
Qed.

(* ------------------------------------------------------------------ *)
(* 5. unions *)

Lemma gadd_set_false : forall ch g ps g', gadd_set ch g ps = Ok (g', false) -> g' = g.
Proof.
  intros ch g ps g' H. unfold gadd_set in H.
  destruct (fold_left _ ps (Ok [])) as [keep|]; cbn [bind] in H; [|discriminate].
  destruct keep; [inversion H; reflexivity|].
  destruct (group_new _ _ _); cbn [bind] in H; inversion H.
Qed.

Lemma hce_move_loop : forall E idf idt mi l s x s',
  iterM (fun e : node * (slotmap * N) =>
           let '(sh, (bij, src_id)) := e in
           dom _ <- raw_remove_from_class idf sh;
           dom new_bij <- with_ctr (compose_fresh bij mi);
           dom _ <- raw_add_to_class idt (sh, new_bij) src_id;
           pending_insert sh true) l s = Ok (x, s') ->
  hce E s -> hce E s'.
Proof.
  intros E idf idt mi. induction l as [|[sh [bij src]] t IH]; intros s x s' H Hs; cbn [iterM] in H.
  - inversion H; subst. assumption.
  - apply mbind_inv in H. destruct H as (u & s4 & H1 & H). eapply IH; [exact H|]. clear H IH.
    apply mbind_inv in H1. destruct H1 as (p & s1 & Hr & H1).
    apply mbind_inv in H1. destruct H1 as (nb & s2 & Hc & H1).
    apply mbind_inv in H1. destruct H1 as (u3 & s3 & Ha & H1).
    destruct (hce_raw_remove E idf sh s p s1 Hr) as (I1 & Abs & St0).
    { eapply hce_weaken; [|exact Hs]. auto. }
    pose proof (tb_ws s (proj1 Hs) _ _ _ St0) as Ws.
    pose proof (hce_with_ctr _ _ _ _ _ _ Hc I1) as I2.
    assert (Abs2 : na_get (hashcons s2) sh = None).
    { apply with_ctr_spec in Hc. subst s2. exact Abs. }
    destruct (hce_raw_add E idt sh nb src s2 u3 s3 Abs2 Ws Ha I2) as [I3 _].
    eapply hce_pending_insert; eauto.
Qed.

Lemma hce_move_to : forall E from to s x s', move_to from to s = Ok (x, s') -> hce E s -> hce E s'.
Proof.
  intros E from to s x s' H Hs. unfold move_to in H. cbv zeta in H.
  apply mbind_inv in H. destruct H as (u1 & s1 & H1 & H).
  pose proof (hce_unionfind_set _ _ _ _ _ _ H1 Hs) as I1.
  apply bind_reads_inv in H. destruct H as (cf & Hcf & H).
  apply mbind_inv in H. destruct H as (u2 & s2 & H2 & H).
  pose proof (hce_move_loop _ _ _ _ _ _ _ _ H2 I1) as I2.
  apply bind_reads_inv in H. destruct H as (cf2 & Hcf2 & H).
  apply bind_reads_inv in H. destruct H as (ct & Hct & H).
  apply mbind_inv in H. destruct H as ([g' fl] & s3 & H3 & H). apply lift_inv in H3. destruct H3 as [H3 ->].
  apply mbind_inv in H. destruct H as (u4 & s4 & H4 & H). cbn [fst snd] in *.
  apply mbind_inv in H. destruct H as (u5 & s5 & H5 & H).
  assert (I5 : hce (fun sh => E sh \/ In (aid from) (node_ids sh)) s5).
  { destruct fl.
    - assert (I4 : hce (fun sh => (E sh \/ In (aid from) (node_ids sh)) \/ In (aid to) (node_ids sh)) s4).
      { eapply hce_upd_class; [|exact H4|exact I2]. intros c0. split; reflexivity. }
      eapply hce_touched_class; eauto.
    - inversion H5; subst u5 s5. apply gadd_set_false in H3. subst g'.
      exact (upd_class_same_group _ _ (fun c => with_group c (c_group ct)) _ _ _ ct Hct eq_refl eq_refl eq_refl H4 I2). }
  eapply hce_touched_class; eauto.
Qed.

Definition ui_specH (ui : appid -> appid -> M bool) : Prop :=
  forall E l r s b s', ui l r s = Ok (b, s') -> hce E s -> hce E s'.

Section UiH.
  Variable ui : appid -> appid -> M bool.
  Hypothesis HU : ui_specH ui.

  Lemma hce_shrink_slots : forall E from cap s x s', shrink_slots ui from cap s = Ok (x, s') -> hce E s -> hce E s'.
  Proof.
    intros E from cap s x s' H Hs. unfold shrink_slots in H. cbv zeta in H.
    apply mbind_inv in H. destruct H as (oc & s0 & H0 & H). apply lift_inv in H0. destruct H0 as [_ ->].
    apply mbind_inv in H. destruct H as (u1 & s1 & H1 & H).
    unfold record_redundancy_witness in H1. apply bind_reads_inv in H1. destruct H1 as (ss & _ & H1).
    pose proof (hce_unionfind_set _ _ _ _ _ _ H1 Hs) as I1.
    apply bind_reads_inv in H. destruct H as (c & Hc & H).
    apply mbind_inv in H. destruct H as (flags & s0 & H0 & H). apply lift_inv in H0. destruct H0 as [_ ->].
    apply mbind_inv in H. destruct H as (g & s0 & H0 & H). apply lift_inv in H0. destruct H0 as [_ ->].
    apply mbind_inv in H. destruct H as (u2 & s2 & H2 & H).
    assert (I2 : hce (fun sh => (E sh \/ In (aid from) (node_ids sh)) \/ In (aid from) (node_ids sh)) s2).
    { eapply hce_upd_class; [|exact H2|exact I1]. intros c0. split; reflexivity. }
    apply mbind_inv in H. destruct H as (u3 & s3 & H3 & H).
    assert (I3 : hce E s3).
    { eapply hce_touched_class; [exact H3|]. eapply hce_weaken; [|exact I2]. intros sh [[A|A]|A]; auto. }
    clear - HU H I3. revert s3 x s' H I3.
    match goal with |- forall s3 x s', iterM ?f ?l s3 = _ -> _ => generalize l end.
    induction l as [|pp t IH]; intros s3 x s' H I3; cbn [iterM] in H.
    - inversion H; subst. assumption.
    - apply mbind_inv in H. destruct H as (u & s4 & H4 & H). eapply IH; [exact H|]. clear H IH.
      apply bind_reads_inv in H4. destruct H4 as (sl & _ & H4).
      apply mbind_inv in H4. destruct H4 as (ps & s0 & H0 & H4). apply lift_inv in H0. destruct H0 as [_ ->].
      apply mbind_inv in H4. destruct H4 as (b & s5 & H5 & H4). inversion H4; subst u s5.
      eapply HU; eauto.
  Qed.

  Lemma hce_union_leaders : forall E l r s b s', union_leaders ui l r s = Ok (b, s') -> hce E s -> hce E s'.
  Proof.
    intros E l r s b s' H Hs. unfold union_leaders in H.
    apply bind_reads_inv in H. destruct H as (e & _ & H). destruct e; [inversion H; subst; assumption|].
    cbv zeta in H.
    destruct (negb (sset_eqb (values (am l)) _)).
    { apply mbind_inv in H. destruct H as (u1 & s1 & H1 & H).
      apply mbind_inv in H. destruct H as (u2 & s2 & H2 & H). inversion H; subst b s2.
      eapply HU; [exact H2|]. eapply hce_shrink_slots; eauto. }
    destruct (negb (sset_eqb (values (am r)) _)).
    { apply mbind_inv in H. destruct H as (u1 & s1 & H1 & H).
      apply mbind_inv in H. destruct H as (u2 & s2 & H2 & H). inversion H; subst b s2.
      eapply HU; [exact H2|]. eapply hce_shrink_slots; eauto. }
    destruct (aid l =? aid r).
    - apply bind_reads_inv in H. destruct H as (c & Hc & H).
      apply mbind_inv in H. destruct H as (bb & s0 & H0 & H). apply lift_inv in H0. destruct H0 as [_ ->].
      destruct bb; [inversion H; subst; assumption|].
      apply mbind_inv in H. destruct H as (g & s0 & H0 & H). apply lift_inv in H0. destruct H0 as [_ ->].
      apply mbind_inv in H. destruct H as (u2 & s2 & H2 & H).
      apply mbind_inv in H. destruct H as (u3 & s3 & H3 & H). inversion H; subst b s3.
      eapply hce_touched_class; [exact H3|].
      eapply hce_upd_class; [|exact H2|exact Hs]. intros c0. split; reflexivity.
    - apply bind_reads_inv in H. destruct H as (cl & _ & H).
      apply bind_reads_inv in H. destruct H as (cr & _ & H).
      apply mbind_inv in H. destruct H as (u1 & s1 & H1 & H). inversion H; subst b s1.
      match type of H1 with (if ?c then _ else _) _ = _ => destruct c end; eapply hce_move_to; eauto.
  Qed.

  Lemma hce_union_internal_body : forall E l r s b s', union_internal_body ui l r s = Ok (b, s') -> hce E s -> hce E s'.
  Proof.
    intros E l r s b s' H Hs. unfold union_internal_body in H.
    apply bind_reads_inv in H. destruct H as (l1 & _ & H).
    apply bind_reads_inv in H. destruct H as (r1 & _ & H).
    eapply hce_union_leaders; eauto.
  Qed.
End UiH.

Theorem hce_union_internal : forall fuel, ui_specH (union_internal fuel).
Proof.
  induction fuel as [|f IH]; intros E l r s b s' H Hs; [discriminate H|].
  rewrite union_internal_S in H. eapply hce_union_internal_body; eauto.
Qed.

Corollary hce_uint : ui_specH uint.
Proof. exact (hce_union_internal ui_fuel). Qed.

(* ------------------------------------------------------------------ *)
(* 6. the children of a computed shape are leaders *)

Lemma zip_with_aid : forall (f : appid -> perm -> appid) (apps : list appid) (l : list perm),
  (forall a pp, aid (f a pp) = aid a) -> List.length l = List.length apps ->
  List.length (zip_with f apps l) = List.length apps /\ map aid (zip_with f apps l) = map aid apps.
Proof.
  intros f. induction apps as [|a t IH]; intros [|pp l] Hf HL; cbn in HL; try discriminate; cbn [zip_with map List.length].
  - split; reflexivity.
  - destruct (IH l Hf) as [A B]; [lia|]. rewrite A, B, Hf. split; reflexivity.
Qed.

Lemma variants_ids : forall s n vs v, variants s n = Ok vs -> In v vs -> node_ids v = node_ids n.
Proof.
  intros s n vs v H Hv. unfold variants in H.
  destruct (mapr (fun a => get_class s (aid a)) (app_occ n)) as [cls|] eqn:Ec; cbn [bind] in H; [|discriminate].
  destruct (forallb _ cls).
  - inversion H; subst vs. destruct Hv as [<-|[]]. reflexivity.
  - destruct (mapr _ cls) as [groups|] eqn:Eg; cbn [bind] in H; [|discriminate]. inversion H; subst vs; clear H.
    apply in_map_iff in Hv. destruct Hv as (l & <- & Hl).
    pose proof (cartesian_len _ _ Hl) as L1. pose proof (mapr_length _ _ _ Eg) as L2. pose proof (mapr_length _ _ _ Ec) as L3.
    destruct (zip_with_aid (fun a pp => {| aid := aid a; am := pp ** am a |}) (app_occ n) l) as [A B];
      [intros; reflexivity|etransitivity; [exact L1|]; etransitivity; [exact L2|exact L3]|].
    unfold node_ids. rewrite app_occ_set_apps by exact A. exact B.
Qed.

Lemma node_ids_ckeys : forall n, node_ids n = map fst (ckeys n).
Proof. intros n. unfold node_ids, ckeys. rewrite map_map. reflexivity. Qed.

Lemma wshape_ids : forall n sh bij, wshape n = Ok (sh, bij) -> node_ids sh = node_ids n.
Proof.
  intros n sh bij H. rewrite !node_ids_ckeys. f_equal. apply skel_ckeys. eapply ws_skel; eauto.
Qed.

Lemma shape_leaders : forall s n sh bij, uf_ok s -> shape s n = Ok (sh, bij) ->
  forall j, In j (node_ids sh) -> leader s j.
Proof.
  intros s n sh bij U H j Hj. unfold shape, pre_shape in H.
  destruct (find_enode s n) as [n1|] eqn:E1; cbn [bind] in H; [|discriminate].
  destruct (variants s n1) as [vs|] eqn:Ev; cbn [bind] in H; [|discriminate].
  destruct (min_variant vs None) as [p|] eqn:Em; cbn [bind] in H; [|discriminate].
  rewrite (wshape_ids _ _ _ H) in Hj.
  destruct (min_variant_in _ _ _ Em) as [Hp|(k & Hk)]; [|discriminate].
  rewrite (variants_ids _ _ _ _ Ev Hp) in Hj.
  destruct (find_enode_idem s n n1 U E1) as [_ F].
  unfold node_ids in Hj. apply in_map_iff in Hj. destruct Hj as (a & <- & Ha).
  destruct (F a Ha) as (a0 & Fa). eapply find_is_leader; eauto.
Qed.

Lemma hce_discharge : forall (E : node -> Prop) sh s, canon s sh -> hce (fun y => E y \/ y = sh) s -> hce E s.
Proof.
  intros E sh s Cn [T C]. split; [assumption|]. intros i y p S.
  destruct (C i y p S) as [A|[A|[A| ->]]]; auto.
Qed.

(* ------------------------------------------------------------------ *)
(* 7. rebuild *)

Lemma hce_handle_shrink : forall E src s x s', handle_shrink_in_upwards_merge src s = Ok (x, s') -> hce E s -> hce E s'.
Proof.
  intros E src s x s' H Hs. unfold handle_shrink_in_upwards_merge in H.
  apply bind_reads_inv in H. destruct H as (pc1 & _ & H).
  apply bind_reads_inv in H. destruct H as (n2 & _ & H).
  apply mbind_inv in H. destruct H as ([a b] & s1 & H1 & H).
  eapply (hce_shrink_slots uint hce_uint); [exact H|]. eapply hce_pc_congruence; eauto.
Qed.

Lemma hce_handle_congruence : forall E pc1 s x s', handle_congruence pc1 s = Ok (x, s') -> hce E s -> hce E s'.
Proof.
  intros E pc1 s x s' H Hs. unfold handle_congruence in H.
  apply bind_reads_inv in H. destruct H as (sh & _ & H).
  apply bind_reads_inv in H. destruct H as (pc2 & _ & H).
  apply mbind_inv in H. destruct H as (ab & s1 & H1 & H).
  apply mbind_inv in H. destruct H as (b & s2 & H2 & H). inversion H; subst x s2; clear H.
  eapply hce_uint; [exact H2|]. eapply hce_pc_congruence; eauto.
Qed.

Lemma hce_determine_self_symmetries : forall E src s x s', determine_self_symmetries src s = Ok (x, s') -> hce E s -> hce E s'.
Proof.
  intros E src s x s' H Hs. unfold determine_self_symmetries in H.
  apply bind_reads_inv in H. destruct H as (pc1 & _ & H).
  apply mbind_inv in H. destruct H as (w & s0 & Hw & H). apply lift_inv in Hw. destruct Hw as [_ ->].
  cbv zeta in H. apply bind_reads_inv in H. destruct H as (vs & _ & H).
  revert s x s' H Hs. induction vs as [|pn2 t IH]; intros s x s' H Hs; cbn [iterM] in H.
  - inversion H; subst. assumption.
  - apply mbind_inv in H. destruct H as (u & s2 & H1 & H). eapply IH; [exact H|]. clear H IH.
    apply mbind_inv in H1. destruct H1 as (w2 & s0 & Hw2 & H1). apply lift_inv in Hw2. destruct Hw2 as [_ ->].
    destruct (node_eqb (fst w) (fst w2)); [|inversion H1; subst; assumption].
    apply mbind_inv in H1. destruct H1 as (ab & s3 & H3 & H1).
    apply mbind_inv in H1. destruct H1 as (b & s4 & H4 & H1). inversion H1; subst u s4; clear H1.
    eapply hce_uint; [exact H4|]. eapply hce_pc_congruence; eauto.
Qed.

Lemma hce_hp_loop : forall E fuel src enode i s r s', hp_loop fuel src enode i s = Ok (r, s') -> hce E s -> hce E s'.
Proof.
  intros E. induction fuel as [|f IH]; intros src enode i s r s' H Hs; cbn [hp_loop] in H; [discriminate|].
  destruct (sset_subset (values (am i)) (slots enode)).
  - inversion H; subst. assumption.
  - apply mbind_inv in H. destruct H as (u & s1 & H1 & H).
    apply bind_reads_inv in H. destruct H as (enode' & _ & H).
    apply bind_reads_inv in H. destruct H as (i' & _ & H).
    eapply IH; [exact H|]. eapply hce_handle_shrink; eauto.
Qed.

Lemma lookup_none_absent : forall s sh bij, lookup_internal s (sh, bij) = Ok None -> na_get (hashcons s) sh = None.
Proof.
  intros s sh bij H. unfold lookup_internal in H. destruct (na_get (hashcons s) sh) as [i|]; [|reflexivity].
  destruct (get_class s i) as [c|]; cbn [bind] in H; [|discriminate].
  destruct (na_get (c_nodes c) sh) as [[cb src]|]; discriminate.
Qed.

Lemma unch_trans : forall a b c j, unch a b j -> unch b c j -> unch a c j.
Proof. intros a b c j [A1 A2] [B1 B2]. split; congruence. Qed.

Lemma hp_loop_binders : forall fuel src enode i s r s', hp_loop fuel src enode i s = Ok (r, s') ->
  binders (fst r) = binders enode.
Proof.
  induction fuel as [|f IH]; intros src enode i s r s' H; cbn [hp_loop] in H; [discriminate|].
  destruct (sset_subset (values (am i)) (slots enode)).
  - inversion H; subst. reflexivity.
  - apply mbind_inv in H. destruct H as (u & s1 & H1 & H).
    apply bind_reads_inv in H. destruct H as (enode' & He & H).
    apply bind_reads_inv in H. destruct H as (i' & _ & H).
    rewrite (IH _ _ _ _ _ _ H). eapply find_enode_binders; eauto.
Qed.

Section RebuildH.
  (* idempotence of `shape` on results of find_enode (proved in EGraph/HashconsShape.v) *)
  Hypothesis K1 : forall s n0 n sh bij, inv3 s -> find_enode s n0 = Ok n -> NoDup (binders n) -> shape s n = Ok (sh, bij) ->
    exists b2, shape s sh = Ok (sh, b2).
  Hypothesis WSB : forall n sh bij, wshape n = Ok (sh, bij) -> NoDup (binders sh).

  Theorem hce_handle_pending : forall sh ty s x s', inv3 s -> handle_pending sh ty s = Ok (x, s') ->
    hce (fun y => y = sh /\ ty = true) s -> hc_ok s'.
  Proof.
    intros sh ty s x s' I3 H Hs. unfold handle_pending in H.
    apply bind_reads_inv in H. destruct H as (i & _ & H).
    destruct ty; cbn [negb] in H.
    2:{ inversion H; subst. eapply hce_weaken; [|exact Hs]. intros y [_ F]. discriminate. }
    apply bind_reads_inv in H. destruct H as (c & Hc & H).
    apply mbind_inv in H. destruct H as ([bij0 src_id] & s0 & Hp & H). apply lift_inv in Hp. destruct Hp as [_ ->].
    apply mbind_inv in H. destruct H as (nd & s0 & Hnd & H). apply lift_inv in Hnd. destruct Hnd as [Hnd ->].
    apply mbind_inv in H. destruct H as (u1 & sA & HA & H).
    assert (IA : inv3 sA).
    { destruct I3 as [Hs2 HN]. destruct (semR_step2 _ _ (s_raw_remove _ _ _ _ _ HA) Hs2) as [HsA EA].
      split; [exact HsA|eapply nodes_raw_remove; eauto]. }
    destruct (hce_raw_remove noex i sh s _ sA HA) as (HA' & _ & St0).
    { eapply hce_weaken; [|exact Hs]. intros y [-> _]. right. reflexivity. }
    assert (ND : NoDup (binders nd)).
    { destruct (tb_ws s (proj1 Hs) _ _ _ St0) as (n9 & b9 & W9). rewrite (apply_slotmap_ren _ _ _ Hnd), ren_binders.
      unfold asm_g. rewrite map_id. eapply WSB; eauto. }
    apply bind_reads_inv in H. destruct H as (sl & Hsl & H). cbv zeta in H.
    apply bind_reads_inv in H. destruct H as (enode0 & Hen & H).
    apply bind_reads_inv in H. destruct H as (i0 & Hi0 & H).
    unfold class_slots in Hsl. destruct (get_class sA i) as [cA|] eqn:HcA; cbn [bind] in Hsl; [|discriminate].
    inversion Hsl; subst sl; clear Hsl.
    pose proof (covers_lcanon sA _ i0 (proj1 (proj1 IA)) (covers_identity sA i cA HcA) Hi0) as L0.
    apply mbind_inv in H. destruct H as ([enode i1] & sB & HB & H).
    destruct (inv3_hp_loop _ _ _ _ _ _ _ IA L0 (ex_intro _ nd Hen) HB) as (IB & EB & L1 & (n0 & Fn) & Sub). cbn [fst snd] in *.
    pose proof (hce_hp_loop _ _ _ _ _ _ _ _ HB HA') as HB'.
    assert (NDe : NoDup (binders enode)).
    { pose proof (hp_loop_binders _ _ _ _ _ _ _ HB) as Q. cbn [fst] in Q. rewrite Q, (find_enode_binders _ _ _ Hen). exact ND. }
    apply bind_reads_inv in H. destruct H as (t & Ht & H).
    apply bind_reads_inv in H. destruct H as (lk & Hlk & H).
    destruct lk as [hit|].
    - apply bind_reads_inv in H. destruct H as (pc & P & H). eapply hce_handle_congruence; eauto.
    - destruct t as [sh' bij].
      apply mbind_inv in H. destruct H as (m & sC & Hm & H).
      change (fill_fresh (values bij) (inv (am i1)) sB = Ok (m, sC)) in Hm. cbv zeta in H.
      apply mbind_inv in H. destruct H as (u2 & sD & HD & H).
      pose proof (lookup_none_absent _ _ _ Hlk) as Abs.
      assert (CB : canon sB sh').
      { split; [eapply shape_leaders; [exact (ei_uf sB (proj1 (proj1 IB)))|exact Ht]|].
        eapply K1; eauto. }
      assert (Ws' : is_ws sh').
      { unfold shape in Ht. destruct (pre_shape sB enode) as [p9|]; cbn [bind] in Ht; [|discriminate]. exists p9, bij. exact Ht. }
      destruct (fill_fresh_spec _ _ _ _ _ (inverse_wf (am i1)) Hm) as (_ & _ & _ & (cC & ->)).
      pose proof (hce_ctr_only noex sB (set_ctr sB cC) (ex_intro _ cC eq_refl) HB') as HC'.
      destruct (hce_raw_add noex (aid i1) sh' (bij ** m) src_id (set_ctr sB cC) u2 sD Abs Ws' HD HC') as [HD' _].
      assert (CD : canon sD sh').
      { eapply canon_frame; [|exact CB]. intros j _.
        destruct (raw_add_views _ _ _ _ _ _ _ HD) as (_ & _ & U & _).
        eapply unch_trans; [|apply U]. split; reflexivity. }
      eapply hce_determine_self_symmetries; [exact H|]. eapply hce_discharge; eauto.
  Qed.

  Theorem hce_rebuild : forall fuel s x s', inv3 s -> rebuild fuel s = Ok (x, s') -> hc_ok s -> hc_ok s'.
  Proof.
    induction fuel as [|f IH]; intros s x s' I3 H Hs; [discriminate H|]. rewrite rebuild_S in H.
    apply mbind_inv in H. destruct H as (p & s0 & Hp & H). inversion Hp; subst p s0; clear Hp.
    destruct (pending s) as [|[sh ty] rest] eqn:Ep; [inversion H; subst; assumption|].
    apply mbind_inv in H. destruct H as (u1 & s1 & H1 & H).
    apply mbind_inv in H. destruct H as (u2 & s2 & H2 & H).
    assert (I1 : inv3 s1).
    { destruct (s_modify_pend' (fun _ => rest) _ _ _ H1) as [A B]. exact (proj1 (semn_step3 _ _ A B I3)). }
    inversion H1; subst u1 s1; clear H1.
    assert (Hs1 : hce (fun y => y = sh /\ ty = true) (set_pending s rest)).
    { destruct Hs as [T C]. split; [eapply tab_ok_same; [|exact T]; repeat split|].
      intros i y p S. change (stored s i y p) in S. destruct (C i y p S) as [A|[A|[]]].
      - rewrite Ep in A. cbn [na_get] in A. destruct (node_eqb y sh) eqn:Ey.
        + apply node_eqb_iff in Ey. inversion A; subst. right. right. split; reflexivity.
        + left. exact A.
      - right. left. eapply canon_frame; [|exact A]. intros j _. split; reflexivity. }
    pose proof (hce_handle_pending _ _ _ _ _ I1 H2 Hs1) as Hs2.
    destruct (inv3_handle_pending pre_shape_keeps_proved _ _ _ _ _ H2 I1) as [I2 _].
    eapply IH; eauto.
  Qed.

  Theorem hce_eg_union : forall l r s b s', inv3 s -> covers s l -> covers s r ->
    eg_union l r s = Ok (b, s') -> hc_ok s -> hc_ok s'.
  Proof.
    intros l r s b s' I3 Cl Cr H Hs. unfold eg_union in H.
    apply mbind_inv in H. destruct H as (l1 & s1 & H1 & H).
    destruct (semn_step3 _ _ (s_synify_app_id _ _ _ _ H1) (n_synify_app_id _ _ _ _ H1) I3) as [Hs1 E1].
    apply mbind_inv in H. destruct H as (r1 & s2 & H2 & H).
    destruct (semn_step3 _ _ (s_synify_app_id _ _ _ _ H2) (n_synify_app_id _ _ _ _ H2) Hs1) as [Hs2 E2].
    pose proof (ext_trans _ _ _ E1 E2) as E02.
    apply mbind_inv in H. destruct H as (out & s3 & H3 & H).
    destruct (inv3_uint _ _ _ _ _ Hs2 (covers_ext _ _ _ E02 Cl) (covers_ext _ _ _ E02 Cr) H3) as [Hs3 E3].
    apply mbind_inv in H. destruct H as (u & s4 & H4 & H). inversion H; subst b s4; clear H.
    eapply hce_rebuild; [exact Hs3|exact H4|].
    eapply hce_uint; [exact H3|]. eapply hce_synify_app_id; [exact H2|]. eapply hce_synify_app_id; eauto.
  Qed.
End RebuildH.

(* ------------------------------------------------------------------ *)
(* 8. the insertion side *)

Lemma hce_drop_mention : forall (E : node -> Prop) i s, cusages s i = [] ->
  hce (fun sh => E sh \/ In i (node_ids sh)) s -> hce E s.
Proof.
  intros E i s Hu [T C]. split; [assumption|]. intros i0 sh p S.
  destruct (C i0 sh p S) as [A|[A|[A|A]]]; auto.
  pose proof (tb_use s T i0 sh p i S A) as U. rewrite Hu in U. contradiction.
Qed.

Lemma hce_alloc : forall E sl syn s i s', eg_wf s -> alloc_eclass sl syn s = Ok (i, s') -> hce E s ->
  hce E s' /\ hashcons s' = hashcons s /\ pending s' = pending s.
Proof.
  intros E sl syn s i s' W H Hs.
  destruct (alloc_eclass_exact _ _ _ _ _ H) as (Hi & U & C & Hh & P & _).
  set (cn := {| c_nodes := []; c_slots := sl; c_usages := []; c_group := Grp (identity sl) None; c_syn := syn |}) in *.
  assert (Ei : i = N.of_nat (lc s)) by (rewrite Hi; f_equal; exact W).
  assert (Hnew : get_class s' i = Ok cn) by (rewrite Ei; apply (get_class_ext_new s s' cn C)).
  assert (Old : forall j, j <> i -> get_class s' j = get_class s j).
  { intros j Hj. unfold get_class. rewrite C, nth_opt_app_other; [reflexivity|]. rewrite Ei in Hj. lia. }
  assert (Enew : get_class s i = Err UnwrapNone).
  { unfold get_class. destruct (nth_opt (classes s) (N.to_nat i)) eqn:Ec; [|reflexivity].
    apply nth_opt_Some_lt in Ec. rewrite Ei, Nat2N.id in Ec. lia. }
  assert (M : mod_at i s s').
  { split; [split; [assumption|split; intros j; unfold cnodes, cusages;
         (destruct (N.eq_dec j i) as [->|Hj]; [rewrite Hnew, Enew; reflexivity|rewrite (Old j Hj); reflexivity])]|].
    split; [assumption|]. intros j Hj. split;
         [rewrite U; apply uentry_app_other; rewrite Hi in Hj; lia|unfold cgroup; rewrite (Old j Hj); reflexivity]. }
  split; [|split; assumption].
  apply (hce_drop_mention E i); [unfold cusages; rewrite Hnew; reflexivity|].
  eapply hce_mod_at; eauto.
Qed.
(* the premises on an inserted node under which the weak shape of its fresh syntactic node is not yet
   hash-consed (EGraph/HashconsAbs.v `add_shape_absent_nodup`; `absent_needs_covers` and
   `absent_needs_old_slots` there show that the first two are needed): the child invocations cover their
   classes, the user slots do not collide with the fresh slots still to be drawn, the binder names of
   the node are pairwise distinct *)
Definition node_pre (s : egraph) (n : node) : Prop :=
  Forall (covers s) (app_occ n) /\ (forall x, In x (pub_occ n) -> x < ectr s \/ x mod 4 <> 1) /\ NoDup (binders n).

(* the same for a term: every node inserted by `add_expr t` satisfies `node_pre` when it is inserted *)
Fixpoint term_pre (t : rterm) (s : egraph) {struct t} : Prop :=
  match t with
  | RT n ch =>
      (fix go (l : list rterm) (s : egraph) (K : list appid -> egraph -> Prop) {struct l} : Prop :=
         match l with
         | [] => K [] s
         | c :: r => term_pre c s /\
                     forall a s1, add_expr c s = Ok (a, s1) -> go r s1 (fun l' s' => K (a :: l') s')
         end) ch s (fun l s1 => node_pre s1 (set_apps n l))
  end.

Fixpoint ops_pre (terms : list rterm) (ops : list hop) (hs : list appid) (s : egraph) {struct ops} : Prop :=
  match ops with
  | [] => True
  | HAdd k :: t =>
      match nth_opt terms k with
      | Some tm => term_pre tm s /\ forall a s1, add_expr tm s = Ok (a, s1) -> ops_pre terms t (hs ++ [a]) s1
      | None => True
      end
  | HUnion i j _ :: t =>
      match nth_opt hs i, nth_opt hs j with
      | Some a, Some b => forall u s1, eg_union a b s = Ok (u, s1) -> ops_pre terms t hs s1
      | _, _ => True
      end
  end.

(* the bundle carried through insertions *)
Definition hcb (s : egraph) : Prop := inv3 s /\ pending s = [] /\ hc_ok s /\ m4 s.

Section AddH.
  Hypothesis K1 : forall s n0 n sh bij, inv3 s -> find_enode s n0 = Ok n -> NoDup (binders n) -> shape s n = Ok (sh, bij) ->
    exists b2, shape s sh = Ok (sh, b2).
  Hypothesis WSB : forall n sh bij, wshape n = Ok (sh, bij) -> NoDup (binders sh).

  Lemma hce_mk_singleton : forall en s a s', inv3 s -> Forall (fun b => b < ectr s) (binders en) -> hc_ok s ->
    (forall f2o c2 synf c3 sh0 b0, bijection_from_fresh_to (slots en) (ectr s) = (f2o, c2) ->
       apply_slotmap_fresh false (inv f2o) en c2 = (synf, c3) -> wshape synf = Ok (sh0, b0) ->
       na_get (hashcons s) sh0 = None) ->
    mk_singleton_class en s = Ok (a, s') -> hc_ok s'.
  Proof.
    intros en s a s' I3 Hb Hs Abs H. unfold mk_singleton_class in H.
    apply mbind_inv in H. destruct H as (f2o & s1 & H1 & H).
    unfold with_ctr in H1. destruct (bijection_from_fresh_to (slots en) (ectr s)) as [f2o' c2] eqn:BF.
    inversion H1; subst f2o' s1; clear H1.
    apply mbind_inv in H. destruct H as (syn0 & s2 & H2 & H). unfold with_ctr in H2. cbn [Model.ctr set_ctr] in H2.
    pose proof (fresh_rename_spec en (ectr s) f2o c2 Hb BF) as R. cbv zeta in R.
    destruct (bff_props _ _ _ _ (slots_sorted en) BF) as [Wf2o If2o].
    destruct (apply_slotmap_fresh false (inv f2o) en c2) as [synf c3] eqn:ASF. cbn [fst snd] in R.
    inversion H2; subst syn0 s2; clear H2.
    destruct R as (Ec3 & _ & Bi & Sl & _ & Pb & _). subst c3.
    pose proof (bijection_from_fresh_to_step (slots en) (ectr s)) as St. rewrite BF in St. cbn [snd] in St. apply ctr_step_le in St.
    set (s2 := set_ctr (set_ctr s c2) c2) in *.
    assert (S02 : semR s s2).
    { split; [|unfold s2; cbn [Model.ctr set_ctr]; lia]. split; reflexivity. }
    destruct (semn_step3 _ _ S02 (nsame_classes s s2 eq_refl) I3) as [I2 E02].
    assert (Hs2 : hc_ok s2).
    { unfold s2. eapply hce_ctr_only; [eexists; reflexivity|]. eapply hce_ctr_only; [eexists; reflexivity|exact Hs]. }
    apply mbind_inv in H. destruct H as (i & s3 & H3 & H).
    pose proof (alloc_eclass_exact _ _ _ _ _ H3) as (Hi & U & C & _ & _ & Ct).
    assert (S3 : inv3 s3 /\ ext0 s2 s3).
    { destruct I2 as [[[Hok Hsl HC] Hbl] HN].
      assert (Wsl : swf (values (inv f2o))) by apply sset_of_list_spec.
      split; [split; [split|]|].
      - constructor.
        + exact (uf_ok_alloc_eclass _ _ _ _ _ H3 Hok).
        + eapply uf_slots_ok_alloc_eclass; [exact Hok|exact Hsl|exact Wsl|exact Sl|exact H3].
        + intros j c Hc. apply (get_class_ext_inv s2 s3 _ C) in Hc. destruct Hc as [Hc|[_ ->]]; [eapply HC; eauto|].
          split; [exact Wsl|]. split.
          * apply class_flat_grp_ok. unfold class_flat. cbn [c_slots c_group c_syn]. auto.
          * cbn [c_slots c_syn]. rewrite Sl. apply incl_refl.
      - intros j c x Hc Hx. rewrite Ct. apply (get_class_ext_inv s2 s3 _ C) in Hc. destruct Hc as [Hc|[_ ->]]; [eapply Hbl; eauto|].
        cbn [c_syn] in Hx. unfold s2. cbn [Model.ctr set_ctr].
        apply (Permutation.Permutation_in _ (occ_partition synf)) in Hx. apply in_app_or in Hx. destruct Hx as [Hx|Hx].
        + apply Pb in Hx. lia.
        + apply prv_binders in Hx. rewrite Bi in Hx. pose proof (proj1 (Forall_forall _ _) Hb x Hx) as T. cbv beta in T. lia.
      - intros j c e Hc He. apply (get_class_ext_inv s2 s3 _ C) in Hc. destruct Hc as [Hc|[_ ->]]; [eapply HN; eauto|].
        cbn [c_nodes] in He. contradiction.
      - split; [rewrite Ct; lia|]. intros j c Hc. exists c. split; [eapply get_class_ext_old; eauto|].
        split; [apply incl_refl|reflexivity]. }
    destruct S3 as [I3' E23].
    pose proof (get_class_ext_new s2 s3 _ C) as Hnew.
    assert (W2 : eg_wf s2) by exact (uso_wf _ (ei_slots _ (proj1 (proj1 I2)))).
    assert (Ei : i = N.of_nat (lc s2)) by (rewrite Hi; f_equal; exact W2).
    rewrite <- Ei in Hnew.
    destruct (hce_alloc noex _ _ _ _ _ W2 H3 Hs2) as (Hs3 & Hh3 & _).
    apply mbind_inv in H. destruct H as (t & s0 & Ht & H). apply lift_inv in Ht. destruct Ht as [Ht ->].
    apply mbind_inv in H. destruct H as (u4 & s4 & H4 & H). destruct t as [sh bij].
    assert (I4 : inv3 s4 /\ ext s3 s4).
    { destruct I3' as [Hs2' HN]. destruct (semR_step2 _ _ (s_raw_add _ _ _ _ _ _ H4) Hs2') as [Hs4 E4].
      split; [|exact E4]. split; [exact Hs4|]. eapply nodes_raw_add; [exact HN|exact Hnew| |exact H4].
      destruct (shape_bij_props _ _ _ Ht) as (Wb & Bb & _). destruct (shape_bij _ _ _ Ht) as (Sb1 & Sb2 & _).
      unfold entry_ok. cbn [fst snd c_slots]. split; [assumption|]. split; [apply is_bijection_injective; assumption|].
      split; [intros k Hk; apply Sb2; assumption|].
      intros x Hx. apply Sb1. rewrite <- Sl in Hx. apply slots_spec. assumption. }
    destruct I4 as [I4 E34].
    assert (Abs3 : na_get (hashcons s3) sh = None).
    { rewrite Hh3. unfold s2. cbn [hashcons set_ctr]. exact (Abs _ _ _ _ _ _ eq_refl ASF Ht). }
    destruct (hce_raw_add noex i sh bij i s3 u4 s4 Abs3 (ex_intro _ synf (ex_intro _ bij Ht)) H4 Hs3) as [Hs4 _].
    apply mbind_inv in H. destruct H as (u5 & s5 & H5 & H).
    destruct (semn_step3 _ _ (s_pending_insert _ _ _ _ _ H5) (n_pending_insert _ _ _ _ _ H5) I4) as [I5 E45].
    pose proof (hce_pending_insert noex sh s4 u5 s5 H5 Hs4) as Hs5.
    apply mbind_inv in H. destruct H as (u6 & s6 & H6 & H). inversion H; subst a s6; clear H.
    eapply (hce_rebuild K1 WSB); eauto.
  Qed.

  Theorem hce_add_internal : forall n t s a s', inv3 s -> pending s = [] -> hc_ok s -> ectr s mod 4 = 1 -> node_pre s n ->
    shape s n = Ok t -> add_internal t s = Ok (a, s') -> hc_ok s'.
  Proof.
    intros n t s a s' I3 Pe Hs C4 (Cv & Pn & ND) Hsh H. unfold add_internal in H.
    apply bind_reads_inv in H. destruct H as (lk & Hlk & H).
    destruct lk as [hit|]; [inversion H; subst; assumption|].
    apply mbind_inv in H. destruct H as (en1 & s1 & H1 & H).
    destruct (refresh_private (fst t) (ectr s)) as [[r|e] c1] eqn:RP; [|discriminate]. inversion H1; subst r s1; clear H1.
    pose proof (refresh_private_step (fst t) (ectr s)) as St1. rewrite RP in St1. cbn [snd] in St1. apply ctr_step_le in St1.
    destruct (refresh_private_spec _ _ _ _ RP) as (_ & Bi1 & _).
    set (s1 := set_ctr s c1) in *.
    assert (S01 : semR s s1) by (split; [apply sem_set_ctr|unfold s1; cbn [Model.ctr set_ctr]; lia]).
    destruct (semn_step3 _ _ S01 (nsame_ctr s c1) I3) as [I1 E01].
    apply mbind_inv in H. destruct H as (en2 & s2 & H2 & H). apply lift_inv in H2. destruct H2 as [H2 ->].
    pose proof (apply_slotmap_ren _ _ _ H2) as R2.
    assert (Bi2 : binders en2 = binders en1) by (rewrite R2, ren_binders; unfold asm_g; apply map_id).
    apply mbind_inv in H. destruct H as (en3 & s3 & H3 & H).
    pose proof (s_synify_enode _ _ _ _ H3) as S13.
    destruct (semn_step3 _ _ S13 (n_synify_enode _ _ _ _ H3) I1) as [I3' E13].
    pose proof (synify_enode_binders _ _ _ _ H3) as Bi3.
    apply mbind_inv in H. destruct H as (syn & s4 & H4 & H).
    apply reads_state in H. subst s'.
    assert (Hs3 : hc_ok s3).
    { eapply hce_synify_enode; [exact H3|]. unfold s1. eapply hce_ctr_only; [eexists; reflexivity|exact Hs]. }
    assert (Hh3 : hashcons s3 = hashcons s).
    { apply (pres_synify_enode ctr_only ctr_only_refl ctr_only_trans) in H3.
      - destruct (ctr_only_fields _ _ H3) as (_ & _ & A & _). exact A.
      - intros s0 y s0' H0. inversion H0. eexists; reflexivity. }
    eapply (hce_mk_singleton en3 s3 syn s4 I3'); [|exact Hs3| |exact H4].
    { rewrite Bi3, Bi2. revert Bi1. apply Forall_impl. intros b ((_ & Hb) & _).
      destruct S13 as [_ L13]. unfold s1 in L13. cbn [Model.ctr set_ctr] in L13. lia. }
    intros f2o c2 synf c3 sh0 b0 BF ASF Hw. rewrite Hh3.
    eapply (add_shape_absent_nodup s n t en1 c1 en2 en3 s3); eauto.
    - intros sh i Hi. destruct (tb_fwd s (proj1 Hs) sh i Hi) as [p Sp].
      destruct (proj2 Hs i sh p Sp) as [A|[A|[]]]; [rewrite Pe in A; discriminate|exact (proj2 A)].
    - destruct t as [sht bt]. eapply lookup_none_absent; eauto.
  Qed.

  Theorem hce_eg_add : forall n s a s', inv3 s -> pending s = [] -> hc_ok s -> ectr s mod 4 = 1 -> node_pre s n ->
    eg_add n s = Ok (a, s') -> hc_ok s'.
  Proof.
    intros n s a s' I3 Pe Hs C4 NP H. unfold eg_add in H. apply bind_reads_inv in H. destruct H as (t & Ht & H).
    eapply hce_add_internal; eauto.
  Qed.

  Theorem hcb_add_expr : forall t s a s', hcb s -> term_pre t s -> add_expr t s = Ok (a, s') -> hcb s'.
  Proof.
    fix IH 1. intros [n ch] s a s' B TP H. cbn [add_expr] in H. cbn [term_pre] in TP.
    apply mbind_inv in H. destruct H as (l & s1 & Hgo & H).
    match type of TP with ?go ch s ?K0 => set (G := go) in *; set (K := K0) in * end.
    assert (Q : hcb s1 /\ K l s1).
    { clear H. clearbody K. revert s l s1 K B TP Hgo.
      induction ch as [|c r IHr]; intros s l s1 K B TP Hgo.
      - inversion Hgo; subst. cbn in TP. auto.
      - cbn in TP. destruct TP as [TPc TPr].
        apply mbind_inv in Hgo. destruct Hgo as (a0 & s2 & Ha & Hgo).
        apply mbind_inv in Hgo. destruct Hgo as (r' & s3 & Hr & Hgo). inversion Hgo; subst l s3; clear Hgo.
        pose proof (IH c s a0 s2 B TPc Ha) as B2.
        exact (IHr s2 r' s1 (fun l' s' => K (a0 :: l') s') B2 (TPr a0 s2 Ha) Hr). }
    destruct Q as [(I1 & P1 & Hs1 & M1) NP]. unfold K in NP.
    destruct (Nat.ltb _ _); [discriminate|].
    split; [exact (proj1 (eg_add_covers _ _ _ _ I1 H))|]. split; [eapply eg_add_drains; eauto|].
    split; [eapply hce_eg_add; eauto; exact (proj1 M1)|]. exact (proj1 (h_eg_add _ _ _ _ H M1)).
  Qed.

  Lemma hcb_run_ops : forall terms ops hs s hs' s', hcb s -> Forall (covers s) hs -> ops_pre terms ops hs s ->
    run_ops terms ops hs s = Ok (hs', s') -> hcb s'.
  Proof.
    intros terms. induction ops as [|o t IH]; intros hs s hs' s' B Hc OP H; cbn [run_ops] in H; cbn [ops_pre] in OP.
    - inversion H; subst. assumption.
    - destruct o as [k|i j just].
      + destruct (nth_opt terms k) as [tm|] eqn:Ek; [|discriminate]. destruct OP as [TP OP].
        apply mbind_inv in H. destruct H as (a & s1 & H1 & H).
        destruct (add_expr_covers tm s a s1 (proj1 B) H1) as (I1 & E01 & Ca).
        eapply IH; [exact (hcb_add_expr tm s a s1 B TP H1)| |exact (OP a s1 H1)|exact H].
        apply Forall_app. split; [|constructor; [assumption|constructor]].
        revert Hc. apply Forall_impl. intros x. apply covers_ext0. assumption.
      + destruct (nth_opt hs i) as [a|] eqn:Ei; [|discriminate]. destruct (nth_opt hs j) as [b|] eqn:Ej; [|discriminate].
        apply mbind_inv in H. destruct H as (u & s1 & H1 & H).
        pose proof (proj1 (Forall_forall _ _) Hc a (nth_opt_In _ _ _ Ei)) as Ca.
        pose proof (proj1 (Forall_forall _ _) Hc b (nth_opt_In _ _ _ Ej)) as Cb.
        destruct B as (I3 & Pe & Hs & M).
        destruct (eg_union_inv3 a b s u s1 I3 Ca Cb H1) as [I1 E1].
        eapply IH; [| |exact (OP u s1 H1)|exact H].
        * split; [exact I1|]. split; [exact (eg_union_drains a b s u s1 H1)|].
          split; [exact (hce_eg_union K1 WSB a b s u s1 I3 Ca Cb H1 Hs)|exact (proj1 (h_eg_union _ _ _ _ _ H1 M))].
        * revert Hc. apply Forall_impl. intros x. apply covers_ext. assumption.
  Qed.

  Lemma hc_ok_empty : hc_ok empty_egraph.
  Proof.
    assert (Hn : forall i, cnodes empty_egraph i = []).
    { intros i. unfold cnodes, get_class. cbn [classes empty_egraph]. destruct (N.to_nat i); reflexivity. }
    assert (St : forall i sh p, ~ stored empty_egraph i sh p).
    { intros i sh p H. unfold stored in H. rewrite Hn in H. discriminate. }
    split.
    - constructor.
      + intros i sh p H. destruct (St _ _ _ H).
      + exact I.
      + intros i. rewrite Hn. exact I.
      + intros sh i H. discriminate.
      + intros i sh p H. destruct (St _ _ _ H).
      + intros i sh p j H. destruct (St _ _ _ H).
    - intros i sh p H. destruct (St _ _ _ H).
  Qed.

  Lemma hcb_empty : hcb empty_egraph.
  Proof. split; [exact inv3_empty|]. split; [reflexivity|]. split; [exact hc_ok_empty|exact m4_empty]. Qed.

  Theorem reachable_hc_ok : forall terms ops hs s, ops_pre terms ops [] empty_egraph ->
    run_ops terms ops [] empty_egraph = Ok (hs, s) -> hc_ok s.
  Proof.
    intros terms ops hs s OP H.
    exact (proj1 (proj2 (proj2 (hcb_run_ops terms ops [] empty_egraph hs s hcb_empty (Forall_nil _) OP H)))).
  Qed.
End AddH.

(* ------------------------------------------------------------------ *)
(* 9. the hypotheses K1 / WSB are theorems of EGraph/HashconsShape.v *)

Lemma K1_proved : forall s n0 n sh bij, inv3 s -> find_enode s n0 = Ok n -> NoDup (binders n) ->
  shape s n = Ok (sh, bij) -> exists b2, shape s sh = Ok (sh, b2).
Proof. intros s n0 n sh bij I3. apply shape_idem_nodup. exact (proj1 (proj1 I3)). Qed.

Theorem hc_ok_handle_pending : forall sh ty s x s', inv3 s -> handle_pending sh ty s = Ok (x, s') ->
  hce (fun y => y = sh /\ ty = true) s -> hc_ok s'.
Proof. exact (hce_handle_pending K1_proved ws_binders_nodup). Qed.

Theorem hc_ok_rebuild : forall fuel s x s', inv3 s -> rebuild fuel s = Ok (x, s') -> hc_ok s -> hc_ok s'.
Proof. exact (hce_rebuild K1_proved ws_binders_nodup). Qed.

Theorem hc_ok_eg_union : forall l r s b s', inv3 s -> covers s l -> covers s r ->
  eg_union l r s = Ok (b, s') -> hc_ok s -> hc_ok s'.
Proof. exact (hce_eg_union K1_proved ws_binders_nodup). Qed.

Theorem hc_ok_eg_add : forall n s a s', inv3 s -> pending s = [] -> hc_ok s -> ectr s mod 4 = 1 -> node_pre s n ->
  eg_add n s = Ok (a, s') -> hc_ok s'.
Proof. exact (hce_eg_add K1_proved ws_binders_nodup). Qed.

Theorem hc_ok_add_expr : forall t s a s', hcb s -> term_pre t s -> add_expr t s = Ok (a, s') -> hcb s'.
Proof. exact (hcb_add_expr K1_proved ws_binders_nodup). Qed.

Theorem hc_ok_reachable : forall terms ops hs s, ops_pre terms ops [] empty_egraph ->
  run_ops terms ops [] empty_egraph = Ok (hs, s) -> hc_ok s.
Proof. exact (reachable_hc_ok K1_proved ws_binders_nodup). Qed.

(* ------------------------------------------------------------------ *)
(* 10. consequences *)

Lemma stored_class : forall s i sh p, stored s i sh p -> exists c, get_class s i = Ok c /\ na_get (c_nodes c) sh = Some p.
Proof.
  intros s i sh p H. unfold stored, cnodes in H. destruct (get_class s i) as [c|]; [eauto|discriminate].
Qed.

(* no shape is stored in two classes *)
Theorem stored_unique : forall s i j sh p q, hc_ok s -> stored s i sh p -> stored s j sh q -> i = j.
Proof.
  intros s i j sh p q [T _] A B. pose proof (tb_bwd s T _ _ _ A) as A1. pose proof (tb_bwd s T _ _ _ B) as B1. congruence.
Qed.

(* hashcons and class tables agree *)
Theorem hashcons_iff_stored : forall s sh i, hc_ok s -> (na_get (hashcons s) sh = Some i <-> exists p, stored s i sh p).
Proof.
  intros s sh i [T _]. split; [apply (tb_fwd s T)|]. intros [p Hp]. eapply (tb_bwd s T); eauto.
Qed.

(* every stored shape is canonical and looks up to its own class *)
Theorem stored_canonical : forall s i sh p, hc_ok s -> pending s = [] -> stored s i sh p -> canon s sh.
Proof.
  intros s i sh p [T C] Pe S. destruct (C i sh p S) as [A|[A|[]]]; [rewrite Pe in A; discriminate|exact A].
Qed.

Theorem stored_shape_lookup : forall s i sh bij src, hc_ok s -> pending s = [] -> stored s i sh (bij, src) ->
  exists a, eg_lookup s sh = Ok (Some a) /\ aid a = i.
Proof.
  intros s i sh bij src H Pe S. destruct (stored_canonical _ _ _ _ H Pe S) as [_ (b & Hb)].
  destruct (stored_class _ _ _ _ S) as (c & Hc & Hn).
  unfold eg_lookup. rewrite Hb. cbn [bind]. unfold lookup_internal.
  rewrite (tb_bwd s (proj1 H) _ _ _ S), Hc. cbn [bind]. rewrite Hn. eexists. split; reflexivity.
Qed.

(* success of apply_slotmap: the map is defined on every public slot *)
Section TravTotal.
  Variable f : bool -> slot -> res slot.
  Let F := fun (b : bool) (s : slot) (st : option site) =>
    match st with
    | Some _ => (s, st)
    | None => match f b s with Ok s' => (s', None) | Err e => (s, Some e) end
    end.

  Lemma F_none : forall b s st, snd (F b s st) = None -> st = None /\ exists y, f b s = Ok y.
  Proof.
    intros b s [e|] H; cbn in H; [discriminate|]. split; [reflexivity|].
    unfold F in H. destruct (f b s) as [y|e]; [eauto|discriminate].
  Qed.

  Lemma tt_vals : forall bound m st, snd (trav_vals F bound m st) = None ->
    st = None /\ forall v, In v (values_vec m) -> exists y, f (negb (existsb (N.eqb v) bound)) v = Ok y.
  Proof.
    induction m as [|[k v] t IH]; intros st H; cbn [trav_vals] in H.
    - split; [assumption|]. intros v [].
    - destruct (F (negb (existsb (N.eqb v) bound)) v st) as [v' st1] eqn:E1.
      destruct (trav_vals F bound t st1) as [t' st2] eqn:E2. cbn [snd] in H. subst st2.
      destruct (IH st1) as [A B]; [rewrite E2; reflexivity|]. subst st1.
      destruct (F_none (negb (existsb (N.eqb v) bound)) v st) as [C D]; [rewrite E1; reflexivity|]. split; [assumption|].
      intros x [<-|Hx]; [assumption|apply B; assumption].
  Qed.

  Lemma tt_f : forall a bound st, snd (trav_f F bound a st) = None ->
    st = None /\ forall x, In x (pub_occ_f a) -> ~ In x bound -> exists y, f true x = Ok y.
  Proof.
    induction a as [s|x|s b IH|p]; intros bound st H; cbn [trav_f pub_occ_f] in *.
    - destruct (F (negb (existsb (N.eqb s) bound)) s st) as [s' st1] eqn:E1. cbn [snd] in H. subst st1.
      destruct (F_none (negb (existsb (N.eqb s) bound)) s st) as [C (y & D)]; [rewrite E1; reflexivity|]. split; [assumption|].
      intros z [<-|[]] Hz. replace (existsb (N.eqb s) bound) with false in D; [eauto|].
      symmetry. apply Bool.not_true_is_false. intros Q. apply existsb_exists in Q. destruct Q as (w & Hw & Ew).
      apply N.eqb_eq in Ew. subst w. contradiction.
    - destruct (trav_vals F bound (am x) st) as [m' st1] eqn:E1. cbn [snd] in H. subst st1.
      destruct (tt_vals bound (am x) st) as [C D]; [rewrite E1; reflexivity|]. split; [assumption|].
      intros z Hz Nz. destruct (D z Hz) as (y & Hy). replace (existsb (N.eqb z) bound) with false in Hy; [eauto|].
      symmetry. apply Bool.not_true_is_false. intros Q. apply existsb_exists in Q. destruct Q as (w & Hw & Ew).
      apply N.eqb_eq in Ew. subst w. contradiction.
    - destruct (F false s st) as [s' st1] eqn:E1. destruct (trav_f F (s :: bound) b st1) as [b' st2] eqn:E2.
      cbn [snd] in H. subst st2. destruct (IH (s :: bound) st1) as [A B]; [rewrite E2; reflexivity|]. subst st1.
      destruct (F_none false s st) as [C _]; [rewrite E1; reflexivity|]. split; [assumption|].
      intros z Hz Nz. apply filter_In in Hz. destruct Hz as [Hz Ez]. apply B; [assumption|].
      intros [<-|Q]; [rewrite N.eqb_refl in Ez; discriminate|contradiction].
    - cbn [snd] in H. split; [assumption|]. intros z [].
  Qed.

  Lemma tt_args : forall l st, snd (trav_args F l st) = None ->
    st = None /\ forall x, In x (flat_map pub_occ_f l) -> exists y, f true x = Ok y.
  Proof.
    induction l as [|a t IH]; intros st H; cbn [trav_args flat_map] in *.
    - split; [assumption|]. intros x [].
    - destruct (trav_f F [] a st) as [a' st1] eqn:E1. destruct (trav_args F t st1) as [t' st2] eqn:E2.
      cbn [snd] in H. subst st2. destruct (IH st1) as [A B]; [rewrite E2; reflexivity|]. subst st1.
      destruct (tt_f a [] st) as [C D]; [rewrite E1; reflexivity|]. split; [assumption|].
      intros x Hx. apply in_app_or in Hx. destruct Hx as [Hx|Hx]; [apply D; [assumption|intros []]|apply B; assumption].
  Qed.

  Lemma trav_res_total : forall n n', trav_res f n = Ok n' -> forall x, In x (pub_occ n) -> exists y, f true x = Ok y.
  Proof.
    intros n n' H. unfold trav_res in H. fold F in H. destruct (trav F n None) as [n1 e] eqn:E.
    destruct e as [e|]; [discriminate|]. unfold trav in E.
    destruct (trav_args F (nargs n) None) as [l st'] eqn:E2. inversion E; subst n1 st'.
    destruct (tt_args (nargs n) None) as [_ B]; [rewrite E2; reflexivity|]. exact B.
  Qed.
End TravTotal.

Lemma apply_slotmap_total : forall m n n', apply_slotmap false m n = Ok n' ->
  forall x, In x (pub_occ n) -> get m x <> None.
Proof.
  intros m n n' H x Hx. unfold apply_slotmap in H. cbn [andb] in H. unfold apply_slotmap_partial in H.
  destruct (trav_res_total _ _ _ H x Hx) as (y & Hy). cbv beta iota in Hy. unfold index in Hy.
  destruct (get m x); [discriminate|discriminate Hy].
Qed.

(* every e-node listed for a class (`enodes`: the stored shape with its bijection applied) looks up to
   that class *)
Theorem stored_enode_lookup : forall s i sh bij src nd, hc_ok s -> pending s = [] -> nodes_ok s -> bij4 s ->
  stored s i sh (bij, src) -> apply_slotmap false bij sh = Ok nd ->
  exists a, eg_lookup s nd = Ok (Some a) /\ aid a = i.
Proof.
  intros s i sh bij src nd H Pe N B4 S Ha. destruct (stored_canonical _ _ _ _ H Pe S) as [_ (b & Hb)].
  destruct (stored_class _ _ _ _ S) as (c & Hc & Hn). pose proof (na_get_in _ _ _ Hn) as Hin.
  destruct (N i c _ Hc Hin) as (W & Inj & _). cbn [fst snd] in W, Inj.
  destruct (shape_apply s sh bij nd b Hb Ha Inj (apply_slotmap_total _ _ _ Ha)) as (b' & Hb').
  { intros k v G. rewrite (B4 i c sh bij src k v Hc Hin G). discriminate. }
  unfold eg_lookup. rewrite Hb'. cbn [bind]. unfold lookup_internal.
  rewrite (tb_bwd s (proj1 H) _ _ _ S), Hc. cbn [bind]. rewrite Hn. eexists. split; reflexivity.
Qed.

(* for every reachable state *)
Theorem reachable_consistent : forall terms ops hs s, ops_pre terms ops [] empty_egraph ->
  run_ops terms ops [] empty_egraph = Ok (hs, s) ->
  hc_ok s /\
  (forall sh i, na_get (hashcons s) sh = Some i <-> exists p, stored s i sh p) /\
  (forall i j sh p q, stored s i sh p -> stored s j sh q -> i = j) /\
  (forall i sh p, stored s i sh p -> canon s sh) /\
  (forall i sh bij src nd, stored s i sh (bij, src) -> apply_slotmap false bij sh = Ok nd ->
     exists a, eg_lookup s nd = Ok (Some a) /\ aid a = i).
Proof.
  intros terms ops hs s A H. pose proof (hc_ok_reachable _ _ _ _ A H) as Hc.
  pose proof (reachable_no_pending_empty _ _ _ _ H) as Pe.
  destruct (reachable_inv3 _ _ _ _ H) as [[_ Nk] _]. destruct (reachable_bij4 _ _ _ _ H) as [_ B4].
  split; [assumption|]. split; [intros; apply hashcons_iff_stored; assumption|].
  split; [intros; eapply stored_unique; eauto|]. split; [intros; eapply stored_canonical; eauto|].
  intros. eapply stored_enode_lookup; eauto.
Qed.

(* insertion: a node whose lookup hits is returned without touching the state (ModelFacts.eg_add_known);
   in particular every stored e-node of a reachable state *)
Corollary reachable_readd_stored : forall terms ops hs s i sh bij src nd, ops_pre terms ops [] empty_egraph ->
  run_ops terms ops [] empty_egraph = Ok (hs, s) ->
  stored s i sh (bij, src) -> apply_slotmap false bij sh = Ok nd ->
  exists a, eg_add nd s = Ok (a, s) /\ aid a = i.
Proof.
  intros terms ops hs s i sh bij src nd A H S Ha.
  destruct (reachable_consistent _ _ _ _ A H) as (_ & _ & _ & _ & L).
  destruct (L _ _ _ _ _ S Ha) as (a & La & Ia). exists a. split; [apply eg_add_known; assumption|assumption].
Qed.

(* ------------------------------------------------------------------ *)
(* 11. insertion is canonical: a term whose recursive lookup hits is inserted without touching the
   state ("the second insertion creates nothing" whenever the lookup after the first insertion hits) *)

Theorem lookup_rec_add_expr : forall t s a, lookup_rec s t = Ok (Some a) -> add_expr t s = Ok (a, s).
Proof.
  fix IH 1. intros [n ch] s a H. cbn [lookup_rec] in H. cbn [add_expr].
  match type of H with context [bind (?go ch) _] => set (G := go) in * end.
  match goal with |- mbind (?go ch) _ s = _ => set (AL := go) end.
  assert (K : forall l, G ch = Ok (Some l) -> AL ch s = Ok (l, s)).
  { clear H. induction ch as [|c r IHr]; intros l Hl; cbn in Hl.
    - inversion Hl. reflexivity.
    - destruct (lookup_rec s c) as [[ac|]|] eqn:Ec; cbn [bind] in Hl; try discriminate.
      destruct (G r) as [[lr|]|] eqn:Er; cbn [bind] in Hl; try discriminate. inversion Hl; subst l.
      change (AL (c :: r) s) with (mbind (add_expr c) (fun a => mbind (AL r) (fun r' => ret (a :: r'))) s).
      unfold mbind. rewrite (IH c s ac Ec). rewrite (IHr lr eq_refl). reflexivity. }
  destruct (G ch) as [[l|]|] eqn:Eg; cbn [bind] in H; try discriminate.
  unfold mbind at 1. rewrite (K l eq_refl).
  destruct (Nat.ltb (List.length (app_occ n)) (List.length l)); [discriminate|].
  apply eg_add_known. exact H.
Qed.

Corollary second_insertion_creates_nothing : forall t s a s1 a',
  add_expr t s = Ok (a, s1) -> lookup_rec s1 t = Ok (Some a') -> add_expr t s1 = Ok (a', s1).
Proof. intros t s a s1 a' _ H. apply lookup_rec_add_expr. exact H. Qed.

(* ------------------------------------------------------------------ *)
(* 12. executable checks.  `hc_allb`: the decidable content of the invariant (tables agree both
   ways, no duplicates, every stored non-pending shape is canonical: both in the form `canon` and
   in the form "shape s (sh[bij]) = sh", usages complete and exact, pending only has stored
   shapes), evaluated after EVERY handle_pending step of every rebuild and after every union /
   insertion of twelve hand-written histories (symmetries, redundant slots, binders, self-reference,
   congruence cascades). *)

Definition iclasses (s : egraph) : list (N * eclass) :=
  combine (map N.of_nat (seq 0 (List.length (classes s)))) (classes s).
Definition in_keys {V} (l : list (node * V)) (k : node) : bool :=
  match na_get l k with Some _ => true | None => false end.
Definition hc_fwdb (s : egraph) : bool :=
  forallb (fun p =>
    match get_class s (snd p), is_alive s (snd p) with
    | Ok c, Ok true => in_keys (c_nodes c) (fst p)
    | _, _ => false end) (hashcons s).
Definition hc_bwdb (s : egraph) : bool :=
  forallb (fun ic => forallb (fun e =>
     match na_get (hashcons s) (fst e) with Some j => j =? fst ic | None => false end) (c_nodes (snd ic)))
    (iclasses s).
Definition hc_nodupb (s : egraph) : bool :=
  na_nodupb (hashcons s) && forallb (fun c => na_nodupb (c_nodes c)) (classes s).
Definition canon_entryb (s : egraph) (e : node * (slotmap * N)) : bool :=
  match apply_slotmap false (fst (snd e)) (fst e) with
  | Ok nd => match shape s nd with Ok t => node_eqb (fst t) (fst e) | Err _ => false end
  | Err _ => false
  end.
Definition canonb (s : egraph) (sh : node) : bool :=
  forallb (fun j => match is_alive s j with Ok true => true | _ => false end) (node_ids sh) &&
  match shape s sh with Ok t => node_eqb (fst t) sh | Err _ => false end.
Definition pend_true (s : egraph) (sh : node) : bool :=
  match na_get (pending s) sh with Some true => true | _ => false end.
Definition hc_canonb (s : egraph) : bool :=
  forallb (fun c => forallb (fun e => pend_true s (fst e) || (canonb s (fst e) && canon_entryb s e)) (c_nodes c)) (classes s).
Definition hc_usesb (s : egraph) : bool :=
  forallb (fun c => forallb (fun e =>
     forallb (fun j => match get_class s j with Ok cj => existsb (node_eqb (fst e)) (c_usages cj) | Err _ => false end)
             (node_ids (fst e))) (c_nodes c)) (classes s).
Definition hc_uses_convb (s : egraph) : bool :=
  forallb (fun ic => forallb (fun sh => in_keys (hashcons s) sh && existsb (N.eqb (fst ic)) (node_ids sh)) (c_usages (snd ic)))
    (iclasses s).
Definition hc_pend_storedb (s : egraph) : bool :=
  forallb (fun p => in_keys (hashcons s) (fst p) && snd p) (pending s).
Definition hc_allb (s : egraph) : bool :=
  hc_fwdb s && hc_bwdb s && hc_nodupb s && hc_canonb s && hc_usesb s && hc_uses_convb s && hc_pend_storedb s.

(* instrumented copies of rebuild / eg_union / add_expr: the check after every step *)
Fixpoint rebuild_chk (fuel : nat) (acc : bool) : M bool :=
  match fuel with
  | O => fail OutOfFuel
  | S f =>
      dom p <- gets pending;
      match p with
      | [] => ret acc
      | (sh, ty) :: rest =>
          dom _ <- modify (fun s => set_pending s rest);
          dom _ <- handle_pending sh ty;
          dom c <- gets hc_allb;
          rebuild_chk f (acc && c)
      end
  end.
Definition eg_union_chk (l r : appid) : M bool :=
  dom _ <- synify_app_id l; dom _ <- synify_app_id r; dom out <- uint l r;
  dom c <- gets hc_allb; rebuild_chk rebuild_fuel c.
Definition mk_singleton_class_chk (syn_enode : node) : M (appid * bool) :=
  let old_slots := slots syn_enode in
  dom fresh_to_old <- with_ctr (bijection_from_fresh_to old_slots);
  let old_to_fresh := inverse_nocheck fresh_to_old in
  let fresh_slots := values old_to_fresh in
  dom syn_fresh <- with_ctr (apply_slotmap_fresh false old_to_fresh syn_enode);
  dom i <- alloc_eclass fresh_slots syn_fresh;
  dom t <- Model.lift (wshape syn_fresh);
  dom absent <- gets (fun s => negb (in_keys (hashcons s) (fst t)));     (* add_shape_absent *)
  dom _ <- raw_add_to_class i t i;
  dom _ <- pending_insert (fst t) true;
  dom c <- gets hc_allb;
  dom c' <- rebuild_chk rebuild_fuel (absent && c);
  ret ({| aid := i; am := fresh_to_old |}, c').
Definition add_internal_chk (t : node * slotmap) : M (appid * bool) :=
  dom lk <- reads (fun s => lookup_internal s t);
  match lk with
  | Some x => ret (x, true)
  | None =>
      dom en <- refresh_step (fst t);
      dom en <- Model.lift (apply_slotmap false (snd t) en);
      dom en <- synify_enode en;
      dom syn <- mk_singleton_class_chk en;
      dom a <- reads (fun s => semify_app_id s (fst syn));
      ret (a, snd syn)
  end.
Definition node_preb (s : egraph) (n : node) : bool :=
  forallb (coversb s) (app_occ n) && forallb (fun x => (x <? ectr s) || negb (x mod 4 =? 1)) (pub_occ n) && nodupb (binders n).
Definition eg_add_chk (n : node) : M (appid * bool) :=
  dom np <- gets (fun s => node_preb s n);
  dom t <- reads (fun s => shape s n); dom r <- add_internal_chk t; ret (fst r, np && snd r).
Fixpoint add_expr_chk (t : rterm) : M (appid * bool) :=
  match t with
  | RT n ch =>
      dom l <- (fix go (l : list rterm) : M (list appid * bool) :=
                  match l with
                  | [] => ret ([], true)
                  | c :: r => dom a <- add_expr_chk c; dom r' <- go r; ret (fst a :: fst r', snd a && snd r')
                  end) ch;
      if Nat.ltb (List.length (app_occ n)) (List.length (fst l)) then fail OutOfBounds
      else dom a <- eg_add_chk (set_apps n (fst l)); ret (fst a, snd l && snd a)
  end.

(* insertion is canonical, executably: after inserting t, the recursive lookup of t hits an equal invocation *)
Definition canon_insb (s : egraph) (t : rterm) : bool :=
  match add_expr t s with
  | Ok (a, s1) => match lookup_rec s1 t with
                  | Ok (Some a') => match eg_eq s1 a a' with Ok b => b | Err _ => false end
                  | _ => false
                  end
  | Err _ => false
  end.

Fixpoint run_hc (terms : list rterm) (ops : list hop) (hs : list appid) (s : egraph) : bool :=
  match ops with
  | [] => true
  | o :: t =>
    let r := match o with
      | HAdd k => match nth_opt terms k with None => Err OutOfBounds
                  | Some tm => match add_expr_chk tm s with Ok (a, s') => Ok (hs ++ [fst a], snd a, s') | Err e => Err e end end
      | HUnion i j _ => match nth_opt hs i, nth_opt hs j with
                  | Some a, Some b => match eg_union_chk a b s with Ok (c, s') => Ok (hs, c, s') | Err e => Err e end
                  | _, _ => Err OutOfBounds end
      end in
    match r with
    | Err e => false
    | Ok (hs', c, s') => c && hc_allb s' && forallb (canon_insb s') terms && run_hc terms t hs' s'
    end
  end.

Definition yT7 := [xc0 5; xun 3 (xc0 5); xun 3 (xun 3 (xc0 5)); xs1 7 2; xun 3 (xs1 7 2); xun 3 (xs1 7 6); xun 3 (xun 3 (xs1 7 2)); xbin 4 (xs1 7 2) (xun 3 (xs1 7 6))].
Definition yO7 := [HAdd 0; HAdd 1; HAdd 2; xU 0 1; HAdd 2; HAdd 3; HAdd 4; HAdd 5; HAdd 6; HAdd 7; xU 4 5; HAdd 6; HAdd 7; HAdd 5; xU 4 11; HAdd 7; HAdd 6].
Definition yT8 := [xs2 2 2 6; xs2 2 6 2; xbin 4 (xs2 2 2 6) (xs2 2 6 10); xbin 4 (xs2 2 6 2) (xs2 2 10 6); xbin 4 (xs2 2 2 6) (xs2 2 10 6); xlam 2 (xbin 4 (xs2 2 2 6) (xs2 2 6 10)); xlam 6 (xbin 4 (xs2 2 2 6) (xs2 2 6 10)); xs2 2 2 10; xun 3 (xbin 4 (xs2 2 2 6) (xs2 2 6 10))].
Definition yO8 := [HAdd 0; HAdd 1; HAdd 2; HAdd 3; HAdd 4; HAdd 5; HAdd 6; HAdd 8; xU 0 1; HAdd 2; HAdd 3; HAdd 4; HAdd 5; HAdd 6; HAdd 8; HAdd 7; xU 0 14; HAdd 2; HAdd 3; HAdd 4; HAdd 5; HAdd 6; HAdd 8; xU 2 3; xU 5 6].
Definition yT9 := [xs3 2 2 6 10; xs3 2 6 10 2; xs3 2 6 2 10; xbin 4 (xs3 2 2 6 10) (xs3 2 6 10 14); xbin 4 (xs3 2 6 10 2) (xs3 2 14 6 10); xun 3 (xbin 4 (xs3 2 2 6 10) (xs3 2 6 10 14)); xs3 2 2 6 14; xlam 2 (xs3 2 2 6 10); xlam 6 (xs3 2 2 6 10)].
Definition yO9 := [HAdd 3; HAdd 4; HAdd 5; HAdd 7; HAdd 8; HAdd 0; HAdd 1; HAdd 2; xU 5 6; HAdd 3; HAdd 4; HAdd 5; HAdd 7; HAdd 8; xU 5 7; HAdd 3; HAdd 4; HAdd 5; HAdd 7; HAdd 8; xU 0 1; HAdd 6; xU 5 18; HAdd 3; HAdd 4; HAdd 5; HAdd 7; HAdd 8; xU 3 4].
Definition yT10 := [xs1 7 2; xs1 8 2; xun 3 (xs1 7 2); xun 3 (xs1 8 2); xun 5 (xun 3 (xs1 7 2)); xun 5 (xun 3 (xs1 8 2)); xbin 4 (xun 3 (xs1 7 2)) (xun 3 (xs1 8 6)); xbin 4 (xun 3 (xs1 8 2)) (xun 3 (xs1 7 6)); xs1 7 6; xlam 2 (xun 3 (xs1 7 2)); xlam 2 (xun 3 (xs1 8 2)); xlam 2 (xlam 6 (xbin 4 (xun 3 (xs1 7 2)) (xun 3 (xs1 8 6))))].
Definition yO10 := [HAdd 4; HAdd 5; HAdd 6; HAdd 7; HAdd 9; HAdd 10; HAdd 11; HAdd 0; HAdd 1; xU 7 8; HAdd 4; HAdd 5; HAdd 6; HAdd 7; HAdd 9; HAdd 10; HAdd 11; HAdd 8; xU 7 16; HAdd 4; HAdd 6; HAdd 11; xU 0 2; HAdd 4; HAdd 5; HAdd 6].
Definition yT11 := [xs2 2 2 6; xun 3 (xs2 2 2 6); xun 3 (xs2 2 6 2); xun 3 (xun 3 (xs2 2 2 6)); xs2 2 6 2; xs2 2 2 10; xbin 4 (xs2 2 2 6) (xun 3 (xs2 2 6 2)); xbin 4 (xun 3 (xs2 2 2 6)) (xs2 2 6 2)].
Definition yO11 := [HAdd 0; HAdd 1; HAdd 2; HAdd 3; HAdd 6; HAdd 7; xU 0 2; HAdd 3; HAdd 6; HAdd 7; HAdd 1; xU 0 1; HAdd 3; HAdd 6; HAdd 7; HAdd 5; xU 0 13; HAdd 6; HAdd 7; HAdd 3].
Definition yT12 := [xlam 2 (xs1 7 2); xlam 2 (xs1 7 6); xlam 2 (xs2 2 2 6); xlam 2 (xs2 2 6 2); xlam 6 (xlam 2 (xs2 2 2 6)); xlam 6 (xlam 2 (xs2 2 6 2)); xs2 2 2 6; xs2 2 6 2; xun 3 (xlam 2 (xs2 2 2 6)); xun 3 (xlam 2 (xs2 2 6 2)); xs1 7 2; xc0 5; xlam 2 (xc0 5)].
Definition yO12 := [HAdd 0; HAdd 1; HAdd 2; HAdd 3; HAdd 4; HAdd 5; HAdd 8; HAdd 9; HAdd 11; HAdd 12; HAdd 6; HAdd 7; xU 10 11; HAdd 2; HAdd 3; HAdd 4; HAdd 5; HAdd 8; HAdd 9; xU 2 3; HAdd 8; HAdd 9; HAdd 10; xU 20 8; HAdd 1; HAdd 0; xU 0 1; HAdd 12; HAdd 10; xU 23 24; HAdd 1; HAdd 0; HAdd 12].

Example hc_histories_checked :
  map (fun p => run_hc (fst p) (snd p) [] empty_egraph)
    [(xT1, xO1); (xT2, xO2); (xT3, xO3); (xT4, xO4); (xT5, xO5); (xT6, xO6);
     (yT7, yO7); (yT8, yO8); (yT9, yO9); (yT10, yO10); (yT11, yO11); (yT12, yO12)]
  = [true; true; true; true; true; true; true; true; true; true; true; true].
Proof. vm_compute. reflexivity. Qed.

(* the histories are not vacuous: they run through all their operations *)
Example hc_histories_run :
  forallb (fun p => match run_ops (fst p) (snd p) [] empty_egraph with Ok _ => true | Err _ => false end)
    [(yT7, yO7); (yT8, yO8); (yT9, yO9); (yT10, yO10); (yT11, yO11); (yT12, yO12)] = true.
Proof. vm_compute. reflexivity. Qed.

(* the premise `ops_pre` of the reachability theorems is satisfiable: f(x,y), then u(f(x,y)) *)
Example ops_pre_example : ops_pre [xs2 2 2 6; xun 3 (xs2 2 2 6)] [HAdd 0; HAdd 1] [] empty_egraph.
Proof.
  cbn [ops_pre nth_opt]. split.
  { cbn [term_pre xs2]. split; [constructor|]. split; [|constructor]. intros x Hx. right.
    cbn in Hx. destruct Hx as [<-|[<-|[]]]; vm_compute; discriminate. }
  intros a s1 H. vm_compute in H. inversion H; subst a s1; clear H. split; [|intros; exact I].
  cbn [term_pre xun xs2]. split.
  { split; [constructor|]. split; [|constructor]. intros x Hx. right.
    cbn in Hx. destruct Hx as [<-|[<-|[]]]; vm_compute; discriminate. }
  intros a s1 H. vm_compute in H. inversion H; subst a s1; clear H.
  split; [|split].
  - constructor; [|constructor]. apply coversb_sound. vm_compute. reflexivity.
  - intros x Hx. right. cbn in Hx. destruct Hx as [<-|[<-|[]]]; vm_compute; discriminate.
  - constructor.
Qed.

(* a natural STRONGER formulation that is false on reachable intermediate states: "every stored shape
   is canonical" without the pending exemption fails between `union_internal` and `rebuild` (that is
   what the worklist is for).  (1) a = b with parents u(a), u(b): after the classes are merged the shape
   of u(a) still mentions the dead class; (2) f(x,y) = f(x,z) with parent u(f(x,y)): the slot y has
   become redundant, the stored shape of the parent still passes it. *)
Definition hc_canon_strictb (s : egraph) : bool :=
  forallb (fun c => forallb (fun e => canonb s (fst e) && canon_entryb s e) (c_nodes c)) (classes s).
Definition mid_union (ts : list rterm) (ops : list hop) (i j : nat) : option (bool * bool * nat) :=
  match run_ops ts ops [] empty_egraph with
  | Ok (hs, s) =>
      match nth_opt hs i, nth_opt hs j with
      | Some a, Some b =>
          match uint a b s with
          | Ok (_, s1) => Some (hc_allb s1, hc_canon_strictb s1, List.length (pending s1))
          | Err _ => None
          end
      | _, _ => None
      end
  | Err _ => None
  end.
Example strict_false_mid_rebuild :
  mid_union [xc0 5; xc0 6; xun 3 (xc0 5); xun 3 (xc0 6)] [HAdd 0; HAdd 1; HAdd 2; HAdd 3] 0 1 = Some (true, false, 2%nat) /\
  mid_union [xs2 2 2 6; xs2 2 2 10; xun 3 (xs2 2 2 6); xs2 5 2 6] [HAdd 0; HAdd 1; HAdd 2; HAdd 3] 0 1 = Some (true, false, 1%nat).
Proof. vm_compute. split; reflexivity. Qed.

(* ------------------------------------------------------------------ *)
Print Assumptions canon_frame.
Print Assumptions hce_raw_add.
Print Assumptions hce_raw_remove.
Print Assumptions hce_move_to.
Print Assumptions hce_union_internal.
Print Assumptions hc_ok_handle_pending.
Print Assumptions hc_ok_rebuild.
Print Assumptions hc_ok_eg_union.
Print Assumptions hc_ok_eg_add.
Print Assumptions hc_ok_add_expr.
Print Assumptions hc_ok_reachable.
Print Assumptions stored_unique.
Print Assumptions stored_shape_lookup.
Print Assumptions stored_enode_lookup.
Print Assumptions reachable_consistent.
Print Assumptions reachable_readd_stored.
Print Assumptions lookup_rec_add_expr.
Print Assumptions second_insertion_creates_nothing.
Print Assumptions ops_pre_example.
Print Assumptions hc_histories_checked.
Print Assumptions strict_false_mid_rebuild.
