(* EGraph/HashconsShape.v — `shape` (find_enode ; group variants ; first minimal weak shape).

   K2 (closed): `shape` is invariant under renaming.  find_enode and variants act on the KEY side
   of the child maps, `ren g` on the VALUE side, so they commute (`find_enode_ren`, `variants_ren`);
   under the `ren_equiv` conditions on n every variant v has the weak shape of `ren g v`, so
   min_variant picks the same index (`min_variant_map`): `pre_shape_ren`, `shape_ren`, the corollary
   for stored entries `shape_apply`, and the converse `shape_ren_conv` (errors commute as well).

   K1: `pre_shape_idem` (closed): for n = find_enode s n0 in a state with `eg_inv`, the pre-shape p
   of n satisfies pre_shape s p = Ok p (children of p are fixed by find, the variants of p are
   variants of n because the enumeration of a class group is closed under composition, and p is
   the FIRST variant of p because the enumeration starts with the identity: `gnew_gall_head`).
   Hence shape s p = shape s n (`shape_pre_shape`).  `shape_idem_back`: shape s sh = Ok (sh, _)
   provided the pre-shape is a `ren` of its weak shape sh satisfying the `ren_equiv` conditions
   (an explicit premise); `shape_idem_nobinders` discharges the premise for nodes without binders.
   `shape_idem_nodup` (closed): K1 for nodes whose binder names are pairwise distinct, by the forward
   route: the weak shape is `ren g p` for a g satisfying the `ren_equiv` conditions on p (`wshape_fwd`).
   `ws_binders_nodup`: the binders of a weak shape are pairwise distinct. *)
From SE Require Import Slots.SlotMapFacts Group.GroupSound Lang.LangFacts Lang.ShapeFacts Lang.RenameFacts
  Base.TextFacts EGraph.Model EGraph.ModelFacts EGraph.ModelMachine EGraph.UnionFindFacts EGraph.InvariantFacts
  EGraph.UnionInvariantFacts EGraph.AddCoversFacts.
Require Import ZArith Lia ZifyBool ZifyN ZifyNat.

Local Notation "a ** b" := (compose_partial a b) (at level 40, left associativity).
Local Notation inv := inverse_nocheck.

(* ================================================================== *)
(* 1. maps on the VALUE side of a slot map commute with composition on the KEY side *)

Definition map_vals (h : slot -> slot) (m : slotmap) : slotmap :=
  map (fun kv => (fst kv, h (snd kv))) m.

Lemma get_map_vals : forall h m k, get (map_vals h m) k = option_map h (get m k).
Proof.
  intros h. induction m as [|[k0 v0] t IH]; intros k; cbn [map_vals map get fst snd]; [reflexivity|].
  destruct (k =? k0); [reflexivity|]. apply IH.
Qed.

Lemma insert_map_vals : forall h m l r, insert l (h r) (map_vals h m) = map_vals h (insert l r m).
Proof.
  intros h. induction m as [|[k0 v0] t IH]; intros l r; cbn [map_vals map insert fst snd]; [reflexivity|].
  destruct (l <? k0); [reflexivity|]. destruct (l =? k0); [reflexivity|].
  cbn [map fst snd]. f_equal. apply IH.
Qed.

Lemma from_iter_onto_map_vals : forall h ps acc,
  from_iter_onto (map_vals h acc) (map (fun kv => (fst kv, h (snd kv))) ps) = map_vals h (from_iter_onto acc ps).
Proof.
  intros h. induction ps as [|[k v] t IH]; intros acc; unfold from_iter_onto in *; cbn [map fold_left fst snd]; [reflexivity|].
  rewrite insert_map_vals. apply IH.
Qed.

Lemma compose_map_vals : forall h a m, a ** map_vals h m = map_vals h (a ** m).
Proof.
  intros h a m. unfold compose_partial, from_iter.
  rewrite <- (from_iter_onto_map_vals h _ []). cbn [map_vals map]. f_equal.
  induction a as [|[k v] t IH]; cbn [flat_map map fst snd]; [reflexivity|].
  rewrite map_app, <- IH. f_equal. rewrite get_map_vals.
  destruct (get m v); reflexivity.
Qed.

Lemma ren_vals_map_vals : forall g bd m,
  ren_vals g bd m = map_vals (fun v => g (negb (existsb (N.eqb v) bd)) v) m.
Proof. reflexivity. Qed.

Lemma compose_values_sub' : forall a m, incl (values_vec (a ** m)) (values_vec m).
Proof.
  intros a m v H. unfold values_vec in H. apply in_map_iff in H. destruct H as ([k v'] & Hv & Hin).
  cbn [snd] in Hv. subst v'. apply in_get in Hin; [|apply compose_partial_wf].
  unfold compose_partial in Hin. rewrite get_from_iter in Hin. apply assoc_last_in in Hin.
  apply in_flat_map in Hin. destruct Hin as ([k0 v0] & _ & Hin). cbn [fst snd] in Hin.
  destruct (get m v0) as [z|] eqn:G; [|contradiction]. destruct Hin as [Hin|[]]. inversion Hin; subst.
  apply get_in in G. unfold values_vec. apply in_map_iff. exists (v0, v). auto.
Qed.

(* ================================================================== *)
(* 2. renaming an applied id under a bound list; the bound list of every applied id of a node *)

Definition rv (g : bool -> slot -> slot) (bd : list slot) (a : appid) : appid :=
  {| aid := aid a; am := ren_vals g bd (am a) |}.

Fixpoint abound_f (bd : list slot) (a : farg) : list (list slot) :=
  match a with
  | AApp _ => [bd]
  | ABind s b => abound_f (s :: bd) b
  | _ => []
  end.
Definition abounds (n : node) : list (list slot) := flat_map (abound_f []) (nargs n).

Lemma zip_with_nil_r : forall {A C D} (f : A -> C -> D) l, zip_with f l [] = [].
Proof. intros A C D f [|x t]; reflexivity. Qed.

Lemma zip_with_app : forall {A C D} (f : A -> C -> D) l1 l2 r1 r2, List.length l1 = List.length r1 ->
  zip_with f (l1 ++ l2) (r1 ++ r2) = zip_with f l1 r1 ++ zip_with f l2 r2.
Proof.
  intros A C D f. induction l1 as [|x t IH]; intros l2 [|y r1] r2 H; cbn [List.length app zip_with] in *; try discriminate; [reflexivity|].
  f_equal. apply IH. lia.
Qed.

Lemma abound_f_length : forall a bd, List.length (abound_f bd a) = List.length (app_occ_f a).
Proof. induction a as [s|x|s b IH|p]; intros bd; cbn [abound_f app_occ_f List.length]; auto. Qed.

Lemma abounds_length : forall n, List.length (abounds n) = List.length (app_occ n).
Proof.
  intros n. unfold abounds, app_occ. induction (nargs n) as [|a t IH]; cbn [flat_map]; [reflexivity|].
  rewrite !app_length, abound_f_length, IH. reflexivity.
Qed.

Lemma app_occ_ren_f : forall g a bd, app_occ_f (ren_f g bd a) = zip_with (rv g) (abound_f bd a) (app_occ_f a).
Proof. intros g. induction a as [s|x|s b IH|p]; intros bd; cbn [ren_f app_occ_f abound_f zip_with]; auto. Qed.

Lemma app_occ_ren : forall g n, app_occ (ren g n) = zip_with (rv g) (abounds n) (app_occ n).
Proof.
  intros g n. unfold app_occ, abounds, ren. cbn [nargs].
  induction (nargs n) as [|a t IH]; cbn [map flat_map]; [reflexivity|].
  rewrite zip_with_app by apply abound_f_length. rewrite app_occ_ren_f, IH. reflexivity.
Qed.

Lemma set_apps_f_ren : forall g a bd rb l,
  set_apps_f (ren_f g bd a) (zip_with (rv g) (abound_f bd a ++ rb) l) =
  (ren_f g bd (fst (set_apps_f a l)), zip_with (rv g) rb (snd (set_apps_f a l))).
Proof.
  intros g. induction a as [s|x|s b IH|p]; intros bd rb l; cbn [ren_f set_apps_f abound_f app fst snd]; try reflexivity.
  - destruct l as [|y t]; cbn [zip_with fst snd ren_f]; [rewrite zip_with_nil_r; reflexivity|reflexivity].
  - rewrite IH. destruct (set_apps_f b l) as [b' r]. reflexivity.
Qed.

Lemma set_apps_args_ren : forall g args rb l,
  set_apps_args (map (ren_f g []) args) (zip_with (rv g) (flat_map (abound_f []) args ++ rb) l) =
  map (ren_f g []) (set_apps_args args l).
Proof.
  intros g. induction args as [|a t IH]; intros rb l; cbn [map set_apps_args flat_map]; [reflexivity|].
  rewrite <- app_assoc, set_apps_f_ren. destruct (set_apps_f a l) as [a' r]. cbn [fst snd map].
  f_equal. apply IH.
Qed.

Lemma set_apps_ren : forall g n l,
  set_apps (ren g n) (zip_with (rv g) (abounds n) l) = ren g (set_apps n l).
Proof.
  intros g n l. unfold set_apps, ren, abounds. cbn [nvar nargs]. f_equal.
  rewrite <- (app_nil_r (flat_map (abound_f []) (nargs n))). apply set_apps_args_ren.
Qed.

Lemma binders_f_set_apps_f : forall a l, binders_f (fst (set_apps_f a l)) = binders_f a.
Proof.
  induction a as [s|x|s b IH|p]; intros l; cbn [set_apps_f binders_f fst]; try reflexivity.
  - destruct l; reflexivity.
  - specialize (IH l). destruct (set_apps_f b l) as [b' r]. cbn [fst binders_f] in *. rewrite IH. reflexivity.
Qed.

Lemma binders_set_apps' : forall n l, binders (set_apps n l) = binders n.
Proof.
  intros n l. unfold binders, set_apps. cbn [nargs]. revert l.
  induction (nargs n) as [|a t IH]; intros l; cbn [set_apps_args flat_map]; [reflexivity|].
  pose proof (binders_f_set_apps_f a l) as B. destruct (set_apps_f a l) as [a' r]. cbn [fst flat_map] in *.
  rewrite B, IH. reflexivity.
Qed.

(* public occurrences only shrink when the value sets of the children shrink *)
Lemma set_apps_f_pub_sub : forall a r0 l, Forall2 vals_sub (app_occ_f a ++ r0) l ->
  incl (pub_occ_f (fst (set_apps_f a l))) (pub_occ_f a) /\ Forall2 vals_sub r0 (snd (set_apps_f a l)).
Proof.
  induction a as [s|x|s b IH|p]; intros r0 l H; cbn [set_apps_f app_occ_f pub_occ_f app] in *;
    try (split; [apply incl_refl|assumption]).
  - inversion H as [|? y ? t Hxy Ht]; subst. cbn [fst snd pub_occ_f]. split; [exact Hxy|assumption].
  - specialize (IH r0 l H). destruct (set_apps_f b l) as [b' r]. cbn [fst snd pub_occ_f] in *.
    destruct IH as (A & B). split; [|assumption]. intros z Hz. apply filter_In in Hz. apply filter_In.
    split; [apply A; tauto|tauto].
Qed.

Lemma set_apps_pub_sub : forall n l, Forall2 vals_sub (app_occ n) l -> incl (pub_occ (set_apps n l)) (pub_occ n).
Proof.
  intros n l. unfold pub_occ, set_apps, app_occ. cbn [nargs]. revert l.
  induction (nargs n) as [|a t IH]; intros l H; cbn [set_apps_args flat_map] in *; [apply incl_refl|].
  destruct (set_apps_f_pub_sub a _ l H) as (A & B). destruct (set_apps_f a l) as [a' r]. cbn [fst snd flat_map] in *.
  apply incl_app; [apply incl_appl; assumption|apply incl_appr; apply IH; assumption].
Qed.

(* ================================================================== *)
(* 3. find_enode and variants commute with ren *)

Lemma find_applied_id_rv : forall s g bd a b, find_applied_id s a = Ok b ->
  find_applied_id s (rv g bd a) = Ok (rv g bd b).
Proof.
  intros s g bd a b H. unfold find_applied_id in *. cbn [rv aid am].
  destruct (unionfind_get s (aid a)) as [p|]; cbn [bind] in *; [|discriminate].
  inversion H; subst b; clear H. unfold rv. cbn [aid am]. f_equal. f_equal.
  rewrite !ren_vals_map_vals. apply compose_map_vals.
Qed.

Lemma mapr_zip_rv : forall (F : appid -> res appid) g,
  (forall bd a b, F a = Ok b -> F (rv g bd a) = Ok (rv g bd b)) ->
  forall apps bds l, mapr F apps = Ok l -> mapr F (zip_with (rv g) bds apps) = Ok (zip_with (rv g) bds l).
Proof.
  intros F g HF. induction apps as [|a t IH]; intros bds l H; cbn [mapr] in H.
  - inversion H; subst. rewrite !zip_with_nil_r. reflexivity.
  - destruct (F a) as [b|] eqn:Fa; cbn [bind] in H; [|discriminate].
    destruct (mapr F t) as [r|] eqn:Ft; cbn [bind] in H; [|discriminate]. inversion H; subst l; clear H.
    destruct bds as [|bd bds]; cbn [zip_with mapr]; [reflexivity|].
    rewrite (HF bd a b Fa). cbn [bind]. rewrite (IH bds r eq_refl). reflexivity.
Qed.

Lemma find_enode_ren : forall s g n n1, find_enode s n = Ok n1 -> find_enode s (ren g n) = Ok (ren g n1).
Proof.
  intros s g n n1 H. unfold find_enode in *.
  destruct (mapr (find_applied_id s) (app_occ n)) as [l|] eqn:E; cbn [bind] in H; [|discriminate].
  inversion H; subst n1; clear H. rewrite app_occ_ren.
  rewrite (mapr_zip_rv (find_applied_id s) g (find_applied_id_rv s g) _ _ _ E). cbn [bind].
  rewrite set_apps_ren. reflexivity.
Qed.

Lemma map_aid_zip_rv : forall g bds apps, List.length bds = List.length apps ->
  map aid (zip_with (rv g) bds apps) = map aid apps.
Proof.
  intros g. induction bds as [|bd t IH]; intros [|a apps] H; cbn [List.length zip_with map] in *; try discriminate; [reflexivity|].
  cbn [rv aid]. f_equal. apply IH. lia.
Qed.

Definition gvar (a : appid) (pp : perm) : appid := {| aid := aid a; am := pp ** am a |}.

Lemma zip_gvar_rv : forall g bds apps (l : list perm),
  zip_with gvar (zip_with (rv g) bds apps) l = zip_with (rv g) bds (zip_with gvar apps l).
Proof.
  intros g. induction bds as [|bd t IH]; intros apps l; [reflexivity|].
  destruct apps as [|a apps]; [reflexivity|]. destruct l as [|pp l]; cbn [zip_with]; [reflexivity|].
  f_equal; [|apply IH]. unfold gvar, rv. cbn [aid am]. f_equal. rewrite !ren_vals_map_vals. apply compose_map_vals.
Qed.

Lemma variants_ren : forall s g n vs, variants s n = Ok vs -> variants s (ren g n) = Ok (map (ren g) vs).
Proof.
  intros s g n vs H. unfold variants in *. rewrite app_occ_ren.
  assert (Ecl : mapr (fun a => get_class s (aid a)) (zip_with (rv g) (abounds n) (app_occ n)) =
                mapr (fun a => get_class s (aid a)) (app_occ n)).
  { rewrite (mapr_map aid (get_class s)), (mapr_map aid (get_class s) (app_occ n)).
    rewrite map_aid_zip_rv by apply abounds_length. reflexivity. }
  rewrite Ecl. destruct (mapr (fun a => get_class s (aid a)) (app_occ n)) as [cls|]; cbn [bind] in *; [|discriminate].
  destruct (forallb (fun c => gis_trivial (c_group c)) cls).
  - inversion H; subst vs. reflexivity.
  - destruct (mapr (fun c => gall_perms false (c_group c)) cls) as [groups|]; cbn [bind] in *; [|discriminate].
    inversion H; subst vs; clear H. f_equal. rewrite map_map. apply map_ext. intros l.
    fold gvar. rewrite zip_gvar_rv. apply set_apps_ren.
Qed.

(* every variant (and the result of find_enode) keeps the binders and only loses public slots *)
Lemma find_enode_sub : forall s n n1, find_enode s n = Ok n1 ->
  binders n1 = binders n /\ incl (pub_occ n1) (pub_occ n).
Proof.
  intros s n n1 H. unfold find_enode in H.
  destruct (mapr (find_applied_id s) (app_occ n)) as [l|] eqn:E; cbn [bind] in H; [|discriminate].
  inversion H; subst n1; clear H. split; [apply binders_set_apps'|].
  apply set_apps_pub_sub. apply mapr_ok in E. revert E. apply Forall2_imp.
  intros a b Fa. unfold find_applied_id in Fa. destruct (unionfind_get s (aid a)) as [p|]; cbn [bind] in Fa; [|discriminate].
  inversion Fa; subst b. unfold vals_sub. cbn [am]. apply compose_values_sub'.
Qed.

Lemma zip_vals_sub : forall apps (groups : list (list perm)) l, In l (cartesian groups) ->
  List.length groups = List.length apps -> Forall2 vals_sub apps (zip_with gvar apps l).
Proof.
  induction apps as [|a t IH]; intros groups l Hl Hlen.
  - constructor.
  - destruct groups as [|gr gs]; [discriminate|]. cbn [cartesian] in Hl.
    apply in_flat_map in Hl. destruct Hl as (rest & Hr & Hl). apply in_map_iff in Hl. destruct Hl as (x & <- & Hx).
    cbn [zip_with]. constructor.
    + unfold vals_sub, gvar. cbn [am]. apply compose_values_sub'.
    + apply (IH gs); [assumption|]. cbn [List.length] in Hlen. lia.
Qed.

Lemma variants_sub : forall s n vs v, variants s n = Ok vs -> In v vs ->
  binders v = binders n /\ incl (pub_occ v) (pub_occ n).
Proof.
  intros s n vs v H Hv. unfold variants in H.
  destruct (mapr (fun a => get_class s (aid a)) (app_occ n)) as [cls|] eqn:Ec; cbn [bind] in H; [|discriminate].
  destruct (forallb _ cls).
  - inversion H; subst vs. destruct Hv as [<-|[]]. split; [reflexivity|apply incl_refl].
  - destruct (mapr _ cls) as [groups|] eqn:Eg; cbn [bind] in H; [|discriminate]. inversion H; subst vs; clear H.
    apply in_map_iff in Hv. destruct Hv as (l & <- & Hl). split; [apply binders_set_apps'|].
    apply set_apps_pub_sub. fold gvar. apply (zip_vals_sub _ groups); [assumption|].
    apply mapr_ok in Ec, Eg. apply Forall2_length' in Ec, Eg. lia.
Qed.

(* ================================================================== *)
(* 4. min_variant picks the same index when the keys agree *)

Definition same_wshape (f : node -> node) (v : node) : Prop :=
  forall sh b, wshape v = Ok (sh, b) -> exists b', wshape (f v) = Ok (sh, b').

Lemma min_variant_map : forall (f : node -> node) l best p,
  Forall (same_wshape f) l -> min_variant l best = Ok p ->
  min_variant (map f l) (option_map (fun q => (f (fst q), snd q)) best) = Ok (f p).
Proof.
  intros f. induction l as [|v t IH]; intros best p HF H; cbn [map min_variant] in *.
  - destruct best as [[n k]|]; cbn [option_map fst snd]; [|discriminate]. inversion H; subst. reflexivity.
  - inversion HF as [|? ? Hv Ht]; subst.
    destruct (wshape v) as [[sh b]|] eqn:W; cbn [bind] in H; [|discriminate].
    destruct (Hv sh b W) as [b' W']. rewrite W'. cbn [bind fst] in *.
    destruct best as [[n bk]|]; cbn [option_map fst snd].
    + destruct (cmp_slots (all_occ sh) bk); try (apply (IH (Some (n, bk))); assumption).
      apply (IH (Some (v, all_occ sh))); assumption.
    + apply (IH (Some (v, all_occ sh))); assumption.
Qed.

Definition ren_ok (g : bool -> slot -> slot) (n : node) : Prop :=
  inj_on (g false) (binders n) /\
  (forall x b, In x (pub_occ n) -> In b (binders n) -> g true x <> g false b) /\
  inj_on (g true) (pub_occ n).

Lemma ren_ok_sub : forall g n v, binders v = binders n -> incl (pub_occ v) (pub_occ n) -> ren_ok g n -> ren_ok g v.
Proof.
  intros g n v B P (H1 & H2 & H3). unfold ren_ok. rewrite B. split; [assumption|]. split.
  - intros x b Hx Hb. apply H2; [apply P; assumption|assumption].
  - eapply inj_on_incl; eauto.
Qed.

Lemma ren_ok_same_wshape : forall g v, ren_ok g v -> same_wshape (RenameFacts.ren g) v.
Proof.
  intros g v (H1 & H2 & H3) sh b W.
  destruct (weak_shape_total false (RenameFacts.ren g v)) as (sh' & b' & W').
  exists b'. unfold wshape. rewrite W'. f_equal. f_equal. symmetry.
  eapply shape_invariant; [exact W|exact W'|]. apply ren_equiv; assumption.
Qed.

(* ================================================================== *)
(* 5. K2 *)

Theorem pre_shape_ren : forall s g n p, ren_ok g n -> pre_shape s n = Ok p ->
  pre_shape s (RenameFacts.ren g n) = Ok (RenameFacts.ren g p).
Proof.
  intros s g n p Hg H. unfold pre_shape in *.
  destruct (find_enode s n) as [n1|] eqn:F; cbn [bind] in H; [|discriminate].
  destruct (variants s n1) as [vs|] eqn:V; cbn [bind] in H; [|discriminate].
  rewrite (find_enode_ren s g n n1 F). cbn [bind]. rewrite (variants_ren s g n1 vs V). cbn [bind].
  apply (min_variant_map (RenameFacts.ren g) vs None p); [|assumption].
  apply Forall_forall. intros v Hv. apply ren_ok_same_wshape.
  destruct (find_enode_sub s n n1 F) as (B1 & P1). destruct (variants_sub s n1 vs v V Hv) as (B2 & P2).
  apply (ren_ok_sub g n); [congruence| |assumption]. intros x Hx. apply P1, P2, Hx.
Qed.

Theorem shape_ren : forall s g n t,
  inj_on (g false) (binders n) ->
  (forall x b, In x (pub_occ n) -> In b (binders n) -> g true x <> g false b) ->
  inj_on (g true) (pub_occ n) ->
  shape s n = Ok t -> exists b', shape s (RenameFacts.ren g n) = Ok (fst t, b').
Proof.
  intros s g n [sh b] H1 H2 H3 H. unfold shape in *.
  destruct (pre_shape s n) as [p|] eqn:P; cbn [bind] in H; [|discriminate].
  assert (Hg : ren_ok g n) by (unfold ren_ok; auto).
  rewrite (pre_shape_ren s g n p Hg P). cbn [bind fst].
  assert (Hp : ren_ok g p).
  { unfold pre_shape in P.
    destruct (find_enode s n) as [n1|] eqn:F; cbn [bind] in P; [|discriminate].
    destruct (variants s n1) as [vs|] eqn:V; cbn [bind] in P; [|discriminate].
    apply min_variant_in in P. destruct P as [P|[k P]]; [|discriminate].
    destruct (find_enode_sub s n n1 F) as (B1 & P1). destruct (variants_sub s n1 vs p V P) as (B2 & P2).
    apply (ren_ok_sub g n); [congruence| |assumption]. intros x Hx. apply P1, P2, Hx. }
  exact (ren_ok_same_wshape g p Hp sh b H).
Qed.

Corollary shape_apply : forall s sh bij nd b0,
  shape s sh = Ok (sh, b0) -> apply_slotmap false bij sh = Ok nd -> injective bij ->
  (forall x, In x (pub_occ sh) -> get bij x <> None) ->
  (forall k v, get bij k = Some v -> v mod 4 <> 0) ->
  exists b', shape s nd = Ok (sh, b').
Proof.
  intros s sh bij nd b0 H Ha Hinj Hdef Hm4. apply apply_slotmap_ren in Ha. subst nd.
  assert (M4 : forall x, In x (all_occ sh) -> x mod 4 = 0).
  { unfold shape in H. destruct (pre_shape s sh) as [p|]; cbn [bind] in H; [|discriminate].
    exact (shape_all_occ_mod4 _ _ _ H). }
  change sh with (fst (sh, b0)) at 2. apply shape_ren; [| | |exact H].
  - intros x y _ _ E. exact E.
  - intros x b Hx Hb. unfold asm_g. destruct (get bij x) as [y|] eqn:G; [|apply Hdef in Hx; congruence].
    apply Hm4 in G. apply binders_all_occ in Hb. apply M4 in Hb. congruence.
  - intros x y Hx Hy. unfold asm_g. apply Hdef in Hx, Hy.
    destruct (get bij x) as [u|] eqn:Gx; [|congruence]. destruct (get bij y) as [v|] eqn:Gy; [|congruence].
    intros ->. eapply Hinj; eauto.
Qed.

(* ================================================================== *)
(* 6. the order on keys; a specification of min_variant *)

Lemma cmp_slots_refl : forall a, cmp_slots a a = Eq.
Proof. induction a as [|x a IH]; cbn [cmp_slots]; [reflexivity|]. rewrite N.compare_refl. exact IH. Qed.

Lemma cmp_slots_eq : forall a b, cmp_slots a b = Eq -> a = b.
Proof.
  induction a as [|x a IH]; intros [|y b] H; cbn [cmp_slots] in H; try discriminate; [reflexivity|].
  destruct (x ?= y) eqn:E; try discriminate. apply N.compare_eq_iff in E. subst y. f_equal. apply IH. exact H.
Qed.

Lemma cmp_slots_antisym : forall a b, cmp_slots b a = CompOpp (cmp_slots a b).
Proof.
  induction a as [|x a IH]; intros [|y b]; cbn [cmp_slots CompOpp]; try reflexivity.
  rewrite (N.compare_antisym x y). destruct (x ?= y); cbn [CompOpp]; auto.
Qed.

Lemma cmp_slots_lt_trans : forall a b c, cmp_slots a b = Lt -> cmp_slots b c = Lt -> cmp_slots a c = Lt.
Proof.
  induction a as [|x a IH]; intros [|y b] [|z c] H1 H2; cbn [cmp_slots] in *; try discriminate; try reflexivity.
  destruct (x ?= y) eqn:E1; try discriminate; destruct (y ?= z) eqn:E2; try discriminate.
  - apply N.compare_eq_iff in E1, E2. subst y z. rewrite N.compare_refl. eapply IH; eauto.
  - apply N.compare_eq_iff in E1. subst y. rewrite E2. reflexivity.
  - apply N.compare_eq_iff in E2. subst z. rewrite E1. reflexivity.
  - apply N.compare_lt_iff in E1, E2. assert (E3 : (x ?= z) = Lt) by (apply N.compare_lt_iff; eapply N.lt_trans; eauto).
    rewrite E3. reflexivity.
Qed.

Definition kof (v : node) : list slot := match wshape v with Ok t => all_occ (fst t) | Err _ => [] end.

Lemma min_variant_step : forall v t best,
  min_variant (v :: t) best =
  match best with
  | None => min_variant t (Some (v, kof v))
  | Some (_, bk) => match cmp_slots (kof v) bk with
                    | Lt => min_variant t (Some (v, kof v))
                    | _ => min_variant t best
                    end
  end.
Proof.
  intros v t best. cbn [min_variant]. unfold kof, wshape.
  destruct (weak_shape_total false v) as (sh & bj & W). rewrite W. cbn [bind]. reflexivity.
Qed.

Lemma min_spec : forall l b p, min_variant l (Some (b, kof b)) = Ok p ->
  cmp_slots (kof b) (kof p) <> Lt /\ forall v, In v l -> cmp_slots (kof v) (kof p) <> Lt.
Proof.
  induction l as [|v t IH]; intros b p H.
  - cbn [min_variant] in H. inversion H; subst. split; [rewrite cmp_slots_refl; discriminate|intros v []].
  - rewrite min_variant_step in H. destruct (cmp_slots (kof v) (kof b)) eqn:C.
    + apply IH in H. destruct H as [A B]. split; [exact A|]. intros v' [<-|Hv]; [|auto].
      apply cmp_slots_eq in C. rewrite C. exact A.
    + apply IH in H. destruct H as [A B]. split.
      * intro Hb. apply A. eapply cmp_slots_lt_trans; eauto.
      * intros v' [<-|Hv]; auto.
    + apply IH in H. destruct H as [A B]. split; [exact A|]. intros v' [<-|Hv]; [|auto].
      intro Hlt. apply A. eapply cmp_slots_lt_trans; [|exact Hlt].
      rewrite (cmp_slots_antisym (kof v) (kof b)), C. reflexivity.
Qed.

Lemma min_first : forall l b p, min_variant l (Some (b, kof b)) = Ok p ->
  (forall v, In v l -> cmp_slots (kof v) (kof b) <> Lt) -> p = b.
Proof.
  induction l as [|v t IH]; intros b p H Hall.
  - cbn [min_variant] in H. inversion H; reflexivity.
  - rewrite min_variant_step in H. destruct (cmp_slots (kof v) (kof b)) eqn:C.
    + apply IH; [exact H|]. intros v' Hv'. apply Hall. right. exact Hv'.
    + exfalso. apply (Hall v (or_introl eq_refl)). exact C.
    + apply IH; [exact H|]. intros v' Hv'. apply Hall. right. exact Hv'.
Qed.

(* ================================================================== *)
(* 7. cartesian products *)

Lemma cart_in : forall {A} (gs : list (list A)) l, In l (cartesian gs) <-> Forall2 (@In A) l gs.
Proof.
  intros A. induction gs as [|g gs IH]; intros l; cbn [cartesian].
  - split; [intros [<-|[]]; constructor|]. intro H. inversion H. left. reflexivity.
  - split.
    + intro H. apply in_flat_map in H. destruct H as (rest & Hr & Hl). apply in_map_iff in Hl.
      destruct Hl as (x & <- & Hx). constructor; [assumption|apply IH; assumption].
    + intro H. inversion H as [|x G r Gs Hx Hr]; subst. apply in_flat_map. exists r. split; [apply IH; assumption|].
      apply in_map_iff. exists x. split; [reflexivity|assumption].
Qed.

Lemma cart_head : forall {A} (gs : list (list A)) hs,
  Forall2 (fun G h => exists tl, G = h :: tl) gs hs -> exists tl, cartesian gs = hs :: tl.
Proof.
  intros A gs hs H. induction H as [|G h gs hs (tl & ->) _ (tl' & IH)]; cbn [cartesian].
  - exists []. reflexivity.
  - rewrite IH. cbn [flat_map map app]. eexists. reflexivity.
Qed.

(* ================================================================== *)
(* 8. set_apps twice *)

Lemma set_apps_f_twice : forall a l1 l2, (List.length (app_occ_f a) <= List.length l2)%nat ->
  set_apps_f (fst (set_apps_f a l1)) l2 = set_apps_f a l2.
Proof.
  induction a as [s|x|s b IH|p]; intros l1 l2 H; cbn [set_apps_f app_occ_f fst List.length] in *; try reflexivity.
  - destruct l2 as [|z t2]; [cbn [List.length] in H; lia|]. destruct l1; reflexivity.
  - specialize (IH l1 l2 H). destruct (set_apps_f b l1) as [b1 r1]. cbn [fst set_apps_f] in *. rewrite IH. reflexivity.
Qed.

Lemma set_apps_args_twice : forall args l1 l2, (List.length (flat_map app_occ_f args) <= List.length l2)%nat ->
  set_apps_args (set_apps_args args l1) l2 = set_apps_args args l2.
Proof.
  induction args as [|a t IH]; intros l1 l2 H; cbn [set_apps_args flat_map] in *; [reflexivity|].
  rewrite app_length in H.
  pose proof (set_apps_f_twice a l1 l2 ltac:(lia)) as T.
  destruct (set_apps_f_occ a l2 ltac:(lia)) as (A & B & _).
  destruct (set_apps_f a l1) as [a1 r1]. cbn [fst set_apps_args] in *. rewrite T.
  destruct (set_apps_f a l2) as [a2 r2]. cbn [fst snd] in *. f_equal. apply IH.
  rewrite <- A, app_length in H. lia.
Qed.

Lemma set_apps_twice : forall n l1 l2, (List.length (app_occ n) <= List.length l2)%nat ->
  set_apps (set_apps n l1) l2 = set_apps n l2.
Proof.
  intros n l1 l2 H. unfold set_apps. cbn [nvar nargs]. f_equal. apply set_apps_args_twice. exact H.
Qed.

(* ================================================================== *)
(* 9. the enumeration of a class group: permutations, closed under composition, identity first *)

Lemma gnew_gall_head : forall om idp, is_id om idp -> forall fuel gens g l, Forall (perm_on om) gens ->
  gnew false fuel idp gens = Ok g -> gall_perms false g = Ok l -> exists tl, l = idp :: tl.
Proof.
  intros om idp Hid. induction fuel as [|f IH]; intros gens g l Hg H Hl; [discriminate|].
  apply gnew_S in H. destruct H as [[Hn ->]|(s & o & sg & g' & Hs & Ho & Hsg & Hg' & ->)].
  - cbn [gall_perms] in Hl. inversion Hl. exists []. reflexivity.
  - destruct (level_facts om idp Hid gens s o sg Hg Hs Ho Hsg) as (_ & HO & _ & _ & Hsgpo).
    destruct HO as ((tlo & ->) & _).
    rewrite gall_perms_S in Hl. destruct (gall_perms false g') as [rperms|] eqn:Er; cbn [bind] in Hl; [|discriminate].
    destruct (IH sg g' rperms Hsgpo Hg' Er) as (tlr & ->).
    inversion Hl; subst l. cbn [flat_map map snd app].
    rewrite (id_l om idp Hid idp (po_e om idp Hid)). eexists. reflexivity.
Qed.

Lemma grp_facts : forall c G, grp_ok c -> gall_perms false (c_group c) = Ok G ->
  (forall pp, In pp G -> perm_on (c_slots c) pp) /\
  (forall x y, In x G -> In y G -> In (x ** y) G) /\
  exists tl, G = identity (c_slots c) :: tl.
Proof.
  intros c G (gens & HG & Hnew) Hl.
  pose proof (identity_is_id (c_slots c)) as Hid.
  destruct (gall_perms_exact (c_slots c) (identity (c_slots c)) gens Hid HG) as (g & l & Hg & Hl' & _ & Hin & _).
  rewrite Hnew in Hg. inversion Hg; subst g. rewrite Hl in Hl'. inversion Hl'; subst l.
  split; [|split].
  - intros pp Hpp. apply Hin in Hpp. eapply generated_po; eauto.
  - intros x y Hx Hy. apply Hin. apply gen_comp; apply Hin; assumption.
  - unfold group_new in Hnew.
    eapply (gnew_gall_head (c_slots c) (identity (c_slots c)) Hid); [|exact Hnew|exact Hl].
    eapply pdedup_po; eauto.
Qed.

(* ================================================================== *)
(* 10. children that are their own canonical form *)

Definition lkid (s : egraph) (a : appid) : Prop :=
  exists e c, uentry (unionfind s) (aid a) = Some e /\ aid e = aid a /\ get_class s (aid a) = Ok c /\
    grp_ok c /\ keys (am e) = c_slots c /\ wf (am a) /\ (forall k, get (am a) k <> None -> In k (c_slots c)).

Lemma found_lkid : forall s a0 a, eg_inv s -> find_applied_id s a0 = Ok a -> lkid s a.
Proof.
  intros s a0 a Hs H. destruct (find_is_leader s a0 a H) as (e & He & Hae).
  destruct (found_keys s a0 a Hs H) as (c & Hc & Hg & Wa & Ka).
  exists e, c. repeat split; try assumption.
  eapply uso_leader; eauto. apply (ei_slots _ Hs).
Qed.

Lemma lkid_fixed : forall s a, uf_ok s -> lkid s a -> find_applied_id s a = Ok a.
Proof.
  intros s a Hok (e & c & He & Hae & Hc & Hg & Ke & Wa & Ka).
  apply (find_leader_fixed s a e Hok He Hae Wa). intros k Hk. apply keys_spec. rewrite Ke. apply Ka. exact Hk.
Qed.

Lemma lkid_gvar : forall s a c pp, lkid s a -> get_class s (aid a) = Ok c -> perm_on (c_slots c) pp ->
  lkid s (gvar a pp).
Proof.
  intros s a c pp (e & c' & He & Hae & Hc & Hg & Ke & Wa & Ka) Hc2 Hpp.
  rewrite Hc in Hc2. inversion Hc2; subst c'. exists e, c. unfold gvar. cbn [aid am].
  repeat split; try assumption; [apply compose_partial_wf|].
  intros k Hk. destruct Hpp as (Wp & Kp & _). rewrite get_compose_partial in Hk by assumption.
  apply Kp. destruct (get pp k); congruence.
Qed.

Lemma gvar_id : forall s a c, lkid s a -> get_class s (aid a) = Ok c -> gvar a (identity (c_slots c)) = a.
Proof.
  intros s [i m] c (e & c' & He & Hae & Hc & Hg & Ke & Wa & Ka) Hc2. cbn [aid am] in *.
  rewrite Hc in Hc2. inversion Hc2; subst c'. unfold gvar. cbn [aid am]. f_equal.
  apply identity_compose; assumption.
Qed.

(* per child: what the enumeration of its class group provides *)
Definition kid_grp (s : egraph) (a : appid) (G : list perm) : Prop :=
  (forall pp, In pp G -> wf pp) /\
  (forall x y, In x G -> In y G -> In (x ** y) G) /\
  (forall pp, In pp G -> lkid s (gvar a pp)) /\
  exists h tl, G = h :: tl /\ forall pp, In pp G -> gvar (gvar a pp) h = gvar a pp.

Lemma kid_grp_intro : forall s a c G, lkid s a -> get_class s (aid a) = Ok c ->
  gall_perms false (c_group c) = Ok G -> kid_grp s a G.
Proof.
  intros s a c G La Hc HG.
  assert (Hg : grp_ok c).
  { destruct La as (e & c' & _ & _ & Hc' & Hg & _). rewrite Hc in Hc'. inversion Hc'; subst. exact Hg. }
  destruct (grp_facts c G Hg HG) as (Hpo & Hcl & (tl & Hhd)).
  split; [|split; [|split]].
  - intros pp Hpp. exact (proj1 (Hpo pp Hpp)).
  - exact Hcl.
  - intros pp Hpp. eapply lkid_gvar; eauto.
  - exists (identity (c_slots c)), tl. split; [exact Hhd|]. intros pp Hpp.
    apply (gvar_id s (gvar a pp) c); [eapply lkid_gvar; eauto|exact Hc].
Qed.

Lemma orbit_step : forall s apps groups l0 l, Forall2 (kid_grp s) apps groups ->
  Forall2 (@In perm) l0 groups -> Forall2 (@In perm) l groups ->
  exists l', Forall2 (@In perm) l' groups /\ zip_with gvar (zip_with gvar apps l0) l = zip_with gvar apps l'.
Proof.
  intros s apps groups l0 l H. revert l0 l.
  induction H as [|a G apps' groups' (Wf & Cl & _ & _) _ IH]; intros l0 l H0 H1.
  - inversion H0; subst. inversion H1; subst. exists []. split; [constructor|reflexivity].
  - inversion H0 as [|p0 ? t0 ? Hp0 Ht0]; subst. inversion H1 as [|p1 ? t1 ? Hp1 Ht1]; subst.
    destruct (IH t0 t1 Ht0 Ht1) as (l' & Hl' & E). exists ((p1 ** p0) :: l'). split.
    + constructor; [apply Cl; assumption|assumption].
    + cbn [zip_with]. rewrite E. f_equal. unfold gvar. cbn [aid am]. f_equal.
      symmetry. apply compose_partial_assoc; apply Wf; assumption.
Qed.

Lemma orbit_head : forall s apps groups l0, Forall2 (kid_grp s) apps groups -> Forall2 (@In perm) l0 groups ->
  exists ids, Forall2 (fun G h => exists tl, G = h :: tl) groups ids /\
              zip_with gvar (zip_with gvar apps l0) ids = zip_with gvar apps l0.
Proof.
  intros s apps groups l0 H. revert l0.
  induction H as [|a G apps' groups' (_ & _ & _ & (h & tl & HG & Hh)) _ IH]; intros l0 H0.
  - inversion H0; subst. exists []. split; [constructor|reflexivity].
  - inversion H0 as [|p0 ? t0 ? Hp0 Ht0]; subst. destruct (IH t0 Ht0) as (ids & Hids & E).
    exists (h :: ids). split; [constructor; [eauto|assumption]|].
    cbn [zip_with]. rewrite E. f_equal. apply Hh. assumption.
Qed.

Lemma orbit_lkid : forall s apps groups l0, Forall2 (kid_grp s) apps groups -> Forall2 (@In perm) l0 groups ->
  Forall (lkid s) (zip_with gvar apps l0) /\ map aid (zip_with gvar apps l0) = map aid apps.
Proof.
  intros s apps groups l0 H. revert l0.
  induction H as [|a G apps' groups' (_ & _ & Lk & _) _ IH]; intros l0 H0.
  - inversion H0; subst. split; [constructor|reflexivity].
  - inversion H0 as [|p0 ? t0 ? Hp0 Ht0]; subst. destruct (IH t0 Ht0) as (A & B).
    cbn [zip_with map]. split; [constructor; [apply Lk; assumption|assumption]|]. rewrite B. reflexivity.
Qed.

(* ================================================================== *)
(* 11. K1, first half: the pre-shape of a result of find_enode is its own pre-shape *)

Theorem pre_shape_idem : forall s n0 n p, eg_inv s -> find_enode s n0 = Ok n -> pre_shape s n = Ok p ->
  pre_shape s p = Ok p.
Proof.
  intros s n0 n p Hs F P0. pose proof P0 as P.
  destruct (find_enode_idem s n0 n (ei_uf _ Hs) F) as [Fi Ff].
  assert (Lk : forall a, In a (app_occ n) -> lkid s a).
  { intros a Ha. destruct (Ff a Ha) as (a0 & Fa). eapply found_lkid; eauto. }
  unfold pre_shape in P. rewrite Fi in P. cbn [bind] in P.
  destruct (variants s n) as [vs|] eqn:V; cbn [bind] in P; [|discriminate].
  pose proof V as V0. unfold variants in V.
  destruct (mapr (fun a => get_class s (aid a)) (app_occ n)) as [cls|] eqn:Ec; cbn [bind] in V; [|discriminate].
  destruct (forallb (fun c => gis_trivial (c_group c)) cls) eqn:Tr.
  - inversion V; subst vs. apply min_variant_in in P. destruct P as [[<-|[]]|[k P]]; [|discriminate]. exact P0.
  - destruct (mapr (fun c => gall_perms false (c_group c)) cls) as [groups|] eqn:Eg; cbn [bind] in V; [|discriminate].
    inversion V; subst vs; clear V. fold gvar in *.
    set (apps := app_occ n) in *.
    assert (KG : Forall2 (kid_grp s) apps groups).
    { pose proof (mapr_mapr_F2 (lkid s) _ _ _ _ _ Lk Ec Eg) as F2. revert F2. apply Forall2_imp.
      intros a G (La & c & Hc & HG). eapply kid_grp_intro; eauto. }
    pose proof (Forall2_length' _ _ _ KG) as Len.
    pose proof (min_variant_in _ _ _ P) as Pin. destruct Pin as [Pin|[k Pin]]; [|discriminate].
    apply in_map_iff in Pin. destruct Pin as (l0 & Ep & Hl0). apply cart_in in Hl0.
    pose proof (Forall2_length' _ _ _ Hl0) as Len0.
    set (apps_p := zip_with gvar apps l0) in *.
    destruct (orbit_lkid s apps groups l0 KG Hl0) as (Lp & Ap). fold apps_p in Lp, Ap.
    assert (LenP : List.length apps_p = List.length apps).
    { rewrite <- (map_length aid apps_p), Ap, map_length. reflexivity. }
    assert (Op : app_occ p = apps_p). { subst p. apply app_occ_set_apps. exact LenP. }
    (* find_enode s p = Ok p *)
    assert (Fp : find_enode s p = Ok p).
    { unfold find_enode. rewrite (mapr_id (find_applied_id s) (app_occ p)).
      - cbn [bind]. rewrite set_apps_self. reflexivity.
      - intros a Ha. apply lkid_fixed; [apply (ei_uf _ Hs)|]. rewrite Op in Ha.
        exact (proj1 (Forall_forall _ _) Lp a Ha). }
    (* the variants of p *)
    assert (Vp : variants s p = Ok (map (fun l => set_apps p (zip_with gvar apps_p l)) (cartesian groups))).
    { unfold variants. rewrite Op.
      rewrite (mapr_map aid (get_class s) apps_p), Ap, <- (mapr_map aid (get_class s) apps). fold apps in Ec.
      rewrite Ec. cbn [bind]. rewrite Tr, Eg. cbn [bind]. reflexivity. }
    (* every variant of p is a variant of n *)
    assert (Sub : forall v, In v (map (fun l => set_apps p (zip_with gvar apps_p l)) (cartesian groups)) ->
                  In v (map (fun l => set_apps n (zip_with gvar apps l)) (cartesian groups))).
    { intros v Hv. apply in_map_iff in Hv. destruct Hv as (l & <- & Hl). apply cart_in in Hl.
      destruct (orbit_step s apps groups l0 l KG Hl0 Hl) as (l' & Hl' & E).
      apply in_map_iff. exists l'. split; [|apply cart_in; exact Hl'].
      fold apps_p in E. rewrite E. rewrite <- Ep. symmetry. apply set_apps_twice.
      destruct (orbit_lkid s apps groups l' KG Hl') as (_ & Al').
      fold apps. rewrite <- (map_length aid (zip_with gvar apps l')), Al', map_length. lia. }
    (* p is the first variant of p *)
    destruct (orbit_head s apps groups l0 KG Hl0) as (ids & Hids & Eids). fold apps_p in Eids.
    destruct (cart_head groups ids Hids) as (tlc & Ecart).
    unfold pre_shape. rewrite Fp. cbn [bind]. rewrite Vp. cbn [bind].
    assert (Hd : set_apps p (zip_with gvar apps_p ids) = p).
    { rewrite Eids. rewrite <- Op. apply set_apps_self. }
    rewrite Ecart in P, Sub |- *. cbn [map] in P, Sub |- *. rewrite Hd in Sub |- *.
    (* minimality *)
    rewrite min_variant_step in P. apply min_spec in P. destruct P as (Ph & Pt).
    rewrite min_variant_step.
    destruct (min_variant (map (fun l => set_apps p (zip_with gvar apps_p l)) tlc) (Some (p, kof p))) as [q|e] eqn:Q.
    + f_equal. apply (min_first _ _ _ Q). intros v Hv.
      destruct (Sub v (or_intror Hv)) as [<-|Hin]; [exact Ph|apply Pt; exact Hin].
    + exfalso. clear - Q. revert Q. generalize (map (fun l => set_apps p (zip_with gvar apps_p l)) tlc) (p, kof p).
      intros l. induction l as [|v t IH]; intros [b bk] Q; [cbn in Q; discriminate|].
      rewrite min_variant_step in Q. destruct (cmp_slots (kof v) bk); eapply IH; eauto.
Qed.

(* ================================================================== *)
(* 12. errors are invariant under renaming too: the converse of shape_ren *)

Lemma find_applied_id_rv_err : forall s g bd a e, find_applied_id s a = Err e ->
  find_applied_id s (rv g bd a) = Err e.
Proof.
  intros s g bd a e H. unfold find_applied_id in *. cbn [rv aid am].
  destruct (unionfind_get s (aid a)) as [p|]; cbn [bind] in *; [discriminate|exact H].
Qed.

Lemma mapr_zip_rv_err : forall (F : appid -> res appid) g,
  (forall bd a b, F a = Ok b -> F (rv g bd a) = Ok (rv g bd b)) ->
  (forall bd a e, F a = Err e -> F (rv g bd a) = Err e) ->
  forall apps bds e, List.length bds = List.length apps -> mapr F apps = Err e ->
  mapr F (zip_with (rv g) bds apps) = Err e.
Proof.
  intros F g HF HFe. induction apps as [|a t IH]; intros bds e Hlen H; cbn [mapr] in H; [discriminate|].
  destruct bds as [|bd bds]; [discriminate|]. cbn [List.length] in Hlen. cbn [zip_with mapr].
  destruct (F a) as [b|e0] eqn:Fa; cbn [bind] in H.
  - rewrite (HF bd a b Fa). cbn [bind].
    destruct (mapr F t) as [r|e1] eqn:Ft; cbn [bind] in H; [discriminate|].
    rewrite (IH bds e1 ltac:(lia) eq_refl). cbn [bind]. exact H.
  - rewrite (HFe bd a e0 Fa). cbn [bind]. exact H.
Qed.

Lemma find_enode_ren_err : forall s g n e, find_enode s n = Err e -> find_enode s (RenameFacts.ren g n) = Err e.
Proof.
  intros s g n e H. unfold find_enode in *.
  destruct (mapr (find_applied_id s) (app_occ n)) as [l|e0] eqn:E; cbn [bind] in H; [discriminate|].
  rewrite app_occ_ren.
  rewrite (mapr_zip_rv_err (find_applied_id s) g (find_applied_id_rv s g) (find_applied_id_rv_err s g)
             _ _ _ (abounds_length n) E). cbn [bind]. exact H.
Qed.

Lemma variants_ren_err : forall s g n e, variants s n = Err e -> variants s (RenameFacts.ren g n) = Err e.
Proof.
  intros s g n e H. unfold variants in *. rewrite app_occ_ren.
  assert (Ecl : mapr (fun a => get_class s (aid a)) (zip_with (rv g) (abounds n) (app_occ n)) =
                mapr (fun a => get_class s (aid a)) (app_occ n)).
  { rewrite (mapr_map aid (get_class s)), (mapr_map aid (get_class s) (app_occ n)).
    rewrite map_aid_zip_rv by apply abounds_length. reflexivity. }
  rewrite Ecl. destruct (mapr (fun a => get_class s (aid a)) (app_occ n)) as [cls|]; cbn [bind] in *; [|exact H].
  destruct (forallb (fun c => gis_trivial (c_group c)) cls); [discriminate|].
  destruct (mapr (fun c => gall_perms false (c_group c)) cls) as [groups|]; cbn [bind] in *; [discriminate|exact H].
Qed.

Lemma min_variant_ok : forall l b, exists p, min_variant l (Some b) = Ok p.
Proof.
  induction l as [|v t IH]; intros [b bk]; [exists b; reflexivity|].
  rewrite min_variant_step. destruct (cmp_slots (kof v) bk); apply IH.
Qed.

Lemma pre_shape_ren_err : forall s g n e, pre_shape s n = Err e ->
  exists e', pre_shape s (RenameFacts.ren g n) = Err e'.
Proof.
  intros s g n e H. unfold pre_shape in *.
  destruct (find_enode s n) as [n1|e0] eqn:F; cbn [bind] in H.
  - rewrite (find_enode_ren s g n n1 F). cbn [bind].
    destruct (variants s n1) as [vs|e1] eqn:V; cbn [bind] in H.
    + rewrite (variants_ren s g n1 vs V). cbn [bind]. destruct vs as [|v t].
      * cbn [map min_variant]. eauto.
      * rewrite min_variant_step in H. destruct (min_variant_ok t (v, kof v)) as [p Hp]. congruence.
    + rewrite (variants_ren_err s g n1 e1 V). cbn [bind]. eauto.
  - rewrite (find_enode_ren_err s g n e0 F). cbn [bind]. eauto.
Qed.

Theorem shape_ren_conv : forall s g n t,
  inj_on (g false) (binders n) ->
  (forall x b, In x (pub_occ n) -> In b (binders n) -> g true x <> g false b) ->
  inj_on (g true) (pub_occ n) ->
  shape s (RenameFacts.ren g n) = Ok t -> exists b, shape s n = Ok (fst t, b).
Proof.
  intros s g n t H1 H2 H3 H. destruct (shape s n) as [[sh0 b0]|e] eqn:S.
  - destruct (shape_ren s g n (sh0, b0) H1 H2 H3 S) as [b' S']. rewrite S' in H. inversion H; subst t.
    exists b0. reflexivity.
  - exfalso. unfold shape in S. destruct (pre_shape s n) as [p|e0] eqn:P; cbn [bind] in S.
    + destruct (weak_shape_total false p) as (sh & bj & W). unfold wshape in S. congruence.
    + destruct (pre_shape_ren_err s g n e0 P) as [e' P']. unfold shape in H. rewrite P' in H. discriminate.
Qed.

(* ================================================================== *)
(* 13. K1 *)

(* the shape of a found node is the shape of its pre-shape, which is its own pre-shape *)
Theorem shape_pre_shape : forall s n0 n sh bij, eg_inv s -> find_enode s n0 = Ok n -> shape s n = Ok (sh, bij) ->
  exists p, pre_shape s n = Ok p /\ pre_shape s p = Ok p /\ wshape p = Ok (sh, bij) /\ shape s p = Ok (sh, bij) /\
            binders p = binders n /\ incl (pub_occ p) (pub_occ n).
Proof.
  intros s n0 n sh bij Hs F H. unfold shape in H.
  destruct (pre_shape s n) as [p|] eqn:P; cbn [bind] in H; [|discriminate].
  pose proof (pre_shape_idem s n0 n p Hs F P) as Pp.
  exists p. split; [reflexivity|]. split; [exact Pp|]. split; [exact H|]. split.
  - unfold shape. rewrite Pp. cbn [bind]. exact H.
  - unfold pre_shape in P.
    destruct (find_enode s n) as [n1|] eqn:F1; cbn [bind] in P; [|discriminate].
    destruct (variants s n1) as [vs|] eqn:V; cbn [bind] in P; [|discriminate].
    apply min_variant_in in P. destruct P as [P|[k P]]; [|discriminate].
    destruct (find_enode_sub s n n1 F1) as (B1 & P1). destruct (variants_sub s n1 vs p V P) as (B2 & P2).
    split; [congruence|]. intros x Hx. apply P1, P2, Hx.
Qed.

(* K1 whenever the pre-shape is a renaming of the weak shape *)
Theorem shape_idem_back : forall s n0 n sh bij, eg_inv s -> find_enode s n0 = Ok n -> shape s n = Ok (sh, bij) ->
  (forall p, wshape p = Ok (sh, bij) -> binders p = binders n -> incl (pub_occ p) (pub_occ n) ->
     exists g, p = RenameFacts.ren g sh /\ ren_ok g sh) ->
  exists b2, shape s sh = Ok (sh, b2).
Proof.
  intros s n0 n sh bij Hs F H Hback.
  destruct (shape_pre_shape s n0 n sh bij Hs F H) as (p & _ & _ & W & Sp & Bp & Pp).
  destruct (Hback p W Bp Pp) as (g & -> & (G1 & G2 & G3)).
  exact (shape_ren_conv s g sh (sh, bij) G1 G2 G3 Sp).
Qed.

Lemma nobinders_pub : forall n, binders n = [] -> pub_occ n = all_occ n.
Proof.
  intros [v l]. unfold binders, pub_occ, all_occ. cbn [nargs].
  induction l as [|a t IH]; cbn [flat_map]; intro H; [reflexivity|].
  apply app_eq_nil in H. destruct H as [H1 H2]. rewrite (IH H2). f_equal.
  destruct a; cbn [binders_f pub_occ_f all_occ_f] in *; try reflexivity. discriminate.
Qed.

Lemma wshape_back_nobinders : forall p sh bij, wshape p = Ok (sh, bij) -> binders p = [] ->
  p = RenameFacts.ren (asm_g bij) sh /\ ren_ok (asm_g bij) sh.
Proof.
  intros p sh bij W Bp. destruct (shape_bij _ _ _ W) as (B1 & B2 & B3).
  pose proof (ws_skel _ _ _ W) as Sk.
  assert (Bsh : binders sh = []).
  { pose proof (skel_binders_length _ _ Sk) as L. rewrite Bp in L. destruct (binders sh); [reflexivity|discriminate]. }
  assert (Rk : ren_ok (asm_g bij) sh).
  { unfold ren_ok. rewrite Bsh. split; [intros x y []|]. split; [intros x b _ []|].
    intros x y Hx Hy. unfold asm_g. apply B2 in Hx, Hy.
    destruct (get bij x) as [u|] eqn:Gx; [|congruence]. destruct (get bij y) as [v|] eqn:Gy; [|congruence].
    intros ->. eapply shape_bij_inj; eauto. }
  split; [|exact Rk]. destruct Rk as (R1 & R2 & R3).
  symmetry. apply skel_occ_inj; [rewrite ren_skel; exact Sk|].
  rewrite <- (nobinders_pub p Bp), <- nobinders_pub by (rewrite ren_binders, Bsh; reflexivity).
  rewrite ren_pub_occ by assumption. unfold asm_g. apply map_get_some. exact B3.
Qed.

(* K1, closed, for nodes without binders *)
Theorem shape_idem_nobinders : forall s n0 n sh bij, eg_inv s -> find_enode s n0 = Ok n -> binders n = [] ->
  shape s n = Ok (sh, bij) -> exists b2, shape s sh = Ok (sh, b2).
Proof.
  intros s n0 n sh bij Hs F Bn H. apply (shape_idem_back s n0 n sh bij Hs F H).
  intros p W Bp _. exists (asm_g bij). apply wshape_back_nobinders; [exact W|congruence].
Qed.

Print Assumptions shape_ren.
Print Assumptions shape_apply.
Print Assumptions shape_ren_conv.
Print Assumptions pre_shape_idem.
Print Assumptions shape_pre_shape.
Print Assumptions shape_idem_back.
Print Assumptions shape_idem_nobinders.

(* ================================================================== *)
(* 14. K1 for nodes whose binder names are pairwise distinct: the weak shape is a `ren` of the node *)

Fixpoint pos (b : slot) (l : list slot) : nat :=
  match l with [] => O | x :: t => if b =? x then O else S (pos b t) end.

Lemma pos_app : forall pre b rest, ~ In b pre -> pos b (pre ++ b :: rest) = List.length pre.
Proof.
  induction pre as [|x t IH]; intros b rest Hn; cbn [app pos List.length].
  - rewrite N.eqb_refl. reflexivity.
  - destruct (b =? x) eqn:E; [apply N.eqb_eq in E; subst; exfalso; apply Hn; left; reflexivity|].
    f_equal. apply IH. intro Hin. apply Hn. right. exact Hin.
Qed.

Lemma pos_lt : forall l b, In b l -> (pos b l < List.length l)%nat.
Proof.
  induction l as [|x t IH]; intros b Hb; cbn [pos List.length]; [contradiction|].
  destruct (b =? x) eqn:E; [lia|]. destruct Hb as [Hb|Hb]; [apply N.eqb_neq in E; congruence|].
  specialize (IH b Hb). lia.
Qed.

Lemma pos_inj : forall l x y, In x l -> In y l -> pos x l = pos y l -> x = y.
Proof.
  induction l as [|z t IH]; intros x y Hx Hy H; cbn [pos] in H; [contradiction|].
  destruct (x =? z) eqn:Ex; destruct (y =? z) eqn:Ey; try discriminate.
  - apply N.eqb_eq in Ex, Ey. congruence.
  - apply N.eqb_neq in Ex, Ey. destruct Hx as [Hx|Hx]; [congruence|]. destruct Hy as [Hy|Hy]; [congruence|].
    apply IH; [assumption|assumption|]. injection H as H. exact H.
Qed.

Lemma key_unbound : forall env s,
  match blookup env s with
  | Some _ => unbound (map fst env) s = false
  | None => unbound (map fst env) s = true
  end.
Proof.
  induction env as [|[x i] t IH]; intros s; cbn [blookup map fst]; [reflexivity|].
  rewrite unbound_cons. destruct (s =? x); cbn [negb andb]; [reflexivity|]. apply IH.
Qed.

Section Fwd.
  Variable B : list slot.
  Variable G : occ -> N.
  Hypothesis HB : NoDup B.

  Definition gfw : bool -> slot -> slot :=
    fun pub s => if pub then G (Fr s) else G (Bnd (pos s B)).
  Definition env_ok (env : benv) : Prop := forall s j, blookup env s = Some j -> pos s B = j.

  Lemma gfw_key : forall env s, env_ok env -> gfw (unbound (map fst env) s) s = G (key env s).
  Proof.
    intros env s Hok. unfold key. pose proof (key_unbound env s) as U.
    destruct (blookup env s) as [j|] eqn:E; rewrite U; unfold gfw; [rewrite (Hok s j E)|]; reflexivity.
  Qed.

  Lemma fwd_f : forall a env k pre post, env_ok env -> B = pre ++ binders_f a ++ post -> List.length pre = k ->
    all_occ_f (ren_f gfw (map fst env) a) = map G (pat_f env k a).
  Proof.
    induction a as [s|x|s b IH|q]; intros env k pre post Hok HBe Hk; cbn [ren_f all_occ_f pat_f map binders_f] in *.
    - f_equal. apply (gfw_key env s Hok).
    - cbn [am]. unfold values_vec, ren_vals. rewrite !map_map. apply map_ext. intros [k0 v]. cbn [fst snd].
      apply (gfw_key env v Hok).
    - assert (Ps : pos s B = k).
      { rewrite HBe. cbn [app]. rewrite pos_app; [exact Hk|].
        rewrite HBe in HB. cbn [app] in HB. apply NoDup_remove_2 in HB. intro Hin. apply HB. apply in_or_app. left. exact Hin. }
      f_equal; [unfold gfw; rewrite Ps; reflexivity|].
      apply (IH ((s, k) :: env) (S k) (pre ++ [s]) post).
      + intros s' j Hl. cbn [blookup] in Hl. destruct (s' =? s) eqn:E; [|apply Hok; exact Hl].
        apply N.eqb_eq in E. subst s'. inversion Hl; subst j. exact Ps.
      + rewrite HBe, <- app_assoc. reflexivity.
      + rewrite app_length. cbn [List.length]. lia.
    - reflexivity.
  Qed.

  Lemma fwd_args : forall l k pre post, B = pre ++ flat_map binders_f l ++ post -> List.length pre = k ->
    flat_map all_occ_f (map (ren_f gfw []) l) = map G (pat_args k l).
  Proof.
    induction l as [|a t IH]; intros k pre post HBe Hk; cbn [map flat_map pat_args] in *; [reflexivity|].
    rewrite map_app. f_equal.
    - apply (fwd_f a [] k pre (flat_map binders_f t ++ post)); [intros s j Hl; discriminate| |exact Hk].
      rewrite HBe, <- app_assoc. reflexivity.
    - apply (IH (k + nbind_f a)%nat (pre ++ binders_f a) post).
      + rewrite HBe, <- !app_assoc. reflexivity.
      + rewrite app_length, binders_f_length. lia.
  Qed.
End Fwd.

Lemma bnd_in_f : forall a env k i, (i < nbind_f a)%nat -> In (Bnd (k + i)) (pat_f env k a).
Proof.
  induction a as [s|x|s b IH|q]; intros env k i Hi; cbn [nbind_f pat_f] in *; try lia.
  destruct i as [|i].
  - left. f_equal. lia.
  - right. replace (k + S i)%nat with (S k + i)%nat by lia. apply IH. lia.
Qed.

Lemma bnd_in_args : forall l k i, (i < List.length (flat_map binders_f l))%nat -> In (Bnd (k + i)) (pat_args k l).
Proof.
  induction l as [|a t IH]; intros k i Hi; cbn [flat_map pat_args List.length] in *; [lia|].
  rewrite app_length, binders_f_length in Hi. apply in_or_app.
  destruct (Nat.ltb i (nbind_f a)) eqn:E.
  - left. apply bnd_in_f. apply Nat.ltb_lt in E. exact E.
  - right. apply Nat.ltb_ge in E. replace (k + i)%nat with ((k + nbind_f a) + (i - nbind_f a))%nat by lia.
    apply IH. lia.
Qed.

Lemma bnd_in_pattern : forall n j, (j < List.length (binders n))%nat -> In (Bnd j) (pattern n).
Proof. intros n j H. exact (bnd_in_args (nargs n) 0 j H). Qed.

Lemma wshape_fwd : forall p sh bij, wshape p = Ok (sh, bij) -> NoDup (binders p) ->
  exists g, sh = RenameFacts.ren g p /\ ren_ok g p.
Proof.
  intros p sh bij W HB. destruct (ws_top _ _ _ W) as (mF & _ & _ & _ & Sk & Ho & _).
  set (seen := num_st [] (pattern p)) in *. set (G := gof seen).
  assert (Hinj : inj_on G seen) by (apply agrees_inj; apply gof_agrees).
  assert (InB : forall b, In b (binders p) -> In (Bnd (pos b (binders p))) seen).
  { intros b Hb. apply num_st_in. right. apply bnd_in_pattern. apply pos_lt. exact Hb. }
  assert (InF : forall x, In x (pub_occ p) -> In (Fr x) seen).
  { intros x Hx. apply num_st_in. right. apply frees_in. rewrite frees_pattern. exact Hx. }
  exists (gfw (binders p) G). split.
  - apply skel_occ_inj; [rewrite ren_skel; exact Sk|]. rewrite Ho.
    rewrite (num_out_agrees G (pattern p) []) by apply gof_agrees. symmetry.
    unfold all_occ, RenameFacts.ren, pattern. cbn [nargs].
    apply (fwd_args (binders p) G HB (nargs p) 0%nat [] []); [|reflexivity].
    cbn [app]. rewrite app_nil_r. reflexivity.
  - unfold ren_ok, gfw. split; [|split].
    + intros x y Hx Hy E. apply Hinj in E; [|apply InB; exact Hx|apply InB; exact Hy].
      inversion E as [E']. eapply pos_inj; eauto.
    + intros x b Hx Hb E. apply Hinj in E; [discriminate|apply InF; exact Hx|apply InB; exact Hb].
    + intros x y Hx Hy E. apply Hinj in E; [|apply InF; exact Hx|apply InF; exact Hy]. inversion E. reflexivity.
Qed.

Theorem shape_idem_nodup : forall s n0 n sh bij, eg_inv s -> find_enode s n0 = Ok n -> NoDup (binders n) ->
  shape s n = Ok (sh, bij) -> exists b2, shape s sh = Ok (sh, b2).
Proof.
  intros s n0 n sh bij Hs F HB H.
  destruct (shape_pre_shape s n0 n sh bij Hs F H) as (p & _ & _ & W & Sp & Bp & _).
  rewrite <- Bp in HB. destruct (wshape_fwd p sh bij W HB) as (g & Esh & (G1 & G2 & G3)).
  destruct (shape_ren s g p (sh, bij) G1 G2 G3 Sp) as [b' S']. rewrite <- Esh in S'. exists b'. exact S'.
Qed.

Lemma find_enode_binders : forall s n n1, find_enode s n = Ok n1 -> binders n1 = binders n.
Proof. intros s n n1 H. exact (proj1 (find_enode_sub s n n1 H)). Qed.

Print Assumptions shape_idem_nodup.

(* ================================================================== *)
(* 15. the binders of a weak shape are pairwise distinct *)

Fixpoint bflags_f (a : farg) : list bool :=
  match a with
  | ASlot _ => [false]
  | AApp x => map (fun _ => false) (am x)
  | ABind _ b => true :: bflags_f b
  | APay _ => []
  end.
Definition bflags (n : node) : list bool := flat_map bflags_f (nargs n).

Fixpoint sel {A} (fl : list bool) (l : list A) : list A :=
  match fl, l with
  | f :: fl', x :: l' => if f then x :: sel fl' l' else sel fl' l'
  | _, _ => []
  end.

Lemma sel_app : forall {A} f1 f2 (l1 l2 : list A), List.length f1 = List.length l1 ->
  sel (f1 ++ f2) (l1 ++ l2) = sel f1 l1 ++ sel f2 l2.
Proof.
  intros A. induction f1 as [|f t IH]; intros f2 [|x l1] l2 H; cbn [List.length app sel] in *; try discriminate; [reflexivity|].
  rewrite IH by lia. destruct f; reflexivity.
Qed.

Lemma sel_map : forall {A C} (g : A -> C) fl l, sel fl (map g l) = map g (sel fl l).
Proof.
  intros A C g. induction fl as [|f t IH]; intros [|x l]; cbn [sel map]; try reflexivity.
  rewrite IH. destruct f; reflexivity.
Qed.

Lemma sel_allfalse : forall {A C} (m : list C) (l : list A), sel (map (fun _ => false) m) l = [].
Proof. intros A C. induction m as [|y t IH]; intros [|x l]; cbn [map sel]; auto. Qed.

Lemma bflags_f_len_occ : forall a, List.length (bflags_f a) = List.length (all_occ_f a).
Proof.
  induction a as [s|x|s b IH|q]; cbn [bflags_f all_occ_f List.length]; auto.
  unfold values_vec. rewrite !map_length. reflexivity.
Qed.

Lemma bflags_f_len_pat : forall a env k, List.length (bflags_f a) = List.length (pat_f env k a).
Proof.
  induction a as [s|x|s b IH|q]; intros env k; cbn [bflags_f pat_f List.length]; auto.
  unfold values_vec. rewrite !map_length. reflexivity.
Qed.

Lemma binders_f_sel : forall a, binders_f a = sel (bflags_f a) (all_occ_f a).
Proof.
  induction a as [s|x|s b IH|q]; cbn [binders_f bflags_f all_occ_f sel]; try reflexivity.
  - rewrite sel_allfalse. reflexivity.
  - rewrite IH. reflexivity.
Qed.

Lemma bflags_f_skel : forall a, bflags_f (skel_f a) = bflags_f a.
Proof.
  induction a as [s|x|s b IH|q]; cbn [skel_f bflags_f am]; try reflexivity.
  - rewrite map_map. reflexivity.
  - rewrite IH. reflexivity.
Qed.

Lemma pat_f_sel : forall a env k, sel (bflags_f a) (pat_f env k a) = map Bnd (seq k (nbind_f a)).
Proof.
  induction a as [s|x|s b IH|q]; intros env k; cbn [bflags_f pat_f sel nbind_f seq map]; try reflexivity.
  - apply sel_allfalse.
  - rewrite IH. reflexivity.
Qed.

Lemma binders_sel : forall n, binders n = sel (bflags n) (all_occ n).
Proof.
  intros n. unfold binders, bflags, all_occ. induction (nargs n) as [|a t IH]; cbn [flat_map]; [reflexivity|].
  rewrite sel_app by apply bflags_f_len_occ. rewrite <- binders_f_sel, <- IH. reflexivity.
Qed.

Lemma bflags_skel : forall n, bflags (skel n) = bflags n.
Proof.
  intros n. unfold bflags, skel. cbn [nargs]. induction (nargs n) as [|a t IH]; cbn [map flat_map]; [reflexivity|].
  rewrite bflags_f_skel, IH. reflexivity.
Qed.

Lemma pat_args_sel : forall l k,
  sel (flat_map bflags_f l) (pat_args k l) = map Bnd (seq k (List.length (flat_map binders_f l))).
Proof.
  induction l as [|a t IH]; intros k; cbn [flat_map pat_args]; [reflexivity|].
  rewrite sel_app by apply bflags_f_len_pat. rewrite pat_f_sel, IH.
  rewrite app_length, binders_f_length, seq_app, map_app. reflexivity.
Qed.

Lemma ws_binders_nodup : forall n sh bij, wshape n = Ok (sh, bij) -> NoDup (binders sh).
Proof.
  intros n sh bij W. destruct (ws_top _ _ _ W) as (mF & _ & _ & _ & Sk & Ho & _).
  set (seen := num_st [] (pattern n)) in *.
  assert (Hinj : inj_on (gof seen) seen) by (apply agrees_inj; apply gof_agrees).
  rewrite binders_sel, <- (bflags_skel sh), Sk, bflags_skel, Ho.
  rewrite (num_out_agrees (gof seen) (pattern n) []) by apply gof_agrees.
  rewrite sel_map. unfold bflags, pattern. rewrite pat_args_sel. fold (binders n). rewrite map_map.
  apply NoDup_map_inj_on; [apply seq_NoDup|].
  intros x y Hx Hy E. apply in_seq in Hx, Hy.
  apply Hinj in E; [inversion E; reflexivity| |]; apply num_st_in; right; apply bnd_in_pattern; lia.
Qed.

Print Assumptions ws_binders_nodup.
Print Assumptions find_enode_binders.
