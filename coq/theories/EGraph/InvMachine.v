(* EGraph/InvMachine.v — machine `egc`: for one history, evaluate the executable premise of
   C13_eq_is_an_equivalence_on_reachable_states (both handles of every union cover their classes) and the
   executable part of the invariant eg_inv2 on the final state. *)
From SE Require Import EGraph.ModelMachine EGraph.UnionFindFacts EGraph.InvariantFacts EGraph.UnionInvariantFacts EGraph.CongruenceFacts EGraph.StoredLive EGraph.RepFacts EGraph.OpsPreFacts.

Definition run_egc (args : list sexp) : sexp :=
  match args with
  | _ :: Lst (Sym "terms" :: ts) :: Lst (Sym "ops" :: os) :: _ =>
      match dec_rterms ts, dec_hops os with
      | Some rts, Some ops =>
          match run_ops rts ops [] empty_egraph with
          | Err e => Lst [Sym "inv"; Sym "history-error"]
          | Ok (hs, s) =>
              Lst [Sym "inv"; Lst [Sym "covered"; sbool (unions_coveredb rts ops [] empty_egraph)];
                   Lst [Sym "invb"; sbool (eg_invb s)];
                   Lst [Sym "handles-cover"; sbool (forallb (coversb s) hs)];
                   Lst [Sym "self-symmetries"; sbool (ss_okb s)];
                   Lst [Sym "stored-live"; sbool (stored_liveb s)];
                   Lst [Sym "terms-static"; sbool (forallb term_staticb rts)];
                   Lst [Sym "handles-rep"; sbool (handles_repb rts ops hs s)]]
          end
      | _, _ => Sym "bad-case"
      end
  | _ => Sym "bad-case"
  end.


(* `egall` with the verdict of the static premise of C01_model_equality_is_exactly_the_congruence appended: when it is true (and the model run
   succeeded) the model's equality matrix over the handles IS the specified congruence (soundness + completeness), so an equality the
   implementation reports and the model denies is an unsound equality, and one the model reports and the implementation denies is a missed one *)
Definition run_egall_static (args : list sexp) : sexp :=
  match run_egall args, args with
  | Lst l, _ :: Lst (Sym "terms" :: ts) :: _ =>
      Lst (l ++ [Lst [Sym "static"; match dec_rterms ts with Some rts => sbool (forallb term_static_userb rts) | None => Sym "false" end]])
  | r, _ => r
  end.
