(* EGraph/InvariantFacts.v — frame lemmas, the invariant of insertion-only states, and
   "insertion is canonical" (lookup after add) on the e-graph model (EGraph/Model.v). *)
From SE Require Import Slots.SlotMapFacts Group.GroupSound Lang.LangFacts Lang.ShapeFacts Lang.RenameFacts
  Base.TextFacts EGraph.Model EGraph.ModelFacts EGraph.ModelMachine EGraph.UnionFindFacts.
Require Import ZArith Lia ZifyBool ZifyN ZifyNat.

Local Notation "a ** b" := (compose_partial a b) (at level 40, left associativity).
Local Notation inv := inverse_nocheck.
Local Notation ectr := Model.ctr.

Local Ltac neq := repeat match goal with
  | H : (_ =? _) = true |- _ => apply N.eqb_eq in H
  | H : (_ =? _) = false |- _ => apply N.eqb_neq in H
  end.

(* ------------------------------------------------------------------ *)
(* 0. the derived equality on nodes is equality; association lists *)

Lemma pval_eqb_iff : forall p q, pval_eqb p q = true <-> p = q.
Proof.
  intros p q. split.
  - destruct p as [a|a|a]; destruct q as [b|b|b]; cbn; intros H; try discriminate.
    + apply N.eqb_eq in H. congruence.
    + apply Bool.eqb_prop in H. congruence.
    + apply text_eqb_eq in H. congruence.
  - intros <-. destruct p as [a|a|a]; cbn.
    + apply N.eqb_refl.
    + apply Bool.eqb_reflx.
    + apply text_eqb_refl.
Qed.

Lemma appid_eqb_iff : forall a b, appid_eqb a b = true <-> a = b.
Proof.
  intros [i m] [j m']. unfold appid_eqb. cbn [aid am]. rewrite andb_true_iff, N.eqb_eq, eqb_map_eq.
  split; [intros [-> ->]; reflexivity|intros E; inversion E; auto].
Qed.

Lemma farg_eqb_iff : forall a b, farg_eqb a b = true <-> a = b.
Proof.
  induction a as [s|x|s f IH|p]; intros [t|y|t g|q]; cbn [farg_eqb]; try (split; [discriminate|congruence]).
  - rewrite N.eqb_eq. split; congruence.
  - rewrite appid_eqb_iff. split; congruence.
  - rewrite andb_true_iff, N.eqb_eq, IH. split; [intros [-> ->]; reflexivity|intros E; inversion E; auto].
  - rewrite pval_eqb_iff. split; congruence.
Qed.

Lemma forallb2_farg_iff : forall l l', forallb2 farg_eqb l l' = true <-> l = l'.
Proof.
  induction l as [|a t IH]; intros [|b t']; cbn [forallb2]; try (split; [discriminate|congruence]).
  - tauto.
  - rewrite andb_true_iff, farg_eqb_iff, IH. split; [intros [-> ->]; reflexivity|intros E; inversion E; auto].
Qed.

Theorem node_eqb_iff : forall n m, node_eqb n m = true <-> n = m.
Proof.
  intros [v l] [w l']. unfold node_eqb. cbn [nvar nargs].
  rewrite andb_true_iff, Nat.eqb_eq, forallb2_farg_iff.
  split; [intros [-> ->]; reflexivity|intros E; inversion E; auto].
Qed.

Lemma node_eqb_refl : forall n, node_eqb n n = true.
Proof. intros n. apply node_eqb_iff. reflexivity. Qed.

Lemma node_eqb_neq : forall n m, n <> m -> node_eqb n m = false.
Proof. intros n m H. destruct (node_eqb n m) eqn:E; [|reflexivity]. apply node_eqb_iff in E. contradiction. Qed.

Section AssocFacts.
  Context {V : Type}.
  Implicit Types l : list (node * V).

  Lemma na_get_set_same : forall l k v, na_get (na_set l k v) k = Some v.
  Proof.
    induction l as [|[k' v'] t IH]; intros k v; cbn [na_set na_get].
    - rewrite node_eqb_refl. reflexivity.
    - destruct (node_eqb k k') eqn:E; cbn [na_get]; rewrite E; [reflexivity|apply IH].
  Qed.

  Lemma na_get_set_other : forall l k v k', k' <> k -> na_get (na_set l k v) k' = na_get l k'.
  Proof.
    induction l as [|[k0 v0] t IH]; intros k v k' Hn; cbn [na_set na_get].
    - rewrite node_eqb_neq by assumption. reflexivity.
    - destruct (node_eqb k k0) eqn:E; cbn [na_get].
      + apply node_eqb_iff in E. subst k0. rewrite node_eqb_neq by assumption. reflexivity.
      + destruct (node_eqb k' k0); [reflexivity|apply IH; assumption].
  Qed.

  Lemma na_get_remove_other : forall l k k', k' <> k -> na_get (na_remove l k) k' = na_get l k'.
  Proof.
    induction l as [|[k0 v0] t IH]; intros k k' Hn; cbn [na_remove na_get]; [reflexivity|].
    destruct (node_eqb k k0) eqn:E; cbn [na_get].
    - apply node_eqb_iff in E. subst k0. rewrite node_eqb_neq by assumption. reflexivity.
    - destruct (node_eqb k' k0); [reflexivity|apply IH; assumption].
  Qed.

  (* duplicate-free keys *)
  Fixpoint na_nodup l : Prop :=
    match l with [] => True | (k, _) :: t => na_get t k = None /\ na_nodup t end.

  Lemma na_get_remove_same : forall l k, na_nodup l -> na_get (na_remove l k) k = None.
  Proof.
    induction l as [|[k0 v0] t IH]; intros k H; cbn [na_remove na_get]; [reflexivity|].
    destruct H as [H1 H2]. destruct (node_eqb k k0) eqn:E.
    - apply node_eqb_iff in E. subst k0. assumption.
    - cbn [na_get]. rewrite E. apply IH. assumption.
  Qed.

  Lemma na_nodup_set : forall l k v, na_nodup l -> na_nodup (na_set l k v).
  Proof.
    induction l as [|[k0 v0] t IH]; intros k v H; cbn [na_set na_nodup]; [auto|].
    destruct H as [H1 H2]. destruct (node_eqb k k0) eqn:E; cbn [na_nodup].
    - split; assumption.
    - split; [|apply IH; assumption].
      rewrite na_get_set_other; [assumption|].
      intros ->. rewrite node_eqb_refl in E. discriminate.
  Qed.

  Lemma na_nodup_remove : forall l k, na_nodup l -> na_nodup (na_remove l k).
  Proof.
    induction l as [|[k0 v0] t IH]; intros k H; cbn [na_remove na_nodup]; [auto|].
    destruct H as [H1 H2]. destruct (node_eqb k k0) eqn:E; cbn [na_nodup]; [assumption|].
    split; [|apply IH; assumption].
    rewrite na_get_remove_other; [assumption|].
    intros ->. rewrite node_eqb_refl in E. discriminate.
  Qed.

  Lemma na_remove_absent : forall l k, na_get l k = None -> na_remove l k = l.
  Proof.
    induction l as [|[k0 v0] t IH]; intros k H; cbn [na_remove na_get] in *; [reflexivity|].
    destruct (node_eqb k k0); [discriminate|]. f_equal. apply IH. assumption.
  Qed.
End AssocFacts.

(* ------------------------------------------------------------------ *)
(* 1. frame lemmas: the queries `find_applied_id`, `find_enode`, `eg_eq`, `variants`, `shape`,
   `semify_app_id`, `pc_from_src_id`, ... depend only on the union-find table and on the slots,
   group and syntactic node of every class — not on the nodes / usages of the classes, the
   hashcons, the pending list or the counter. *)

Definition csem (c : eclass) : sset * group * node := (c_slots c, c_group c, c_syn c).

Definition sem_eq (s s' : egraph) : Prop :=
  unionfind s = unionfind s' /\ map csem (classes s) = map csem (classes s').

Lemma sem_eq_refl : forall s, sem_eq s s.
Proof. intros s; split; reflexivity. Qed.
Lemma sem_eq_sym : forall s s', sem_eq s s' -> sem_eq s' s.
Proof. intros s s' [A B]; split; auto. Qed.
Lemma sem_eq_trans : forall a b c, sem_eq a b -> sem_eq b c -> sem_eq a c.
Proof. intros a b c [A B] [A' B']; split; congruence. Qed.

Lemma nth_opt_map : forall {A B} (f : A -> B) l n, nth_opt (map f l) n = option_map f (nth_opt l n).
Proof. induction l as [|x t IH]; destruct n as [|n]; cbn; auto. Qed.

Lemma get_class_sem : forall s s' i, sem_eq s s' ->
  match get_class s i, get_class s' i with
  | Ok c, Ok c' => csem c = csem c'
  | Err e, Err e' => e = e'
  | _, _ => False
  end.
Proof.
  intros s s' i [_ H]. unfold get_class.
  pose proof (nth_opt_map csem (classes s) (N.to_nat i)) as A.
  pose proof (nth_opt_map csem (classes s') (N.to_nat i)) as B.
  rewrite H in A. rewrite A in B.
  destruct (nth_opt (classes s) (N.to_nat i)), (nth_opt (classes s') (N.to_nat i)); cbn in B;
    try discriminate; [congruence|reflexivity].
Qed.

Lemma get_class_sem_ok : forall s s' i c, sem_eq s s' -> get_class s i = Ok c ->
  exists c', get_class s' i = Ok c' /\ csem c' = csem c.
Proof.
  intros s s' i c E H. pose proof (get_class_sem s s' i E) as T. rewrite H in T.
  destruct (get_class s' i) as [c'|]; [eauto|contradiction].
Qed.

Lemma csem_inv : forall c c', csem c = csem c' ->
  c_slots c = c_slots c' /\ c_group c = c_group c' /\ c_syn c = c_syn c'.
Proof. unfold csem. intros c c' H. inversion H. auto. Qed.

Lemma sem_find_applied_id : forall s s' a, sem_eq s s' -> find_applied_id s a = find_applied_id s' a.
Proof. intros s s' a [H _]. unfold find_applied_id, unionfind_get. rewrite H. reflexivity. Qed.

Lemma mapr_ext : forall {A B} (f g : A -> res B) l, (forall x, In x l -> f x = g x) -> mapr f l = mapr g l.
Proof.
  induction l as [|x t IH]; intros H; cbn [mapr]; [reflexivity|].
  rewrite (H x) by (left; reflexivity). rewrite IH by (intros; apply H; right; assumption). reflexivity.
Qed.

Lemma sem_find_enode : forall s s' n, sem_eq s s' -> find_enode s n = find_enode s' n.
Proof.
  intros s s' n E. unfold find_enode.
  rewrite (mapr_ext (find_applied_id s) (find_applied_id s')); [reflexivity|].
  intros; apply sem_find_applied_id; assumption.
Qed.

Lemma sem_class_slots : forall s s' i, sem_eq s s' -> class_slots s i = class_slots s' i.
Proof.
  intros s s' i E. unfold class_slots. pose proof (get_class_sem s s' i E) as T.
  destruct (get_class s i), (get_class s' i); try contradiction; cbn [bind]; [|congruence].
  apply csem_inv in T. destruct T as (-> & _). reflexivity.
Qed.

Lemma sem_syn_slots : forall s s' i, sem_eq s s' -> syn_slots s i = syn_slots s' i.
Proof.
  intros s s' i E. unfold syn_slots. pose proof (get_class_sem s s' i E) as T.
  destruct (get_class s i), (get_class s' i); try contradiction; cbn [bind]; [|congruence].
  apply csem_inv in T. destruct T as (_ & _ & ->). reflexivity.
Qed.

Lemma sem_eg_eq : forall s s' a b, sem_eq s s' -> eg_eq s a b = eg_eq s' a b.
Proof.
  intros s s' a b E. unfold eg_eq.
  rewrite (sem_find_applied_id s s' a E), (sem_find_applied_id s s' b E).
  destruct (find_applied_id s' a) as [a'|]; cbn [bind]; [|reflexivity].
  destruct (find_applied_id s' b) as [b'|]; cbn [bind]; [|reflexivity].
  destruct (negb (aid a' =? aid b')); [reflexivity|].
  destruct (negb (sset_eqb _ _)); [reflexivity|].
  pose proof (get_class_sem s s' (aid a') E) as T.
  destruct (get_class s (aid a')), (get_class s' (aid a')); try contradiction; cbn [bind]; [|congruence].
  apply csem_inv in T. destruct T as (_ & -> & _). reflexivity.
Qed.

Lemma sem_mapr_get_class : forall s s' (l : list appid), sem_eq s s' ->
  match mapr (fun a => get_class s (aid a)) l, mapr (fun a => get_class s' (aid a)) l with
  | Ok cs, Ok cs' => map csem cs = map csem cs'
  | Err e, Err e' => e = e'
  | _, _ => False
  end.
Proof.
  intros s s' l E. induction l as [|a t IH]; cbn [mapr]; [reflexivity|].
  pose proof (get_class_sem s s' (aid a) E) as T.
  destruct (get_class s (aid a)), (get_class s' (aid a)); try contradiction; cbn [bind]; [|assumption].
  destruct (mapr _ t), (mapr _ t); try contradiction; cbn [bind map]; [congruence|assumption].
Qed.

Lemma map_csem_groups : forall cs cs', map csem cs = map csem cs' -> map c_group cs = map c_group cs'.
Proof.
  induction cs as [|c t IH]; intros [|c' t'] H; cbn in H; try discriminate; [reflexivity|].
  inversion H as [[H1 H2 H3 H4]]. cbn [map]. f_equal; auto.
Qed.

Lemma forallb_map : forall {A B} (f : A -> B) (p : B -> bool) l, forallb (fun x => p (f x)) l = forallb p (map f l).
Proof. induction l as [|x t IH]; cbn; [reflexivity|]. rewrite IH. reflexivity. Qed.

Lemma mapr_map : forall {A B C} (f : A -> B) (g : B -> res C) l, mapr (fun x => g (f x)) l = mapr g (map f l).
Proof. induction l as [|x t IH]; cbn [mapr map]; [reflexivity|]. rewrite IH. reflexivity. Qed.

Lemma sem_variants : forall s s' n, sem_eq s s' -> variants s n = variants s' n.
Proof.
  intros s s' n E. unfold variants. pose proof (sem_mapr_get_class s s' (app_occ n) E) as T.
  destruct (mapr _ (app_occ n)) as [cs|], (mapr _ (app_occ n)) as [cs'|]; try contradiction; cbn [bind]; [|congruence].
  apply map_csem_groups in T.
  rewrite (forallb_map c_group gis_trivial cs), (forallb_map c_group gis_trivial cs'), T.
  destruct (forallb gis_trivial (map c_group cs')); [reflexivity|].
  rewrite (mapr_map c_group (gall_perms false) cs), (mapr_map c_group (gall_perms false) cs'), T. reflexivity.
Qed.

Lemma sem_pre_shape : forall s s' n, sem_eq s s' -> pre_shape s n = pre_shape s' n.
Proof.
  intros s s' n E. unfold pre_shape. rewrite (sem_find_enode s s' n E).
  destruct (find_enode s' n) as [n1|]; cbn [bind]; [|reflexivity].
  rewrite (sem_variants s s' n1 E). reflexivity.
Qed.

Lemma sem_shape : forall s s' n, sem_eq s s' -> shape s n = shape s' n.
Proof. intros s s' n E. unfold shape. rewrite (sem_pre_shape s s' n E). reflexivity. Qed.

Lemma sem_semify : forall s s' a, sem_eq s s' -> semify_app_id s a = semify_app_id s' a.
Proof. intros s s' a E. unfold semify_app_id. rewrite (sem_class_slots s s' _ E). reflexivity. Qed.

Lemma sem_pc_from_src_id : forall s s' i, sem_eq s s' -> pc_from_src_id s i = pc_from_src_id s' i.
Proof.
  intros s s' i E. unfold pc_from_src_id. pose proof (get_class_sem s s' i E) as T.
  destruct (get_class s i), (get_class s' i); try contradiction; cbn [bind]; [|congruence].
  apply csem_inv in T. destruct T as (_ & _ & ->).
  destruct (apply_slotmap _ _ _) as [n|]; cbn [bind]; [|reflexivity].
  rewrite (sem_pre_shape s s' n E). destruct (pre_shape s' n); cbn [bind]; [|reflexivity].
  rewrite (sem_find_applied_id s s' _ E). reflexivity.
Qed.

Lemma sem_is_alive : forall s s' i, sem_eq s s' -> is_alive s i = is_alive s' i.
Proof. intros s s' i [H _]. unfold is_alive. rewrite H. reflexivity. Qed.

(* the state updates that keep the semantic part *)
Lemma sem_set_pending : forall s p, sem_eq s (set_pending s p).
Proof. intros; split; reflexivity. Qed.
Lemma sem_set_hashcons : forall s h, sem_eq s (set_hashcons s h).
Proof. intros; split; reflexivity. Qed.
Lemma sem_set_ctr : forall s c, sem_eq s (set_ctr s c).
Proof. intros; split; reflexivity. Qed.

Lemma map_set_nth : forall {A B} (f : A -> B) l n x, map f (set_nth l n x) = set_nth (map f l) n (f x).
Proof. induction l as [|y t IH]; destruct n as [|n]; cbn; intros; auto. rewrite IH. reflexivity. Qed.

Lemma set_nth_same : forall {A} (l : list A) n x, nth_opt l n = Some x -> set_nth l n x = l.
Proof.
  induction l as [|y t IH]; destruct n as [|n]; cbn; intros x H; try discriminate; auto.
  - inversion H. reflexivity.
  - rewrite IH by assumption. reflexivity.
Qed.

Lemma sem_upd_class : forall i f s x s', (forall c, csem (f c) = csem c) ->
  upd_class i f s = Ok (x, s') -> sem_eq s s'.
Proof.
  intros i f s x s' Hf H. unfold upd_class in H.
  destruct (nth_opt (classes s) (N.to_nat i)) as [c|] eqn:E; [|discriminate].
  inversion H; subst. split; [reflexivity|]. cbn [classes set_classes].
  rewrite map_set_nth, Hf. symmetry. apply set_nth_same. rewrite nth_opt_map, E. reflexivity.
Qed.

(* ------------------------------------------------------------------ *)
(* 2. slot-map facts *)

Lemma wf_keys : forall m, wf m <-> swf (keys_vec m).
Proof.
  induction m as [|[k v] t IH]; cbn [wf swf keys_vec map fst]; [tauto|].
  assert (L : lb k t <-> slb k (keys_vec t)) by (destruct t as [|[k' v'] t']; cbn; tauto).
  unfold keys_vec in *. tauto.
Qed.

Lemma get_in_keys : forall m k, get m k <> None <-> In k (keys_vec m).
Proof.
  induction m as [|[k0 v0] t IH]; intros k; cbn [get keys_vec map fst In]; [tauto|].
  destruct (k =? k0) eqn:E; neq.
  - subst. split; [auto|discriminate].
  - rewrite IH. unfold keys_vec. split; [auto|intros [H|H]; [congruence|assumption]].
Qed.

Lemma keys_identity : forall sl, swf sl -> keys (identity sl) = sl.
Proof.
  intros sl W. apply sset_ext; [apply sset_of_list_spec|assumption|].
  intros x. rewrite keys_spec, get_identity. destruct (sset_mem x sl) eqn:E.
  - apply sset_mem_in in E. split; [auto|discriminate].
  - split; [congruence|]. intros H. apply sset_mem_in in H. congruence.
Qed.

Lemma identity_wf : forall sl, wf (identity sl).
Proof. intros; apply from_iter_wf. Qed.

Lemma values_identity : forall sl, swf sl -> values (identity sl) = sl.
Proof.
  intros sl W. apply sset_ext; [apply sset_of_list_spec|assumption|].
  intros x. rewrite values_spec by apply identity_wf. split.
  - intros [k H]. rewrite get_identity in H. destruct (sset_mem k sl) eqn:E; inversion H; subst.
    apply sset_mem_in; assumption.
  - intros H. exists x. rewrite get_identity. apply sset_mem_in in H. rewrite H. reflexivity.
Qed.

(* restricting a map to a set that contains its keys does nothing *)
Lemma identity_compose : forall sl m, wf m -> (forall k, get m k <> None -> In k sl) -> identity sl ** m = m.
Proof.
  intros sl m W H. apply ext_eq; [apply compose_partial_wf|assumption|].
  intros k. rewrite get_compose_partial by apply identity_wf. rewrite get_identity.
  destruct (sset_mem k sl) eqn:E; [reflexivity|].
  destruct (get m k) eqn:G; [|reflexivity]. exfalso.
  assert (In k sl) by (apply H; congruence). apply sset_mem_in in H0. congruence.
Qed.

Lemma identity_compose_keys : forall sl m k, get (identity sl ** m) k <> None -> In k sl.
Proof.
  intros sl m k. rewrite get_compose_partial by apply identity_wf. rewrite get_identity.
  destruct (sset_mem k sl) eqn:E; [intros _; apply sset_mem_in; assumption|congruence].
Qed.

Lemma identity_idem : forall sl, identity sl ** identity sl = identity sl.
Proof.
  intros sl. apply identity_compose; [apply identity_wf|].
  intros k. rewrite get_identity. destruct (sset_mem k sl) eqn:E; [intros _; apply sset_mem_in; assumption|congruence].
Qed.

Lemma sset_subset_refl : forall a, sset_subset a a = true.
Proof.
  intros a. unfold sset_subset. apply forallb_forall. intros x H. apply sset_mem_in. assumption.
Qed.

Lemma pid_identity_get : forall sl k v, get (identity sl) k = Some v -> v = k /\ In k sl.
Proof.
  intros sl k v. rewrite get_identity. destruct (sset_mem k sl) eqn:E; [|discriminate].
  intros H. apply sset_mem_in in E. split; [congruence|assumption].
Qed.

(* fill_fresh only adds keys of the list, and keeps sortedness *)
Lemma fill_fresh_spec : forall l m s m' s', wf m -> fill_fresh l m s = Ok (m', s') ->
  wf m' /\ (forall k, get m' k <> None -> get m k <> None \/ In k l) /\
  (forall k, get m k <> None -> get m' k = get m k) /\
  exists c, s' = set_ctr s c.
Proof.
  induction l as [|x t IH]; intros m s m' s' W H; cbn [fill_fresh] in H.
  - inversion H; subst. repeat split; auto. exists (Model.ctr s'). destruct s'; reflexivity.
  - unfold contains_key in H. destruct (get m x) eqn:G.
    + destruct (IH _ _ _ _ W H) as (A & B & C & D). repeat split; auto.
      intros k Hk. destruct (B k Hk); [auto|right; right; assumption].
    + apply mbind_inv in H. destruct H as (f & s1 & H1 & H). inversion H1; subst f s1; clear H1.
      destruct (IH _ _ _ _ (insert_wf _ _ _ W) H) as (A & B & C & [c D]).
      split; [assumption|]. split; [|split].
      * intros k Hk. destruct (B k Hk) as [Hb|Hb]; [|right; right; assumption].
        rewrite get_insert in Hb by assumption. destruct (k =? x) eqn:E; neq; [subst; right; left; reflexivity|auto].
      * intros k Hk. rewrite C.
        -- rewrite get_insert by assumption. destruct (k =? x) eqn:E; neq; [subst; congruence|reflexivity].
        -- rewrite get_insert by assumption. destruct (k =? x); [discriminate|assumption].
      * exists c. rewrite D. reflexivity.
Qed.

Lemma fill_fresh_noop : forall l m s, (forall x, In x l -> get m x <> None) -> fill_fresh l m s = Ok (m, s).
Proof.
  induction l as [|x t IH]; intros m s H; cbn [fill_fresh]; [reflexivity|].
  unfold contains_key. destruct (get m x) eqn:G; [|exfalso; apply (H x); [left; reflexivity|assumption]].
  apply IH. intros y Hy. apply H. right. assumption.
Qed.

(* ------------------------------------------------------------------ *)
(* 3. set_apps, mapr *)

Lemma set_apps_f_self : forall a r, set_apps_f a (app_occ_f a ++ r) = (a, r).
Proof.
  induction a as [s|x|s b IH|p]; intros r; cbn [set_apps_f app_occ_f app]; try reflexivity.
  rewrite IH. reflexivity.
Qed.

Lemma set_apps_args_self : forall args, set_apps_args args (flat_map app_occ_f args) = args.
Proof.
  induction args as [|a t IH]; cbn [set_apps_args flat_map]; [reflexivity|].
  rewrite set_apps_f_self, IH. reflexivity.
Qed.

Lemma set_apps_self : forall n, set_apps n (app_occ n) = n.
Proof. intros [v l]. unfold set_apps, app_occ. cbn [nvar nargs]. rewrite set_apps_args_self. reflexivity. Qed.

Lemma set_apps_f_occ : forall a l, (List.length (app_occ_f a) <= List.length l)%nat ->
  app_occ_f (fst (set_apps_f a l)) ++ snd (set_apps_f a l) = l /\
  List.length (app_occ_f (fst (set_apps_f a l))) = List.length (app_occ_f a) /\
  binders_f (fst (set_apps_f a l)) = binders_f a.
Proof.
  induction a as [s|x|s b IH|p]; intros l H; cbn [set_apps_f app_occ_f binders_f] in *; try (cbn; auto; fail).
  - destruct l as [|y t]; [cbn in H; lia|]. cbn. auto.
  - specialize (IH l H). destruct (set_apps_f b l) as [b' r]. cbn [fst snd app_occ_f binders_f] in *.
    destruct IH as (A & B & C). rewrite C. auto.
Qed.

Lemma set_apps_args_occ : forall args l, List.length (flat_map app_occ_f args) = List.length l ->
  flat_map app_occ_f (set_apps_args args l) = l /\
  flat_map binders_f (set_apps_args args l) = flat_map binders_f args.
Proof.
  induction args as [|a t IH]; intros l H; cbn [set_apps_args flat_map] in *.
  - destruct l; [auto|discriminate].
  - rewrite app_length in H.
    destruct (set_apps_f_occ a l ltac:(lia)) as (A & B & C).
    destruct (set_apps_f a l) as [a' r]. cbn [fst snd] in *. cbn [flat_map].
    assert (Hr : List.length (flat_map app_occ_f t) = List.length r).
    { rewrite <- A, app_length in H. lia. }
    destruct (IH r Hr) as (D & E). rewrite D, E, C. auto.
Qed.

Lemma app_occ_set_apps : forall n l, List.length l = List.length (app_occ n) -> app_occ (set_apps n l) = l.
Proof. intros n l H. unfold app_occ, set_apps. cbn [nargs]. apply set_apps_args_occ. symmetry. exact H. Qed.

Lemma binders_set_apps : forall n l, List.length l = List.length (app_occ n) -> binders (set_apps n l) = binders n.
Proof. intros n l H. unfold binders, set_apps. cbn [nargs]. apply set_apps_args_occ. symmetry. exact H. Qed.

Lemma mapr_ok : forall {A B} (f : A -> res B) l r, mapr f l = Ok r -> Forall2 (fun x y => f x = Ok y) l r.
Proof.
  induction l as [|x t IH]; intros r H; cbn [mapr] in H.
  - inversion H. constructor.
  - destruct (f x) as [y|] eqn:E; cbn [bind] in H; [|discriminate].
    destruct (mapr f t) as [r'|]; cbn [bind] in H; [|discriminate]. inversion H. constructor; auto.
Qed.

Lemma mapr_id : forall {A} (f : A -> res A) l, (forall x, In x l -> f x = Ok x) -> mapr f l = Ok l.
Proof.
  induction l as [|x t IH]; intros H; cbn [mapr]; [reflexivity|].
  rewrite (H x) by (left; reflexivity). cbn [bind]. rewrite IH by (intros; apply H; right; assumption). reflexivity.
Qed.

Lemma Forall2_length' : forall {A B} (P : A -> B -> Prop) l r, Forall2 P l r -> List.length r = List.length l.
Proof. intros A B P l r H. induction H; cbn; auto. Qed.

(* ------------------------------------------------------------------ *)
(* 4. the invariant of insertion-only states *)

Definition class_flat (c : eclass) : Prop :=
  swf (c_slots c) /\ c_group c = Grp (identity (c_slots c)) None /\ slots (c_syn c) = c_slots c.

(* the semantic part: every class is a leader with the identity of its slots, trivial group *)
Record sflat (s : egraph) : Prop := {
  sf_wf : eg_wf s;
  sf_cls : forall i c, get_class s i = Ok c -> class_flat c;
  sf_uf : forall i c, get_class s i = Ok c ->
            uentry (unionfind s) i = Some {| aid := i; am := identity (c_slots c) |} }.

Record flat (s : egraph) : Prop := {
  fl_s : sflat s;
  fl_pend : pending s = [];
  fl_ctr : ectr s mod 4 = 1;
  fl_hc : na_nodup (hashcons s) }.

Lemma flat_entry : forall s i e, sflat s -> uentry (unionfind s) i = Some e ->
  exists c, get_class s i = Ok c /\ e = {| aid := i; am := identity (c_slots c) |}.
Proof.
  intros s i e F H. pose proof (uentry_lt _ _ _ H) as L. rewrite (sf_wf s F) in L.
  destruct (get_class_ok s i L) as [c Hc]. exists c. split; [assumption|].
  pose proof (sf_uf s F i c Hc) as U. congruence.
Qed.

Theorem sflat_uf_ok : forall s, sflat s -> uf_ok s.
Proof.
  intros s F. constructor.
  - intros i e H. destruct (flat_entry s i e F H) as (c & _ & ->). cbn [aid]. eapply uentry_lt; eauto.
  - intros i e H. destruct (flat_entry s i e F H) as (c & _ & ->). apply identity_wf.
  - intros i e H _. destruct (flat_entry s i e F H) as (c & _ & ->). apply pid_identity.
  - exists (fun _ => 0%nat). intros i e H Hn. destruct (flat_entry s i e F H) as (c & _ & ->). cbn [aid] in Hn. congruence.
Qed.

Lemma class_flat_grp_ok : forall c, class_flat c -> grp_ok c.
Proof.
  intros c (W & G & _). exists []. split; [constructor|]. rewrite G. reflexivity.
Qed.

Theorem sflat_uf_slots_ok : forall s, sflat s -> uf_slots_ok s.
Proof.
  intros s F. constructor.
  - apply (sf_wf s F).
  - intros i c _ Hc. apply class_flat_grp_ok. eapply sf_cls; eauto.
  - intros i e c He _ Hc. pose proof (sf_uf s F i c Hc) as U. rewrite U in He. inversion He; subst e. cbn [am].
    apply keys_identity. apply (sf_cls s F i c Hc).
  - intros i e ci cp He Hn. destruct (flat_entry s i e F He) as (c & _ & ->). cbn [aid] in Hn. congruence.
Qed.

Theorem flat_uf_ok : forall s, flat s -> uf_ok s.
Proof. intros s F. apply sflat_uf_ok. apply (fl_s s F). Qed.
Theorem flat_uf_slots_ok : forall s, flat s -> uf_slots_ok s.
Proof. intros s F. apply sflat_uf_slots_ok. apply (fl_s s F). Qed.

Lemma flat_empty : flat empty_egraph.
Proof.
  constructor; try reflexivity; try exact I. constructor; try reflexivity.
  - intros i c H. unfold get_class in H. cbn in H. destruct (N.to_nat i); discriminate.
  - intros i c H. unfold get_class in H. cbn in H. destruct (N.to_nat i); discriminate.
Qed.

(* reflexivity and symmetry of eg_eq, unconditionally on flat states *)
Corollary flat_eg_eq_refl : forall s a, flat s -> covers s a -> eg_eq s a a = Ok true.
Proof. intros s a F C. apply eg_eq_refl_inv; [apply flat_uf_ok|apply flat_uf_slots_ok|]; assumption. Qed.

Corollary flat_eg_eq_sym : forall s a b, flat s -> covers s a -> covers s b ->
  exists x, eg_eq s a b = Ok x /\ eg_eq s b a = Ok x.
Proof. intros s a b F Ca Cb. apply eg_eq_sym_inv; [apply flat_uf_ok|apply flat_uf_slots_ok| |]; assumption. Qed.

(* queries on a flat state *)
Lemma flat_find : forall s a c, sflat s -> get_class s (aid a) = Ok c ->
  find_applied_id s a = Ok {| aid := aid a; am := identity (c_slots c) ** am a |}.
Proof.
  intros s a c F Hc. unfold find_applied_id.
  rewrite (unionfind_get_leader s (aid a) _ (sf_uf s F _ _ Hc) eq_refl). reflexivity.
Qed.

Lemma flat_find_ok_class : forall s a b, sflat s -> find_applied_id s a = Ok b -> exists c, get_class s (aid a) = Ok c.
Proof.
  intros s a b F H. apply get_class_ok. rewrite <- (sf_wf s F).
  destruct (Nat.ltb (N.to_nat (aid a)) (lu s)) eqn:L; [apply Nat.ltb_lt in L; assumption|].
  apply Nat.ltb_ge in L. unfold find_applied_id, unionfind_get in H. rewrite uf_get_go_oob in H by assumption.
  discriminate.
Qed.

(* an invocation whose map is sorted and only uses slots of the class is its own canonical form *)
Definition kid_sub (s : egraph) (a : appid) : Prop :=
  exists c, get_class s (aid a) = Ok c /\ wf (am a) /\ (forall k, get (am a) k <> None -> In k (c_slots c)).
Definition kids_sub (s : egraph) (n : node) : Prop := Forall (kid_sub s) (app_occ n).

Lemma flat_find_fixed : forall s a, sflat s -> kid_sub s a -> find_applied_id s a = Ok a.
Proof.
  intros s [i m] F (c & Hc & W & K). cbn [aid am] in *.
  rewrite (flat_find s {| aid := i; am := m |} c F Hc). cbn [aid am].
  rewrite identity_compose by assumption. reflexivity.
Qed.

Lemma flat_find_enode_fixed : forall s n, sflat s -> kids_sub s n -> find_enode s n = Ok n.
Proof.
  intros s n F K. unfold find_enode. rewrite mapr_id.
  - cbn [bind]. rewrite set_apps_self. reflexivity.
  - intros a Ha. apply flat_find_fixed; [assumption|]. eapply Forall_forall; eauto.
Qed.

(* kid_sub only depends on the id and the key vector *)
Definition kid_sub_k (s : egraph) (p : N * list slot) : Prop :=
  exists c, get_class s (fst p) = Ok c /\ swf (snd p) /\ incl (snd p) (c_slots c).

Lemma kids_sub_ckeys : forall s n, kids_sub s n <-> Forall (kid_sub_k s) (ckeys n).
Proof.
  intros s n. unfold kids_sub, ckeys. rewrite Forall_map.
  split; apply Forall_impl; intros a (c & Hc & W & K); exists c; cbn [fst snd] in *;
    (split; [assumption|]); (split; [apply wf_keys; assumption|]).
  - intros k Hk. apply K. apply get_in_keys. assumption.
  - intros k Hk. apply K. apply get_in_keys. assumption.
Qed.

Lemma kids_sub_transport : forall s s' n n', sem_eq s s' -> ckeys n = ckeys n' -> kids_sub s n -> kids_sub s' n'.
Proof.
  intros s s' n n' E K H. apply kids_sub_ckeys. rewrite <- K. apply kids_sub_ckeys in H.
  revert H. apply Forall_impl. intros p (c & Hc & W & I).
  destruct (get_class_sem_ok s s' _ c E Hc) as (c' & Hc' & Cs). apply csem_inv in Cs. destruct Cs as (Cs & _).
  exists c'. rewrite Cs. auto.
Qed.

Lemma flat_variants : forall s n vs, sflat s -> variants s n = Ok vs -> vs = [n].
Proof.
  intros s n vs F H. unfold variants in H.
  destruct (mapr (fun a => get_class s (aid a)) (app_occ n)) as [cls|] eqn:E; cbn [bind] in H; [|discriminate].
  assert (T : forallb (fun c => gis_trivial (c_group c)) cls = true).
  { apply forallb_forall. intros c Hc. apply mapr_ok in E.
    assert (X : exists a, get_class s (aid a) = Ok c).
    { clear -E Hc. induction E; [contradiction|]. destruct Hc as [->|Hc]; eauto. }
    destruct X as [a Ha]. destruct (sf_cls s F _ _ Ha) as (_ & -> & _). reflexivity. }
  rewrite T in H. inversion H. reflexivity.
Qed.

Lemma flat_pre_shape : forall s n p, sflat s -> kids_sub s n -> pre_shape s n = Ok p -> p = n.
Proof.
  intros s n p F K H. unfold pre_shape in H. rewrite (flat_find_enode_fixed s n F K) in H. cbn [bind] in H.
  destruct (variants s n) as [vs|] eqn:V; cbn [bind] in H; [|discriminate].
  apply (flat_variants s n vs F) in V. subst vs. cbn [min_variant] in H.
  destruct (wshape n); cbn [bind] in H; [|discriminate]. inversion H. reflexivity.
Qed.

Lemma flat_shape : forall s n t, sflat s -> kids_sub s n -> shape s n = Ok t -> wshape n = Ok t.
Proof.
  intros s n t F K H. unfold shape in H. destruct (pre_shape s n) as [p|] eqn:P; cbn [bind] in H; [|discriminate].
  apply (flat_pre_shape s n p F K) in P. subst p. assumption.
Qed.

(* ------------------------------------------------------------------ *)
(* 5. the primitive updates, observed through: the semantic part (sem_eq), the hashcons, the
   pending list, and the nodes of one class *)

Definition csem2 (c : eclass) := (csem c, c_nodes c).

Definition same_core (s s' : egraph) : Prop :=
  unionfind s' = unionfind s /\ hashcons s' = hashcons s /\ pending s' = pending s /\
  map csem2 (classes s') = map csem2 (classes s).

Lemma same_core_refl : forall s, same_core s s.
Proof. intros s. repeat split. Qed.
Lemma same_core_trans : forall a b c, same_core a b -> same_core b c -> same_core a c.
Proof. intros a b c (A1 & A2 & A3 & A4) (B1 & B2 & B3 & B4). repeat split; congruence. Qed.

Lemma map_csem2_csem : forall l l', map csem2 l = map csem2 l' -> map csem l = map csem l'.
Proof.
  induction l as [|c t IH]; intros [|c' t'] H; cbn [map] in H; try discriminate; [reflexivity|].
  assert (H1 : csem2 c = csem2 c') by congruence. assert (H2 : map csem2 t = map csem2 t') by congruence.
  cbn [map]. f_equal; [|auto]. unfold csem2 in H1. congruence.
Qed.

Lemma same_core_sem : forall s s', same_core s s' -> sem_eq s s'.
Proof. intros s s' (A & _ & _ & B). split; [auto|]. symmetry. apply map_csem2_csem. assumption. Qed.

Lemma same_core_class : forall s s' i c, same_core s s' -> get_class s i = Ok c ->
  exists c', get_class s' i = Ok c' /\ csem c' = csem c /\ c_nodes c' = c_nodes c.
Proof.
  intros s s' i c (_ & _ & _ & H) Hc. unfold get_class in *.
  pose proof (nth_opt_map csem2 (classes s) (N.to_nat i)) as A.
  pose proof (nth_opt_map csem2 (classes s') (N.to_nat i)) as B. rewrite H, A in B.
  destruct (nth_opt (classes s) (N.to_nat i)) as [c0|]; [|discriminate]. inversion Hc; subst c0.
  destruct (nth_opt (classes s') (N.to_nat i)) as [c'|]; cbn in B; [|discriminate].
  exists c'. split; [reflexivity|]. unfold csem2 in B. split; congruence.
Qed.

Lemma upd_class_inv : forall i f s x s', upd_class i f s = Ok (x, s') ->
  exists c, get_class s i = Ok c /\ s' = set_classes s (set_nth (classes s) (N.to_nat i) (f c)).
Proof.
  intros i f s x s' H. unfold upd_class in H. unfold get_class.
  destruct (nth_opt (classes s) (N.to_nat i)) as [c|]; [|discriminate]. inversion H. eauto.
Qed.

Lemma upd_class_same_core : forall i f s x s', (forall c, csem2 (f c) = csem2 c) ->
  upd_class i f s = Ok (x, s') -> same_core s s'.
Proof.
  intros i f s x s' Hf H. apply upd_class_inv in H. destruct H as (c & Hc & ->).
  repeat split. cbn [classes set_classes]. rewrite map_set_nth, Hf. apply set_nth_same.
  unfold get_class in Hc. rewrite nth_opt_map. destruct (nth_opt (classes s) (N.to_nat i)); inversion Hc. reflexivity.
Qed.

Lemma iterM_same_core : forall {A} (f : A -> M unit) l, (forall a s x s', f a s = Ok (x, s') -> same_core s s') ->
  forall s x s', iterM f l s = Ok (x, s') -> same_core s s'.
Proof.
  intros A f l Hf. induction l as [|a t IH]; intros s x s' H; cbn [iterM] in H.
  - inversion H. apply same_core_refl.
  - apply mbind_inv in H. destruct H as (u & s1 & H1 & H). eapply same_core_trans; eauto.
Qed.

Lemma usages_same_core : forall (F : eclass -> list node) l s x s',
  iterM (fun r => upd_class r (fun c => with_usages c (F c))) l s = Ok (x, s') -> same_core s s'.
Proof.
  intros F l. apply iterM_same_core. intros a s x s' H. eapply upd_class_same_core; [|exact H]. reflexivity.
Qed.

Lemma nth_opt_set_nth_eq : forall {A} (l : list A) n x y, nth_opt l n = Some y -> nth_opt (set_nth l n x) n = Some x.
Proof. intros A l n x y H. apply nth_opt_set_same. eapply nth_opt_Some_lt; eauto. Qed.

Lemma sem_set_class : forall s i c c', get_class s i = Ok c -> csem c' = csem c ->
  sem_eq s (set_classes s (set_nth (classes s) (N.to_nat i) c')).
Proof.
  intros s i c c' Hc E. split; [reflexivity|]. cbn [classes set_classes]. rewrite map_set_nth, E.
  symmetry. apply set_nth_same. unfold get_class in Hc. rewrite nth_opt_map.
  destruct (nth_opt (classes s) (N.to_nat i)); inversion Hc. reflexivity.
Qed.

Lemma raw_add_obs : forall id sh bij src s x s', raw_add_to_class id (sh, bij) src s = Ok (x, s') ->
  sem_eq s s' /\ hashcons s' = na_set (hashcons s) sh id /\ pending s' = pending s /\
  exists c c', get_class s id = Ok c /\ get_class s' id = Ok c' /\ c_nodes c' = na_set (c_nodes c) sh (bij, src).
Proof.
  intros id sh bij src s x s' H. unfold raw_add_to_class in H.
  apply mbind_inv in H. destruct H as (u1 & s1 & H1 & H). apply upd_class_inv in H1. destruct H1 as (c & Hc & ->).
  apply mbind_inv in H. destruct H as (u2 & s2 & H2 & H). inversion H2; subst u2 s2; clear H2.
  apply usages_same_core in H. set (s2 := set_hashcons _ _) in H.
  assert (Hc2 : get_class s2 id = Ok (with_nodes c (na_set (c_nodes c) sh (bij, src)))).
  { unfold get_class, s2. cbn [classes set_hashcons set_classes]. unfold get_class in Hc.
    destruct (nth_opt (classes s) (N.to_nat id)) eqn:E; [|discriminate].
    erewrite nth_opt_set_nth_eq by eassumption. reflexivity. }
  destruct (same_core_class _ _ _ _ H Hc2) as (c' & Hc' & _ & Hn).
  destruct H as (U & Hh & Hp & Hm).
  split; [|split; [|split]].
  - apply (sem_eq_trans _ s2); [|apply same_core_sem; unfold same_core; auto].
    unfold s2. split; [reflexivity|].
    exact (proj2 (sem_set_class s id c (with_nodes c (na_set (c_nodes c) sh (bij, src))) Hc eq_refl)).
  - rewrite Hh. reflexivity.
  - rewrite Hp. reflexivity.
  - exists c, c'. auto.
Qed.

Lemma raw_remove_obs : forall id sh s p s', raw_remove_from_class id sh s = Ok (p, s') ->
  sem_eq s s' /\ hashcons s' = na_remove (hashcons s) sh /\ pending s' = pending s /\
  exists c c', get_class s id = Ok c /\ get_class s' id = Ok c' /\ c_nodes c' = na_remove (c_nodes c) sh /\
               na_get (c_nodes c) sh = Some p.
Proof.
  intros id sh s p s' H. unfold raw_remove_from_class in H.
  apply bind_reads_inv in H. destruct H as (c & Hc & H).
  apply mbind_inv in H. destruct H as (u1 & s1 & H1 & H). apply upd_class_inv in H1. destruct H1 as (c0 & Hc0 & ->).
  rewrite Hc in Hc0. inversion Hc0; subst c0; clear Hc0.
  apply mbind_inv in H. destruct H as (u2 & s2 & H2 & H). inversion H2; subst u2 s2; clear H2.
  apply mbind_inv in H. destruct H as (u3 & s3 & H3 & H).
  apply usages_same_core in H3. set (s2 := set_hashcons _ _) in H3.
  destruct (na_get (c_nodes c) sh) as [q|] eqn:G; [|discriminate]. inversion H; subst q s3; clear H.
  assert (Hc2 : get_class s2 id = Ok (with_nodes c (na_remove (c_nodes c) sh))).
  { unfold get_class, s2. cbn [classes set_hashcons set_classes]. unfold get_class in Hc.
    destruct (nth_opt (classes s) (N.to_nat id)) eqn:E; [|discriminate].
    erewrite nth_opt_set_nth_eq by eassumption. reflexivity. }
  destruct (same_core_class _ _ _ _ H3 Hc2) as (c' & Hc' & _ & Hn).
  destruct H3 as (U & Hh & Hp & Hm).
  split; [|split; [|split]].
  - apply (sem_eq_trans _ s2); [|apply same_core_sem; unfold same_core; auto].
    unfold s2. split; [reflexivity|].
    exact (proj2 (sem_set_class s id c (with_nodes c (na_remove (c_nodes c) sh)) Hc eq_refl)).
  - rewrite Hh. reflexivity.
  - rewrite Hp. reflexivity.
  - exists c, c'. auto.
Qed.

(* the counter-only steps *)
Definition ctr_only (s s' : egraph) : Prop := exists c, s' = set_ctr s c.
Lemma ctr_only_refl : forall s, ctr_only s s.
Proof. intros s. exists (ectr s). destruct s; reflexivity. Qed.
Lemma ctr_only_trans : forall a b c, ctr_only a b -> ctr_only b c -> ctr_only a c.
Proof. intros a b c [x ->] [y ->]. exists y. reflexivity. Qed.
Lemma with_ctr_only : forall A (f : N -> A * N) s x s', with_ctr f s = Ok (x, s') -> ctr_only s s'.
Proof. intros A f s x s' H. apply with_ctr_spec in H. eexists; eauto. Qed.
Lemma ctr_only_fields : forall s s', ctr_only s s' ->
  unionfind s' = unionfind s /\ classes s' = classes s /\ hashcons s' = hashcons s /\ pending s' = pending s.
Proof. intros s s' [c ->]. repeat split. Qed.
Lemma ctr_only_sem : forall s s', ctr_only s s' -> sem_eq s s'.
Proof. intros s s' [c ->]. apply sem_set_ctr. Qed.
Lemma ctr_only_class : forall s s' i, ctr_only s s' -> get_class s' i = get_class s i.
Proof. intros s s' i [c ->]. reflexivity. Qed.

(* ------------------------------------------------------------------ *)
(* 6. renamings used by the model *)

Definition asm_g (m : slotmap) : bool -> slot -> slot :=
  fun b s => if b then match get m s with Some y => y | None => s end else s.

Lemma apply_slotmap_ren : forall m n n', apply_slotmap false m n = Ok n' -> n' = ren (asm_g m) n.
Proof.
  intros m n n' H. unfold apply_slotmap, apply_slotmap_partial in H. cbn [andb] in H.
  apply trav_res_ren in H. subst n'. apply ren_ext. intros s b _. unfold asm_g, index.
  destruct b; [|reflexivity]. destruct (get m s); reflexivity.
Qed.

Lemma num_out_mod4 : forall l seen x, In x (num_out seen l) -> x mod 4 = 0.
Proof.
  induction l as [|o t IH]; intros seen x H; cbn [num_out In] in H; [contradiction|].
  destruct H as [<-|H]; [|eapply IH; eauto]. unfold code. rewrite N.mul_comm. apply N.mod_mul. lia.
Qed.

Lemma shape_all_occ_mod4 : forall n sh bij, wshape n = Ok (sh, bij) -> forall x, In x (all_occ sh) -> x mod 4 = 0.
Proof.
  intros n sh bij H x Hx. destruct (ws_top _ _ _ H) as (mF & _ & _ & _ & _ & Ho & _). rewrite Ho in Hx.
  eapply num_out_mod4; eauto.
Qed.

Lemma binders_all_occ : forall n b, In b (binders n) -> In b (all_occ n).
Proof.
  intros n b H. apply binders_prv in H. unfold prv_occ in H. rewrite <- flags_all.
  apply in_map_iff in H. destruct H as (p & <- & Hp). apply filter_In in Hp. apply in_map. tauto.
Qed.

Lemma shape_bij_inj : forall n sh bij, wshape n = Ok (sh, bij) ->
  forall k1 k2 v, get bij k1 = Some v -> get bij k2 = Some v -> k1 = k2.
Proof.
  intros n sh bij H k1 k2 v H1 H2. destruct (ws_top _ _ _ H) as (mF & -> & W & _).
  apply get_inverse_sound in H1, H2; try assumption. congruence.
Qed.

Lemma map_get_some : forall (m : slotmap) l l', map (fun k => get m k) l = map Some l' ->
  map (fun k => match get m k with Some y => y | None => k end) l = l'.
Proof.
  induction l as [|x t IH]; intros [|y t'] H; cbn [map] in *; try discriminate; [reflexivity|].
  injection H as H1 H2. rewrite H1. f_equal. apply IH. assumption.
Qed.

(* applying the bijection of a weak shape to the shape gives a node with the same public
   occurrences as the original and the same weak shape *)
Theorem shape_unapply : forall n sh bij nd, wshape n = Ok (sh, bij) -> apply_slotmap false bij sh = Ok nd ->
  (forall x, In x (pub_occ n) -> x mod 4 <> 0) ->
  pub_occ nd = pub_occ n /\ ckeys nd = ckeys n /\ node_equiv sh nd /\ exists bij', wshape nd = Ok (sh, bij').
Proof.
  intros n sh bij nd H Ha Hm. apply apply_slotmap_ren in Ha.
  destruct (shape_bij _ _ _ H) as (B1 & B2 & B3).
  assert (C1 : inj_on (asm_g bij false) (binders sh)) by (intros x y _ _ E; exact E).
  assert (C2 : forall x b, In x (pub_occ sh) -> In b (binders sh) -> asm_g bij true x <> asm_g bij false b).
  { intros x b Hx Hb. unfold asm_g. destruct (get bij x) as [y|] eqn:G; [|apply B2 in Hx; congruence].
    assert (Hy : In y (pub_occ n)) by (apply B1; eauto). apply Hm in Hy.
    apply binders_all_occ in Hb. apply (shape_all_occ_mod4 _ _ _ H) in Hb. congruence. }
  assert (C3 : inj_on (asm_g bij true) (pub_occ sh)).
  { intros x y Hx Hy. unfold asm_g. apply B2 in Hx, Hy.
    destruct (get bij x) as [u|] eqn:Gx; [|congruence]. destruct (get bij y) as [v|] eqn:Gy; [|congruence].
    intros ->. eapply shape_bij_inj; eauto. }
  assert (P : pub_occ nd = pub_occ n).
  { subst nd. rewrite ren_pub_occ by assumption. unfold asm_g. apply map_get_some. assumption. }
  assert (E : node_equiv sh nd) by (subst nd; apply ren_equiv; assumption).
  split; [assumption|]. split.
  - destruct (ws_top _ _ _ H) as (mF & _ & _ & _ & Hs & _). rewrite <- (skel_ckeys _ _ Hs).
    subst nd. apply skel_ckeys. apply ren_skel.
  - split; [assumption|].
    destruct (shape_idempotent _ _ _ H) as [bij2 H2]. destruct (weak_shape_total false nd) as (sh' & bij' & H').
    exists bij'. unfold wshape. rewrite H'. f_equal. f_equal. symmetry. eapply shape_invariant; eauto.
Qed.

(* fresh names for the public slots of a node whose binders are older than the counter *)
Lemma fresh_spec_keys : forall set c bf c' x y, swf set -> bijection_from_fresh_to set c = (bf, c') ->
  get (inv bf) x = Some y -> In x set /\ c <= y < c' /\ y mod 4 = c mod 4.
Proof.
  intros set c bf c' x y W E G. unfold bijection_from_fresh_to in E.
  destruct (bff_go_spec set c [] I (fun k _ => eq_refl)) as [H1 H2]. rewrite E in H1, H2. cbn [fst snd] in *.
  assert (Wb : wf bf). { pose proof (bff_go_wf set c [] I) as Hw. rewrite E in Hw. exact Hw. }
  apply get_inverse_sound in G; [|assumption]. apply H2 in G. destruct G as [G|G]; [discriminate|].
  apply bkeys_range in G. subst c'. tauto.
Qed.

Theorem fresh_rename_spec : forall n c f2o c2, 
  Forall (fun b => b < c) (binders n) ->
  bijection_from_fresh_to (slots n) c = (f2o, c2) ->
  let o2f := inv f2o in
  let r := apply_slotmap_fresh false o2f n c2 in
  snd r = c2 /\ skel (fst r) = skel n /\ binders (fst r) = binders n /\
  slots (fst r) = values o2f /\ node_equiv n (fst r) /\
  (forall x, In x (pub_occ (fst r)) -> c <= x < c2 /\ x mod 4 = c mod 4) /\
  pub_occ (fst r) = map (asm_g o2f true) (pub_occ n).
Proof.
  intros n c f2o c2 Hb E o2f r.
  pose proof (slots_sorted n) as W.
  destruct (fresh_spec _ _ _ _ W E) as (F1 & F2). fold o2f in F1, F2.
  assert (K : forall x, In x (pub_occ n) -> get o2f x <> None).
  { intros x Hx. apply slots_spec in Hx. destruct (F1 x Hx) as (y & -> & _). discriminate. }
  unfold r. rewrite (asf_ren o2f n c2 K). cbn [fst snd]. fold (asm_g o2f).
  assert (C1 : inj_on (asm_g o2f false) (binders n)) by (intros x y _ _ E'; exact E').
  assert (C2 : forall x b, In x (pub_occ n) -> In b (binders n) -> asm_g o2f true x <> asm_g o2f false b).
  { intros x b Hx Hb'. unfold asm_g. apply slots_spec in Hx. destruct (F1 x Hx) as (y & -> & Hy & _).
    pose proof (proj1 (Forall_forall _ _) Hb b Hb'). cbv beta in H. lia. }
  assert (C3 : inj_on (asm_g o2f true) (pub_occ n)).
  { intros x y Hx Hy. unfold asm_g. apply slots_spec in Hx, Hy.
    destruct (F1 x Hx) as (u & Gu & _). destruct (F1 y Hy) as (v & Gv & _). rewrite Gu, Gv. intros ->.
    eapply F2; eauto. }
  split; [reflexivity|]. split; [apply ren_skel|]. split.
  { rewrite ren_binders. unfold asm_g. apply map_id. }
  assert (P : pub_occ (ren (asm_g o2f) n) = map (asm_g o2f true) (pub_occ n)) by (apply ren_pub_occ; assumption).
  split; [|split].
  - unfold slots. rewrite P. apply sset_ext; try apply sset_of_list_spec.
    intros y. unfold values. rewrite !(proj2 (sset_of_list_spec _)). unfold values_vec. rewrite !in_map_iff. split.
    + intros (x & Hy & Hx). apply slots_spec in Hx. unfold asm_g in Hy. destruct (F1 x Hx) as (u & G & _).
      rewrite G in Hy. subst u. exists (x, y). split; [reflexivity|]. apply get_in. assumption.
    + intros ([x y'] & Hy & Hin). cbn [snd] in Hy. subst y'. apply in_get in Hin; [|apply inverse_wf].
      destruct (fresh_spec_keys _ _ _ _ _ _ W E Hin) as (Hx & _). exists x. split; [|apply slots_spec; assumption].
      unfold asm_g. fold o2f in Hin. rewrite Hin. reflexivity.
  - apply ren_equiv; assumption.
  - split; [|exact P]. intros y Hy. rewrite P in Hy. apply in_map_iff in Hy. destruct Hy as (x & <- & Hx).
    apply slots_spec in Hx. unfold asm_g. destruct (F1 x Hx) as (u & -> & Hu). exact Hu.
Qed.

(* ------------------------------------------------------------------ *)
(* 7. handle_pending on the node of a freshly created singleton class of a flat state *)

Lemma sem_eq_lengths : forall s s', sem_eq s s' -> lu s' = lu s /\ lc s' = lc s.
Proof.
  intros s s' [A B]. rewrite A. split; [reflexivity|].
  rewrite <- (map_length csem (classes s')), <- B, map_length. reflexivity.
Qed.

Lemma sflat_sem : forall s s', sflat s -> sem_eq s s' -> sflat s'.
Proof.
  intros s s' F E. pose proof (sem_eq_lengths _ _ E) as [L1 L2]. constructor.
  - unfold eg_wf. rewrite L1, L2. apply (sf_wf s F).
  - intros i c' Hc'. destruct (get_class_sem_ok s' s i c' (sem_eq_sym _ _ E) Hc') as (c & Hc & Cs).
    apply csem_inv in Cs. destruct Cs as (C1 & C2 & C3). destruct (sf_cls s F i c Hc) as (A1 & A2 & A3).
    unfold class_flat. rewrite <- C1, <- C2, <- C3. auto.
  - intros i c' Hc'. destruct (get_class_sem_ok s' s i c' (sem_eq_sym _ _ E) Hc') as (c & Hc & Cs).
    apply csem_inv in Cs. destruct Cs as (C1 & _). destruct E as [<- _]. rewrite <- C1. apply (sf_uf s F i c Hc).
Qed.

Lemma shape_bij_props : forall n sh bij, wshape n = Ok (sh, bij) ->
  wf bij /\ is_bijection bij = true /\ (forall x, In x (pub_occ n) <-> exists k, get bij k = Some x).
Proof.
  intros n sh bij H. assert (W : wf bij).
  { destruct (ws_top _ _ _ H) as (mF & -> & _). apply inverse_wf. }
  split; [assumption|]. split.
  - apply is_bijection_injective; [assumption|]. intros k1 k2 v. apply (shape_bij_inj _ _ _ H).
  - intros x. symmetry. apply (shape_bij _ _ _ H).
Qed.

Lemma asm_g_identity : forall sl b s, asm_g (identity sl) b s = s.
Proof.
  intros sl b s. unfold asm_g. destruct b; [|reflexivity]. rewrite get_identity.
  destruct (sset_mem s sl); reflexivity.
Qed.

Lemma apply_identity : forall sl n n', apply_slotmap false (identity sl) n = Ok n' -> n' = n.
Proof.
  intros sl n n' H. apply apply_slotmap_ren in H. subst n'. apply ren_id. intros; apply asm_g_identity.
Qed.

Lemma pc_from_src_flat : forall s i c r, sflat s -> get_class s i = Ok c -> kids_sub s (c_syn c) ->
  pc_from_src_id s i = Ok r -> r = (c_syn c, {| aid := i; am := identity (c_slots c) |}).
Proof.
  intros s i c r F Hc K H. unfold pc_from_src_id in H. rewrite Hc in H. cbn [bind aid am] in H.
  destruct (sf_cls s F i c Hc) as (W & G & S). rewrite S in H.
  destruct (apply_slotmap false (identity (c_slots c)) (c_syn c)) as [n0|] eqn:A; cbn [bind] in H; [|discriminate].
  apply apply_identity in A. subst n0.
  destruct (pre_shape s (c_syn c)) as [nd|] eqn:P; cbn [bind] in H; [|discriminate].
  apply (flat_pre_shape s _ nd F K) in P. subst nd.
  rewrite (flat_find s {| aid := i; am := identity (c_slots c) |} c F Hc) in H. cbn [bind aid am] in H.
  rewrite identity_idem in H. inversion H. reflexivity.
Qed.

Lemma compose_fresh_bij_id : forall n sh bij c x, wshape n = Ok (sh, bij) -> In x (pub_occ n) ->
  get (fst (compose_fresh (inv bij) bij c)) x = Some x.
Proof.
  intros n sh bij c x H Hx. destruct (shape_bij_props _ _ _ H) as (W & B & P).
  apply P in Hx. destruct Hx as [k Hk].
  pose proof (compose_fresh_spec (inv bij) bij c x (inverse_wf bij)) as (_ & _ & T).
  rewrite (proj2 (get_inverse bij x k W B) Hk), Hk in T. exact T.
Qed.

Lemma compose_fresh_identity : forall sl m c, (forall x, In x sl -> get m x = Some x) ->
  fst (compose_fresh (identity sl) m c) = identity sl.
Proof.
  intros sl m c H. apply ext_eq.
  - apply (compose_fresh_spec (identity sl) m c 0 (identity_wf sl)).
  - apply identity_wf.
  - intros k. pose proof (compose_fresh_spec (identity sl) m c k (identity_wf sl)) as (_ & _ & T).
    rewrite get_identity in *. destruct (sset_mem k sl) eqn:E; [|assumption].
    apply sset_mem_in in E. rewrite (H k E) in T. assumption.
Qed.

Lemma union_internal_S : forall f l r, union_internal (S f) l r = union_internal_body (union_internal f) l r.
Proof. reflexivity. Qed.

Lemma uint_refl : forall s i c, sflat s -> get_class s i = Ok c ->
  uint {| aid := i; am := identity (c_slots c) |} {| aid := i; am := identity (c_slots c) |} s = Ok (false, s).
Proof.
  intros s i c F Hc. unfold uint, ui_fuel. rewrite (union_internal_S 399).
  unfold union_internal_body, mbind, reads.
  rewrite (flat_find s {| aid := i; am := identity (c_slots c) |} c F Hc). cbn [aid am]. rewrite identity_idem.
  rewrite (flat_find s {| aid := i; am := identity (c_slots c) |} c F Hc). cbn [aid am]. rewrite identity_idem.
  unfold union_leaders, mbind, reads.
  rewrite (eg_eq_refl_inv s _ (sflat_uf_ok s F) (sflat_uf_slots_ok s F)); [reflexivity|].
  exists c. cbn [aid am]. split; [assumption|]. split; [apply pid_injective, pid_identity|].
  intros k Hk. rewrite get_identity. apply sset_mem_in in Hk. rewrite Hk. discriminate.
Qed.

Lemma inverse_identity : forall sl, inv (identity sl) = identity sl.
Proof.
  intros sl. assert (B : is_bijection (identity sl) = true).
  { apply is_bijection_injective; [apply identity_wf|]. apply pid_injective, pid_identity. }
  apply map_eq_some; [apply inverse_wf|apply identity_wf|].
  intros k v. rewrite (get_inverse _ k v (identity_wf sl) B). split; intros H.
  - destruct (pid_identity_get _ _ _ H) as [-> Hin]. assumption.
  - destruct (pid_identity_get _ _ _ H) as [-> Hin]. assumption.
Qed.

Lemma compose_identity_r : forall a sl, wf a -> (forall k v, get a k = Some v -> In v sl) -> a ** identity sl = a.
Proof.
  intros a sl W H. apply ext_eq; [apply compose_partial_wf|assumption|].
  intros k. rewrite get_compose_partial by assumption. destruct (get a k) as [v|] eqn:G; [|reflexivity].
  rewrite get_identity. apply H in G. apply sset_mem_in in G. rewrite G. reflexivity.
Qed.

Lemma lift_inv : forall A (r : res A) s x s', Model.lift r s = Ok (x, s') -> r = Ok x /\ s' = s.
Proof. intros A r s x s' H. unfold Model.lift in H. destruct r; inversion H. auto. Qed.

Lemma hp_singleton : forall s i sh bij ci x s',
  sflat s -> pending s = [] -> na_nodup (hashcons s) ->
  get_class s i = Ok ci ->
  na_get (c_nodes ci) sh = Some (bij, i) ->
  na_get (hashcons s) sh = Some i ->
  wshape (c_syn ci) = Ok (sh, bij) ->
  kids_sub s (c_syn ci) ->
  (forall x, In x (pub_occ (c_syn ci)) -> x mod 4 <> 0) ->
  handle_pending sh true s = Ok (x, s') ->
  sem_eq s s' /\ pending s' = [] /\
  hashcons s' = na_set (na_remove (hashcons s) sh) sh i /\
  exists c' nd b2, get_class s' i = Ok c' /\ c_nodes c' = na_set (na_remove (c_nodes ci) sh) sh (b2, i) /\
                  apply_slotmap false bij sh = Ok nd /\ wshape nd = Ok (sh, b2).
Proof.
  intros s i sh bij ci x s' F Pe Nd Hci Hn Hh Hw Hk Hm H.
  destruct (sf_cls s F i ci Hci) as (WF & HG & HS).
  unfold handle_pending in H.
  apply bind_reads_inv in H. destruct H as (i0 & Hi0 & H). rewrite Hh in Hi0. inversion Hi0; subst i0; clear Hi0.
  cbn [negb] in H.
  apply bind_reads_inv in H. destruct H as (c0 & Hc0 & H). rewrite Hci in Hc0. inversion Hc0; subst c0; clear Hc0.
  apply mbind_inv in H. destruct H as (psn & s1 & H1 & H). apply lift_inv in H1. destruct H1 as [H1 ->].
  rewrite Hn in H1. inversion H1; subst psn; clear H1.
  apply mbind_inv in H. destruct H as (nd & s1 & H1 & H). apply lift_inv in H1. destruct H1 as [Hnd ->].
  destruct (shape_unapply _ _ _ _ Hw Hnd Hm) as (Pnd & Knd & Eq & bij' & Wnd).
  apply mbind_inv in H. destruct H as (rm & s2 & H2 & H). apply raw_remove_obs in H2.
  destruct H2 as (E2 & Hh2 & Hp2 & c & c2 & Hc & Hc2 & Hn2 & _).
  rewrite Hci in Hc. inversion Hc; subst c; clear Hc.
  pose proof (sflat_sem _ _ F E2) as F2.
  assert (K2 : kids_sub s2 nd) by (apply (kids_sub_transport s s2 (c_syn ci) nd E2); [symmetry; assumption|assumption]).
  destruct (get_class_sem_ok s s2 i ci E2 Hci) as (c2' & Hc2' & Cs2). rewrite Hc2 in Hc2'. inversion Hc2'; subst c2'; clear Hc2'.
  apply csem_inv in Cs2. destruct Cs2 as (Cs2a & Cs2b & Cs2c).
  apply bind_reads_inv in H. destruct H as (sl & Hsl & H).
  unfold class_slots in Hsl. rewrite Hc2 in Hsl. cbn [bind] in Hsl. inversion Hsl; subst sl; clear Hsl.
  apply bind_reads_inv in H. destruct H as (enode & Hen & H).
  rewrite (flat_find_enode_fixed s2 nd F2 K2) in Hen. inversion Hen; subst enode; clear Hen.
  apply bind_reads_inv in H. destruct H as (i1 & Hi1 & H).
  rewrite (flat_find s2 {| aid := i; am := identity (c_slots c2) |} c2 F2 Hc2) in Hi1. cbn [aid am] in Hi1.
  rewrite identity_idem in Hi1. inversion Hi1; subst i1; clear Hi1.
  apply mbind_inv in H. destruct H as (ei & s3 & H3 & H).
  assert (Sub : sset_subset (values (identity (c_slots c2))) (slots nd) = true).
  { rewrite Cs2a. rewrite values_identity by assumption. unfold slots. rewrite Pnd. fold (slots (c_syn ci)).
    rewrite HS. apply sset_subset_refl. }
  cbn [hp_loop am] in H3. rewrite Sub in H3. inversion H3; subst ei s3; clear H3.
  apply bind_reads_inv in H. destruct H as (t & Ht & H).
  apply (flat_shape s2 nd t F2 K2) in Ht. rewrite Wnd in Ht. inversion Ht; subst t; clear Ht.
  apply bind_reads_inv in H. destruct H as (lk & Hlk & H).
  assert (Hl : lk = None).
  { unfold lookup_internal in Hlk. rewrite Hh2, (na_get_remove_same _ _ Nd) in Hlk. inversion Hlk. reflexivity. }
  subst lk.
  apply mbind_inv in H. destruct H as (m & s3 & H3 & H).
  change (fill_fresh (values bij') (inv (am {| aid := i; am := identity (c_slots c2) |})) s2 = Ok (m, s3)) in H3.
  cbn [am] in H3. rewrite inverse_identity in H3.
  destruct (shape_bij_props _ _ _ Wnd) as (Wb' & Bb' & Pb').
  assert (Vb' : forall k v, get bij' k = Some v -> In v (c_slots c2)).
  { intros k v G. rewrite Cs2a, <- HS. apply slots_spec. rewrite <- Pnd. apply Pb'. eauto. }
  rewrite fill_fresh_noop in H3.
  2:{ intros v Hv. apply values_spec in Hv; [|assumption]. destruct Hv as [k G]. apply Vb' in G.
      rewrite get_identity. apply sset_mem_in in G. rewrite G. discriminate. }
  inversion H3; subst m s3; clear H3.
  rewrite (compose_identity_r bij' (c_slots c2) Wb' Vb') in H.
  apply mbind_inv in H. destruct H as (u4 & s4 & H4 & H). cbn [aid] in H4. apply raw_add_obs in H4.
  destruct H4 as (E24 & Hh4 & Hp4 & c3 & c4 & Hc3 & Hc4 & Hn4).
  rewrite Hc2 in Hc3. inversion Hc3; subst c3; clear Hc3.
  pose proof (sflat_sem _ _ F2 E24) as F4.
  destruct (get_class_sem_ok s2 s4 i c2 E24 Hc2) as (c4' & Hc4' & Cs4). rewrite Hc4 in Hc4'. inversion Hc4'; subst c4'; clear Hc4'.
  apply csem_inv in Cs4. destruct Cs4 as (Cs4a & Cs4b & Cs4c).
  assert (K4 : kids_sub s4 (c_syn c4)).
  { rewrite Cs4c, Cs2c. apply (kids_sub_transport s s4 (c_syn ci) (c_syn ci)); [|reflexivity|assumption].
    eapply sem_eq_trans; eauto. }
  (* determine_self_symmetries *)
  unfold determine_self_symmetries in H.
  apply bind_reads_inv in H. destruct H as (pc1 & Hpc & H).
  apply (pc_from_src_flat s4 i c4 pc1 F4 Hc4 K4) in Hpc. subst pc1. cbn [fst snd] in H.
  apply mbind_inv in H. destruct H as (w & s5 & H5 & H). apply lift_inv in H5. destruct H5 as [H5 ->].
  rewrite Cs4c, Cs2c, Hw in H5. inversion H5; subst w; clear H5. cbn [fst] in H.
  apply bind_reads_inv in H. destruct H as (vs & Hvs & H).
  apply (flat_variants s4 _ vs F4) in Hvs. subst vs. cbn [iterM] in H.
  apply mbind_inv in H. destruct H as (u6 & s6 & H6 & H). unfold ret in H. injection H as _ Hs6. subst s6.
  apply mbind_inv in H6. destruct H6 as (w2 & s5 & H5 & H). apply lift_inv in H5. destruct H5 as [H5 ->].
  rewrite Cs4c, Cs2c, Hw in H5. inversion H5; subst w2; clear H5. cbn [fst] in H.
  rewrite node_eqb_refl in H.
  apply mbind_inv in H. destruct H as (ab & s5 & H5 & H).
  (* pc_congruence: only the counter changes, and both sides are the identity invocation *)
  unfold pc_congruence in H5. cbn [fst snd] in H5.
  apply mbind_inv in H5. destruct H5 as (sa & s6 & H6 & H5). apply lift_inv in H6. destruct H6 as [H6 ->].
  rewrite Cs4c, Cs2c, Hw in H6. inversion H6; subst sa; clear H6.
  apply mbind_inv in H5. destruct H5 as (sb & s6 & H6 & H5). apply lift_inv in H6. destruct H6 as [H6 ->].
  rewrite Cs4c, Cs2c, Hw in H6. inversion H6; subst sb; clear H6. cbn [fst snd] in H5.
  apply mbind_inv in H5. destruct H5 as (m1 & s6 & H6 & H5). pose proof (with_ctr_only _ _ _ _ _ H6) as O6.
  unfold with_ctr in H6. destruct (compose_fresh (inv bij) bij (ectr s4)) as [m1' k1] eqn:CF1. inversion H6; subst m1' s6; clear H6.
  apply mbind_inv in H5. destruct H5 as (u7 & s7 & H7 & H5). pose proof (with_ctr_only _ _ _ _ _ H7) as O7. clear H7.
  apply mbind_inv in H5. destruct H5 as (bm & s8 & H8 & H5). pose proof (with_ctr_only _ _ _ _ _ H8) as O8.
  unfold with_ctr in H8. cbn [am] in H8.
  destruct (compose_fresh (identity (c_slots c4)) m1 (ectr s7)) as [bm' k2] eqn:CF2. inversion H8; subst bm' s8; clear H8.
  inversion H5; subst ab s5; clear H5. cbn [fst snd aid] in H.
  assert (Hbm : bm = identity (c_slots c4)).
  { replace bm with (fst (compose_fresh (identity (c_slots c4)) m1 (ectr s7))) by (rewrite CF2; reflexivity).
    apply compose_fresh_identity. intros y Hy. replace m1 with (fst (compose_fresh (inv bij) bij (ectr s4))) by (rewrite CF1; reflexivity).
    apply (compose_fresh_bij_id _ _ _ _ _ Hw). apply slots_spec. rewrite HS, <- Cs2a, <- Cs4a. assumption. }
  subst bm.
  set (s8 := set_ctr s7 k2) in *.
  assert (O48 : ctr_only s4 s8) by (eapply ctr_only_trans; [exact O6|eapply ctr_only_trans; [exact O7|exact O8]]).
  pose proof (sflat_sem _ _ F4 (ctr_only_sem _ _ O48)) as F8.
  assert (Hc8 : get_class s8 i = Ok c4) by (rewrite (ctr_only_class _ _ _ O48); assumption).
  apply mbind_inv in H. destruct H as (b9 & s9 & H9 & H). rewrite (uint_refl s8 i c4 F8 Hc8) in H9.
  inversion H9; subst b9 s9; clear H9. inversion H; subst s'; clear H.
  destruct (ctr_only_fields _ _ O48) as (U8 & C8 & HH8 & P8).
  split; [|split; [|split]].
  - eapply sem_eq_trans; [exact E2|]. eapply sem_eq_trans; [exact E24|]. apply ctr_only_sem. assumption.
  - rewrite P8, Hp4, Hp2. assumption.
  - rewrite HH8, Hh4, Hh2. reflexivity.
  - exists c4, nd, bij'. split; [exact Hc8|]. split; [rewrite Hn4, Hn2; reflexivity|]. auto.
Qed.

(* ------------------------------------------------------------------ *)
(* 8. adding an unknown node to a flat state *)

Lemma rebuild_S : forall f, rebuild (S f) =
  (dom p <- gets pending;
   match p with
   | [] => ret tt
   | (sh, ty) :: rest =>
       dom _ <- modify (fun s => set_pending s rest);
       dom _ <- handle_pending sh ty;
       rebuild f
   end).
Proof. reflexivity. Qed.

Lemma alloc_eclass_exact : forall sl syn s i s', alloc_eclass sl syn s = Ok (i, s') ->
  i = N.of_nat (lu s) /\
  unionfind s' = unionfind s ++ [{| aid := i; am := identity (slots syn) |}] /\
  classes s' = classes s ++ [{| c_nodes := []; c_slots := sl; c_usages := [];
                                c_group := Grp (identity sl) None; c_syn := syn |}] /\
  hashcons s' = hashcons s /\ pending s' = pending s /\ ectr s' = ectr s.
Proof.
  intros sl syn s i s' H. unfold alloc_eclass in H.
  apply mbind_inv in H. destruct H as (i0 & s1 & H1 & H). inversion H1; subst i0 s1; clear H1.
  apply mbind_inv in H. destruct H as (g & s1 & H1 & H). apply lift_inv in H1. destruct H1 as [H1 ->].
  change (Ok (Grp (identity sl) None) = Ok g) in H1. inversion H1; subst g; clear H1.
  apply mbind_inv in H. destruct H as (u & s1 & H1 & H). inversion H1; subst u s1; clear H1.
  apply mbind_inv in H. destruct H as (u & s1 & H1 & H). inversion H; subst i s1; clear H.
  unfold unionfind_set in H1. cbn [unionfind set_classes] in H1. rewrite Nat2N.id, Nat.eqb_refl in H1.
  inversion H1; subst s'. cbn [unionfind classes hashcons pending ctr set_uf set_classes]. repeat split.
Qed.

Section Extend.
  Variables (s s' : egraph) (cn : eclass).
  Hypothesis Hcl : classes s' = classes s ++ [cn].

  Lemma get_class_ext_old : forall j c, get_class s j = Ok c -> get_class s' j = Ok c.
  Proof.
    intros j c H. unfold get_class in *. rewrite Hcl.
    destruct (nth_opt (classes s) (N.to_nat j)) eqn:E; [|discriminate].
    rewrite nth_opt_app1 by (eapply nth_opt_Some_lt; eauto). rewrite E. assumption.
  Qed.

  Lemma get_class_ext_new : get_class s' (N.of_nat (lc s)) = Ok cn.
  Proof. unfold get_class. rewrite Hcl, Nat2N.id, nth_opt_app_last. reflexivity. Qed.

  Lemma get_class_ext_inv : forall j c, get_class s' j = Ok c ->
    get_class s j = Ok c \/ (j = N.of_nat (lc s) /\ c = cn).
  Proof.
    intros j c H. unfold get_class in *. rewrite Hcl in H.
    destruct (Nat.lt_trichotomy (N.to_nat j) (lc s)) as [L|[L|L]].
    - left. rewrite nth_opt_app1 in H by assumption. assumption.
    - right. rewrite L, nth_opt_app_last in H. inversion H. split; [lia|reflexivity].
    - rewrite nth_opt_none_ge in H by (rewrite app_length; cbn; lia). discriminate.
  Qed.

  Lemma kid_sub_ext : forall a, kid_sub s a -> kid_sub s' a.
  Proof. intros a (c & Hc & W & K). exists c. split; [apply get_class_ext_old; assumption|auto]. Qed.

  Hypothesis Huf : unionfind s' = unionfind s ++ [{| aid := N.of_nat (lu s); am := identity (c_slots cn) |}].

  Lemma sflat_ext : sflat s -> class_flat cn -> sflat s'.
  Proof.
    intros F Cn. pose proof (sf_wf s F) as W. unfold eg_wf in W. constructor.
    - unfold eg_wf. rewrite Huf, Hcl, !app_length. cbn. lia.
    - intros j c H. apply get_class_ext_inv in H. destruct H as [H|[_ ->]]; [eapply sf_cls; eauto|assumption].
    - intros j c H. apply get_class_ext_inv in H. unfold uentry. rewrite Huf. destruct H as [H|[-> ->]].
      + pose proof (get_class_lt _ _ _ H) as L. rewrite nth_opt_app1 by lia. apply (sf_uf s F j c H).
      + rewrite <- W, Nat2N.id, nth_opt_app_last. reflexivity.
  Qed.
End Extend.

(* synify: only adds keys that are syntactic slots of the class *)
Definition kid_full (s : egraph) (a : appid) : Prop :=
  exists c, get_class s (aid a) = Ok c /\ forall k, In k (c_slots c) -> get (am a) k <> None.

Lemma synify_app_id_spec : forall s a a' s', sflat s -> kid_sub s a -> synify_app_id a s = Ok (a', s') ->
  ctr_only s s' /\ kid_sub s a' /\ (kid_full s a -> a' = a).
Proof.
  intros s [i m] a' s' F (c & Hc & W & K) H. cbn [aid am] in *. unfold synify_app_id in H. cbn [aid am] in H.
  apply bind_reads_inv in H. destruct H as (ss & Hss & H).
  unfold syn_slots in Hss. rewrite Hc in Hss. cbn [bind] in Hss. inversion Hss; subst ss; clear Hss.
  destruct (sf_cls s F i c Hc) as (_ & _ & S). rewrite S in H.
  apply mbind_inv in H. destruct H as (m' & s1 & H1 & H). inversion H; subst a' s1; clear H.
  change (fill_fresh (c_slots c) m s = Ok (m', s')) in H1.
  split; [|split].
  - apply fill_fresh_spec in H1; [|assumption]. destruct H1 as (_ & _ & _ & X). exact X.
  - pose proof (fill_fresh_spec _ _ _ _ _ W H1) as (W' & K' & _ & _).
    exists c. cbn [aid am]. split; [assumption|]. split; [assumption|].
    intros k Hk. destruct (K' k Hk); auto.
  - intros (c2 & Hc2 & Full). cbn [aid am] in *. rewrite Hc in Hc2. inversion Hc2; subst c2.
    rewrite (fill_fresh_noop _ _ _ Full) in H1. inversion H1. reflexivity.
Qed.

Lemma mapM_synify : forall l s r s', sflat s -> Forall (kid_sub s) l -> mapM synify_app_id l s = Ok (r, s') ->
  ctr_only s s' /\ Forall (kid_sub s) r /\ List.length r = List.length l /\ (Forall (kid_full s) l -> r = l).
Proof.
  induction l as [|a t IH]; intros s r s' F K H; cbn [mapM] in H.
  - inversion H; subst. split; [apply ctr_only_refl|]. auto.
  - apply mbind_inv in H. destruct H as (a' & s1 & H1 & H).
    apply mbind_inv in H. destruct H as (r' & s2 & H2 & H). inversion H; subst r s2; clear H.
    inversion K as [|? ? Ka Kt]; subst.
    destruct (synify_app_id_spec _ _ _ _ F Ka H1) as (O1 & Ka' & E1).
    assert (F1 : sflat s1) by (eapply sflat_sem; [exact F|apply ctr_only_sem; assumption]).
    assert (T : forall b, kid_sub s b <-> kid_sub s1 b).
    { intros b. unfold kid_sub. rewrite (ctr_only_class _ _ (aid b) O1). tauto. }
    assert (Kt1 : Forall (kid_sub s1) t) by (revert Kt; apply Forall_impl; intros b; apply T).
    destruct (IH _ _ _ F1 Kt1 H2) as (O2 & Kr & L & E2).
    split; [eapply ctr_only_trans; eauto|]. split; [|split].
    + constructor; [assumption|]. revert Kr. apply Forall_impl. intros b; apply T.
    + cbn. rewrite L. reflexivity.
    + intros Fu. inversion Fu as [|? ? Fa Ft]; subst. rewrite (E1 Fa). f_equal. apply E2.
      revert Ft. apply Forall_impl. intros b (cb & Hcb & X). exists cb.
      rewrite (ctr_only_class _ _ (aid b) O1). auto.
Qed.

Definition kids_full (s : egraph) (n : node) : Prop := Forall (kid_full s) (app_occ n).

Lemma synify_enode_spec : forall s n n' s', sflat s -> kids_sub s n -> synify_enode n s = Ok (n', s') ->
  ctr_only s s' /\ kids_sub s n' /\ binders n' = binders n /\ (kids_full s n -> n' = n).
Proof.
  intros s n n' s' F K H. unfold synify_enode in H.
  apply mbind_inv in H. destruct H as (l & s1 & H1 & H). inversion H; subst n' s1; clear H.
  destruct (mapM_synify _ _ _ _ F K H1) as (O & Kl & L & E).
  split; [assumption|]. split; [|split].
  - unfold kids_sub. rewrite app_occ_set_apps by assumption. assumption.
  - apply binders_set_apps. assumption.
  - intros Fu. rewrite (E Fu). apply set_apps_self.
Qed.

Lemma mk_singleton_flat : forall s en3 syn s',
  sflat s -> pending s = [] -> na_nodup (hashcons s) -> ectr s mod 4 = 1 ->
  kids_sub s en3 -> Forall (fun b => b < ectr s) (binders en3) ->
  mk_singleton_class en3 s = Ok (syn, s') ->
  aid syn = N.of_nat (lu s) /\ sflat s' /\ pending s' = [] /\ na_nodup (hashcons s') /\
  (forall j c, get_class s j = Ok c -> exists c', get_class s' j = Ok c' /\ csem c' = csem c) /\
  lu s' = S (lu s) /\
  exists sh bij syn_fresh c' b2,
    node_equiv en3 syn_fresh /\ wshape syn_fresh = Ok (sh, bij) /\
    hashcons s' = na_set (na_remove (na_set (hashcons s) sh (N.of_nat (lu s))) sh) sh (N.of_nat (lu s)) /\
    get_class s' (N.of_nat (lu s)) = Ok c' /\ na_get (c_nodes c') sh = Some (b2, N.of_nat (lu s)) /\
    (* the data that determines the invocation returned by a later lookup *)
    exists c2 nd,
      bijection_from_fresh_to (slots en3) (ectr s) = (am syn, c2) /\
      pub_occ syn_fresh = map (asm_g (inv (am syn)) true) (pub_occ en3) /\
      c_slots c' = values (inv (am syn)) /\
      apply_slotmap false bij sh = Ok nd /\ wshape nd = Ok (sh, b2) /\ pub_occ nd = pub_occ syn_fresh.
Proof.
  intros s en3 syn s' F Pe Nd Cm K Hb H. unfold mk_singleton_class in H.
  apply mbind_inv in H. destruct H as (f2o & s1 & H1 & H).
  unfold with_ctr in H1. destruct (bijection_from_fresh_to (slots en3) (ectr s)) as [f2o' c2] eqn:BF.
  inversion H1; subst f2o' s1; clear H1.
  apply mbind_inv in H. destruct H as (syn_fresh0 & s2 & H2 & H).
  unfold with_ctr in H2. cbn [Model.ctr set_ctr] in H2.
  pose proof (fresh_rename_spec en3 (ectr s) f2o c2 Hb BF) as R. cbv zeta in R.
  destruct (apply_slotmap_fresh false (inv f2o) en3 c2) as [syn_fresh c3] eqn:ASF. cbn [fst snd] in R.
  destruct R as (-> & Rsk & Rbi & Rsl & Req & Rpub & Rpo).
  injection H2 as E1 E2. subst syn_fresh0 s2.
  set (s2 := set_ctr (set_ctr s c2) c2) in *.
  assert (O2 : ctr_only s s2) by (exists c2; reflexivity).
  apply mbind_inv in H. destruct H as (i & s3 & H3 & H). apply alloc_eclass_exact in H3.
  destruct H3 as (Hi & U3 & C3 & HH3 & P3 & _).
  change (lu s2) with (lu s) in Hi. change (unionfind s2) with (unionfind s) in U3.
  change (classes s2) with (classes s) in C3. change (hashcons s2) with (hashcons s) in HH3.
  change (pending s2) with (pending s) in P3.
  set (cn := {| c_nodes := []; c_slots := values (inv f2o); c_usages := []; c_group := Grp (identity (values (inv f2o))) None;
                c_syn := syn_fresh |}) in *.
  assert (Cn : class_flat cn).
  { unfold class_flat, cn. cbn [c_slots c_group c_syn]. split; [apply sset_of_list_spec|]. auto. }
  assert (U3' : unionfind s3 = unionfind s ++ [{| aid := N.of_nat (lu s); am := identity (c_slots cn) |}]).
  { rewrite U3, Hi. unfold cn. cbn [c_slots]. rewrite Rsl. reflexivity. }
  pose proof (sflat_ext s s3 cn C3 U3' F Cn) as F3.
  pose proof (sf_wf s F) as Wf. unfold eg_wf in Wf.
  assert (Hc3 : get_class s3 i = Ok cn) by (rewrite Hi, Wf; apply (get_class_ext_new s s3 cn C3)).
  apply mbind_inv in H. destruct H as (t' & s4 & H4 & H). apply lift_inv in H4. destruct H4 as [Hw ->].
  destruct t' as [sh bij]. cbn [fst] in H.
  apply mbind_inv in H. destruct H as (u5 & s5 & H5 & H). apply raw_add_obs in H5.
  destruct H5 as (E5 & HH5 & P5 & c3 & c5 & Hc3' & Hc5 & N5).
  rewrite Hc3 in Hc3'. inversion Hc3'; subst c3; clear Hc3'. cbn [c_nodes cn na_set] in N5.
  apply mbind_inv in H. destruct H as (u6 & s6 & H6 & H). inversion H6; subst u6 s6; clear H6.
  apply mbind_inv in H. destruct H as (u7 & s7 & H7 & H). inversion H; subst syn s7; clear H.
  unfold rebuild_fuel in H7. rewrite (rebuild_S 1999) in H7.
  apply mbind_inv in H7. destruct H7 as (p & s6 & H6 & H). inversion H6; subst p s6; clear H6.
  cbn [pending set_pending] in H. rewrite P5, P3, Pe in H. cbn [na_set] in H.
  apply mbind_inv in H. destruct H as (u8 & s8 & H8 & H). inversion H8; subst u8 s8; clear H8.
  apply mbind_inv in H. destruct H as (u9 & s9 & H9 & H).
  set (s8 := set_pending (set_pending s5 [(sh, true)]) []) in *.
  assert (E58 : sem_eq s5 s8) by (split; reflexivity).
  assert (E38 : sem_eq s3 s8) by (eapply sem_eq_trans; eauto).
  pose proof (sflat_sem _ _ F3 E38) as F8.
  assert (Hc8 : get_class s8 i = Ok c5) by exact Hc5.
  destruct (get_class_sem_ok s3 s5 i cn E5 Hc3) as (c5' & Hc5' & Cs5). rewrite Hc5 in Hc5'. inversion Hc5'; subst c5'; clear Hc5'.
  apply csem_inv in Cs5. destruct Cs5 as (Cs5a & Cs5b & Cs5c). cbn [cn c_slots c_group c_syn] in Cs5a, Cs5b, Cs5c.
  assert (K3 : kids_sub s3 syn_fresh).
  { apply (kids_sub_transport s3 s3 en3 syn_fresh (sem_eq_refl _)); [apply skel_ckeys; symmetry; assumption|].
    revert K. apply Forall_impl. apply (kid_sub_ext s s3 cn C3). }
  assert (K8 : kids_sub s8 (c_syn c5)).
  { rewrite Cs5c. apply (kids_sub_transport s3 s8 syn_fresh syn_fresh E38 eq_refl K3). }
  assert (Hm : forall x, In x (pub_occ (c_syn c5)) -> x mod 4 <> 0).
  { rewrite Cs5c. intros x Hx. destruct (Rpub x Hx) as (_ & M). rewrite Cm in M. lia. }
  assert (Nd8 : na_nodup (hashcons s8)).
  { change (hashcons s8) with (hashcons s5). rewrite HH5. apply na_nodup_set. rewrite HH3. assumption. }
  assert (Hn8 : na_get (c_nodes c5) sh = Some (bij, i)).
  { rewrite N5. cbn [na_get]. rewrite node_eqb_refl. reflexivity. }
  assert (Hh8 : na_get (hashcons s8) sh = Some i).
  { change (hashcons s8) with (hashcons s5). rewrite HH5. apply na_get_set_same. }
  assert (Hw8 : wshape (c_syn c5) = Ok (sh, bij)) by (rewrite Cs5c; assumption).
  destruct (hp_singleton s8 i sh bij c5 u9 s9 F8 eq_refl Nd8 Hc8 Hn8 Hh8 Hw8 K8 Hm H9)
    as (E9 & P9 & HH9 & c9 & nd & b9 & Hc9 & N9 & And & Wnd).
  rewrite (rebuild_S 1998) in H. apply mbind_inv in H. destruct H as (p & s10 & H10 & H).
  inversion H10; subst p s10; clear H10. rewrite P9 in H. inversion H; subst s'; clear H.
  assert (E39 : sem_eq s3 s9) by (eapply sem_eq_trans; eauto).
  split; [cbn [aid]; assumption|]. split; [eapply sflat_sem; eauto|]. split; [assumption|]. split.
  { rewrite HH9. apply na_nodup_set. apply na_nodup_remove. assumption. }
  split.
  { intros j c Hc. apply (get_class_ext_old s s3 cn C3) in Hc. eapply get_class_sem_ok; eauto. }
  split.
  { destruct (sem_eq_lengths _ _ E39) as [L _]. rewrite L, U3, app_length. cbn. lia. }
  exists sh, bij, syn_fresh, c9, b9. split; [assumption|]. split; [assumption|]. rewrite <- Hi. split; [|split; [|split]].
  - rewrite HH9. change (hashcons s8) with (hashcons s5). rewrite HH5, HH3. reflexivity.
  - assumption.
  - rewrite N9. apply na_get_set_same.
  - exists c2, nd. cbn [am]. split; [reflexivity|]. split; [assumption|]. split.
    + destruct (get_class_sem_ok s8 s9 i c5 E9 Hc8) as (c9' & Hc9' & Cs9). rewrite Hc9 in Hc9'. inversion Hc9'; subst c9'.
      apply csem_inv in Cs9. destruct Cs9 as (-> & _). assumption.
    + split; [assumption|]. split; [assumption|].
      assert (Hm' : forall x, In x (pub_occ syn_fresh) -> x mod 4 <> 0) by (rewrite <- Cs5c; exact Hm).
      apply (shape_unapply _ _ _ _ Hw And Hm').
Qed.

Definition kid_full_k (s : egraph) (p : N * list slot) : Prop :=
  exists c, get_class s (fst p) = Ok c /\ incl (c_slots c) (snd p).

Lemma kids_full_ckeys : forall s n, kids_full s n <-> Forall (kid_full_k s) (ckeys n).
Proof.
  intros s n. unfold kids_full, ckeys. rewrite Forall_map.
  split; apply Forall_impl; intros a (c & Hc & K); exists c; cbn [fst snd] in *; (split; [assumption|]).
  - intros k Hk. apply get_in_keys. apply K. assumption.
  - intros k Hk. apply get_in_keys. apply K. assumption.
Qed.

Lemma kids_full_transport : forall s s' n n', sem_eq s s' -> ckeys n = ckeys n' -> kids_full s n -> kids_full s' n'.
Proof.
  intros s s' n n' E K H. apply kids_full_ckeys. rewrite <- K. apply kids_full_ckeys in H.
  revert H. apply Forall_impl. intros p (c & Hc & I).
  destruct (get_class_sem_ok s s' _ c E Hc) as (c' & Hc' & Cs). apply csem_inv in Cs. destruct Cs as (Cs & _).
  exists c'. rewrite Cs. auto.
Qed.

Lemma pub_occ_all_occ : forall n x, In x (pub_occ n) -> In x (all_occ n).
Proof.
  intros n x H. rewrite <- flags_pub in H. rewrite <- flags_all.
  apply in_map_iff in H. destruct H as (p & <- & Hp). apply filter_In in Hp. apply in_map. tauto.
Qed.

Lemma ws_skel : forall n sh bij, wshape n = Ok (sh, bij) -> skel sh = skel n.
Proof. intros n sh bij H. destruct (ws_top _ _ _ H) as (mF & _ & _ & _ & Hs & _). exact Hs. Qed.

(* filtering a slot map by its keys *)
Lemma get_filter_key : forall (P : slot -> bool) (m : slotmap) k,
  get (filter (fun p => P (fst p)) m) k = if P k then get m k else None.
Proof.
  induction m as [|[k0 v0] t IH]; intros k; cbn [filter get fst]; [destruct (P k); reflexivity|].
  destruct (P k0) eqn:E0; cbn [get].
  - destruct (k =? k0) eqn:E; neq; [subst; rewrite E0; reflexivity|apply IH].
  - destruct (k =? k0) eqn:E; neq; [subst; rewrite IH, E0; reflexivity|apply IH].
Qed.

Lemma swf_filter : forall (P : slot -> bool) l, swf l -> swf (filter P l).
Proof.
  induction l as [|k t IH]; intros W; cbn [filter]; [exact I|]. destruct W as [L W].
  destruct (P k); [|apply IH; assumption]. cbn [swf]. split; [|apply IH; assumption].
  assert (G : forall y, In y (filter P t) -> k < y).
  { intros y Hy. apply filter_In in Hy. apply (swf_gt t k y L W). tauto. }
  destruct (filter P t) as [|y r]; [exact I|]. cbn [slb]. apply G. left. reflexivity.
Qed.

Lemma filter_key_wf : forall (P : slot -> bool) m, wf m -> wf (filter (fun p => P (fst p)) m).
Proof.
  intros P m W. apply wf_keys. apply wf_keys in W. unfold keys_vec in *.
  replace (map fst (filter (fun p => P (fst p)) m)) with (filter P (map fst m)); [apply swf_filter; assumption|].
  clear W. induction m as [|[k v] t IH]; cbn [map filter fst]; [reflexivity|].
  destruct (P k); cbn [map fst]; rewrite IH; reflexivity.
Qed.

Lemma map_pointwise : forall {A B} (f g : A -> B) l, map f l = map g l -> forall x, In x l -> f x = g x.
Proof.
  induction l as [|y t IH]; intros H x Hx; [contradiction|]. cbn [map] in H. injection H as H1 H2.
  destruct Hx as [<-|Hx]; [assumption|apply IH; assumption].
Qed.

(* the invocation found by a lookup of the original node is the one returned by the insertion *)
Lemma lookup_map_eq : forall n1 sh_t bij_t en3 c f2o c2 synf nd b2,
  wshape n1 = Ok (sh_t, bij_t) ->
  bijection_from_fresh_to (slots en3) c = (f2o, c2) ->
  pub_occ en3 = map (asm_g bij_t true) (pub_occ sh_t) ->
  pub_occ synf = map (asm_g (inv f2o) true) (pub_occ en3) ->
  wshape nd = Ok (sh_t, b2) -> pub_occ nd = pub_occ synf ->
  let F := values (inv f2o) in
  filter (fun p => sset_mem (fst p) F) (inv b2 ** bij_t) = filter (fun p => sset_mem (fst p) F) f2o.
Proof.
  intros n1 sh_t bij_t en3 c f2o c2 synf nd b2 Hw BF Pen Psyn Wnd Pnd F.
  pose proof (slots_sorted en3) as W. destruct (fresh_spec _ _ _ _ W BF) as (F1 & F2).
  assert (Wf2o : wf f2o).
  { unfold bijection_from_fresh_to in BF. pose proof (bff_go_wf (slots en3) c [] I) as Hw'. rewrite BF in Hw'. exact Hw'. }
  destruct (shape_bij _ _ _ Hw) as (B1 & B2 & B3).
  destruct (shape_bij _ _ _ Wnd) as (D1 & D2 & D3).
  destruct (shape_bij_props _ _ _ Wnd) as (Wb2 & Bb2 & _).
  apply ext_eq; [apply (filter_key_wf (fun k => sset_mem k F)), compose_partial_wf|apply (filter_key_wf (fun k => sset_mem k F)); assumption|].
  intros f. rewrite !(get_filter_key (fun k => sset_mem k F)).
  destruct (sset_mem f F) eqn:Ef; [|reflexivity]. apply sset_mem_in in Ef. unfold F in Ef.
  apply values_spec in Ef; [|apply inverse_wf]. destruct Ef as [u Gu].
  destruct (fresh_spec_keys _ _ _ _ _ _ W BF Gu) as (Hu & _).
  rewrite (get_inverse_sound f2o u f Wf2o Gu).
  (* f is a public slot of the syntactic node, hence a value of b2 *)
  assert (Hf : In f (pub_occ nd)).
  { rewrite Pnd, Psyn. apply in_map_iff. exists u. split; [|apply slots_spec; assumption].
    unfold asm_g. rewrite Gu. reflexivity. }
  apply D1 in Hf. destruct Hf as [k Gk].
  rewrite get_compose_partial by apply inverse_wf.
  rewrite (proj2 (get_inverse b2 f k Wb2 Bb2) Gk).
  assert (Hk : In k (pub_occ sh_t)) by (apply D2; congruence).
  assert (PW : get b2 k = Some (asm_g (inv f2o) true (asm_g bij_t true k))).
  { rewrite Pnd, Psyn, Pen, !map_map in D3.
    exact (map_pointwise _ _ _ D3 k Hk). }
  destruct (get bij_t k) as [u'|] eqn:Gu'; [|apply B2 in Hk; congruence].
  assert (Hu' : In u' (slots en3)).
  { apply slots_spec. rewrite Pen. apply in_map_iff. exists k. split; [|assumption]. unfold asm_g. rewrite Gu'. reflexivity. }
  destruct (F1 u' Hu') as (f' & Gf' & _).
  assert (f' = f).
  { rewrite Gk in PW. injection PW as PW. unfold asm_g in PW. rewrite Gu', Gf' in PW. congruence. }
  subst f'. f_equal. eapply F2; eauto.
Qed.

Theorem add_internal_flat : forall s t n1 a s',
  flat s -> kids_sub s n1 -> wshape n1 = Ok t -> lookup_internal s t = Ok None ->
  add_internal t s = Ok (a, s') ->
  flat s' /\ aid a = N.of_nat (lu s) /\ lu s' = S (lu s) /\
  (forall j c, get_class s j = Ok c -> exists c', get_class s' j = Ok c' /\ csem c' = csem c) /\
  exists sh c' b2,
    hashcons s' = na_set (na_remove (na_set (hashcons s) sh (N.of_nat (lu s))) sh) sh (N.of_nat (lu s)) /\
    get_class s' (N.of_nat (lu s)) = Ok c' /\ na_get (c_nodes c') sh = Some (b2, N.of_nat (lu s)) /\
    (kids_full s n1 -> (forall x, In x (pub_occ n1) -> x < ectr s) ->
     sh = fst t /\ lookup_internal s' t = Ok (Some a)).
Proof.
  intros s [sh_t bij_t] n1 a s' Fl K Hw Hlk H.
  pose proof (core_add_internal _ ctr_core ctr_alloc _ _ _ _ H) as CT. unfold ctr_rel in CT.
  destruct Fl as [F Pe Cm Nd].
  unfold add_internal in H. apply bind_reads_inv in H. destruct H as (lk & Hlk' & H).
  rewrite Hlk in Hlk'. inversion Hlk'; subst lk; clear Hlk'. cbn [fst snd] in H.
  apply mbind_inv in H. destruct H as (en1 & s1 & H1 & H).
  destruct (refresh_private sh_t (ectr s)) as [[r|e] c1] eqn:RP; [|discriminate]. inversion H1; subst r s1; clear H1.
  pose proof (refresh_private_step sh_t (ectr s)) as St1. rewrite RP in St1. cbn [snd] in St1.
  destruct (refresh_private_spec _ _ _ _ RP) as (Sk1 & Bi1 & Pa1).
  apply mbind_inv in H. destruct H as (en2 & s2 & H2 & H). apply lift_inv in H2. destruct H2 as [H2 ->].
  pose proof (apply_slotmap_ren _ _ _ H2) as R2.
  assert (Sk2 : skel en2 = skel n1).
  { rewrite R2, ren_skel, Sk1. apply (ws_skel _ _ _ Hw). }
  assert (Bi2 : binders en2 = binders en1).
  { rewrite R2, ren_binders. unfold asm_g. apply map_id. }
  set (s1 := set_ctr s c1) in *.
  assert (O1 : ctr_only s s1) by (exists c1; reflexivity).
  pose proof (sflat_sem _ _ F (ctr_only_sem _ _ O1)) as F1.
  assert (K2 : kids_sub s1 en2).
  { apply (kids_sub_transport s s1 n1 en2 (ctr_only_sem _ _ O1)); [apply skel_ckeys; symmetry; assumption|assumption]. }
  apply mbind_inv in H. destruct H as (en3 & s3 & H3 & H).
  pose proof (core_synify_enode _ ctr_core _ _ _ _ H3) as St3. unfold ctr_rel in St3. change (ectr s1) with c1 in St3.
  destruct (synify_enode_spec _ _ _ _ F1 K2 H3) as (O3 & K3 & Bi3 & Same3).
  pose proof (sflat_sem _ _ F1 (ctr_only_sem _ _ O3)) as F3.
  destruct (ctr_only_fields _ _ O3) as (U3 & C3 & HH3 & P3).
  assert (K3' : kids_sub s3 en3).
  { apply (kids_sub_transport s1 s3 en3 en3 (ctr_only_sem _ _ O3) eq_refl K3). }
  assert (Hb3 : Forall (fun b => b < ectr s3) (binders en3)).
  { rewrite Bi3, Bi2. revert Bi1. apply Forall_impl. intros b ((_ & Hb) & _). apply ctr_step_le in St3. lia. }
  assert (Cm3 : ectr s3 mod 4 = 1).
  { rewrite (ctr_step_mod _ _ St3), (ctr_step_mod _ _ St1). assumption. }
  apply mbind_inv in H. destruct H as (syn & s4 & H4 & H).
  destruct (mk_singleton_flat s3 en3 syn s4 F3)
    as (Ai & F4 & P4 & Nd4 & Old4 & L4 & sh & bij & synf & c' & b2 & Eq4 & W4 & HH4 & Hc4 & N4 & c2 & nd & BF & Psyn & Sl4 & And & Wnd & Pnd);
    try assumption.
  { rewrite P3. assumption. }
  { rewrite HH3. assumption. }
  unfold reads in H. destruct (semify_app_id s4 syn) as [a0|] eqn:Sem; [|discriminate]. inversion H; subst a0 s'; clear H.
  pose proof Sem as Sem0. apply semify_app_id_aid in Sem.
  change (lu s3) with (List.length (unionfind s3)) in *. rewrite U3 in *. change (unionfind s1) with (unionfind s) in *.
  rewrite HH3 in HH4. change (hashcons s1) with (hashcons s) in HH4.
  split.
  { constructor; try assumption. rewrite (ctr_step_mod _ _ CT). assumption. }
  split; [congruence|]. split; [assumption|]. split.
  { intros j c Hc. apply Old4. rewrite (ctr_only_class _ _ j O3). exact Hc. }
  exists sh, c', b2. split; [assumption|]. split; [assumption|]. split; [assumption|].
  intros Fu Lt. cbn [fst].
  (* the shape of the syntactic node is the shape that was looked up *)
  assert (M0 : forall x, In x (pub_occ sh_t) -> x mod 4 <> ectr s mod 4).
  { intros x Hx. apply pub_occ_all_occ in Hx. rewrite (shape_all_occ_mod4 _ _ _ Hw x Hx), Cm. lia. }
  specialize (Pa1 M0).
  assert (P1 : pub_occ en1 = pub_occ sh_t) by (rewrite <- !frees_pattern, Pa1; reflexivity).
  assert (Q1 : node_equiv sh_t en1).
  { split; [symmetry; assumption|]. exists (fun x => x). split; [intros x y _ _ E; exact E|].
    rewrite rename_occ_id. symmetry. assumption. }
  destruct (shape_bij _ _ _ Hw) as (B1 & B2 & B3).
  assert (C1 : inj_on (asm_g bij_t false) (binders en1)) by (intros x y _ _ E; exact E).
  assert (C2 : forall x b, In x (pub_occ en1) -> In b (binders en1) -> asm_g bij_t true x <> asm_g bij_t false b).
  { intros x b Hx Hb. rewrite P1 in Hx. unfold asm_g. apply B2 in Hx.
    destruct (get bij_t x) as [y|] eqn:G; [|congruence].
    assert (Hy : In y (pub_occ n1)) by (apply B1; eauto). apply Lt in Hy.
    pose proof (proj1 (Forall_forall _ _) Bi1 b Hb) as Hb'. cbv beta in Hb'. lia. }
  assert (Q2 : node_equiv en1 en2).
  { rewrite R2. apply ren_equiv; [assumption|assumption|].
    intros x y Hx Hy. rewrite P1 in Hx, Hy. unfold asm_g. apply B2 in Hx, Hy.
    destruct (get bij_t x) as [u|] eqn:Gx; [|congruence]. destruct (get bij_t y) as [v|] eqn:Gy; [|congruence].
    intros ->. exact (shape_bij_inj _ _ _ Hw _ _ _ Gx Gy). }
  assert (P2 : pub_occ en2 = map (asm_g bij_t true) (pub_occ sh_t)).
  { rewrite R2, ren_pub_occ by assumption. rewrite P1. reflexivity. }
  assert (E3 : en3 = en2).
  { apply Same3. apply (kids_full_transport s s1 n1 en2 (ctr_only_sem _ _ O1)); [apply skel_ckeys; symmetry; assumption|assumption]. }
  subst en3.
  assert (Q : node_equiv sh_t synf).
  { eapply node_equiv_trans; [exact Q1|]. eapply node_equiv_trans; [exact Q2|exact Eq4]. }
  destruct (shape_idempotent _ _ _ Hw) as [bij0 W0].
  assert (Esh : sh = sh_t) by (symmetry; exact (shape_invariant sh_t synf sh_t bij0 sh bij W0 W4 Q)).
  split; [assumption|]. subst sh.
  (* the lookup *)
  unfold lookup_internal. rewrite HH4, na_get_set_same, Hc4. cbn [bind]. rewrite N4.
  unfold semify_app_id, class_slots in Sem0. rewrite Ai, Hc4 in Sem0. cbn [bind] in Sem0. inversion Sem0 as [Ea].
  do 3 f_equal. rewrite Sl4.
  apply (lookup_map_eq n1 sh_t bij_t en2 (ectr s3) (am syn) c2 synf nd b2); assumption.
Qed.

(* ------------------------------------------------------------------ *)
(* 9. B: the invariant is preserved by eg_add / add_expr *)

Lemma flat_variants_ok : forall s n, sflat s -> kids_sub s n -> variants s n = Ok [n].
Proof.
  intros s n F K. unfold variants.
  assert (X : exists cls, mapr (fun a => get_class s (aid a)) (app_occ n) = Ok cls).
  { unfold kids_sub in K. induction K as [|a t (c & Hc & _) _ IH]; cbn [mapr]; [eauto|].
    rewrite Hc. cbn [bind]. destruct IH as [cls ->]. cbn [bind]. eauto. }
  destruct X as [cls E]. rewrite E. cbn [bind].
  assert (T' : forallb (fun c => gis_trivial (c_group c)) cls = true).
  { apply forallb_forall. intros c Hc. apply mapr_ok in E.
    assert (Y : exists a, get_class s (aid a) = Ok c).
    { clear -E Hc. induction E; [contradiction|]. destruct Hc as [->|Hc]; eauto. }
    destruct Y as [a Ha]. destruct (sf_cls s F _ _ Ha) as (_ & -> & _). reflexivity. }
  rewrite T'. reflexivity.
Qed.

Lemma Forall2_imp : forall {A B} (P Q : A -> B -> Prop) l r, (forall a b, P a b -> Q a b) -> Forall2 P l r -> Forall2 Q l r.
Proof. intros A B P Q l r H F. induction F; constructor; auto. Qed.

Lemma flat_find_enode : forall s n n1, sflat s -> find_enode s n = Ok n1 ->
  kids_sub s n1 /\
  exists l, n1 = set_apps n l /\
            Forall2 (fun a b => exists c, get_class s (aid a) = Ok c /\
                                b = {| aid := aid a; am := identity (c_slots c) ** am a |}) (app_occ n) l.
Proof.
  intros s n n1 F H. unfold find_enode in H.
  destruct (mapr (find_applied_id s) (app_occ n)) as [l|] eqn:E; cbn [bind] in H; [|discriminate].
  inversion H; subst n1; clear H. apply mapr_ok in E.
  assert (R : Forall2 (fun a b => exists c, get_class s (aid a) = Ok c /\
                                b = {| aid := aid a; am := identity (c_slots c) ** am a |}) (app_occ n) l).
  { revert E. apply Forall2_imp. intros a b Hab. destruct (flat_find_ok_class s a b F Hab) as [c Hc].
    exists c. split; [assumption|]. rewrite (flat_find s a c F Hc) in Hab. inversion Hab. reflexivity. }
  split; [|exists l; auto].
  unfold kids_sub. rewrite app_occ_set_apps by (apply (Forall2_length' _ _ _ R)).
  clear E. induction R as [|a b ta tb (c & Hc & ->) _ IH]; constructor; [|assumption].
  exists c. cbn [aid am]. split; [assumption|]. split; [apply compose_partial_wf|]. apply identity_compose_keys.
Qed.

Lemma flat_shape_inv : forall s n t, sflat s -> shape s n = Ok t ->
  exists n1, find_enode s n = Ok n1 /\ kids_sub s n1 /\ wshape n1 = Ok t.
Proof.
  intros s n t F H. unfold shape, pre_shape in H.
  destruct (find_enode s n) as [n1|] eqn:E; cbn [bind] in H; [|discriminate].
  destruct (flat_find_enode s n n1 F E) as (K & _).
  rewrite (flat_variants_ok s n1 F K) in H. cbn [bind min_variant] in H.
  exists n1. split; [reflexivity|]. split; [assumption|].
  destruct (wshape n1) as [w|] eqn:W; cbn [bind] in H; [|discriminate]. rewrite W in H. assumption.
Qed.

Theorem flat_eg_add : forall n s a s', flat s -> eg_add n s = Ok (a, s') -> flat s'.
Proof.
  intros n s a s' Fl H. unfold eg_add in H. apply bind_reads_inv in H. destruct H as (t & Ht & H).
  destruct (flat_shape_inv s n t (fl_s s Fl) Ht) as (n1 & _ & K & W).
  destruct (lookup_internal s t) as [[x|]|] eqn:L.
  - rewrite (add_internal_known s t x L) in H. inversion H; subst; assumption.
  - apply (add_internal_flat s t n1 a s' Fl K W L H).
  - unfold add_internal, mbind, reads in H. rewrite L in H. discriminate.
Qed.

Definition flatR (s s' : egraph) : Prop := flat s -> flat s'.

Theorem flat_add_expr : forall t s a s', flat s -> add_expr t s = Ok (a, s') -> flat s'.
Proof.
  assert (Tr : forall a b c, flatR a b -> flatR b c -> flatR a c) by (unfold flatR; auto).
  assert (Rf : forall s, flatR s s) by (unfold flatR; auto).
  assert (P : forall t, pres flatR (add_expr t)).
  { fix IH 1. intros [n ch]. cbn [add_expr]. apply (pres_bind flatR Tr).
    - induction ch as [|c r IHr]; [apply (pres_ret flatR Rf)|].
      apply (pres_bind flatR Tr); [apply IH|]. intros a. apply (pres_bind flatR Tr); [apply IHr|].
      intros; apply (pres_ret flatR Rf).
    - intros l. destruct (Nat.ltb _ _); [apply pres_fail|].
      intros s x s' H F. eapply flat_eg_add; eauto. }
  intros t s a s' F H. exact (P t s a s' H F).
Qed.

(* histories that only insert *)
Definition adds_only (ops : list hop) : Prop :=
  Forall (fun o => match o with HAdd _ => True | HUnion _ _ _ => False end) ops.

Theorem flat_run_adds : forall terms ops hs s hs' s', adds_only ops -> flat s ->
  run_ops terms ops hs s = Ok (hs', s') -> flat s'.
Proof.
  intros terms ops. induction ops as [|o t IH]; intros hs s hs' s' A F H; cbn [run_ops] in H.
  - inversion H; subst; assumption.
  - inversion A as [|? ? Ho At]; subst. destruct o as [k|i j just]; [|contradiction].
    destruct (nth_opt terms k) as [tm|]; [|discriminate].
    apply mbind_inv in H. destruct H as (a & s1 & H1 & H).
    eapply IH; [assumption| |exact H]. eapply flat_add_expr; eauto.
Qed.

Corollary flat_reachable_adds : forall terms ops hs s, adds_only ops ->
  run_ops terms ops [] empty_egraph = Ok (hs, s) -> flat s.
Proof. intros terms ops hs s A H. eapply flat_run_adds; [exact A|apply flat_empty|exact H]. Qed.

(* B: on every state reached by insertions only, eg_eq is reflexive and symmetric on covering
   invocations, and both invariants of UnionFindFacts.v hold *)
Theorem insertion_only_invariants : forall terms ops hs s, adds_only ops ->
  run_ops terms ops [] empty_egraph = Ok (hs, s) ->
  uf_ok s /\ uf_slots_ok s /\
  (forall a, covers s a -> eg_eq s a a = Ok true) /\
  (forall a b, covers s a -> covers s b -> exists x, eg_eq s a b = Ok x /\ eg_eq s b a = Ok x).
Proof.
  intros terms ops hs s A H. pose proof (flat_reachable_adds _ _ _ _ A H) as F.
  split; [apply flat_uf_ok; assumption|]. split; [apply flat_uf_slots_ok; assumption|].
  split; [intros; apply flat_eg_eq_refl; assumption|intros; apply flat_eg_eq_sym; assumption].
Qed.

(* ------------------------------------------------------------------ *)
(* 10. A: lookup after add *)

Lemma compose_values_sub : forall a m, wf a -> incl (values_vec (a ** m)) (values_vec m).
Proof.
  intros a m W v H. unfold values_vec in H. apply in_map_iff in H. destruct H as ([k v'] & Hv & Hin).
  cbn [snd] in Hv. subst v'. apply in_get in Hin; [|apply compose_partial_wf].
  rewrite get_compose_partial in Hin by assumption. destruct (get a k) as [y|]; [|discriminate].
  apply get_in in Hin. unfold values_vec. apply in_map_iff. exists (y, v). auto.
Qed.

Definition vals_sub (x y : appid) : Prop := incl (values_vec (am y)) (values_vec (am x)).

Lemma set_apps_f_all_occ : forall a r0 l, Forall2 vals_sub (app_occ_f a ++ r0) l ->
  incl (all_occ_f (fst (set_apps_f a l))) (all_occ_f a) /\ Forall2 vals_sub r0 (snd (set_apps_f a l)).
Proof.
  induction a as [s|x|s b IH|p]; intros r0 l H; cbn [set_apps_f app_occ_f all_occ_f app] in *;
    try (split; [apply incl_refl|assumption]).
  - inversion H as [|? y ? t Hxy Ht]; subst. cbn [fst snd all_occ_f]. split; [exact Hxy|assumption].
  - specialize (IH r0 l H). destruct (set_apps_f b l) as [b' r]. cbn [fst snd all_occ_f] in *.
    destruct IH as (A & B). split; [|assumption]. intros z [->|Hz]; [left; reflexivity|right; apply A; assumption].
Qed.

Lemma set_apps_args_all_occ : forall args l, Forall2 vals_sub (flat_map app_occ_f args) l ->
  incl (flat_map all_occ_f (set_apps_args args l)) (flat_map all_occ_f args).
Proof.
  induction args as [|a t IH]; intros l H; cbn [set_apps_args flat_map] in *; [apply incl_refl|].
  destruct (set_apps_f_all_occ a _ l H) as (A & B). destruct (set_apps_f a l) as [a' r]. cbn [fst snd flat_map] in *.
  apply incl_app; [apply incl_appl; assumption|apply incl_appr; apply IH; assumption].
Qed.

Lemma find_enode_all_occ : forall s n n1, sflat s -> find_enode s n = Ok n1 -> incl (all_occ n1) (all_occ n).
Proof.
  intros s n n1 F H. destruct (flat_find_enode s n n1 F H) as (_ & l & -> & R).
  unfold all_occ, set_apps. cbn [nargs]. apply set_apps_args_all_occ. fold (app_occ n).
  revert R. apply Forall2_imp. intros a b (c & _ & ->). unfold vals_sub. cbn [am].
  apply compose_values_sub. apply identity_wf.
Qed.

(* the node handed to eg_add: every child invocation has a sorted map defined on all slots of
   its class, and the node only mentions slots older than the fresh-slot counter *)
Definition node_ok (s : egraph) (n : node) : Prop :=
  Forall (fun a => wf (am a) /\ kid_full s a) (app_occ n) /\ (forall x, In x (all_occ n) -> x < ectr s).

Lemma find_enode_full : forall s n n1, sflat s -> find_enode s n = Ok n1 ->
  Forall (kid_full s) (app_occ n) -> kids_full s n1.
Proof.
  intros s n n1 F H Fu. destruct (flat_find_enode s n n1 F H) as (_ & l & -> & R).
  unfold kids_full. rewrite app_occ_set_apps by (apply (Forall2_length' _ _ _ R)). clear H.
  revert Fu. induction R as [|a b ta tb (c & Hc & ->) _ IH]; intros Fu; [constructor|].
  inversion Fu as [|? ? (c2 & Hc2 & K) Ft]; subst. constructor; [|apply IH; assumption].
  rewrite Hc in Hc2. inversion Hc2; subst c2. exists c. cbn [aid am]. split; [assumption|].
  intros k Hk. rewrite get_compose_partial by apply identity_wf. rewrite get_identity.
  apply sset_mem_in in Hk. rewrite Hk. apply K. apply sset_mem_in. assumption.
Qed.

Lemma flat_find_enode_frame : forall s s' n, sflat s -> sflat s' ->
  (forall j c, get_class s j = Ok c -> exists c', get_class s' j = Ok c' /\ csem c' = csem c) ->
  forall n1, find_enode s n = Ok n1 -> find_enode s' n = Ok n1.
Proof.
  intros s s' n F F' Old n1 H. unfold find_enode in *.
  destruct (mapr (find_applied_id s) (app_occ n)) as [l|] eqn:E; cbn [bind] in H; [|discriminate].
  rewrite (mapr_ext (find_applied_id s') (find_applied_id s)); [rewrite E; exact H|].
  intros a Ha. apply mapr_ok in E.
  assert (X : exists b, find_applied_id s a = Ok b).
  { clear -E Ha. induction E; [contradiction|]. destruct Ha as [->|Ha]; eauto. }
  destruct X as [b Hb]. destruct (flat_find_ok_class s a b F Hb) as [c Hc].
  destruct (Old _ _ Hc) as (c' & Hc' & Cs). apply csem_inv in Cs. destruct Cs as (Cs & _).
  rewrite (flat_find s a c F Hc), (flat_find s' a c' F' Hc'), Cs. reflexivity.
Qed.

Theorem lookup_after_add : forall s n a s', flat s -> node_ok s n -> eg_add n s = Ok (a, s') ->
  eg_lookup s' n = Ok (Some a) /\ eg_add n s' = Ok (a, s').
Proof.
  intros s n a s' Fl (Kn & Lt) H.
  assert (G : eg_lookup s' n = Ok (Some a)).
  { unfold eg_add in H. apply bind_reads_inv in H. destruct H as (t & Ht & H).
    pose proof (fl_s s Fl) as F.
    destruct (flat_shape_inv s n t F Ht) as (n1 & En & K & W).
    destruct (lookup_internal s t) as [[x|]|] eqn:L.
    - rewrite (add_internal_known s t x L) in H. inversion H; subst x s'.
      unfold eg_lookup. rewrite Ht. cbn [bind]. assumption.
    - destruct (add_internal_flat s t n1 a s' Fl K W L H) as (Fl' & Ai & Lu & Old & sh & c' & b2 & HH & Hc & Nn & Sh).
      assert (Fu : kids_full s n1).
      { apply (find_enode_full s n n1 F En). revert Kn. apply Forall_impl. tauto. }
      assert (Lt1 : forall x, In x (pub_occ n1) -> x < ectr s).
      { intros x Hx. apply Lt. apply (find_enode_all_occ s n n1 F En). apply pub_occ_all_occ. assumption. }
      destruct (Sh Fu Lt1) as (_ & Lk').
      pose proof (fl_s s' Fl') as F'.
      assert (En' : find_enode s' n = Ok n1) by (apply (flat_find_enode_frame s s' n F F' Old); assumption).
      assert (K' : kids_sub s' n1).
      { revert K. apply Forall_impl. intros b (c & Hcb & Wb & Kb). destruct (Old _ _ Hcb) as (cb' & Hcb' & Cs).
        apply csem_inv in Cs. destruct Cs as (Cs & _). exists cb'. rewrite Cs. auto. }
      assert (Ht' : shape s' n = Ok t).
      { unfold shape, pre_shape. rewrite En'. cbn [bind]. rewrite (flat_variants_ok s' n1 F' K').
        cbn [bind min_variant]. rewrite W. cbn [bind]. exact W. }
      unfold eg_lookup. rewrite Ht'. cbn [bind]. exact Lk'.
    - unfold add_internal, mbind, reads in H. rewrite L in H. discriminate. }
  split; [assumption|]. apply eg_add_known. assumption.
Qed.

(* the class of the result of an insertion is the class a lookup finds (weaker form, kept for
   clients that only need the id) *)
Corollary lookup_after_add_id : forall s n a s', flat s -> node_ok s n -> eg_add n s = Ok (a, s') ->
  exists a', eg_lookup s' n = Ok (Some a') /\ aid a' = aid a.
Proof. intros s n a s' F K H. exists a. split; [apply (lookup_after_add s n a s' F K H)|reflexivity]. Qed.

(* ------------------------------------------------------------------ *)
(* 11. executable checks *)

Definition node_okb (s : egraph) (n : node) : bool :=
  forallb (fun a => sortedb (am a) &&
                    match get_class s (aid a) with
                    | Ok c => forallb (contains_key (am a)) (c_slots c)
                    | Err _ => false
                    end) (app_occ n) &&
  forallb (fun x => x <? ectr s) (all_occ n).

Lemma node_okb_sound : forall s n, node_okb s n = true -> node_ok s n.
Proof.
  intros s n H. unfold node_okb in H. apply andb_true_iff in H. destruct H as [H1 H2]. split.
  - apply Forall_forall. intros a Ha. pose proof (proj1 (forallb_forall _ _) H1 a Ha) as T. cbv beta in T.
    apply andb_true_iff in T. destruct T as [T1 T2]. split; [apply sortedb_wf; assumption|].
    destruct (get_class s (aid a)) as [c|] eqn:Hc; [|discriminate]. exists c. split; [exact Hc|].
    intros k Hk. pose proof (proj1 (forallb_forall _ _) T2 k Hk) as T. unfold contains_key in T.
    destruct (get (am a) k); [discriminate|discriminate T].
  - intros x Hx. pose proof (proj1 (forallb_forall _ _) H2 x Hx) as T. cbv beta in T. lia.
Qed.

Fixpoint swfb (l : sset) : bool :=
  match l with
  | [] => true
  | k :: t => match t with [] => true | k' :: _ => (k <? k') && swfb t end
  end.
Lemma swfb_sound : forall l, swfb l = true -> swf l.
Proof.
  induction l as [|k t IH]; [exact (fun _ => I)|]. cbn [swfb swf]. destruct t as [|k' t'].
  - intros _. split; exact I.
  - intros H. apply andb_true_iff in H. destruct H as [H1 H2]. apply N.ltb_lt in H1. split; [exact H1|apply IH; exact H2].
Qed.

Fixpoint na_nodupb {V} (l : list (node * V)) : bool :=
  match l with
  | [] => true
  | (k, _) :: t => match na_get t k with None => na_nodupb t | Some _ => false end
  end.
Lemma na_nodupb_sound : forall {V} (l : list (node * V)), na_nodupb l = true -> na_nodup l.
Proof.
  induction l as [|[k v] t IH]; cbn [na_nodupb na_nodup]; [auto|].
  destruct (na_get t k); [discriminate|]. auto.
Qed.

Definition class_flatb (c : eclass) : bool :=
  swfb (c_slots c) &&
  match c_group c with Grp i None => eqb_map i (identity (c_slots c)) | _ => false end &&
  sset_eqb (slots (c_syn c)) (c_slots c).

Lemma class_flatb_sound : forall c, class_flatb c = true -> class_flat c.
Proof.
  intros c H. unfold class_flatb in H. apply andb_true_iff in H. destruct H as [H H3].
  apply andb_true_iff in H. destruct H as [H1 H2]. split; [apply swfb_sound; assumption|]. split.
  - destruct (c_group c) as [i [x|]]; [discriminate|]. apply eqb_map_eq in H2. subst i. reflexivity.
  - apply sset_eqb_eq. assumption.
Qed.

Definition flatb (s : egraph) : bool :=
  eg_wfb s && match pending s with [] => true | _ => false end && (ectr s mod 4 =? 1) &&
  na_nodupb (hashcons s) &&
  forallb (fun j => match nth_opt (classes s) j, nth_opt (unionfind s) j with
                    | Some c, Some e =>
                        class_flatb c && appid_eqb e {| aid := N.of_nat j; am := identity (c_slots c) |}
                    | _, _ => false
                    end) (seq 0 (lc s)).

Theorem flatb_sound : forall s, flatb s = true -> flat s.
Proof.
  intros s H. unfold flatb in H.
  apply andb_true_iff in H. destruct H as [H H5]. apply andb_true_iff in H. destruct H as [H H4].
  apply andb_true_iff in H. destruct H as [H H3]. apply andb_true_iff in H. destruct H as [H1 H2].
  assert (K : forall i c, get_class s i = Ok c ->
    class_flat c /\ uentry (unionfind s) i = Some {| aid := i; am := identity (c_slots c) |}).
  { intros i c Hc. pose proof (get_class_lt _ _ _ Hc) as L.
    pose proof (proj1 (forallb_forall _ _) H5 (N.to_nat i)) as T. cbv beta in T.
    unfold get_class in Hc. destruct (nth_opt (classes s) (N.to_nat i)) as [c0|]; [|discriminate].
    inversion Hc; subst c0. specialize (T ltac:(apply in_seq; lia)).
    unfold uentry. destruct (nth_opt (unionfind s) (N.to_nat i)) as [e|]; [|discriminate].
    apply andb_true_iff in T. destruct T as [T1 T2]. split; [apply class_flatb_sound; assumption|].
    apply appid_eqb_iff in T2. rewrite N2Nat.id in T2. congruence. }
  constructor.
  - constructor; [apply eg_wfb_spec; assumption| |]; intros i c Hc; apply (K i c Hc).
  - destruct (pending s); [reflexivity|discriminate].
  - apply N.eqb_eq. assumption.
  - apply na_nodupb_sound. assumption.
Qed.

(* ------------------------------------------------------------------ *)
(* 12. Examples.  A lambda-calculus-like signature: variant 0 = lam (binder, body), 1 = app, 2 = var.
   Three terms are inserted: lam x. app(x, y);  app(x, x);  lam y. lam x. app(x, y).
   Result: five classes (var, app(var,var), lam.., app(x,x), lam lam ..), no unions. *)

Definition ix_ph : farg := AApp {| aid := 0; am := [] |}.
Definition ix_var (x : slot) : rterm := RT {| nvar := 2; nargs := [ASlot x] |} [].
Definition ix_lam (x : slot) (b : rterm) : rterm := RT {| nvar := 0; nargs := [ABind x ix_ph] |} [b].
Definition ix_app (a b : rterm) : rterm := RT {| nvar := 1; nargs := [ix_ph; ix_ph] |} [a; b].
Definition ix_terms : list rterm :=
  [ix_lam 4 (ix_app (ix_var 4) (ix_var 8)); ix_app (ix_var 4) (ix_var 4);
   ix_lam 8 (ix_lam 4 (ix_app (ix_var 4) (ix_var 8)))].
Definition ix_ops : list hop := [HAdd 0; HAdd 1; HAdd 2].
Definition ix_run := run_ops ix_terms ix_ops [] empty_egraph.
Definition ix_state : egraph := match ix_run with Ok (_, s) => s | Err _ => empty_egraph end.
Definition ix_handles : list appid :=
  [{| aid := 2; am := [(17, 8)] |}; {| aid := 3; am := [(21, 4)] |}; {| aid := 4; am := [] |}].

Example ix_run_ok : run_ops ix_terms ix_ops [] empty_egraph = Ok (ix_handles, ix_state).
Proof. vm_compute. reflexivity. Qed.

Example ix_shape :
  map c_slots (classes ix_state) = [[1]; [5; 9]; [17]; [21]; []] /\ lu ix_state = 5%nat /\ ectr ix_state = 29.
Proof. vm_compute. auto. Qed.

(* B: the invariant holds by the preservation theorem (and, independently, by the checker) *)
Example ix_flat : flat ix_state.
Proof.
  apply (flat_reachable_adds ix_terms ix_ops ix_handles ix_state); [repeat constructor|exact ix_run_ok].
Qed.
Example ix_flatb : flatb ix_state = true.
Proof. vm_compute. reflexivity. Qed.

Example ix_invariants : uf_ok ix_state /\ uf_slots_ok ix_state.
Proof. split; [apply flat_uf_ok|apply flat_uf_slots_ok]; exact ix_flat. Qed.

(* reflexivity / symmetry of eg_eq without any assumption on the state *)
Definition ix_a := {| aid := 1; am := [(5, 4); (9, 8)] |}.
Definition ix_b := {| aid := 1; am := [(5, 8); (9, 4)] |}.
Example ix_covers : covers ix_state ix_a /\ covers ix_state ix_b.
Proof. split; apply coversb_sound; vm_compute; reflexivity. Qed.
Example ix_eg_eq_refl : eg_eq ix_state ix_a ix_a = Ok true.
Proof. exact (flat_eg_eq_refl _ _ ix_flat (proj1 ix_covers)). Qed.
Example ix_eg_eq_sym : eg_eq ix_state ix_a ix_b = Ok false /\ eg_eq ix_state ix_b ix_a = Ok false.
Proof.
  destruct (flat_eg_eq_sym _ _ _ ix_flat (proj1 ix_covers) (proj2 ix_covers)) as (x & H1 & H2).
  assert (E : eg_eq ix_state ix_a ix_b = Ok false) by (vm_compute; reflexivity).
  split; congruence.
Qed.

(* the state of UnionFindFacts.v that was built with unions is not flat *)
Example ex_state_not_flat : flatb ex_state = false.
Proof. vm_compute. reflexivity. Qed.

(* A: a new node  app(var(z), app(var u, var z))  over the existing classes 0 and 1 *)
Definition ix_n : node :=
  {| nvar := 1; nargs := [AApp {| aid := 0; am := [(1, 12)] |}; AApp {| aid := 1; am := [(5, 16); (9, 12)] |}] |}.
Example ix_n_ok : node_ok ix_state ix_n.
Proof. apply node_okb_sound. vm_compute. reflexivity. Qed.
Example ix_n_new : eg_lookup ix_state ix_n = Ok None.
Proof. vm_compute. reflexivity. Qed.
Definition ix_state2 : egraph := match eg_add ix_n ix_state with Ok (_, s) => s | Err _ => empty_egraph end.
Definition ix_res : appid := {| aid := 5; am := [(29, 12); (33, 16)] |}.
Example ix_add : eg_add ix_n ix_state = Ok (ix_res, ix_state2).
Proof. vm_compute. reflexivity. Qed.
Example ix_lookup_after_add :
  eg_lookup ix_state2 ix_n = Ok (Some ix_res) /\ eg_add ix_n ix_state2 = Ok (ix_res, ix_state2).
Proof. exact (lookup_after_add _ _ _ _ ix_flat ix_n_ok ix_add). Qed.
(* cross-check by computation *)
Example ix_lookup_same : eg_lookup ix_state2 ix_n = Ok (Some ix_res).
Proof. vm_compute. reflexivity. Qed.
Example ix_flat2 : flat ix_state2.
Proof. exact (flat_eg_add _ _ _ _ ix_flat ix_add). Qed.

(* a node with a binder:  lam x. app(var u, var x)  over class 1 (= app(var, var), slots 5, 9) *)
Definition ix_nb : node :=
  {| nvar := 0; nargs := [ABind 4 (AApp {| aid := 1; am := [(5, 12); (9, 4)] |})] |}.
Example ix_nb_ok : node_ok ix_state ix_nb.
Proof. apply node_okb_sound. vm_compute. reflexivity. Qed.
Definition ix_state3 : egraph := match eg_add ix_nb ix_state with Ok (_, s) => s | Err _ => empty_egraph end.
Definition ix_resb : appid := {| aid := 5; am := [(33, 12)] |}.
Example ix_addb : eg_lookup ix_state ix_nb = Ok None /\ eg_add ix_nb ix_state = Ok (ix_resb, ix_state3).
Proof. vm_compute. auto. Qed.
Example ix_lookup_after_add_binder :
  eg_lookup ix_state3 ix_nb = Ok (Some ix_resb) /\ eg_add ix_nb ix_state3 = Ok (ix_resb, ix_state3).
Proof. exact (lookup_after_add _ _ _ _ ix_flat ix_nb_ok (proj2 ix_addb)). Qed.
(* an alpha-variant of the same node (other binder name) is found as well: same shape *)
Example ix_lookup_alpha :
  eg_lookup ix_state3 {| nvar := 0; nargs := [ABind 20 (AApp {| aid := 1; am := [(5, 12); (9, 20)] |})] |}
  = Ok (Some ix_resb).
Proof. vm_compute. reflexivity. Qed.

(* the two premises of node_ok are needed.
   (i) a child invocation that misses a slot of its class: synify invents a fresh slot for it, the
       class is keyed by the shape of the completed node, and the original node is not found *)
Definition ix_n_missing : node :=
  {| nvar := 1; nargs := [AApp {| aid := 0; am := [(1, 12)] |}; AApp {| aid := 1; am := [(9, 12)] |}] |}.
Example ix_missing_not_ok : node_okb ix_state ix_n_missing = false.
Proof. vm_compute. reflexivity. Qed.
Example ix_missing_lookup_fails :
  match eg_add ix_n_missing ix_state with
  | Ok (a, s') => eg_lookup s' ix_n_missing = Ok None /\ a = {| aid := 5; am := [(33, 12); (37, 29)] |} /\ flatb s' = true
  | Err _ => False
  end.
Proof. vm_compute. auto. Qed.
(* (ii) a node that mentions a slot the counter has not yet reached: refresh_private picks that very
       name for the binder and captures the free occurrence *)
Definition ix_n_capture : node :=
  {| nvar := 0; nargs := [ABind 4 (AApp {| aid := 1; am := [(5, 29); (9, 4)] |})] |}.
Example ix_capture_not_ok : node_okb ix_state ix_n_capture = false.
Proof. vm_compute. reflexivity. Qed.
Example ix_capture_lookup_fails :
  match eg_add ix_n_capture ix_state with
  | Ok (a, s') => eg_lookup s' ix_n_capture = Ok None /\ flatb s' = true
  | Err _ => False
  end.
Proof. vm_compute. auto. Qed.

(* ------------------------------------------------------------------ *)
(* 13. general states (not only flat ones): the allocation of a class is a frame for the queries
   about existing classes, and preserves the slot invariant of UnionFindFacts.v *)

Lemma uf_get_go_app : forall u x, (forall i e, uentry u i = Some e -> (N.to_nat (aid e) < List.length u)%nat) ->
  forall fuel i, (N.to_nat i < List.length u)%nat -> uf_get_go fuel (u ++ [x]) i = uf_get_go fuel u i.
Proof.
  intros u x Hb. induction fuel as [|f IH]; intros i L; cbn [uf_get_go]; [reflexivity|].
  rewrite nth_opt_app1 by assumption. destruct (nth_opt u (N.to_nat i)) as [e|] eqn:E; [|reflexivity].
  destruct (aid e =? i); [reflexivity|]. rewrite IH by (eapply Hb; exact E). reflexivity.
Qed.

Lemma uf_get_go_fuel_irrel : forall u, ufl_ok u -> forall f1 f2 i p,
  uf_get_go f1 u i = Ok p -> (f1 <= f2)%nat -> uf_get_go f2 u i = Ok p.
Proof.
  intros u _. induction f1 as [|f IH]; intros f2 i p H L; [discriminate|].
  destruct f2 as [|g]; [lia|]. cbn [uf_get_go] in *.
  destruct (nth_opt u (N.to_nat i)) as [e|]; [|discriminate].
  destruct (aid e =? i); [assumption|].
  destruct (uf_get_go f u (aid e)) as [l|] eqn:E; cbn [bind] in H; [|discriminate].
  rewrite (IH g _ _ E ltac:(lia)). assumption.
Qed.

Section AllocFrame.
  Variables (s s' : egraph) (e : appid) (cn : eclass).
  Hypothesis Hok : uf_ok s.
  Hypothesis Hwf : eg_wf s.
  Hypothesis Huf : unionfind s' = unionfind s ++ [e].
  Hypothesis Hcl : classes s' = classes s ++ [cn].

  Lemma frame_unionfind_get : forall i, (N.to_nat i < lu s)%nat -> unionfind_get s' i = unionfind_get s i.
  Proof.
    intros i L. unfold unionfind_get. rewrite Huf, app_length. cbn [List.length].
    rewrite uf_get_go_app by (try assumption; apply (ufl_bound _ Hok)).
    destruct (unionfind_get_ok s i Hok L) as [p Hp]. unfold unionfind_get in Hp. rewrite Hp.
    apply (uf_get_go_fuel_irrel _ Hok _ _ _ _ Hp). lia.
  Qed.

  Lemma frame_find : forall a, (N.to_nat (aid a) < lu s)%nat -> find_applied_id s' a = find_applied_id s a.
  Proof. intros a L. unfold find_applied_id. rewrite frame_unionfind_get by assumption. reflexivity. Qed.

  Lemma frame_get_class : forall j, (N.to_nat j < lc s)%nat -> get_class s' j = get_class s j.
  Proof. intros j L. unfold get_class. rewrite Hcl, nth_opt_app1 by assumption. reflexivity. Qed.

  Lemma find_result_lt : forall a b, find_applied_id s a = Ok b -> (N.to_nat (aid b) < lu s)%nat.
  Proof. intros a b H. destruct (find_is_leader _ _ _ H) as (el & Hel & _). eapply uentry_lt; eauto. Qed.

  Lemma frame_eg_eq : forall a b, (N.to_nat (aid a) < lu s)%nat -> (N.to_nat (aid b) < lu s)%nat ->
    eg_eq s' a b = eg_eq s a b.
  Proof.
    intros a b La Lb. unfold eg_eq. rewrite (frame_find a La), (frame_find b Lb).
    destruct (find_applied_id s a) as [a'|] eqn:Ea; cbn [bind]; [|reflexivity].
    destruct (find_applied_id s b) as [b'|]; cbn [bind]; [|reflexivity].
    rewrite frame_get_class; [reflexivity|]. rewrite <- Hwf. eapply find_result_lt; eauto.
  Qed.

  Lemma frame_mapr_get_class : forall l : list appid, Forall (fun a => (N.to_nat (aid a) < lc s)%nat) l ->
    mapr (fun a => get_class s' (aid a)) l = mapr (fun a => get_class s (aid a)) l.
  Proof.
    intros l H. apply mapr_ext. intros a Ha. apply frame_get_class. exact (proj1 (Forall_forall _ _) H a Ha).
  Qed.

  Lemma frame_find_enode : forall n, Forall (fun a => (N.to_nat (aid a) < lu s)%nat) (app_occ n) ->
    find_enode s' n = find_enode s n.
  Proof.
    intros n H. unfold find_enode. rewrite (mapr_ext (find_applied_id s') (find_applied_id s)); [reflexivity|].
    intros a Ha. apply frame_find. exact (proj1 (Forall_forall _ _) H a Ha).
  Qed.

  Lemma frame_variants : forall n, Forall (fun a => (N.to_nat (aid a) < lc s)%nat) (app_occ n) ->
    variants s' n = variants s n.
  Proof. intros n H. unfold variants. rewrite (frame_mapr_get_class _ H). reflexivity. Qed.

  Theorem frame_shape : forall n, Forall (fun a => (N.to_nat (aid a) < lu s)%nat) (app_occ n) ->
    shape s' n = shape s n.
  Proof.
    intros n H. unfold shape, pre_shape. rewrite (frame_find_enode n H).
    unfold find_enode. destruct (mapr (find_applied_id s) (app_occ n)) as [l|] eqn:E; cbn [bind]; [|reflexivity].
    rewrite frame_variants; [reflexivity|]. apply mapr_ok in E.
    rewrite app_occ_set_apps by (apply (Forall2_length' _ _ _ E)). rewrite <- Hwf.
    clear H. induction E as [|a b ta tb Hab _ IH]; constructor; [|assumption]. eapply find_result_lt; eauto.
  Qed.

  (* the slot invariant *)
  Hypothesis He : e = {| aid := N.of_nat (lu s); am := identity (c_slots cn) |}.
  Hypothesis Hcn : class_flat cn.

  Theorem uf_slots_ok_ext : uf_slots_ok s -> uf_slots_ok s'.
  Proof.
    intros [_ HG HL HE]. unfold eg_wf in Hwf.
    assert (Old : forall i x, uentry (unionfind s') i = Some x ->
              (uentry (unionfind s) i = Some x /\ (N.to_nat i < lu s)%nat) \/ (i = N.of_nat (lu s) /\ x = e)).
    { intros i x H. rewrite Huf in H. apply uentry_app_inv in H. destruct H as [H|H]; [left|right; assumption].
      split; [assumption|eapply uentry_lt; eauto]. }
    constructor.
    - unfold eg_wf. rewrite Huf, Hcl, !app_length. cbn. lia.
    - intros i c (x & Hx & Hi) Hc. apply Old in Hx. destruct Hx as [[Hx L]|[-> ->]].
      + rewrite frame_get_class in Hc by lia. apply (HG i c); [exists x; auto|assumption].
      + rewrite Hwf in Hc. rewrite (get_class_ext_new s s' cn Hcl) in Hc. inversion Hc; subst c.
        apply class_flat_grp_ok. assumption.
    - intros i x c Hx Hi Hc. apply Old in Hx. destruct Hx as [[Hx L]|[-> ->]].
      + rewrite frame_get_class in Hc by lia. eapply HL; eauto.
      + rewrite Hwf in Hc. rewrite (get_class_ext_new s s' cn Hcl) in Hc. inversion Hc; subst c.
        rewrite He. cbn [am]. apply keys_identity. apply Hcn.
    - intros i x ci cp Hx Hn Hci Hcp. apply Old in Hx. destruct Hx as [[Hx L]|[-> ->]].
      + pose proof (ufl_bound _ Hok _ _ Hx) as Lb.
        rewrite frame_get_class in Hci by lia. rewrite frame_get_class in Hcp by lia. eapply HE; eauto.
      + rewrite He in Hn. cbn [aid] in Hn. congruence.
  Qed.
End AllocFrame.

Lemma grp_ok_csem : forall c c', csem c = csem c' -> grp_ok c -> grp_ok c'.
Proof.
  intros c c' E (gens & A & B). apply csem_inv in E. destruct E as (E1 & E2 & _).
  exists gens. rewrite <- E1, <- E2. auto.
Qed.

(* every update that keeps the semantic part keeps the slot invariant: raw_add_to_class,
   raw_remove_from_class, the pending list, the counter, synify_enode, ... *)
Theorem uf_slots_ok_sem : forall s s', sem_eq s s' -> uf_slots_ok s -> uf_slots_ok s'.
Proof.
  intros s s' E [W HG HL HE]. pose proof (sem_eq_lengths _ _ E) as [L1 L2]. pose proof E as [U _].
  assert (Back : forall i c', get_class s' i = Ok c' -> exists c, get_class s i = Ok c /\ csem c = csem c').
  { intros i c' H. apply (get_class_sem_ok s' s i c' (sem_eq_sym _ _ E)) in H. destruct H as (c & Hc & Cs). eauto. }
  constructor.
  - unfold eg_wf. rewrite L1, L2. assumption.
  - intros i c' Hl Hc'. destruct (Back _ _ Hc') as (c & Hc & Cs). apply (grp_ok_csem c c' Cs).
    apply (HG i c); [unfold leader; rewrite U; assumption|assumption].
  - intros i x c' Hx Hi Hc'. destruct (Back _ _ Hc') as (c & Hc & Cs). apply csem_inv in Cs. destruct Cs as (<- & _).
    rewrite <- U in Hx. eapply HL; eauto.
  - intros i x ci' cp' Hx Hn Hci' Hcp'. destruct (Back _ _ Hci') as (ci & Hci & Cs1). destruct (Back _ _ Hcp') as (cp & Hcp & Cs2).
    apply csem_inv in Cs1, Cs2. destruct Cs1 as (<- & _). destruct Cs2 as (<- & _). rewrite <- U in Hx. eapply HE; eauto.
Qed.

Theorem uf_slots_ok_alloc_eclass : forall sl syn s i s', uf_ok s -> uf_slots_ok s -> swf sl -> slots syn = sl ->
  alloc_eclass sl syn s = Ok (i, s') -> uf_slots_ok s'.
Proof.
  intros sl syn s i s' Hok Hs W Sl H. apply alloc_eclass_exact in H. destruct H as (Hi & U & C & _).
  refine (uf_slots_ok_ext s s' _ _ Hok (uso_wf s Hs) U C _ _ Hs).
  - cbn [c_slots]. rewrite Hi, Sl. reflexivity.
  - unfold class_flat. cbn [c_slots c_group c_syn]. auto.
Qed.

Theorem uf_slots_ok_raw_add : forall id t src s x s', uf_slots_ok s -> raw_add_to_class id t src s = Ok (x, s') -> uf_slots_ok s'.
Proof. intros id [sh bij] src s x s' Hs H. apply raw_add_obs in H. eapply uf_slots_ok_sem; [apply H|assumption]. Qed.

(* alloc_eclass is a frame for the queries about existing classes *)
Theorem alloc_eclass_frame : forall sl syn s i s', uf_ok s -> eg_wf s -> alloc_eclass sl syn s = Ok (i, s') ->
  (forall a, (N.to_nat (aid a) < lu s)%nat -> find_applied_id s' a = find_applied_id s a) /\
  (forall a b, (N.to_nat (aid a) < lu s)%nat -> (N.to_nat (aid b) < lu s)%nat -> eg_eq s' a b = eg_eq s a b) /\
  (forall n, Forall (fun a => (N.to_nat (aid a) < lu s)%nat) (app_occ n) -> shape s' n = shape s n).
Proof.
  intros sl syn s i s' Hok Hwf H. apply alloc_eclass_exact in H. destruct H as (Hi & U & C & _).
  split; [intros; eapply frame_find; eauto|]. split; [intros; eapply frame_eg_eq; eauto|].
  intros; eapply frame_shape; eauto.
Qed.
(* ------------------------------------------------------------------ *)
(* 14. towards unions: the two state changes of `move_to` / `union_leaders` that touch the slot
   invariant, under the explicit obligations that are NOT discharged here.

   (a) redirecting the entry of a leader `from` to another leader `to` with the map
       `am to ** inv (am from)` keeps uf_slots_ok provided both invocations are canonical
       (`canon_ok`: bijections defined exactly on the slots of their classes) and have the same
       value set — which is what `union_leaders` has established by `shrink_slots` when it
       calls `move_to`, IF the invocations it was given cover their classes (`find_canon`).
   (b) replacing the group of a class keeps uf_slots_ok provided the new group is `grp_ok`. *)

Theorem uf_slots_ok_redirect : forall s f t m cf ct x s',
  uf_slots_ok s -> leader s f -> leader s t -> t <> f ->
  get_class s f = Ok cf -> get_class s t = Ok ct ->
  injective m -> sub_keys (c_slots ct) m -> vals_in m (c_slots cf) ->
  unionfind_set f {| aid := t; am := m |} s = Ok (x, s') -> uf_slots_ok s'.
Proof.
  intros s f t m cf ct x s' [W HG HL HE] Lf Lt Hn Hcf Hct Im Sm Vm H.
  pose proof (unionfind_set_classes _ _ _ _ _ H) as Cl. apply unionfind_set_uf in H.
  destruct Lf as (ef & Hef & Haf). pose proof (uentry_lt _ _ _ Hef) as Lf.
  destruct H as [[Ei _]|[_ U]]; [lia|].
  assert (GC : forall i, get_class s' i = get_class s i) by (intros i; unfold get_class; rewrite Cl; reflexivity).
  constructor.
  - unfold eg_wf in *. rewrite U, Cl, set_nth_length. assumption.
  - intros i c (e & He & Hi) Hc. rewrite GC in Hc. rewrite U in He. apply uentry_set_inv in He.
    destruct He as [[-> ->]|[_ He]]; [cbn [aid] in Hi; congruence|]. apply (HG i c); [exists e; auto|assumption].
  - intros i e c He Hi Hc. rewrite GC in Hc. rewrite U in He. apply uentry_set_inv in He.
    destruct He as [[-> ->]|[_ He]]; [cbn [aid] in Hi; congruence|]. eapply HL; eauto.
  - intros i e ci cp He Hi Hci Hcp. rewrite GC in Hci, Hcp. rewrite U in He. apply uentry_set_inv in He.
    destruct He as [[-> ->]|[_ He]]; [|eapply HE; eauto].
    cbn [aid am] in *. rewrite Hcf in Hci. rewrite Hct in Hcp. inversion Hci; inversion Hcp; subst. auto.
Qed.

(* the map written by move_to satisfies the obligations of (a) when both sides are canonical *)
Lemma move_map_ok : forall s from to cf ct,
  get_class s (aid from) = Ok cf -> get_class s (aid to) = Ok ct ->
  canon_ok s from -> canon_ok s to -> values (am from) = values (am to) ->
  let m := am to ** inv (am from) in
  wf m /\ injective m /\ sub_keys (c_slots ct) m /\ vals_in m (c_slots cf).
Proof.
  intros s from to cf ct Hcf Hct (cf' & Hcf' & _ & Wf & Bf & Kf) (ct' & Hct' & _ & Wt & Bt & Kt) V m.
  rewrite Hcf in Hcf'. rewrite Hct in Hct'. inversion Hcf'; inversion Hct'; subst cf' ct'.
  pose proof (proj1 (is_bijection_injective _ Wt) Bt) as It.
  split; [apply compose_partial_wf|]. split; [|split].
  - intros k1 k2 v H1 H2. apply (quot_get _ _ Wt Wf Bf) in H1, H2.
    destruct H1 as (y1 & A1 & B1), H2 as (y2 & A2 & B2). assert (y1 = y2) by congruence. subst. eapply It; eauto.
  - intros k Hk. rewrite <- Kt in Hk. apply keys_spec in Hk. destruct (get (am to) k) as [y|] eqn:G; [|congruence].
    assert (Hy : In y (values (am from))) by (rewrite V; apply values_spec; eauto).
    apply values_spec in Hy; [|assumption]. destruct Hy as [v Gv].
    assert (E : get m k = Some v) by (apply (quot_get _ _ Wt Wf Bf); eauto). congruence.
  - intros k v H. apply (quot_get _ _ Wt Wf Bf) in H. destruct H as (y & _ & G).
    rewrite <- Kf. apply keys_spec. congruence.
Qed.

Theorem uf_slots_ok_set_group : forall s i c g x s',
  uf_slots_ok s -> get_class s i = Ok c -> grp_ok (with_group c g) ->
  upd_class i (fun c => with_group c g) s = Ok (x, s') -> uf_slots_ok s'.
Proof.
  intros s i c g x s' [W HG HL HE] Hc Gn H. apply upd_class_inv in H. destruct H as (c0 & Hc0 & ->).
  rewrite Hc in Hc0. inversion Hc0; subst c0; clear Hc0.
  set (s' := set_classes s _).
  assert (GC : forall j c', get_class s' j = Ok c' ->
            (j <> i /\ get_class s j = Ok c') \/ (j = i /\ c' = with_group c g)).
  { intros j c' H. unfold get_class, s' in H. cbn [classes set_classes] in H.
    destruct (N.eq_dec j i) as [->|Hn].
    - right. split; [reflexivity|]. unfold get_class in Hc. destruct (nth_opt (classes s) (N.to_nat i)) eqn:E; [|discriminate].
      erewrite nth_opt_set_nth_eq in H by eassumption. inversion H. reflexivity.
    - left. split; [assumption|]. rewrite nth_opt_set_other in H by lia. exact H. }
  constructor.
  - unfold eg_wf, s' in *. cbn [unionfind classes set_classes]. rewrite set_nth_length. assumption.
  - intros j c' Hl Hc'. destruct (GC _ _ Hc') as [[_ H]|[-> ->]]; [apply (HG j c'); assumption|assumption].
  - intros j e c' He Hj Hc'. destruct (GC _ _ Hc') as [[_ H]|[-> ->]]; [eapply HL; eauto|].
    cbn [c_slots with_group]. eapply HL; eauto.
  - intros j e ci cp He Hj Hci Hcp.
    assert (X : exists ci0 cp0, get_class s j = Ok ci0 /\ get_class s (aid e) = Ok cp0 /\
                               c_slots ci0 = c_slots ci /\ c_slots cp0 = c_slots cp).
    { destruct (GC _ _ Hci) as [[_ A]|[Ej ->]]; destruct (GC _ _ Hcp) as [[_ B]|[Ee ->]].
      - exists ci, cp. auto.
      - exists ci, c. rewrite Ee. auto.
      - exists c, cp. rewrite Ej. auto.
      - exists c, c. rewrite Ej, Ee. auto. }
    destruct X as (ci0 & cp0 & A & B & <- & <-). eapply HE; eauto.
Qed.
(* ------------------------------------------------------------------ *)
Print Assumptions node_eqb_iff.
Print Assumptions sem_shape.
Print Assumptions sem_eg_eq.
Print Assumptions shape_unapply.
Print Assumptions fresh_rename_spec.
Print Assumptions flat_uf_ok.
Print Assumptions flat_uf_slots_ok.
Print Assumptions add_internal_flat.
Print Assumptions flat_eg_add.
Print Assumptions flat_add_expr.
Print Assumptions flat_reachable_adds.
Print Assumptions insertion_only_invariants.
Print Assumptions lookup_after_add.
Print Assumptions flatb_sound.
Print Assumptions node_okb_sound.
Print Assumptions ix_lookup_after_add.
Print Assumptions ix_lookup_after_add_binder.
Print Assumptions lookup_map_eq.
Print Assumptions ix_eg_eq_sym.
Print Assumptions alloc_eclass_frame.
Print Assumptions uf_slots_ok_alloc_eclass.
Print Assumptions uf_slots_ok_sem.
Print Assumptions uf_slots_ok_raw_add.
Print Assumptions uf_slots_ok_redirect.
Print Assumptions move_map_ok.
Print Assumptions uf_slots_ok_set_group.
