(* EGraph/KeyInv.v -- C01: the key invariant of the hashcons / class node tables at the call of
   handle_congruence.  Part 1: executable candidates and instrumented rebuild (probes evaluated by
   vm_compute); part 2: key_inv, its checker, hc_local; part 3: preservation along the steps of
   handle_pending (Section hypotheses for the union core); part 4: the guarded model and its
   refinement.  See the summary at the end of the file. *)
From SE Require Import Slots.SlotMapFacts Group.GroupSound Lang.LangFacts Lang.ShapeFacts Lang.RenameFacts
  EGraph.Model EGraph.ModelFacts EGraph.ModelMachine EGraph.UnionFindFacts EGraph.InvariantFacts
  EGraph.UnionInvariantFacts EGraph.AddCoversFacts EGraph.MonotoneFacts EGraph.SoundFacts EGraph.SoundSyn
  EGraph.SoundNode EGraph.SoundBase.
From SE Require Import Sem.Deriv Sem.DerivFacts Sem.AlgebraFacts Sem.EgMachine Explain.CheckerFacts.
From SE Require Import EGraph.SoundPending.
Require Import ZArith Lia ZifyBool ZifyN ZifyNat.

Ltac Zify.zify_post_hook ::= Z.div_mod_to_equations.

(* ====================================================================== *)
(* 1. candidates, instrumented model, experiments                          *)
(* ====================================================================== *)

(* ---------- candidates ---------- *)
Definition entry := (node * (slotmap * N))%type.

Definition pend_keyb (s : egraph) (extra : list node) (k : node) : bool :=
  existsb (fun p => node_eqb k (fst p)) (pending s) || existsb (node_eqb k) extra.

Definition all_entriesb (s : egraph) (f : nat -> entry -> bool) : bool :=
  forallb (fun p => forallb (f (fst p)) (c_nodes (snd p))) (combine (seq 0 (List.length (classes s))) (classes s)).

Definition k1b (s : egraph) (extra : list node) : bool :=
  all_entriesb s (fun _ e => pend_keyb s extra (fst e) || key_okb s e).

Definition k3_entry (s : egraph) (e : entry) : bool :=
  match apply_slotmap false (fst (snd e)) (fst e), get_class s (snd (snd e)) with
  | Ok nd, Ok c => match shape s nd, shape s (c_syn c) with
                   | Ok t, Ok t' => node_eqb (fst t) (fst t')
                   | _, _ => false end
  | _, _ => false end.
Definition k3b (s : egraph) : bool := all_entriesb s (fun _ e => k3_entry s e).

(* the key of a non-pending entry is the shape of its stored node *)
Definition k5_entry (s : egraph) (e : entry) : bool :=
  match apply_slotmap false (fst (snd e)) (fst e) with
  | Ok nd => match shape s nd with Ok t => node_eqb (fst t) (fst e) | _ => false end
  | _ => false end.
Definition k5b (s : egraph) (extra : list node) : bool :=
  all_entriesb s (fun _ e => pend_keyb s extra (fst e) || k5_entry s e).

Definition aliveb (s : egraph) (i : nat) : bool :=
  match is_alive s (N.of_nat i) with Ok b => b | _ => false end.
(* K1 for the entries of leader classes only *)
Definition k1ab (s : egraph) (extra : list node) : bool :=
  all_entriesb s (fun i e => negb (aliveb s i) || pend_keyb s extra (fst e) || key_okb s e).
(* dead classes store nothing *)
Definition deadb (s : egraph) : bool := all_entriesb s (fun i _ => aliveb s i).

(* K4: stale implies some child class is not canonical: a key that is a fixed point of shape is ok *)
Definition fixb (s : egraph) (k : node) : bool :=
  match shape s k with Ok t => node_eqb (fst t) k | _ => false end.
Definition k4b (s : egraph) : bool :=
  all_entriesb s (fun _ e => negb (fixb s (fst e)) || key_okb s e).

Definition vec (s : egraph) (extra : list node) : list bool :=
  [keys_okb s; k1b s extra; k3b s; k5b s extra; k1ab s extra; deadb s; k4b s; srcs_okb s; pcs_okb s].

Definition log := list (nat * list bool).
Definition probe (lbl : nat) (extra : list node) : M log := gets (fun s => [(lbl, vec s extra)]).

(* at the call of handle_congruence *)
Definition hc_vec (s : egraph) (key : node) (pc1 : pcont) : list bool :=
  match shape s (fst pc1) with
  | Ok sh =>
    let hit := match na_get (hashcons s) (fst sh) with
               | Some i => match get_class s i with
                           | Ok c => match na_get (c_nodes c) (fst sh) with Some p => Some (fst sh, p) | None => None end
                           | _ => None end
               | None => None end in
    [ match pc_from_shape s (fst sh) with
      | Ok pc2 => match wshape (fst pc1), wshape (fst pc2) with
                  | Ok w1, Ok w2 => node_eqb (fst w1) (fst w2)
                  | _, _ => false end
      | Err _ => false end;
      node_eqb (fst sh) key;
      negb (pend_keyb s [] (fst sh));
      match hit with Some e => key_okb s e | None => false end;
      match hit with Some e => k3_entry s e | None => false end;
      match hit with Some e => k5_entry s e | None => false end;
      match wshape (fst pc1) with Ok w => node_eqb (fst w) (fst sh) | _ => false end;
      fixb s (fst sh) ]
  | Err _ => [false]
  end.

Definition handle_pending_L (sh : node) (ty : bool) : M log :=
  dom l0 <- probe 0 [sh];
  dom i <- reads (fun s => match na_get (hashcons s) sh with Some i => Ok i | None => Err UnwrapNone end);
  if negb ty then ret ((99%nat, []) :: l0) else
  dom c <- reads (fun s => get_class s i);
  dom psn <- Model.lift (match na_get (c_nodes c) sh with Some p => Ok p | None => Err UnwrapNone end);
  let '(bij0, src_id) := psn in
  dom nd <- Model.lift (apply_slotmap false bij0 sh);
  dom _ <- raw_remove_from_class i sh;
  dom l1 <- probe 1 [];
  dom sl <- reads (fun s => class_slots s i);
  let app_i := {| aid := i; am := identity sl |} in
  dom enode <- reads (fun s => find_enode s nd);
  dom i1 <- reads (fun s => find_applied_id s app_i);
  dom ei <- hp_loop 100 src_id enode i1;
  let '(enode, i1) := ei in
  dom l2 <- probe 2 [];
  dom t <- reads (fun s => shape s enode);
  dom lk <- reads (fun s => lookup_internal s t);
  match lk with
  | Some _ =>
      dom pc <- reads (fun s => pc_from_src_id s src_id);
      dom v <- gets (fun s => hc_vec s (fst t) pc);
      dom _ <- handle_congruence pc;
      dom l4 <- probe 4 [];
      ret (l0 ++ l1 ++ l2 ++ [(3%nat, v)] ++ l4)
  | None =>
      let '(sh', bij) := t in
      (* shape of the re-canonicalised stored node = shape of the syntactic node of src *)
      dom v <- gets (fun s => [match get_class s src_id with
                               | Ok c => match shape s (c_syn c) with Ok t' => node_eqb (fst t') sh' | _ => false end
                               | _ => false end]);
      dom m <- (fix go (l : list slot) (m : slotmap) : M slotmap :=
                  match l with
                  | [] => ret m
                  | x :: r => if contains_key m x then go r m
                              else dom f <- fresh; go r (insert x f m)
                  end) (values bij) (inverse_nocheck (am i1));
      let bij' := compose_partial bij m in
      dom _ <- raw_add_to_class (aid i1) (sh', bij') src_id;
      dom l5 <- probe 5 [];
      dom _ <- determine_self_symmetries src_id;
      dom l6 <- probe 6 [];
      ret (l0 ++ l1 ++ l2 ++ [(7%nat, v)] ++ l5 ++ l6)
  end.

Fixpoint rebuild_L (fuel : nat) : M log :=
  match fuel with
  | O => fail OutOfFuel
  | S f =>
      dom p <- gets pending;
      match p with
      | [] => ret []
      | (sh, ty) :: rest =>
          dom _ <- modify (fun s => set_pending s rest);
          dom l <- handle_pending_L sh ty;
          dom r <- rebuild_L f;
          ret (l ++ r)
      end
  end.

Definition mk_singleton_class_L (syn_enode : node) : M (appid * log) :=
  let old_slots := slots syn_enode in
  dom fresh_to_old <- with_ctr (bijection_from_fresh_to old_slots);
  let old_to_fresh := inverse_nocheck fresh_to_old in
  let fresh_slots := values old_to_fresh in
  dom syn_fresh <- with_ctr (apply_slotmap_fresh false old_to_fresh syn_enode);
  dom i <- alloc_eclass fresh_slots syn_fresh;
  dom t <- Model.lift (wshape syn_fresh);
  dom _ <- raw_add_to_class i t i;
  dom _ <- pending_insert (fst t) true;
  dom l <- rebuild_L rebuild_fuel;
  ret ({| aid := i; am := fresh_to_old |}, l).

Definition add_internal_L (t : node * slotmap) : M (appid * log) :=
  dom lk <- reads (fun s => lookup_internal s t);
  match lk with
  | Some x => ret (x, [])
  | None =>
      dom en <- (fun s => let '(r, c) := refresh_private (fst t) (Model.ctr s) in
                          match r with Ok n => Ok (n, set_ctr s c) | Err e => Err e end);
      dom en <- Model.lift (apply_slotmap false (snd t) en);
      dom en <- synify_enode en;
      dom syn <- mk_singleton_class_L en;
      dom r <- reads (fun s => semify_app_id s (fst syn));
      ret (r, snd syn)
  end.

Definition eg_add_L (n : node) : M (appid * log) :=
  dom t <- reads (fun s => shape s n);
  add_internal_L t.

Fixpoint add_expr_L (t : rterm) : M (appid * log) :=
  match t with
  | RT n ch =>
      dom l <- (fix go (l : list rterm) : M (list appid * log) :=
                  match l with
                  | [] => ret ([], [])
                  | c :: r => dom a <- add_expr_L c; dom r' <- go r; ret (fst a :: fst r', snd a ++ snd r')
                  end) ch;
      if Nat.ltb (List.length (app_occ n)) (List.length (fst l)) then fail OutOfBounds
      else dom a <- eg_add_L (set_apps n (fst l)); ret (fst a, snd l ++ snd a)
  end.

Definition eg_union_L (l r : appid) : M log :=
  dom _ <- synify_app_id l;
  dom _ <- synify_app_id r;
  dom out <- uint l r;
  dom l8 <- probe 8 [];
  dom lg <- rebuild_L rebuild_fuel;
  dom l9 <- probe 9 [];
  ret (l8 ++ lg ++ l9).

Fixpoint run_ops_L (terms : list rterm) (ops : list hop) (handles : list appid) : M log :=
  match ops with
  | [] => ret []
  | HAdd k :: t =>
      match nth_opt terms k with
      | None => fail OutOfBounds
      | Some tm => dom a <- add_expr_L tm; dom r <- run_ops_L terms t (handles ++ [fst a]); ret (snd a ++ r)
      end
  | HUnion i j _ :: t =>
      match nth_opt handles i, nth_opt handles j with
      | Some a, Some b => dom l <- eg_union_L a b; dom r <- run_ops_L terms t handles; ret (l ++ r)
      | _, _ => fail OutOfBounds
      end
  end.

Definition run_log (p : list rterm * list hop) : log :=
  match run_ops_L (fst p) (snd p) [] empty_egraph with Ok (l, _) => l | Err _ => [(1000%nat, [false])] end.

(* summary: for the general probe points (labels 0,1,2,4,5,6,8,9), per component: number of false;
   for label 3 and 7 separately *)
Fixpoint addv (a : list nat) (v : list bool) : list nat :=
  match a, v with
  | x :: a', b :: v' => (if b then x else S x) :: addv a' v'
  | [], b :: v' => (if b then O else 1%nat) :: addv [] v'
  | a, [] => a
  end.
Definition summarize (lbls : list nat) (l : log) : nat * list nat :=
  let sel := filter (fun p => existsb (Nat.eqb (fst p)) lbls) l in
  (List.length sel, fold_left (fun a p => addv a (snd p)) sel []).

Definition gen_lbls := [0;1;2;4;5;6;8;9]%nat.
Definition report (p : list rterm * list hop) :=
  let l := run_log p in
  (summarize gen_lbls l, summarize [3%nat] l, summarize [7%nat] l, summarize [1000%nat] l).


Definition hists := [(xT1, xO1); (xT2, xO2); (xT3, xO3); (xT4, xO4); (xT5, xO5); (xT6, xO6); (ex_terms, ex_ops); (ix_terms, ix_ops); (mh_terms, mh_ops1 ++ mh_ops2)].

(* new histories *)
Definition adds (n : nat) := map HAdd (seq 0 n).
(* H1 symmetries *)
Definition hT1 := [xs2 2 2 6; xs2 2 6 2; xun 3 (xs2 2 2 6); xbin 4 (xs2 2 2 6) (xs2 2 6 10); xun 3 (xs2 2 6 2); xbin 4 (xs2 2 6 2) (xs2 2 10 6); xbin 4 (xs2 2 6 10) (xs2 2 2 6); xun 5 (xbin 4 (xs2 2 2 6) (xs2 2 6 10))].
Definition hO1 := adds 8 ++ [xU 0 1] ++ adds 8 ++ [xU 3 6] ++ adds 8.
(* H2 redundant slots *)
Definition hT2 := [xs2 2 2 6; xs2 2 2 10; xun 3 (xs2 2 2 6); xbin 4 (xs2 2 2 6) (xs2 2 6 2); xbin 4 (xs2 2 2 6) (xs2 2 10 2); xun 3 (xs2 2 2 10); xun 5 (xun 3 (xs2 2 2 6)); xlam 6 (xs2 2 2 6); xs2 2 6 2].
Definition hO2 := adds 9 ++ [xU 0 1] ++ adds 9 ++ [xU 0 8] ++ adds 9.
(* H3 binders *)
Definition hT3 := [xs2 2 2 6; xs2 2 6 2; xlam 2 (xs2 2 2 6); xlam 2 (xs2 2 6 2); xlam 6 (xs2 2 2 6); xlam 2 (xlam 6 (xs2 2 2 6)); xlam 6 (xlam 2 (xs2 2 2 6)); xlam 2 (xbin 4 (xs2 2 2 6) (xs1 7 2)); xlam 2 (xbin 4 (xs2 2 6 2) (xs1 7 2)); xs2 2 2 10].
Definition hO3 := adds 10 ++ [xU 0 1] ++ adds 10 ++ [xU 0 9] ++ adds 10.
(* H4 self reference *)
Definition hT4 := [xc0 5; xun 3 (xc0 5); xun 3 (xun 3 (xc0 5)); xs1 7 2; xun 3 (xs1 7 2); xun 3 (xun 3 (xs1 7 2)); xun 3 (xs1 7 6); xbin 4 (xs1 7 2) (xun 3 (xs1 7 6)); xbin 4 (xs1 7 2) (xs1 7 6)].
Definition hO4 := adds 9 ++ [xU 0 1] ++ adds 9 ++ [xU 3 4] ++ adds 9 ++ [xU 3 6] ++ adds 9.
(* H5 cascades *)
Definition f3 t := xun 3 (xun 3 (xun 3 t)).
Definition hT5 := [xc0 5; xc0 6; f3 (xc0 5); f3 (xc0 6); xs1 7 2; xs1 8 2; f3 (xs1 7 2); f3 (xs1 8 2); xs1 8 6; xbin 4 (f3 (xs1 7 2)) (f3 (xs1 8 6)); xbin 4 (f3 (xs1 8 2)) (f3 (xs1 7 6))].
Definition hO5 := adds 11 ++ [xU 0 1] ++ adds 11 ++ [xU 4 5] ++ adds 11 ++ [xU 4 8] ++ adds 11.
(* H6 merging classes whose parents collide *)
Definition hT6 := [xc0 5; xc0 6; xun 3 (xc0 5); xun 3 (xc0 6); xun 9 (xun 3 (xc0 5)); xun 9 (xun 3 (xc0 6)); xbin 4 (xc0 5) (xc0 6); xbin 4 (xc0 6) (xc0 5); xbin 4 (xc0 5) (xc0 5); xc0 7; xun 3 (xc0 7); xbin 4 (xc0 7) (xc0 5)].
Definition hO6 := adds 12 ++ [xU 0 1] ++ adds 12 ++ [xU 0 9] ++ adds 12.
(* H7 3-cycles *)
Definition hT7 := [xs3 2 2 6 10; xs3 2 6 10 2; xun 3 (xs3 2 2 6 10); xbin 4 (xs3 2 2 6 10) (xs3 2 10 2 6); xbin 4 (xs3 2 2 6 10) (xs3 2 6 2 14); xs3 2 6 2 10; xs3 2 2 6 14; xlam 2 (xs3 2 2 6 10); xun 3 (xs3 2 6 2 10)].
Definition hO7 := adds 9 ++ [xU 0 1] ++ adds 9 ++ [xU 0 5] ++ adds 9 ++ [xU 0 6] ++ adds 9.
(* H8 mixture *)
Definition hT8 := [xs2 2 2 6; xs2 9 6 2; xs2 9 2 6; xun 3 (xs2 2 2 6); xun 3 (xs2 9 2 6); xbin 4 (xs2 2 2 6) (xs2 9 2 6); xbin 4 (xs2 9 6 2) (xs2 2 6 2); xbin 4 (xs2 2 2 6) (xs2 9 6 10); xbin 4 (xs2 9 2 6) (xs2 2 6 10); xs1 7 2].
Definition hO8 := adds 10 ++ [xU 0 1] ++ adds 10 ++ [xU 1 2] ++ adds 10 ++ [xU 0 9] ++ adds 10.
(* H9: unions of parents first, then children (upward merges with shrink) *)
Definition hT9 := [xs2 2 2 6; xs1 7 2; xun 3 (xs2 2 2 6); xun 3 (xs1 7 2); xun 5 (xun 3 (xs2 2 2 6)); xun 5 (xun 3 (xs1 7 2)); xbin 4 (xun 3 (xs2 2 2 6)) (xs2 2 2 6); xbin 4 (xun 3 (xs1 7 2)) (xs2 2 2 6)].
Definition hO9 := adds 8 ++ [xU 2 3] ++ adds 8 ++ [xU 0 1] ++ adds 8 ++ [xU 4 5; xU 6 7] ++ adds 8.
Definition hists2 := [(hT1,hO1);(hT2,hO2);(hT3,hO3);(hT4,hO4);(hT5,hO5);(hT6,hO6);(hT7,hO7);(hT8,hO8);(hT9,hO9)].

(* totals over a list of histories *)
Definition addl (a b : nat * list nat) : nat * list nat :=
  ((fst a + fst b)%nat,
   (fix go (x y : list nat) := match x, y with
      | u :: x', v :: y' => (u + v)%nat :: go x' y'
      | [], y => y | x, [] => x end) (snd a) (snd b)).
Definition rep4 := ((nat * list nat) * (nat * list nat) * (nat * list nat) * (nat * list nat))%type.
Definition add4 (a b : rep4) : rep4 :=
  match a, b with (a1,a2,a3,a4), (b1,b2,b3,b4) => (addl a1 b1, addl a2 b2, addl a3 b3, addl a4 b4) end.
Definition zero4 : rep4 := ((O,[]),(O,[]),(O,[]),(O,[])).
Definition total (l : list (list rterm * list hop)) : rep4 := fold_left (fun a p => add4 a (report p)) l zero4.

(* RESULTS.  General probe points (labels 0 entry of handle_pending [the processed key counts as
   pending], 1 after raw_remove_from_class, 2 after hp_loop, 4 after handle_congruence, 5 after
   raw_add_to_class, 6 after determine_self_symmetries, 8 after the top-level uint of eg_union,
   9 after the rebuild of eg_union); vector = number of points at which
   [keys_okb; K1 = k1b; K3 = k3b; K5 = k5b; K1a = k1ab; deadb; K4 = k4b; srcs_okb; pcs_okb] is FALSE.
   Label 3 = the calls of handle_congruence, vector = number of calls at which
   [weak shapes equal; same key; hit entry not pending; key_okb hit; K3 hit; K5 hit; pc_idem; key canonical]
   is FALSE.  Label 7 = the re-added entries (None branch): shape of enode = shape of the syntactic node
   of src.  Label 1000 = model errors. *)
Example probes_x_histories :
  total hists = ((567, [149; 0; 0; 0; 0; 0; 0; 0; 0]), (10, [0; 0; 0; 0; 0; 0; 0; 0]), (95, [0]), (0, []))%nat.
Proof. vm_compute. reflexivity. Qed.
Example probes_new_histories :
  total hists2 = ((853, [291; 0; 0; 0; 0; 0; 0; 0; 0]), (30, [0; 0; 1; 0; 0; 0; 0; 0]), (137, [0]), (0, []))%nat.
Proof. vm_compute. reflexivity. Qed.

(* counterexample for the global invariant keys_okb (K0): a = b with parents g(a), g(b); after the
   top-level uint (label 8) the key of g(a) is stale *)
Definition cxT0 := [xc0 5; xc0 6; xun 3 (xc0 5); xun 3 (xc0 6)].
Definition cxO0 := [HAdd 0; HAdd 1; HAdd 2; HAdd 3; xU 0 1].
Example keys_okb_violated :
  map (fun p => (fst p, nth 0 (snd p) true)) (filter (fun p => Nat.eqb (fst p) 8) (run_log (cxT0, cxO0))) = [(8%nat, false)].
Proof. vm_compute. reflexivity. Qed.
(* ... and all the other candidates hold at all the points of this history *)
Example cx0_others : fst (fst (fst (report (cxT0, cxO0)))) = (31, [7; 0; 0; 0; 0; 0; 0; 0; 0])%nat.
Proof. vm_compute. reflexivity. Qed.

(* counterexample for "the entry hit by the lookup is not pending" (so K1 alone does not give the
   local fact): history H8, one of its four calls *)
Example hit_entry_can_be_pending :
  map (fun p => nth 2 (snd p) true) (filter (fun p => Nat.eqb (fst p) 3) (run_log (hT8, hO8))) = [true; true; false; true].
Proof. vm_compute. reflexivity. Qed.

(* ====================================================================== *)
(* 2. the key invariant and the call site                                  *)
(* ====================================================================== *)

(* K4: a stored key that is canonical in the current state (a fixed point of `shape`) is the
   current shape of the syntactic node of the source of its entry.  Holds for stale keys too:
   a stale key is not canonical.  No reference to `pending`. *)
Definition canonical_key (s : egraph) (k : node) : Prop := exists t, shape s k = Ok t /\ fst t = k.

Definition key_inv (s : egraph) : Prop :=
  forall i c sh bij src, get_class s i = Ok c -> In (sh, (bij, src)) (c_nodes c) -> canonical_key s sh ->
    exists csrc t', get_class s src = Ok csrc /\ shape s (c_syn csrc) = Ok t' /\ fst t' = sh.

Definition key_invb (s : egraph) : bool :=
  forallb (fun c => forallb (fun e => negb (fixb s (fst e)) || key_okb s e) (c_nodes c)) (classes s).

Lemma fixb_canonical : forall s k, canonical_key s k -> fixb s k = true.
Proof. intros s k (t & H & E). unfold fixb. rewrite H, E. apply node_eqb_refl. Qed.

Lemma canonical_fixb : forall s k, fixb s k = true -> canonical_key s k.
Proof.
  intros s k H. unfold fixb in H. destruct (shape s k) as [t|] eqn:E; [|discriminate].
  apply node_eqb_iff in H. exists t. split; [exact E|exact H].
Qed.

Theorem key_invb_sound : forall s, key_invb s = true -> key_inv s.
Proof.
  intros s H i c sh bij src Hc Hin Can. unfold key_invb in H.
  pose proof (proj1 (forallb_forall _ _) H c (get_class_In _ _ _ Hc)) as H1. cbv beta in H1.
  pose proof (proj1 (forallb_forall _ _) H1 _ Hin) as H2. cbv beta in H2. cbn [fst] in H2.
  rewrite (fixb_canonical _ _ Can) in H2. cbn [negb orb] in H2.
  unfold key_okb in H2. cbn [fst snd] in H2.
  destruct (get_class s src) as [csrc|]; [|discriminate].
  destruct (shape s (c_syn csrc)) as [t'|] eqn:E; [|discriminate].
  apply node_eqb_iff in H2. exists csrc, t'. auto.
Qed.

Theorem key_inv_empty : key_inv empty_egraph.
Proof. intros i c sh bij src Hc. unfold get_class in Hc. cbn [classes empty_egraph] in Hc. destruct (N.to_nat i); discriminate. Qed.

(* the two idempotence facts of `shape` used at the call site, as named propositions:
   pc_idem: pre_shape is idempotent up to the weak shape, for the proven-contains of a class
   (first conjunct of pcs_okb; component 7 of hc_vec);
   shape_canonical: the node part of a shape is canonical (component 8 of hc_vec) *)
Definition pc_idem (s : egraph) (pc1 : pcont) : Prop :=
  forall sh w1, shape s (fst pc1) = Ok sh -> wshape (fst pc1) = Ok w1 -> fst sh = fst w1.
Definition shape_canonical (s : egraph) (n : node) : Prop :=
  forall sh, shape s n = Ok sh -> canonical_key s (fst sh).

(* THE KEY LEMMA: at the call of handle_congruence the two weak shapes composed by pc_congruence
   are equal *)
Theorem hc_local : forall s src pc1 sh pc2 w1 w2, key_inv s ->
  pc_idem s pc1 -> shape_canonical s (fst pc1) ->
  pc_from_src_id s src = Ok pc1 -> shape s (fst pc1) = Ok sh -> pc_from_shape s (fst sh) = Ok pc2 ->
  wshape (fst pc1) = Ok w1 -> wshape (fst pc2) = Ok w2 -> fst w1 = fst w2.
Proof.
  intros s src pc1 sh pc2 w1 w2 K PI SC P1 Hsh P2 W1 W2.
  unfold pc_from_shape in P2. destruct (na_get (hashcons s) (fst sh)) as [i2|]; [|discriminate].
  destruct (get_class s i2) as [c2|] eqn:Hc2; cbn [bind] in P2; [|discriminate].
  destruct (na_get (c_nodes c2) (fst sh)) as [[bj src2]|] eqn:G; [|discriminate].
  apply na_get_in in G.
  destruct (K i2 c2 (fst sh) bj src2 Hc2 G (SC sh Hsh)) as (csrc & t' & Hcs & Ht' & Et').
  destruct (pc_from_src_spec _ _ _ P2) as (c' & Hc' & PS & _). rewrite Hcs in Hc'. inversion Hc'; subst c'.
  unfold shape in Ht'. rewrite PS in Ht'. cbn [bind] in Ht'. rewrite W2 in Ht'. inversion Ht'; subst t'.
  rewrite Et'. symmetry. exact (PI sh w1 Hsh W1).
Qed.

Corollary hc_local_b : forall s src pc1 sh pc2 w1 w2, key_inv s ->
  pc_idem s pc1 -> shape_canonical s (fst pc1) ->
  pc_from_src_id s src = Ok pc1 -> shape s (fst pc1) = Ok sh -> pc_from_shape s (fst sh) = Ok pc2 ->
  wshape (fst pc1) = Ok w1 -> wshape (fst pc2) = Ok w2 -> node_eqb (fst w1) (fst w2) = true.
Proof. intros. apply node_eqb_iff. eapply hc_local; eauto. Qed.

(* ====================================================================== *)
(* 3. preservation                                                         *)
(* ====================================================================== *)

(* a step that keeps the union-find and the slots / group / syntactic node of every class (sem_eq:
   `shape` is the same function in both states) and whose stored entries are old entries or
   satisfy the invariant keeps key_inv *)
Theorem key_inv_step : forall s s', sem_eq s s' ->
  (forall j cj sh bij src, get_class s' j = Ok cj -> In (sh, (bij, src)) (c_nodes cj) ->
     (exists j0 c, get_class s j0 = Ok c /\ In (sh, (bij, src)) (c_nodes c)) \/
     (canonical_key s sh -> exists csrc t', get_class s src = Ok csrc /\ shape s (c_syn csrc) = Ok t' /\ fst t' = sh)) ->
  key_inv s -> key_inv s'.
Proof.
  intros s s' Q HN K j cj sh bij src Hj Hin (t & Ht & Et).
  assert (Can : canonical_key s sh) by (exists t; rewrite (sem_shape s s' sh Q); auto).
  assert (R : exists csrc t', get_class s src = Ok csrc /\ shape s (c_syn csrc) = Ok t' /\ fst t' = sh).
  { destruct (HN _ _ _ _ _ Hj Hin) as [(j0 & c & Hc & Hin0)|F]; [|exact (F Can)].
    exact (K j0 c sh bij src Hc Hin0 Can). }
  destruct R as (csrc & t' & Hcs & Ht' & Et').
  destruct (get_class_sem_ok s s' src csrc Q Hcs) as (c' & Hc' & Cs).
  apply csem_inv in Cs. destruct Cs as (_ & _ & Sy).
  exists c', t'. split; [exact Hc'|]. split; [|exact Et'].
  rewrite Sy, <- (sem_shape s s' _ Q). exact Ht'.
Qed.

(* steps that keep the classes and the union-find: pending bookkeeping, the counter *)
Lemma key_inv_cuR : forall s s', cuR s s' -> key_inv s -> key_inv s'.
Proof.
  intros s s' [A B] K. apply (key_inv_step s s'); [split; [congruence|rewrite A; reflexivity]| |exact K].
  intros j cj sh bij src Hj Hin. left. exists j, cj. split; [|exact Hin]. unfold get_class in *. rewrite <- A. exact Hj.
Qed.

Lemma key_inv_set_pending : forall s p, key_inv s -> key_inv (set_pending s p).
Proof. intros s p. apply key_inv_cuR. split; reflexivity. Qed.
Lemma key_inv_set_ctr : forall s c, key_inv s -> key_inv (set_ctr s c).
Proof. intros s c. apply key_inv_cuR. split; reflexivity. Qed.
Lemma key_inv_set_hashcons : forall s h, key_inv s -> key_inv (set_hashcons s h).
Proof. intros s h. apply key_inv_cuR. split; reflexivity. Qed.

Theorem key_inv_raw_remove : forall id sh s p s', key_inv s -> raw_remove_from_class id sh s = Ok (p, s') -> key_inv s'.
Proof.
  intros id sh s p s' K H. apply (key_inv_step s s' (proj1 (s_raw_remove _ _ _ _ _ H))); [|exact K].
  intros j cj sh0 bij src Hj Hin. left. exists j. exact (raw_remove_nodes _ _ _ _ _ H _ _ _ Hj Hin).
Qed.

(* raw_add_to_class keeps the invariant if the key of the written entry is the shape of the syntactic
   node of its source (label 7 of the probes) *)
Theorem key_inv_raw_add : forall id sh bij src s x s', key_inv s ->
  (exists csrc t', get_class s src = Ok csrc /\ shape s (c_syn csrc) = Ok t' /\ fst t' = sh) ->
  raw_add_to_class id (sh, bij) src s = Ok (x, s') -> key_inv s'.
Proof.
  intros id sh bij src s x s' K New H. apply (key_inv_step s s' (proj1 (s_raw_add _ _ _ _ _ _ H))); [|exact K].
  intros j cj sh0 bij0 src0 Hj Hin.
  destruct (raw_add_nodes _ _ _ _ _ _ _ H _ _ _ Hj Hin) as [[-> Eq]|(c & Hc & Hin0)].
  - inversion Eq; subst sh0 bij0 src0. right. intros _. exact New.
  - left. exists j, c. auto.
Qed.

Local Notation "a ** b" := (compose_partial a b) (at level 40, left associativity).
Local Notation inv := inverse_nocheck.
Local Notation ectr := Model.ctr.

(* the statements assumed in Section KeyPending, as named propositions *)
Definition spec_HK_uint : Prop :=
  forall l r s b s', inv3 s -> key_inv s -> uint l r s = Ok (b, s') -> key_inv s'.
Definition spec_HK_shrink : Prop :=
  forall from cap s x s', inv3 s -> key_inv s -> shrink_slots uint from cap s = Ok (x, s') -> key_inv s'.
(* the re-added entry (None branch of handle_pending): the shape of the re-canonicalised stored node
   is the shape of the syntactic node of the source (label 7 of the probes) *)
Definition spec_HK_readd : Prop :=
  forall s sh i c bij0 src nd u1 sA cA enode0 i0 enode i1 sB t,
    inv3 s -> key_inv s ->
    na_get (hashcons s) sh = Some i -> get_class s i = Ok c -> na_get (c_nodes c) sh = Some (bij0, src) ->
    apply_slotmap false bij0 sh = Ok nd ->
    raw_remove_from_class i sh s = Ok (u1, sA) -> get_class sA i = Ok cA ->
    find_enode sA nd = Ok enode0 -> find_applied_id sA {| aid := i; am := identity (c_slots cA) |} = Ok i0 ->
    hp_loop 100 src enode0 i0 sA = Ok ((enode, i1), sB) ->
    shape sB enode = Ok t -> lookup_internal sB t = Ok None ->
    exists csrc t', get_class sB src = Ok csrc /\ shape sB (c_syn csrc) = Ok t' /\ fst t' = fst t.

Section KeyPending.
  (* ASSUMED (tested by the probes at labels 2, 4, 6, 8 on reachable states): the union core keeps key_inv *)
  Hypothesis HK_uint : spec_HK_uint.
  Hypothesis HK_shrink : spec_HK_shrink.
  (* ASSUMED (tested: label 7) *)
  Hypothesis HK_readd : spec_HK_readd.

  Lemma key_inv_pcc_uint : forall pc1 pc2 s ab s1 b s', inv3 s -> key_inv s ->
    pc_congruence pc1 pc2 s = Ok (ab, s1) -> uint (fst ab) (snd ab) s1 = Ok (b, s') -> key_inv s'.
  Proof.
    intros pc1 pc2 s ab s1 b s' I3 K H U.
    destruct (semn_step3 _ _ (s_pc_congruence _ _ _ _ _ H) (n_pc_congruence _ _ _ _ _ H) I3) as [Hs1 _].
    exact (HK_uint _ _ s1 b s' Hs1 (key_inv_cuR _ _ (cu_pc_congruence _ _ _ _ _ H) K) U).
  Qed.

  Theorem key_inv_handle_congruence : forall pc1 s x s', inv3 s -> key_inv s ->
    handle_congruence pc1 s = Ok (x, s') -> key_inv s'.
  Proof.
    intros pc1 s x s' I3 K H. unfold handle_congruence in H.
    apply bind_reads_inv in H. destruct H as (sh & Hsh & H).
    apply bind_reads_inv in H. destruct H as (pc2 & P2 & H).
    apply mbind_inv in H. destruct H as (ab & s1 & H1 & H).
    apply mbind_inv in H. destruct H as (b & s2 & H2 & H). inversion H; subst x s2; clear H.
    exact (key_inv_pcc_uint pc1 pc2 s ab s1 b s' I3 K H1 H2).
  Qed.

  Theorem key_inv_handle_shrink : forall src s x s', inv3 s -> key_inv s ->
    handle_shrink_in_upwards_merge src s = Ok (x, s') -> key_inv s'.
  Proof.
    intros src s x s' I3 K H. unfold handle_shrink_in_upwards_merge in H.
    apply bind_reads_inv in H. destruct H as (pc1 & P1 & H).
    apply bind_reads_inv in H. destruct H as (n2 & F2 & H).
    apply mbind_inv in H. destruct H as ([a b] & s1 & H1 & H).
    destruct (semn_step3 _ _ (s_pc_congruence _ _ _ _ _ H1) (n_pc_congruence _ _ _ _ _ H1) I3) as [Hs1 _].
    exact (HK_shrink _ _ s1 x s' Hs1 (key_inv_cuR _ _ (cu_pc_congruence _ _ _ _ _ H1) K) H).
  Qed.

  Lemma key_inv_hp_loop : forall fuel src enode i s r s', inv3 s -> key_inv s ->
    hp_loop fuel src enode i s = Ok (r, s') -> key_inv s'.
  Proof.
    induction fuel as [|f IH]; intros src enode i s r s' I3 K H; cbn [hp_loop] in H; [discriminate|].
    destruct (sset_subset (values (am i)) (slots enode)) eqn:Eq.
    - inversion H; subst r s'. exact K.
    - apply mbind_inv in H. destruct H as (u & s1 & H1 & H).
      destruct (inv3_handle_shrink _ _ _ _ H1 I3) as [I1 E1].
      pose proof (key_inv_handle_shrink _ _ _ _ I3 K H1) as K1.
      apply bind_reads_inv in H. destruct H as (enode' & He & H).
      apply bind_reads_inv in H. destruct H as (i' & Hi & H).
      exact (IH src enode' i' s1 r s' I1 K1 H).
  Qed.

  Theorem key_inv_determine_self_symmetries : forall src s x s', inv3 s -> key_inv s ->
    determine_self_symmetries src s = Ok (x, s') -> key_inv s'.
  Proof.
    intros src s x s' I3 K H. unfold determine_self_symmetries in H.
    apply bind_reads_inv in H. destruct H as (pc1 & P1 & H).
    apply mbind_inv in H. destruct H as (w & s0 & Hw & H). apply lift_inv in Hw. destruct Hw as [Hw ->].
    cbv zeta in H. apply bind_reads_inv in H. destruct H as (vs & Hvs & H).
    destruct (pc_props s src pc1 (proj1 (proj1 I3)) P1) as (L1 & _).
    assert (G : forall l s1 x s', inv3 s1 -> ext s s1 -> key_inv s1 ->
              iterM (fun pn2 => dom w2 <- Model.lift (wshape pn2);
                       if node_eqb (fst w) (fst w2) then
                         dom ab <- pc_congruence pc1 (pn2, snd pc1); dom _ <- uint (fst ab) (snd ab); ret tt
                       else ret tt) l s1 = Ok (x, s') -> key_inv s').
    { clear H x s'. induction l as [|pn2 t IH]; intros s1 x s' Hs1 E01 K1 H; cbn [iterM] in H.
      - inversion H; subst. exact K1.
      - apply mbind_inv in H. destruct H as (u & s2 & H1 & H).
        assert (S12 : inv3 s2 /\ ext s1 s2 /\ key_inv s2).
        { apply mbind_inv in H1. destruct H1 as (w2 & s0 & Hw2 & H1). apply lift_inv in Hw2. destruct Hw2 as [Hw2 ->].
          destruct (node_eqb (fst w) (fst w2)) eqn:EQ;
            [|inversion H1; subst; split; [assumption|split; [apply ext_refl|assumption]]].
          apply mbind_inv in H1. destruct H1 as (ab & s3 & H3 & H1).
          apply mbind_inv in H1. destruct H1 as (b & s4 & H4 & H1). inversion H1; subst u s4; clear H1.
          destruct (inv3_pcc_uint s s1 src pc1 (pn2, snd pc1) ab s3 b s2 I3 E01 Hs1 P1 L1 H3 H4) as [A B].
          split; [exact A|]. split; [exact B|].
          exact (key_inv_pcc_uint pc1 (pn2, snd pc1) s1 ab s3 b s2 Hs1 K1 H3 H4). }
        destruct S12 as (Hs2' & E12 & K2).
        exact (IH s2 x s' Hs2' (ext_trans _ _ _ E01 E12) K2 H). }
    exact (G vs s x s' I3 (ext_refl s) K H).
  Qed.

  Theorem key_inv_handle_pending : forall sh ty s x s', inv3 s -> key_inv s ->
    handle_pending sh ty s = Ok (x, s') -> key_inv s'.
  Proof.
    intros sh ty s x s' I3 K H. unfold handle_pending in H.
    apply bind_reads_inv in H. destruct H as (i & Hi & H). cbv beta in Hi.
    destruct (na_get (hashcons s) sh) as [i'|] eqn:Hh; [|discriminate]. inversion Hi; subst i'; clear Hi.
    destruct (negb ty); [inversion H; subst; exact K|].
    apply bind_reads_inv in H. destruct H as (c & Hc & H).
    apply mbind_inv in H. destruct H as ([bij0 src_id] & s0 & Hp & H). apply lift_inv in Hp. destruct Hp as [Hp ->].
    destruct (na_get (c_nodes c) sh) as [p0|] eqn:Hp0; [|discriminate]. inversion Hp; subst p0; clear Hp.
    apply mbind_inv in H. destruct H as (nd & s0 & Hnd & H). apply lift_inv in Hnd. destruct Hnd as [Hnd ->].
    apply mbind_inv in H. destruct H as (u1 & sA & HA & H).
    assert (IA : inv3 sA /\ ext s sA).
    { destruct I3 as [Hs2 HN]. destruct (semR_step2 _ _ (s_raw_remove _ _ _ _ _ HA) Hs2) as [HsA EA].
      split; [|exact EA]. split; [exact HsA|eapply nodes_raw_remove; eauto]. }
    destruct IA as [IA EA].
    pose proof (key_inv_raw_remove _ _ _ _ _ K HA) as KA.
    apply bind_reads_inv in H. destruct H as (sl & Hsl & H). cbv zeta in H.
    apply bind_reads_inv in H. destruct H as (enode0 & Hen & H).
    apply bind_reads_inv in H. destruct H as (i0 & Hi0 & H).
    unfold class_slots in Hsl. destruct (get_class sA i) as [cA|] eqn:HcA; cbn [bind] in Hsl; [|discriminate].
    inversion Hsl; subst sl; clear Hsl.
    pose proof (covers_lcanon sA _ i0 (proj1 (proj1 IA)) (covers_identity sA i cA HcA) Hi0) as L0.
    apply mbind_inv in H. destruct H as ([enode i1] & sB & HB & H).
    destruct (inv3_hp_loop _ _ _ _ _ _ _ IA L0 (ex_intro _ nd Hen) HB) as (IB & EB & L1 & (n0 & Fn) & Sub). cbn [fst snd] in *.
    pose proof (key_inv_hp_loop _ _ _ _ _ _ _ IA KA HB) as KB.
    apply bind_reads_inv in H. destruct H as (t & Ht & H).
    apply bind_reads_inv in H. destruct H as (lk & Hlk & H).
    destruct lk as [hit|].
    - apply bind_reads_inv in H. destruct H as (pc & P & H).
      exact (key_inv_handle_congruence _ _ _ _ IB KB H).
    - pose proof (HK_readd s sh i c bij0 src_id nd u1 sA cA enode0 i0 enode i1 sB t
                    I3 K Hh Hc Hp0 Hnd HA HcA Hen Hi0 HB Ht Hlk) as New.
      destruct t as [sh' bij]. pose proof Ht as Ht0. cbn [fst] in New.
      apply mbind_inv in H. destruct H as (m & sC & Hm & H).
      change (fill_fresh (values bij) (inv (am i1)) sB = Ok (m, sC)) in Hm. cbv zeta in H.
      apply mbind_inv in H. destruct H as (u2 & sD & HD & H).
      pose proof IB as [[HsB HbB] NB].
      destruct L1 as [Ld1 (cB & HcB & G1 & W1 & B1 & K1)].
      pose proof (proj1 (is_bijection_injective _ W1) B1) as Inj1.
      unfold shape in Ht. destruct (pre_shape sB enode) as [p|] eqn:Pp; cbn [bind] in Ht; [|discriminate].
      destruct (shape_bij_props _ _ _ Ht) as (Wb & Bb & _). destruct (shape_bij _ _ _ Ht) as (Sb1 & Sb2 & _).
      pose proof (proj1 (is_bijection_injective _ Wb) Bb) as Injb.
      destruct (fill_fresh_spec _ _ _ _ _ (inverse_wf (am i1)) Hm) as (Wm & _ & Keep & (cC & ->)).
      assert (Bnd : forall k v, get (inv (am i1)) k = Some v -> v < ectr sB).
      { intros k v G. apply (get_inverse _ _ _ W1 B1) in G.
        assert (Hv : In v (c_slots cB)) by (rewrite <- K1; apply keys_spec; congruence).
        destruct (ei_cls sB HsB _ _ HcB) as (_ & _ & Isyn). apply Isyn, slots_spec, pub_occ_all_occ in Hv.
        exact (HbB _ _ _ HcB Hv). }
      destruct (fill_fresh_inj _ _ _ _ _ (inverse_wf (am i1)) (inv_injective _ W1 Inj1) Bnd Hm) as [Injm _].
      assert (IC : inv3 (set_ctr sB cC) /\ ext sB (set_ctr sB cC)).
      { apply (semn_step3 sB (set_ctr sB cC)); [|apply nsame_ctr|exact IB].
        exact (s_fill_fresh _ _ _ _ _ Hm). }
      destruct IC as [IC EC].
      assert (EO : entry_ok (c_slots cB) (sh', (bij ** m, src_id))).
      { unfold entry_ok. cbn [fst snd]. split; [apply compose_partial_wf|]. split; [apply compose_injective; assumption|]. split.
        - intros k Hk. apply Sb2. rewrite get_compose_partial in Hk by assumption. destruct (get bij k); congruence.
        - intros y Hy. rewrite <- K1 in Hy. apply keys_spec in Hy. destruct (get (am i1) y) as [v|] eqn:Gy; [|congruence].
          assert (Hv : In v (slots enode)).
          { apply mem_in. unfold sset_subset in Sub. apply (proj1 (forallb_forall _ _) Sub). apply values_spec; eauto. }
          apply (pre_shape_keeps_proved sB n0 enode p HsB Fn Pp), slots_spec, Sb1 in Hv. destruct Hv as (k & Gk). exists k.
          rewrite get_compose_partial by assumption. rewrite Gk.
          assert (Gi : get (inv (am i1)) v = Some y) by (apply (get_inverse _ _ _ W1 B1); exact Gy).
          rewrite Keep by congruence. exact Gi. }
      assert (ID : inv3 sD).
      { destruct IC as [Hs2 HN]. destruct (semR_step2 _ _ (s_raw_add _ _ _ _ _ _ HD) Hs2) as [HsD ED].
        split; [exact HsD|]. eapply nodes_raw_add; [exact HN| |exact EO|exact HD]. exact HcB. }
      assert (KD : key_inv sD).
      { refine (key_inv_raw_add _ _ _ _ _ _ _ (key_inv_set_ctr sB cC KB) _ HD).
        destruct New as (csrc & t' & Hcs & Ht' & Et'). exists csrc, t'. split; [exact Hcs|]. split; [|exact Et'].
        rewrite <- (sem_shape sB (set_ctr sB cC) _ (sem_set_ctr sB cC)). exact Ht'. }
      exact (key_inv_determine_self_symmetries _ _ _ _ ID KD H).
  Qed.

  Theorem key_inv_rebuild : forall fuel s x s', inv3 s -> key_inv s -> rebuild fuel s = Ok (x, s') -> key_inv s'.
  Proof.
    induction fuel as [|f IH]; intros s x s' I K H; [discriminate|]. rewrite rebuild_S in H.
    apply mbind_inv in H. destruct H as (p & s0 & Hp & H). inversion Hp; subst p s0; clear Hp.
    destruct (pending s) as [|[sh ty] rest]; [inversion H; subst; exact K|].
    apply mbind_inv in H. destruct H as (u & s1 & H1 & H).
    destruct (s_modify_pend' (fun _ => rest) _ _ _ H1) as [A1 N1].
    destruct (semn_step3 _ _ A1 N1 I) as [I1 E1].
    assert (K1 : key_inv s1) by (inversion H1; apply key_inv_set_pending; exact K).
    apply mbind_inv in H. destruct H as (u2 & s2 & H2 & H).
    destruct (inv3_handle_pending pre_shape_keeps_proved _ _ _ _ _ H2 I1) as [I2 E2].
    exact (IH _ _ _ I2 (key_inv_handle_pending _ _ _ _ _ I1 K1 H2) H).
  Qed.
End KeyPending.

(* ====================================================================== *)
(* 4. the guarded model                                                    *)
(* ====================================================================== *)

(* ------------------------------------------------------------------ *)
(* A guarded copy of the model: handle_congruence additionally asserts that the two
   congruent nodes have the same weak shape; every other layer is a verbatim copy that
   calls the guarded layer below it. *)

Definition handle_congruence_g (pc1 : pcont) : M unit :=
  dom sh <- reads (fun s => shape s (fst pc1));
  dom pc2 <- reads (fun s => pc_from_shape s (fst sh));
  dom w1 <- Model.lift (wshape (fst pc1));
  dom w2 <- Model.lift (wshape (fst pc2));
  if negb (node_eqb (fst w1) (fst w2)) then fail AssertFailed else
  dom ab <- pc_congruence pc1 pc2;
  dom _ <- uint (fst ab) (snd ab);
  ret tt.

Definition handle_pending_g (sh : node) (ty : bool) : M unit :=
  dom i <- reads (fun s => match na_get (hashcons s) sh with Some i => Ok i | None => Err UnwrapNone end);
  if negb ty then ret tt else
  dom c <- reads (fun s => get_class s i);
  dom psn <- Model.lift (match na_get (c_nodes c) sh with Some p => Ok p | None => Err UnwrapNone end);
  let '(bij0, src_id) := psn in
  dom nd <- Model.lift (apply_slotmap false bij0 sh);
  dom _ <- raw_remove_from_class i sh;
  dom sl <- reads (fun s => class_slots s i);
  let app_i := {| aid := i; am := identity sl |} in
  dom enode <- reads (fun s => find_enode s nd);
  dom i1 <- reads (fun s => find_applied_id s app_i);
  dom ei <- hp_loop 100 src_id enode i1;
  let '(enode, i1) := ei in
  dom t <- reads (fun s => shape s enode);
  dom lk <- reads (fun s => lookup_internal s t);
  match lk with
  | Some _ =>
      dom pc <- reads (fun s => pc_from_src_id s src_id);
      handle_congruence_g pc
  | None =>
      let '(sh', bij) := t in
      dom m <- (fix go (l : list slot) (m : slotmap) : M slotmap :=
                  match l with
                  | [] => ret m
                  | x :: r => if contains_key m x then go r m
                              else dom f <- fresh; go r (insert x f m)
                  end) (values bij) (inverse_nocheck (am i1));
      let bij' := compose_partial bij m in
      dom _ <- raw_add_to_class (aid i1) (sh', bij') src_id;
      determine_self_symmetries src_id
  end.

Fixpoint rebuild_g (fuel : nat) : M unit :=
  match fuel with
  | O => fail OutOfFuel
  | S f =>
      dom p <- gets pending;
      match p with
      | [] => ret tt
      | (sh, ty) :: rest =>
          dom _ <- modify (fun s => set_pending s rest);
          dom _ <- handle_pending_g sh ty;
          rebuild_g f
      end
  end.

Definition mk_singleton_class_g (syn_enode : node) : M appid :=
  let old_slots := slots syn_enode in
  dom fresh_to_old <- with_ctr (bijection_from_fresh_to old_slots);
  let old_to_fresh := inverse_nocheck fresh_to_old in
  let fresh_slots := values old_to_fresh in
  dom syn_fresh <- with_ctr (apply_slotmap_fresh false old_to_fresh syn_enode);
  dom i <- alloc_eclass fresh_slots syn_fresh;
  dom t <- Model.lift (wshape syn_fresh);
  dom _ <- raw_add_to_class i t i;
  dom _ <- pending_insert (fst t) true;
  dom _ <- rebuild_g rebuild_fuel;
  ret {| aid := i; am := fresh_to_old |}.

Definition add_internal_g (t : node * slotmap) : M appid :=
  dom lk <- reads (fun s => lookup_internal s t);
  match lk with
  | Some x => ret x
  | None =>
      dom en <- (fun s => let '(r, c) := refresh_private (fst t) (Model.ctr s) in
                          match r with Ok n => Ok (n, set_ctr s c) | Err e => Err e end);
      dom en <- Model.lift (apply_slotmap false (snd t) en);
      dom en <- synify_enode en;
      dom syn <- mk_singleton_class_g en;
      reads (fun s => semify_app_id s syn)
  end.

Definition eg_add_g (n : node) : M appid :=
  dom t <- reads (fun s => shape s n);
  add_internal_g t.

Fixpoint add_expr_g (t : rterm) : M appid :=
  match t with
  | RT n ch =>
      dom l <- (fix go (l : list rterm) : M (list appid) :=
                  match l with
                  | [] => ret []
                  | c :: r => dom a <- add_expr_g c; dom r' <- go r; ret (a :: r')
                  end) ch;
      if Nat.ltb (List.length (app_occ n)) (List.length l) then fail OutOfBounds
      else eg_add_g (set_apps n l)
  end.

Definition eg_union_g (l r : appid) : M bool :=
  dom _ <- synify_app_id l;
  dom _ <- synify_app_id r;
  dom out <- uint l r;
  dom _ <- rebuild_g rebuild_fuel;
  ret out.

Fixpoint run_ops_g (terms : list rterm) (ops : list hop) (handles : list appid) : M (list appid) :=
  match ops with
  | [] => ret handles
  | HAdd k :: t =>
      match nth_opt terms k with
      | None => fail OutOfBounds
      | Some tm => dom a <- add_expr_g tm; run_ops_g terms t (handles ++ [a])
      end
  | HUnion i j _ :: t =>
      match nth_opt handles i, nth_opt handles j with
      | Some a, Some b => dom _ <- eg_union_g a b; run_ops_g terms t handles
      | _, _ => fail OutOfBounds
      end
  end.

(* ------------------------------------------------------------------ *)
(* generic refinement combinators *)

Definition refines {A} (m' m : M A) : Prop := forall s r, m' s = Ok r -> m s = Ok r.

Lemma refines_refl : forall A (m : M A), refines m m.
Proof. intros A m s r H. exact H. Qed.

Lemma refines_bind : forall A C (m' m : M A) (k' k : A -> M C),
  refines m' m -> (forall x, refines (k' x) (k x)) ->
  refines (dom x <- m'; k' x) (dom x <- m; k x).
Proof.
  intros A C m' m k' k Hm Hk s r H. unfold mbind in *.
  destruct (m' s) as [[a s1]|e] eqn:E; [|discriminate].
  rewrite (Hm s (a, s1) E). apply Hk. exact H.
Qed.

(* a pure step on the left that does not exist on the right *)
Lemma refines_lift_l : forall A C (x : res A) (k : A -> M C) (m : M C),
  (forall w, refines (k w) m) -> refines (dom w <- Model.lift x; k w) m.
Proof.
  intros A C x k m Hk s r H. unfold mbind, Model.lift in H.
  destruct x as [w|e]; [|discriminate]. apply (Hk w). exact H.
Qed.

(* an assertion on the left that does not exist on the right *)
Lemma refines_guard_l : forall A (b : bool) (e : site) (m' m : M A),
  refines m' m -> refines (if b then fail e else m') m.
Proof.
  intros A b e m' m Hm s r H. destruct b; [unfold fail in H; discriminate|]. apply Hm. exact H.
Qed.

(* ------------------------------------------------------------------ *)
(* the layers *)

Lemma handle_congruence_g_refines : forall pc1 s r,
  handle_congruence_g pc1 s = Ok r -> handle_congruence pc1 s = Ok r.
Proof.
  intros pc1. change (refines (handle_congruence_g pc1) (handle_congruence pc1)).
  unfold handle_congruence_g, handle_congruence.
  apply refines_bind; [apply refines_refl|intros sh].
  apply refines_bind; [apply refines_refl|intros pc2].
  apply refines_lift_l. intros w1. apply refines_lift_l. intros w2.
  apply refines_guard_l. apply refines_refl.
Qed.

Lemma handle_pending_g_refines : forall sh ty s r,
  handle_pending_g sh ty s = Ok r -> handle_pending sh ty s = Ok r.
Proof.
  intros sh ty. change (refines (handle_pending_g sh ty) (handle_pending sh ty)).
  unfold handle_pending_g, handle_pending.
  apply refines_bind; [apply refines_refl|intros i].
  destruct (negb ty); [apply refines_refl|].
  apply refines_bind; [apply refines_refl|intros c].
  apply refines_bind; [apply refines_refl|intros [bij0 src_id]].
  apply refines_bind; [apply refines_refl|intros nd].
  apply refines_bind; [apply refines_refl|intros u0].
  apply refines_bind; [apply refines_refl|intros sl].
  apply refines_bind; [apply refines_refl|intros enode].
  apply refines_bind; [apply refines_refl|intros i1].
  apply refines_bind; [apply refines_refl|intros [enode' i1']].
  apply refines_bind; [apply refines_refl|intros t].
  apply refines_bind; [apply refines_refl|intros lk].
  destruct lk as [x|].
  - apply refines_bind; [apply refines_refl|intros pc].
    unfold refines. apply handle_congruence_g_refines.
  - apply refines_refl.
Qed.

Lemma rebuild_g_refines : forall fuel s r, rebuild_g fuel s = Ok r -> rebuild fuel s = Ok r.
Proof.
  intros fuel. change (refines (rebuild_g fuel) (rebuild fuel)).
  induction fuel as [|f IH]; cbn [rebuild_g rebuild]; [apply refines_refl|].
  apply refines_bind; [apply refines_refl|intros p].
  destruct p as [|[sh ty] rest]; [apply refines_refl|].
  apply refines_bind; [apply refines_refl|intros u0].
  apply refines_bind; [|intros u1; exact IH].
  unfold refines. apply handle_pending_g_refines.
Qed.

Lemma mk_singleton_class_g_refines : forall n s r,
  mk_singleton_class_g n s = Ok r -> mk_singleton_class n s = Ok r.
Proof.
  intros n. change (refines (mk_singleton_class_g n) (mk_singleton_class n)).
  unfold mk_singleton_class_g, mk_singleton_class.
  apply refines_bind; [apply refines_refl|intros fto].
  apply refines_bind; [apply refines_refl|intros sf].
  apply refines_bind; [apply refines_refl|intros i].
  apply refines_bind; [apply refines_refl|intros t].
  apply refines_bind; [apply refines_refl|intros u0].
  apply refines_bind; [apply refines_refl|intros u1].
  apply refines_bind; [|intros u2; apply refines_refl].
  unfold refines. apply rebuild_g_refines.
Qed.

Lemma add_internal_g_refines : forall t s r,
  add_internal_g t s = Ok r -> add_internal t s = Ok r.
Proof.
  intros t. change (refines (add_internal_g t) (add_internal t)).
  unfold add_internal_g, add_internal.
  apply refines_bind; [apply refines_refl|intros lk].
  destruct lk as [x|]; [apply refines_refl|].
  apply refines_bind; [apply refines_refl|intros en].
  apply refines_bind; [apply refines_refl|intros en1].
  apply refines_bind; [apply refines_refl|intros en2].
  apply refines_bind; [|intros syn; apply refines_refl].
  unfold refines. apply mk_singleton_class_g_refines.
Qed.

Lemma eg_add_g_refines : forall n s r, eg_add_g n s = Ok r -> eg_add n s = Ok r.
Proof.
  intros n. change (refines (eg_add_g n) (eg_add n)).
  unfold eg_add_g, eg_add.
  apply refines_bind; [apply refines_refl|intros t].
  unfold refines. apply add_internal_g_refines.
Qed.

Lemma add_expr_g_refines : forall t s r, add_expr_g t s = Ok r -> add_expr t s = Ok r.
Proof.
  fix IH 1. intros [n ch]. change (refines (add_expr_g (RT n ch)) (add_expr (RT n ch))).
  cbn [add_expr_g add_expr].
  apply refines_bind.
  - induction ch as [|c rest IHr]; [apply refines_refl|].
    apply refines_bind; [exact (IH c)|intros a].
    apply refines_bind; [exact IHr|intros r']. apply refines_refl.
  - intros l. destruct (Nat.ltb _ _); [apply refines_refl|].
    unfold refines. apply eg_add_g_refines.
Qed.

Lemma eg_union_g_refines : forall a b s r, eg_union_g a b s = Ok r -> eg_union a b s = Ok r.
Proof.
  intros a b. change (refines (eg_union_g a b) (eg_union a b)).
  unfold eg_union_g, eg_union.
  apply refines_bind; [apply refines_refl|intros u0].
  apply refines_bind; [apply refines_refl|intros u1].
  apply refines_bind; [apply refines_refl|intros out].
  apply refines_bind; [|intros u2; apply refines_refl].
  unfold refines. apply rebuild_g_refines.
Qed.

Theorem run_ops_g_refines : forall terms ops hs s r,
  run_ops_g terms ops hs s = Ok r -> run_ops terms ops hs s = Ok r.
Proof.
  intros terms ops. induction ops as [|o t IH]; intros hs;
    change (refines (run_ops_g terms (o :: t) hs) (run_ops terms (o :: t) hs)) ||
    change (refines (run_ops_g terms [] hs) (run_ops terms [] hs));
    cbn [run_ops_g run_ops].
  - apply refines_refl.
  - destruct o as [k|i j just].
    + destruct (nth_opt terms k) as [tm|]; [|apply refines_refl].
      apply refines_bind; [|intros a; exact (IH (hs ++ [a]))].
      unfold refines. apply add_expr_g_refines.
    + destruct (nth_opt hs i) as [a|]; [|apply refines_refl].
      destruct (nth_opt hs j) as [b|]; [|apply refines_refl].
      apply refines_bind; [|intros u; exact (IH hs)].
      unfold refines. apply eg_union_g_refines.
Qed.

Theorem guarded_certifies : forall terms ops hs s r,
  run_ops_g terms ops hs s = Ok r -> run_ops terms ops hs s = Ok r.
Proof. exact run_ops_g_refines. Qed.

(* ------------------------------------------------------------------ *)
(* executable evidence: the guard never fires on the recorded histories *)

Definition run_g_ok (p : list rterm * list hop) : bool :=
  match run_ops_g (fst p) (snd p) [] empty_egraph with Ok _ => true | Err _ => false end.

Example guarded_runs_ok :
  map run_g_ok [(xT1, xO1); (xT2, xO2); (xT3, xO3); (xT4, xO4); (xT5, xO5); (xT6, xO6);
                (ex_terms, ex_ops); (ix_terms, ix_ops); (mh_terms, mh_ops1 ++ mh_ops2)]
  = [true; true; true; true; true; true; true; true; true].
Proof. vm_compute. reflexivity. Qed.


(* ... and on the new histories of part 1 *)
Example guarded_runs_ok_new : map run_g_ok hists2 = [true; true; true; true; true; true; true; true; true].
Proof. vm_compute. reflexivity. Qed.

(* a successful guarded run is the real run, and every call of handle_congruence of the real run
   composed nodes with equal weak shapes (by construction of handle_congruence_g) *)

(* ====================================================================== *)
(* 5. summary                                                              *)
(* ======================================================================
   EXPERIMENTS (part 1).  Instrumented copy of the model (handle_pending_L .. run_ops_L): candidates
   evaluated at the entry of every handle_pending call, after raw_remove_from_class, after hp_loop (= the
   state of the lookup / of the handle_congruence call), after handle_congruence, after raw_add_to_class,
   after determine_self_symmetries, after the top-level uint of eg_union and after its rebuild; rebuilds of
   insertions included.  18 histories here (probes_x_histories, probes_new_histories: 1420 points, 40
   calls of handle_congruence, 232 re-added entries); sweeps of 784 two-union histories each over three
   term pools outside this file (132 528 points, 875 calls).  Only the global invariant keys_okb is ever
   false (keys_okb_violated); K1 (stale implies pending), K3 (stored node and syntactic node of the source
   have the same current shape, all entries), K5, K1a, K4 (= key_inv), srcs_okb, pcs_okb and "dead classes
   store nothing" hold at every point; at the calls everything holds except "the hit entry is not
   pending" (hit_entry_can_be_pending; 5 of 915 calls), so K1 alone does not give the local fact.
   PROVED (closed): key_invb_sound, key_inv_empty; hc_local / hc_local_b (from key_inv and the two
   idempotence premises pc_idem, shape_canonical; both tested at every call: components 7, 8 of hc_vec,
   and pcs_okb at every point); key_inv_step (sem_eq steps), key_inv_cuR, key_inv_set_pending / set_ctr /
   set_hashcons, key_inv_raw_remove, key_inv_raw_add.
   PROVED inside Section KeyPending from spec_HK_uint, spec_HK_shrink (the union core keeps key_inv; tested
   on reachable states by the probes at labels 2, 4, 6, 8) and spec_HK_readd (tested: label 7):
   key_inv_handle_congruence, key_inv_handle_shrink, key_inv_hp_loop, key_inv_determine_self_symmetries,
   key_inv_handle_pending, key_inv_rebuild.
   NOT DONE: the three spec_HK_* statements; pc_idem and shape_canonical (idempotence of shape);
   key_inv along alloc_eclass (mk_singleton_class) and hence along add_expr / eg_union / run_ops.
   GUARDED MODEL (part 4): run_ops_g_refines and the layer lemmas; guarded_runs_ok(_new). *)

Print Assumptions probes_x_histories.
Print Assumptions probes_new_histories.
Print Assumptions keys_okb_violated.
Print Assumptions hit_entry_can_be_pending.
Print Assumptions key_invb_sound.
Print Assumptions key_inv_empty.
Print Assumptions hc_local.
Print Assumptions hc_local_b.
Print Assumptions key_inv_step.
Print Assumptions key_inv_raw_remove.
Print Assumptions key_inv_raw_add.
Print Assumptions key_inv_handle_congruence.
Print Assumptions key_inv_handle_shrink.
Print Assumptions key_inv_determine_self_symmetries.
Print Assumptions key_inv_handle_pending.
Print Assumptions key_inv_rebuild.
Print Assumptions handle_congruence_g_refines.
Print Assumptions handle_pending_g_refines.
Print Assumptions rebuild_g_refines.
Print Assumptions eg_union_g_refines.
Print Assumptions add_expr_g_refines.
Print Assumptions run_ops_g_refines.
Print Assumptions guarded_runs_ok.
Print Assumptions guarded_runs_ok_new.
