(* EGraph/KidEqFacts.v — basic facts on `kid_eq` / `nc` (EGraph/NodeCong.v): find, monotonicity,
   transitivity, and that find_enode / variants / shape stay inside the nc-class of the node. *)
From SE Require Import Slots.SlotMapFacts Group.GroupSound Lang.LangFacts Lang.ShapeFacts Lang.RenameFacts
  Base.TextFacts EGraph.Model EGraph.ModelFacts EGraph.ModelMachine EGraph.UnionFindFacts EGraph.InvariantFacts
  EGraph.UnionInvariantFacts EGraph.AddCoversFacts EGraph.MonotoneFacts EGraph.HashconsShape EGraph.NodeCong.
Require Import ZArith Lia ZifyBool ZifyN ZifyNat.

(* ------------------------------------------------------------------ *)
(* 1. find *)

Lemma kid_eq_find : forall s a a', eg_inv s -> covers s a -> find_applied_id s a = Ok a' -> kid_eq s a a'.
Proof.
  intros s a a' Hs Ca Fa.
  pose proof (find_canon _ _ _ (ei_uf _ Hs) (ei_slots _ Hs) Ca Fa) as Na.
  pose proof (canon_covers _ _ Na) as Ca1.
  split; [exact Ca|]. split; [exact Ca1|].
  rewrite (eg_eq_find_congr s a a' a a); [|reflexivity|rewrite (find_idempotent s a a' (ei_uf _ Hs) Fa), Fa; reflexivity].
  apply eg_eq_refl_inv; [exact (ei_uf _ Hs)|exact (ei_slots _ Hs)|exact Ca].
Qed.

(* ------------------------------------------------------------------ *)
(* 2. monotonicity, transitivity *)

Lemma kid_eq_mono : forall s s' a b, ext s s' -> eqmono s s' -> kid_eq s a b -> kid_eq s' a b.
Proof.
  intros s s' a b E M (Ca & Cb & Q).
  split; [exact (covers_ext _ _ _ E Ca)|]. split; [exact (covers_ext _ _ _ E Cb)|].
  apply M; assumption.
Qed.

Lemma kid_eq_mono0 : forall s s' a b, ext0 s s' -> eqmono s s' -> kid_eq s a b -> kid_eq s' a b.
Proof.
  intros s s' a b E M (Ca & Cb & Q).
  split; [exact (covers_ext0 _ _ _ E Ca)|]. split; [exact (covers_ext0 _ _ _ E Cb)|].
  apply M; assumption.
Qed.

Lemma nc_mono : forall s s' n m, (forall a b, kid_eq s a b -> kid_eq s' a b) -> nc s n m -> nc s' n m.
Proof.
  intros s s' n m K H. induction H as [|m g H IH R|m l H IH F].
  - apply nc_refl.
  - apply nc_ren; assumption.
  - apply nc_kids; [exact IH|].
    induction F as [|x y lx ly Hxy F IHF]; constructor; [apply K; exact Hxy|exact IHF].
Qed.

Lemma nc_trans : forall s n m k, nc s n m -> nc s m k -> nc s n k.
Proof.
  intros s n m k H1 H2. induction H2 as [|k g H IH R|k l H IH F].
  - exact H1.
  - apply nc_ren; assumption.
  - apply nc_kids; assumption.
Qed.

Local Notation "a ** b" := (compose_partial a b) (at level 40, left associativity).
Local Notation inv := inverse_nocheck.

(* ------------------------------------------------------------------ *)
(* 3. find_enode *)

Lemma kid_eq_covers_r : forall s l r, Forall2 (kid_eq s) l r -> Forall (covers s) r.
Proof. intros s l r K. induction K as [|x y lx ly Hxy K IH]; constructor; [exact (proj1 (proj2 Hxy))|exact IH]. Qed.

Lemma find_enode_nc : forall s n n1, eg_inv s -> Forall (covers s) (app_occ n) -> find_enode s n = Ok n1 ->
  nc s n n1 /\ Forall (covers s) (app_occ n1).
Proof.
  intros s n n1 Hs Cv F. unfold find_enode in F.
  destruct (mapr (find_applied_id s) (app_occ n)) as [l|] eqn:El; cbn [bind] in F; [|discriminate].
  inversion F; subst n1; clear F. apply mapr_ok in El.
  assert (K : Forall2 (kid_eq s) (app_occ n) l).
  { revert Cv. induction El as [|x y lx ly Hxy El IH]; intros Cv; [constructor|].
    inversion Cv as [|? ? Cx Ct]; subst. constructor; [apply kid_eq_find; assumption|apply IH; exact Ct]. }
  split.
  - apply nc_kids; [apply nc_refl|exact K].
  - rewrite app_occ_set_apps by (exact (Forall2_length' _ _ _ K)).
    exact (kid_eq_covers_r s _ _ K).
Qed.

(* ------------------------------------------------------------------ *)
(* 4. variants *)

(* members of the enumeration of the class group *)
Lemma gall_member : forall c G pp, grp_ok c -> gall_perms false (c_group c) = Ok G -> In pp G ->
  perm_on (c_slots c) pp /\ gcontains false (c_group c) pp = Ok true.
Proof.
  intros c G pp Hg HG Hpp. pose proof (proj1 (grp_facts c G Hg HG) pp Hpp) as Hpo.
  split; [exact Hpo|]. destruct Hg as (gens & Hgens & Hnew).
  pose proof (identity_is_id (c_slots c)) as Hid.
  destruct (gall_perms_exact (c_slots c) (identity (c_slots c)) gens Hid Hgens) as (g & l & Hg & Hl' & _ & Hin & _).
  rewrite Hnew in Hg. inversion Hg; subst g. rewrite HG in Hl'. inversion Hl'; subst l.
  apply (gcontains_complete _ _ gens Hid Hgens _ _ Hnew). apply Hin. exact Hpp.
Qed.

Lemma gvar_covers : forall s a c pp, canon_ok s a -> get_class s (aid a) = Ok c -> perm_on (c_slots c) pp ->
  covers s (gvar a pp).
Proof.
  intros s a c pp (c' & Hc' & _ & Wa & Ba & Ka) Hc P.
  rewrite Hc in Hc'. inversion Hc'; subst c'; clear Hc'.
  exists c. unfold gvar. cbn [aid am]. split; [exact Hc|]. pose proof P as (Wp & _ & _ & Ip & _). split.
  - apply compose_injective; [exact Wp|exact Ip|]. apply is_bijection_injective; assumption.
  - intros k Hk. destruct (po_get _ pp k P Hk) as (w & Gw & Hw). rewrite get_compose_partial by exact Wp. rewrite Gw.
    apply keys_spec. rewrite Ka. exact Hw.
Qed.

Lemma gvar_values : forall a c pp, wf (am a) -> keys (am a) = c_slots c -> perm_on (c_slots c) pp ->
  values (pp ** am a) = values (am a).
Proof.
  intros a c pp Wa Ka P. pose proof P as (Wp & _ & _ & _ & Sp).
  apply sset_ext; [apply sset_of_list_spec|apply sset_of_list_spec|].
  intros x. rewrite !values_spec by (try exact Wa; apply compose_partial_wf). split.
  - intros (k & Hk). rewrite get_compose_partial in Hk by exact Wp.
    destruct (get pp k) as [v|]; [|discriminate]. exists v. exact Hk.
  - intros (v & Hv). assert (Iv : In v (c_slots c)). { rewrite <- Ka. apply keys_spec. congruence. }
    destruct (Sp v Iv) as (k & Hk). exists k. rewrite get_compose_partial by exact Wp. rewrite Hk. exact Hv.
Qed.

Lemma gvar_eg_eq : forall s a c G pp, eg_inv s -> canon_ok s a -> lkid s a -> get_class s (aid a) = Ok c ->
  gall_perms false (c_group c) = Ok G -> In pp G -> kid_eq s a (gvar a pp).
Proof.
  intros s a c G pp Hs Ca La Hc HG Hpp.
  pose proof Ca as (c' & Hc' & Hg & Wa & Ba & Ka).
  rewrite Hc in Hc'. inversion Hc'; subst c'; clear Hc'.
  destruct (gall_member c G pp Hg HG Hpp) as (P & Q).
  pose proof (canon_covers _ _ Ca) as Cv. pose proof (gvar_covers s a c pp Ca Hc P) as Cv'.
  split; [exact Cv|]. split; [exact Cv'|].
  apply eg_eq_sym_true; [exact Hs|exact Cv'|exact Cv|].
  unfold eg_eq.
  rewrite (lkid_fixed s (gvar a pp) (ei_uf _ Hs) (lkid_gvar s a c pp La Hc P)). cbn [bind].
  rewrite (lkid_fixed s a (ei_uf _ Hs) La). cbn [bind].
  unfold gvar at 1 2. cbn [aid]. rewrite N.eqb_refl. cbn [negb].
  unfold gvar. cbn [aid am]. rewrite (gvar_values a c pp Wa Ka P), sset_eqb_refl. cbn [negb].
  rewrite Hc. cbn [bind].
  rewrite compose_partial_assoc by (try exact Wa; exact (proj1 P)).
  rewrite compose_inverse by assumption. rewrite Ka.
  rewrite (id_r (c_slots c) (identity (c_slots c)) (identity_is_id _) pp P). exact Q.
Qed.

Lemma zip_cart_gvar : forall (Q : appid -> appid -> Prop) apps (groups : list (list perm)),
  Forall2 (fun a g => forall pp, In pp g -> Q a (gvar a pp)) apps groups ->
  forall l, In l (cartesian groups) -> Forall2 Q apps (zip_with gvar apps l).
Proof.
  intros Q apps groups H. induction H as [|a g t gs Hag _ IH]; intros l Hl; cbn [cartesian] in Hl.
  - destruct Hl as [<-|[]]. constructor.
  - apply in_flat_map in Hl. destruct Hl as (rest & Hr & Hl). apply in_map_iff in Hl. destruct Hl as (x & <- & Hx).
    cbn [zip_with]. constructor; [apply Hag; assumption|apply IH; assumption].
Qed.

Lemma found_kids : forall s n0 N, eg_inv s -> Forall (covers s) (app_occ n0) -> find_enode s n0 = Ok N ->
  forall a, In a (app_occ N) -> canon_ok s a /\ lkid s a.
Proof.
  intros s n0 N Hs Cv F a Ha. unfold find_enode in F.
  destruct (mapr (find_applied_id s) (app_occ n0)) as [l|] eqn:El; cbn [bind] in F; [|discriminate].
  inversion F; subst N; clear F.
  rewrite app_occ_set_apps in Ha by (eapply mapr_length; eauto).
  destruct (mapr_in _ _ _ El a Ha) as (a0 & Ha0 & Fa). split.
  - exact (find_canon _ _ _ (ei_uf _ Hs) (ei_slots _ Hs) (proj1 (Forall_forall _ _) Cv a0 Ha0) Fa).
  - exact (found_lkid s a0 a Hs Fa).
Qed.

Lemma variants_nc : forall s n0 N vs v, eg_inv s -> Forall (covers s) (app_occ n0) -> find_enode s n0 = Ok N ->
  variants s N = Ok vs -> In v vs -> nc s N v /\ Forall (covers s) (app_occ v).
Proof.
  intros s n0 N vs v Hs Cv F H Hv.
  pose proof (found_kids s n0 N Hs Cv F) as FK.
  unfold variants in H.
  destruct (mapr (fun a => get_class s (aid a)) (app_occ N)) as [cls|] eqn:Ec; cbn [bind] in H; [|discriminate].
  destruct (forallb _ cls).
  - inversion H; subst vs. destruct Hv as [<-|[]]. split; [apply nc_refl|].
    apply Forall_forall. intros a Ha. apply canon_covers. exact (proj1 (FK a Ha)).
  - destruct (mapr _ cls) as [groups|] eqn:Eg; cbn [bind] in H; [|discriminate]. inversion H; subst vs; clear H.
    apply in_map_iff in Hv. destruct Hv as (l & <- & Hl). fold gvar.
    pose proof (mapr_mapr_F2 (fun a => canon_ok s a /\ lkid s a) _ _ _ _ _ FK Ec Eg) as F2.
    assert (Z : Forall2 (kid_eq s) (app_occ N) (zip_with gvar (app_occ N) l)).
    { apply (zip_cart_gvar (kid_eq s) (app_occ N) groups); [|exact Hl].
      revert F2. apply Forall2_imp. intros a g ((Ca & La) & c & Hc & Hg) pp Hpp.
      exact (gvar_eg_eq s a c g pp Hs Ca La Hc Hg Hpp). }
    split; [apply nc_kids; [apply nc_refl|exact Z]|].
    rewrite app_occ_set_apps by (exact (Forall2_length' _ _ _ Z)).
    exact (kid_eq_covers_r s _ _ Z).
Qed.

(* ------------------------------------------------------------------ *)
(* 5. shape *)

Corollary shape_nc : forall s n t, eg_inv s -> Forall (covers s) (app_occ n) -> NoDup (binders n) ->
  shape s n = Ok t -> nc s n (fst t).
Proof.
  intros s n [sh bij] Hs Cv ND H. cbn [fst]. unfold shape, pre_shape in H.
  destruct (find_enode s n) as [N|] eqn:F; cbn [bind] in H; [|discriminate].
  destruct (variants s N) as [vs|] eqn:V; cbn [bind] in H; [|discriminate].
  destruct (min_variant vs None) as [p|] eqn:P; cbn [bind] in H; [|discriminate].
  apply min_variant_in in P. destruct P as [P|[k P]]; [|discriminate].
  destruct (find_enode_nc s n N Hs Cv F) as (N1 & _).
  destruct (variants_nc s n N vs p Hs Cv F V P) as (N2 & _).
  assert (Bp : binders p = binders n).
  { rewrite (proj1 (variants_sub s N vs p V P)). exact (find_enode_binders s n N F). }
  destruct (wshape_fwd p sh bij H) as (g & -> & R); [rewrite Bp; exact ND|].
  apply nc_ren; [|exact R]. exact (nc_trans s n N p N1 N2).
Qed.

Print Assumptions kid_eq_find.
Print Assumptions kid_eq_mono.
Print Assumptions kid_eq_mono0.
Print Assumptions nc_mono.
Print Assumptions nc_trans.
Print Assumptions find_enode_nc.
Print Assumptions variants_nc.
Print Assumptions shape_nc.
