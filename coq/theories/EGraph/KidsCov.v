(* EGraph/KidsCov.v — the structural run invariant `kids_cov`: the children (applied ids) of every
   stored shape are covered.  See the summary at the end of the file. *)
From SE Require Import Slots.SlotMapFacts Group.GroupSound Lang.LangFacts Lang.ShapeFacts Lang.RenameFacts
  EGraph.Model EGraph.ModelFacts EGraph.ModelMachine EGraph.UnionFindFacts EGraph.InvariantFacts
  EGraph.UnionInvariantFacts EGraph.AddCoversFacts EGraph.MonotoneFacts EGraph.SoundFacts EGraph.SoundSyn
  EGraph.SoundNode EGraph.SoundBase.
From SE Require Import Sem.Deriv Sem.DerivFacts Sem.AlgebraFacts Sem.EgMachine Explain.CheckerFacts.
From SE Require Import EGraph.NodePass EGraph.SoundUnion EGraph.SoundAddNew EGraph.SoundAddExpr EGraph.SoundPending.
Require Import ZArith Lia ZifyBool ZifyN ZifyNat.
Ltac Zify.zify_post_hook ::= Z.div_mod_to_equations.

Local Notation "a ** b" := (compose_partial a b) (at level 40, left associativity).
Local Notation inv := inverse_nocheck.
Local Notation ectr := Model.ctr.

(* ====================================================================== *)
(* 1. the invariant and its executable form                                *)
(* ====================================================================== *)

Definition kids_cov (s : egraph) : Prop :=
  forall i c sh bij src a, get_class s i = Ok c -> In (sh, (bij, src)) (c_nodes c) -> In a (app_occ sh) -> covers s a.

Definition kids_covb (s : egraph) : bool :=
  forallb (fun c => forallb (fun e => forallb (coversb s) (app_occ (fst e))) (c_nodes c)) (classes s).

Theorem kids_covb_sound : forall s, kids_covb s = true -> kids_cov s.
Proof.
  intros s H i c sh bij src a Hc He Ha. unfold kids_covb in H.
  unfold get_class in Hc. destruct (nth_opt (classes s) (N.to_nat i)) as [c'|] eqn:En; [|discriminate].
  inversion Hc; subst c'; clear Hc. apply nth_opt_In in En.
  pose proof (proj1 (forallb_forall _ _) H c En) as H1. cbv beta in H1.
  pose proof (proj1 (forallb_forall _ _) H1 _ He) as H2. cbv beta in H2. cbn [fst] in H2.
  apply coversb_sound. exact (proj1 (forallb_forall _ _) H2 a Ha).
Qed.

Theorem kids_cov_empty : kids_cov empty_egraph.
Proof. apply kids_covb_sound. vm_compute. reflexivity. Qed.

(* ====================================================================== *)
(* 2. executable probes: the checker at the entry of every handle_pending  *)
(*    call and after every operation                                       *)
(* ====================================================================== *)

Section Probe.
  Variable chk : egraph -> bool.

  Fixpoint rebuild_chk (fuel : nat) : M bool :=
    match fuel with
    | O => fail OutOfFuel
    | S f =>
        dom p <- gets pending;
        match p with
        | [] => ret true
        | (sh, ty) :: rest =>
            dom _ <- modify (fun s => set_pending s rest);
            dom b <- gets chk;
            dom _ <- handle_pending sh ty;
            dom r <- rebuild_chk f;
            ret (b && r)
        end
    end.

  Definition mk_singleton_chk (syn_enode : node) : M (appid * bool) :=
    let old_slots := slots syn_enode in
    dom fresh_to_old <- with_ctr (bijection_from_fresh_to old_slots);
    let old_to_fresh := inverse_nocheck fresh_to_old in
    let fresh_slots := values old_to_fresh in
    dom syn_fresh <- with_ctr (apply_slotmap_fresh false old_to_fresh syn_enode);
    dom i <- alloc_eclass fresh_slots syn_fresh;
    dom t <- Model.lift (wshape syn_fresh);
    dom _ <- raw_add_to_class i t i;
    dom _ <- pending_insert (fst t) true;
    dom b <- rebuild_chk rebuild_fuel;
    ret ({| aid := i; am := fresh_to_old |}, b).

  Definition add_internal_chk (t : node * slotmap) : M (appid * bool) :=
    dom lk <- reads (fun s => lookup_internal s t);
    match lk with
    | Some x => ret (x, true)
    | None =>
        dom en <- (fun s => let '(r, c) := refresh_private (fst t) (ectr s) in
                            match r with Ok n => Ok (n, set_ctr s c) | Err e => Err e end);
        dom en <- Model.lift (apply_slotmap false (snd t) en);
        dom en <- synify_enode en;
        dom sb <- mk_singleton_chk en;
        dom a <- reads (fun s => semify_app_id s (fst sb));
        ret (a, snd sb)
    end.

  Definition eg_add_chk (n : node) : M (appid * bool) :=
    dom t <- reads (fun s => shape s n);
    add_internal_chk t.

  Fixpoint add_expr_chk (t : rterm) : M (appid * bool) :=
    match t with
    | RT n ch =>
        dom l <- (fix go (l : list rterm) : M (list appid * bool) :=
                    match l with
                    | [] => ret ([], true)
                    | c :: r => dom a <- add_expr_chk c; dom r' <- go r; ret (fst a :: fst r', snd a && snd r')
                    end) ch;
        if Nat.ltb (List.length (app_occ n)) (List.length (fst l)) then fail OutOfBounds
        else dom ab <- eg_add_chk (set_apps n (fst l)); ret (fst ab, snd l && snd ab)
    end.

  Definition eg_union_chk (l r : appid) : M bool :=
    dom _ <- synify_app_id l;
    dom _ <- synify_app_id r;
    dom _ <- uint l r;
    dom b1 <- gets chk;
    dom b2 <- rebuild_chk rebuild_fuel;
    ret (b1 && b2).

  (* (the checker at every handle_pending entry and after uint, the checker after every operation,
      the final state equals the state of run_ops) *)
  Fixpoint run_kchk (terms : list rterm) (ops : list hop) (hs : list appid) (s : egraph) : bool :=
    match ops with
    | [] => true
    | o :: t =>
      let r := match o with
        | HAdd k => match nth_opt terms k with None => Err OutOfBounds
                    | Some tm => match add_expr_chk tm s with Ok ((a, b), s') => Ok (hs ++ [a], b, s') | Err e => Err e end end
        | HUnion i j _ => match nth_opt hs i, nth_opt hs j with
                    | Some a, Some b => match eg_union_chk a b s with Ok (b, s') => Ok (hs, b, s') | Err e => Err e end
                    | _, _ => Err OutOfBounds end
        end in
      match r with
      | Err e => false
      | Ok (hs', b, s') => b && chk s' && run_kchk terms t hs' s'
      end
    end.
End Probe.

Definition x_kids := map (fun p => run_kchk kids_covb (fst p) (snd p) [] empty_egraph) x_hist.
(* number of handle_pending calls probed: sanity check that the instrumentation sees the calls *)
Eval vm_compute in x_kids.

(* ====================================================================== *)
(* 3. applying the stored bijection keeps the children covered             *)
(* ====================================================================== *)

(* the applied ids of a renamed node: same id, same keys, values renamed; the bound set of each
   position consists of binders of the node, and the unbound values are public occurrences *)
Lemma app_occ_ren_f : forall g a bound a', In a' (app_occ_f (ren_f g bound a)) ->
  exists a0 bd, In a0 (app_occ_f a) /\ a' = {| aid := aid a0; am := ren_vals g bd (am a0) |} /\
    (forall x, In x bd -> In x bound \/ In x (binders_f a)) /\
    (forall v, In v (values_vec (am a0)) -> existsb (N.eqb v) bd = false -> In (v, true) (occ_flags_f bound a)).
Proof.
  intros g. induction a as [s|x|s b IH|p]; intros bound a' H; cbn [ren_f app_occ_f In] in H; try contradiction.
  - destruct H as [<-|[]]. exists x, bound. split; [left; reflexivity|]. split; [reflexivity|]. split; [auto|].
    intros v Hv Hb. cbn [occ_flags_f]. apply in_map_iff. exists v. rewrite Hb. split; [reflexivity|exact Hv].
  - destruct (IH (s :: bound) a' H) as (a0 & bd & H1 & H2 & H3 & H4). exists a0, bd.
    split; [exact H1|]. split; [exact H2|]. split.
    + intros y Hy. destruct (H3 y Hy) as [[<-|Hb]|Hb]; cbn [binders_f In]; auto.
    + intros v Hv Hb. cbn [occ_flags_f]. right. apply H4; assumption.
Qed.

Lemma app_occ_ren : forall g n a', In a' (app_occ (ren g n)) ->
  exists a0 bd, In a0 (app_occ n) /\ a' = {| aid := aid a0; am := ren_vals g bd (am a0) |} /\
    (forall x, In x bd -> In x (binders n)) /\
    (forall v, In v (values_vec (am a0)) -> existsb (N.eqb v) bd = false -> In v (pub_occ n)).
Proof.
  intros g n a' H. unfold app_occ, ren in H. cbn [nargs] in H. apply in_flat_map in H.
  destruct H as (x & Hx & H). apply in_map_iff in Hx. destruct Hx as (a & <- & Ha).
  destruct (app_occ_ren_f g a [] a' H) as (a0 & bd & H1 & H2 & H3 & H4). exists a0, bd.
  split; [unfold app_occ; apply in_flat_map; exists a; split; assumption|]. split; [exact H2|]. split.
  - intros y Hy. destruct (H3 y Hy) as [[]|Hb]. unfold binders. apply in_flat_map. exists a. split; assumption.
  - intros v Hv Hb. apply occ_flags_true_pub. unfold occ_flags. apply in_flat_map. exists a. split; [exact Ha|].
    apply H4; assumption.
Qed.

(* the general form: any total injective renaming whose values avoid the binders *)
Lemma covers_ren_vals : forall s m n a0 bd,
  injective m -> (forall x, In x (pub_occ n) -> get m x <> None) ->
  (forall x, In x (binders n) -> x mod 4 = 0) -> (forall k v, get m k = Some v -> v mod 4 = 1) ->
  (forall x, In x bd -> In x (binders n)) ->
  (forall v, In v (values_vec (am a0)) -> existsb (N.eqb v) bd = false -> In v (pub_occ n)) ->
  covers s a0 -> covers s {| aid := aid a0; am := ren_vals (asm_g m) bd (am a0) |}.
Proof.
  intros s m n a0 bd Im Tm B4 V4 Hbd Hpub (c & Hc & Ia & Sa). exists c. cbn [aid am].
  split; [exact Hc|]. split.
  - intros k1 k2 v G1 G2. rewrite get_ren_vals in G1, G2.
    destruct (get (am a0) k1) as [v1|] eqn:E1; [|discriminate]. destruct (get (am a0) k2) as [v2|] eqn:E2; [|discriminate].
    cbn [option_map] in G1, G2. injection G1 as F1. injection G2 as F2.
    assert (Hv1 : In v1 (values_vec (am a0))) by (unfold values_vec; change v1 with (snd (k1, v1)); apply in_map, get_in; exact E1).
    assert (Hv2 : In v2 (values_vec (am a0))) by (unfold values_vec; change v2 with (snd (k2, v2)); apply in_map, get_in; exact E2).
    assert (Eq : v1 = v2).
    { destruct (existsb (N.eqb v1) bd) eqn:X1; destruct (existsb (N.eqb v2) bd) eqn:X2; cbn [negb asm_g] in F1, F2.
      - congruence.
      - exfalso. apply existsb_exists in X1. destruct X1 as (y & Hy & Ey). apply N.eqb_eq in Ey. subst y.
        pose proof (B4 _ (Hbd _ Hy)) as M0. pose proof (Tm _ (Hpub _ Hv2 X2)) as T2.
        destruct (get m v2) as [w|] eqn:Gw; [|congruence]. pose proof (V4 _ _ Gw) as M1. lia.
      - exfalso. apply existsb_exists in X2. destruct X2 as (y & Hy & Ey). apply N.eqb_eq in Ey. subst y.
        pose proof (B4 _ (Hbd _ Hy)) as M0. pose proof (Tm _ (Hpub _ Hv1 X1)) as T1.
        destruct (get m v1) as [w|] eqn:Gw; [|congruence]. pose proof (V4 _ _ Gw) as M1. lia.
      - pose proof (Tm _ (Hpub _ Hv1 X1)) as T1. pose proof (Tm _ (Hpub _ Hv2 X2)) as T2.
        destruct (get m v1) as [w1|] eqn:G1; [|congruence]. destruct (get m v2) as [w2|] eqn:G2; [|congruence].
        rewrite <- F2 in F1. subst w1. exact (Im _ _ _ G1 G2). }
    subst v2. exact (Ia _ _ _ E1 E2).
  - intros k Hk. rewrite get_ren_vals. specialize (Sa k Hk). destruct (get (am a0) k); [discriminate|congruence].
Qed.

Theorem kids_cov_apply : forall s i c sh bij0 src nd,
  inv3 s -> mod4_ok s -> kids_cov s -> get_class s i = Ok c -> In (sh, (bij0, src)) (c_nodes c) ->
  apply_slotmap false bij0 sh = Ok nd -> Forall (covers s) (app_occ nd).
Proof.
  intros s i c sh bij0 src nd [_ NO] M4 K Hc He Hnd.
  pose proof (apply_slotmap_keys _ _ _ Hnd) as Tm.
  rewrite (apply_slotmap_ok _ _ Tm) in Hnd. inversion Hnd; subst nd; clear Hnd.
  destruct (NO _ _ _ Hc He) as (_ & Im & _). cbn [fst snd] in Im.
  destruct (m4_nodes s M4 _ _ _ Hc He) as [B4 V4]. cbn [fst snd] in B4, V4.
  apply Forall_forall. intros a' Ha'.
  destruct (app_occ_ren _ _ _ Ha') as (a0 & bd & H1 & -> & H3 & H4).
  apply (covers_ren_vals s bij0 sh a0 bd Im Tm B4 V4 H3 H4). exact (K _ _ _ _ _ _ Hc He H1).
Qed.

(* ====================================================================== *)
(* 4. the generic step: ext + "every stored key of s' is a stored key of s" *)
(* ====================================================================== *)

Definition keys_sub (s s' : egraph) : Prop :=
  forall j c' e', get_class s' j = Ok c' -> In e' (c_nodes c') ->
    exists i c e, get_class s i = Ok c /\ In e (c_nodes c) /\ fst e = fst e'.

Lemma ks_refl : forall s, keys_sub s s.
Proof. intros s j c e Hc He. exists j, c, e. auto. Qed.
Lemma ks_trans : forall a b c, keys_sub a b -> keys_sub b c -> keys_sub a c.
Proof.
  intros a b c H1 H2 j c' e' Hc He. destruct (H2 _ _ _ Hc He) as (i1 & c1 & e1 & Hc1 & He1 & E1).
  destruct (H1 _ _ _ Hc1 He1) as (i0 & c0 & e0 & Hc0 & He0 & E0). exists i0, c0, e0. split; [exact Hc0|]. split; [exact He0|congruence].
Qed.

Lemma nodes_same_ks : forall s s', nodes_same s s' -> keys_sub s s'.
Proof. intros s s' H j c' e' Hc He. destruct (H _ _ Hc) as (c & Hc0 & En). rewrite En in He. exists j, c, e'. auto. Qed.
Lemma nsame_ks : forall s s', nsame s s' -> keys_sub s s'.
Proof. intros s s' H. apply nodes_same_ks, nsame_nodes_same, H. Qed.

Theorem kids_cov_step : forall s s', ext s s' -> keys_sub s s' -> kids_cov s -> kids_cov s'.
Proof.
  intros s s' E KS K j c' sh bij src a Hc He Ha.
  destruct (KS _ _ _ Hc He) as (i & c & [sh0 [bij0 src0]] & Hc0 & He0 & Ef). cbn [fst] in Ef. subst sh0.
  apply (covers_ext s s' a E). exact (K _ _ _ _ _ _ Hc0 He0 Ha).
Qed.

Lemma ks_raw_remove : forall id sh s p s', raw_remove_from_class id sh s = Ok (p, s') -> keys_sub s s'.
Proof.
  intros id sh s p s' H j c' e' Hc He.
  destruct (s_raw_remove _ _ _ _ _ H) as [Q _]. destruct (sem_eq_lengths _ _ Q) as [_ Len].
  assert (Lj : (N.to_nat j < lc s)%nat) by (rewrite <- Len; eapply get_class_lt; eauto).
  destruct (get_class_ok s j Lj) as [c0 Hc0].
  exists j, c0, e'. split; [exact Hc0|]. split; [|reflexivity].
  exact (NodePass.raw_remove_nodes _ _ _ _ _ H _ _ _ _ Hc0 Hc He).
Qed.

Lemma raw_remove_stored : forall id sh s p s', raw_remove_from_class id sh s = Ok (p, s') ->
  exists c, get_class s id = Ok c /\ In (sh, p) (c_nodes c).
Proof.
  intros id sh s p s' H. unfold raw_remove_from_class in H.
  apply bind_reads_inv in H. destruct H as (c & Hc & H). exists c. split; [exact Hc|].
  apply mbind_inv in H. destruct H as (u1 & s1 & _ & H).
  apply mbind_inv in H. destruct H as (u2 & s2 & _ & H).
  apply mbind_inv in H. destruct H as (u3 & s3 & _ & H).
  destruct (na_get (c_nodes c) sh) as [p0|] eqn:G; [|discriminate]. inversion H; subst p0 s3. apply na_get_in. exact G.
Qed.

(* raw_add_to_class of an entry whose key is already stored somewhere *)
Lemma ks_raw_add_old : forall id sh bij src s x s', raw_add_to_class id (sh, bij) src s = Ok (x, s') ->
  (exists i c e, get_class s i = Ok c /\ In e (c_nodes c) /\ fst e = sh) -> keys_sub s s'.
Proof.
  intros id sh bij src s x s' H Old j c' e' Hc He.
  destruct (s_raw_add _ _ _ _ _ _ H) as [Q _]. destruct (sem_eq_lengths _ _ Q) as [_ Len].
  assert (Lj : (N.to_nat j < lc s)%nat) by (rewrite <- Len; eapply get_class_lt; eauto).
  destruct (get_class_ok s j Lj) as [c0 Hc0].
  destruct (NodePass.raw_add_nodes _ _ _ _ _ _ _ H _ _ _ _ Hc0 Hc He) as [O|[_ ->]].
  - exists j, c0, e'. auto.
  - exact Old.
Qed.

(* raw_add_to_class in general: the stored keys of s' are stored keys of s, or the new key *)
Lemma raw_add_keys : forall id sh bij src s x s', raw_add_to_class id (sh, bij) src s = Ok (x, s') ->
  forall j c' e', get_class s' j = Ok c' -> In e' (c_nodes c') ->
    (exists c, get_class s j = Ok c /\ In e' (c_nodes c)) \/ fst e' = sh.
Proof.
  intros id sh bij src s x s' H j c' e' Hc He.
  destruct (s_raw_add _ _ _ _ _ _ H) as [Q _]. destruct (sem_eq_lengths _ _ Q) as [_ Len].
  assert (Lj : (N.to_nat j < lc s)%nat) by (rewrite <- Len; eapply get_class_lt; eauto).
  destruct (get_class_ok s j Lj) as [c0 Hc0].
  destruct (NodePass.raw_add_nodes _ _ _ _ _ _ _ H _ _ _ _ Hc0 Hc He) as [O|[_ ->]]; [left; eauto|right; reflexivity].
Qed.

Lemma ks_move_body : forall idf idt mi sh bij src,
  ModelFacts.pres keys_sub (dom _ <- raw_remove_from_class idf sh;
                            dom new_bij <- with_ctr (compose_fresh bij mi);
                            dom _ <- raw_add_to_class idt (sh, new_bij) src;
                            pending_insert sh true).
Proof.
  intros idf idt mi sh bij src s x s' H.
  apply mbind_inv in H. destruct H as (p & s1 & H1 & H).
  apply mbind_inv in H. destruct H as (nb & s2 & H2 & H). apply with_ctr_spec in H2.
  apply mbind_inv in H. destruct H as (u & s3 & H3 & H). inversion H; subst x s'; clear H.
  destruct (raw_remove_stored _ _ _ _ _ H1) as (c & Hc & Hin).
  apply (ks_trans s s3); [|apply nsame_ks, nsame_pend].
  intros j c' e' Hc' He'.
  destruct (raw_add_keys _ _ _ _ _ _ _ H3 _ _ _ Hc' He') as [(c2 & Hc2 & He2)|Ef].
  - assert (KS2 : keys_sub s1 s2) by (subst s2; apply nsame_ks, nsame_ctr).
    exact (ks_trans _ _ _ (ks_raw_remove _ _ _ _ _ H1) KS2 _ _ _ Hc2 He2).
  - exists idf, c, (sh, p). split; [exact Hc|]. split; [exact Hin|]. cbn [fst]. congruence.
Qed.

(* ====================================================================== *)
(* 5. the pass of NodePass.v (Section Pres2) with the hypotheses H_add / H_rem replaced by a
      hypothesis on the body of the move_to loop                                              *)
(* ====================================================================== *)

Section Pres3.
  Variable R : egraph -> egraph -> Prop.
  Hypothesis R_refl : forall s, R s s.
  Hypothesis R_trans : forall a b c, R a b -> R b c -> R a c.
  Local Notation pres := (ModelFacts.pres R).

  Hypothesis H_pend : forall s p, R s (set_pending s p).
  Hypothesis H_upd : forall i f, (forall c, c_nodes (f c) = c_nodes c) -> pres (upd_class i f).
  Hypothesis H_mv : forall idf idt mi sh bij src,
    pres (dom _ <- raw_remove_from_class idf sh;
          dom new_bij <- with_ctr (compose_fresh bij mi);
          dom _ <- raw_add_to_class idt (sh, new_bij) src;
          pending_insert sh true).
  Hypothesis H_ufset : forall i p s s', unionfind_set i p s = Ok (tt, s') ->
    (N.to_nat i < List.length (classes s))%nat -> R s s'.
  Hypothesis H_fresh : pres fresh.
  Hypothesis H_cf : forall a b, pres (with_ctr (compose_fresh a b)).
  Hypothesis H_asf : forall lg m n, pres (with_ctr (apply_slotmap_fresh lg m n)).

  Lemma p3_ret : forall A (a : A), pres (ret a).
  Proof. apply (pres_ret R R_refl). Qed.
  Lemma p3_fail : forall A e, pres (@fail A e).
  Proof. apply (pres_fail R). Qed.
  Lemma p3_lift : forall A (r : res A), pres (Model.lift r).
  Proof. apply (pres_lift R R_refl). Qed.
  Lemma p3_reads : forall A (f : egraph -> res A), pres (reads f).
  Proof. apply (pres_reads R R_refl). Qed.
  Lemma p3_gets : forall A (f : egraph -> A), pres (gets f).
  Proof. apply (pres_gets R R_refl). Qed.
  Lemma p3_modify : forall f, (forall s, R s (f s)) -> pres (modify f).
  Proof. apply (pres_modify R). Qed.
  Lemma p3_bind : forall A C (m : M A) (k : A -> M C), pres m -> (forall a, pres (k a)) -> pres (mbind m k).
  Proof. apply (pres_bind R R_trans). Qed.
  Lemma p3_iterM : forall A (f : A -> M unit) l, (forall x, pres (f x)) -> pres (iterM f l).
  Proof. apply (pres_iterM R R_refl R_trans). Qed.
  Lemma p3_mapM : forall A C (f : A -> M C) l, (forall x, pres (f x)) -> pres (mapM f l).
  Proof. apply (pres_mapM R R_refl R_trans). Qed.
  Lemma p3_pending_insert : forall sh ty, pres (pending_insert sh ty).
  Proof. intros. apply p3_modify. intros; apply H_pend. Qed.
  Lemma p3_pending_touch : forall sh ty, pres (pending_touch sh ty).
  Proof. intros. apply p3_modify. intros; apply H_pend. Qed.

  Lemma p3_get_then_ufset : forall i A (p : A -> appid) (f : egraph -> res A),
    (forall s a, f s = Ok a -> exists c, get_class s i = Ok c) ->
    pres (dom a <- reads f; unionfind_set i (p a)).
  Proof.
    intros i A p f Hf s x s' H. unfold mbind, reads in H.
    destruct (f s) as [a|] eqn:E; [|discriminate]. destruct x.
    destruct (Hf _ _ E) as [c Hc]. eapply H_ufset; eauto. eapply get_class_lt; eauto.
  Qed.
  Lemma p3_ufset_then_get : forall i p A (k : eclass -> M A),
    (forall c, pres (k c)) ->
    pres (dom _ <- unionfind_set i p; dom cf <- reads (fun s => get_class s i); k cf).
  Proof.
    intros i p A k Hk s x s' H. unfold mbind at 1 in H.
    destruct (unionfind_set i p s) as [[[] s1]|] eqn:E1; [|discriminate].
    unfold mbind, reads in H. destruct (get_class s1 i) as [c1|] eqn:E2; [|discriminate].
    eapply R_trans; [|eapply Hk; eauto].
    eapply H_ufset; eauto. rewrite <- (unionfind_set_classes _ _ _ _ _ E1).
    eapply get_class_lt; eauto.
  Qed.

  Ltac pstep :=
    cbv beta zeta;
    match goal with
    | |- pres (mbind _ _) => apply p3_bind; [| intros ?]
    | |- pres (ret _) => apply p3_ret
    | |- pres (fail _) => apply p3_fail
    | |- pres (Model.lift _) => apply p3_lift
    | |- pres (reads _) => apply p3_reads
    | |- pres (gets _) => apply p3_gets
    | |- pres (iterM _ _) => apply p3_iterM; intros ?
    | |- pres (mapM _ _) => apply p3_mapM; intros ?
    | |- pres (upd_class _ _) => apply H_upd; intros ?; reflexivity
    | |- pres (pending_insert _ _) => apply p3_pending_insert
    | |- pres (pending_touch _ _) => apply p3_pending_touch
    | |- pres (modify (fun s => set_pending s _)) => apply p3_modify; intros; apply H_pend
    | |- pres fresh => apply H_fresh
    | |- pres (with_ctr (compose_fresh _ _)) => apply H_cf
    | |- pres (with_ctr (apply_slotmap_fresh _ _ _)) => apply H_asf
    | |- pres (match ?x with _ => _ end) => destruct x
    | |- pres _ => solve [auto]
    end.
  Ltac psolve := repeat pstep.

  Lemma p3_touched_class : forall i ty, pres (touched_class i ty).
  Proof. intros i ty. unfold touched_class. psolve. Qed.
  Lemma p3_pc_congruence : forall a b, pres (pc_congruence a b).
  Proof. intros a b. unfold pc_congruence. psolve. Qed.

  Lemma p3_record_redundancy_witness : forall i cap, pres (record_redundancy_witness i cap).
  Proof.
    intros i cap. unfold record_redundancy_witness.
    apply (p3_get_then_ufset i _
             (fun ss => {| aid := i; am := compose_partial (identity ss) (identity cap) |})).
    intros s a H. unfold syn_slots in H. destruct (get_class s i); [eauto|discriminate].
  Qed.

  Lemma p3_move_to : forall from to, pres (move_to from to).
  Proof.
    intros from to. unfold move_to. cbv zeta.
    pose proof p3_touched_class.
    apply p3_ufset_then_get. intros cf. apply p3_bind.
    - apply p3_iterM. intros [sh [bij src]]. apply H_mv.
    - intros ?. psolve.
  Qed.

  Section Ui.
    Variable ui : appid -> appid -> M bool.
    Hypothesis H_ui : forall l r, pres (ui l r).

    Lemma p3_shrink_slots : forall from cap, pres (shrink_slots ui from cap).
    Proof.
      intros from cap. unfold shrink_slots.
      pose proof p3_record_redundancy_witness. pose proof p3_touched_class. psolve.
    Qed.
    Lemma p3_union_leaders : forall l r, pres (union_leaders ui l r).
    Proof.
      intros l r. unfold union_leaders.
      pose proof p3_shrink_slots. pose proof p3_touched_class. pose proof p3_move_to. psolve.
    Qed.
    Lemma p3_union_internal_body : forall l r, pres (union_internal_body ui l r).
    Proof. intros l r. unfold union_internal_body. pose proof p3_union_leaders. psolve. Qed.
  End Ui.

  Lemma p3_union_internal : forall fuel l r, pres (union_internal fuel l r).
  Proof.
    induction fuel as [|fuel IHfuel]; intros l r; cbn [union_internal]; [apply p3_fail|].
    apply p3_union_internal_body. exact IHfuel.
  Qed.
  Lemma p3_uint : forall l r, pres (uint l r).
  Proof. intros; apply p3_union_internal. Qed.

  Lemma p3_handle_shrink : forall src, pres (handle_shrink_in_upwards_merge src).
  Proof.
    intros src. unfold handle_shrink_in_upwards_merge.
    pose proof p3_pc_congruence. pose proof (p3_shrink_slots uint p3_uint). psolve.
  Qed.
  Lemma p3_handle_congruence : forall pc, pres (handle_congruence pc).
  Proof.
    intros pc. unfold handle_congruence. pose proof p3_pc_congruence. pose proof p3_uint. psolve.
  Qed.
  Lemma p3_determine_self_symmetries : forall src, pres (determine_self_symmetries src).
  Proof.
    intros src. unfold determine_self_symmetries.
    pose proof p3_pc_congruence. pose proof p3_uint. psolve.
  Qed.
  Lemma p3_hp_loop : forall fuel src enode i, pres (hp_loop fuel src enode i).
  Proof.
    induction fuel as [|fuel IHfuel]; intros src enode i; cbn [hp_loop]; [apply p3_fail|].
    pose proof p3_handle_shrink. psolve.
  Qed.
End Pres3.

Lemma ks_upd : forall i f, (forall c, c_nodes (f c) = c_nodes c) -> ModelFacts.pres keys_sub (upd_class i f).
Proof.
  intros i f Hf s x s' H. apply upd_class_inv in H. destruct H as (c & Hc & ->).
  pose proof (get_class_lt _ _ _ Hc) as L. apply nodes_same_ks. intros j cj Hj.
  rewrite (get_class_upd s i (f c) j L) in Hj. destruct (j =? i) eqn:E.
  - apply N.eqb_eq in E. subst j. inversion Hj; subst cj. exists c. split; [exact Hc|apply Hf].
  - exists cj. split; [exact Hj|reflexivity].
Qed.

Section KS.
  Let P1 : forall s p, keys_sub s (set_pending s p).
  Proof. intros s p. apply nsame_ks, nsame_pend. Qed.
  Let P3 : forall i p s s', unionfind_set i p s = Ok (tt, s') -> (N.to_nat i < lc s)%nat -> keys_sub s s'.
  Proof. intros i p s s' H _. apply nsame_ks, nsame_classes. eapply unionfind_set_classes; eauto. Qed.
  Let P4 : ModelFacts.pres keys_sub fresh.
  Proof. intros s x s' H. inversion H. apply nsame_ks, nsame_ctr. Qed.
  Let P5 : forall A (f : N -> A * N), ModelFacts.pres keys_sub (with_ctr f).
  Proof. intros A f s x s' H. apply with_ctr_spec in H. subst s'. apply nsame_ks, nsame_ctr. Qed.

  Ltac ks_close := first [eassumption | exact ks_refl | exact ks_trans | exact ks_upd | exact ks_move_body | (intros; apply P5)].

  Lemma ks_uint : forall l r s b s', uint l r s = Ok (b, s') -> keys_sub s s'.
  Proof.
    intros l r s b s' H.
    eapply (p3_uint keys_sub); ks_close.
  Qed.
  Lemma ks_hp_loop : forall fuel src enode i s r s', hp_loop fuel src enode i s = Ok (r, s') -> keys_sub s s'.
  Proof.
    intros fuel src enode i s r s' H.
    eapply (p3_hp_loop keys_sub); ks_close.
  Qed.
  Lemma ks_handle_congruence : forall pc s x s', handle_congruence pc s = Ok (x, s') -> keys_sub s s'.
  Proof.
    intros pc s x s' H.
    eapply (p3_handle_congruence keys_sub); ks_close.
  Qed.
  Lemma ks_determine_self_symmetries : forall src s x s', determine_self_symmetries src s = Ok (x, s') -> keys_sub s s'.
  Proof.
    intros src s x s' H.
    eapply (p3_determine_self_symmetries keys_sub); ks_close.
  Qed.
End KS.

Theorem kids_cov_uint : forall l r s b s', inv3 s -> covers s l -> covers s r -> kids_cov s ->
  uint l r s = Ok (b, s') -> kids_cov s'.
Proof.
  intros l r s b s' I Cl Cr K H. destruct (inv3_uint _ _ _ _ _ I Cl Cr H) as [_ E].
  exact (kids_cov_step s s' E (ks_uint _ _ _ _ _ H) K).
Qed.

(* ====================================================================== *)
(* 5b. the weak shape keeps `covers` of the children (closes H_wshape)     *)
(* ====================================================================== *)

(* x: child of the shape, x': child of the node at the same position *)
Definition kc_crel (x x' : appid) : Prop :=
  aid x = aid x' /\ map fst (am x) = map fst (am x') /\ (injective (am x') -> injective (am x)).

Lemma kc_get_rel_vals : forall (F G : slot -> occ) (m m' : slotmap),
  map fst m = map fst m' -> map F (map snd m) = map G (map snd m') ->
  forall k v, get m k = Some v -> exists v', get m' k = Some v' /\ F v = G v'.
Proof.
  intros F G. induction m as [|[k0 v0] t IH]; intros m' Hk Hv k v H; [discriminate|].
  destruct m' as [|[k0' v0'] t']; [discriminate|]. cbn [map fst snd] in Hk, Hv.
  injection Hk as Hk0 Hk. injection Hv as Hv0 Hv. subst k0'. cbn [get] in *.
  destruct (k =? k0).
  - inversion H; subst v0. exists v0'. split; [reflexivity|exact Hv0].
  - exact (IH t' Hk Hv k v H).
Qed.

Lemma kc_get_same_keys : forall (m m' : slotmap), map fst m = map fst m' -> forall k, get m k <> None -> get m' k <> None.
Proof.
  induction m as [|[k0 v0] t IH]; intros m' Hk k H; [cbn in H; congruence|].
  destruct m' as [|[k0' v0'] t']; [discriminate|]. cbn [map fst] in Hk. injection Hk as Hk0 Hk. subst k0'. cbn [get] in *.
  destruct (k =? k0); [discriminate|exact (IH t' Hk k H)].
Qed.

Lemma kc_inj_transfer : forall (F G : slot -> occ) (m m' : slotmap),
  map fst m = map fst m' -> map F (map snd m) = map G (map snd m') ->
  (forall u w, G u = G w -> u = w) -> injective m' -> injective m.
Proof.
  intros F G m m' Hk Hv IG I' k1 k2 v G1 G2.
  destruct (kc_get_rel_vals F G m m' Hk Hv _ _ G1) as (v1 & A1 & B1).
  destruct (kc_get_rel_vals F G m m' Hk Hv _ _ G2) as (v2 & A2 & B2).
  assert (v1 = v2) by (apply IG; congruence). subst v2. exact (I' _ _ _ A1 A2).
Qed.

Lemma kc_crel_f : forall theta a a' env env' k, skel_f a = skel_f a' ->
  map (rename_occ theta) (pat_f env k a) = pat_f env' k a' ->
  NoDup (map snd env') -> bounded env' k -> Forall2 kc_crel (app_occ_f a) (app_occ_f a').
Proof.
  intros theta. induction a as [x|x|x b IH|p]; intros a' env env' k Sk P N Bd; destruct a' as [x'|x'|x' b'|p']; try discriminate;
    cbn [app_occ_f]; try constructor.
  - cbn [skel_f] in Sk. injection Sk as Ea Em. cbn [pat_f] in P.
    assert (Ek : map fst (am x) = map fst (am x')).
    { apply (f_equal (map fst)) in Em. rewrite !map_map in Em. cbn [fst] in Em. exact Em. }
    split; [exact Ea|]. split; [exact Ek|].
    apply (kc_inj_transfer (fun v => rename_occ theta (key env v)) (key env') (am x) (am x') Ek).
    + unfold values_vec in P. rewrite map_map in P. exact P.
    + intros u w. apply key_inj. exact N.
  - constructor.
  - cbn [skel_f] in Sk. injection Sk as Sk. cbn [pat_f map rename_occ] in P. injection P as P.
    apply (IH b' ((x, k) :: env) ((x', k) :: env') (S k) Sk P).
    + cbn [map snd]. constructor; [|exact N]. intros Hin. apply in_map_iff in Hin. destruct Hin as ([y j] & Ej & Hin).
      cbn [snd] in Ej. subst j. apply Bd in Hin. lia.
    + intros y j [Ey|Hy]; [inversion Ey; lia|]. apply Bd in Hy. lia.
Qed.

Lemma kc_crel_args : forall theta l l' k, map skel_f l = map skel_f l' ->
  map (rename_occ theta) (pat_args k l) = pat_args k l' ->
  Forall2 kc_crel (flat_map app_occ_f l) (flat_map app_occ_f l').
Proof.
  intros theta. induction l as [|a t IH]; intros l' k Sk P; destruct l' as [|a' t']; try discriminate; cbn [flat_map]; [constructor|].
  cbn [map] in Sk. injection Sk as Sa St. cbn [pat_args] in P.
  assert (Nb : nbind_f a = nbind_f a') by (rewrite <- (nbind_skel a), Sa, nbind_skel; reflexivity).
  rewrite Nb, map_app in P. apply app_eq_len in P; [|rewrite map_length; apply pat_f_len; exact Sa]. destruct P as [Pa Pt].
  apply Forall2_app; [|eapply IH; eauto].
  apply (kc_crel_f theta a a' [] [] k Sa Pa); [constructor|intros y i []].
Qed.

Lemma kc_crel_node : forall theta n n', skel n = skel n' -> map (rename_occ theta) (pattern n) = pattern n' ->
  Forall2 kc_crel (app_occ n) (app_occ n').
Proof.
  intros theta n n' Sk P. unfold skel in Sk. injection Sk as _ Sk. exact (kc_crel_args theta _ _ 0 Sk P).
Qed.

Lemma kc_covers_crel : forall s x x', kc_crel x x' -> covers s x' -> covers s x.
Proof.
  intros s x x' (Ea & Ek & Inj) (c & Hc & I' & S'). exists c. rewrite Ea. split; [exact Hc|]. split; [exact (Inj I')|].
  intros k Hk. apply (kc_get_same_keys (am x') (am x)); [symmetry; exact Ek|]. apply S'. exact Hk.
Qed.

Theorem wshape_covers : forall s p sh bij, wshape p = Ok (sh, bij) ->
  Forall (covers s) (app_occ p) -> Forall (covers s) (app_occ sh).
Proof.
  intros s p sh bij H Cv. destruct (shape_equiv_by p sh bij H) as (theta & (Sk & _ & P) & _).
  pose proof (kc_crel_node theta sh p Sk P) as F.
  induction F as [|x x' l l' Hx F IH]; [constructor|].
  inversion Cv as [|y t Cy Ct]; subst. constructor; [exact (kc_covers_crel s x x' Hx Cy)|exact (IH Ct)].
Qed.

(* ====================================================================== *)
(* 6. the walk through handle_pending / rebuild / eg_union (without Sound)  *)
(* ====================================================================== *)

Lemma find_enode_covers : forall s n n', eg_inv s -> Forall (covers s) (app_occ n) ->
  find_enode s n = Ok n' -> Forall (covers s) (app_occ n').
Proof.
  intros s n n' I Cv F. pose proof I as [Hok Hs _].
  unfold find_enode in F. destruct (mapr (find_applied_id s) (app_occ n)) as [l|] eqn:El; cbn [bind] in F; [|discriminate].
  inversion F; subst n'; clear F.
  rewrite app_occ_set_apps by (eapply mapr_length; eauto).
  apply Forall_forall. intros a' Ha'. destruct (mapr_in _ _ _ El a' Ha') as (a & Ha & Fa).
  destruct (covers_find_ok s a Hok Hs (proj1 (Forall_forall _ _) Cv a Ha)) as (a2 & Fa2 & CO).
  rewrite Fa in Fa2. inversion Fa2; subst a2. apply canon_covers. exact CO.
Qed.

Lemma cov_hp_loop : forall fuel src enode i s r s', inv3 s -> lcanon s i ->
  Forall (covers s) (app_occ enode) -> hp_loop fuel src enode i s = Ok (r, s') ->
  Forall (covers s') (app_occ (fst r)).
Proof.
  induction fuel as [|f IH]; intros src enode i s r s' I3 L Cv H; cbn [hp_loop] in H; [discriminate|].
  destruct (sset_subset (values (am i)) (slots enode)).
  - inversion H; subst r s'. exact Cv.
  - apply mbind_inv in H. destruct H as (u & s1 & H1 & H).
    destruct (inv3_handle_shrink _ _ _ _ H1 I3) as [I1 E1].
    apply bind_reads_inv in H. destruct H as (enode' & He & H).
    apply bind_reads_inv in H. destruct H as (i' & Hi & H).
    apply (IH src enode' i' s1 r s' I1); [| |exact H].
    + eapply lcanon_ext_find; [exact (proj1 (proj1 I1))|exact E1|exact L|exact Hi].
    + apply (find_enode_covers s1 enode enode' (proj1 (proj1 I1))); [|exact He].
      revert Cv. apply Forall_impl. intros a. apply covers_ext. exact E1.
Qed.

(* raw_add_to_class of an entry whose children are covered *)
Lemma kids_cov_raw_add : forall id sh bij src s x s', eg_inv2 s -> kids_cov s ->
  Forall (covers s) (app_occ sh) -> raw_add_to_class id (sh, bij) src s = Ok (x, s') -> kids_cov s'.
Proof.
  intros id sh bij src s x s' Hs2 K Cv H.
  destruct (semR_step2 _ _ (s_raw_add _ _ _ _ _ _ H) Hs2) as [_ E].
  intros j c' sh0 bij1 src1 a Hc He Ha. apply (covers_ext s s' a E).
  destruct (raw_add_keys _ _ _ _ _ _ _ H _ _ _ Hc He) as [(c & Hc0 & He0)|Ef].
  - exact (K _ _ _ _ _ _ Hc0 He0 Ha).
  - cbn [fst] in Ef. subst sh0. exact (proj1 (Forall_forall _ _) Cv a Ha).
Qed.

Section Walk.
  (* the weak-shape step is `wshape_covers` of section 5b *)

  Theorem kids_cov_handle_pending : forall sh ty s x s', inv3 s -> mod4_ok s -> kids_cov s ->
    handle_pending sh ty s = Ok (x, s') -> kids_cov s'.
  Proof.
    intros sh ty s x s' I3 M4 K H. unfold handle_pending in H.
    apply bind_reads_inv in H. destruct H as (i & _ & H).
    destruct (negb ty); [inversion H; subst; exact K|].
    apply bind_reads_inv in H. destruct H as (c & Hc & H).
    apply mbind_inv in H. destruct H as ([bij0 src_id] & s0 & Hp & H). apply lift_inv in Hp. destruct Hp as [Hp ->].
    destruct (na_get (c_nodes c) sh) as [p0|] eqn:Hp0; [|discriminate]. inversion Hp; subst p0; clear Hp.
    apply mbind_inv in H. destruct H as (nd & s0 & Hnd & H). apply lift_inv in Hnd. destruct Hnd as [Hnd ->].
    pose proof (kids_cov_apply s i c sh bij0 src_id nd I3 M4 K Hc (na_get_in _ _ _ Hp0) Hnd) as Cv.
    apply mbind_inv in H. destruct H as (u1 & sA & HA & H).
    assert (IA : inv3 sA /\ ext s sA).
    { destruct I3 as [Hs2 HN]. destruct (semR_step2 _ _ (s_raw_remove _ _ _ _ _ HA) Hs2) as [HsA EA].
      split; [|exact EA]. split; [exact HsA|eapply nodes_raw_remove; eauto]. }
    destruct IA as [IA EA].
    pose proof (kids_cov_step s sA EA (ks_raw_remove _ _ _ _ _ HA) K) as KA.
    apply bind_reads_inv in H. destruct H as (sl & Hsl & H). cbv zeta in H.
    apply bind_reads_inv in H. destruct H as (enode0 & Hen & H).
    apply bind_reads_inv in H. destruct H as (i0 & Hi0 & H).
    unfold class_slots in Hsl. destruct (get_class sA i) as [cA|] eqn:HcA; cbn [bind] in Hsl; [|discriminate].
    inversion Hsl; subst sl; clear Hsl.
    pose proof (covers_lcanon sA _ i0 (proj1 (proj1 IA)) (covers_identity sA i cA HcA) Hi0) as L0.
    assert (Cv0 : Forall (covers sA) (app_occ enode0)).
    { apply (find_enode_covers sA nd enode0 (proj1 (proj1 IA))); [|exact Hen].
      revert Cv. apply Forall_impl. intros a. apply covers_ext. exact EA. }
    apply mbind_inv in H. destruct H as ([enode i1] & sB & HB & H).
    destruct (inv3_hp_loop _ _ _ _ _ _ _ IA L0 (ex_intro _ nd Hen) HB) as (IB & EB & L1 & (n0 & Fn) & Sub).
    pose proof (cov_hp_loop _ _ _ _ _ _ _ IA L0 Cv0 HB) as CvB. cbn [fst snd] in *.
    pose proof (kids_cov_step sA sB EB (ks_hp_loop _ _ _ _ _ _ _ HB) KA) as KB.
    apply bind_reads_inv in H. destruct H as (t & Ht & H).
    apply bind_reads_inv in H. destruct H as (lk & _ & H).
    destruct lk as [hit|].
    - apply bind_reads_inv in H. destruct H as (pc & P & H).
      destruct (inv3_handle_congruence _ _ _ _ _ IB P H) as [_ E'].
      exact (kids_cov_step sB s' E' (ks_handle_congruence _ _ _ _ H) KB).
    - destruct t as [sh' bij].
      apply mbind_inv in H. destruct H as (m & sC & Hm & H).
      change (fill_fresh (values bij) (inv (am i1)) sB = Ok (m, sC)) in Hm. cbv zeta in H.
      apply mbind_inv in H. destruct H as (u2 & sD & HD & H).
      pose proof IB as [[HsB HbB] NB].
      destruct L1 as [Ld1 (cB & HcB & G1 & W1 & B1 & K1)].
      pose proof (proj1 (is_bijection_injective _ W1) B1) as Inj1.
      unfold shape in Ht. destruct (pre_shape sB enode) as [p|] eqn:Pp; cbn [bind] in Ht; [|discriminate].
      pose proof (wshape_covers sB p sh' bij Ht (pre_shape_covers sB enode p IB CvB Pp)) as CvS.
      destruct (shape_bij_props _ _ _ Ht) as (Wb & Bb & _). destruct (shape_bij _ _ _ Ht) as (Sb1 & Sb2 & _).
      pose proof (proj1 (is_bijection_injective _ Wb) Bb) as Injb.
      destruct (fill_fresh_spec _ _ _ _ _ (inverse_wf (am i1)) Hm) as (Wm & _ & Keep & (cC & ->)).
      assert (Bnd : forall k v, get (inv (am i1)) k = Some v -> v < ectr sB).
      { intros k v G. apply (get_inverse _ _ _ W1 B1) in G.
        assert (Hv : In v (c_slots cB)) by (rewrite <- K1; apply keys_spec; congruence).
        destruct (ei_cls sB HsB _ _ HcB) as (_ & _ & Isyn). apply Isyn, slots_spec, pub_occ_all_occ in Hv.
        exact (HbB _ _ _ HcB Hv). }
      destruct (fill_fresh_inj _ _ _ _ _ (inverse_wf (am i1)) (inv_injective _ W1 Inj1) Bnd Hm) as [Injm _].
      assert (IC : inv3 (set_ctr sB cC) /\ ext sB (set_ctr sB cC)).
      { apply (semn_step3 sB (set_ctr sB cC)); [|apply nsame_ctr|exact IB].
        exact (s_fill_fresh _ _ _ _ _ Hm). }
      destruct IC as [IC EC].
      assert (EO : entry_ok (c_slots cB) (sh', (bij ** m, src_id))).
      { unfold entry_ok. cbn [fst snd]. split; [apply compose_partial_wf|]. split; [apply compose_injective; assumption|]. split.
        - intros k Hk. apply Sb2. rewrite get_compose_partial in Hk by assumption. destruct (get bij k); congruence.
        - intros y Hy. rewrite <- K1 in Hy. apply keys_spec in Hy. destruct (get (am i1) y) as [v|] eqn:Gy; [|congruence].
          assert (Hv : In v (slots enode)).
          { apply mem_in. unfold sset_subset in Sub. apply (proj1 (forallb_forall _ _) Sub). apply values_spec; eauto. }
          apply (pre_shape_keeps_proved sB n0 enode p HsB Fn Pp), slots_spec, Sb1 in Hv. destruct Hv as (k & Gk). exists k.
          rewrite get_compose_partial by assumption. rewrite Gk.
          assert (Gi : get (inv (am i1)) v = Some y) by (apply (get_inverse _ _ _ W1 B1); exact Gy).
          rewrite Keep by congruence. exact Gi. }
      assert (ID : inv3 sD /\ ext (set_ctr sB cC) sD).
      { destruct IC as [Hs2 HN]. destruct (semR_step2 _ _ (s_raw_add _ _ _ _ _ _ HD) Hs2) as [HsD ED].
        split; [|exact ED]. split; [exact HsD|]. eapply nodes_raw_add; [exact HN| |exact EO|exact HD]. exact HcB. }
      destruct ID as [ID ED].
      pose proof (kids_cov_step sB (set_ctr sB cC) EC (nsame_ks _ _ (nsame_ctr sB cC)) KB) as KC.
      assert (CvC : Forall (covers (set_ctr sB cC)) (app_occ sh')).
      { revert CvS. apply Forall_impl. intros a. apply covers_ext. exact EC. }
      pose proof (kids_cov_raw_add _ _ _ _ _ _ _ (proj1 IC) KC CvC HD) as KD.
      destruct (inv3_determine_self_symmetries _ _ _ _ H ID) as [_ E'].
      exact (kids_cov_step sD s' E' (ks_determine_self_symmetries _ _ _ _ H) KD).
  Qed.

  Theorem kids_cov_rebuild : forall fuel s x s', inv3 s -> mod4_ok s -> kids_cov s ->
    rebuild fuel s = Ok (x, s') -> kids_cov s'.
  Proof.
    induction fuel as [|f IH]; intros s x s' I3 M4 K H; [discriminate|]. rewrite rebuild_S in H.
    apply mbind_inv in H. destruct H as (p & s0 & Hp & H). inversion Hp; subst p s0; clear Hp.
    destruct (pending s) as [|[sh ty] rest] eqn:Ep; [inversion H; subst; exact K|].
    apply mbind_inv in H. destruct H as (u & s1 & H1 & H).
    destruct (s_modify_pend' (fun _ => rest) _ _ _ H1) as [A B].
    destruct (semn_step3 _ _ A B I3) as [I1 E1].
    pose proof (kids_cov_step s s1 E1 (nsame_ks _ _ B) K) as K1.
    assert (M1 : mod4_ok s1) by (inversion H1; subst s1; apply (R4_same s); [reflexivity|reflexivity|reflexivity|exact M4]).
    apply mbind_inv in H. destruct H as (u2 & s2 & H2 & H).
    destruct (inv3_handle_pending pre_shape_keeps_proved _ _ _ _ _ H2 I1) as [I2 _].
    exact (IH s2 x s' I2 (p4_handle_pending _ _ _ _ _ H2 M1) (kids_cov_handle_pending _ _ _ _ _ I1 M1 K1 H2) H).
  Qed.
End Walk.

(* ====================================================================== *)
(* 6b. the insertion path.  The block below (kc_child_inj .. kc_lookup_hit_vals') is COPIED, with the
       prefix kc_, from SoundReadd.v of the sibling development (children of equivalent nodes,
       value bounds of synified maps); the proofs after it are new.                            *)
(* ====================================================================== *)

(* corresponding children of two equivalent nodes: same id, same keys, injectivity is kept
   (get-based: no sortedness of the child maps is needed) *)
Definition kc_child_inj (x x' : appid) : Prop :=
  aid x' = aid x /\ keys_vec (am x') = keys_vec (am x) /\ (injective (am x) -> injective (am x')).

Lemma kc_map_eq_Forall2 : forall {A B C} (f : A -> C) (g : B -> C) l l', map f l = map g l' ->
  Forall2 (fun a b => f a = g b) l l'.
Proof.
  intros A B C f g. induction l as [|x t IH]; intros l' H; destruct l' as [|y t']; try discriminate; [constructor|].
  cbn [map] in H. injection H as Hx Ht. constructor; [exact Hx|apply IH; exact Ht].
Qed.

Lemma kc_child_inj_f : forall theta PAT,
  (forall v1 v2, In (Fr v1) PAT -> In (Fr v2) PAT -> theta v1 = theta v2 -> v1 = v2) ->
  forall a a' env env' k, skel_f a = skel_f a' -> map (rename_occ theta) (pat_f env k a) = pat_f env' k a' ->
  incl (pat_f env k a) PAT -> NoDup (map snd env) -> bounded env k ->
  Forall2 kc_child_inj (app_occ_f a) (app_occ_f a').
Proof.
  intros theta PAT TI.
  induction a as [x|x|x b IH|q]; intros a' env env' k Sk P Inc N Bd; destruct a' as [x'|x'|x' b'|q']; try discriminate;
    cbn [app_occ_f]; try constructor.
  - cbn [skel_f] in Sk. injection Sk as Ea Em. cbn [pat_f] in P, Inc. split; [symmetry; exact Ea|]. split.
    + unfold keys_vec. apply (f_equal (map fst)) in Em. rewrite !map_map in Em. cbn [fst] in Em. symmetry. exact Em.
    + intros Ix k1 k2 v' G1 G2. rewrite map_map in P. pose proof (kc_map_eq_Forall2 _ _ _ _ P) as F.
      destruct (get_rel_vals _ (am x) (am x') Em F k1 v' G1) as (v1 & Gv1 & Q1).
      destruct (get_rel_vals _ (am x) (am x') Em F k2 v' G2) as (v2 & Gv2 & Q2). cbv beta in Q1, Q2.
      assert (J1 : In (key env v1) PAT) by (apply Inc; apply in_map; eapply vals_in_vec; eauto).
      assert (J2 : In (key env v2) PAT) by (apply Inc; apply in_map; eapply vals_in_vec; eauto).
      assert (Ev : v1 = v2).
      { rewrite <- Q2 in Q1. unfold key in Q1, J1, J2.
        destruct (blookup env v1) as [i1|] eqn:B1; destruct (blookup env v2) as [i2|] eqn:B2; cbn [rename_occ] in Q1; try discriminate.
        - inversion Q1; subst i2. apply blookup_in in B1, B2. eapply snd_nodup_inj; eauto.
        - inversion Q1 as [Et]. exact (TI _ _ J1 J2 Et). }
      subst v2. exact (Ix _ _ _ Gv1 Gv2).
  - constructor.
  - cbn [skel_f] in Sk. injection Sk as Sk. cbn [pat_f map rename_occ] in P. injection P as P. cbn [pat_f] in Inc.
    apply (IH b' ((x, k) :: env) ((x', k) :: env') (S k) Sk P).
    + intros o Ho. apply Inc. right. exact Ho.
    + cbn [map snd]. constructor; [|exact N]. intros Hin. apply in_map_iff in Hin. destruct Hin as ([y j] & Ej & Hin).
      cbn [snd] in Ej. subst j. apply Bd in Hin. lia.
    + intros y j [Ey|Hy]; [inversion Ey; lia|]. apply Bd in Hy. lia.
Qed.

Lemma kc_child_inj_args : forall theta PAT,
  (forall v1 v2, In (Fr v1) PAT -> In (Fr v2) PAT -> theta v1 = theta v2 -> v1 = v2) ->
  forall l l' k, map skel_f l = map skel_f l' -> map (rename_occ theta) (pat_args k l) = pat_args k l' ->
  incl (pat_args k l) PAT ->
  Forall2 kc_child_inj (flat_map app_occ_f l) (flat_map app_occ_f l').
Proof.
  intros theta PAT TI.
  induction l as [|a t IH]; intros l' k Sk P Inc; destruct l' as [|a' t']; try discriminate; cbn [flat_map]; [constructor|].
  cbn [map] in Sk. injection Sk as Sa St. cbn [pat_args] in P, Inc.
  assert (Nb : nbind_f a = nbind_f a') by (rewrite <- (nbind_skel a), Sa, nbind_skel; reflexivity).
  rewrite Nb in P. rewrite map_app in P. apply app_eq_len in P; [|rewrite map_length; apply pat_f_len; exact Sa].
  destruct P as [Pa Pt].
  apply Forall2_app.
  - apply (kc_child_inj_f theta PAT TI a a' [] [] k Sa Pa); [|constructor|intros y i []].
    intros o Ho. apply Inc. apply in_or_app. left. exact Ho.
  - apply (IH t' (k + nbind_f a)%nat St); [rewrite Nb; exact Pt|].
    intros o Ho. apply Inc. apply in_or_app. right. exact Ho.
Qed.

Lemma kc_child_inj_node : forall theta n n', equiv_by theta n n' -> Forall2 kc_child_inj (app_occ n) (app_occ n').
Proof.
  intros theta n n' (Sk & I & P). unfold skel in Sk. injection Sk as _ Sk. unfold pattern in P.
  apply (kc_child_inj_args theta (pattern n)) with (k := O); [|exact Sk|exact P|apply incl_refl].
  intros v1 v2 H1 H2. apply I; rewrite <- frees_pattern; apply frees_in; assumption.
Qed.

Lemma kc_covers_child_inj : forall s l l', Forall (covers s) l -> Forall2 kc_child_inj l l' -> Forall (covers s) l'.
Proof.
  intros s l l' F H. induction H as [|x x' l l' (Ea & Ek & Ij) H IH]; [constructor|].
  inversion F as [|x0 l0 (c & Hc & Ix & Sx) Fl]; subst. constructor; [|apply IH; exact Fl].
  exists c. rewrite Ea. split; [exact Hc|]. split; [exact (Ij Ix)|].
  intros k Hk. apply get_in_keys. rewrite Ek. apply get_in_keys. apply Sx. exact Hk.
Qed.

Lemma kc_covers_child_ext : forall s l l', Forall (covers s) l -> Forall2 child_ext l l' -> Forall (covers s) l'.
Proof.
  intros s l l' F H. induction H as [|x x' l l' (Ea & Kp & Ij) H IH]; [constructor|].
  inversion F as [|x0 l0 (c & Hc & Ix & Sx) Fl]; subst. constructor; [|apply IH; exact Fl].
  exists c. rewrite Ea. split; [exact Hc|]. split; [exact Ij|].
  intros k Hk. pose proof (Sx k Hk) as T. destruct (get (am x) k) as [v|] eqn:G; [|congruence].
  rewrite (Kp _ _ G). discriminate.
Qed.

(* value vectors whose slots of residue 1 are below the counter *)
Definition kc_vbv (c : N) (m : slotmap) : Prop := forall v, In v (values_vec m) -> v mod 4 <> 1 \/ v < c.

Lemma kc_vbv_vbound : forall c m, kc_vbv c m -> vbound c m.
Proof. intros c m H k v G. apply H. eapply vals_in_vec; eauto. Qed.

Lemma kc_vbv_mono : forall c c' m, c <= c' -> kc_vbv c m -> kc_vbv c' m.
Proof. intros c c' m L H v Hv. destruct (H v Hv); [left; assumption|right; lia]. Qed.

Lemma kc_insert_vals : forall m l r v, In v (values_vec (insert l r m)) -> v = r \/ In v (values_vec m).
Proof.
  unfold values_vec. induction m as [|[k w] t IH]; intros l r v H; cbn [insert] in H.
  - cbn [map snd] in H. destruct H as [<-|[]]. left. reflexivity.
  - destruct (l <? k).
    + cbn [map snd] in H |- *. destruct H as [<-|H]; [left; reflexivity|right; exact H].
    + destruct (l =? k).
      * cbn [map snd] in H |- *. destruct H as [<-|H]; [left; reflexivity|right; right; exact H].
      * cbn [map snd] in H |- *. destruct H as [<-|H]; [right; left; reflexivity|].
        destruct (IH _ _ _ H) as [A|A]; [left; exact A|right; right; exact A].
Qed.

Lemma kc_fill_fresh_vbv : forall l m s m' s', fill_fresh l m s = Ok (m', s') -> kc_vbv (ectr s) m ->
  kc_vbv (ectr s') m' /\ ectr s <= ectr s'.
Proof.
  induction l as [|x t IH]; intros m s m' s' H B; cbn [fill_fresh] in H.
  - inversion H; subst. split; [exact B|lia].
  - destruct (contains_key m x); [exact (IH _ _ _ _ H B)|].
    apply mbind_inv in H. destruct H as (f & s1 & H1 & H). inversion H1; subst f s1; clear H1.
    destruct (IH _ _ _ _ H) as [A L].
    + intros v Hv. cbn [Model.ctr set_ctr]. apply kc_insert_vals in Hv. destruct Hv as [->|Hv]; [right; lia|].
      destruct (B v Hv); [left; assumption|right; lia].
    + split; [exact A|]. cbn [Model.ctr set_ctr] in L. lia.
Qed.

Lemma kc_mapM_synify_vbv : forall l s r s', mapM synify_app_id l s = Ok (r, s') ->
  Forall (fun x => kc_vbv (ectr s) (am x)) l -> Forall (fun x => kc_vbv (ectr s') (am x)) r /\ ectr s <= ectr s'.
Proof.
  induction l as [|a t IH]; intros s r s' H F; cbn [mapM] in H.
  - inversion H; subst. split; [constructor|lia].
  - apply mbind_inv in H. destruct H as (a' & s1 & H1 & H).
    apply mbind_inv in H. destruct H as (r' & s2 & H2 & H). inversion H; subst r s2; clear H.
    inversion F as [|a0 t0 Ba Ft]; subst.
    unfold synify_app_id in H1. apply bind_reads_inv in H1. destruct H1 as (ss & _ & H1).
    apply mbind_inv in H1. destruct H1 as (m' & s1' & H1 & H1'). inversion H1'; subst a' s1'; clear H1'.
    change (fill_fresh ss (am a) s = Ok (m', s1)) in H1.
    destruct (kc_fill_fresh_vbv _ _ _ _ _ H1 Ba) as [Bm L1].
    destruct (IH _ _ _ H2) as [Br L2].
    { revert Ft. apply Forall_impl. intros b Bb. exact (kc_vbv_mono _ _ _ L1 Bb). }
    split; [|lia]. constructor; [cbn [am]; exact (kc_vbv_mono _ _ _ L2 Bm)|exact Br].
Qed.

(* the values of the map returned by a lookup hit are public slots of the node
   (= SoundRebuild.lookup_hit_vals, repeated here because that file comes later) *)
Lemma kc_lookup_hit_vals' : forall s p sh nb a, wshape p = Ok (sh, nb) -> lookup_internal s (sh, nb) = Ok (Some a) ->
  forall v, In v (values_vec (am a)) -> In v (pub_occ p).
Proof.
  intros s p sh nb a Hw H v Hv. unfold lookup_internal in H.
  destruct (na_get (hashcons s) sh) as [i|]; [|discriminate].
  destruct (get_class s i) as [c|] eqn:Hc; cbn [bind] in H; [|discriminate].
  destruct (na_get (c_nodes c) sh) as [[cn_bij src]|] eqn:G; [|discriminate]. inversion H; subst a; clear H. cbn [am] in Hv.
  destruct (shape_bij_props _ _ _ Hw) as (Wn & _ & Pn).
  assert (Hv2 : In v (values_vec (inv cn_bij ** nb))).
  { unfold values_vec in *. apply in_map_iff in Hv. destruct Hv as (kv & <- & Hin). apply filter_In in Hin.
    apply in_map. tauto. }
  apply (compose_vals_incl _ _ (inverse_wf cn_bij)) in Hv2.
  unfold values_vec in Hv2. apply in_map_iff in Hv2. destruct Hv2 as ([k v'] & Ev & Hin). cbn [snd] in Ev. subst v'.
  apply Pn. exists k. apply in_get; assumption.
Qed.

Lemma kids_cov_classes : forall s s', classes s' = classes s -> kids_cov s -> kids_cov s'.
Proof.
  intros s s' C K i c sh bij src a Hc He Ha. rewrite (get_class_classes _ _ _ C) in Hc.
  exact (covers_classes s s' a C (K _ _ _ _ _ _ Hc He Ha)).
Qed.

(* mod4_ok of the state at the entry of the rebuild inside mk_singleton_class (the prefix of the
   proof of SoundUnion.p4_mk_singleton, stated against the data exported by mk_singleton_walk) *)
Lemma kc_m4_mk_prefix : forall en s f2o c2 synf i s3 sh bij s4 s5,
  mod4_ok s ->
  bijection_from_fresh_to (slots en) (ectr s) = (f2o, c2) ->
  apply_slotmap_fresh false (inv f2o) en c2 = (synf, c2) ->
  alloc_eclass (values (inv f2o)) synf (set_ctr (set_ctr s c2) c2) = Ok (i, s3) ->
  wshape synf = Ok (sh, bij) ->
  raw_add_to_class i (sh, bij) i s3 = Ok (tt, s4) ->
  pending_insert sh true s4 = Ok (tt, s5) -> mod4_ok s5.
Proof.
  intros en s f2o c2 synf i s3 sh bij s4 s5 M BF ASF H3 Ht H4 H5.
  assert (H1 : with_ctr (bijection_from_fresh_to (slots en)) s = Ok (f2o, set_ctr s c2)).
  { unfold with_ctr. rewrite BF. reflexivity. }
  pose proof (p4_with_ctr _ _ (bijection_from_fresh_to_step (slots en)) _ _ _ H1 M) as M1.
  assert (H2 : with_ctr (apply_slotmap_fresh false (inv f2o) en) (set_ctr s c2) = Ok (synf, set_ctr (set_ctr s c2) c2)).
  { unfold with_ctr. cbn [Model.ctr set_ctr]. rewrite ASF. reflexivity. }
  pose proof (p4_with_ctr _ _ (apply_slotmap_fresh_step false (inv f2o) en) _ _ _ H2 M1) as M2.
  destruct (fresh_spec _ _ _ _ (slots_sorted en) BF) as (F1 & _).
  assert (K : forall x, In x (pub_occ en) -> get (inv f2o) x <> None).
  { intros x Hx. apply slots_spec in Hx. destruct (F1 x Hx) as (y & -> & _). discriminate. }
  rewrite (asf_ren (inv f2o) en c2 K) in ASF. inversion ASF as [Esyn]; clear ASF.
  assert (Psyn : forall y, In y (pub_occ synf) -> y mod 4 = 1).
  { intros y Hy. rewrite <- Esyn in Hy. apply pub_occ_ren_sub in Hy; [|reflexivity]. destruct Hy as (x & Hx & ->).
    apply slots_spec in Hx. destruct (F1 x Hx) as (u & -> & _ & Mu). rewrite Mu. apply M. }
  pose proof (alloc_eclass_exact _ _ _ _ _ H3) as (Hi & U & C & _ & _ & Ct).
  set (s2 := set_ctr (set_ctr s c2) c2) in *.
  assert (M3 : mod4_ok s3).
  { destruct M2 as [A B Cn D]. constructor.
    - rewrite Ct. exact A.
    - intros j x Hx. unfold SS in Hx. destruct (get_class s3 j) as [cj|] eqn:Hcj; [|contradiction].
      apply (get_class_ext_inv s2 s3 _ C) in Hcj. destruct Hcj as [Hcj|[_ ->]].
      + apply (B j). unfold SS. rewrite Hcj. exact Hx.
      + cbn [c_syn] in Hx. apply Psyn. apply slots_spec. exact Hx.
    - intros j cj e Hcj He. apply (get_class_ext_inv s2 s3 _ C) in Hcj. destruct Hcj as [Hcj|[_ ->]]; [eapply Cn; eauto|].
      cbn [c_nodes] in He. contradiction.
    - intros j e He. rewrite U in He. apply uentry_app_inv in He. destruct He as [He|[_ ->]]; [eapply D; eauto|].
      cbn [am]. apply k4_identity. intros x Hx. apply Psyn. apply slots_spec. exact Hx. }
  assert (Q : Q4 (sh, (bij, i))).
  { split; cbn [fst snd].
    - intros y Hy. apply (shape_all_occ_mod4 _ _ _ Ht). apply binders_all_occ. exact Hy.
    - intros k v G. apply Psyn. apply (proj2 (proj2 (shape_bij_props _ _ _ Ht))). eauto. }
  pose proof (p4_raw_add _ _ _ _ Q _ _ _ H4 M3) as M4.
  exact (p4_pending_insert _ _ _ _ _ H5 M4).
Qed.

(* the insertion of a weak shape keeps kids_cov; the values of the returned handle are bounded *)
Theorem kids_cov_add_internal_vb : forall t p s a s', inv3 s -> mod4_ok s -> kids_cov s -> wshape p = Ok t ->
  Forall (covers s) (app_occ p) -> (forall x, In x (pub_occ p) -> x mod 4 <> 1 \/ x < ectr s) ->
  add_internal t s = Ok (a, s') -> kids_cov s' /\ kc_vbv (ectr s') (am a).
Proof.
  intros [sh_t bij_t] p s a s' I3 M4 KC Hw Cv Bp H. pose proof (m4_ctr s M4) as Cm.
  destruct (lookup_internal s (sh_t, bij_t)) as [[hit|]|e] eqn:Hlk.
  - unfold add_internal, mbind, reads in H. rewrite Hlk in H. inversion H; subst. split; [exact KC|].
    intros v Hv. apply Bp. exact (kc_lookup_hit_vals' _ _ _ _ _ Hw Hlk v Hv).
  - pose proof H as H0.
    destruct (add_internal_walk _ _ _ _ I3 Hlk H) as (en1 & c1 & en2 & en3 & s3 & syn & RP & H2 & H3 & H4 & Sm & I1 & E01 & I3' & E13 & Hb).
    cbv zeta in *. cbn [fst snd] in RP, H2.
    destruct (mk_singleton_walk _ _ _ _ I3' Hb H4) as (f2o & c2 & synf & s3a & sh & bij & s4 & s5 & BF & ASF & AL & Hsh & RA & PI & RB & Ea & I2 & I3a & E23 & I4 & E34 & I5 & E45 & I6 & E56).
    cbv zeta in *.
    pose proof (cls_synify_enode _ _ _ _ H3) as [C13 _]. cbn [classes set_ctr] in C13.
    pose proof (alloc_eclass_exact _ _ _ _ _ AL) as (_ & _ & C & _).
    set (s2 := set_ctr (set_ctr s3 c2) c2) in *.
    assert (C2 : classes s2 = classes s) by (unfold s2; cbn [classes set_ctr]; exact C13).
    (* p and en2 *)
    destruct (pre_node_equiv p sh_t bij_t (ectr s) en1 c1 en2 Hw RP H2 Cm Bp) as [Q1 Bi2].
    pose proof (kc_covers_child_inj s _ _ Cv (kc_child_inj_node _ _ _ Q1)) as Cv2.
    destruct (refresh_private_spec _ _ _ _ RP) as (_ & Bi1 & _).
    pose proof (refresh_private_step sh_t (ectr s)) as St1. rewrite RP in St1. cbn [snd] in St1.
    pose proof (ctr_step_le _ _ St1) as Le1.
    assert (All2 : forall v, In v (all_occ en2) -> v mod 4 <> 1 \/ v < c1).
    { intros v Hall.
      apply (Permutation.Permutation_in _ (occ_partition en2)) in Hall. apply in_app_or in Hall. destruct Hall as [Hp|Hp].
      - rewrite (equiv_pub _ _ _ (proj2 (proj2 Q1))), map_id in Hp. destruct (Bp _ Hp); [left; assumption|right; lia].
      - apply prv_binders in Hp. rewrite Bi2 in Hp. pose proof (proj1 (Forall_forall _ _) Bi1 v Hp) as T. cbv beta in T. right. lia. }
    assert (Vv2 : Forall (fun x2 => kc_vbv (ectr (set_ctr s c1)) (am x2)) (app_occ en2)).
    { apply Forall_forall. intros x2 Hx2 v Hv. cbn [Model.ctr set_ctr]. apply All2. exact (vals_all_occ en2 x2 v Hx2 Hv). }
    assert (Vb2 : Forall (fun x2 => injective (am x2) /\ vbound (ectr (set_ctr s c1)) (am x2)) (app_occ en2)).
    { apply Forall_forall. intros x2 Hx2. destruct (proj1 (Forall_forall _ _) Cv2 x2 Hx2) as (c & _ & Ix2 & _).
      split; [exact Ix2|]. apply kc_vbv_vbound. exact (proj1 (Forall_forall _ _) Vv2 x2 Hx2). }
    (* en2 and en3 *)
    assert (Cm1 : ectr (set_ctr s c1) mod 4 = 1) by (cbn [Model.ctr set_ctr]; rewrite (ctr_step_mod _ _ St1); exact Cm).
    assert (X3 : Forall (covers s) (app_occ en3) /\ (forall v, In v (pub_occ en3) -> v mod 4 <> 1 \/ v < ectr s3)).
    { pose proof H3 as H3c. unfold synify_enode in H3c. apply mbind_inv in H3c. destruct H3c as (l & s1 & H3c & H3'). inversion H3'; subst en3 s1; clear H3'.
      destruct (kc_mapM_synify_vbv _ _ _ _ H3c Vv2) as [Vl L13]. cbn [Model.ctr set_ctr] in L13. split.
      - rewrite app_occ_set_apps by (eapply mapM_length; eauto).
        exact (kc_covers_child_ext s _ _ Cv2 (mapM_synify_rel _ _ _ _ H3c Cm1 Vb2)).
      - intros v Hv. unfold pub_occ, set_apps in Hv. cbn [nargs] in Hv. apply set_apps_args_pub in Hv.
        destruct Hv as [Hv|(y & Hy & Hv)].
        + destruct (All2 v Hv); [left; assumption|right; lia].
        + exact (proj1 (Forall_forall _ _) Vl y Hy v Hv). }
    destruct X3 as [Cv3 P3].
    (* en3 and the syntactic node *)
    destruct (fresh_rename_equiv en3 (ectr s3) f2o c2 synf Hb BF ASF) as [Q3 _].
    pose proof (kc_covers_child_inj s _ _ Cv3 (kc_child_inj_node _ _ _ Q3)) as Cvf.
    split.
    + (* the stored entries *)
      pose proof (kids_cov_classes s s2 C2 KC) as K2.
      assert (K3a : kids_cov s3a).
      { intros j cj sh0 bij1 src1 x Hj Hin Hx. apply (get_class_ext_inv s2 s3a _ C) in Hj.
        destruct Hj as [Hj|[_ ->]]; [|destruct Hin]. apply (covers_ext0 s2 s3a x E23). exact (K2 _ _ _ _ _ _ Hj Hin Hx). }
      assert (Cvf3 : Forall (covers s3a) (app_occ synf)).
      { revert Cvf. apply Forall_impl. intros x Cx. apply (covers_ext0 s2 s3a x E23). exact (covers_classes s s2 x C2 Cx). }
      pose proof (wshape_covers s3a synf sh bij Hsh Cvf3) as CvS.
      pose proof (kids_cov_raw_add _ _ _ _ _ _ _ (proj1 I3a) K3a CvS RA) as K4.
      assert (K5 : kids_cov s5).
      { apply (kids_cov_step s4 s5 E45); [|exact K4]. inversion PI. apply nsame_ks, nsame_pend. }
      (* mod4_ok at the entry of the rebuild *)
      assert (M3' : mod4_ok s3).
      { assert (M1 : mod4_ok (set_ctr s c1)).
        { apply (m4_frame s _); [| | | |exact M4].
          - cbn [Model.ctr set_ctr]. rewrite (ctr_step_mod _ _ St1). exact Cm.
          - apply classes_synsame. reflexivity.
          - apply nsame_nodes_same. apply nsame_ctr.
          - intros j e0 He. left. exact He. }
        exact (p4_synify_enode _ _ _ _ H3 M1). }
      pose proof (kc_m4_mk_prefix en3 s3 f2o c2 synf _ s3a sh bij s4 s5 M3' BF ASF AL Hsh RA PI) as M5.
      exact (kids_cov_rebuild _ _ _ _ I5 M5 K5 RB).
    + (* the handle *)
      assert (L3 : ectr s3 <= ectr s').
      { pose proof (bijection_from_fresh_to_step (slots en3) (ectr s3)) as St. rewrite BF in St. cbn [snd] in St. apply ctr_step_le in St.
        destruct E23 as [A1 _]. destruct E34 as [A2 _]. destruct E45 as [A3 _]. destruct E56 as [A4 _].
        unfold s2 in A1. cbn [Model.ctr set_ctr] in A1. lia. }
      destruct (bff_props _ _ _ _ (slots_sorted en3) BF) as [Wf2o If2o].
      pose proof (proj2 (is_bijection_injective f2o Wf2o) If2o) as Bf2o.
      unfold semify_app_id in Sm. destruct (class_slots s' (aid syn)) as [sl|]; [|discriminate]. cbn [bind] in Sm.
      inversion Sm; subst a; clear Sm. rewrite Ea. cbn [aid am].
      intros v Hv. unfold values_vec in Hv. apply in_map_iff in Hv. destruct Hv as ([k v'] & Ev & Hin). cbn [snd] in Ev. subst v'.
      apply filter_In in Hin. destruct Hin as [Hin _]. apply (in_get _ _ _ Wf2o) in Hin.
      apply (get_inverse f2o v k Wf2o Bf2o) in Hin.
      destruct (fresh_spec_keys _ _ _ _ _ _ (slots_sorted en3) BF Hin) as (Hs & _).
      apply slots_spec in Hs. destruct (P3 v Hs); [left; assumption|right; lia].
  - unfold add_internal, mbind, reads in H. rewrite Hlk in H. discriminate.
Qed.

Theorem kids_cov_eg_add_vb : forall n s a s', inv3 s -> mod4_ok s -> kids_cov s -> Forall (covers s) (app_occ n) ->
  (forall x, In x (all_occ n) -> x mod 4 <> 1 \/ x < ectr s) ->
  eg_add n s = Ok (a, s') -> kids_cov s' /\ kc_vbv (ectr s') (am a).
Proof.
  intros n s a s' I M4 K Cv Bn H. unfold eg_add in H. apply bind_reads_inv in H. destruct H as (t & Ht & H).
  unfold shape in Ht. destruct (pre_shape s n) as [p|] eqn:P; cbn [bind] in Ht; [|discriminate].
  apply (kids_cov_add_internal_vb t p s a s' I M4 K Ht (pre_shape_covers s n p I Cv P)); [|exact H].
  intros x Hx. apply Bn. apply (pre_shape_all_occ s n p P). apply pub_occ_all_occ. exact Hx.
Qed.

Lemma kids_cov_add_expr_k : forall k t s a s', (rsize t < k)%nat -> inv3 s -> mod4_ok s -> kids_cov s ->
  rt_ok t -> rt_wf t -> add_expr t s = Ok (a, s') -> kids_cov s' /\ kc_vbv (ectr s') (am a).
Proof.
  induction k as [|k IHk]; intros t s a s' Hk I M4 KC OK WF H; [lia|].
  destruct t as [n ch]. rewrite add_expr_unfold in H.
  apply rt_ok_iff in OK. destruct OK as [U Co]. apply rt_wf_iff in WF. destruct WF as [Ln Cw].
  apply mbind_inv in H. destruct H as (l & s1 & Hgo & H).
  assert (G : forall ch0, (forall c, In c ch0 -> (rsize c < k)%nat) -> Forall rt_ok ch0 -> Forall rt_wf ch0 ->
              forall s0 l0 s2, inv3 s0 -> mod4_ok s0 -> kids_cov s0 ->
              add_children ch0 s0 = Ok (l0, s2) ->
              inv3 s2 /\ ext0 s0 s2 /\ mod4_ok s2 /\ kids_cov s2 /\ Forall (covers s2) l0 /\
              Forall (fun x => kc_vbv (ectr s2) (am x)) l0 /\ List.length l0 = List.length ch0).
  { clear -IHk. induction ch0 as [|c r IHr]; intros Hs Co Cw s0 l0 s2 I0 M0 K0 H; cbn [add_children] in H.
    - inversion H; subst. split; [exact I0|]. split; [apply ext0_refl|]. split; [exact M0|]. split; [exact K0|].
      split; [constructor|]. split; [constructor|reflexivity].
    - inversion Co as [|? ? Oc Or]; subst. inversion Cw as [|? ? Wc Wr]; subst.
      apply mbind_inv in H. destruct H as (a0 & s1 & H1 & H).
      destruct (IHk c s0 a0 s1 (Hs c (or_introl eq_refl)) I0 M0 K0 Oc Wc H1) as (K1 & V1).
      pose proof (p4_add_expr _ _ _ _ H1 M0) as M1.
      destruct (add_expr_covers c s0 a0 s1 I0 H1) as (I1 & X1 & C1).
      apply mbind_inv in H. destruct H as (r' & s3 & H3 & H). inversion H; subst l0 s3; clear H.
      destruct (IHr (fun c' Hc' => Hs c' (or_intror Hc')) Or Wr s1 r' s2 I1 M1 K1 H3) as (I2 & X2 & M2 & K2 & C2 & V2 & L2).
      split; [exact I2|]. split; [eapply ext0_trans; eauto|]. split; [exact M2|]. split; [exact K2|].
      split; [constructor; [eapply covers_ext0; eauto|exact C2]|].
      split; [|cbn [List.length]; rewrite L2; reflexivity].
      constructor; [|exact V2]. apply (kc_vbv_mono (ectr s1)); [exact (proj1 X2)|exact V1]. }
  assert (Hsz : forall c, In c ch -> (rsize c < k)%nat).
  { intros c Hc. pose proof (rsize_child n ch c Hc). lia. }
  destruct (G ch Hsz Co Cw s l s1 I M4 KC Hgo) as (I1 & X1 & M1 & K1 & C1 & V1 & Ll).
  destruct (Nat.ltb _ _); [discriminate|].
  assert (Lo : List.length l = List.length (app_occ n)) by lia.
  assert (Ao : app_occ (set_apps n l) = l) by (apply app_occ_set_apps; exact Lo).
  apply (kids_cov_eg_add_vb (set_apps n l) s1 a s' I1 M1 K1); [rewrite Ao; exact C1| |exact H].
  intros x Hx. unfold all_occ, set_apps in Hx. cbn [nargs] in Hx.
  apply set_apps_args_all in Hx. destruct Hx as [Hx|(z & Hz & Hx)].
  - left. destruct (U x Hx) as [T|T]; lia.
  - exact (proj1 (Forall_forall _ _) V1 z Hz x Hx).
Qed.

(* premises on the user terms as in SoundAddExpr.v: rt_ok (user slot names have residue 0 or 2) and
   rt_wf (one child per applied-id position) *)
Theorem kids_cov_add_expr : forall t s a s', inv3 s -> mod4_ok s -> kids_cov s -> rt_ok t -> rt_wf t ->
  add_expr t s = Ok (a, s') -> kids_cov s'.
Proof.
  intros t s a s' I M4 K OK WF H.
  exact (proj1 (kids_cov_add_expr_k (S (rsize t)) t s a s' (Nat.lt_succ_diag_r _) I M4 K OK WF H)).
Qed.

Section Run.
  Theorem kids_cov_eg_union : forall l r s b s', inv3 s -> mod4_ok s -> covers s l -> covers s r -> kids_cov s ->
    eg_union l r s = Ok (b, s') -> kids_cov s'.
  Proof.
    intros l r s b s' Hs M4 Cl Cr K H. unfold eg_union in H.
    apply mbind_inv in H. destruct H as (l1 & s1 & H1 & H).
    destruct (semn_step3 _ _ (s_synify_app_id _ _ _ _ H1) (n_synify_app_id _ _ _ _ H1) Hs) as [Hs1 E1].
    pose proof (kids_cov_step s s1 E1 (nsame_ks _ _ (n_synify_app_id _ _ _ _ H1)) K) as K1.
    pose proof (p4_synify_app_id _ _ _ _ H1 M4) as M1.
    apply mbind_inv in H. destruct H as (r1 & s2 & H2 & H).
    destruct (semn_step3 _ _ (s_synify_app_id _ _ _ _ H2) (n_synify_app_id _ _ _ _ H2) Hs1) as [Hs2 E2].
    pose proof (kids_cov_step s1 s2 E2 (nsame_ks _ _ (n_synify_app_id _ _ _ _ H2)) K1) as K2.
    pose proof (p4_synify_app_id _ _ _ _ H2 M1) as M2.
    pose proof (ext_trans _ _ _ E1 E2) as E02.
    apply mbind_inv in H. destruct H as (out & s3 & H3 & H).
    pose proof (covers_ext _ _ _ E02 Cl) as Cl2. pose proof (covers_ext _ _ _ E02 Cr) as Cr2.
    destruct (inv3_uint _ _ _ _ _ Hs2 Cl2 Cr2 H3) as [Hs3 E3].
    pose proof (kids_cov_uint _ _ _ _ _ Hs2 Cl2 Cr2 K2 H3) as K3.
    pose proof (p4_uint _ _ _ _ _ H3 M2) as M3.
    apply mbind_inv in H. destruct H as (u & s4 & H4 & H). inversion H; subst b s4; clear H.
    exact (kids_cov_rebuild _ _ _ _ Hs3 M3 K3 H4).
  Qed.

  Lemma kids_cov_run_ops : forall terms, Forall rt_ok terms -> Forall rt_wf terms ->
    forall ops hs s hs' s', inv3 s -> mod4_ok s -> Forall (covers s) hs -> kids_cov s ->
    run_ops terms ops hs s = Ok (hs', s') -> kids_cov s'.
  Proof.
    intros terms TO TW. induction ops as [|o t IH]; intros hs s hs' s' I M4 C K H; cbn [run_ops] in H.
    - inversion H; subst. exact K.
    - destruct o as [k|i j just].
      + destruct (nth_opt terms k) as [tm|] eqn:Ek; [|discriminate].
        apply mbind_inv in H. destruct H as (a & s1 & H1 & H).
        destruct (add_expr_covers _ _ _ _ I H1) as (I1 & X1 & Ca).
        apply (IH _ _ _ _ I1 (p4_add_expr _ _ _ _ H1 M4)) in H; [exact H| |refine (kids_cov_add_expr _ _ _ _ I M4 K _ _ H1); [apply (proj1 (Forall_forall _ _) TO)|apply (proj1 (Forall_forall _ _) TW)]; eapply nth_opt_In; eauto].
        apply Forall_app. split; [|constructor; [exact Ca|constructor]].
        revert C. apply Forall_impl. intros x. apply covers_ext0. exact X1.
      + destruct (nth_opt hs i) as [a|] eqn:Ei; [|discriminate]. destruct (nth_opt hs j) as [b|] eqn:Ej; [|discriminate].
        apply mbind_inv in H. destruct H as (u & s1 & H1 & H).
        pose proof (proj1 (Forall_forall _ _) C a (nth_opt_In _ _ _ _ Ei)) as Ca.
        pose proof (proj1 (Forall_forall _ _) C b (nth_opt_In _ _ _ _ Ej)) as Cb.
        destruct (eg_union_inv3 _ _ _ _ _ I Ca Cb H1) as [I1 E1].
        apply (IH _ _ _ _ I1 (p4_eg_union _ _ _ _ _ H1 M4)) in H; [exact H| |exact (kids_cov_eg_union _ _ _ _ _ I M4 Ca Cb K H1)].
        revert C. apply Forall_impl. intros x. apply covers_ext. exact E1.
  Qed.

  Theorem reachable_kids_cov : forall terms ops hs s, Forall rt_ok terms -> Forall rt_wf terms ->
    run_ops terms ops [] empty_egraph = Ok (hs, s) -> kids_cov s.
  Proof.
    intros terms ops hs s TO TW H.
    exact (kids_cov_run_ops terms TO TW ops [] empty_egraph hs s inv3_empty mod4_ok_empty (Forall_nil _) kids_cov_empty H).
  Qed.
End Run.

(* ====================================================================== *)
(* 7. summary: see the final report.                                       *)
(* ====================================================================== *)
Print Assumptions kids_covb_sound.
Print Assumptions kids_cov_empty.
Print Assumptions kids_cov_apply.
Print Assumptions kids_cov_step.
Print Assumptions ks_uint.
Print Assumptions kids_cov_uint.
Print Assumptions cov_hp_loop.
Print Assumptions kids_cov_handle_pending.
Print Assumptions kids_cov_rebuild.
Print Assumptions kids_cov_eg_union.
Print Assumptions wshape_covers.
Print Assumptions kids_cov_add_internal_vb.
Print Assumptions kids_cov_eg_add_vb.
Print Assumptions kids_cov_add_expr.
Print Assumptions reachable_kids_cov.
Check kids_cov_add_internal_vb.
Check kids_cov_eg_add_vb.
Check kids_cov_add_expr.
Check kids_cov_handle_pending.
Check kids_cov_rebuild.
Check kids_cov_eg_union.
Check reachable_kids_cov.

(* the checker kids_covb, at the entry of every handle_pending call (inside the rebuild of unions AND
   of insertions), after every uint, and after every operation of the six histories *)
Example x_kids_checked : x_kids = [true; true; true; true; true; true].
Proof. vm_compute. reflexivity. Qed.
Print Assumptions x_kids_checked.
