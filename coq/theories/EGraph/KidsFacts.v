(* EGraph/KidsFacts.v — `kids_ok` (MatchDefs.v: every stored shape has only slot names 0 mod 4 and every child
   invocation of a stored shape covers its class with a sorted map) is an invariant of the e-graph model.

   Method.  `shapes_in P s`: every stored shape of s satisfies P.  `ssub s s'` := forall P, shapes_in P s ->
   shapes_in P s' (the stored shapes of s' are stored shapes of s).  Frame rule `kids_ok_frame`: ssub s s' /\ ext s s'
   (ext0 for `kids_ok_frame0`) keeps kids_ok; `kids_ok_frame_add` for steps that add entries.  `ssub` is proved
   UNCONDITIONALLY for the whole union side and for the rebuild-side operations that add no shape; `ext` / `inv3`
   come from AddCoversFacts.v / UnionInvariantFacts.v (used as black boxes), `m4` from Mod4Facts.v.
   Combined invariant `kinv s := inv3 s /\ m4 s /\ kids_ok s`.

   PROVED (closed under the global context):
   1. kids_ok_empty.
   2. kid_ok_ext(0), kentry_ok_ext(0), kids_ok_frame, kids_ok_frame0, kids_ok_frame_add, ssub_raw_remove, shapes_raw_add.
   3. ssub_move_to, ssub_shrink_slots, ssub_union_leaders, ssub_union_internal, ssub_uint (no premise);
      kids_ok_move_to, kids_ok_shrink_slots, kids_ok_union_leaders, kids_ok_union_internal, kids_ok_uint
      (premises inv3 s, kids_ok s and the premises of the corresponding inv3_* theorem).
   4. kids_apply (children of sh[bij0] for a stored entry: kentry_ok + bij0 injective + values of bij0 1 mod 4),
      wshape_KR / wshape_kentry (children of a weak shape of a node with kid_ok children), variants_kids,
      pre_shape_kids, shape_kentry (only `covers` of the children of the node is needed: find/variants produce
      sorted maps), find_enode_covers; ssub_handle_shrink, ssub_handle_congruence, ssub_determine_self_symmetries,
      ssub_hp_loop; kids_ok_handle_shrink, kids_ok_handle_congruence, kids_ok_determine_self_symmetries, kids_hp_loop,
      kids_ok_handle_pending (premises inv3 s, m4 s, kids_ok s), kinv_handle_pending, kinv_rebuild, kids_ok_rebuild,
      kinv_eg_union, kids_ok_eg_union.
   5. kinv_mk_singleton (premises: binders of the node below the counter, children of the node kid_ok);
      syn_kids (the children of the node produced by refresh_private ; apply_slotmap ; synify_enode inside
      add_internal are kid_ok, and all its slots are below the counter or not 1 mod 4), mk_singleton_vals,
      kinv_add_internal, kinv_eg_add: UNCONDITIONAL, with the explicit premise `slots_pre s n` (every slot of the
      node is below the counter or not 1 mod 4) and covering children; output: covers + `vpre_in` (every value of
      the returned map is below the new counter or not 1 mod 4), which is what chains insertions.
   6. applier phase: inv_ok s a := covers s a /\ vpre_in (ectr s) (am a) (ADAPTED: "below the counter OR not 1 mod 4"
      instead of "below the counter"; implied by MatchFacts.sub_ok), sub_ok2; kinv_pattern_subst,
      kinv_union_instantiations, kinv_apply_substs_cond, kinv_appliers, each with the per-pattern premise
      `pok p := SES_holds \/ nosubst p = true`; appliers_keep_kids_nosubst (closed; rules without PSubst),
      appliers_keep_kids_cond : SES_holds -> MatchFacts.appliers_keep_kids.
   7. SES_proved : SES_holds (the PSubst case: synify_app_vpre_in, get_syn_pre [every node of the term returned by
      get_syn_expr satisfies `rt_pre (ectr s)`, from syn_below and vpre_in of the invocation], kinv_do_term_subst),
      hence appliers_keep_kids_proved : MatchFacts.appliers_keep_kids, kinv_pattern_subst_all, kinv_appliers_all.
   8. kinv_add_expr (premises rt_wf t [SoundAddExpr.v: one child per applied-id position] and rt_pre (ectr s) t [every
      slot of every node is below the counter or not 1 mod 4]), kinv_run_ops, kinv_empty, reachable_kinv,
      reachable_kids_ok.  (rt_wf is needed: add_expr accepts fewer children than positions, the left-over
      user-supplied child invocations would have to be assumed covering; xT7 of Mod4Facts.v has such a term.)
   No Section hypothesis remains; nothing is assumed. *)
From SE Require Import Slots.SlotMapFacts Group.GroupSound Lang.LangFacts Lang.ShapeFacts Lang.RenameFacts
  Base.TextFacts EGraph.Model EGraph.ModelFacts EGraph.ModelMachine EGraph.UnionFindFacts EGraph.InvariantFacts
  EGraph.UnionInvariantFacts EGraph.AddCoversFacts EGraph.Mod4Facts EGraph.Rewrite EGraph.MatchDefs
  EGraph.HashconsShape EGraph.SoundAddNew EGraph.SoundAddExpr EGraph.SoundRebuild.
Require Import ZArith Lia ZifyBool ZifyN ZifyNat.
Ltac Zify.zify_post_hook ::= Z.div_mod_to_equations.

Local Notation "a ** b" := (compose_partial a b) (at level 40, left associativity).
Local Notation inv := inverse_nocheck.
Local Notation ectr := Model.ctr.

Local Ltac neq := repeat match goal with
  | H : (_ =? _) = true |- _ => apply N.eqb_eq in H
  | H : (_ =? _) = false |- _ => apply N.eqb_neq in H
  end.

(* ------------------------------------------------------------------ *)
(* 1. the empty e-graph *)

Theorem kids_ok_empty : kids_ok empty_egraph.
Proof. intros i c e H. unfold get_class in H. cbn in H. destruct (N.to_nat i); discriminate. Qed.

(* ------------------------------------------------------------------ *)
(* 2. frame facts *)

Lemma kid_ok_ext0 : forall s s' a, ext0 s s' -> kid_ok s a -> kid_ok s' a.
Proof. intros s s' a E [C W]. split; [eapply covers_ext0; eauto|exact W]. Qed.
Lemma kid_ok_ext : forall s s' a, ext s s' -> kid_ok s a -> kid_ok s' a.
Proof. intros s s' a E. apply kid_ok_ext0. apply ext_ext0. exact E. Qed.

Lemma kentry_ok_ext0 : forall s s' sh, ext0 s s' -> kentry_ok s sh -> kentry_ok s' sh.
Proof. intros s s' sh E [M F]. split; [exact M|]. revert F. apply Forall_impl. intros a. apply kid_ok_ext0. exact E. Qed.
Lemma kentry_ok_ext : forall s s' sh, ext s s' -> kentry_ok s sh -> kentry_ok s' sh.
Proof. intros s s' sh E. apply kentry_ok_ext0. apply ext_ext0. exact E. Qed.

(* every stored shape satisfies P *)
Definition shapes_in (P : node -> Prop) (s : egraph) : Prop :=
  forall i c e, get_class s i = Ok c -> In e (c_nodes c) -> P (fst e).

(* the stored shapes of s' are stored shapes of s *)
Definition ssub (s s' : egraph) : Prop := forall P, shapes_in P s -> shapes_in P s'.

Lemma ssub_refl : forall s, ssub s s.
Proof. intros s P H. exact H. Qed.
Lemma ssub_trans : forall a b c, ssub a b -> ssub b c -> ssub a c.
Proof. intros a b c H1 H2 P H. apply H2, H1, H. Qed.

Lemma kids_ok_shapes : forall s, kids_ok s <-> shapes_in (kentry_ok s) s.
Proof. intros s. split; intros H; exact H. Qed.

Lemma shapes_in_impl : forall (P Q : node -> Prop) s, (forall sh, P sh -> Q sh) -> shapes_in P s -> shapes_in Q s.
Proof. intros P Q s H K i c e Hc He. apply H. eapply K; eauto. Qed.

(* the frame rule: no new stored shape, classes persist with smaller slot sets *)
Theorem kids_ok_frame0 : forall s s', ssub s s' -> ext0 s s' -> kids_ok s -> kids_ok s'.
Proof.
  intros s s' S E K. apply kids_ok_shapes. apply (shapes_in_impl (kentry_ok s)); [intros sh; apply kentry_ok_ext0; exact E|].
  apply S. exact K.
Qed.
Theorem kids_ok_frame : forall s s', ssub s s' -> ext s s' -> kids_ok s -> kids_ok s'.
Proof. intros s s' S E. apply kids_ok_frame0; [exact S|apply ext_ext0; exact E]. Qed.

(* a step that adds entries: all new shapes are good in the final state *)
Theorem kids_ok_frame_add : forall s s', ext0 s s' -> kids_ok s ->
  (forall P, shapes_in P s -> (forall sh, kentry_ok s' sh -> P sh) -> shapes_in P s') -> kids_ok s'.
Proof.
  intros s s' E K H. apply kids_ok_shapes. apply (H (kentry_ok s')); [|auto].
  apply (shapes_in_impl (kentry_ok s)); [intros sh; apply kentry_ok_ext0; exact E|exact K].
Qed.

Lemma nsame_ssub : forall s s', nsame s s' -> ssub s s'.
Proof.
  intros s s' H P K i c' e Hc' He. destruct (H _ _ Hc') as (c & Hc & En & _). rewrite En in He. eapply K; eauto.
Qed.

Local Notation sspres := (pres ssub).
Lemma ss_bind : forall A C (m : M A) (k : A -> M C), sspres m -> (forall a, sspres (k a)) -> sspres (mbind m k).
Proof. apply (pres_bind ssub ssub_trans). Qed.
Lemma ss_ret : forall A (a : A), sspres (ret a).
Proof. apply (pres_ret ssub ssub_refl). Qed.
Lemma ss_reads : forall A (f : egraph -> res A), sspres (reads f).
Proof. apply (pres_reads ssub ssub_refl). Qed.
Lemma ss_lift : forall A (r : res A), sspres (Model.lift r).
Proof. apply (pres_lift ssub ssub_refl). Qed.
Lemma ss_fail : forall A e, sspres (@fail A e).
Proof. apply (pres_fail ssub). Qed.
Lemma ss_gets : forall A (f : egraph -> A), sspres (gets f).
Proof. apply (pres_gets ssub ssub_refl). Qed.
Lemma ss_iterM : forall A (f : A -> M unit) l, (forall x, sspres (f x)) -> sspres (iterM f l).
Proof. apply (pres_iterM ssub ssub_refl ssub_trans). Qed.
Lemma ss_nsame : forall A (m : M A), pres nsame m -> sspres m.
Proof. intros A m H s x s' E. apply nsame_ssub. eapply H; eauto. Qed.

(* removing one entry *)
Lemma ssub_raw_remove : forall id sh, sspres (raw_remove_from_class id sh).
Proof.
  intros id sh s p s' H P K. unfold raw_remove_from_class in H.
  apply bind_reads_inv in H. destruct H as (c & Hc & H).
  apply mbind_inv in H. destruct H as (u1 & s1 & H1 & H). apply upd_class_inv in H1. destruct H1 as (c1 & Hc1 & ->).
  rewrite Hc in Hc1. inversion Hc1; subst c1; clear Hc1.
  apply mbind_inv in H. destruct H as (u2 & s2 & H2 & H). inversion H2; subst u2 s2; clear H2.
  apply mbind_inv in H. destruct H as (u3 & s3 & H3 & H).
  assert (s' = s3) by (destruct (na_get (c_nodes c) sh); inversion H; reflexivity). subst s3.
  apply usages_nsame in H3. apply (nsame_ssub _ _ H3). clear H3 H.
  pose proof (get_class_lt _ _ _ Hc) as L. intros j cj e Hj Hin.
  assert (Hj' : get_class (set_classes s (set_nth (classes s) (N.to_nat id) (with_nodes c (na_remove (c_nodes c) sh)))) j = Ok cj) by exact Hj.
  rewrite (get_class_upd s id _ j L) in Hj'. destruct (j =? id) eqn:E; neq.
  - inversion Hj'; subst cj. cbn [c_nodes with_nodes] in *. apply na_remove_in in Hin. eapply K; eauto.
  - eapply K; eauto.
Qed.

(* adding one entry *)
Lemma shapes_raw_add : forall (P : node -> Prop) id sh bij src s x s', shapes_in P s -> P sh ->
  raw_add_to_class id (sh, bij) src s = Ok (x, s') -> shapes_in P s'.
Proof.
  intros P id sh bij src s x s' K Hp H. unfold raw_add_to_class in H.
  apply mbind_inv in H. destruct H as (u1 & s1 & H1 & H). apply upd_class_inv in H1. destruct H1 as (c & Hc & ->).
  apply mbind_inv in H. destruct H as (u2 & s2 & H2 & H). inversion H2; subst u2 s2; clear H2.
  apply usages_nsame in H. apply (nsame_ssub _ _ H). clear H.
  pose proof (get_class_lt _ _ _ Hc) as L. intros j cj e Hj Hin.
  assert (Hj' : get_class (set_classes s (set_nth (classes s) (N.to_nat id) (with_nodes c (na_set (c_nodes c) sh (bij, src))))) j = Ok cj) by exact Hj.
  rewrite (get_class_upd s id _ j L) in Hj'. destruct (j =? id) eqn:E; neq.
  - inversion Hj'; subst cj. cbn [c_nodes with_nodes] in *. apply na_set_in in Hin.
    destruct Hin as [->|Hin]; [exact Hp|]. eapply K; eauto.
  - eapply K; eauto.
Qed.

(* ------------------------------------------------------------------ *)
(* 3. the union side: no new shapes (unconditionally) *)

Lemma ssub_touched : forall i ty, sspres (touched_class i ty).
Proof. intros. apply ss_nsame. apply n_touched_class. Qed.
Lemma ssub_upd_same : forall i f, (forall c, c_nodes (f c) = c_nodes c /\ c_slots (f c) = c_slots c) -> sspres (upd_class i f).
Proof. intros. apply ss_nsame. apply n_upd_class. assumption. Qed.
Lemma ssub_upd_nodes : forall i f, (forall c, c_nodes (f c) = c_nodes c) -> sspres (upd_class i f).
Proof.
  intros i f Hf s x s' H P K. apply upd_class_inv in H. destruct H as (c & Hc & ->).
  pose proof (get_class_lt _ _ _ Hc) as L. intros j cj e Hj Hin.
  rewrite (get_class_upd s i (f c) j L) in Hj. destruct (j =? i) eqn:E; neq.
  - subst j. inversion Hj; subst cj. rewrite Hf in Hin. eapply K; eauto.
  - eapply K; eauto.
Qed.

Lemma shapes_move_loop : forall (P : node -> Prop) idf idt mi l, (forall e, In e l -> P (fst e)) ->
  forall s x s', shapes_in P s ->
  iterM (fun e => let '(sh, (bij, src_id)) := e in
                  dom _ <- raw_remove_from_class idf sh;
                  dom new_bij <- with_ctr (compose_fresh bij mi);
                  dom _ <- raw_add_to_class idt (sh, new_bij) src_id;
                  pending_insert sh true) l s = Ok (x, s') -> shapes_in P s'.
Proof.
  intros P idf idt mi. induction l as [|[sh [bij src]] t IH]; intros Hl s x s' K1 H2; cbn [iterM] in H2.
  - inversion H2; subst. exact K1.
  - apply mbind_inv in H2. destruct H2 as (u & s4 & Hb & H2).
    apply mbind_inv in Hb. destruct Hb as (p & sa & Hr & Hb).
    apply mbind_inv in Hb. destruct Hb as (nb & sb & Hcf & Hb).
    apply mbind_inv in Hb. destruct Hb as (u3 & sc & Ha & Hp).
    pose proof (ssub_raw_remove _ _ _ _ _ Hr P K1) as Ka.
    pose proof (nsame_ssub _ _ (n_with_ctr _ _ _ _ _ Hcf) P Ka) as Kb.
    pose proof (shapes_raw_add P _ _ _ _ _ _ _ Kb (Hl _ (or_introl eq_refl)) Ha) as Kc.
    pose proof (nsame_ssub _ _ (n_pending_insert _ _ _ _ _ Hp) P Kc) as K4.
    eapply IH; [|exact K4|exact H2]. intros e He. apply Hl. right. exact He.
Qed.

Theorem ssub_move_to : forall from to, sspres (move_to from to).
Proof.
  intros from to s x s' H P K. unfold move_to in H. cbv zeta in H.
  apply mbind_inv in H. destruct H as (u1 & s1 & H1 & H).
  pose proof (nsame_ssub _ _ (n_unionfind_set _ _ _ _ _ H1) P K) as K1.
  apply bind_reads_inv in H. destruct H as (cf & Hcf & H).
  apply mbind_inv in H. destruct H as (u2 & s2 & H2 & H).
  assert (K2 : shapes_in P s2).
  { eapply shapes_move_loop; [|exact K1|exact H2]. intros e He. eapply K1; eauto. }
  apply bind_reads_inv in H. destruct H as (cf2 & _ & H).
  apply bind_reads_inv in H. destruct H as (ct2 & _ & H).
  apply mbind_inv in H. destruct H as (r & s0 & Hr & H). apply lift_inv in Hr. destruct Hr as [_ ->].
  apply mbind_inv in H. destruct H as (u3 & s3 & H3 & H).
  assert (K3 : shapes_in P s3).
  { eapply (ssub_upd_nodes (aid to) (fun c => with_group c (fst r))); [intros c0; reflexivity|exact H3|exact K2]. }
  assert (S3 : ssub s3 s'); [|apply S3; exact K3].
  revert H. apply ss_bind; [destruct (snd r); [apply ssub_touched|apply ss_ret]|].
  intros _. apply ssub_touched.
Qed.

Local Ltac sstep :=
  cbv beta zeta;
  match goal with
  | |- pres ssub (mbind _ _) => apply ss_bind; [| intros ?]
  | |- pres ssub (ret _) => apply ss_ret
  | |- pres ssub (fail _) => apply ss_fail
  | |- pres ssub (Model.lift _) => apply ss_lift
  | |- pres ssub (reads _) => apply ss_reads
  | |- pres ssub (gets _) => apply ss_gets
  | |- pres ssub (iterM _ _) => apply ss_iterM; intros ?
  | |- pres ssub (touched_class _ _) => apply ssub_touched
  | |- pres ssub (upd_class _ _) => apply ssub_upd_nodes; intros ?; reflexivity
  | |- pres ssub (pending_insert _ _) => apply ss_nsame; apply n_pending_insert
  | |- pres ssub (pc_congruence _ _) => apply ss_nsame; apply n_pc_congruence
  | |- pres ssub (unionfind_set _ _) => apply ss_nsame; apply n_unionfind_set
  | |- pres ssub (move_to _ _) => apply ssub_move_to
  | |- pres ssub (match ?x with _ => _ end) => destruct x
  | |- pres ssub _ => solve [auto]
  end.
Local Ltac ssolve := repeat sstep.

Lemma ssub_rrw : forall i cap, sspres (record_redundancy_witness i cap).
Proof. intros i cap. unfold record_redundancy_witness. ssolve. Qed.

Section UiS.
  Variable ui : appid -> appid -> M bool.
  Hypothesis H_ui : forall l r, sspres (ui l r).

  Lemma ssub_shrink_slots : forall from cap, sspres (shrink_slots ui from cap).
  Proof. intros from cap. unfold shrink_slots. pose proof ssub_rrw. ssolve. Qed.
  Lemma ssub_union_leaders : forall l r, sspres (union_leaders ui l r).
  Proof. intros l r. unfold union_leaders. pose proof ssub_shrink_slots. ssolve. Qed.
  Lemma ssub_union_internal_body : forall l r, sspres (union_internal_body ui l r).
  Proof. intros l r. unfold union_internal_body. pose proof ssub_union_leaders. ssolve. Qed.
End UiS.

Theorem ssub_union_internal : forall fuel l r, sspres (union_internal fuel l r).
Proof.
  induction fuel as [|f IH]; intros l r; [apply ss_fail|]. rewrite union_internal_S.
  apply ssub_union_internal_body. exact IH.
Qed.
Theorem ssub_uint : forall l r, sspres (uint l r).
Proof. intros l r. exact (ssub_union_internal ui_fuel l r). Qed.

(* kids_ok through the union side *)
Theorem kids_ok_move_to : forall from to s x s', inv3 s -> kids_ok s -> lcanon s from -> lcanon s to ->
  aid to <> aid from -> values (am from) = values (am to) ->
  move_to from to s = Ok (x, s') -> kids_ok s'.
Proof.
  intros from to s x s' I3 K Lf Lt Hn V H. destruct (inv3_move_to _ _ _ _ _ I3 Lf Lt Hn V H) as [_ E].
  eapply kids_ok_frame; [eapply ssub_move_to; exact H|exact E|exact K].
Qed.

Theorem kids_ok_shrink_slots : forall fu from cap s x s', inv3 s -> kids_ok s -> lcanon s from ->
  shrink_slots (union_internal fu) from cap s = Ok (x, s') -> kids_ok s'.
Proof.
  intros fu from cap s x s' I3 K L H. destruct (inv3_shrink_slots fu (inv3_union_internal fu) _ _ _ _ _ I3 L H) as [_ E].
  eapply kids_ok_frame; [eapply (ssub_shrink_slots _ (ssub_union_internal fu)); exact H|exact E|exact K].
Qed.

Theorem kids_ok_union_leaders : forall fu l r s b s', inv3 s -> kids_ok s -> lcanon s l -> lcanon s r ->
  union_leaders (union_internal fu) l r s = Ok (b, s') -> kids_ok s'.
Proof.
  intros fu l r s b s' I3 K Ll Lr H. destruct (inv3_union_leaders fu (inv3_union_internal fu) _ _ _ _ _ I3 Ll Lr H) as [_ E].
  eapply kids_ok_frame; [eapply (ssub_union_leaders _ (ssub_union_internal fu)); exact H|exact E|exact K].
Qed.

Theorem kids_ok_union_internal : forall fuel l r s b s', inv3 s -> kids_ok s -> covers s l -> covers s r ->
  union_internal fuel l r s = Ok (b, s') -> kids_ok s'.
Proof.
  intros fuel l r s b s' I3 K Cl Cr H. destruct (inv3_union_internal fuel _ _ _ _ _ I3 Cl Cr H) as [_ E].
  eapply kids_ok_frame; [eapply ssub_union_internal; exact H|exact E|exact K].
Qed.

Theorem kids_ok_uint : forall l r s b s', inv3 s -> kids_ok s -> covers s l -> covers s r ->
  uint l r s = Ok (b, s') -> kids_ok s'.
Proof. intros l r. exact (kids_ok_union_internal ui_fuel l r). Qed.

(* ------------------------------------------------------------------ *)
(* 4. the rebuild side: the operations that add no shape *)

Lemma ssub_handle_shrink : forall src, sspres (handle_shrink_in_upwards_merge src).
Proof.
  intros src. unfold handle_shrink_in_upwards_merge. pose proof (ssub_shrink_slots uint ssub_uint). ssolve.
Qed.
Lemma ssub_handle_congruence : forall pc, sspres (handle_congruence pc).
Proof. intros pc. unfold handle_congruence. pose proof ssub_uint. ssolve. Qed.
Lemma ssub_determine_self_symmetries : forall src, sspres (determine_self_symmetries src).
Proof. intros src. unfold determine_self_symmetries. pose proof ssub_uint. ssolve. Qed.
Lemma ssub_hp_loop : forall fuel src enode i, sspres (hp_loop fuel src enode i).
Proof.
  induction fuel as [|f IH]; intros src enode i; cbn [hp_loop]; [apply ss_fail|].
  pose proof ssub_handle_shrink. ssolve.
Qed.

Theorem kids_ok_handle_shrink : forall src s x s', inv3 s -> kids_ok s ->
  handle_shrink_in_upwards_merge src s = Ok (x, s') -> kids_ok s'.
Proof.
  intros src s x s' I3 K H. destruct (inv3_handle_shrink _ _ _ _ H I3) as [_ E].
  eapply kids_ok_frame; [eapply ssub_handle_shrink; exact H|exact E|exact K].
Qed.
Theorem kids_ok_handle_congruence : forall src s pc1 x s', inv3 s -> kids_ok s -> pc_from_src_id s src = Ok pc1 ->
  handle_congruence pc1 s = Ok (x, s') -> kids_ok s'.
Proof.
  intros src s pc1 x s' I3 K P H. destruct (inv3_handle_congruence _ _ _ _ _ I3 P H) as [_ E].
  eapply kids_ok_frame; [eapply ssub_handle_congruence; exact H|exact E|exact K].
Qed.
Theorem kids_ok_determine_self_symmetries : forall src s x s', inv3 s -> kids_ok s ->
  determine_self_symmetries src s = Ok (x, s') -> kids_ok s'.
Proof.
  intros src s x s' I3 K H. destruct (inv3_determine_self_symmetries _ _ _ _ H I3) as [_ E].
  eapply kids_ok_frame; [eapply ssub_determine_self_symmetries; exact H|exact E|exact K].
Qed.

(* ------------------------------------------------------------------ *)
(* 5. renaming the values of a child map injectively keeps kid_ok *)

Lemma map_vals_wf : forall h m, wf m -> wf (map_vals h m).
Proof.
  intros h. induction m as [|[k v] t IH]; intros W; [exact I|]. cbn [map_vals map fst snd wf] in *.
  destruct W as [L W]. split; [|apply IH; exact W]. destruct t as [|[k' v'] t']; [exact I|exact L].
Qed.

Lemma map_vals_injective : forall h m, inj_on h (values_vec m) -> injective m -> injective (map_vals h m).
Proof.
  intros h m Hh Im k1 k2 v. rewrite !get_map_vals.
  destruct (get m k1) as [v1|] eqn:G1; [|discriminate]. destruct (get m k2) as [v2|] eqn:G2; [|discriminate].
  cbn [option_map]. intros E1 E2. inversion E1 as [E1']. inversion E2 as [E2'].
  assert (v1 = v2).
  { apply Hh; [| |congruence]; unfold values_vec; apply in_map_iff.
    - exists (k1, v1). split; [reflexivity|apply get_in; exact G1].
    - exists (k2, v2). split; [reflexivity|apply get_in; exact G2]. }
  subst v2. eapply Im; eauto.
Qed.

(* x' is x with its values renamed injectively *)
Definition KR (x x' : appid) : Prop :=
  aid x' = aid x /\ exists h, inj_on h (values_vec (am x)) /\ am x' = map_vals h (am x).

Lemma KR_kid : forall s x x', KR x x' -> kid_ok s x -> kid_ok s x'.
Proof.
  intros s x x' (Ea & h & Hh & Em) [(c & Hc & Ix & Sx) W]. split.
  - exists c. rewrite Ea, Em. split; [exact Hc|]. split; [apply map_vals_injective; assumption|].
    intros k Hk. rewrite get_map_vals. specialize (Sx k Hk). destruct (get (am x) k); [discriminate|congruence].
  - rewrite Em. apply map_vals_wf. exact W.
Qed.

Lemma KR_Forall : forall s l l', Forall2 KR l l' -> Forall (kid_ok s) l -> Forall (kid_ok s) l'.
Proof.
  intros s l l' F. induction F as [|x x' l l' Hx _ IH]; intros H; [constructor|].
  inversion H; subst. constructor; [eapply KR_kid; eauto|apply IH; assumption].
Qed.

(* (i) applying a stored bijection to its shape *)
Lemma in_zip_with : forall {A C D} (f : A -> C -> D) l1 l2 z, In z (zip_with f l1 l2) ->
  exists a c, In c l2 /\ z = f a c.
Proof.
  intros A C D f. induction l1 as [|a t IH]; intros [|c l2] z H; cbn [zip_with] in H; try (destruct H; fail).
  destruct H as [<-|H]; [exists a, c; split; [left; reflexivity|reflexivity]|].
  destruct (IH _ _ H) as (a' & c' & Hc & E). exists a', c'. split; [right; exact Hc|exact E].
Qed.

Theorem kids_apply : forall s sh bij nd, kentry_ok s sh -> injective bij ->
  (forall k v, get bij k = Some v -> v mod 4 = 1) ->
  apply_slotmap false bij sh = Ok nd -> Forall (kid_ok s) (app_occ nd).
Proof.
  intros s sh bij nd [M F] Ib B4 H. apply apply_slotmap_ren in H. subst nd.
  apply Forall_forall. intros x' Hx'. rewrite app_occ_ren in Hx'.
  destruct (in_zip_with _ _ _ _ Hx') as (bd & x & Hx & ->).
  apply (KR_kid s x); [|exact (proj1 (Forall_forall _ _) F x Hx)].
  split; [reflexivity|]. exists (fun v => asm_g bij (negb (existsb (N.eqb v) bd)) v). split; [|reflexivity].
  intros v1 v2 H1 H2. pose proof (M _ (vals_all_occ _ _ _ Hx H1)) as M1. pose proof (M _ (vals_all_occ _ _ _ Hx H2)) as M2.
  unfold asm_g. destruct (negb (existsb (N.eqb v1) bd)); destruct (negb (existsb (N.eqb v2) bd)).
  - destruct (get bij v1) as [y1|] eqn:G1; destruct (get bij v2) as [y2|] eqn:G2.
    + intros ->. eapply Ib; eauto.
    + intros ->. apply B4 in G1. lia.
    + intros <-. apply B4 in G2. lia.
    + auto.
  - destruct (get bij v1) as [y1|] eqn:G1; [|auto]. intros ->. apply B4 in G1. lia.
  - destruct (get bij v2) as [y2|] eqn:G2; [|auto]. intros <-. apply B4 in G2. lia.
  - auto.
Qed.

(* (iv) the children of a weak shape *)
Lemma nodup_snd_inj : forall (env : benv) s t i, NoDup (map snd env) -> In (s, i) env -> In (t, i) env -> s = t.
Proof.
  induction env as [|[x j] e IH]; intros s t i Hnd Hs Ht; [destruct Hs|].
  cbn [map snd] in Hnd. inversion Hnd as [|? ? Hni Hnd']; subst. destruct Hs as [Es|Hs]; destruct Ht as [Et|Ht].
  - congruence.
  - inversion Es; subst. exfalso. apply Hni. change i with (snd (t, i)). apply in_map. exact Ht.
  - inversion Et; subst. exfalso. apply Hni. change i with (snd (s, i)). apply in_map. exact Hs.
  - eapply IH; eauto.
Qed.

Lemma key_inj : forall env s t, NoDup (map snd env) -> key env s = key env t -> s = t.
Proof.
  intros env s t Hnd H. unfold key in H.
  destruct (blookup env s) as [i|] eqn:Es; destruct (blookup env t) as [j|] eqn:Et; try discriminate.
  - inversion H; subst j. apply blookup_in in Es, Et. eapply nodup_snd_inj; eauto.
  - congruence.
Qed.

Lemma kid_vals_ren : forall (h : slot -> N) (vm vm' : slotmap) r r',
  map (fun p : slot * slot => (fst p, 0)) vm' = map (fun p : slot * slot => (fst p, 0)) vm ->
  map snd vm' ++ r' = map h (map snd vm) ++ r ->
  vm' = map_vals h vm /\ r' = r.
Proof.
  intros h. induction vm as [|[k v] t IH]; intros [|[k' v'] t'] r r' H1 H2; cbn [map fst snd app map_vals] in *; try discriminate; [auto|].
  injection H1 as Hk Ht. injection H2 as Hv Hr. destruct (IH t' r r' Ht Hr) as [E1 E2].
  split; [|exact E2]. subst k' v'. f_equal. exact E1.
Qed.

Lemma kid_f_ren : forall g a a' env k r r', NoDup (map snd env) ->
  (forall i, In i (map snd env) -> (i < k)%nat) ->
  inj_on g (pat_f env k a) ->
  skel_f a' = skel_f a ->
  all_occ_f a' ++ r' = map g (pat_f env k a ++ r) ->
  Forall2 KR (app_occ_f a) (app_occ_f a') /\ r' = map g r.
Proof.
  intros g. induction a as [s|x|s b IH|p]; intros [s'|x'|s' b'|p'] env k r r' Hnd Hlt Hinj H1 H2;
    cbn [skel_f all_occ_f pat_f app_occ_f] in *; try discriminate.
  - cbn [app map] in H2. injection H2 as _ H2. split; [constructor|exact H2].
  - injection H1 as Hid Hm. rewrite map_app, map_map in H2. unfold values_vec in H2.
    destruct (kid_vals_ren (fun v => g (key env v)) (am x) (am x') (map g r) r' Hm) as [E1 E2].
    { exact H2. }
    split; [|exact E2]. constructor; [|constructor]. split; [exact Hid|].
    exists (fun v => g (key env v)). split; [|exact E1].
    intros v1 v2 Hv1 Hv2 E. apply (key_inj env _ _ Hnd). apply Hinj; [apply in_map; exact Hv1|apply in_map; exact Hv2|exact E].
  - injection H1 as H1. cbn [app map] in H2. injection H2 as _ H2.
    apply (IH b' ((s, k) :: env) (S k) r r'); try assumption.
    + cbn [map snd]. constructor; [|assumption]. intro Hi. apply Hlt in Hi. lia.
    + cbn [map snd]. intros i [<-|Hi]; [lia|]. apply Hlt in Hi. lia.
    + eapply inj_on_incl; [exact Hinj|]. intros o Ho. right. exact Ho.
  - cbn [app map] in H2. split; [constructor|exact H2].
Qed.

Lemma kid_args_ren : forall g l l' k, inj_on g (pat_args k l) ->
  map skel_f l' = map skel_f l ->
  flat_map all_occ_f l' = map g (pat_args k l) ->
  Forall2 KR (flat_map app_occ_f l) (flat_map app_occ_f l').
Proof.
  intros g. induction l as [|a t IH]; intros [|a' t'] k Hinj H1 H2; cbn [map flat_map pat_args] in *; try discriminate; [constructor|].
  injection H1 as Ha Ht.
  destruct (kid_f_ren g a a' [] k (pat_args (k + nbind_f a) t) (flat_map all_occ_f t')) as [E1 E2]; try assumption.
  - constructor.
  - intros i [].
  - eapply inj_on_incl; [exact Hinj|]. intros x Hx. apply in_app_iff. auto.
  - apply Forall2_app; [exact E1|]. apply (IH t' (k + nbind_f a)%nat); [|assumption|exact E2].
    eapply inj_on_incl; [exact Hinj|]. intros x Hx. apply in_app_iff. auto.
Qed.

Theorem wshape_KR : forall p sh bij, wshape p = Ok (sh, bij) -> Forall2 KR (app_occ p) (app_occ sh).
Proof.
  intros p sh bij H. destruct (ws_top _ _ _ H) as (mF & _ & _ & _ & Sk & Ho & _).
  set (G := gof (num_st [] (pattern p))) in *.
  assert (Hinj : inj_on G (pattern p)).
  { eapply inj_on_incl; [apply agrees_inj; apply gof_agrees|]. intros x Hx. apply num_st_in. auto. }
  unfold app_occ. apply (kid_args_ren G (nargs p) (nargs sh) 0); [exact Hinj| |].
  - unfold skel in Sk. injection Sk as _ Sk. exact Sk.
  - change (all_occ sh = map G (pattern p)). rewrite Ho. apply num_out_agrees. apply gof_agrees.
Qed.

Theorem wshape_kentry : forall s p sh bij, wshape p = Ok (sh, bij) -> Forall (kid_ok s) (app_occ p) -> kentry_ok s sh.
Proof.
  intros s p sh bij H F. split; [exact (shape_all_occ_mod4 _ _ _ H)|].
  exact (KR_Forall s _ _ (wshape_KR _ _ _ H) F).
Qed.

(* (ii)+(iii) the children of a pre-shape *)
Lemma variants_kids : forall s n vs, Forall (canon_ok s) (app_occ n) -> variants s n = Ok vs ->
  forall v, In v vs -> Forall (kid_ok s) (app_occ v).
Proof.
  intros s n vs Hf H v Hv. unfold variants in H.
  destruct (mapr (fun a => get_class s (aid a)) (app_occ n)) as [cls|] eqn:Ec; cbn [bind] in H; [|discriminate].
  destruct (forallb _ cls).
  - inversion H; subst vs. destruct Hv as [<-|[]]. revert Hf. apply Forall_impl. intros a Ca.
    split; [apply canon_covers; exact Ca|exact (proj1 (canon_wf_inj _ _ Ca))].
  - destruct (mapr _ cls) as [groups|] eqn:Eg; cbn [bind] in H; [|discriminate]. inversion H; subst vs; clear H.
    apply in_map_iff in Hv. destruct Hv as (l & <- & Hl).
    pose proof (mapr_mapr_F2 (canon_ok s) _ _ _ _ _ (proj1 (Forall_forall _ _) Hf) Ec Eg) as F2.
    assert (Z : Forall2 (fun _ x => kid_ok s x) (app_occ n)
                  (zip_with (fun a pp => {| aid := aid a; am := pp ** am a |}) (app_occ n) l)).
    { apply (zip_cart (fun _ x => kid_ok s x) (app_occ n) groups); [|exact Hl].
      revert F2. apply Forall2_imp. intros a g ((c' & Hc' & (gens & HG & Hgn) & Wa & Ba & Ka) & c & Hc & Hg) pp Hpp.
      rewrite Hc in Hc'. inversion Hc'; subst c'; clear Hc'.
      assert (P : perm_on (c_slots c) pp).
      { unfold group_new in Hgn.
        apply (generated_po (c_slots c) (identity (c_slots c)) (identity_is_id _) (pdedup gens) (pdedup_po _ _ HG)).
        eapply (gnew_gall_sound (c_slots c) (identity (c_slots c)) (identity_is_id _)); [apply pdedup_po; exact HG|exact Hgn|exact Hg|exact Hpp]. }
      split; [|apply compose_partial_wf].
      exists c. cbn [aid am]. split; [exact Hc|]. pose proof P as (Wp & _ & _ & Ip & _). split.
      - apply compose_injective; [exact Wp|exact Ip|]. apply is_bijection_injective; assumption.
      - intros k Hk. destruct (po_get _ pp k P Hk) as (w & Gw & Hw). rewrite get_compose_partial by exact Wp. rewrite Gw.
        apply keys_spec. rewrite Ka. exact Hw. }
    rewrite app_occ_set_apps; [exact (Forall2_Forall_r _ _ _ Z)|]. exact (Forall2_length' _ _ _ Z).
Qed.

Theorem pre_shape_kids : forall s n p, inv3 s -> Forall (covers s) (app_occ n) ->
  pre_shape s n = Ok p -> Forall (kid_ok s) (app_occ p).
Proof.
  intros s n p [[I _] _] Cv P. pose proof I as [Hok Hs _]. unfold pre_shape in P.
  destruct (find_enode s n) as [n1|] eqn:F; cbn [bind] in P; [|discriminate].
  destruct (variants s n1) as [vs|] eqn:Ev; cbn [bind] in P; [|discriminate].
  apply min_variant_in in P. destruct P as [P|[k P]]; [|discriminate].
  apply (variants_kids s n1 vs); [|exact Ev|exact P].
  unfold find_enode in F. destruct (mapr (find_applied_id s) (app_occ n)) as [l|] eqn:El; cbn [bind] in F; [|discriminate].
  inversion F; subst n1; clear F.
  rewrite app_occ_set_apps by (eapply mapr_length; eauto).
  apply Forall_forall. intros a' Ha'. destruct (mapr_in _ _ _ El a' Ha') as (a & Ha & Fa).
  destruct (covers_find_ok s a Hok Hs (proj1 (Forall_forall _ _) Cv a Ha)) as (a2 & Fa2 & CO).
  rewrite Fa in Fa2. inversion Fa2; subst a2. exact CO.
Qed.

(* the shape computed by `shape` *)
Theorem shape_kentry : forall s n sh bij, inv3 s -> Forall (covers s) (app_occ n) ->
  shape s n = Ok (sh, bij) -> kentry_ok s sh.
Proof.
  intros s n sh bij I3 Cv H. unfold shape in H. destruct (pre_shape s n) as [p|] eqn:P; cbn [bind] in H; [|discriminate].
  eapply wshape_kentry; [exact H|]. eapply pre_shape_kids; eauto.
Qed.

(* the children of a found node cover *)
Lemma find_enode_covers : forall s n n', eg_inv s -> Forall (covers s) (app_occ n) -> find_enode s n = Ok n' ->
  Forall (covers s) (app_occ n').
Proof.
  intros s n n' [Hok Hs _] Cv F. unfold find_enode in F.
  destruct (mapr (find_applied_id s) (app_occ n)) as [l|] eqn:El; cbn [bind] in F; [|discriminate].
  inversion F; subst n'; clear F. rewrite app_occ_set_apps by (eapply mapr_length; eauto).
  apply Forall_forall. intros a' Ha'. destruct (mapr_in _ _ _ El a' Ha') as (a & Ha & Fa).
  apply canon_covers. eapply find_canon; [exact Hok|exact Hs| |exact Fa]. exact (proj1 (Forall_forall _ _) Cv a Ha).
Qed.

(* ------------------------------------------------------------------ *)
(* 6. handle_pending, rebuild, eg_union *)

Lemma kids_hp_loop : forall fuel src enode i s r s', inv3 s -> kids_ok s -> Forall (covers s) (app_occ enode) ->
  hp_loop fuel src enode i s = Ok (r, s') -> kids_ok s' /\ Forall (covers s') (app_occ (fst r)).
Proof.
  induction fuel as [|f IH]; intros src enode i s r s' I3 K Cv H; cbn [hp_loop] in H; [discriminate|].
  destruct (sset_subset (values (am i)) (slots enode)).
  - inversion H; subst r s'. cbn [fst]. auto.
  - apply mbind_inv in H. destruct H as (u & s1 & H1 & H).
    destruct (inv3_handle_shrink _ _ _ _ H1 I3) as [I1 E1].
    pose proof (kids_ok_handle_shrink _ _ _ _ I3 K H1) as K1.
    apply bind_reads_inv in H. destruct H as (enode' & He & H).
    apply bind_reads_inv in H. destruct H as (i' & Hi & H).
    apply (IH src enode' i' s1 r s' I1 K1); [|exact H].
    eapply find_enode_covers; [exact (proj1 (proj1 I1))| |exact He].
    revert Cv. apply Forall_impl. intros a. apply covers_ext. exact E1.
Qed.

Lemma q_hp_loop : forall fuel src e0 j0, pres step3 (hp_loop fuel src e0 j0).
Proof.
  induction fuel as [|f IH]; intros src e0 j0; cbn [hp_loop]; [apply q_fail|].
  destruct (sset_subset _ _); [apply q_ret|].
  apply q_bind; [apply inv3_handle_shrink|intros _]. apply q_bind; [apply q_reads|intros e1].
  apply q_bind; [apply q_reads|intros j1]. apply IH.
Qed.

Theorem kids_ok_handle_pending : forall sh ty s x s', inv3 s -> m4 s -> kids_ok s ->
  handle_pending sh ty s = Ok (x, s') -> kids_ok s'.
Proof.
  intros sh ty s x s' I3 M K H. unfold handle_pending in H.
  apply bind_reads_inv in H. destruct H as (i & _ & H).
  destruct (negb ty); [inversion H; subst; exact K|].
  apply bind_reads_inv in H. destruct H as (c & Hc & H).
  apply mbind_inv in H. destruct H as ([bij0 src_id] & s0 & Hp & H). apply lift_inv in Hp. destruct Hp as [Hp ->].
  apply mbind_inv in H. destruct H as (nd & s0 & Hnd & H). apply lift_inv in Hnd. destruct Hnd as [Hnd ->].
  assert (Hin : In (sh, (bij0, src_id)) (c_nodes c)).
  { destruct (na_get (c_nodes c) sh) as [pp|] eqn:G; [|discriminate]. inversion Hp; subst pp. apply na_get_in. exact G. }
  assert (Knd : Forall (kid_ok s) (app_occ nd)).
  { eapply kids_apply; [exact (K _ _ _ Hc Hin)| | |exact Hnd].
    - exact (proj1 (proj2 (proj2 I3 _ _ _ Hc Hin))).
    - intros k v G. exact (m4_bij4 _ M _ _ _ _ _ _ _ Hc Hin G). }
  apply mbind_inv in H. destruct H as (u1 & sA & HA & H).
  assert (IA : inv3 sA /\ ext s sA).
  { destruct I3 as [Hs2 HN]. destruct (semR_step2 _ _ (s_raw_remove _ _ _ _ _ HA) Hs2) as [HsA EA].
    split; [|exact EA]. split; [exact HsA|eapply nodes_raw_remove; eauto]. }
  destruct IA as [IA EA].
  assert (KA : kids_ok sA) by (eapply kids_ok_frame; [eapply ssub_raw_remove; exact HA|exact EA|exact K]).
  apply bind_reads_inv in H. destruct H as (sl & _ & H). cbv zeta in H.
  apply bind_reads_inv in H. destruct H as (enode0 & Hen & H).
  apply bind_reads_inv in H. destruct H as (i0 & _ & H).
  assert (C0 : Forall (covers sA) (app_occ enode0)).
  { eapply find_enode_covers; [exact (proj1 (proj1 IA))| |exact Hen].
    revert Knd. apply Forall_impl. intros a [Ca _]. eapply covers_ext; eauto. }
  apply mbind_inv in H. destruct H as ([enode i1] & sB & HB & H).
  destruct (kids_hp_loop _ _ _ _ _ _ _ IA KA C0 HB) as [KB CB]. cbn [fst] in CB.
  pose proof (proj1 (q_hp_loop _ _ _ _ _ _ _ HB IA)) as IB.
  apply bind_reads_inv in H. destruct H as (t & Ht & H).
  apply bind_reads_inv in H. destruct H as (lk & _ & H).
  destruct lk as [hit|].
  - apply bind_reads_inv in H. destruct H as (pc & P & H).
    eapply kids_ok_handle_congruence; [exact IB|exact KB|exact P|exact H].
  - destruct t as [sh' bij].
    pose proof (shape_kentry sB enode sh' bij IB CB Ht) as Ksh.
    apply mbind_inv in H. destruct H as (m & sC & Hm & H).
    change (fill_fresh (values bij) (inv (am i1)) sB = Ok (m, sC)) in Hm. cbv zeta in H.
    apply mbind_inv in H. destruct H as (u2 & sD & HD & H).
    destruct (semR_step2 _ _ (s_fill_fresh _ _ _ _ _ Hm) (proj1 IB)) as [I2C EC].
    destruct (semR_step2 _ _ (s_raw_add _ _ _ _ _ _ HD) I2C) as [I2D ED].
    destruct (inv_determine_self_symmetries _ _ _ _ H I2D) as [_ E'].
    pose proof (ext_trans _ _ _ EC (ext_trans _ _ _ ED E')) as EB'.
    apply kids_ok_shapes. apply (shapes_in_impl (kentry_ok sB)); [intros sh0; apply kentry_ok_ext; exact EB'|].
    eapply ssub_determine_self_symmetries; [exact H|].
    eapply shapes_raw_add; [|exact Ksh|exact HD].
    eapply (nsame_ssub _ _ (n_fill_fresh _ _ _ _ _ Hm)). exact KB.
Qed.

(* the combined invariant *)
Definition kinv (s : egraph) : Prop := inv3 s /\ m4 s /\ kids_ok s.

Definition kstep (s s' : egraph) : Prop := kinv s -> kinv s' /\ ext s s'.
Lemma kstep_refl : forall s, kstep s s.
Proof. intros s H. split; [assumption|apply ext_refl]. Qed.
Lemma kstep_trans : forall a b c, kstep a b -> kstep b c -> kstep a c.
Proof.
  intros a b c H1 H2 Ha. destruct (H1 Ha) as [Hb E1]. destruct (H2 Hb) as [Hc E2].
  split; [assumption|eapply ext_trans; eauto].
Qed.
Local Notation kpres := (pres kstep).

Theorem kinv_handle_pending : forall sh ty, kpres (handle_pending sh ty).
Proof.
  intros sh ty s x s' H (I3 & M & K). destruct (inv3_handle_pending pre_shape_keeps_proved _ _ _ _ _ H I3) as [I3' E].
  split; [|exact E]. split; [exact I3'|]. split; [exact (proj1 (h_handle_pending _ _ _ _ _ H M))|].
  exact (kids_ok_handle_pending _ _ _ _ _ I3 M K H).
Qed.

Theorem kinv_rebuild : forall fuel, kpres (rebuild fuel).
Proof.
  induction fuel as [|f IH]; [apply (pres_fail kstep)|]. rewrite rebuild_S.
  apply (pres_bind kstep kstep_trans); [apply (pres_gets kstep kstep_refl)|]. intros p.
  destruct p as [|[sh ty] rest]; [apply (pres_ret kstep kstep_refl)|].
  apply (pres_bind kstep kstep_trans).
  { intros s x s' H (I3 & M & K). inversion H; subst x s'. 
    destruct (s_modify_pend' (fun _ => rest) s tt _ eq_refl) as [A B].
    destruct (semn_step3 _ _ A B I3) as [I3' E]. split; [|exact E]. split; [exact I3'|].
    split; [eapply m4_frame; [exact M| | |]; reflexivity|]. eapply kids_ok_same_classes; [|exact K]. reflexivity. }
  intros _. apply (pres_bind kstep kstep_trans); [apply kinv_handle_pending|]. intros _. apply IH.
Qed.

Theorem kids_ok_rebuild : forall fuel s x s', inv3 s -> m4 s -> kids_ok s -> rebuild fuel s = Ok (x, s') -> kids_ok s'.
Proof. intros fuel s x s' I3 M K H. exact (proj2 (proj2 (proj1 (kinv_rebuild fuel _ _ _ H (conj I3 (conj M K)))))). Qed.

Lemma kinv_synify_app_id : forall a, kpres (synify_app_id a).
Proof.
  intros a s x s' H (I3 & M & K).
  destruct (semn_step3 _ _ (s_synify_app_id _ _ _ _ H) (n_synify_app_id _ _ _ _ H) I3) as [I3' E].
  split; [|exact E]. split; [exact I3'|]. split; [exact (proj1 (h_synify_app_id _ _ _ _ H M))|].
  eapply kids_ok_frame; [apply nsame_ssub; eapply n_synify_app_id; exact H|exact E|exact K].
Qed.

Theorem kinv_eg_union : forall l r s b s', kinv s -> covers s l -> covers s r ->
  eg_union l r s = Ok (b, s') -> kinv s' /\ ext s s'.
Proof.
  intros l r s b s' Hs Cl Cr H. unfold eg_union in H.
  apply mbind_inv in H. destruct H as (l1 & s1 & H1 & H). destruct (kinv_synify_app_id _ _ _ _ H1 Hs) as [Hs1 E1].
  apply mbind_inv in H. destruct H as (r1 & s2 & H2 & H). destruct (kinv_synify_app_id _ _ _ _ H2 Hs1) as [Hs2 E2].
  pose proof (ext_trans _ _ _ E1 E2) as E02.
  apply mbind_inv in H. destruct H as (out & s3 & H3 & H).
  destruct Hs2 as (I2 & M2 & K2).
  pose proof (covers_ext _ _ _ E02 Cl) as Cl2. pose proof (covers_ext _ _ _ E02 Cr) as Cr2.
  destruct (inv3_uint _ _ _ _ _ I2 Cl2 Cr2 H3) as [I3 E3].
  pose proof (kids_ok_uint _ _ _ _ _ I2 K2 Cl2 Cr2 H3) as K3.
  pose proof (proj1 (h_uint _ _ _ _ _ H3 M2)) as M3.
  apply mbind_inv in H. destruct H as (u & s4 & H4 & H). inversion H; subst b s4; clear H.
  destruct (kinv_rebuild _ _ _ _ H4 (conj I3 (conj M3 K3))) as [Hs4 E4].
  split; [assumption|]. eapply ext_trans; [exact E02|]. eapply ext_trans; eauto.
Qed.

Theorem kids_ok_eg_union : forall l r s b s', inv3 s -> m4 s -> kids_ok s -> covers s l -> covers s r ->
  eg_union l r s = Ok (b, s') -> kids_ok s'.
Proof.
  intros l r s b s' I3 M K Cl Cr H. exact (proj2 (proj2 (proj1 (kinv_eg_union _ _ _ _ _ (conj I3 (conj M K)) Cl Cr H)))).
Qed.

(* ------------------------------------------------------------------ *)
(* 7. the insertion side *)

Definition kstep0 (s s' : egraph) : Prop := kinv s -> kinv s' /\ ext0 s s'.
Lemma kstep0_refl : forall s, kstep0 s s.
Proof. intros s H. split; [assumption|apply ext0_refl]. Qed.
Lemma kstep0_trans : forall a b c, kstep0 a b -> kstep0 b c -> kstep0 a c.
Proof.
  intros a b c H1 H2 Ha. destruct (H1 Ha) as [Hb E1]. destruct (H2 Hb) as [Hc E2].
  split; [assumption|eapply ext0_trans; eauto].
Qed.

(* the proof of inv3_mk_singleton (AddCoversFacts.v), carrying m4 and the stored shapes along *)
Theorem kinv_mk_singleton : forall en s a s', kinv s -> Forall (fun b => b < ectr s) (binders en) ->
  Forall (kid_ok s) (app_occ en) ->
  mk_singleton_class en s = Ok (a, s') -> kinv s' /\ ext0 s s'.
Proof.
  intros en s a s' (I3 & M & K) Hb Ken H. unfold mk_singleton_class in H.
  apply mbind_inv in H. destruct H as (f2o & s1 & H1 & H).
  unfold with_ctr in H1. destruct (bijection_from_fresh_to (slots en) (ectr s)) as [f2o' c2] eqn:BF.
  inversion H1; subst f2o' s1; clear H1.
  apply mbind_inv in H. destruct H as (syn0 & s2 & H2 & H). unfold with_ctr in H2. cbn [Model.ctr set_ctr] in H2.
  pose proof (fresh_rename_spec en (ectr s) f2o c2 Hb BF) as R. cbv zeta in R.
  destruct (bff_props _ _ _ _ (slots_sorted en) BF) as [Wf2o If2o].
  pose proof (bff_K1 (slots en) (ectr s) (proj1 M)) as Kf. rewrite BF in Kf. cbn [fst] in Kf.
  assert (Oc2 : ok1 c2).
  { pose proof (bijection_from_fresh_to_step (slots en) (ectr s)) as St. rewrite BF in St. cbn [snd] in St.
    eapply ok1_step; [exact (proj1 M)|exact St]. }
  pose proof (asf_slots_ok1 (inv f2o) en c2 (V1_inverse _ Kf) Oc2) as Ssf.
  destruct (apply_slotmap_fresh false (inv f2o) en c2) as [synf c3] eqn:ASF. cbn [fst snd] in R, Ssf.
  inversion H2; subst syn0 s2; clear H2.
  destruct R as (Ec3 & _ & Bi & Sl & NE & Pb & _). subst c3.
  pose proof (bijection_from_fresh_to_step (slots en) (ectr s)) as St. rewrite BF in St. cbn [snd] in St. apply ctr_step_le in St.
  set (s2 := set_ctr (set_ctr s c2) c2) in *.
  assert (S02 : semR s s2).
  { split; [|unfold s2; cbn [Model.ctr set_ctr]; lia]. split; reflexivity. }
  destruct (semn_step3 _ _ S02 (nsame_classes s s2 eq_refl) I3) as [I2 E02].
  assert (M2 : m4 s2) by (unfold s2; apply m4_set_ctr; [apply m4_set_ctr|]; assumption).
  apply mbind_inv in H. destruct H as (i & s3 & H3 & H).
  pose proof (alloc_eclass_exact _ _ _ _ _ H3) as (Hi & U & C & _ & _ & Ct).
  assert (M3 : m4 s3).
  { refine (proj1 (h_alloc_eclass _ _ _ Ssf _ _ _ H3 M2)). apply S1_values. apply V1_inverse. exact Kf. }
  assert (S3 : inv3 s3 /\ ext0 s2 s3).
  { destruct I2 as [[[Hok Hsl HC] Hbl] HN].
    assert (Wsl : swf (values (inv f2o))) by apply sset_of_list_spec.
    split; [split; [split|]|].
    - constructor.
      + exact (uf_ok_alloc_eclass _ _ _ _ _ H3 Hok).
      + eapply uf_slots_ok_alloc_eclass; [exact Hok|exact Hsl|exact Wsl|exact Sl|exact H3].
      + intros j c Hc. apply (get_class_ext_inv s2 s3 _ C) in Hc. destruct Hc as [Hc|[_ ->]]; [eapply HC; eauto|].
        split; [exact Wsl|]. split.
        * apply class_flat_grp_ok. unfold class_flat. cbn [c_slots c_group c_syn]. auto.
        * cbn [c_slots c_syn]. rewrite Sl. apply incl_refl.
    - intros j c x Hc Hx. rewrite Ct. apply (get_class_ext_inv s2 s3 _ C) in Hc. destruct Hc as [Hc|[_ ->]]; [eapply Hbl; eauto|].
      cbn [c_syn] in Hx. unfold s2. cbn [Model.ctr set_ctr].
      apply (Permutation.Permutation_in _ (occ_partition synf)) in Hx. apply in_app_or in Hx. destruct Hx as [Hx|Hx].
      + apply Pb in Hx. lia.
      + apply prv_binders in Hx. rewrite Bi in Hx. pose proof (proj1 (Forall_forall _ _) Hb x Hx) as T. cbv beta in T. lia.
    - intros j c e Hc He. apply (get_class_ext_inv s2 s3 _ C) in Hc. destruct Hc as [Hc|[_ ->]]; [eapply HN; eauto|].
      cbn [c_nodes] in He. contradiction.
    - split; [rewrite Ct; lia|]. intros j c Hc. exists c. split; [eapply get_class_ext_old; eauto|].
      split; [apply incl_refl|reflexivity]. }
  destruct S3 as [I3' E23].
  assert (Sh3 : forall P, shapes_in P s -> shapes_in P s3).
  { intros P KP j c e Hc He. apply (get_class_ext_inv s2 s3 _ C) in Hc. destruct Hc as [Hc|[_ ->]]; [|destruct He].
    exact (KP j c e Hc He). }
  pose proof (get_class_ext_new s2 s3 _ C) as Hnew.
  assert (Ei : i = N.of_nat (lc s2)).
  { rewrite Hi. f_equal. exact (uso_wf _ (ei_slots _ (proj1 (proj1 I2)))). }
  rewrite <- Ei in Hnew.
  apply mbind_inv in H. destruct H as (t & s0 & Ht & H). apply lift_inv in Ht. destruct Ht as [Ht ->].
  apply mbind_inv in H. destruct H as (u4 & s4 & H4 & H). destruct t as [sh bij].
  assert (I4 : inv3 s4 /\ ext s3 s4).
  { destruct I3' as [Hs2 HN]. destruct (semR_step2 _ _ (s_raw_add _ _ _ _ _ _ H4) Hs2) as [Hs4 E4].
    split; [|exact E4]. split; [exact Hs4|]. eapply nodes_raw_add; [exact HN|exact Hnew| |exact H4].
    destruct (shape_bij_props _ _ _ Ht) as (Wb & Bb & _). destruct (shape_bij _ _ _ Ht) as (Sb1 & Sb2 & _).
    unfold entry_ok. cbn [fst snd c_slots]. split; [assumption|]. split; [apply is_bijection_injective; assumption|].
    split; [intros k Hk; apply Sb2; assumption|].
    intros x Hx. apply Sb1. rewrite <- Sl in Hx. apply slots_spec. assumption. }
  destruct I4 as [I4 E34].
  assert (M4 : m4 s4).
  { cbn [fst] in H4. refine (proj1 (h_raw_add _ _ _ _ _ _ _ _ H4 M3)). eapply wshape_V1; [exact Ht|]. apply S1_slots_pub. exact Ssf. }
  apply mbind_inv in H. destruct H as (u5 & s5 & H5 & H).
  destruct (semn_step3 _ _ (s_pending_insert _ _ _ _ _ H5) (n_pending_insert _ _ _ _ _ H5) I4) as [I5 E45].
  pose proof (proj1 (h_pending_insert _ _ _ _ _ H5 M4)) as M5.
  assert (E05 : ext0 s s5).
  { eapply ext0_trans; [apply ext_ext0; exact E02|]. eapply ext0_trans; [exact E23|]. apply ext_ext0. eapply ext_trans; eauto. }
  assert (K5 : kids_ok s5).
  { apply kids_ok_shapes. apply (nsame_ssub _ _ (n_pending_insert _ _ _ _ _ H5)).
    eapply shapes_raw_add; [| |exact H4].
    - apply Sh3. apply (shapes_in_impl (kentry_ok s)); [intros sh0; apply kentry_ok_ext0; exact E05|exact K].
    - apply (kentry_ok_ext0 s s5 _ E05). destruct (weak_shape_total false en) as (sh0 & bij0 & Hw0).
      assert (sh0 = sh) by (eapply shape_invariant; [exact Hw0|exact Ht|exact NE]). subst sh0.
      eapply wshape_kentry; [exact Hw0|exact Ken]. }
  apply mbind_inv in H. destruct H as (u6 & s6 & H6 & H). inversion H; subst a s6; clear H.
  destruct (kinv_rebuild _ _ _ _ H6 (conj I5 (conj M5 K5))) as [I6 E56].
  split; [exact I6|]. eapply ext0_trans; [exact E05|apply ext_ext0; exact E56].
Qed.

(* the children of the node handed to mk_singleton_class by add_internal *)
Lemma map_vals_wf_rev : forall h m, wf (map_vals h m) -> wf m.
Proof.
  intros h. induction m as [|[k v] t IH]; intros W; [exact I|]. cbn [map_vals map fst snd wf] in *.
  destruct W as [L W]. split; [|apply IH; exact W]. destruct t as [|[k' v'] t']; [exact I|exact L].
Qed.

Lemma KR_kid_rev : forall s x x', KR x x' -> kid_ok s x' -> kid_ok s x.
Proof.
  intros s x x' (Ea & h & Hh & Em) [(c & Hc & Ix & Sx) W]. rewrite Ea in Hc. rewrite Em in Ix, Sx, W. split.
  - exists c. split; [exact Hc|]. split.
    + intros k1 k2 v G1 G2. apply (Ix k1 k2 (h v)); rewrite get_map_vals; [rewrite G1|rewrite G2]; reflexivity.
    + intros k Hk. specialize (Sx k Hk). rewrite get_map_vals in Sx. destruct (get (am x) k); [discriminate|exact Sx].
  - eapply map_vals_wf_rev; exact W.
Qed.

Lemma KR_Forall_rev : forall s l l', Forall2 KR l l' -> Forall (kid_ok s) l' -> Forall (kid_ok s) l.
Proof.
  intros s l l' F. induction F as [|x x' l l' Hx _ IH]; intros H; [constructor|].
  inversion H; subst. constructor; [eapply KR_kid_rev; eauto|apply IH; assumption].
Qed.

Lemma kid_ok_same_classes : forall s s' a, classes s' = classes s -> kid_ok s a -> kid_ok s' a.
Proof. intros s s' a E [C W]. split; [eapply covers_same_classes; eauto|exact W]. Qed.

(* old values are below the counter or not of the fresh residue *)
Definition vpre (c : N) (m : slotmap) : Prop := forall k v, get m k = Some v -> v < c \/ v mod 4 <> 1.

Lemma fill_fresh_inj' : forall l m s m' s', wf m -> injective m -> ok1 (ectr s) -> vpre (ectr s) m ->
  fill_fresh l m s = Ok (m', s') -> injective m' /\ ok1 (ectr s') /\ ectr s <= ectr s' /\ vpre (ectr s') m'.
Proof.
  induction l as [|x t IH]; intros m s m' s' W Im O B H; cbn [fill_fresh] in H.
  - inversion H; subst. split; [assumption|]. split; [assumption|]. split; [lia|assumption].
  - destruct (contains_key m x); [eapply IH; eauto|].
    apply mbind_inv in H. destruct H as (f & s1 & H1 & H). inversion H1; subst f s1; clear H1.
    pose proof O as O'. unfold ok1 in O'.
    apply (IH _ _ _ _ (insert_wf _ _ _ W)) in H.
    + cbn [Model.ctr set_ctr] in H. destruct H as (A1 & A2 & A3 & A4). split; [exact A1|]. split; [exact A2|]. split; [lia|exact A4].
    + intros k1 k2 v. rewrite !get_insert by assumption.
      destruct (k1 =? x) eqn:E1, (k2 =? x) eqn:E2; neq; intros A1 A2.
      * congruence.
      * inversion A1; subst v. apply B in A2. lia.
      * inversion A2; subst v. apply B in A1. lia.
      * eapply Im; eauto.
    + cbn [Model.ctr set_ctr]. apply ok1_next. exact O.
    + intros k v. rewrite get_insert by assumption. cbn [Model.ctr set_ctr]. destruct (k =? x).
      * intros A. inversion A; subst v. lia.
      * intros A. apply B in A. lia.
Qed.

Lemma synify_app_kid : forall a s a' s', kid_ok s a -> ok1 (ectr s) -> vpre (ectr s) (am a) ->
  synify_app_id a s = Ok (a', s') ->
  kid_ok s' a' /\ classes s' = classes s /\ ok1 (ectr s') /\ ectr s <= ectr s' /\ vpre (ectr s') (am a').
Proof.
  intros a s a' s' [(c & Hc & Ia & Sa) W] O B H. unfold synify_app_id in H.
  apply bind_reads_inv in H. destruct H as (ss & _ & H).
  apply mbind_inv in H. destruct H as (m & s1 & Hm & H). inversion H; subst a' s1; clear H.
  change (fill_fresh ss (am a) s = Ok (m, s')) in Hm.
  destruct (fill_fresh_spec _ _ _ _ _ W Hm) as (Wm & _ & Keep & (cC & ->)).
  destruct (fill_fresh_inj' _ _ _ _ _ W Ia O B Hm) as (Im & O' & L & B').
  split; [|split; [reflexivity|split; [assumption|split; assumption]]]. split; [|exact Wm].
  exists c. cbn [aid am]. split; [exact Hc|]. split; [exact Im|].
  intros k Hk. specialize (Sa k Hk). rewrite (Keep k Sa). exact Sa.
Qed.

Lemma synify_list_kids : forall l s l' s', Forall (kid_ok s) l -> ok1 (ectr s) ->
  (forall a, In a l -> vpre (ectr s) (am a)) ->
  mapM synify_app_id l s = Ok (l', s') ->
  Forall (kid_ok s') l' /\ classes s' = classes s /\ ectr s <= ectr s' /\ (forall a', In a' l' -> vpre (ectr s') (am a')).
Proof.
  induction l as [|a t IH]; intros s l' s' F O B H; cbn [mapM] in H.
  - inversion H; subst. split; [constructor|]. split; [reflexivity|]. split; [lia|intros a' []].
  - apply mbind_inv in H. destruct H as (a' & s1 & H1 & H).
    apply mbind_inv in H. destruct H as (r & s2 & H2 & H). inversion H; subst l' s2; clear H.
    inversion F as [|? ? Fa Ft]; subst.
    destruct (synify_app_kid _ _ _ _ Fa O (B a (or_introl eq_refl)) H1) as (Ka & C1 & O1 & L1 & V1').
    destruct (IH s1 r s') as (Kr & C2 & L2 & V2'); [| | |exact H2|].
    + revert Ft. apply Forall_impl. intros b. apply kid_ok_same_classes. exact C1.
    + exact O1.
    + intros b Hb k v G. destruct (B b (or_intror Hb) k v G); [left; lia|right; assumption].
    + split; [constructor; [|exact Kr]; eapply kid_ok_same_classes; [exact C2|exact Ka]|].
      split; [congruence|]. split; [lia|]. intros a0 [<-|Ha0]; [|apply V2'; exact Ha0].
      intros k v G. destruct (V1' k v G); [left; lia|right; assumption].
Qed.

Definition slots_pre (s : egraph) (p : node) : Prop := forall x, In x (all_occ p) -> x < ectr s \/ x mod 4 <> 1.

Theorem syn_kids : forall t p s en1 c1 en2 en3 s3,
  kinv s -> wshape p = Ok t -> Forall (kid_ok s) (app_occ p) -> slots_pre s p ->
  refresh_private (fst t) (ectr s) = (Ok en1, c1) ->
  apply_slotmap false (snd t) en1 = Ok en2 ->
  synify_enode en2 (set_ctr s c1) = Ok (en3, s3) ->
  Forall (kid_ok s3) (app_occ en3) /\ (forall x, In x (all_occ en3) -> x < ectr s3 \/ x mod 4 <> 1).
Proof.
  intros [sh bij] p s en1 c1 en2 en3 s3 (I3 & M & K) Hw Kp Sp RP H2 H3. cbn [fst snd] in *.
  pose proof (proj1 M) as Cm. unfold ok1 in Cm.
  destruct (refresh_private_spec _ _ _ _ RP) as (Sk1 & Bi1 & Pa1).
  pose proof (refresh_private_step sh (ectr s)) as St1. rewrite RP in St1. cbn [snd] in St1.
  assert (O1 : ok1 c1) by (eapply ok1_step; [exact (proj1 M)|exact St1]). apply ctr_step_le in St1.
  assert (M0 : forall x, In x (pub_occ sh) -> x mod 4 <> ectr s mod 4).
  { intros x Hx. apply pub_occ_all_occ in Hx. rewrite (shape_all_occ_mod4 _ _ _ Hw x Hx), Cm. lia. }
  specialize (Pa1 M0).
  assert (P1 : pub_occ en1 = pub_occ sh) by (rewrite <- !frees_pattern, Pa1; reflexivity).
  assert (Q1 : node_equiv sh en1).
  { split; [symmetry; assumption|]. exists (fun x => x). split; [intros x y _ _ E; exact E|].
    rewrite rename_occ_id. symmetry. assumption. }
  pose proof (apply_slotmap_ren _ _ _ H2) as R2.
  destruct (shape_bij _ _ _ Hw) as (B1 & B2 & B3).
  assert (C1 : inj_on (asm_g bij false) (binders en1)) by (intros x y _ _ E; exact E).
  assert (C2 : forall x b, In x (pub_occ en1) -> In b (binders en1) -> asm_g bij true x <> asm_g bij false b).
  { intros x b Hx Hb. rewrite P1 in Hx. unfold asm_g. apply B2 in Hx.
    destruct (get bij x) as [y|] eqn:G; [|congruence].
    assert (Hy : In y (pub_occ p)) by (apply B1; eauto). apply pub_occ_all_occ, Sp in Hy.
    pose proof (proj1 (Forall_forall _ _) Bi1 b Hb) as Hb'. cbv beta in Hb'. lia. }
  assert (Q2 : node_equiv en1 en2).
  { rewrite R2. apply ren_equiv; [assumption|assumption|].
    intros x y Hx Hy. rewrite P1 in Hx, Hy. unfold asm_g. apply B2 in Hx, Hy.
    destruct (get bij x) as [u|] eqn:Gx; [|congruence]. destruct (get bij y) as [v|] eqn:Gy; [|congruence].
    intros ->. exact (shape_bij_inj _ _ _ Hw _ _ _ Gx Gy). }
  assert (P2 : pub_occ en2 = map (asm_g bij true) (pub_occ sh)).
  { rewrite R2, ren_pub_occ by assumption. rewrite P1. reflexivity. }
  assert (Bi2 : binders en2 = binders en1) by (rewrite R2, ren_binders; unfold asm_g; apply map_id).
  destruct (shape_idempotent _ _ _ Hw) as [bij0 W0].
  destruct (weak_shape_total false en2) as (sh2 & b2 & W2).
  assert (Esh : sh = sh2) by (eapply shape_invariant; [exact W0|exact W2|eapply node_equiv_trans; eauto]). subst sh2.
  pose proof (wshape_kentry s p sh bij Hw Kp) as [_ Ksh].
  pose proof (KR_Forall_rev s _ _ (wshape_KR _ _ _ W2) Ksh) as K2.
  assert (V2 : forall x, In x (all_occ en2) -> x < c1 \/ x mod 4 <> 1).
  { intros x Hx. apply (Permutation.Permutation_in _ (occ_partition en2)) in Hx. apply in_app_or in Hx. destruct Hx as [Hx|Hx].
    - rewrite P2 in Hx. apply in_map_iff in Hx. destruct Hx as (k & <- & Hk). unfold asm_g. apply B2 in Hk.
      destruct (get bij k) as [y|] eqn:G; [|congruence].
      assert (Hy : In y (pub_occ p)) by (apply B1; eauto). apply pub_occ_all_occ, Sp in Hy. lia.
    - apply prv_binders in Hx. rewrite Bi2 in Hx. pose proof (proj1 (Forall_forall _ _) Bi1 x Hx) as Hb'. cbv beta in Hb'. lia. }
  unfold synify_enode in H3. apply mbind_inv in H3. destruct H3 as (l & s1 & Hl & Hr). inversion Hr; subst en3 s1; clear Hr.
  rewrite app_occ_set_apps by (eapply mapM_length; eauto).
  destruct (synify_list_kids (app_occ en2) (set_ctr s c1) l s3) as (A1 & _ & A3 & A4); [| | |exact Hl|].
  4:{ split; [exact A1|]. cbn [Model.ctr set_ctr] in A3. intros x Hx. unfold all_occ, set_apps in Hx. cbn [nargs] in Hx.
      apply set_apps_args_all in Hx. destruct Hx as [Hx|(y & Hy & Hx)].
      - destruct (V2 x Hx); [left; lia|right; assumption].
      - unfold values_vec in Hx. apply in_map_iff in Hx. destruct Hx as ([k v] & <- & Hin). cbn [snd].
        apply (A4 y Hy k). apply in_get; [|exact Hin].
        exact (proj2 (proj1 (Forall_forall _ _) A1 y Hy)). }
  - revert K2. apply Forall_impl. intros a. apply kid_ok_same_classes. reflexivity.
  - exact O1.
  - intros a Ha k v G. cbn [Model.ctr set_ctr]. apply V2. apply (vals_all_occ en2 a v Ha).
    unfold values_vec. apply in_map_iff. exists (k, v). split; [reflexivity|apply get_in; exact G].
Qed.

(* the values of the map returned by mk_singleton_class are public slots of the node *)
Lemma mk_singleton_vals : forall en s a s', mk_singleton_class en s = Ok (a, s') ->
  forall v, In v (values_vec (am a)) -> In v (pub_occ en).
Proof.
  intros en s a s' H v G. unfold mk_singleton_class in H.
  apply mbind_inv in H. destruct H as (f2o & s1 & H1 & H).
  unfold with_ctr in H1. destruct (bijection_from_fresh_to (slots en) (ectr s)) as [f2o' c2] eqn:BF.
  inversion H1; subst f2o' s1; clear H1.
  apply mbind_inv in H. destruct H as (x2 & s2 & _ & H). apply mbind_inv in H. destruct H as (x3 & s3 & _ & H).
  apply mbind_inv in H. destruct H as (x4 & s4 & _ & H). apply mbind_inv in H. destruct H as (x5 & s5 & _ & H).
  apply mbind_inv in H. destruct H as (x6 & s6 & _ & H). apply mbind_inv in H. destruct H as (x7 & s7 & _ & H).
  inversion H; subst a s7; clear H. cbn [am] in G.
  destruct (bff_props _ _ _ _ (slots_sorted en) BF) as [Wf If].
  pose proof (proj2 (is_bijection_injective f2o Wf) If) as Bf.
  unfold values_vec in G. apply in_map_iff in G. destruct G as ([k v'] & Ev & G). cbn [snd] in Ev. subst v'.
  apply (in_get _ _ _ Wf) in G. apply (get_inverse f2o _ _ Wf Bf) in G.
  destruct (fresh_spec_keys _ _ _ _ _ _ (slots_sorted en) BF G) as (Hv & _). apply slots_spec. exact Hv.
Qed.

Definition vpre_in (c : N) (m : slotmap) : Prop := forall v, In v (values_vec m) -> v < c \/ v mod 4 <> 1.

(* add_internal / eg_add *)
  Theorem kinv_add_internal : forall t p s a s', kinv s -> wshape p = Ok t ->
    Forall (kid_ok s) (app_occ p) -> slots_pre s p ->
    add_internal t s = Ok (a, s') -> kinv s' /\ ext0 s s' /\ covers s' a /\ vpre_in (ectr s') (am a).
  Proof.
    intros t p s a s' Hk Hw Kp Sp H. pose proof Hk as (I3 & M & K).
    destruct (inv3_add_internal pre_shape_keeps_proved t p s a s' I3 Hw H) as (_ & _ & Cov).
    assert (G : kinv s' /\ ext0 s s' /\ vpre_in (ectr s') (am a)); [|destruct G as (G1 & G2 & G3); auto].
    unfold add_internal in H.
    apply bind_reads_inv in H. destruct H as (lk & Hlk & H).
    destruct lk as [hit|].
    { inversion H; subst hit s'. split; [assumption|]. split; [apply ext0_refl|]. destruct t as [sh nb].
      intros v Gk. apply Sp. apply pub_occ_all_occ. eapply lookup_hit_vals; [exact Hw|exact Hlk|exact Gk]. }
    apply mbind_inv in H. destruct H as (en1 & s1 & H1 & H).
    destruct (refresh_private (fst t) (ectr s)) as [[r|e] c1] eqn:RP; [|discriminate]. inversion H1; subst r s1; clear H1.
    pose proof (refresh_private_step (fst t) (ectr s)) as St1. rewrite RP in St1. cbn [snd] in St1.
    assert (O1 : ok1 c1) by (eapply ok1_step; [exact (proj1 M)|exact St1]). apply ctr_step_le in St1.
    destruct (refresh_private_spec _ _ _ _ RP) as (_ & Bi1 & _).
    set (s1 := set_ctr s c1) in *.
    assert (S01 : semR s s1) by (split; [apply sem_set_ctr|unfold s1; cbn [Model.ctr set_ctr]; lia]).
    destruct (semn_step3 _ _ S01 (nsame_ctr s c1) I3) as [I1 E01].
    assert (M1 : m4 s1) by (apply m4_set_ctr; assumption).
    assert (K1 : kids_ok s1) by (eapply kids_ok_same_classes; [|exact K]; reflexivity).
    apply mbind_inv in H. destruct H as (en2 & s2 & H2 & H). apply lift_inv in H2. destruct H2 as [H2 ->].
    pose proof (apply_slotmap_ren _ _ _ H2) as R2.
    assert (Bi2 : binders en2 = binders en1) by (rewrite R2, ren_binders; unfold asm_g; apply map_id).
    apply mbind_inv in H. destruct H as (en3 & s3 & H3 & H).
    pose proof (s_synify_enode _ _ _ _ H3) as S13.
    destruct (semn_step3 _ _ S13 (n_synify_enode _ _ _ _ H3) I1) as [I3' E13].
    pose proof (proj1 (h_synify_enode _ _ _ _ H3 M1)) as M3.
    assert (K3 : kids_ok s3) by (eapply kids_ok_frame; [apply nsame_ssub; eapply n_synify_enode; exact H3|exact E13|exact K1]).
    pose proof (synify_enode_binders _ _ _ _ H3) as Bi3.
    pose proof (syn_kids t p s en1 c1 en2 en3 s3 Hk Hw Kp Sp RP H2 H3) as [Ken3 Ven3].
    apply mbind_inv in H. destruct H as (syn & s4 & H4 & H).
    destruct (kinv_mk_singleton en3 s3 syn s4 (conj I3' (conj M3 K3))) as (I4 & E34); [|exact Ken3|exact H4|].
    { rewrite Bi3, Bi2. revert Bi1. apply Forall_impl. intros b ((_ & Hb) & _).
      destruct S13 as [_ L13]. unfold s1 in L13. cbn [Model.ctr set_ctr] in L13. lia. }
    unfold reads in H. destruct (semify_app_id s4 syn) as [a0|] eqn:Sem; inversion H; subst a0 s'; clear H.
    split; [exact I4|]. split.
    { eapply ext0_trans; [apply ext_ext0; exact E01|]. eapply ext0_trans; [apply ext_ext0; exact E13|exact E34]. }
    unfold semify_app_id in Sem. destruct (class_slots s4 (aid syn)) as [sl|]; cbn [bind] in Sem; [|discriminate].
    inversion Sem; subst a; clear Sem. cbn [am]. intros v Gk.
    assert (Gk' : In v (values_vec (am syn))).
    { unfold values_vec in *. apply in_map_iff in Gk. destruct Gk as (kv & <- & Hin). apply filter_In in Hin. apply in_map. tauto. }
    pose proof (mk_singleton_vals _ _ _ _ H4 v Gk') as Hv. apply pub_occ_all_occ, Ven3 in Hv.
    destruct E34 as [L34 _]. destruct Hv; [left; lia|right; assumption].
  Qed.

  Theorem kinv_eg_add : forall n s a s', kinv s -> Forall (covers s) (app_occ n) -> slots_pre s n ->
    eg_add n s = Ok (a, s') -> kinv s' /\ ext0 s s' /\ covers s' a /\ vpre_in (ectr s') (am a).
  Proof.
    intros n s a s' Hk Cv Sp H. unfold eg_add in H. apply bind_reads_inv in H. destruct H as (t & Ht & H).
    unfold shape in Ht. destruct (pre_shape s n) as [p|] eqn:P; cbn [bind] in Ht; [|discriminate].
    eapply kinv_add_internal; [exact Hk|exact Ht| |intros x Hx; apply Sp; exact (pre_shape_all_occ s n p P x Hx)|exact H].
    eapply pre_shape_kids; [exact (proj1 Hk)|exact Cv|exact P].
  Qed.

(* ------------------------------------------------------------------ *)
(* 8. the applier phase of rewriting (Rewrite.v) *)
From SE Require Import Parse.Parser EGraph.RewriteFacts.

(* ADAPTED from the suggested `inv_ok` (values below the counter): values below the counter OR not of the
   fresh residue 1 mod 4 -- this is what eg_add needs (slots_pre) and what it returns (kinv_eg_add) *)
Definition inv_ok (s : egraph) (a : appid) : Prop := covers s a /\ vpre_in (ectr s) (am a).
Definition sub_ok2 (s : egraph) (sb : subst) : Prop := forall v a, sub_get sb v = Some a -> inv_ok s a.

Lemma inv_ok_ext0 : forall s s' a, ext0 s s' -> inv_ok s a -> inv_ok s' a.
Proof.
  intros s s' a E [C V]. split; [eapply covers_ext0; eauto|]. destruct E as [L _].
  intros v G. destruct (V v G); [left; lia|right; assumption].
Qed.
Lemma sub_ok2_ext0 : forall s s' sb, ext0 s s' -> sub_ok2 s sb -> sub_ok2 s' sb.
Proof. intros s s' sb E H v a G. eapply inv_ok_ext0; [exact E|]. eapply H; eauto. Qed.
Lemma pat_below_mono : forall B B' p, B <= B' -> pat_below B p -> pat_below B' p.
Proof. intros B B' p L H x Hx. specialize (H x Hx). lia. Qed.

(* NOT PROVED: the PSubst case (syn_expr_subst = synify ; get_syn_expr ; do_term_subst).  Every theorem below
   takes, per pattern, the premise `pok p` := SES_holds \/ nosubst p = true. *)
Definition SES_holds : Prop := forall b x t s a s', kinv s -> inv_ok s b -> inv_ok s x -> inv_ok s t ->
  syn_expr_subst b x t s = Ok (a, s') -> kinv s' /\ ext0 s s' /\ inv_ok s' a.

Fixpoint nosubst (p : Parser.pattern) : bool :=
  match p with
  | PVarP _ => true
  | PNode _ ch => (fix go (l : list Parser.pattern) : bool := match l with [] => true | c :: t => nosubst c && go t end) ch
  | PSubst _ _ _ => false
  end.
Definition pok (p : Parser.pattern) : Prop := SES_holds \/ nosubst p = true.

Lemma pok_node : forall n ch, pok (PNode n ch) -> Forall pok ch.
Proof.
  intros n ch [H|H]; [apply Forall_forall; intros c _; left; exact H|]. cbn [nosubst] in H.
  induction ch as [|c t IH]; [constructor|]. apply andb_true_iff in H. destruct H as [H1 H2].
  constructor; [right; exact H1|apply IH; exact H2].
Qed.
Lemma pok_subst : forall b x t, pok (PSubst b x t) -> SES_holds.
Proof. intros b x t [H|H]; [exact H|discriminate]. Qed.

Section Appliers.

  Lemma kinv_psubst_kids : forall sb ch, Forall (fun c => forall s a s', pok c -> kinv s -> pat_below (ectr s) c -> sub_ok2 s sb ->
      pattern_subst c sb s = Ok (a, s') -> kinv s' /\ ext0 s s' /\ inv_ok s' a) ch -> Forall pok ch ->
    forall k s l s', kinv s -> Forall (pat_below (ectr s)) ch -> sub_ok2 s sb ->
    psubst_kids sb ch k s = Ok (l, s') ->
    kinv s' /\ ext0 s s' /\ Forall (inv_ok s') l /\ List.length l = k.
  Proof.
    intros sb ch IH. induction IH as [|c r Hc _ IHr]; intros PK k s l s' Hk PB SO H1.
    - rewrite psubst_kids_nil in H1. destruct k; [|discriminate]. inversion H1; subst.
      split; [assumption|]. split; [apply ext0_refl|]. split; [constructor|reflexivity].
    - destruct k as [|k]; [rewrite psubst_kids_O in H1; inversion H1; subst; split; [assumption|]; split; [apply ext0_refl|]; split; [constructor|reflexivity]|].
      rewrite psubst_kids_cons in H1. apply mbind_inv in H1. destruct H1 as (a0 & s2 & Ha & H1).
      apply mbind_inv in H1. destruct H1 as (r0 & s3 & Hr & H1). inversion H1; subst l s3; clear H1.
      destruct (Hc s a0 s2 (Forall_inv PK) Hk (Forall_inv PB) SO Ha) as (K2 & E2 & A0).
      destruct (IHr (Forall_inv_tail PK) k s2 r0 s' K2) as (K3 & E3 & R0 & L0); [| |exact Hr|].
      + apply Forall_inv_tail in PB. revert PB. apply Forall_impl. intros c0. apply pat_below_mono. exact (proj1 E2).
      + eapply sub_ok2_ext0; eauto.
      + split; [exact K3|]. split; [eapply ext0_trans; eauto|]. split; [|cbn [List.length]; lia].
        constructor; [eapply inv_ok_ext0; eauto|exact R0].
  Qed.

  Theorem kinv_pattern_subst : forall p sb s a s', pok p -> kinv s -> pat_below (ectr s) p -> sub_ok2 s sb ->
    pattern_subst p sb s = Ok (a, s') -> kinv s' /\ ext0 s s' /\ inv_ok s' a.
  Proof.
    intros p sb. induction p as [v|n ch IH|b x t IHb IHx IHt] using pattern_ind2; intros s a s' PK Hk PB SO H.
    - cbn [pattern_subst] in H. destruct (sub_get sb v) as [a0|] eqn:E; [|discriminate]. inversion H; subst a0 s'.
      split; [assumption|]. split; [apply ext0_refl|eapply SO; eauto].
    - rewrite pattern_subst_node in H. apply mbind_inv in H. destruct H as (l & s1 & H1 & H).
      assert (PBn : forall x, In x (all_occ n) -> x < ectr s).
      { intros x Hx. apply PB. rewrite pslots_node. apply in_or_app. left. exact Hx. }
      assert (PBc : Forall (pat_below (ectr s)) ch).
      { apply Forall_forall. intros c Hc x Hx. apply PB. rewrite pslots_node. apply in_or_app. right.
        apply in_flat_map. exists c. split; assumption. }
      destruct (kinv_psubst_kids sb ch IH (pok_node _ _ PK) _ _ _ _ Hk PBc SO H1) as (K1 & E1 & L1 & Len).
      destruct (kinv_eg_add (set_apps n l) s1 a s' K1) as (K2 & E2 & C2 & V2); [| |exact H|].
      + rewrite app_occ_set_apps by exact Len. revert L1. apply Forall_impl. intros y [Cy _]. exact Cy.
      + intros x Hx. unfold all_occ, set_apps in Hx. cbn [nargs] in Hx. apply set_apps_args_all in Hx.
        destruct Hx as [Hx|(y & Hy & Hx)].
        * left. pose proof (PBn x Hx). destruct E1 as [L _]. lia.
        * destruct (proj1 (Forall_forall _ _) L1 y Hy) as [Cy Vy]. exact (Vy x Hx).
      + split; [exact K2|]. split; [eapply ext0_trans; eauto|]. split; assumption.
    - cbn [pattern_subst] in H.
      assert (PB3 : pat_below (ectr s) b /\ pat_below (ectr s) x /\ pat_below (ectr s) t).
      { split; [|split]; intros y Hy; apply PB; cbn [pslots]; apply in_or_app; [left; exact Hy|right|right]; apply in_or_app; [left|right]; exact Hy. }
      destruct PB3 as (PBb & PBx & PBt). pose proof (pok_subst _ _ _ PK) as SES.
      apply mbind_inv in H. destruct H as (b' & s1 & H1 & H). destruct (IHb s b' s1 (or_introl SES) Hk PBb SO H1) as (K1 & E1 & B1).
      apply mbind_inv in H. destruct H as (x' & s2 & H2 & H).
      destruct (IHx s1 x' s2 (or_introl SES) K1 (pat_below_mono _ _ _ (proj1 E1) PBx) (sub_ok2_ext0 _ _ _ E1 SO) H2) as (K2 & E2 & X2).
      pose proof (ext0_trans _ _ _ E1 E2) as E12.
      apply mbind_inv in H. destruct H as (t' & s3 & H3 & H).
      destruct (IHt s2 t' s3 (or_introl SES) K2 (pat_below_mono _ _ _ (proj1 E12) PBt) (sub_ok2_ext0 _ _ _ E12 SO) H3) as (K3 & E3 & T3).
      pose proof (ext0_trans _ _ _ E12 E3) as E123.
      destruct (SES b' x' t' s3 a s' K3 (inv_ok_ext0 _ _ _ (ext0_trans _ _ _ E2 E3) B1) (inv_ok_ext0 _ _ _ E3 X2) T3 H) as (K4 & E4 & A4).
      split; [exact K4|]. split; [eapply ext0_trans; eauto|exact A4].
  Qed.

  Theorem kinv_union_instantiations : forall fp tp sb s b s', pok fp -> pok tp -> kinv s -> pat_below (ectr s) fp -> pat_below (ectr s) tp ->
    sub_ok2 s sb -> union_instantiations fp tp sb s = Ok (b, s') -> kinv s' /\ ext0 s s'.
  Proof.
    intros fp tp sb s b s' Qf Qt Hk Pf Pt SO H. unfold union_instantiations in H.
    apply mbind_inv in H. destruct H as (x & s1 & H1 & H). destruct (kinv_pattern_subst fp sb s x s1 Qf Hk Pf SO H1) as (K1 & E1 & X1).
    apply mbind_inv in H. destruct H as (y & s2 & H2 & H).
    destruct (kinv_pattern_subst tp sb s1 y s2 Qt K1 (pat_below_mono _ _ _ (proj1 E1) Pt) (sub_ok2_ext0 _ _ _ E1 SO) H2) as (K2 & E2 & Y2).
    change (eg_union x y s2 = Ok (b, s')) in H.
    destruct (kinv_eg_union x y s2 b s' K2 (covers_ext0 _ _ _ E2 (proj1 X1)) (proj1 Y2) H) as [K3 E3].
    split; [exact K3|]. eapply ext0_trans; [exact E1|]. eapply ext0_trans; [exact E2|apply ext_ext0; exact E3].
  Qed.

  Theorem kinv_apply_substs_cond : forall r substs s x s', pok (r_lhs r) -> pok (r_rhs r) -> kinv s ->
    pat_below (ectr s) (r_lhs r) -> pat_below (ectr s) (r_rhs r) -> Forall (sub_ok2 s) substs ->
    apply_substs_cond r substs s = Ok (x, s') -> kinv s' /\ ext0 s s'.
  Proof.
    intros r substs s x s' Ql Qr. revert s x s'. unfold apply_substs_cond. induction substs as [|sb t IH]; intros s x s' Hk Pl Pr SC H; cbn [iterM] in H.
    - inversion H; subst. split; [assumption|apply ext0_refl].
    - apply mbind_inv in H. destruct H as (u & s1 & H1 & H).
      assert (Q1 : kinv s1 /\ ext0 s s1).
      { apply mbind_inv in H1. destruct H1 as (c & s0 & Hc & H1). apply lift_inv in Hc. destruct Hc as [_ ->].
        destruct c; [|inversion H1; subst; split; [assumption|apply ext0_refl]].
        apply mbind_inv in H1. destruct H1 as (b & s2 & H2 & H1). inversion H1; subst u s2; clear H1.
        eapply kinv_union_instantiations; [exact Ql|exact Qr|exact Hk|exact Pl|exact Pr| |exact H2]. exact (Forall_inv SC). }
      destruct Q1 as [K1 E1].
      destruct (IH s1 x s' K1 (pat_below_mono _ _ _ (proj1 E1) Pl) (pat_below_mono _ _ _ (proj1 E1) Pr)) as [K2 E2]; [|exact H|].
      + apply Forall_inv_tail in SC. revert SC. apply Forall_impl. intros sb'. apply sub_ok2_ext0. exact E1.
      + split; [exact K2|eapply ext0_trans; eauto].
  Qed.

  Theorem kinv_appliers : forall (l : list (rule * list subst)) s x s', kinv s ->
    Forall (fun rt => pok (r_lhs (fst rt)) /\ pok (r_rhs (fst rt))) l ->
    Forall (fun rt => pat_below (ectr s) (r_lhs (fst rt)) /\ pat_below (ectr s) (r_rhs (fst rt)) /\ Forall (sub_ok2 s) (snd rt)) l ->
    iterM (fun rt : rule * list subst => apply_substs_cond (fst rt) (snd rt)) l s = Ok (x, s') -> kinv s' /\ ext0 s s'.
  Proof.
    induction l as [|rt t IH]; intros s x s' Hk QS SC H; cbn [iterM] in H.
    - inversion H; subst. split; [assumption|apply ext0_refl].
    - apply mbind_inv in H. destruct H as (u & s1 & H1 & H).
      destruct (Forall_inv SC) as (Pl & Pr & So).
      destruct (Forall_inv QS) as (Ql & Qr).
      destruct (kinv_apply_substs_cond _ _ _ _ _ Ql Qr Hk Pl Pr So H1) as [K1 E1].
      destruct (IH s1 x s' K1 (Forall_inv_tail QS)) as [K2 E2]; [|exact H|split; [exact K2|eapply ext0_trans; eauto]].
      apply Forall_inv_tail in SC. revert SC. apply Forall_impl. intros rt' (A & B & C).
      split; [eapply pat_below_mono; [exact (proj1 E1)|exact A]|]. split; [eapply pat_below_mono; [exact (proj1 E1)|exact B]|].
      revert C. apply Forall_impl. intros sb'. apply sub_ok2_ext0. exact E1.
  Qed.
End Appliers.

(* ------------------------------------------------------------------ *)
(* 9. the PSubst case: syn_expr_subst *)

Lemma nullify_all_occ : forall n x, In x (all_occ (nullify n)) -> In x (all_occ n).
Proof.
  intros n x. unfold nullify, map_applied_ids, all_occ. cbn [nargs].
  induction (nargs n) as [|a t IH]; cbn [map flat_map]; [auto|].
  intros H. apply in_app_or in H. apply in_or_app. destruct H as [H|H]; [left|right; apply IH; exact H].
  clear IH. revert H. induction a as [s|y|s b IHb|p]; cbn [all_occ_f]; auto.
  - unfold null_appid. cbn [am values_vec map]. intros [].
  - intros [H|H]; [left; exact H|right; apply IHb; exact H].
Qed.

Lemma ren_f_all_occ : forall g a bd y, In y (all_occ_f (ren_f g bd a)) -> exists b x, In x (all_occ_f a) /\ y = g b x.
Proof.
  intros g. induction a as [s|x0|s b IH|p]; intros bd y H; cbn [ren_f all_occ_f] in *.
  - destruct H as [<-|[]]. eexists _, s. split; [left; reflexivity|reflexivity].
  - cbn [am] in H. unfold ren_vals, values_vec in H. rewrite map_map in H. apply in_map_iff in H.
    destruct H as ([k v] & <- & Hin). cbn [fst snd].
    eexists _, v. split; [|reflexivity]. unfold values_vec. apply in_map_iff. exists (k, v). split; [reflexivity|exact Hin].
  - destruct H as [<-|H]; [exists false, s; split; [left; reflexivity|reflexivity]|].
    destruct (IH _ _ H) as (b0 & x & Hx & ->). exists b0, x. split; [right; exact Hx|reflexivity].
  - destruct H.
Qed.

Lemma ren_all_occ : forall g n y, In y (all_occ (ren g n)) -> exists b x, In x (all_occ n) /\ y = g b x.
Proof.
  intros g n y H. unfold all_occ, ren in H. cbn [nargs] in H. apply in_flat_map in H. destruct H as (a' & Ha' & H).
  apply in_map_iff in Ha'. destruct Ha' as (a & <- & Ha). destruct (ren_f_all_occ _ _ _ _ H) as (b & x & Hx & E).
  exists b, x. split; [|exact E]. unfold all_occ. apply in_flat_map. exists a. split; assumption.
Qed.

Lemma asm_g_cases : forall m b x, asm_g m b x = x \/ In (asm_g m b x) (values_vec m).
Proof.
  intros m b x. unfold asm_g. destruct b; [|left; reflexivity]. destruct (get m x) as [y|] eqn:G; [right|left; reflexivity].
  apply get_in in G. unfold values_vec. apply in_map_iff. exists (x, y). split; [reflexivity|exact G].
Qed.

Lemma get_syn_node_pre : forall s i en, syn_below s -> vpre_in (ectr s) (am i) -> get_syn_node s i = Ok en ->
  forall y, In y (all_occ en) -> y < ectr s \/ y mod 4 <> 1.
Proof.
  intros s i en SB V H y Hy. unfold get_syn_node in H. destruct (get_class s (aid i)) as [c|] eqn:Hc; cbn [bind] in H; [|discriminate].
  apply apply_slotmap_ren in H. subst en. destruct (ren_all_occ _ _ _ Hy) as (b & x & Hx & ->).
  destruct (asm_g_cases (am i) b x) as [E|E]; [rewrite E; left; eapply SB; eauto|apply V; exact E].
Qed.

(* every node of the term has only slots below B or not of the fresh residue *)
Fixpoint rt_pre (B : N) (t : rterm) : Prop :=
  match t with
  | RT n ch => (forall x, In x (all_occ n) -> x < B \/ x mod 4 <> 1) /\
               (fix go (l : list rterm) : Prop := match l with [] => True | c :: r => rt_pre B c /\ go r end) ch
  end.

Lemma rt_pre_iff : forall B n ch, rt_pre B (RT n ch) <-> (forall x, In x (all_occ n) -> x < B \/ x mod 4 <> 1) /\ Forall (rt_pre B) ch.
Proof.
  intros B n ch. cbn [rt_pre]. split; intros [A C]; (split; [exact A|]); clear A.
  - induction ch as [|c r IH]; constructor; [apply C|apply IH; apply C].
  - induction C as [|c r Hc C IH]; [exact I|split; assumption].
Qed.

Lemma rt_pre_mono : forall B B' t, B <= B' -> rt_pre B t -> rt_pre B' t.
Proof.
  intros B B' t L. revert t. fix IH 1. intros [n ch] H. cbn [rt_pre] in H. destruct H as [A C]. cbn [rt_pre]. split.
  - intros x Hx. destruct (A x Hx); [left; lia|right; assumption].
  - clear A. revert C. induction ch as [|c r IHr]; intros C; [exact I|]. destruct C as [C1 C2].
    split; [apply IH; exact C1|apply IHr; exact C2].
Qed.

Lemma get_syn_pre : forall fuel s i t, syn_below s -> vpre_in (ectr s) (am i) -> get_syn_expr fuel s i = Ok t -> rt_pre (ectr s) t.
Proof.
  induction fuel as [|f IH]; intros s i t SB V H; cbn [get_syn_expr] in H; [discriminate|].
  destruct (get_syn_node s i) as [en|] eqn:En; cbn [bind] in H; [|discriminate].
  destruct (mapr (get_syn_expr f s) (app_occ en)) as [cs|] eqn:Ec; cbn [bind] in H; [|discriminate].
  inversion H; subst t; clear H. apply rt_pre_iff. split.
  - intros x Hx. apply nullify_all_occ in Hx. eapply get_syn_node_pre; eauto.
  - apply Forall_forall. intros c Hc. destruct (mapr_in _ _ _ Ec c Hc) as (a & Ha & Fa).
    eapply IH; [exact SB| |exact Fa]. intros v Hv. eapply get_syn_node_pre; eauto. eapply vals_all_occ; eauto.
Qed.

Lemma fill_fresh_vpre_in : forall l m s m' s', vpre_in (ectr s) m -> fill_fresh l m s = Ok (m', s') -> vpre_in (ectr s') m'.
Proof.
  induction l as [|x t IH]; intros m s m' s' V H; cbn [fill_fresh] in H.
  - inversion H; subst. exact V.
  - destruct (contains_key m x); [eapply IH; eauto|].
    apply mbind_inv in H. destruct H as (f & s1 & H1 & H). inversion H1; subst f s1; clear H1.
    eapply IH; [|exact H]. cbn [Model.ctr set_ctr]. intros v Hv. unfold values_vec in Hv. apply in_map_iff in Hv.
    destruct Hv as ([k v'] & Ev & Hin). cbn [snd] in Ev. subst v'. apply in_insert in Hin. destruct Hin as [E|Hin].
    + inversion E; subst. left. lia.
    + destruct (V v); [unfold values_vec; apply in_map_iff; exists (k, v); split; [reflexivity|exact Hin]|left; lia|right; assumption].
Qed.

Lemma synify_app_vpre_in : forall a s a' s', vpre_in (ectr s) (am a) -> synify_app_id a s = Ok (a', s') -> vpre_in (ectr s') (am a').
Proof.
  intros a s a' s' V H. unfold synify_app_id in H.
  apply bind_reads_inv in H. destruct H as (ss & _ & H).
  apply mbind_inv in H. destruct H as (m & s1 & Hm & H). inversion H; subst a' s1; clear H.
  change (fill_fresh ss (am a) s = Ok (m, s')) in Hm. cbn [am]. eapply fill_fresh_vpre_in; eauto.
Qed.

Theorem kinv_do_term_subst : forall re x t s a s', kinv s -> rt_pre (ectr s) re -> inv_ok s t ->
  do_term_subst re x t s = Ok (a, s') -> kinv s' /\ ext0 s s' /\ inv_ok s' a.
Proof.
  fix IH 1. intros [n ch] x t s a s' Hk RP Ct H. cbn [do_term_subst] in H.
  apply rt_pre_iff in RP. destruct RP as [RPn RPc].
  apply mbind_inv in H. destruct H as (l & s1 & H1 & H).
  assert (K : kinv s1 /\ ext0 s s1 /\ Forall (inv_ok s1) l /\ List.length l = List.length (app_occ n)).
  { match type of H1 with ?F ch ?k0 s = _ =>
      assert (KK : forall k z l0 z1, kinv z -> Forall (rt_pre (ectr z)) ch -> inv_ok z t -> F ch k z = Ok (l0, z1) ->
                   kinv z1 /\ ext0 z z1 /\ Forall (inv_ok z1) l0 /\ List.length l0 = k) end.
    { clear H1 H Hk RPc Ct s l s1 a s' RPn. induction ch as [|c r IHr]; intros k z l0 z1 Hk RPc Ct H1.
      - destruct k; [|discriminate]. inversion H1; subst. split; [assumption|]. split; [apply ext0_refl|]. split; [constructor|reflexivity].
      - destruct k as [|k]; [inversion H1; subst; split; [assumption|]; split; [apply ext0_refl|]; split; [constructor|reflexivity]|].
        apply mbind_inv in H1. destruct H1 as (a0 & z2 & Ha & H1).
        apply mbind_inv in H1. destruct H1 as (r0 & z3 & Hr & H1). inversion H1; subst l0 z3; clear H1.
        destruct (IH c x t z a0 z2 Hk (Forall_inv RPc) Ct Ha) as (K2 & E2 & A0).
        destruct (IHr k z2 r0 z1 K2) as (K3 & E3 & R0 & L0); [| |exact Hr|].
        + apply Forall_inv_tail in RPc. revert RPc. apply Forall_impl. intros c0. apply rt_pre_mono. exact (proj1 E2).
        + eapply inv_ok_ext0; eauto.
        + split; [exact K3|]. split; [eapply ext0_trans; eauto|]. split; [|cbn [List.length]; lia].
          constructor; [eapply inv_ok_ext0; eauto|exact R0]. }
    exact (KK _ _ _ _ Hk RPc Ct H1). }
  destruct K as (K1 & E1 & L1 & Len).
  apply mbind_inv in H. destruct H as (app_id & s2 & H2 & H).
  destruct (kinv_eg_add (set_apps n l) s1 app_id s2 K1) as (K2 & E2 & C2 & V2); [| |exact H2|].
  - rewrite app_occ_set_apps by exact Len. revert L1. apply Forall_impl. intros y [Cy _]. exact Cy.
  - intros y Hy. unfold all_occ, set_apps in Hy. cbn [nargs] in Hy. apply set_apps_args_all in Hy.
    destruct Hy as [Hy|(z & Hz & Hy)].
    + destruct (RPn y Hy) as [A|A]; [left; destruct E1 as [L _]; lia|right; exact A].
    + destruct (proj1 (Forall_forall _ _) L1 z Hz) as [_ Vz]. exact (Vz y Hy).
  - pose proof (ext0_trans _ _ _ E1 E2) as E12.
    destruct (appid_eqb app_id x); inversion H; subst a s'; (split; [exact K2|]); (split; [exact E12|]).
    + eapply inv_ok_ext0; eauto.
    + split; assumption.
Qed.

Theorem SES_proved : SES_holds.
Proof.
  intros b x t s a s' Hk Ib _ It H. unfold syn_expr_subst in H.
  apply mbind_inv in H. destruct H as (sb & s1 & H1 & H).
  destruct (kinv_synify_app_id _ _ _ _ H1 Hk) as [K1 E1]. apply ext_ext0 in E1.
  pose proof (synify_app_vpre_in _ _ _ _ (proj2 Ib) H1) as Vsb.
  apply bind_reads_inv in H. destruct H as (term & Ht & H).
  pose proof (get_syn_pre _ _ _ _ (proj2 (proj1 (proj1 K1))) Vsb Ht) as RP.
  destruct (kinv_do_term_subst term x t s1 a s' K1 RP (inv_ok_ext0 _ _ _ E1 It) H) as (K2 & E2 & A2).
  split; [exact K2|]. split; [eapply ext0_trans; eauto|exact A2].
Qed.

(* the statements of MatchFacts.v *)
From SE Require EGraph.MatchFacts.

Lemma sub_ok_sub_ok2 : forall s sb, MatchFacts.sub_ok s sb -> sub_ok2 s sb.
Proof. intros s sb [C B] v a G. split; [eapply C; eauto|]. intros x Hx. left. eapply B; eauto. Qed.

(* restricted to rules without PSubst on either side *)
Theorem appliers_keep_kids_nosubst :
  forall (l : list (rule * list subst)) s x s',
    inv3 s -> m4 s -> kids_ok s ->
    Forall (fun rt : rule * list subst =>
              (nosubst (r_lhs (fst rt)) = true /\ nosubst (r_rhs (fst rt)) = true) /\
              pat_below (ectr s) (r_lhs (fst rt)) /\ pat_below (ectr s) (r_rhs (fst rt)) /\ Forall (MatchFacts.sub_ok s) (snd rt)) l ->
    iterM (fun rt : rule * list subst => apply_substs_cond (fst rt) (snd rt)) l s = Ok (x, s') -> kids_ok s'.
Proof.
  intros l s x s' I3 M K F H.
  refine (proj2 (proj2 (proj1 (kinv_appliers l s x s' (conj I3 (conj M K)) _ _ H)))).
  - revert F. apply Forall_impl. intros rt ((A & B) & _). split; right; assumption.
  - revert F. apply Forall_impl. intros rt (_ & A & B & C). split; [exact A|]. split; [exact B|].
    revert C. apply Forall_impl. intros sb. apply sub_ok_sub_ok2.
Qed.

(* the exact statement of MatchFacts.v, conditional on the PSubst case *)
Theorem appliers_keep_kids_cond : SES_holds -> MatchFacts.appliers_keep_kids.
Proof.
  intros SES l s x s' I3 M K F H.
  refine (proj2 (proj2 (proj1 (kinv_appliers l s x s' (conj I3 (conj M K)) _ _ H)))).
  - apply Forall_forall. intros rt _. split; left; exact SES.
  - revert F. apply Forall_impl. intros rt (A & B & C). split; [exact A|]. split; [exact B|].
    revert C. apply Forall_impl. intros sb. apply sub_ok_sub_ok2.
Qed.

Theorem appliers_keep_kids_proved : MatchFacts.appliers_keep_kids.
Proof. exact (appliers_keep_kids_cond SES_proved). Qed.

Lemma pok_all : forall p, pok p.
Proof. intros p. left. exact SES_proved. Qed.

Theorem kinv_pattern_subst_all : forall p sb s a s', kinv s -> pat_below (ectr s) p -> sub_ok2 s sb ->
  pattern_subst p sb s = Ok (a, s') -> kinv s' /\ ext0 s s' /\ inv_ok s' a.
Proof. intros p sb s a s'. apply kinv_pattern_subst. apply pok_all. Qed.

Theorem kinv_appliers_all : forall (l : list (rule * list subst)) s x s', kinv s ->
  Forall (fun rt => pat_below (ectr s) (r_lhs (fst rt)) /\ pat_below (ectr s) (r_rhs (fst rt)) /\ Forall (sub_ok2 s) (snd rt)) l ->
  iterM (fun rt : rule * list subst => apply_substs_cond (fst rt) (snd rt)) l s = Ok (x, s') -> kinv s' /\ ext0 s s'.
Proof.
  intros l s x s' Hk F H. eapply kinv_appliers; [exact Hk| |exact F|exact H].
  apply Forall_forall. intros rt _. split; apply pok_all.
Qed.

(* ------------------------------------------------------------------ *)
(* 10. add_expr, run_ops, reachable states *)

Theorem kinv_add_expr : forall t s a s', kinv s -> rt_wf t -> rt_pre (ectr s) t ->
  add_expr t s = Ok (a, s') -> kinv s' /\ ext0 s s' /\ inv_ok s' a.
Proof.
  fix IH 1. intros [n ch] s a s' Hk WF RP H. rewrite add_expr_unfold in H.
  apply rt_wf_iff in WF. destruct WF as [Len WFc]. apply rt_pre_iff in RP. destruct RP as [RPn RPc].
  apply mbind_inv in H. destruct H as (l & s1 & Hgo & H).
  assert (G : kinv s1 /\ ext0 s s1 /\ Forall (inv_ok s1) l /\ List.length l = List.length ch).
  { clear H Len RPn. revert s l s1 Hk RPc Hgo. induction ch as [|c r IHr]; intros s l s1 Hk RPc Hgo; cbn [add_children] in Hgo.
    - inversion Hgo; subst. split; [assumption|]. split; [apply ext0_refl|]. split; [constructor|reflexivity].
    - apply mbind_inv in Hgo. destruct Hgo as (a0 & s2 & Ha & Hgo).
      apply mbind_inv in Hgo. destruct Hgo as (r0 & s3 & Hr & Hgo). inversion Hgo; subst l s3; clear Hgo.
      destruct (IH c s a0 s2 Hk (Forall_inv WFc) (Forall_inv RPc) Ha) as (K2 & E2 & A0).
      destruct (IHr (Forall_inv_tail WFc) s2 r0 s1 K2) as (K3 & E3 & R0 & L0); [|exact Hr|].
      + apply Forall_inv_tail in RPc. revert RPc. apply Forall_impl. intros c0. apply rt_pre_mono. exact (proj1 E2).
      + split; [exact K3|]. split; [eapply ext0_trans; eauto|]. split; [|cbn [List.length]; lia].
        constructor; [eapply inv_ok_ext0; eauto|exact R0]. }
  destruct G as (K1 & E1 & L1 & Len1).
  destruct (Nat.ltb _ _); [discriminate|].
  destruct (kinv_eg_add (set_apps n l) s1 a s' K1) as (K2 & E2 & C2 & V2); [| |exact H|].
  - rewrite app_occ_set_apps by lia. revert L1. apply Forall_impl. intros y [Cy _]. exact Cy.
  - intros y Hy. unfold all_occ, set_apps in Hy. cbn [nargs] in Hy. apply set_apps_args_all in Hy.
    destruct Hy as [Hy|(z & Hz & Hy)].
    + destruct (RPn y Hy) as [A|A]; [left; destruct E1 as [L _]; lia|right; exact A].
    + destruct (proj1 (Forall_forall _ _) L1 z Hz) as [_ Vz]. exact (Vz y Hy).
  - split; [exact K2|]. split; [eapply ext0_trans; eauto|]. split; assumption.
Qed.

Theorem kinv_run_ops : forall terms ops hs s hs' s', kinv s -> Forall (covers s) hs ->
  Forall (fun t => rt_wf t /\ rt_pre (ectr s) t) terms ->
  run_ops terms ops hs s = Ok (hs', s') -> kinv s' /\ Forall (covers s') hs' /\ ectr s <= ectr s'.
Proof.
  intros terms. induction ops as [|o t IH]; intros hs s hs' s' Hk Hc HT H; cbn [run_ops] in H.
  - inversion H; subst. split; [assumption|]. split; [assumption|lia].
  - destruct o as [k|i j just].
    + destruct (nth_opt terms k) as [tm|] eqn:Ek; [|discriminate].
      apply mbind_inv in H. destruct H as (a & s1 & H1 & H).
      destruct (proj1 (Forall_forall _ _) HT tm (nth_opt_In _ _ _ Ek)) as [WF RP].
      destruct (kinv_add_expr tm s a s1 Hk WF RP H1) as (K1 & E01 & Ca).
      destruct (IH (hs ++ [a]) s1 hs' s' K1) as (K' & C' & L'); [| |exact H|].
      * apply Forall_app. split; [|constructor; [exact (proj1 Ca)|constructor]].
        revert Hc. apply Forall_impl. intros x. apply covers_ext0. assumption.
      * revert HT. apply Forall_impl. intros t0 [A B]. split; [exact A|]. eapply rt_pre_mono; [exact (proj1 E01)|exact B].
      * split; [exact K'|]. split; [exact C'|]. destruct E01 as [L _]. lia.
    + destruct (nth_opt hs i) as [a|] eqn:Ei; [|discriminate]. destruct (nth_opt hs j) as [b|] eqn:Ej; [|discriminate].
      apply mbind_inv in H. destruct H as (u & s1 & H1 & H).
      pose proof (proj1 (Forall_forall _ _) Hc a (nth_opt_In _ _ _ Ei)) as Ca.
      pose proof (proj1 (Forall_forall _ _) Hc b (nth_opt_In _ _ _ Ej)) as Cb.
      destruct (kinv_eg_union a b s u s1 Hk Ca Cb H1) as [K1 E1].
      destruct (IH hs s1 hs' s' K1) as (K' & C' & L'); [| |exact H|].
      * revert Hc. apply Forall_impl. intros x. apply covers_ext. assumption.
      * revert HT. apply Forall_impl. intros t0 [A B]. split; [exact A|]. eapply rt_pre_mono; [exact (proj1 E1)|exact B].
      * split; [exact K'|]. split; [exact C'|]. destruct E1 as [L _]. lia.
Qed.

Theorem kinv_empty : kinv empty_egraph.
Proof. split; [exact inv3_empty|]. split; [exact m4_empty|exact kids_ok_empty]. Qed.

(* every state reached from the empty e-graph by a history over well-formed terms whose slots are 0 or not 1 mod 4 *)
Theorem reachable_kinv : forall terms ops hs s,
  Forall (fun t => rt_wf t /\ rt_pre 1 t) terms ->
  run_ops terms ops [] empty_egraph = Ok (hs, s) -> kinv s /\ Forall (covers s) hs.
Proof.
  intros terms ops hs s HT H.
  destruct (kinv_run_ops terms ops [] empty_egraph hs s kinv_empty (Forall_nil _) HT H) as (A & B & _). auto.
Qed.

Corollary reachable_kids_ok : forall terms ops hs s,
  Forall (fun t => rt_wf t /\ rt_pre 1 t) terms ->
  run_ops terms ops [] empty_egraph = Ok (hs, s) -> kids_ok s.
Proof. intros terms ops hs s HT H. exact (proj2 (proj2 (proj1 (reachable_kinv _ _ _ _ HT H)))). Qed.

(* ------------------------------------------------------------------ *)
Print Assumptions kids_ok_empty.
Print Assumptions kids_ok_frame.
Print Assumptions kids_ok_frame_add.
Print Assumptions ssub_uint.
Print Assumptions kids_ok_move_to.
Print Assumptions kids_ok_shrink_slots.
Print Assumptions kids_ok_union_leaders.
Print Assumptions kids_ok_union_internal.
Print Assumptions kids_ok_uint.
Print Assumptions kids_apply.
Print Assumptions wshape_kentry.
Print Assumptions pre_shape_kids.
Print Assumptions shape_kentry.
Print Assumptions kids_ok_handle_shrink.
Print Assumptions kids_ok_handle_congruence.
Print Assumptions kids_ok_determine_self_symmetries.
Print Assumptions kids_hp_loop.
Print Assumptions kids_ok_handle_pending.
Print Assumptions kinv_rebuild.
Print Assumptions kids_ok_rebuild.
Print Assumptions kinv_eg_union.
Print Assumptions kids_ok_eg_union.
Print Assumptions kinv_mk_singleton.
Print Assumptions kinv_add_internal.
Print Assumptions kinv_eg_add.
Print Assumptions syn_kids.
Print Assumptions kinv_pattern_subst.
Print Assumptions kinv_union_instantiations.
Print Assumptions kinv_apply_substs_cond.
Print Assumptions kinv_appliers.
Print Assumptions appliers_keep_kids_nosubst.
Print Assumptions appliers_keep_kids_cond.
Print Assumptions SES_proved.
Print Assumptions appliers_keep_kids_proved.
Print Assumptions kinv_pattern_subst_all.
Print Assumptions kinv_appliers_all.
Print Assumptions kinv_add_expr.
Print Assumptions kinv_run_ops.
Print Assumptions reachable_kinv.
Print Assumptions reachable_kids_ok.
