(* EGraph/LeafFrame.v — the rebuild inside mk_singleton_class (one pending entry: the shape of the new node, stored in
   the new class i) only touches the class i: the union core, run on invocations of a class i that is its own leader,
   is used by no node and is pointed to by no other union-find entry, is confined to i. *)
From SE Require Import Slots.SlotMapFacts Lang.LangFacts Lang.ShapeFacts
  EGraph.Model EGraph.ModelFacts EGraph.ModelMachine EGraph.UnionFindFacts EGraph.InvariantFacts
  EGraph.UnionInvariantFacts EGraph.HashconsFacts EGraph.NoErrorShape EGraph.LeafHit EGraph.LeafFrameDefs.
Require Import ZArith Lia ZifyBool ZifyN ZifyNat List. Import ListNotations.

Local Notation ectr := Model.ctr.
Local Notation keep := LeafFrameDefs.keep.

(* ------------------------------------------------------------------ *)
(* 1. the state predicate and the frame relation *)

Definition csim (c c' : eclass) : Prop :=
  c_nodes c' = c_nodes c /\ c_slots c' = c_slots c /\ c_group c' = c_group c /\ c_syn c' = c_syn c.

Lemma csim_refl : forall c, csim c c.
Proof. intros c. repeat split. Qed.
Lemma csim_trans : forall a b c, csim a b -> csim b c -> csim a c.
Proof. intros a b c (A1 & A2 & A3 & A4) (B1 & B2 & B3 & B4). repeat split; congruence. Qed.

(* i is its own leader, used by no node, pointed to by no other class; nothing is pending *)
Definition own (i : N) (s : egraph) : Prop :=
  uleader (unionfind s) i /\
  (exists c, get_class s i = Ok c /\ c_usages c = []) /\
  (forall j e, j <> i -> uentry (unionfind s) j = Some e -> aid e <> i) /\
  pending s = [].

(* s' differs from s only in the class i, the union-find entry of i and the counter *)
Definition fr (i : N) (s s' : egraph) : Prop :=
  ectr s <= ectr s' /\ lc s' = lc s /\ lu s' = lu s /\
  (forall j, j <> i -> uentry (unionfind s') j = uentry (unionfind s) j) /\
  (forall j, j <> i -> get_class s' j = get_class s j) /\
  hashcons s' = hashcons s.

Lemma fr_refl : forall i s, fr i s s.
Proof. intros i s. unfold fr. repeat split; auto. lia. Qed.

Lemma fr_trans : forall i a b c, fr i a b -> fr i b c -> fr i a c.
Proof.
  intros i a b c (A1 & A2 & A3 & A4 & A5 & A6) (B1 & B2 & B3 & B4 & B5 & B6). unfold fr.
  split; [lia|]. split; [congruence|]. split; [congruence|]. split; [|split].
  - intros j Hj. rewrite (B4 j Hj). apply A4. exact Hj.
  - intros j Hj. rewrite (B5 j Hj). apply A5. exact Hj.
  - congruence.
Qed.

Lemma only_i_fr : forall i shm s0 s s', only_i i shm s0 s -> fr i s s' -> own i s' -> only_i i shm s0 s'.
Proof.
  intros i shm s0 s s' (A1 & A2 & A3 & A4 & A5 & A6 & A7 & A8 & A9) (B1 & B2 & B3 & B4 & B5 & B6) (O1 & O2 & O3 & O4).
  unfold only_i. split; [lia|]. split; [congruence|]. split; [congruence|].
  split; [intros j Hj; rewrite (B4 j Hj); apply A4; exact Hj|]. split; [exact O1|].
  split; [|split; [|split]].
  - intros j c Hj Hc. destruct (A6 j c Hj Hc) as (c' & Hc' & R). exists c'. rewrite (B5 j Hj). split; assumption.
  - intros sh0 Hsh. rewrite B6. apply A7. exact Hsh.
  - rewrite B6. exact A8.
  - exact O4.
Qed.

Lemma keep_fr : forall i s0 s s', keep i s0 s -> fr i s s' -> keep i s0 s'.
Proof.
  intros i s0 s s' (K1 & K2) (B1 & B2 & B3 & B4 & B5 & B6). split.
  - intros sh0 j Hj Hne. rewrite B6. apply K1; assumption.
  - intros j c Hne Hc. destruct (K2 j c Hne Hc) as (c' & Hc' & R). exists c'. rewrite (B5 j Hne). split; assumption.
Qed.

Lemma keep_refl : forall i s, keep i s s.
Proof. intros i s. split; [auto|]. intros j c _ Hc. exists c. auto. Qed.

Lemma keep_trans : forall i a b c, keep i a b -> keep i b c -> keep i a c.
Proof.
  intros i a b c (A1 & A2) (B1 & B2). split.
  - intros sh0 j Hj Hne. apply B1; [|exact Hne]. apply A1; assumption.
  - intros j x Hne Hx. destruct (A2 j x Hne Hx) as (y & Hy & Y1 & Y2).
    destruct (B2 j y Hne Hy) as (z & Hz & Z1 & Z2). exists z. split; [exact Hz|]. split; congruence.
Qed.

(* (1) of the exports *)
Lemma keep_leaf_entry : forall i s s' sh0 j b sl, keep i s s' -> leaf_entry s sh0 = Some (j, b, sl) -> j <> i ->
  leaf_entry s' sh0 = Some (j, b, sl).
Proof.
  intros i s s' sh0 j b sl (K1 & K2) H Hne. unfold leaf_entry in H.
  destruct (na_get (hashcons s) sh0) as [j0|] eqn:Hj; [|discriminate].
  destruct (get_class s j0) as [c|] eqn:Hc; [|discriminate].
  destruct (na_get (c_nodes c) sh0) as [[b0 src]|] eqn:Hn; [|discriminate].
  inversion H; subst j0 b0 sl; clear H.
  destruct (K2 j c Hne Hc) as (c' & Hc' & N' & S').
  unfold leaf_entry. rewrite (K1 sh0 j Hj Hne), Hc', N', Hn, S'. reflexivity.
Qed.

(* ------------------------------------------------------------------ *)
(* 2. primitive updates *)

Lemma upd_class_full : forall i f s x s', upd_class i f s = Ok (x, s') ->
  exists c, get_class s i = Ok c /\ get_class s' i = Ok (f c) /\ (forall j, j <> i -> get_class s' j = get_class s j) /\
    unionfind s' = unionfind s /\ hashcons s' = hashcons s /\ pending s' = pending s /\ ectr s' = ectr s /\ lc s' = lc s.
Proof.
  intros i f s x s' H. destruct (upd_class_views _ _ _ _ _ H) as (c & Hc & Hc' & Ho & U & Hh & P).
  exists c. repeat (split; [assumption|]).
  apply upd_class_inv in H. destruct H as (c1 & _ & ->). cbn [Model.ctr classes set_classes].
  split; [reflexivity|]. apply set_nth_length.
Qed.

Lemma usages_iter_frame : forall (F : list node -> list node) l s x s',
  iterM (fun r => upd_class r (fun c => with_usages c (F (c_usages c)))) l s = Ok (x, s') ->
  unionfind s' = unionfind s /\ hashcons s' = hashcons s /\ pending s' = pending s /\ ectr s' = ectr s /\ lc s' = lc s /\
  (forall j, ~ In j l -> get_class s' j = get_class s j) /\
  (forall j c, get_class s j = Ok c -> exists c', get_class s' j = Ok c' /\ csim c c').
Proof.
  intros F. induction l as [|r t IH]; intros s x s' H; cbn [iterM] in H.
  - inversion H; subst. do 6 (split; [reflexivity|]). intros j c Hc. exists c. split; [exact Hc|apply csim_refl].
  - apply mbind_inv in H. destruct H as (u & s1 & H1 & H).
    destruct (upd_class_full _ _ _ _ _ H1) as (c0 & Hc0 & Hc0' & Ho & U1 & Hh1 & P1 & C1 & L1).
    destruct (IH _ _ _ H) as (U & Hh & P & C & L & G & Sm).
    split; [congruence|]. split; [congruence|]. split; [congruence|]. split; [congruence|]. split; [congruence|]. split.
    + intros j Hj. rewrite G by (intros Hin; apply Hj; right; exact Hin).
      apply Ho. intros ->. apply Hj. left. reflexivity.
    + intros j c Hc. destruct (N.eq_dec j r) as [->|Hj].
      * rewrite Hc0 in Hc. inversion Hc; subst c0. destruct (Sm r _ Hc0') as (c' & Hc' & R). exists c'. split; [exact Hc'|].
        eapply csim_trans; [|exact R]. repeat split.
      * rewrite <- (Ho j Hj) in Hc. exact (Sm j c Hc).
Qed.

Lemma unionfind_set_in : forall i p s x s', unionfind_set i p s = Ok (x, s') -> (N.to_nat i < lu s)%nat ->
  s' = set_uf s (set_nth (unionfind s) (N.to_nat i) p).
Proof.
  unfold unionfind_set. intros i p s x s' H L.
  destruct (Nat.eqb (lu s) (N.to_nat i)) eqn:E1; [apply Nat.eqb_eq in E1; lia|].
  destruct (Nat.ltb (N.to_nat i) (lu s)) eqn:E2; [|discriminate]. inversion H. reflexivity.
Qed.

Lemma own_set_ctr : forall i s c, own i s -> own i (set_ctr s c).
Proof. intros i s c H. exact H. Qed.

(* find_applied_id on an invocation of i returns an invocation of i *)
Lemma find_applied_id_own : forall i s a b, own i s -> aid a = i -> find_applied_id s a = Ok b -> aid b = i.
Proof.
  intros i s a b ((e & He & Hi) & _) Ha H. unfold find_applied_id in H.
  rewrite Ha, (unionfind_get_leader s i e He Hi) in H. cbn [bind] in H. inversion H. cbn [aid]. exact Hi.
Qed.

(* find_applied_id on an invocation of another class never returns an invocation of i *)
Definition no_ptr (i : N) (u : list appid) : Prop := forall j e, j <> i -> uentry u j = Some e -> aid e <> i.

Lemma uf_get_go_no_i : forall i u, no_ptr i u -> forall fuel j p, uf_get_go fuel u j = Ok p -> j <> i -> aid p <> i.
Proof.
  intros i u Hu. induction fuel as [|f IH]; intros j p H Hj; [discriminate|].
  cbn [uf_get_go] in H. destruct (nth_opt u (N.to_nat j)) as [e|] eqn:He; [|discriminate].
  destruct (aid e =? j) eqn:E.
  - inversion H; subst p. apply N.eqb_eq in E. congruence.
  - destruct (uf_get_go f u (aid e)) as [l|] eqn:Hl; [|discriminate]. cbn [bind] in H. inversion H; subst p. cbn [aid].
    apply (IH _ _ Hl). exact (Hu j e Hj He).
Qed.

Lemma find_applied_id_no_i : forall i s a b, no_ptr i (unionfind s) -> find_applied_id s a = Ok b -> aid a <> i -> aid b <> i.
Proof.
  intros i s a b Hu H Ha. unfold find_applied_id, unionfind_get in H.
  destruct (uf_get_go _ _ _) as [p|] eqn:Hp; [|discriminate]. cbn [bind] in H. inversion H. cbn [aid].
  exact (uf_get_go_no_i i _ Hu _ _ _ Hp Ha).
Qed.

Lemma find_enode_no_i : forall i s n n', no_ptr i (unionfind s) -> find_enode s n = Ok n' ->
  ~ In i (node_ids n) -> ~ In i (node_ids n').
Proof.
  intros i s n n' Hu H Hn. unfold find_enode in H.
  destruct (mapr (find_applied_id s) (app_occ n)) as [l|] eqn:El; [|discriminate]. cbn [bind] in H. inversion H; subst n'.
  unfold node_ids. rewrite app_occ_set_apps by (exact (mapr_length _ _ _ El)).
  intros Hin. apply in_map_iff in Hin. destruct Hin as (y & Hy & Iy).
  destruct (mapr_in _ _ _ El y Iy) as (x0 & Ix & Fx).
  apply (find_applied_id_no_i i s x0 y Hu Fx); [|exact Hy].
  intros Hx. apply Hn. unfold node_ids. apply in_map_iff. exists x0. split; assumption.
Qed.

Lemma shape_no_i : forall i s n sh b, no_ptr i (unionfind s) -> shape s n = Ok (sh, b) ->
  ~ In i (node_ids n) -> ~ In i (node_ids sh).
Proof.
  intros i s n sh b Hu H Hn. unfold shape in H.
  destruct (pre_shape s n) as [p|] eqn:Ep; [|discriminate]. cbn [bind] in H.
  rewrite (wshape_ids _ _ _ H). unfold pre_shape in Ep.
  destruct (find_enode s n) as [n1|] eqn:E1; [|discriminate]. cbn [bind] in Ep.
  destruct (variants s n1) as [vs|] eqn:Ev; [|discriminate]. cbn [bind] in Ep.
  destruct (min_variant_in _ _ _ Ep) as [Hin|(k & Hk)]; [|discriminate].
  rewrite (variants_ids _ _ _ _ Ev Hin). exact (find_enode_no_i i s n n1 Hu E1 Hn).
Qed.

(* ------------------------------------------------------------------ *)
(* 3. Hoare triples over `own i`, with the frame `fr i` and a postcondition on the value *)

Definition tq (i : N) {A} (m : M A) (Q : A -> Prop) : Prop :=
  forall s x s', own i s -> m s = Ok (x, s') -> own i s' /\ fr i s s' /\ Q x.
Definition tp (i : N) {A} (m : M A) : Prop := tq i m (fun _ => True).

Section Tq.
  Variable i : N.

  Lemma tq_ret : forall A (a : A) (Q : A -> Prop), Q a -> tq i (ret a) Q.
  Proof. intros A a Q Ha s x s' Ho H. inversion H; subst. split; [exact Ho|]. split; [apply fr_refl|exact Ha]. Qed.
  Lemma tp_ret : forall A (a : A), tp i (ret a).
  Proof. intros. apply tq_ret. exact I. Qed.
  Lemma tq_fail : forall A e (Q : A -> Prop), tq i (@fail A e) Q.
  Proof. intros A e Q s x s' Ho H. discriminate. Qed.
  Lemma tq_lift : forall A (r : res A) (Q : A -> Prop), (forall a, r = Ok a -> Q a) -> tq i (Model.lift r) Q.
  Proof.
    intros A r Q Hq s x s' Ho H. apply lift_inv in H. destruct H as [Hr ->].
    split; [exact Ho|]. split; [apply fr_refl|apply Hq; exact Hr].
  Qed.
  Lemma tp_lift : forall A (r : res A), tp i (Model.lift r).
  Proof. intros. apply tq_lift. intros; exact I. Qed.
  Lemma tq_reads : forall A (f : egraph -> res A) (Q : A -> Prop),
    (forall s a, own i s -> f s = Ok a -> Q a) -> tq i (reads f) Q.
  Proof.
    intros A f Q Hq s x s' Ho H. unfold reads in H. destruct (f s) as [a|] eqn:E; [|discriminate]. inversion H; subst.
    split; [exact Ho|]. split; [apply fr_refl|exact (Hq _ _ Ho E)].
  Qed.
  Lemma tp_reads : forall A (f : egraph -> res A), tp i (reads f).
  Proof. intros. apply tq_reads. intros; exact I. Qed.
  Lemma tq_bind : forall A C (m : M A) (k : A -> M C) (Q : A -> Prop) (Q' : C -> Prop),
    tq i m Q -> (forall a, Q a -> tq i (k a) Q') -> tq i (mbind m k) Q'.
  Proof.
    intros A C m k Q Q' Hm Hk s x s' Ho H. apply mbind_inv in H. destruct H as (a & s1 & H1 & H).
    destruct (Hm _ _ _ Ho H1) as (O1 & F1 & Qa). destruct (Hk a Qa _ _ _ O1 H) as (O2 & F2 & Qx).
    split; [exact O2|]. split; [exact (fr_trans _ _ _ _ F1 F2)|exact Qx].
  Qed.
  Lemma tp_bind : forall A C (m : M A) (k : A -> M C) (Q' : C -> Prop),
    tp i m -> (forall a, tq i (k a) Q') -> tq i (mbind m k) Q'.
  Proof. intros A C m k Q' Hm Hk. eapply tq_bind; [exact Hm|]. intros a _. apply Hk. Qed.
  Lemma tp_iterM : forall A (f : A -> M unit) l, (forall x, tp i (f x)) -> tp i (iterM f l).
  Proof.
    intros A f l Hf. induction l as [|a t IH]; cbn [iterM]; [apply tp_ret|].
    apply tp_bind; [apply Hf|]. intros _. exact IH.
  Qed.
  Lemma tp_with_ctr : forall A (f : N -> A * N), (forall c, c <= snd (f c)) -> tp i (with_ctr f).
  Proof.
    intros A f Hf s x s' Ho H. pose proof (with_ctr_spec _ _ _ _ _ H) as ->.
    split; [apply own_set_ctr; exact Ho|]. split; [|exact I].
    unfold fr. cbn [Model.ctr set_ctr unionfind classes hashcons]. split; [apply Hf|]. repeat split; reflexivity.
  Qed.
  Lemma tp_fresh : tp i fresh.
  Proof.
    intros s x s' Ho H. unfold fresh in H. inversion H; subst. split; [apply own_set_ctr; exact Ho|]. split; [|exact I].
    unfold fr. cbn [Model.ctr set_ctr unionfind classes hashcons]. split; [lia|]. repeat split; reflexivity.
  Qed.
  Lemma tp_fill_fresh : forall l m, tp i (fill_fresh l m).
  Proof.
    induction l as [|a t IH]; intros m; cbn [fill_fresh]; [apply tp_ret|].
    destruct (contains_key m a); [apply IH|]. apply tp_bind; [apply tp_fresh|]. intros f. apply IH.
  Qed.

  Lemma tp_upd_class : forall f, (forall c, c_usages (f c) = c_usages c) -> tp i (upd_class i f).
  Proof.
    intros f Hf s x s' (O1 & (c & Hc & Hu) & O3 & O4) H.
    destruct (upd_class_full _ _ _ _ _ H) as (c0 & Hc0 & Hc0' & Ho & U & Hh & P & C & L).
    rewrite Hc in Hc0. inversion Hc0; subst c0. split; [|split; [|exact I]].
    - unfold own. rewrite U, P. split; [exact O1|]. split; [|split; assumption].
      exists (f c). split; [exact Hc0'|]. rewrite Hf. exact Hu.
    - unfold fr. rewrite U, Hh, C, L. split; [lia|]. repeat split; auto.
  Qed.

  Lemma tp_touched_class : forall ty, tp i (touched_class i ty).
  Proof.
    intros ty s x s' Ho H. unfold touched_class in H. apply bind_reads_inv in H. destruct H as (c & Hc & H).
    destruct Ho as (O1 & (c0 & Hc0 & Hu) & O3 & O4). rewrite Hc0 in Hc. inversion Hc; subst c. rewrite Hu in H.
    cbn [iterM] in H. inversion H; subst. split; [|split; [apply fr_refl|exact I]].
    split; [exact O1|]. split; [eauto|]. split; assumption.
  Qed.

  Lemma tp_record_redundancy_witness : forall cap, tp i (record_redundancy_witness i cap).
  Proof.
    intros cap s x s' Ho H. unfold record_redundancy_witness in H. apply bind_reads_inv in H. destruct H as (ss & _ & H).
    destruct Ho as ((e & He & Hi) & (c & Hc & Hu) & O3 & O4). pose proof (uentry_lt _ _ _ He) as L.
    apply unionfind_set_in in H; [|exact L]. subst s'. split; [|split; [|exact I]].
    - unfold own. cbn [unionfind set_uf pending]. split; [|split; [|split]].
      + eexists. unfold uentry. rewrite nth_opt_set_same by exact L. split; [reflexivity|reflexivity].
      + exists c. split; [exact Hc|exact Hu].
      + intros j e0 Hj He0. rewrite uentry_set_other in He0 by exact Hj. exact (O3 j e0 Hj He0).
      + exact O4.
    - unfold fr. cbn [unionfind set_uf Model.ctr classes hashcons]. split; [lia|]. split; [reflexivity|].
      split; [apply set_nth_length|]. split; [|split; reflexivity].
      intros j Hj. apply uentry_set_other. exact Hj.
  Qed.

  Lemma tq_pc_congruence : forall a b,
    tq i (pc_congruence a b) (fun ab => fst ab = snd a /\ aid (snd ab) = aid (snd b)).
  Proof.
    intros a b. unfold pc_congruence.
    apply tp_bind; [apply tp_lift|]. intros sa. apply tp_bind; [apply tp_lift|]. intros sb. cbv zeta.
    apply tp_bind; [apply tp_with_ctr; intros c; apply ctr_step_le, compose_fresh_step|]. intros m.
    apply tp_bind; [apply tp_with_ctr; intros c; apply ctr_step_le, apply_slotmap_fresh_step|]. intros u.
    apply tp_bind; [apply tp_with_ctr; intros c; apply ctr_step_le, compose_fresh_step|]. intros bm.
    apply tq_ret. split; reflexivity.
  Qed.

  (* the union core on invocations of i *)
  Section Ui.
    Variable ui : appid -> appid -> M bool.
    Hypothesis H_ui : forall l r, aid l = i -> aid r = i -> tp i (ui l r).

    Lemma tp_shrink_slots : forall from cap, aid from = i -> tp i (shrink_slots ui from cap).
    Proof.
      intros from cap Hf. unfold shrink_slots. rewrite Hf.
      apply tp_bind; [apply tp_lift|]. intros origcap. cbv zeta.
      apply tp_bind; [apply tp_record_redundancy_witness|]. intros _.
      apply tp_bind; [apply tp_reads|]. intros c.
      apply tp_bind; [apply tp_lift|]. intros flags.
      apply tp_bind; [apply tp_lift|]. intros g.
      apply tp_bind; [apply tp_upd_class; intros c0; reflexivity|]. intros _.
      apply tp_bind; [apply tp_touched_class|]. intros _.
      apply tp_iterM. intros pp.
      apply tp_bind; [apply tp_reads|]. intros sl.
      apply tp_bind; [apply tp_lift|]. intros ps.
      apply tp_bind; [apply H_ui; reflexivity|]. intros _. apply tp_ret.
    Qed.

    Lemma tp_union_leaders : forall l r, aid l = i -> aid r = i -> tp i (union_leaders ui l r).
    Proof.
      intros l r Hl Hr. unfold union_leaders.
      apply tp_bind; [apply tp_reads|]. intros e. destruct e; [apply tp_ret|]. cbv zeta.
      destruct (negb (sset_eqb (values (am l)) (sset_inter (values (am l)) (values (am r))))).
      { apply tp_bind; [apply tp_shrink_slots; exact Hl|]. intros _.
        apply tp_bind; [apply H_ui; assumption|]. intros _. apply tp_ret. }
      destruct (negb (sset_eqb (values (am r)) (sset_inter (values (am l)) (values (am r))))).
      { apply tp_bind; [apply tp_shrink_slots; exact Hr|]. intros _.
        apply tp_bind; [apply H_ui; assumption|]. intros _. apply tp_ret. }
      rewrite Hl, Hr, N.eqb_refl.
      apply tp_bind; [apply tp_reads|]. intros c.
      apply tp_bind; [apply tp_lift|]. intros b. destruct b; [apply tp_ret|].
      apply tp_bind; [apply tp_lift|]. intros g.
      apply tp_bind; [apply tp_upd_class; intros c0; reflexivity|]. intros _.
      apply tp_bind; [apply tp_touched_class|]. intros _. apply tp_ret.
    Qed.

    Lemma tp_union_internal_body : forall l r, aid l = i -> aid r = i -> tp i (union_internal_body ui l r).
    Proof.
      intros l r Hl Hr. unfold union_internal_body.
      eapply tq_bind; [apply (tq_reads _ _ (fun l' => aid l' = i)); intros s a Ho H; exact (find_applied_id_own i s l a Ho Hl H)|].
      intros l' Hl'.
      eapply tq_bind; [apply (tq_reads _ _ (fun r' => aid r' = i)); intros s a Ho H; exact (find_applied_id_own i s r a Ho Hr H)|].
      intros r' Hr'. apply tp_union_leaders; assumption.
    Qed.
  End Ui.

  Lemma tp_union_internal : forall fuel l r, aid l = i -> aid r = i -> tp i (union_internal fuel l r).
  Proof.
    induction fuel as [|f IH]; intros l r Hl Hr; cbn [union_internal]; [apply tq_fail|].
    apply tp_union_internal_body; [exact IH|exact Hl|exact Hr].
  Qed.

  Lemma tp_uint : forall l r, aid l = i -> aid r = i -> tp i (uint l r).
  Proof. intros l r. unfold uint. apply tp_union_internal. Qed.

  Lemma pc_from_src_id_own : forall s pc, own i s -> pc_from_src_id s i = Ok pc -> aid (snd pc) = i.
  Proof.
    intros s pc Ho H. unfold pc_from_src_id in H.
    destruct (get_class s i) as [c|]; [|discriminate]. cbn [bind] in H. cbv zeta in H.
    destruct (apply_slotmap false _ (c_syn c)) as [n|]; [|discriminate]. cbn [bind] in H.
    destruct (pre_shape s n) as [nd|]; [|discriminate]. cbn [bind] in H.
    destruct (find_applied_id s _) as [pai|] eqn:E; [|discriminate]. cbn [bind] in H.
    inversion H; subst pc. cbn [snd]. apply (find_applied_id_own i s _ pai Ho) in E; [exact E|reflexivity].
  Qed.

  Lemma tp_handle_shrink : tp i (handle_shrink_in_upwards_merge i).
  Proof.
    unfold handle_shrink_in_upwards_merge.
    eapply tq_bind; [apply (tq_reads _ _ (fun pc => aid (snd pc) = i)); intros s pc Ho H; exact (pc_from_src_id_own s pc Ho H)|].
    intros pc1 Hpc. apply tp_bind; [apply tp_reads|]. intros n2.
    eapply tq_bind; [apply tq_pc_congruence|]. intros [a b] [Ha Hb]. cbn [fst snd] in Ha, Hb.
    apply tp_shrink_slots; [intros l r; apply tp_uint|]. subst a. exact Hpc.
  Qed.

  Lemma tp_determine_self_symmetries : tp i (determine_self_symmetries i).
  Proof.
    unfold determine_self_symmetries.
    eapply tq_bind; [apply (tq_reads _ _ (fun pc => aid (snd pc) = i)); intros s pc Ho H; exact (pc_from_src_id_own s pc Ho H)|].
    intros pc1 Hpc. apply tp_bind; [apply tp_lift|]. intros w. cbv zeta.
    apply tp_bind; [apply tp_reads|]. intros vs. apply tp_iterM. intros pn2.
    apply tp_bind; [apply tp_lift|]. intros w2. destruct (node_eqb (fst w) (fst w2)); [|apply tp_ret].
    eapply tq_bind; [apply tq_pc_congruence|]. intros [a b] [Ha Hb]. cbn [fst snd] in Ha, Hb |- *.
    apply tp_bind; [apply tp_uint; [subst a; exact Hpc|rewrite Hb; exact Hpc]|]. intros _. apply tp_ret.
  Qed.
End Tq.

(* ------------------------------------------------------------------ *)
(* 4. handle_pending on the single pending entry *)

Lemma own_no_ptr : forall i s, own i s -> no_ptr i (unionfind s).
Proof. intros i s (_ & _ & O3 & _). exact O3. Qed.

Lemma only_i_no_ptr : forall i shm s0 s, no_ptr i (unionfind s0) -> only_i i shm s0 s -> no_ptr i (unionfind s).
Proof.
  intros i shm s0 s H0 (_ & _ & _ & A4 & _) j e Hj He. rewrite (A4 j Hj) in He. exact (H0 j e Hj He).
Qed.

Lemma FE_no_i : forall i shm s0 nd e, no_ptr i (unionfind s0) -> ~ In i (node_ids nd) -> FE i shm s0 nd e ->
  ~ In i (node_ids e).
Proof.
  intros i shm s0 nd e H0 Hnd Hfe. induction Hfe as [sX e Ho Hf|sX e e' Hfe IH Ho Hf].
  - exact (find_enode_no_i i sX nd e (only_i_no_ptr _ _ _ _ H0 Ho) Hf Hnd).
  - exact (find_enode_no_i i sX e e' (only_i_no_ptr _ _ _ _ H0 Ho) Hf IH).
Qed.

Lemma remove_spec : forall i shm bij0 s5 p sR, pre_rebuild i shm bij0 s5 -> na_nodup (hashcons s5) ->
  raw_remove_from_class i shm (set_pending s5 []) = Ok (p, sR) -> own i sR /\ only_i i shm s5 sR.
Proof.
  intros i shm bij0 s5 p sR (P1 & P2 & (c5 & Hc5 & Hn5 & Hu5) & P4 & P5 & P6 & P7) Nd H.
  unfold raw_remove_from_class in H.
  apply bind_reads_inv in H. destruct H as (c & Hc & H).
  apply mbind_inv in H. destruct H as (u1 & s1 & H1 & H).
  apply mbind_inv in H. destruct H as (u2 & s2 & H2 & H). unfold modify in H2. inversion H2; subst u2 s2; clear H2.
  apply mbind_inv in H. destruct H as (u3 & s3 & H3 & H).
  assert (E3 : s3 = sR).
  { destruct (na_get (c_nodes c) shm) as [q|]; [|discriminate]. inversion H. reflexivity. }
  subst s3. clear H.
  destruct (upd_class_full _ _ _ _ _ H1) as (c0 & Hc0 & Hc0' & Ho & U1 & Hh1 & Pe1 & C1 & L1).
  change (get_class (set_pending s5 []) i) with (get_class s5 i) in Hc0. rewrite Hc5 in Hc0. inversion Hc0; subst c0; clear Hc0.
  destruct (usages_iter_frame (fun us => ns_remove us shm) _ _ _ _ H3) as (U & Hh & Pe & C & L & G & Sm).
  cbn [unionfind hashcons pending Model.ctr classes set_hashcons] in U, Hh, Pe, C, L.
  cbn [unionfind hashcons pending Model.ctr classes set_pending] in U1, Hh1, Pe1, C1, L1.
  assert (GI : get_class sR i = Ok (with_nodes c5 (na_remove (c_nodes c5) shm))).
  { rewrite (G i P6). exact Hc0'. }
  assert (Ow : own i sR).
  { unfold own. rewrite U, U1, Pe, Pe1. split; [exact P4|]. split; [|split; [exact P5|reflexivity]].
    eexists. split; [exact GI|]. exact Hu5. }
  split; [exact Ow|]. unfold only_i. rewrite U, U1, C, C1, L, L1, Pe, Pe1, Hh, Hh1.
  split; [lia|]. split; [reflexivity|]. split; [reflexivity|]. split; [intros; reflexivity|]. split; [exact P4|].
  split; [|split; [|split; [|reflexivity]]].
  - intros j cj Hj Hcj. specialize (Ho j Hj). change (get_class (set_pending s5 []) j) with (get_class s5 j) in Ho.
    rewrite <- Ho in Hcj. destruct (Sm j cj Hcj) as (c' & Hc' & R1 & R2 & R3 & R4). exists c'. repeat split; assumption.
  - intros sh0 Hsh. apply na_get_remove_other. exact Hsh.
  - apply na_get_remove_same. exact Nd.
Qed.

Lemma add_spec : forall i shm s5 sF sh' bij' u sA, own i sF -> only_i i shm s5 sF -> na_get (hashcons s5) shm = Some i ->
  na_get (hashcons sF) sh' = None -> ~ In i (node_ids sh') ->
  raw_add_to_class i (sh', bij') i sF = Ok (u, sA) -> own i sA /\ keep i s5 sA.
Proof.
  intros i shm s5 sF sh' bij' u sA (O1 & (ci & Hci & Hui) & O3 & O4) (A1 & A2 & A3 & A4 & A5 & A6 & A7 & A8 & A9) Hshm Hnone Hni H.
  unfold raw_add_to_class in H.
  apply mbind_inv in H. destruct H as (u1 & s1 & H1 & H).
  apply mbind_inv in H. destruct H as (u2 & s2 & H2 & H). unfold modify in H2. inversion H2; subst u2 s2; clear H2.
  destruct (upd_class_full _ _ _ _ _ H1) as (c0 & Hc0 & Hc0' & Ho & U1 & Hh1 & Pe1 & C1 & L1).
  rewrite Hci in Hc0. inversion Hc0; subst c0; clear Hc0.
  destruct (usages_iter_frame (fun us => ns_add us sh') _ _ _ _ H) as (U & Hh & Pe & C & L & G & Sm).
  cbn [unionfind hashcons pending Model.ctr classes set_hashcons] in U, Hh, Pe, C, L. split.
  - unfold own. rewrite U, U1, Pe, Pe1. split; [exact O1|]. split; [|split; assumption].
    eexists. split; [rewrite (G i Hni); exact Hc0'|]. exact Hui.
  - split.
    + intros sh0 j Hj Hne. rewrite Hh, Hh1.
      assert (Hs : sh0 <> shm) by (intros ->; rewrite Hshm in Hj; inversion Hj; congruence).
      pose proof (A7 sh0 Hs) as E. rewrite Hj in E.
      rewrite na_get_set_other; [exact E|]. intros ->. rewrite Hnone in E. discriminate.
    + intros j c Hne Hc. destruct (A6 j c Hne Hc) as (c1 & Hc1 & R1 & R2 & _).
      rewrite <- (Ho j Hne) in Hc1. destruct (Sm j c1 Hc1) as (c2 & Hc2 & T1 & T2 & _).
      exists c2. split; [exact Hc2|]. split; congruence.
Qed.

Section HpLoop.
  Variables (i : N) (shm : node) (s5 : egraph) (nd : node).

  Lemma hp_loop_new : forall fuel enode i1 s en' i1' s',
    own i s -> only_i i shm s5 s -> FE i shm s5 nd enode -> aid i1 = i ->
    hp_loop fuel i enode i1 s = Ok ((en', i1'), s') ->
    own i s' /\ only_i i shm s5 s' /\ FE i shm s5 nd en' /\ aid i1' = i.
  Proof.
    induction fuel as [|f IH]; intros enode i1 s en' i1' s' Ho Hon Hfe Hi H; cbn [hp_loop] in H; [discriminate|].
    destruct (sset_subset (values (am i1)) (slots enode)).
    - inversion H; subst. auto.
    - apply mbind_inv in H. destruct H as (u & s1 & H1 & H).
      destruct (tp_handle_shrink i _ _ _ Ho H1) as (Ho1 & F1 & _).
      pose proof (only_i_fr _ _ _ _ _ Hon F1 Ho1) as Hon1.
      apply bind_reads_inv in H. destruct H as (e1 & He1 & H).
      apply bind_reads_inv in H. destruct H as (i2 & Hi2 & H).
      apply (IH _ _ _ _ _ _ Ho1 Hon1) in H; [exact H| |].
      + eapply FE_next; [exact Hfe|exact Hon1|exact He1].
      + exact (find_applied_id_own i s1 i1 i2 Ho1 Hi Hi2).
  Qed.
End HpLoop.

Lemma handle_pending_new : forall i shm bij0 s5 x s',
  pre_rebuild i shm bij0 s5 -> NoHit i shm bij0 s5 -> na_nodup (hashcons s5) ->
  handle_pending shm true (set_pending s5 []) = Ok (x, s') -> own i s' /\ keep i s5 s'.
Proof.
  intros i shm bij0 s5 x s' Pre Hnh Nd H.
  pose proof Pre as (P1 & P2 & (c5 & Hc5 & Hn5 & Hu5) & P4 & P5 & P6 & P7).
  unfold handle_pending in H.
  apply bind_reads_inv in H. destruct H as (i' & Hi' & H).
  cbn [hashcons set_pending] in Hi'. rewrite P2 in Hi'. inversion Hi'; subst i'; clear Hi'.
  cbn [negb] in H. cbv iota in H.
  apply bind_reads_inv in H. destruct H as (c & Hc & H).
  change (get_class (set_pending s5 []) i) with (get_class s5 i) in Hc. rewrite Hc5 in Hc. inversion Hc; subst c; clear Hc.
  apply mbind_inv in H. destruct H as (psn & s0 & Hpsn & H). apply lift_inv in Hpsn. destruct Hpsn as [Hpsn ->].
  rewrite Hn5 in Hpsn. cbn [na_get] in Hpsn. rewrite node_eqb_refl in Hpsn. inversion Hpsn; subst psn; clear Hpsn.
  cbv iota beta in H.
  apply mbind_inv in H. destruct H as (nd & s0 & Hnd & H). apply lift_inv in Hnd. destruct Hnd as [Hnd ->].
  apply mbind_inv in H. destruct H as (pr & sR & Hrm & H).
  destruct (remove_spec _ _ _ _ _ _ Pre Nd Hrm) as (OR & OnR).
  apply bind_reads_inv in H. destruct H as (sl & Hsl & H). cbv zeta in H.
  apply bind_reads_inv in H. destruct H as (enode & Hen & H).
  apply bind_reads_inv in H. destruct H as (i1 & Hi1 & H).
  apply mbind_inv in H. destruct H as ([en2 i2] & sH & Hhp & H).
  assert (Hi1' : aid i1 = i) by (apply (find_applied_id_own i sR _ i1 OR) in Hi1; [exact Hi1|reflexivity]).
  destruct (hp_loop_new i shm s5 nd _ _ _ _ _ _ _ OR OnR (FE_first _ _ _ _ _ _ OnR Hen) Hi1' Hhp) as (OH & OnH & FeH & Hi2).
  cbv iota beta in H.
  apply bind_reads_inv in H. destruct H as (t & Ht & H).
  apply bind_reads_inv in H. destruct H as (lk & Hlk & H).
  rewrite (Hnh nd sH en2 t Hnd OnH FeH Ht) in Hlk. inversion Hlk; subst lk; clear Hlk.
  destruct t as [sh' bij]. cbv iota beta in H.
  apply mbind_inv in H. destruct H as (m & sF & Hm & H).
  destruct (tp_fill_fresh i _ _ _ _ _ OH Hm) as (OF & FrF & _).
  pose proof (only_i_fr _ _ _ _ _ OnH FrF OF) as OnF.
  apply mbind_inv in H. destruct H as (u & sA & Hadd & H). rewrite Hi2 in Hadd.
  assert (Hnone : na_get (hashcons sF) sh' = None).
  { destruct FrF as (_ & _ & _ & _ & _ & ->).
    pose proof (Hnh nd sH en2 (sh', bij) Hnd OnH FeH Ht) as Hl. unfold lookup_internal in Hl.
    destruct (na_get (hashcons sH) sh') as [j|]; [|reflexivity].
    destruct (get_class sH j) as [cj|]; [|discriminate]. cbn [bind] in Hl.
    destruct (na_get (c_nodes cj) sh') as [[cb csrc]|]; discriminate. }
  assert (Hni : ~ In i (node_ids sh')).
  { apply (shape_no_i i sH en2 sh' bij (own_no_ptr _ _ OH) Ht).
    apply (FE_no_i i shm s5 nd en2 P5); [|exact FeH]. rewrite (apply_slotmap_ids _ _ _ Hnd). exact P6. }
  destruct (add_spec _ _ _ _ _ _ _ _ OF OnF P2 Hnone Hni Hadd) as (OA & KA).
  destruct (tp_determine_self_symmetries i _ _ _ OA H) as (O' & F' & _).
  split; [exact O'|]. exact (keep_fr _ _ _ _ KA F').
Qed.

(* ------------------------------------------------------------------ *)
(* 5. the rebuild *)

Theorem rebuild_new_frame_fuel : forall fuel i shm bij0 s5 s',
  pre_rebuild i shm bij0 s5 -> NoHit i shm bij0 s5 -> na_nodup (hashcons s5) ->
  rebuild fuel s5 = Ok (tt, s') -> keep i s5 s' /\ own i s'.
Proof.
  intros fuel i shm bij0 s5 s' Pre Hnh Nd H. destruct fuel as [|f]; cbn [rebuild] in H; [discriminate|].
  apply mbind_inv in H. destruct H as (p & s0 & Hp & H). unfold gets in Hp. inversion Hp; subst p s0; clear Hp.
  pose proof Pre as (P1 & _). rewrite P1 in H.
  apply mbind_inv in H. destruct H as (u1 & s1 & H1 & H). unfold modify in H1. inversion H1; subst u1 s1; clear H1.
  apply mbind_inv in H. destruct H as (u2 & s2 & H2 & H).
  destruct (handle_pending_new _ _ _ _ _ _ Pre Hnh Nd H2) as (O2 & K2).
  destruct f as [|f']; cbn [rebuild] in H; [discriminate|].
  apply mbind_inv in H. destruct H as (p & s0 & Hp & H). unfold gets in Hp. inversion Hp; subst p s0; clear Hp.
  pose proof O2 as (_ & _ & _ & Pe). rewrite Pe in H. inversion H; subst s'. split; assumption.
Qed.

Theorem rebuild_new_frame : forall i shm bij0 s5 s',
  pre_rebuild i shm bij0 s5 -> NoHit i shm bij0 s5 -> na_nodup (hashcons s5) ->
  rebuild rebuild_fuel s5 = Ok (tt, s') -> keep i s5 s'.
Proof.
  intros i shm bij0 s5 s' Pre Hnh Nd H. exact (proj1 (rebuild_new_frame_fuel rebuild_fuel i shm bij0 s5 s' Pre Hnh Nd H)).
Qed.

Print Assumptions rebuild_new_frame.
Print Assumptions rebuild_new_frame_fuel.
Print Assumptions keep_leaf_entry.
Print Assumptions tp_union_internal.
