(* EGraph/LeafFrameDefs.v — definitions for the frame argument "the rebuild inside mk_singleton_class only touches the
   new class" (LeafFrame.v: the union core confined to one class; LeafNoHit.v: the re-added node is not hash-consed;
   LeafHitClosed.v: assembly).  Definitions only. *)
From SE Require Import Slots.SlotMapFacts Lang.LangFacts Lang.ShapeFacts
  EGraph.Model EGraph.ModelFacts EGraph.ModelMachine EGraph.UnionFindFacts EGraph.InvariantFacts EGraph.LeafHit.
Require Import ZArith List. Import ListNotations.

Local Notation ectr := Model.ctr.

(* what the lookup of a hash-consed shape reads is kept for every shape owned by a class other than i *)
Definition keep (i : N) (s s' : egraph) : Prop :=
  (forall sh0 j, na_get (hashcons s) sh0 = Some j -> j <> i -> na_get (hashcons s') sh0 = Some j) /\
  (forall j c, j <> i -> get_class s j = Ok c ->
     exists c', get_class s' j = Ok c' /\ c_nodes c' = c_nodes c /\ c_slots c' = c_slots c).

(* sB differs from s only in: the class i, the union-find entry of i (i stays its own leader), the hash-cons entry
   of the shape shm (absent in sB), usages, the counter *)
Definition only_i (i : N) (shm : node) (s sB : egraph) : Prop :=
  ectr s <= ectr sB /\ lc sB = lc s /\ List.length (unionfind sB) = List.length (unionfind s) /\
  (forall j, j <> i -> uentry (unionfind sB) j = uentry (unionfind s) j) /\
  uleader (unionfind sB) i /\
  (forall j c, j <> i -> get_class s j = Ok c ->
     exists c', get_class sB j = Ok c' /\ c_nodes c' = c_nodes c /\ c_slots c' = c_slots c /\
                c_group c' = c_group c /\ c_syn c' = c_syn c) /\
  (forall sh0, sh0 <> shm -> na_get (hashcons sB) sh0 = na_get (hashcons s) sh0) /\
  na_get (hashcons sB) shm = None /\
  pending sB = [].

(* the nodes handle_pending computes from nd by repeated find_enode, in states that differ from s only in i *)
Inductive FE (i : N) (shm : node) (s : egraph) (nd : node) : node -> Prop :=
| FE_first : forall sX e, only_i i shm s sX -> find_enode sX nd = Ok e -> FE i shm s nd e
| FE_next : forall sX e e', FE i shm s nd e -> only_i i shm s sX -> find_enode sX e = Ok e' -> FE i shm s nd e'.

(* the state s5 right before the rebuild of mk_singleton_class: one pending entry, the shape shm of the new node,
   stored (only) in the new class i, which is the last class, its own leader, pointed to by no other class and used
   by no node *)
Definition pre_rebuild (i : N) (shm : node) (bij0 : slotmap) (s5 : egraph) : Prop :=
  pending s5 = [(shm, true)] /\
  na_get (hashcons s5) shm = Some i /\
  (exists c, get_class s5 i = Ok c /\ c_nodes c = [(shm, (bij0, i))] /\ c_usages c = []) /\
  uleader (unionfind s5) i /\
  (forall j e, j <> i -> uentry (unionfind s5) j = Some e -> aid e <> i) /\
  ~ In i (node_ids shm) /\
  (forall sh0 j, na_get (hashcons s5) sh0 = Some j -> sh0 <> shm -> j <> i).

(* the re-added node is not hash-consed: in every state sB that differs from s5 only in i (with the entry of shm
   removed), the shape of every node obtained from nd = bij0 . shm by repeated find_enode is not in the hash-cons *)
Definition NoHit (i : N) (shm : node) (bij0 : slotmap) (s5 : egraph) : Prop :=
  forall nd sB enode t, apply_slotmap false bij0 shm = Ok nd ->
    only_i i shm s5 sB -> FE i shm s5 nd enode -> shape sB enode = Ok t -> lookup_internal sB t = Ok None.
