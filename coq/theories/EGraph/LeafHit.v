(* EGraph/LeafHit.v — re-inserting a CHILDLESS node that is already known returns the identical invocation. *)
From SE Require Import Slots.SlotMapFacts Lang.LangFacts Lang.ShapeFacts
  EGraph.Model EGraph.ModelFacts EGraph.ModelMachine EGraph.UnionFindFacts EGraph.InvariantFacts
  EGraph.RewriteFacts EGraph.RepFacts.
From SE Require Import EGraph.AddCoversFacts EGraph.HashconsAbs EGraph.HashconsFacts EGraph.SoundAddNew.
From SE Require EGraph.RewriteSoundEx Sem.Fp Sem.FpRewriteRun EGraph.RewriteSoundRun.
Require Import ZArith Lia ZifyBool ZifyN ZifyNat List. Import ListNotations.

Local Notation ectr := Model.ctr.

Definition Hit (n : node) (a : appid) (s : egraph) : Prop := eg_add n s = Ok (a, s).

(* ------------------------------------------------------------------ *)
(* 1. a hit of eg_add is a hit of the lookup *)

Lemma Hit_iff_lookup : forall n a s, Hit n a s <-> eg_lookup s n = Ok (Some a).
Proof.
  intros n a s. split.
  - intros H. unfold Hit in H. destruct (eg_add_cases n s a s H) as [[E _]|E]; [exact E|].
    exfalso. pose proof H as H0. unfold eg_add in H0. apply bind_reads_inv in H0. destruct H0 as (t & Ht & H0).
    unfold eg_lookup in E. rewrite Ht in E. cbn [bind] in E.
    destruct (add_internal_allocates_one t s a s E H0) as [L _]. unfold lc in L. lia.
  - apply eg_add_known.
Qed.

(* ------------------------------------------------------------------ *)
(* 2. the shape of a childless node does not depend on the state *)

Lemma leaf_shape : forall s n, app_occ n = [] -> shape s n = wshape n.
Proof.
  intros s n L.
  assert (F : find_enode s n = Ok n).
  { unfold find_enode. rewrite L. cbn [mapr bind]. rewrite <- L. rewrite set_apps_self. reflexivity. }
  assert (V : variants s n = Ok [n]).
  { unfold variants. rewrite L. cbn [mapr bind forallb]. reflexivity. }
  unfold shape, pre_shape. rewrite F. cbn [bind]. rewrite V. cbn [bind min_variant].
  destruct (wshape n) as [t|e] eqn:W; cbn [bind]; [|reflexivity]. exact W.
Qed.

Lemma lookup_internal_frame : forall s s' t, hashcons s' = hashcons s -> classes s' = classes s ->
  lookup_internal s' t = lookup_internal s t.
Proof. intros s s' [sh b] Hh Hc. unfold lookup_internal, get_class. rewrite Hh, Hc. reflexivity. Qed.

Lemma leaf_lookup_frame : forall s s' n, app_occ n = [] -> hashcons s' = hashcons s -> classes s' = classes s ->
  eg_lookup s' n = eg_lookup s n.
Proof.
  intros s s' n L Hh Hc. unfold eg_lookup. rewrite !(leaf_shape _ n L).
  destruct (wshape n) as [t|e]; cbn [bind]; [|reflexivity]. apply lookup_internal_frame; assumption.
Qed.

(* (a) *)
Theorem hit_ctr : forall n a s s', app_occ n = [] -> Hit n a s ->
  classes s' = classes s -> hashcons s' = hashcons s -> Hit n a s'.
Proof.
  intros n a s s' L H Hc Hh. apply Hit_iff_lookup. rewrite (leaf_lookup_frame s s' n L Hh Hc). apply Hit_iff_lookup. exact H.
Qed.

Corollary hit_same_graph : forall n a s s', app_occ n = [] -> Hit n a s -> same_graph s s' -> Hit n a s'.
Proof. intros n a s s' L H (_ & Hc & Hh & _). exact (hit_ctr n a s s' L H Hc Hh). Qed.

Corollary hit_ctr_only : forall n a s s', app_occ n = [] -> Hit n a s -> ctr_only s s' -> Hit n a s'.
Proof. intros n a s s' L H [c ->]. apply (hit_ctr n a s _ L H); reflexivity. Qed.

Corollary hit_synify : forall n a s b b' s', app_occ n = [] -> Hit n a s -> synify_app_id b s = Ok (b', s') -> Hit n a s'.
Proof. intros n a s b b' s' L H Hs. exact (hit_ctr_only n a s s' L H (synify_ctr_only b s b' s' Hs)). Qed.


(* ------------------------------------------------------------------ *)
(* 3. what the lookup of a shape reads: the hash-cons entry, the bijection stored for the shape in the class
      the entry points to, and the slots of that class *)

Definition leaf_entry (s : egraph) (sh : node) : option (N * slotmap * sset) :=
  match na_get (hashcons s) sh with
  | None => None
  | Some i => match get_class s i with
              | Ok c => match na_get (c_nodes c) sh with
                        | Some (b, _) => Some (i, b, c_slots c)
                        | None => None
                        end
              | Err _ => None
              end
  end.

Definition entry_inv (e : N * slotmap * sset) (nb : slotmap) : appid :=
  let '(i, b, sl) := e in
  {| aid := i; am := filter (fun p => sset_mem (fst p) sl) (compose_partial (inverse_nocheck b) nb) |}.

Lemma lookup_some_entry : forall s sh nb a, lookup_internal s (sh, nb) = Ok (Some a) <->
  exists e, leaf_entry s sh = Some e /\ a = entry_inv e nb.
Proof.
  intros s sh nb a. unfold lookup_internal, leaf_entry. destruct (na_get (hashcons s) sh) as [i|].
  - destruct (get_class s i) as [c|e]; cbn [bind].
    + destruct (na_get (c_nodes c) sh) as [[b src]|].
      * split.
        -- intros H. inversion H. eexists. split; [reflexivity|]. reflexivity.
        -- intros (e & He & ->). inversion He. reflexivity.
      * split; [discriminate|]. intros (e & He & _). discriminate.
    + split; [discriminate|]. intros (e0 & He & _). discriminate.
  - split; [discriminate|]. intros (e & He & _). discriminate.
Qed.

Lemma Hit_leaf_entry : forall n a s sh nb, app_occ n = [] -> wshape n = Ok (sh, nb) ->
  (Hit n a s <-> exists e, leaf_entry s sh = Some e /\ a = entry_inv e nb).
Proof.
  intros n a s sh nb L W. rewrite Hit_iff_lookup. unfold eg_lookup. rewrite (leaf_shape s n L), W. cbn [bind].
  apply lookup_some_entry.
Qed.

(* (b)/(c), CONDITIONAL: a hit persists along any step that keeps the entry of the shape of the leaf *)
Theorem hit_entry : forall n a s s' sh nb, app_occ n = [] -> wshape n = Ok (sh, nb) ->
  leaf_entry s' sh = leaf_entry s sh -> Hit n a s -> Hit n a s'.
Proof.
  intros n a s s' sh nb L W E H. apply (Hit_leaf_entry n a s' sh nb L W). rewrite E. apply (Hit_leaf_entry n a s sh nb L W). exact H.
Qed.

(* the hit of a leaf is unique *)
Lemma Hit_unique : forall n a b s, Hit n a s -> Hit n b s -> a = b.
Proof. intros n a b s H1 H2. unfold Hit in *. rewrite H1 in H2. inversion H2. reflexivity. Qed.

(* (c), the case where the other insertion is itself a hit: nothing changes *)
Theorem hit_keep_add_known : forall n a m b x s s', Hit n a s -> Hit m x s -> eg_add m s = Ok (b, s') -> Hit n a s'.
Proof. intros n a m b x s s' H Hm E. unfold Hit in Hm. rewrite Hm in E. inversion E; subst. exact H. Qed.

(* (c) in general: either the insertion of m changes nothing, or the premise of hit_entry is what remains *)
Theorem hit_keep_add_cond : forall n a m b s s' sh nb, app_occ n = [] -> wshape n = Ok (sh, nb) ->
  Hit n a s -> eg_add m s = Ok (b, s') ->
  (s' <> s -> leaf_entry s' sh = leaf_entry s sh) -> Hit n a s'.
Proof.
  intros n a m b s s' sh nb L W H E F.
  destruct (eg_add_cases m s b s' E) as [[_ ->]|Miss]; [exact H|].
  apply (hit_entry n a s s' sh nb L W); [|exact H]. apply F. intros ->.
  apply (proj1 (Hit_iff_lookup m b s)) in E. rewrite E in Miss. discriminate.
Qed.

(* (b), CONDITIONAL: after a miss, the invocation returned is the one the lookup computes from the stored entry *)
Theorem hit_after_add_cond : forall n a s s1 sh nb, app_occ n = [] -> wshape n = Ok (sh, nb) ->
  eg_add n s = Ok (a, s1) ->
  (s1 <> s -> exists e, leaf_entry s1 sh = Some e /\ a = entry_inv e nb) -> Hit n a s1.
Proof.
  intros n a s s1 sh nb L W E F.
  destruct (eg_add_cases n s a s1 E) as [[Hl ->]|Miss]; [apply Hit_iff_lookup; exact Hl|].
  apply (Hit_leaf_entry n a s1 sh nb L W). apply F. intros ->.
  apply (proj1 (Hit_iff_lookup n a s)) in E. rewrite E in Miss. discriminate.
Qed.

(* ------------------------------------------------------------------ *)
(* 4. executable validation of (b) and (c) *)

Definition hitb (n : node) (a : appid) (s : egraph) : bool :=
  match eg_lookup s n with Ok (Some x) => appid_eqb x a | _ => false end.

Lemma hitb_sound : forall n a s, hitb n a s = true -> Hit n a s.
Proof.
  intros n a s H. unfold hitb in H. apply Hit_iff_lookup.
  destruct (eg_lookup s n) as [[x|]|]; try discriminate. apply appid_eqb_iff in H. subst x. reflexivity.
Qed.

Definition entry_keptb (sh : node) (s s' : egraph) : bool :=
  match leaf_entry s sh, leaf_entry s' sh with
  | Some (i, b, sl), Some (i', b', sl') => (i =? i') && eqb_map b b' && sset_eqb sl sl'
  | None, None => true
  | _, _ => false
  end.

(* add_expr, checking after EVERY eg_add that the leaf n is still found by the invocation a *)
Fixpoint add_expr_hit (n : node) (a : appid) (t : rterm) : M (appid * bool) :=
  match t with
  | RT nd ch =>
      dom l <- (fix go (l : list rterm) : M (list appid * bool) :=
                  match l with
                  | [] => ret ([], true)
                  | c :: r => dom x <- add_expr_hit n a c; dom r' <- go r; ret (fst x :: fst r', snd x && snd r')
                  end) ch;
      if Nat.ltb (List.length (app_occ nd)) (List.length (fst l)) then fail OutOfBounds
      else dom x <- eg_add (set_apps nd (fst l));
           dom ok <- gets (hitb n a);
           ret (x, snd l && ok)
  end.

Fixpoint add_all_hit (n : node) (a : appid) (ts : list rterm) : M (list bool) :=
  match ts with
  | [] => ret []
  | t :: r => dom x <- add_expr_hit n a t; dom l <- add_all_hit n a r; ret (snd x :: l)
  end.

(* insert the leaf n in s; report: (was it a miss?, (b) hit right after, (c) hit after every later eg_add of ts,
   number of classes allocated by ts, the entry of the shape of n is literally unchanged at the end) *)
Definition scenario (n : node) (ts : list rterm) (s : egraph) : option (bool * bool * list bool * nat * bool) :=
  match eg_add n s with
  | Ok (a, s1) =>
      match add_all_hit n a ts s1, wshape n with
      | Ok (l, s2), Ok (sh, _) =>
          Some (negb (Nat.eqb (lc s1) (lc s)), hitb n a s1, l, (lc s2 - lc s1)%nat, entry_keptb sh s1 s2)
      | _, _ => None
      end
  | Err _ => None
  end.

Module ExIx.
  Import RewriteSoundEx.
  (* leaves: var $x (known in ix_state: class 0), a new two-slot leaf, a new constant *)
  Definition leaf2 (x y : slot) : node := {| nvar := 7; nargs := [ASlot x; ASlot y] |}.
  Definition cst : node := {| nvar := 9; nargs := [] |}.
  Definition tl2 (x y : slot) : rterm := RT (leaf2 x y) [].
  Definition tc : rterm := RT cst [].
  Definition later : list rterm :=
    [tvar 8; tc; tl2 8 4; tapp (tvar 4) (tl2 4 12); tlam 4 (tapp (tl2 4 8) (tvar 4)); tlam 8 (tlam 4 (tapp (tl2 4 8) tc));
     tapp (tl2 4 4) (tlam 12 (tl2 12 16)); tlam 4 (tlam 8 (tlam 12 (tapp (tapp (tvar 4) (tvar 8)) (tvar 12))))].

  Example ix_var_hit_persists :
    scenario (varn 4) later ix_state = Some (false, true, [true; true; true; true; true; true; true; true], 15%nat, true).
  Proof. vm_compute. reflexivity. Qed.
  Example ix_leaf2_hit_persists :
    scenario (leaf2 4 8) later ix_state = Some (true, true, [true; true; true; true; true; true; true; true], 14%nat, true).
  Proof. vm_compute. reflexivity. Qed.
  Example ix_leaf2_diag_hit_persists :
    scenario (leaf2 4 4) later ix_state = Some (true, true, [true; true; true; true; true; true; true; true], 14%nat, true).
  Proof. vm_compute. reflexivity. Qed.
  Example ix_cst_hit_persists :
    scenario cst later ix_state = Some (true, true, [true; true; true; true; true; true; true; true], 14%nat, true).
  Proof. vm_compute. reflexivity. Qed.
End ExIx.

Module ExFp.
  Import Sem.Fp Sem.FpRewriteRun EGraph.RewriteSoundRun EGraph.Rewrite.
  (* the state after the run of FpRewriteRun.psubst_run_no_capture (three insertions, one rewriting iteration with
     the substitution rule 11), and the state before the rewriting iteration *)
  Definition gx_state (ops : list rop) : option egraph :=
    match r11 with
    | Some r => match run_rops gx_terms ops [] [] empty_egraph with
                | Ok (_, _, s) => Some s
                | Err _ => None
                end
    | None => None
    end.
  Definition gx_ops_rew : list rop :=
    match r11 with Some r => [RAdd 0; RAdd 1; RAdd 2; RRew [r]] | None => [] end.
  Definition fvar (x : slot) : node := {| nvar := 5; nargs := [ASlot x] |}.
  Definition fnum (k : N) : node := {| nvar := 17; nargs := [APay (PVu32 k)] |}.
  Definition later : list rterm :=
    [rterm_of (TVar 20); rterm_of (TNum 3); rterm_of (TAdd (TVar 4) (TNum 3));
     rterm_of (TSum 16 (TAdd (TVar 16) (TVar 12))); rterm_of (TSum 12 (TMul (TVar 12) (TVar 12)));
     rterm_of (TLet 4 (TSum 12 (TAdd (TVar 4) (TVar 12))) (TNum 7));
     rterm_of (TLet 8 (TAdd (TVar 8) (TVar 4)) (TSum 4 (TMul (TVar 4) (TVar 20))))].
  Definition on (ops : list rop) (n : node) : option (bool * bool * list bool * nat * bool) :=
    match gx_state ops with Some s => scenario n later s | None => None end.

  Example gx_var_hit_persists_after_rewrite :
    on gx_ops_rew (fvar 4) = Some (false, true, [true; true; true; true; true; true; true], 10%nat, true).
  Proof. vm_compute. reflexivity. Qed.
  Example gx_num_hit_persists_after_rewrite :
    on gx_ops_rew (fnum 5) = Some (true, true, [true; true; true; true; true; true; true], 10%nat, true).
  Proof. vm_compute. reflexivity. Qed.
  Example gx_var_hit_persists_before_rewrite :
    on [RAdd 0; RAdd 1; RAdd 2] (fvar 4) = Some (false, true, [true; true; true; true; true; true; true], 10%nat, true).
  Proof. vm_compute. reflexivity. Qed.
End ExFp.

(* ------------------------------------------------------------------ *)
(* 5. partial discharge of the premise of hit_keep_add_cond: up to the rebuild inside mk_singleton_class, a miss
      of eg_add m keeps the entry of every hash-consed shape; what remains is the rebuild with one pending entry *)

Lemma upd_class_entry : forall i f s x s' sh0, upd_class i f s = Ok (x, s') ->
  (forall c, c_nodes (f c) = c_nodes c /\ c_slots (f c) = c_slots c) -> leaf_entry s' sh0 = leaf_entry s sh0.
Proof.
  intros i f s x s' sh0 H Hf. destruct (upd_class_views _ _ _ _ _ H) as (c & Hc & Hc' & Ho & _ & Hh & _).
  unfold leaf_entry. rewrite Hh. destruct (na_get (hashcons s) sh0) as [j|]; [|reflexivity].
  destruct (N.eq_dec j i) as [->|Hj]; [|rewrite (Ho j Hj); reflexivity].
  rewrite Hc, Hc'. destruct (Hf c) as [-> ->]. reflexivity.
Qed.

Lemma upd_class_entry_other : forall i f s x s' sh0 j, upd_class i f s = Ok (x, s') ->
  na_get (hashcons s) sh0 = Some j -> j <> i -> leaf_entry s' sh0 = leaf_entry s sh0.
Proof.
  intros i f s x s' sh0 j H Hj Hne. destruct (upd_class_views _ _ _ _ _ H) as (c & Hc & Hc' & Ho & _ & Hh & _).
  unfold leaf_entry. rewrite Hh, Hj. rewrite (Ho j Hne). reflexivity.
Qed.

Lemma usages_iter_entry : forall (F : list node -> list node) l s x s' sh0,
  iterM (fun r => upd_class r (fun c => with_usages c (F (c_usages c)))) l s = Ok (x, s') ->
  leaf_entry s' sh0 = leaf_entry s sh0.
Proof.
  intros F. induction l as [|r t IH]; intros s x s' sh0 H; cbn [iterM] in H.
  - inversion H. reflexivity.
  - apply mbind_inv in H. destruct H as (u & s1 & H1 & H). rewrite (IH _ _ _ _ H).
    apply (upd_class_entry _ _ _ _ _ _ H1). intros c. split; reflexivity.
Qed.

Lemma raw_add_entry : forall id sh bij src s x s' sh0 j, raw_add_to_class id (sh, bij) src s = Ok (x, s') ->
  sh0 <> sh -> na_get (hashcons s) sh0 = Some j -> j <> id -> leaf_entry s' sh0 = leaf_entry s sh0.
Proof.
  intros id sh bij src s x s' sh0 j H Hsh Hj Hne. unfold raw_add_to_class in H.
  apply mbind_inv in H. destruct H as (u1 & s1 & H1 & H).
  apply mbind_inv in H. destruct H as (u2 & s2 & H2 & H). inversion H2; subst u2 s2; clear H2.
  rewrite (usages_iter_entry (fun u => ns_add u sh) _ _ _ _ sh0 H).
  rewrite <- (upd_class_entry_other _ _ _ _ _ sh0 j H1 Hj Hne).
  unfold leaf_entry at 1. cbn [hashcons set_hashcons]. rewrite na_get_set_other by exact Hsh. reflexivity.
Qed.

Lemma leaf_entry_hc : forall s sh0 e, leaf_entry s sh0 = Some e ->
  exists j c, na_get (hashcons s) sh0 = Some j /\ get_class s j = Ok c.
Proof.
  intros s sh0 e H. unfold leaf_entry in H. destruct (na_get (hashcons s) sh0) as [j|]; [|discriminate].
  destruct (get_class s j) as [c|] eqn:Hc; [|discriminate]. exists j, c. split; [reflexivity|exact Hc].
Qed.

Lemma ext_classes_entry : forall s s' cn sh0 e, classes s' = classes s ++ [cn] -> hashcons s' = hashcons s ->
  leaf_entry s sh0 = Some e -> leaf_entry s' sh0 = Some e.
Proof.
  intros s s' cn sh0 e C Hh H. destruct (leaf_entry_hc _ _ _ H) as (j & c & Hj & Hc).
  unfold leaf_entry in *. rewrite Hh, Hj in *. rewrite Hc in H. rewrite (get_class_ext_old s s' cn C _ _ Hc). exact H.
Qed.

Lemma frame_entry : forall s s' sh0, classes s' = classes s -> hashcons s' = hashcons s -> leaf_entry s' sh0 = leaf_entry s sh0.
Proof. intros s s' sh0 C Hh. unfold leaf_entry, get_class. rewrite C, Hh. reflexivity. Qed.

Definition hc_canon (s : egraph) : Prop :=
  forall sh i, na_get (hashcons s) sh = Some i -> exists b, shape s sh = Ok (sh, b).

Lemma hc_ok_canon : forall s, hc_ok s -> pending s = [] -> hc_canon s.
Proof.
  intros s H P sh i Hi. apply (hashcons_iff_stored s sh i H) in Hi. destruct Hi as [p Hp].
  exact (proj2 (stored_canonical s i sh p H P Hp)).
Qed.

Theorem add_miss_pre_rebuild : forall m b s s' sh0 e,
  inv3 s -> hc_canon s -> ectr s mod 4 = 1 -> node_pre s m ->
  eg_lookup s m = Ok None -> eg_add m s = Ok (b, s') -> leaf_entry s sh0 = Some e ->
  exists s5 shm, rebuild rebuild_fuel s5 = Ok (tt, s') /\ pending s5 = na_set (pending s) shm true /\
                 shm <> sh0 /\ na_get (hashcons s) shm = None /\ leaf_entry s5 sh0 = Some e.
Proof.
  intros m b s s' sh0 e I3 HC M4 (Cov & Old & ND) Miss H E.
  unfold eg_add in H. apply bind_reads_inv in H. destruct H as (t & Ht & H).
  unfold eg_lookup in Miss. rewrite Ht in Miss. cbn [bind] in Miss.
  assert (Habs : na_get (hashcons s) (fst t) = None).
  { destruct t as [sh bij]. exact (lookup_none_absent s sh bij Miss). }
  destruct (add_internal_walk t s b s' I3 Miss H) as (en1 & c1 & en2 & en3 & s3 & syn & RP & AS & SY & MK & _ & I1 & _ & I3' & _ & Hb).
  cbv zeta in *.
  destruct (mk_singleton_walk en3 s3 syn s' I3' Hb MK) as (f2o & c2 & synf & s3a & sh & bij & s4 & s5 & BF & ASF & AL & WS & RA & PI & RB & _).
  cbv zeta in *.
  assert (Abs : na_get (hashcons s) sh = None).
  { exact (add_shape_absent_nodup s m t en1 c1 en2 en3 s3 f2o c2 synf c2 sh bij I3 HC Cov M4 Old ND Ht Habs RP AS SY BF ASF WS). }
  destruct (leaf_entry_hc _ _ _ E) as (j & cj & Hj & Hcj).
  assert (Ne : sh <> sh0) by (intros ->; rewrite Hj in Abs; discriminate).
  assert (CO : ctr_only (set_ctr s c1) s3).
  { apply (pres_synify_enode ctr_only ctr_only_refl ctr_only_trans) in SY; [assumption|].
    intros s0 y s0' H0. inversion H0. eexists; reflexivity. }
  destruct CO as [c3 ->].
  set (s2 := set_ctr (set_ctr (set_ctr (set_ctr s c1) c3) c2) c2) in *.
  assert (E2 : leaf_entry s2 sh0 = Some e) by (rewrite <- E; apply frame_entry; reflexivity).
  destruct (alloc_eclass_exact _ _ _ _ _ AL) as (Hi & _ & C & Hh & P3 & _).
  assert (E3 : leaf_entry s3a sh0 = Some e) by (eapply ext_classes_entry; eauto).
  assert (Hj3 : na_get (hashcons s3a) sh0 = Some j) by (rewrite Hh; exact Hj).
  assert (Nj : j <> N.of_nat (lc (set_ctr (set_ctr s c1) c3))).
  { pose proof (get_class_lt _ _ _ Hcj) as L. unfold lc in *. cbn [classes set_ctr]. lia. }
  assert (E4 : leaf_entry s4 sh0 = Some e).
  { rewrite <- E3. apply (raw_add_entry _ _ _ _ _ _ _ sh0 j RA); [intros ->; apply Ne; reflexivity|exact Hj3|exact Nj]. }
  destruct (raw_add_views _ _ _ _ _ _ _ RA) as (_ & P4 & _).
  unfold pending_insert, modify in PI. inversion PI; subst s5; clear PI.
  exists (set_pending s4 (na_set (pending s4) sh true)), sh.
  split; [exact RB|]. split; [cbn [pending set_pending]; rewrite P4, P3; reflexivity|].
  split; [exact Ne|]. split; [exact Abs|]. rewrite <- E4. apply frame_entry; reflexivity.
Qed.

(* (c) for an arbitrary inserted node m, reduced to the rebuild *)
Theorem hit_keep_add_rebuild : forall n a m b s s' sh nb,
  app_occ n = [] -> wshape n = Ok (sh, nb) ->
  inv3 s -> hc_canon s -> ectr s mod 4 = 1 -> node_pre s m ->
  Hit n a s -> eg_add m s = Ok (b, s') ->
  (forall s5 shm, rebuild rebuild_fuel s5 = Ok (tt, s') -> pending s5 = na_set (pending s) shm true -> shm <> sh ->
     leaf_entry s5 sh = leaf_entry s sh -> leaf_entry s' sh = leaf_entry s5 sh) ->
  Hit n a s'.
Proof.
  intros n a m b s s' sh nb L W I3 HC M4 NP H E RBK.
  destruct (eg_add_cases m s b s' E) as [[_ ->]|Miss]; [exact H|].
  destruct (proj1 (Hit_leaf_entry n a s sh nb L W) H) as (e & He & _).
  destruct (add_miss_pre_rebuild m b s s' sh e I3 HC M4 NP Miss E He) as (s5 & shm & RB & P5 & Ne & _ & E5).
  apply (hit_entry n a s s' sh nb L W); [|exact H].
  rewrite (RBK s5 shm RB P5 Ne); rewrite E5, He; reflexivity.
Qed.

Print Assumptions Hit_iff_lookup.
Print Assumptions leaf_shape.
Print Assumptions hit_ctr.
Print Assumptions hit_same_graph.
Print Assumptions hit_ctr_only.
Print Assumptions hit_synify.
Print Assumptions Hit_leaf_entry.
Print Assumptions hit_entry.
Print Assumptions hit_keep_add_known.
Print Assumptions hit_keep_add_cond.
Print Assumptions hit_after_add_cond.
Print Assumptions hitb_sound.
Print Assumptions hc_ok_canon.
Print Assumptions add_miss_pre_rebuild.
Print Assumptions hit_keep_add_rebuild.
Print Assumptions ExIx.ix_leaf2_hit_persists.
Print Assumptions ExFp.gx_var_hit_persists_after_rewrite.
