(* EGraph/LeafHitAfter.v — right after its insertion a CHILDLESS node is found by exactly the invocation returned
   (SubstIface.HitAfterAdd).  The proof follows InvariantFacts.hp_singleton / mk_singleton_flat / add_internal_flat,
   replacing the global flatness of the state by the flatness of the NEW class only: a childless node reads nothing
   else of the state. *)
From SE Require Import Slots.SlotMapFacts Group.GroupSound Lang.LangFacts Lang.ShapeFacts Lang.RenameFacts
  EGraph.Model EGraph.ModelFacts EGraph.ModelMachine EGraph.UnionFindFacts EGraph.InvariantFacts
  EGraph.UnionInvariantFacts EGraph.AddCoversFacts EGraph.HashconsAbs EGraph.HashconsFacts EGraph.SoundAddNew
  EGraph.RewriteFacts EGraph.RepFacts EGraph.RewriteSound EGraph.LeafHit EGraph.SubstIface.
Require Import ZArith Lia ZifyBool ZifyN ZifyNat List. Import ListNotations.

Local Notation "a ** b" := (compose_partial a b) (at level 40, left associativity).
Local Notation inv := inverse_nocheck.
Local Notation ectr := Model.ctr.

(* ------------------------------------------------------------------ *)
(* 1. what a childless node reads of the state: nothing *)

Lemma leaf_find_enode : forall s n, app_occ n = [] -> find_enode s n = Ok n.
Proof. intros s n L. unfold find_enode. rewrite L. cbn [mapr bind]. rewrite <- L. rewrite set_apps_self. reflexivity. Qed.

Lemma leaf_variants : forall s n, app_occ n = [] -> variants s n = Ok [n].
Proof. intros s n L. unfold variants. rewrite L. cbn [mapr bind forallb]. reflexivity. Qed.

Lemma leaf_pre_shape : forall s n p, app_occ n = [] -> pre_shape s n = Ok p -> p = n.
Proof.
  intros s n p L H. unfold pre_shape in H. rewrite (leaf_find_enode s n L) in H. cbn [bind] in H.
  rewrite (leaf_variants s n L) in H. cbn [bind min_variant] in H.
  destruct (wshape n) as [t|e]; cbn [bind] in H; inversion H. reflexivity.
Qed.

Lemma ckeys_leaf : forall n n', ckeys n = ckeys n' -> app_occ n = [] -> app_occ n' = [].
Proof.
  intros n n' H L. unfold ckeys in H. rewrite L in H. cbn [map] in H.
  destruct (app_occ n'); [reflexivity|discriminate].
Qed.

(* the class i is a leader with the identity of its slots *)
Definition lead_id (s : egraph) (i : N) (sl : sset) : Prop :=
  uentry (unionfind s) i = Some {| aid := i; am := identity sl |}.

Lemma lead_find : forall s i sl m, lead_id s i sl ->
  find_applied_id s {| aid := i; am := m |} = Ok {| aid := i; am := identity sl ** m |}.
Proof.
  intros s i sl m H. unfold find_applied_id. cbn [aid am].
  rewrite (unionfind_get_leader s i _ H eq_refl). reflexivity.
Qed.

Lemma lead_id_sem : forall s s' i sl, sem_eq s s' -> lead_id s i sl -> lead_id s' i sl.
Proof. intros s s' i sl [U _] H. unfold lead_id in *. rewrite <- U. exact H. Qed.

Lemma pc_from_src_leaf : forall s i c r, get_class s i = Ok c -> class_flat c -> app_occ (c_syn c) = [] ->
  lead_id s i (c_slots c) -> pc_from_src_id s i = Ok r -> r = (c_syn c, {| aid := i; am := identity (c_slots c) |}).
Proof.
  intros s i c r Hc (W & G & S) L U H. unfold pc_from_src_id in H. rewrite Hc in H. cbn [bind aid am] in H.
  rewrite S in H.
  destruct (apply_slotmap false (identity (c_slots c)) (c_syn c)) as [n0|] eqn:A; cbn [bind] in H; [|discriminate].
  apply apply_identity in A. subst n0.
  destruct (pre_shape s (c_syn c)) as [nd|] eqn:P; cbn [bind] in H; [|discriminate].
  apply (leaf_pre_shape s _ nd L) in P. subst nd.
  rewrite (lead_find s i (c_slots c) _ U) in H. cbn [bind aid am] in H.
  rewrite identity_idem in H. inversion H. reflexivity.
Qed.

Lemma uint_refl_lead : forall s i c, uf_ok s -> uf_slots_ok s -> get_class s i = Ok c -> lead_id s i (c_slots c) ->
  uint {| aid := i; am := identity (c_slots c) |} {| aid := i; am := identity (c_slots c) |} s = Ok (false, s).
Proof.
  intros s i c Uo Us Hc U. unfold uint, ui_fuel. rewrite (union_internal_S 399).
  unfold union_internal_body, mbind, reads.
  rewrite (lead_find s i (c_slots c) _ U). rewrite identity_idem.
  rewrite (lead_find s i (c_slots c) _ U). rewrite identity_idem.
  unfold union_leaders, mbind, reads.
  rewrite (eg_eq_refl_inv s _ Uo Us); [reflexivity|].
  exists c. cbn [aid am]. split; [assumption|]. split; [apply pid_injective, pid_identity|].
  intros k Hk. rewrite get_identity. apply sset_mem_in in Hk. rewrite Hk. discriminate.
Qed.

(* ------------------------------------------------------------------ *)
(* 2. handle_pending on the childless node of a class that is flat and leads itself *)

Lemma hp_leaf : forall s i sh bij ci x s',
  uf_ok s -> uf_slots_ok s -> na_nodup (hashcons s) ->
  get_class s i = Ok ci -> class_flat ci -> lead_id s i (c_slots ci) -> app_occ (c_syn ci) = [] ->
  na_get (c_nodes ci) sh = Some (bij, i) ->
  na_get (hashcons s) sh = Some i ->
  wshape (c_syn ci) = Ok (sh, bij) ->
  (forall x, In x (pub_occ (c_syn ci)) -> x mod 4 <> 0) ->
  handle_pending sh true s = Ok (x, s') ->
  sem_eq s s' /\ pending s' = pending s /\
  hashcons s' = na_set (na_remove (hashcons s) sh) sh i /\
  exists c' nd b2, get_class s' i = Ok c' /\ c_nodes c' = na_set (na_remove (c_nodes ci) sh) sh (b2, i) /\
                  apply_slotmap false bij sh = Ok nd /\ wshape nd = Ok (sh, b2).
Proof.
  intros s i sh bij ci x s' Uo Us Nd Hci (WF & HG & HS) LD Leaf Hn Hh Hw Hm H.
  unfold handle_pending in H.
  apply bind_reads_inv in H. destruct H as (i0 & Hi0 & H). rewrite Hh in Hi0. inversion Hi0; subst i0; clear Hi0.
  cbn [negb] in H.
  apply bind_reads_inv in H. destruct H as (c0 & Hc0 & H). rewrite Hci in Hc0. inversion Hc0; subst c0; clear Hc0.
  apply mbind_inv in H. destruct H as (psn & s1 & H1 & H). apply lift_inv in H1. destruct H1 as [H1 ->].
  rewrite Hn in H1. inversion H1; subst psn; clear H1.
  apply mbind_inv in H. destruct H as (nd & s1 & H1 & H). apply lift_inv in H1. destruct H1 as [Hnd ->].
  destruct (shape_unapply _ _ _ _ Hw Hnd Hm) as (Pnd & Knd & Eq & bij' & Wnd).
  assert (Lnd : app_occ nd = []) by (apply (ckeys_leaf (c_syn ci) nd); [symmetry; exact Knd|exact Leaf]).
  apply mbind_inv in H. destruct H as (rm & s2 & H2 & H). apply raw_remove_obs in H2.
  destruct H2 as (E2 & Hh2 & Hp2 & c & c2 & Hc & Hc2 & Hn2 & _).
  rewrite Hci in Hc. inversion Hc; subst c; clear Hc.
  destruct (get_class_sem_ok s s2 i ci E2 Hci) as (c2' & Hc2' & Cs2). rewrite Hc2 in Hc2'. inversion Hc2'; subst c2'; clear Hc2'.
  apply csem_inv in Cs2. destruct Cs2 as (Cs2a & Cs2b & Cs2c).
  pose proof (lead_id_sem _ _ _ _ E2 LD) as LD2. rewrite <- Cs2a in LD2.
  apply bind_reads_inv in H. destruct H as (sl & Hsl & H).
  unfold class_slots in Hsl. rewrite Hc2 in Hsl. cbn [bind] in Hsl. inversion Hsl; subst sl; clear Hsl.
  apply bind_reads_inv in H. destruct H as (enode & Hen & H).
  rewrite (leaf_find_enode s2 nd Lnd) in Hen. inversion Hen; subst enode; clear Hen.
  apply bind_reads_inv in H. destruct H as (i1 & Hi1 & H).
  rewrite (lead_find s2 i (c_slots c2) _ LD2) in Hi1.
  rewrite identity_idem in Hi1. inversion Hi1; subst i1; clear Hi1.
  apply mbind_inv in H. destruct H as (ei & s3 & H3 & H).
  assert (Sub : sset_subset (values (identity (c_slots c2))) (slots nd) = true).
  { rewrite Cs2a. rewrite values_identity by assumption. unfold slots. rewrite Pnd. fold (slots (c_syn ci)).
    rewrite HS. apply sset_subset_refl. }
  cbn [hp_loop am] in H3. rewrite Sub in H3. inversion H3; subst ei s3; clear H3.
  apply bind_reads_inv in H. destruct H as (t & Ht & H).
  rewrite (leaf_shape s2 nd Lnd), Wnd in Ht. inversion Ht; subst t; clear Ht.
  apply bind_reads_inv in H. destruct H as (lk & Hlk & H).
  assert (Hl : lk = None).
  { unfold lookup_internal in Hlk. rewrite Hh2, (na_get_remove_same _ _ Nd) in Hlk. inversion Hlk. reflexivity. }
  subst lk.
  apply mbind_inv in H. destruct H as (m & s3 & H3 & H).
  change (fill_fresh (values bij') (inv (am {| aid := i; am := identity (c_slots c2) |})) s2 = Ok (m, s3)) in H3.
  cbn [am] in H3. rewrite inverse_identity in H3.
  destruct (shape_bij_props _ _ _ Wnd) as (Wb' & Bb' & Pb').
  assert (Vb' : forall k v, get bij' k = Some v -> In v (c_slots c2)).
  { intros k v G. rewrite Cs2a, <- HS. apply slots_spec. rewrite <- Pnd. apply Pb'. eauto. }
  rewrite fill_fresh_noop in H3.
  2:{ intros v Hv. apply values_spec in Hv; [|assumption]. destruct Hv as [k G]. apply Vb' in G.
      rewrite get_identity. apply sset_mem_in in G. rewrite G. discriminate. }
  inversion H3; subst m s3; clear H3.
  rewrite (compose_identity_r bij' (c_slots c2) Wb' Vb') in H.
  apply mbind_inv in H. destruct H as (u4 & s4 & H4 & H). cbn [aid] in H4. apply raw_add_obs in H4.
  destruct H4 as (E24 & Hh4 & Hp4 & c3 & c4 & Hc3 & Hc4 & Hn4).
  rewrite Hc2 in Hc3. inversion Hc3; subst c3; clear Hc3.
  destruct (get_class_sem_ok s2 s4 i c2 E24 Hc2) as (c4' & Hc4' & Cs4). rewrite Hc4 in Hc4'. inversion Hc4'; subst c4'; clear Hc4'.
  apply csem_inv in Cs4. destruct Cs4 as (Cs4a & Cs4b & Cs4c).
  pose proof (lead_id_sem _ _ _ _ E24 LD2) as LD4. rewrite <- Cs4a in LD4.
  assert (F4 : class_flat c4).
  { unfold class_flat. rewrite Cs4a, Cs4b, Cs4c, Cs2a, Cs2b, Cs2c. auto. }
  assert (L4 : app_occ (c_syn c4) = []) by (rewrite Cs4c, Cs2c; exact Leaf).
  (* determine_self_symmetries *)
  unfold determine_self_symmetries in H.
  apply bind_reads_inv in H. destruct H as (pc1 & Hpc & H).
  apply (pc_from_src_leaf s4 i c4 pc1 Hc4 F4 L4 LD4) in Hpc. subst pc1. cbn [fst snd] in H.
  apply mbind_inv in H. destruct H as (w & s5 & H5 & H). apply lift_inv in H5. destruct H5 as [H5 ->].
  rewrite Cs4c, Cs2c, Hw in H5. inversion H5; subst w; clear H5. cbn [fst] in H.
  apply bind_reads_inv in H. destruct H as (vs & Hvs & H).
  rewrite (leaf_variants s4 _ L4) in Hvs. inversion Hvs; subst vs; clear Hvs. cbn [iterM] in H.
  apply mbind_inv in H. destruct H as (u6 & s6 & H6 & H). unfold ret in H. injection H as _ Hs6. subst s6.
  apply mbind_inv in H6. destruct H6 as (w2 & s5 & H5 & H). apply lift_inv in H5. destruct H5 as [H5 ->].
  rewrite Cs4c, Cs2c, Hw in H5. inversion H5; subst w2; clear H5. cbn [fst] in H.
  rewrite node_eqb_refl in H.
  apply mbind_inv in H. destruct H as (ab & s5 & H5 & H).
  (* pc_congruence: only the counter changes, and both sides are the identity invocation *)
  unfold pc_congruence in H5. cbn [fst snd] in H5.
  apply mbind_inv in H5. destruct H5 as (sa & s6 & H6 & H5). apply lift_inv in H6. destruct H6 as [H6 ->].
  rewrite Cs4c, Cs2c, Hw in H6. inversion H6; subst sa; clear H6.
  apply mbind_inv in H5. destruct H5 as (sb & s6 & H6 & H5). apply lift_inv in H6. destruct H6 as [H6 ->].
  rewrite Cs4c, Cs2c, Hw in H6. inversion H6; subst sb; clear H6. cbn [fst snd] in H5.
  apply mbind_inv in H5. destruct H5 as (m1 & s6 & H6 & H5). pose proof (with_ctr_only _ _ _ _ _ H6) as O6.
  unfold with_ctr in H6. destruct (compose_fresh (inv bij) bij (ectr s4)) as [m1' k1] eqn:CF1. inversion H6; subst m1' s6; clear H6.
  apply mbind_inv in H5. destruct H5 as (u7 & s7 & H7 & H5). pose proof (with_ctr_only _ _ _ _ _ H7) as O7. clear H7.
  apply mbind_inv in H5. destruct H5 as (bm & s8 & H8 & H5). pose proof (with_ctr_only _ _ _ _ _ H8) as O8.
  unfold with_ctr in H8. cbn [am] in H8.
  destruct (compose_fresh (identity (c_slots c4)) m1 (ectr s7)) as [bm' k2] eqn:CF2. inversion H8; subst bm' s8; clear H8.
  inversion H5; subst ab s5; clear H5. cbn [fst snd aid] in H.
  assert (Hbm : bm = identity (c_slots c4)).
  { replace bm with (fst (compose_fresh (identity (c_slots c4)) m1 (ectr s7))) by (rewrite CF2; reflexivity).
    apply compose_fresh_identity. intros y Hy. replace m1 with (fst (compose_fresh (inv bij) bij (ectr s4))) by (rewrite CF1; reflexivity).
    apply (compose_fresh_bij_id _ _ _ _ _ Hw). apply slots_spec. rewrite HS, <- Cs2a, <- Cs4a. assumption. }
  subst bm.
  set (s8 := set_ctr s7 k2) in *.
  assert (O48 : ctr_only s4 s8) by (eapply ctr_only_trans; [exact O6|eapply ctr_only_trans; [exact O7|exact O8]]).
  assert (E08 : sem_eq s s8).
  { eapply sem_eq_trans; [exact E2|]. eapply sem_eq_trans; [exact E24|]. apply ctr_only_sem. assumption. }
  assert (Hc8 : get_class s8 i = Ok c4) by (rewrite (ctr_only_class _ _ _ O48); assumption).
  assert (LD8 : lead_id s8 i (c_slots c4)) by (apply (lead_id_sem s4 s8); [apply ctr_only_sem; exact O48|exact LD4]).
  apply mbind_inv in H. destruct H as (b9 & s9 & H9 & H).
  rewrite (uint_refl_lead s8 i c4 (uf_ok_sem _ _ E08 Uo) (uf_slots_ok_sem _ _ E08 Us) Hc8 LD8) in H9.
  inversion H9; subst b9 s9; clear H9. inversion H; subst s'; clear H.
  destruct (ctr_only_fields _ _ O48) as (U8 & C8 & HH8 & P8).
  split; [|split; [|split]].
  - exact E08.
  - rewrite P8, Hp4, Hp2. reflexivity.
  - rewrite HH8, Hh4, Hh2. reflexivity.
  - exists c4, nd, bij'. split; [exact Hc8|]. split; [rewrite Hn4, Hn2; reflexivity|]. auto.
Qed.

(* ------------------------------------------------------------------ *)
(* 3. mk_singleton_class on a childless node *)

Lemma inv3_uf : forall s, inv3 s -> uf_ok s /\ uf_slots_ok s.
Proof. intros s [[[Hok Hsl _] _] _]. split; assumption. Qed.

Lemma synify_leaf : forall n s, app_occ n = [] -> synify_enode n s = Ok (n, s).
Proof.
  intros n s L. unfold synify_enode. rewrite L. cbn [mapM]. unfold mbind, ret. rewrite <- L, set_apps_self. reflexivity.
Qed.

Lemma mk_singleton_leaf : forall s en syn s',
  inv3 s -> pending s = [] -> na_nodup (hashcons s) -> ectr s mod 4 = 1 ->
  app_occ en = [] -> Forall (fun b => b < ectr s) (binders en) ->
  mk_singleton_class en s = Ok (syn, s') ->
  let i := N.of_nat (lc s) in
  aid syn = i /\
  exists sh bij synf c' b2 c2 nd,
    node_equiv en synf /\ wshape synf = Ok (sh, bij) /\
    hashcons s' = na_set (na_remove (na_set (hashcons s) sh i) sh) sh i /\
    get_class s' i = Ok c' /\ na_get (c_nodes c') sh = Some (b2, i) /\
    bijection_from_fresh_to (slots en) (ectr s) = (am syn, c2) /\
    pub_occ synf = map (asm_g (inv (am syn)) true) (pub_occ en) /\
    c_slots c' = values (inv (am syn)) /\
    apply_slotmap false bij sh = Ok nd /\ wshape nd = Ok (sh, b2) /\ pub_occ nd = pub_occ synf.
Proof.
  intros s en syn s' I3 Pe Nd Cm Leaf Hb H i.
  destruct (mk_singleton_walk en s syn s' I3 Hb H) as (f2o & c2 & synf & s3 & sh & bij & s4 & s5 & BF & ASF & AL & WS & RA & PI & RB & Ea & I2 & _ & _ & _ & _ & I5 & _).
  cbv zeta in *. fold i in AL, RA, Ea.
  pose proof (fresh_rename_spec en (ectr s) f2o c2 Hb BF) as R. cbv zeta in R. rewrite ASF in R. cbn [fst snd] in R.
  destruct R as (_ & Rsk & Rbi & Rsl & Req & Rpub & Rpo).
  set (s2 := set_ctr (set_ctr s c2) c2) in *.
  pose proof (alloc_eclass_exact _ _ _ _ _ AL) as (Hi & U3 & C3 & HH3 & P3 & _).
  change (lu s2) with (lu s) in Hi. change (unionfind s2) with (unionfind s) in U3.
  change (classes s2) with (classes s) in C3. change (hashcons s2) with (hashcons s) in HH3.
  change (pending s2) with (pending s) in P3.
  set (cn := {| c_nodes := []; c_slots := values (inv f2o); c_usages := []; c_group := Grp (identity (values (inv f2o))) None;
                c_syn := synf |}) in *.
  assert (Cn : class_flat cn).
  { unfold class_flat, cn. cbn [c_slots c_group c_syn]. split; [apply sset_of_list_spec|]. auto. }
  assert (Hc3 : get_class s3 i = Ok cn) by (apply (get_class_ext_new s s3 cn C3)).
  assert (LD3 : lead_id s3 i (c_slots cn)).
  { unfold lead_id, uentry. rewrite U3. unfold cn. cbn [c_slots]. rewrite <- Rsl.
    replace (N.to_nat i) with (List.length (unionfind s)); [apply nth_opt_app_last|].
    fold (lu s). apply (f_equal N.to_nat) in Hi. rewrite Nat2N.id in Hi. exact (eq_sym Hi). }
  apply raw_add_obs in RA. destruct RA as (E4 & HH4 & P4 & c3 & c4 & Hc3' & Hc4 & N4).
  rewrite Hc3 in Hc3'. inversion Hc3'; subst c3; clear Hc3'. cbn [c_nodes cn na_set] in N4.
  unfold pending_insert, modify in PI. inversion PI; subst s5; clear PI.
  unfold rebuild_fuel in RB. rewrite (rebuild_S 1999) in RB.
  apply mbind_inv in RB. destruct RB as (p & s6 & H6 & RB). inversion H6; subst p s6; clear H6.
  cbn [pending set_pending] in RB. rewrite P4, P3, Pe in RB. cbn [na_set] in RB.
  apply mbind_inv in RB. destruct RB as (u8 & s8 & H8 & RB). inversion H8; subst u8 s8; clear H8.
  apply mbind_inv in RB. destruct RB as (u9 & s9 & H9 & RB).
  set (s5 := set_pending s4 (na_set (pending s4) sh true)) in *.
  set (s8 := set_pending s5 []) in *.
  assert (E58 : sem_eq s5 s8) by (split; reflexivity).
  assert (E48 : sem_eq s4 s8) by (split; reflexivity).
  assert (E38 : sem_eq s3 s8) by (eapply sem_eq_trans; eauto).
  destruct (inv3_uf _ I5) as [Uo5 Us5].
  assert (Hc8 : get_class s8 i = Ok c4) by exact Hc4.
  destruct (get_class_sem_ok s3 s4 i cn E4 Hc3) as (c4' & Hc4' & Cs4). rewrite Hc4 in Hc4'. inversion Hc4'; subst c4'; clear Hc4'.
  apply csem_inv in Cs4. destruct Cs4 as (Cs4a & Cs4b & Cs4c). cbn [cn c_slots c_group c_syn] in Cs4a, Cs4b, Cs4c.
  assert (F4 : class_flat c4).
  { unfold class_flat. rewrite Cs4a, Cs4b, Cs4c. exact Cn. }
  assert (LD8 : lead_id s8 i (c_slots c4)).
  { rewrite Cs4a. apply (lead_id_sem s3 s8 i _ E38). exact LD3. }
  assert (L4 : app_occ (c_syn c4) = []).
  { rewrite Cs4c. apply (ckeys_leaf en synf); [apply skel_ckeys; symmetry; exact Rsk|exact Leaf]. }
  assert (Hm : forall x, In x (pub_occ (c_syn c4)) -> x mod 4 <> 0).
  { rewrite Cs4c. intros x Hx. destruct (Rpub x Hx) as (_ & M). rewrite Cm in M. lia. }
  assert (Nd8 : na_nodup (hashcons s8)).
  { change (hashcons s8) with (hashcons s4). rewrite HH4. apply na_nodup_set. rewrite HH3. assumption. }
  assert (Hn8 : na_get (c_nodes c4) sh = Some (bij, i)).
  { rewrite N4. cbn [na_get]. rewrite node_eqb_refl. reflexivity. }
  assert (Hh8 : na_get (hashcons s8) sh = Some i).
  { change (hashcons s8) with (hashcons s4). rewrite HH4. apply na_get_set_same. }
  assert (Hw8 : wshape (c_syn c4) = Ok (sh, bij)) by (rewrite Cs4c; assumption).
  destruct (hp_leaf s8 i sh bij c4 u9 s9 (uf_ok_sem _ _ E58 Uo5) (uf_slots_ok_sem _ _ E58 Us5) Nd8 Hc8 F4 LD8 L4 Hn8 Hh8 Hw8 Hm H9)
    as (E9 & P9 & HH9 & c9 & nd & b9 & Hc9 & N9 & And & Wnd).
  rewrite (rebuild_S 1998) in RB. apply mbind_inv in RB. destruct RB as (p & s10 & H10 & RB).
  inversion H10; subst p s10; clear H10. rewrite P9 in RB. cbn [pending s8 set_pending] in RB. inversion RB; subst s'; clear RB.
  split; [rewrite Ea; reflexivity|].
  exists sh, bij, synf, c9, b9, c2, nd. rewrite Ea. cbn [am].
  split; [assumption|]. split; [assumption|]. split; [|split; [|split; [|split; [|split; [|split; [|split; [|split]]]]]]].
  - rewrite HH9. change (hashcons s8) with (hashcons s4). rewrite HH4, HH3. reflexivity.
  - assumption.
  - rewrite N9. apply na_get_set_same.
  - assumption.
  - assumption.
  - destruct (get_class_sem_ok s8 s9 i c4 E9 Hc8) as (c9' & Hc9' & Cs9). rewrite Hc9 in Hc9'. inversion Hc9'; subst c9'.
    apply csem_inv in Cs9. destruct Cs9 as (-> & _). assumption.
  - assumption.
  - assumption.
  - assert (Hm' : forall x, In x (pub_occ synf) -> x mod 4 <> 0) by (rewrite <- Cs4c; exact Hm).
    apply (shape_unapply _ _ _ _ WS And Hm').
Qed.

(* ------------------------------------------------------------------ *)
(* 4. the theorem *)

Theorem leaf_hit_after : forall xn s a s1,
  inv3 s -> pending s = [] -> na_nodup (hashcons s) -> ectr s mod 4 = 1 ->
  app_occ xn = [] -> (forall x, In x (pub_occ xn) -> x mod 4 <> 1 \/ x < ectr s) ->
  eg_add xn s = Ok (a, s1) -> Hit xn a s1.
Proof.
  intros xn s a s1 I3 Pe Nd Cm L Lt E.
  destruct (eg_add_cases xn s a s1 E) as [[Hl ->]|Miss]; [apply Hit_iff_lookup; exact Hl|].
  apply Hit_iff_lookup.
  unfold eg_add in E. apply bind_reads_inv in E. destruct E as (t & Ht & H).
  unfold eg_lookup in Miss. rewrite Ht in Miss. cbn [bind] in Miss.
  rewrite (leaf_shape s xn L) in Ht. destruct t as [sh_t bij_t]. rename Ht into Hw.
  unfold eg_lookup. rewrite (leaf_shape s1 xn L), Hw. cbn [bind].
  destruct (add_internal_walk (sh_t, bij_t) s a s1 I3 Miss H)
    as (en1 & c1 & en2 & en3 & s3 & syn & RP & AS & SY & MK & SEM & I1 & _ & I3' & _ & Hb3).
  cbv zeta in *. cbn [fst snd] in *.
  pose proof (refresh_private_step sh_t (ectr s)) as St1. rewrite RP in St1. cbn [snd] in St1.
  destruct (refresh_private_spec _ _ _ _ RP) as (Sk1 & Bi1 & Pa1).
  pose proof (apply_slotmap_ren _ _ _ AS) as R2.
  assert (Sk2 : skel en2 = skel xn).
  { rewrite R2, ren_skel, Sk1. apply (ws_skel _ _ _ Hw). }
  assert (Bi2 : binders en2 = binders en1).
  { rewrite R2, ren_binders. unfold asm_g. apply map_id. }
  assert (L2 : app_occ en2 = []) by (apply (ckeys_leaf xn en2); [apply skel_ckeys; symmetry; exact Sk2|exact L]).
  rewrite (synify_leaf en2 _ L2) in SY. inversion SY; subst en3 s3; clear SY.
  set (s3 := set_ctr s c1) in *.
  assert (Cm3 : ectr s3 mod 4 = 1).
  { unfold s3. cbn [Model.ctr set_ctr]. rewrite (ctr_step_mod _ _ St1). assumption. }
  destruct (mk_singleton_leaf s3 en2 syn s1 I3' Pe Nd Cm3 L2 Hb3 MK)
    as (Ai & sh & bij & synf & c' & b2 & c2 & nd & Eq4 & W4 & HH4 & Hc4 & N4 & BF & Psyn & Sl4 & And & Wnd & Pnd).
  cbv zeta in *. change (lc s3) with (lc s) in *. change (hashcons s3) with (hashcons s) in HH4.
  (* the shape of the syntactic node is the shape that was looked up *)
  assert (M0 : forall x, In x (pub_occ sh_t) -> x mod 4 <> ectr s mod 4).
  { intros x Hx. apply pub_occ_all_occ in Hx. rewrite (shape_all_occ_mod4 _ _ _ Hw x Hx), Cm. lia. }
  specialize (Pa1 M0).
  assert (P1 : pub_occ en1 = pub_occ sh_t) by (rewrite <- !frees_pattern, Pa1; reflexivity).
  assert (Q1 : node_equiv sh_t en1).
  { split; [symmetry; assumption|]. exists (fun x => x). split; [intros x y _ _ E; exact E|].
    rewrite rename_occ_id. symmetry. assumption. }
  destruct (shape_bij _ _ _ Hw) as (B1 & B2 & B3).
  assert (C1 : inj_on (asm_g bij_t false) (binders en1)) by (intros x y _ _ E; exact E).
  assert (C2 : forall x b, In x (pub_occ en1) -> In b (binders en1) -> asm_g bij_t true x <> asm_g bij_t false b).
  { intros x b Hx Hb. rewrite P1 in Hx. unfold asm_g. apply B2 in Hx.
    destruct (get bij_t x) as [y|] eqn:G; [|congruence].
    assert (Hy : In y (pub_occ xn)) by (apply B1; eauto). apply Lt in Hy.
    pose proof (proj1 (Forall_forall _ _) Bi1 b Hb) as Hb'. cbv beta in Hb'. destruct Hb' as [Hb1 Hb2].
    intros ->. destruct Hy as [Hy|Hy]; [apply Hy; rewrite Hb2; exact Cm|lia]. }
  assert (Q2 : node_equiv en1 en2).
  { rewrite R2. apply ren_equiv; [assumption|assumption|].
    intros x y Hx Hy. rewrite P1 in Hx, Hy. unfold asm_g. apply B2 in Hx, Hy.
    destruct (get bij_t x) as [u|] eqn:Gx; [|congruence]. destruct (get bij_t y) as [v|] eqn:Gy; [|congruence].
    intros ->. exact (shape_bij_inj _ _ _ Hw _ _ _ Gx Gy). }
  assert (P2 : pub_occ en2 = map (asm_g bij_t true) (pub_occ sh_t)).
  { rewrite R2, ren_pub_occ by assumption. rewrite P1. reflexivity. }
  assert (Q : node_equiv sh_t synf).
  { eapply node_equiv_trans; [exact Q1|]. eapply node_equiv_trans; [exact Q2|exact Eq4]. }
  destruct (shape_idempotent _ _ _ Hw) as [bij0 W0].
  assert (Esh : sh = sh_t) by (symmetry; exact (shape_invariant sh_t synf sh_t bij0 sh bij W0 W4 Q)).
  subst sh.
  (* the lookup *)
  unfold lookup_internal. rewrite HH4, na_get_set_same, Hc4. cbn [bind]. rewrite N4.
  unfold semify_app_id, class_slots in SEM. rewrite Ai, Hc4 in SEM. cbn [bind] in SEM. inversion SEM as [Ea].
  do 3 f_equal. rewrite Sl4.
  apply (lookup_map_eq xn sh_t bij_t en2 (ectr s3) (am syn) c2 synf nd b2); assumption.
Qed.

(* SubstIface.HitAfterAdd *)
Theorem hit_after_add : HitAfterAdd.
Proof.
  intros E xn s a s1 (I3 & _ & _ & _ & Cm) (Pe & Hc & _) L (Occ & _) H.
  apply (leaf_hit_after xn s a s1 I3 Pe (tb_hc s (proj1 Hc)) Cm L); [|exact H].
  intros x Hx. destruct (Occ x (pub_occ_all_occ _ _ Hx)) as [_ D]. exact D.
Qed.

Print Assumptions hp_leaf.
Print Assumptions mk_singleton_leaf.
Print Assumptions leaf_hit_after.
Print Assumptions hit_after_add.
