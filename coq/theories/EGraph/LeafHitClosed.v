(* EGraph/LeafHitClosed.v — C03, b[x := t]: re-inserting a childless node returns EXACTLY the same invocation after the
   insertion of any other node (SubstIface.HitKeepAdd: the former hypothesis `hit_keep_add` of RewriteSoundSubstRel.v /
   RewriteSoundSubstSem.v), and right after its own insertion (SubstIface.HitAfterAdd = LeafHitAfter.hit_after_add).
   The implementation's substitution compares `add_syn(n) == x` syntactically, so exactness (not equality up to eg_eq)
   is what is needed, and it holds: on a miss, eg_add allocates one class i and its rebuild only touches i
   (LeafFrame.rebuild_new_frame), since the re-added node is not hash-consed (LeafNoHit.add_miss_nohit), so the
   hash-cons entry, the stored bijection and the slots of the class of the leaf are literally unchanged. *)
From SE Require Import Slots.SlotMapFacts Lang.LangFacts Lang.ShapeFacts
  EGraph.Model EGraph.ModelFacts EGraph.ModelMachine EGraph.UnionFindFacts EGraph.InvariantFacts EGraph.AddCoversFacts
  EGraph.HashconsFacts EGraph.RewriteFacts EGraph.RepFacts EGraph.RewriteSound EGraph.RewriteSoundSubst
  EGraph.LeafHit EGraph.SubstIface EGraph.LeafFrameDefs EGraph.LeafFrame EGraph.LeafNoHit EGraph.LeafHitAfter.
From SE Require Import Sem.FpRewriteSubstCore.
Require Import ZArith Lia List. Import ListNotations.

Local Notation ectr := Model.ctr.

(* the statement with exactly the premises used *)
Theorem hit_keep_add_closed : forall xn x' m s b s',
  inv3 s -> pending s = [] -> hc_ok s -> ectr s mod 4 = 1 -> node_pre s m ->
  app_occ xn = [] -> Hit xn x' s -> eg_add m s = Ok (b, s') -> Hit xn x' s'.
Proof.
  intros xn x' m s b s' I3 Pe Hc Cm NP L HH H.
  destruct (eg_add_cases m s b s' H) as [[_ ->]|Miss]; [exact HH|].
  destruct (wshape xn) as [[sh nb]|e] eqn:W.
  2:{ exfalso. apply Hit_iff_lookup in HH. unfold eg_lookup in HH. rewrite (leaf_shape s xn L), W in HH. discriminate HH. }
  destruct (proj1 (Hit_leaf_entry xn x' s sh nb L W) HH) as ([[j b0] sl] & He & Ex).
  destruct (add_miss_nohit m b s s' I3 Pe Hc Cm NP Miss H) as (i & shm & bij0 & s5 & RB & PR & _ & LE & MC & NH).
  destruct (LE sh _ He) as [He5 Nj]. cbn [fst] in Nj.
  assert (ND : na_nodup (hashcons s5)).
  { destruct MC as (_ & Eh & _). rewrite Eh. apply na_nodup_set. exact (tb_hc s (proj1 Hc)). }
  pose proof (rebuild_new_frame i shm bij0 s5 s' PR NH ND RB) as K.
  pose proof (keep_leaf_entry i s5 s' sh j b0 sl K He5 Nj) as He'.
  apply (Hit_leaf_entry xn x' s' sh nb L W). exists (j, b0, sl). split; [exact He'|exact Ex].
Qed.

Theorem hit_keep_add : HitKeepAdd.
Proof.
  intros E xn x' n l s b s' (I3 & _ & _ & _ & Cm) (Pe & Hc & _) L IP HH H.
  exact (hit_keep_add_closed xn x' (set_apps n l) s b s' I3 Pe Hc Cm (ins_pre_node_pre s n l IP) L HH H).
Qed.

Theorem hit_after_add : HitAfterAdd.
Proof. exact LeafHitAfter.hit_after_add. Qed.

Check hit_keep_add_closed.
Print Assumptions hit_keep_add_closed.
Print Assumptions hit_keep_add.
Print Assumptions hit_after_add.
