(* EGraph/LeafNoHit.v — on a lookup miss of eg_add, the node that the rebuild inside mk_singleton_class re-adds to the
   new class is not hash-consed (`NoHit` of LeafFrameDefs.v): handle_pending never takes the congruence branch for
   the pending entry of the new node. *)
From SE Require Import Slots.SlotMapFacts Group.GroupSound Lang.LangFacts Lang.ShapeFacts Lang.RenameFacts Base.TextFacts
  EGraph.Model EGraph.ModelFacts EGraph.ModelMachine EGraph.UnionFindFacts EGraph.InvariantFacts
  EGraph.UnionInvariantFacts EGraph.AddCoversFacts EGraph.HashconsShape EGraph.HashconsAbs EGraph.HashconsFacts
  EGraph.NoErrorShape EGraph.LeafHit EGraph.LeafFrameDefs EGraph.LeafNoHitPre.
Require Import ZArith Lia ZifyBool ZifyN ZifyNat List. Import ListNotations.

Local Notation "a ** b" := (compose_partial a b) (at level 40, left associativity).
Local Notation inv := inverse_nocheck.
Local Notation ectr := Model.ctr.

(* ================================================================== *)
(* 1. the shape (in s) of the weak shape under which the new node is stored is the shape of the inserted node
      (generalisation of HashconsAbs.add_shape_absent_proved: same chain, for an arbitrary result) *)

Theorem new_shape_is_old : forall s n t en1 c1 en2 en3 s3 f2o c2 synf c3 sh0 b0,
  inv3 s ->
  Forall (covers s) (app_occ n) ->
  ectr s mod 4 = 1 ->
  (forall x, In x (pub_occ n) -> x < ectr s \/ x mod 4 <> 1) ->
  (exists b, shape s (fst t) = Ok (fst t, b)) ->
  shape s n = Ok t ->
  refresh_private (fst t) (ectr s) = (Ok en1, c1) -> apply_slotmap false (snd t) en1 = Ok en2 ->
  synify_enode en2 (set_ctr s c1) = Ok (en3, s3) ->
  bijection_from_fresh_to (slots en3) (ectr s3) = (f2o, c2) ->
  apply_slotmap_fresh false (inverse_nocheck f2o) en3 c2 = (synf, c3) ->
  wshape synf = Ok (sh0, b0) ->
  forall Y bc, shape s sh0 = Ok (Y, bc) -> Y = fst t.
Proof.
  intros s n [sh bij] en1 c1 en2 en3 s3 f2o c2 synf c3 sh0 b0 I3 Cv C4 Pn [bi Idem] H RP AS SY BF ASF W Y bc Sc.
  cbn [fst snd] in *.
  pose proof (proj1 (proj1 I3)) as Hs.
  unfold shape in H. destruct (pre_shape s n) as [p|] eqn:P; cbn [bind] in H; [|discriminate].
  unfold pre_shape in P.
  destruct (find_enode s n) as [n1|] eqn:F; cbn [bind] in P; [|discriminate].
  destruct (variants s n1) as [vs|] eqn:V; cbn [bind] in P; [|discriminate].
  apply min_variant_in in P. destruct P as [P|[k P]]; [|discriminate].
  destruct (find_enode_sub s n n1 F) as (B1 & P1). destruct (variants_sub s n1 vs p V P) as (B2 & P2).
  assert (Pp : incl (pub_occ p) (pub_occ n)) by (intros x Hx; apply P1, P2, Hx).
  pose proof (variants_full s n1 vs p (find_enode_full s n n1 Hs Cv F) V P) as Fullp.
  destruct (ws_top _ _ _ H) as (_ & _ & _ & _ & Sk & _).
  assert (Fullsh : kids_full s sh) by (apply (kids_full_skel s p sh); [symmetry; exact Sk|exact Fullp]).
  pose proof (ws_binders_nodup _ _ _ H) as NDsh.
  pose proof (shape_all_occ_mod4 _ _ _ H) as M4.
  destruct (shape_bij _ _ _ H) as (Sb1 & Sb2 & _).
  pose proof (refresh_private_step sh (ectr s)) as St1. rewrite RP in St1. cbn [snd] in St1. apply ctr_step_le in St1.
  destruct (refresh_private_ren _ _ _ _ RP) as (g0 & E1 & G0t & G0i & G0r).
  assert (R1b : forall x b, In x (pub_occ sh) -> In b (binders sh) -> g0 true x <> g0 false b).
  { intros x b Hx Hb. rewrite G0t. apply pub_in_all in Hx. apply M4 in Hx.
    destruct (G0r b Hb) as (_ & Gm). intros E. rewrite <- E in Gm. lia. }
  assert (R1c : inj_on (g0 true) (pub_occ sh)) by (intros x y _ _; rewrite !G0t; auto).
  assert (Pub1 : pub_occ en1 = pub_occ sh).
  { rewrite E1, (ren_pub_occ g0 sh G0i R1b). rewrite <- (map_id (pub_occ sh)) at 2. apply map_ext. exact G0t. }
  assert (Bi1 : binders en1 = map (g0 false) (binders sh)) by (rewrite E1; apply ren_binders).
  assert (ND1 : NoDup (binders en1)) by (rewrite Bi1; apply NoDup_map_inj_on; assumption).
  assert (Rg1 : forall b, In b (binders en1) -> ectr s <= b < c1 /\ b mod 4 = 1).
  { intros b Hb. rewrite Bi1 in Hb. apply in_map_iff in Hb. destruct Hb as (b' & <- & Hb').
    destruct (G0r b' Hb') as (A & B). split; [assumption|]. rewrite B. exact C4. }
  assert (Sk1 : skel en1 = skel sh) by (rewrite E1; apply ren_skel).
  pose proof (apply_slotmap_ren _ _ _ AS) as E2.
  assert (R2a : inj_on (asm_g bij false) (binders en1)) by (intros x y _ _ E; exact E).
  assert (R2b : forall x b, In x (pub_occ en1) -> In b (binders en1) -> asm_g bij true x <> asm_g bij false b).
  { intros x b Hx Hb. rewrite Pub1 in Hx. unfold asm_g. apply Sb2 in Hx.
    destruct (get bij x) as [y|] eqn:G; [|congruence].
    assert (Hy : In y (pub_occ n)) by (apply Pp; apply Sb1; eauto).
    destruct (Rg1 b Hb) as (A & B). destruct (Pn y Hy) as [Q|Q]; intros ->; lia. }
  assert (R2c : inj_on (asm_g bij true) (pub_occ en1)).
  { intros x y Hx Hy. rewrite Pub1 in Hx, Hy. unfold asm_g. apply Sb2 in Hx, Hy.
    destruct (get bij x) as [u|] eqn:Gx; [|congruence]. destruct (get bij y) as [v|] eqn:Gy; [|congruence].
    intros ->. exact (shape_bij_inj p sh bij H x y v Gx Gy). }
  assert (Bi2 : binders en2 = binders en1) by (rewrite E2, ren_binders; unfold asm_g; apply map_id).
  assert (Sk2 : skel en2 = skel en1) by (rewrite E2; apply ren_skel).
  assert (Full2 : kids_full s en2).
  { apply (kids_full_skel s sh en2); [rewrite Sk2, Sk1; reflexivity|exact Fullsh]. }
  pose proof (synify_enode_binders _ _ _ _ SY) as Bi3.
  pose proof (shape_synify s _ en2 en3 s3 Hs Full2 SY) as Sh3.
  pose proof (s_synify_enode _ _ _ _ SY) as [_ L13]. cbn [Model.ctr set_ctr] in L13.
  pose proof (slots_sorted en3) as W3.
  destruct (fresh_spec _ _ _ _ W3 BF) as (F1 & F2).
  set (o2f := inverse_nocheck f2o) in *.
  assert (K : forall x, In x (pub_occ en3) -> get o2f x <> None).
  { intros x Hx. apply slots_spec in Hx. destruct (F1 x Hx) as (y & -> & _). discriminate. }
  rewrite (asf_ren o2f en3 c2 K) in ASF. fold (asm_g o2f) in ASF. injection ASF as E4 _.
  assert (R4a : inj_on (asm_g o2f false) (binders en3)) by (intros x y _ _ E'; exact E').
  assert (R4b : forall x b, In x (pub_occ en3) -> In b (binders en3) -> asm_g o2f true x <> asm_g o2f false b).
  { intros x b Hx Hb. unfold asm_g. apply slots_spec in Hx. destruct (F1 x Hx) as (y & -> & Hy & _).
    rewrite Bi3, Bi2 in Hb. destruct (Rg1 b Hb) as (A & _). lia. }
  assert (R4c : inj_on (asm_g o2f true) (pub_occ en3)).
  { intros x y Hx Hy. unfold asm_g. apply slots_spec in Hx, Hy.
    destruct (F1 x Hx) as (u & Gu & _). destruct (F1 y Hy) as (v & Gv & _). rewrite Gu, Gv. intros ->.
    eapply F2; eauto. }
  assert (ND4 : NoDup (binders synf)).
  { rewrite <- E4, ren_binders. unfold asm_g. rewrite map_id, Bi3, Bi2. exact ND1. }
  destruct (wshape_fwd synf sh0 b0 W ND4) as (g1 & E5 & (R5a & R5b & R5c)).
  assert (S5 : shape s (RenameFacts.ren g1 synf) = Ok (Y, bc)) by (rewrite <- E5; exact Sc).
  destruct (shape_ren_conv s g1 synf (Y, bc) R5a R5b R5c S5) as [b4 S4]. cbn [fst] in S4.
  rewrite <- E4 in S4.
  destruct (shape_ren_conv s (asm_g o2f) en3 (Y, b4) R4a R4b R4c S4) as [b3 S3]. cbn [fst] in S3.
  rewrite Sh3, E2 in S3.
  destruct (shape_ren_conv s (asm_g bij) en1 (Y, b3) R2a R2b R2c S3) as [b1 S1]. cbn [fst] in S1.
  rewrite E1 in S1.
  destruct (shape_ren_conv s g0 sh (Y, b1) G0i R1b R1c S1) as [b' S0]. cbn [fst] in S0.
  rewrite Idem in S0. inversion S0; subst Y. reflexivity.
Qed.

Corollary new_shape_is_old_nodup : forall s n t en1 c1 en2 en3 s3 f2o c2 synf c3 sh0 b0,
  inv3 s ->
  Forall (covers s) (app_occ n) ->
  ectr s mod 4 = 1 ->
  (forall x, In x (pub_occ n) -> x < ectr s \/ x mod 4 <> 1) ->
  NoDup (binders n) ->
  shape s n = Ok t ->
  refresh_private (fst t) (ectr s) = (Ok en1, c1) -> apply_slotmap false (snd t) en1 = Ok en2 ->
  synify_enode en2 (set_ctr s c1) = Ok (en3, s3) ->
  bijection_from_fresh_to (slots en3) (ectr s3) = (f2o, c2) ->
  apply_slotmap_fresh false (inverse_nocheck f2o) en3 c2 = (synf, c3) ->
  wshape synf = Ok (sh0, b0) ->
  forall Y bc, shape s sh0 = Ok (Y, bc) -> Y = fst t.
Proof.
  intros s n t en1 c1 en2 en3 s3 f2o c2 synf c3 sh0 b0 I3 Cv C4 Pn ND H.
  apply (new_shape_is_old s n t en1 c1 en2 en3 s3 f2o c2 synf c3 sh0 b0 I3 Cv C4 Pn); [|exact H].
  pose proof (proj1 (proj1 I3)) as Hs. destruct t as [sh bij]. cbn [fst].
  pose proof H as H'. unfold shape, pre_shape in H'.
  destruct (find_enode s n) as [n1|] eqn:F; cbn [bind] in H'; [|discriminate]. clear H'.
  destruct (find_enode_idem s n n1 (ei_uf _ Hs) F) as [Fi _].
  assert (Sn1 : shape s n1 = Ok (sh, bij)).
  { unfold shape, pre_shape in *. rewrite Fi. rewrite F in H. exact H. }
  apply (shape_idem_nodup s n n1 sh bij Hs F); [|exact Sn1].
  rewrite (find_enode_binders s n n1 F). exact ND.
Qed.

(* ================================================================== *)
(* 2. frame lemmas for find: only the union-find entries of the ids below a bound closed under the entries matter *)

Lemma uf_get_go_agree : forall (u u' : list appid) (n : nat),
  (forall i, (N.to_nat i < n)%nat -> uentry u' i = uentry u i) ->
  (forall i e, (N.to_nat i < n)%nat -> uentry u i = Some e -> (N.to_nat (aid e) < n)%nat) ->
  forall fuel i, (N.to_nat i < n)%nat -> uf_get_go fuel u' i = uf_get_go fuel u i.
Proof.
  intros u u' n Ha Hb. induction fuel as [|f IH]; intros i L; cbn [uf_get_go]; [reflexivity|].
  pose proof (Ha i L) as E. unfold uentry in E. rewrite E.
  destruct (nth_opt u (N.to_nat i)) as [e|] eqn:Ee; [|reflexivity].
  destruct (aid e =? i); [reflexivity|]. rewrite IH by (eapply Hb; [exact L|exact Ee]). reflexivity.
Qed.

Lemma find_frame_lt : forall s sX a, uf_ok s ->
  (forall j, (N.to_nat j < lu s)%nat -> uentry (unionfind sX) j = uentry (unionfind s) j) ->
  (lu s <= lu sX)%nat -> (N.to_nat (aid a) < lu s)%nat ->
  find_applied_id sX a = find_applied_id s a.
Proof.
  intros s sX a Hok Ha Le L. unfold find_applied_id.
  destruct (unionfind_get_ok s (aid a) Hok L) as [p Hp]. rewrite Hp.
  unfold unionfind_get in *.
  rewrite (uf_get_go_agree (unionfind s) (unionfind sX) (lu s) Ha) by
    (try exact L; intros i e _ He; exact (ufl_bound _ Hok i e He)).
  rewrite (uf_get_go_fuel_irrel _ Hok _ (S (List.length (unionfind sX))) _ _ Hp); [reflexivity|].
  lia.
Qed.

Lemma find_enode_frame_lt : forall s sX n, uf_ok s ->
  (forall j, (N.to_nat j < lu s)%nat -> uentry (unionfind sX) j = uentry (unionfind s) j) ->
  (lu s <= lu sX)%nat -> (forall j, In j (node_ids n) -> (N.to_nat j < lu s)%nat) ->
  find_enode sX n = find_enode s n.
Proof.
  intros s sX n Hok Ha Le Hn. unfold find_enode.
  rewrite (mapr_ext (find_applied_id sX) (find_applied_id s)); [reflexivity|].
  intros a Hin. apply find_frame_lt; try assumption. apply Hn. unfold node_ids. apply in_map. exact Hin.
Qed.

Lemma found_ids_lt : forall s n0 n, uf_ok s -> find_enode s n0 = Ok n ->
  forall j, In j (node_ids n) -> leader s j /\ (N.to_nat j < lu s)%nat.
Proof.
  intros s n0 n Hok F j Hj. destruct (find_enode_idem s n0 n Hok F) as [_ Hall].
  unfold node_ids in Hj. apply in_map_iff in Hj. destruct Hj as (a & <- & Ha).
  destruct (Hall a Ha) as [a0 Fa]. pose proof (find_is_leader s a0 a Fa) as L. split; [exact L|].
  destruct L as (e & He & _). exact (uentry_lt _ _ _ He).
Qed.

Lemma shape_of_found : forall s n0 n, uf_ok s -> find_enode s n0 = Ok n -> shape s n = shape s n0.
Proof.
  intros s n0 n Hok F. destruct (find_enode_idem s n0 n Hok F) as [Fi _].
  unfold shape, pre_shape. rewrite Fi, F. reflexivity.
Qed.

(* ================================================================== *)
(* 3. the core: NoHit from the walk and the connection between s and s5 *)

Section Core.
  Variables (m : node) (s s5 : egraph) (i : N) (shm : node) (bij0 : slotmap).
  Variables (t : node * slotmap) (en1 : node) (c1 : N) (en2 en3 : node) (s3 : egraph) (f2o : slotmap) (c2 c3 : N) (synf : node).
  Hypothesis I3 : inv3 s.
  Hypothesis C4 : ectr s mod 4 = 1.
  Hypothesis NP : node_pre s m.
  Hypothesis Ht : shape s m = Ok t.
  Hypothesis Habs : na_get (hashcons s) (fst t) = None.
  Hypothesis RP : refresh_private (fst t) (ectr s) = (Ok en1, c1).
  Hypothesis AS : apply_slotmap false (snd t) en1 = Ok en2.
  Hypothesis SY : synify_enode en2 (set_ctr s c1) = Ok (en3, s3).
  Hypothesis BF : bijection_from_fresh_to (slots en3) (ectr s3) = (f2o, c2).
  Hypothesis ASF : apply_slotmap_fresh false (inverse_nocheck f2o) en3 c2 = (synf, c3).
  Hypothesis WS : wshape synf = Ok (shm, bij0).
  Hypothesis Ei : i = N.of_nat (lc s).
  Hypothesis AbsM : na_get (hashcons s) shm = None.
  Hypothesis Hh5 : hashcons s5 = na_set (hashcons s) shm i.
  Hypothesis Hu5 : exists e, unionfind s5 = unionfind s ++ [e].
  Hypothesis Wf : List.length (unionfind s) = lc s.
  Hypothesis Hg5 : forall j, j <> i -> cgroup s5 j = cgroup s j.
  Hypothesis Ids : forall j, In j (node_ids shm) -> (N.to_nat j < lc s)%nat.

  Let Hs : eg_inv s := proj1 (proj1 I3).
  Let Hok : uf_ok s := ei_uf _ Hs.

  Lemma lu_lc : lu s = lc s.
  Proof. exact Wf. Qed.

  (* a state that differs from s5 only in i has the union-find entries of s below i *)
  Lemma only_i_uf : forall sX, only_i i shm s5 sX ->
    (forall j, (N.to_nat j < lu s)%nat -> uentry (unionfind sX) j = uentry (unionfind s) j) /\ (lu s <= lu sX)%nat.
  Proof.
    intros sX (_ & _ & Len & Uo & _). destruct Hu5 as [e0 U5]. split.
    - intros j L. rewrite lu_lc in L. rewrite (Uo j) by (rewrite Ei; lia).
      rewrite U5. unfold uentry. apply nth_opt_app1. rewrite Wf. exact L.
    - rewrite Len, U5, app_length. lia.
  Qed.

  Lemma only_i_grp : forall sX j, only_i i shm s5 sX -> (N.to_nat j < lc s)%nat -> cgroup sX j = cgroup s j.
  Proof.
    intros sX j (_ & _ & _ & _ & _ & Co & _) L.
    assert (Nj : j <> i) by (rewrite Ei; lia).
    rewrite <- (Hg5 j Nj). destruct (get_class_ok s j L) as [c Hc].
    pose proof (Hg5 j Nj) as G. unfold cgroup in G. rewrite Hc in G.
    unfold cgroup at 2. destruct (get_class s5 j) as [c5|] eqn:Hc5; [|discriminate].
    destruct (Co j c5 Nj Hc5) as (c' & Hc' & _ & _ & Eg & _). unfold cgroup. rewrite Hc', Eg. reflexivity.
  Qed.

  Section Nd.
    Variable nd : node.
    Hypothesis Hnd : apply_slotmap false bij0 shm = Ok nd.

    Lemma nd_ids : forall j, In j (node_ids nd) -> (N.to_nat j < lu s)%nat.
    Proof. intros j Hj. rewrite (apply_slotmap_ids _ _ _ Hnd) in Hj. rewrite lu_lc. exact (Ids j Hj). Qed.

    (* every node of the FE chain is the find_enode of nd in s *)
    Lemma FE_is_found : forall e, FE i shm s5 nd e -> find_enode s nd = Ok e.
    Proof.
      intros e H. induction H as [sX e O F|sX e e' _ IH O F].
      - destruct (only_i_uf sX O) as [Ua Le].
        rewrite <- (find_enode_frame_lt s sX nd Hok Ua Le nd_ids). exact F.
      - destruct (only_i_uf sX O) as [Ua Le].
        rewrite (find_enode_frame_lt s sX e Hok Ua Le) in F by (intros j Hj; exact (proj2 (found_ids_lt s nd e Hok IH j Hj))).
        destruct (find_enode_idem s nd e Hok IH) as [Fi _]. rewrite Fi in F. inversion F; subst e'. exact IH.
    Qed.

    (* the shape of nd in s is the shape of m *)
    Lemma nd_shape : forall Y b, shape s nd = Ok (Y, b) -> Y = fst t.
    Proof.
      intros Y b S. destruct NP as (Cov & Old & ND).
      pose proof (apply_slotmap_ren _ _ _ Hnd) as End. rewrite End in S.
      pose proof (shape_all_occ_mod4 _ _ _ WS) as M4.
      destruct (shape_bij_props _ _ _ WS) as (Wb & Bb & Vb).
      destruct (shape_bij _ _ _ WS) as (Sb1 & Sb2 & _).
      (* the values of bij0 are the public slots of synf, drawn fresh: 1 mod 4 *)
      pose proof (slots_sorted en3) as W3.
      destruct (fresh_spec _ _ _ _ W3 BF) as (F1 & F2).
      assert (K : forall x, In x (pub_occ en3) -> get (inverse_nocheck f2o) x <> None).
      { intros x Hx. apply slots_spec in Hx. destruct (F1 x Hx) as (y & -> & _). discriminate. }
      pose proof ASF as ASF'. rewrite (asf_ren (inverse_nocheck f2o) en3 c2 K) in ASF'. fold (asm_g (inverse_nocheck f2o)) in ASF'.
      injection ASF' as E4 _.
      assert (C3 : ectr s3 mod 4 = 1).
      { pose proof (refresh_private_step (fst t) (ectr s)) as St1. rewrite RP in St1. cbn [snd] in St1.
        assert (St3 : ctr_rel (set_ctr s c1) s3).
        { apply (pres_synify_enode ctr_rel) in SY; [exact SY| | |].
          - intros s0. apply ctr_step_refl.
          - intros a0 b0 c0. apply ctr_step_trans.
          - intros s0 y s0' H0. inversion H0. unfold ctr_rel. cbn [Model.ctr set_ctr]. apply ctr_step_4. }
        unfold ctr_rel in St3. cbn [Model.ctr set_ctr] in St3.
        rewrite (ctr_step_mod _ _ St3), (ctr_step_mod _ _ St1). exact C4. }
      assert (Hb3 : Forall (fun b => b < ectr s3) (binders en3)).
      { destruct (refresh_private_spec _ _ _ _ RP) as (_ & Bi1 & _).
        pose proof (apply_slotmap_ren _ _ _ AS) as R2.
        assert (Bi2 : binders en2 = binders en1) by (rewrite R2, ren_binders; unfold asm_g; apply map_id).
        pose proof (s_synify_enode _ _ _ _ SY) as S13.
        rewrite (synify_enode_binders _ _ _ _ SY), Bi2. revert Bi1. apply Forall_impl. intros b1 ((_ & Hb1) & _).
        destruct S13 as [_ L13]. cbn [Model.ctr set_ctr] in L13. lia. }
      assert (Pv : forall y, In y (pub_occ synf) -> y mod 4 = 1).
      { intros y Hy. pose proof (fresh_rename_spec en3 (ectr s3) f2o c2 Hb3 BF) as R. cbv zeta in R.
        rewrite ASF in R. cbn [fst snd] in R. destruct R as (_ & _ & _ & _ & _ & Pb & _).
        destruct (Pb y Hy) as [_ My]. rewrite My. exact C3. }
      assert (R6a : inj_on (asm_g bij0 false) (binders shm)) by (intros x y _ _ E; exact E).
      assert (R6b : forall x bb, In x (pub_occ shm) -> In bb (binders shm) -> asm_g bij0 true x <> asm_g bij0 false bb).
      { intros x bb Hx Hb. unfold asm_g. apply Sb2 in Hx. destruct (get bij0 x) as [y|] eqn:G; [|congruence].
        assert (Hy : In y (pub_occ synf)) by (apply Sb1; eauto).
        apply Pv in Hy. apply binders_all_occ in Hb. apply M4 in Hb. intros ->. lia. }
      assert (R6c : inj_on (asm_g bij0 true) (pub_occ shm)).
      { intros x y Hx Hy. unfold asm_g. apply Sb2 in Hx, Hy.
        destruct (get bij0 x) as [u|] eqn:Gx; [|congruence]. destruct (get bij0 y) as [v|] eqn:Gy; [|congruence].
        intros ->. exact (shape_bij_inj synf shm bij0 WS x y v Gx Gy). }
      destruct (shape_ren_conv s (asm_g bij0) shm (Y, b) R6a R6b R6c S) as [b6 S6]. cbn [fst] in S6.
      exact (new_shape_is_old_nodup s m t en1 c1 en2 en3 s3 f2o c2 synf c3 shm bij0 I3 Cov C4 Old ND Ht RP AS SY BF ASF WS Y b6 S6).
    Qed.
  End Nd.
  Theorem nohit_core : NoHit i shm bij0 s5.
  Proof.
    intros nd sB enode [Y b] Hnd O FEe St.
    pose proof (FE_is_found nd Hnd enode FEe) as Fe.
    destruct (only_i_uf sB O) as [Ua Le].
    assert (Ss : shape s enode = Ok (Y, b)).
    { apply (shape_frame sB s enode (Y, b)); [| |exact St].
      - intros j Hj. destruct (found_ids_lt s nd enode Hok Fe j Hj) as [(e & He & Ha) L].
        exists e. split; [|exact Ha]. unfold leader. rewrite (Ua j L). exact He.
      - intros j Hj. destruct (found_ids_lt s nd enode Hok Fe j Hj) as [_ L]. split.
        + symmetry. exact (Ua j L).
        + symmetry. apply (only_i_grp sB j O). rewrite <- lu_lc. exact L. }
    rewrite (shape_of_found s nd enode Hok Fe) in Ss.
    pose proof (nd_shape nd Hnd Y b Ss) as EY. subst Y.
    unfold lookup_internal.
    destruct O as (_ & _ & _ & _ & _ & _ & Ho & Hn & _).
    destruct (node_dec (fst t) shm) as [E|E].
    - rewrite E, Hn. reflexivity.
    - rewrite (Ho (fst t) E), Hh5, na_get_set_other by exact E. rewrite Habs. reflexivity.
  Qed.
End Core.

(* ================================================================== *)
(* 4. assembly with the walk of eg_add on a miss (LeafNoHitPre.add_miss_pre) *)

(* the connection between the state s before the insertion and the state s5 right before the rebuild *)
Definition miss_conn (s s5 : egraph) (i : N) (shm : node) : Prop :=
  na_get (hashcons s) shm = None /\
  hashcons s5 = na_set (hashcons s) shm i /\
  (exists e, unionfind s5 = unionfind s ++ [e]) /\
  List.length (unionfind s) = lc s /\
  (forall j, j <> i -> cgroup s5 j = cgroup s j) /\
  (forall j, In j (node_ids shm) -> (N.to_nat j < lc s)%nat).

Theorem add_miss_nohit : forall m b s s',
  inv3 s -> pending s = [] -> hc_ok s -> ectr s mod 4 = 1 -> node_pre s m ->
  eg_lookup s m = Ok None -> eg_add m s = Ok (b, s') ->
  exists i shm bij0 s5,
    rebuild rebuild_fuel s5 = Ok (tt, s') /\ pre_rebuild i shm bij0 s5 /\ i = N.of_nat (lc s) /\
    (forall sh0 e, leaf_entry s sh0 = Some e -> leaf_entry s5 sh0 = Some e /\ fst (fst e) <> i) /\
    miss_conn s s5 i shm /\
    NoHit i shm bij0 s5.
Proof.
  intros m b s s' I3 Pe Hs C4 NP Miss H.
  destruct (add_miss_pre m b s s' I3 Pe Hs C4 NP Miss H)
    as (i & shm & bij0 & s5 & RB & PR & Ei & LE & W & AbsM & Hh5 & Hu5 & Wf & Hg5 & Ids).
  destruct W as (t & en1 & c1 & en2 & en3 & s3 & f2o & c2 & synf & Ht & Habs & RP & AS & SY & BF & ASF & WS).
  exists i, shm, bij0, s5.
  split; [exact RB|]. split; [exact PR|]. split; [exact Ei|]. split; [exact LE|].
  split; [repeat split; assumption|].
  exact (nohit_core m s s5 i shm bij0 t en1 c1 en2 en3 s3 f2o c2 c2 synf I3 C4 NP Ht Habs RP AS SY BF ASF WS Ei Hh5 Hu5 Wf Hg5 Ids).
Qed.

(* the consequence for handle_pending, in the form used by the frame argument: the lookup in any state that differs
   from s5 only in i misses *)
Corollary add_miss_nohit_lookup : forall m b s s',
  inv3 s -> pending s = [] -> hc_ok s -> ectr s mod 4 = 1 -> node_pre s m ->
  eg_lookup s m = Ok None -> eg_add m s = Ok (b, s') ->
  exists i shm bij0 s5,
    rebuild rebuild_fuel s5 = Ok (tt, s') /\ pre_rebuild i shm bij0 s5 /\
    forall nd sB enode t, apply_slotmap false bij0 shm = Ok nd -> only_i i shm s5 sB -> FE i shm s5 nd enode ->
      shape sB enode = Ok t -> lookup_internal sB t = Ok None.
Proof.
  intros m b s s' I3 Pe Hs C4 NP Miss H.
  destruct (add_miss_nohit m b s s' I3 Pe Hs C4 NP Miss H) as (i & shm & bij0 & s5 & RB & PR & _ & _ & _ & NH).
  exists i, shm, bij0, s5. split; [exact RB|]. split; [exact PR|]. exact NH.
Qed.

(* ================================================================== *)
(* 5. the statement, executed (sanity of the formulation; the theorems above do not depend on it): at every miss of
      an eg_add inside add_expr, build the state s5 right before the rebuild, remove the pending shape from the new
      class as handle_pending does, and check that the shape of find_enode (bij0 . shm) has the first component of
      shape s m and is not hash-consed *)

Definition pre5 (t : node * slotmap) : M (N * node * slotmap) :=
  dom en <- (fun s => let '(r, c) := refresh_private (fst t) (ectr s) in
                      match r with Ok n => Ok (n, set_ctr s c) | Err e => Err e end);
  dom en <- Model.lift (apply_slotmap false (snd t) en);
  dom en <- synify_enode en;
  dom fresh_to_old <- with_ctr (bijection_from_fresh_to (slots en));
  let old_to_fresh := inverse_nocheck fresh_to_old in
  dom syn_fresh <- with_ctr (apply_slotmap_fresh false old_to_fresh en);
  dom i <- alloc_eclass (values old_to_fresh) syn_fresh;
  dom w <- Model.lift (wshape syn_fresh);
  dom _ <- raw_add_to_class i w i;
  dom _ <- pending_insert (fst w) true;
  ret (i, fst w, snd w).

Definition miss_chk (m : node) (s : egraph) : res (option bool) :=
  do t <- shape s m;
  do lk <- lookup_internal s t;
  match lk with
  | Some _ => Ok None
  | None =>
      match pre5 t s with
      | Ok ((i, shm, bij0), s5) =>
          do nd <- apply_slotmap false bij0 shm;
          match raw_remove_from_class i shm (set_pending s5 []) with
          | Ok (_, sA) =>
              do e <- find_enode sA nd;
              do t' <- shape sA e;
              do lk' <- lookup_internal sA t';
              Ok (Some (node_eqb (fst t') (fst t) && match lk' with None => true | Some _ => false end))
          | Err e => Err e
          end
      | Err e => Err e
      end
  end.

(* add_expr, collecting the check at every eg_add: (number of misses, all checks passed) *)
Fixpoint add_expr_nh (t : rterm) : M (appid * (nat * bool)) :=
  match t with
  | RT nd ch =>
      dom l <- (fix go (l : list rterm) : M (list appid * (nat * bool)) :=
                  match l with
                  | [] => ret ([], (0%nat, true))
                  | c :: r => dom x <- add_expr_nh c; dom r' <- go r;
                              ret (fst x :: fst r', ((fst (snd x) + fst (snd r'))%nat, snd (snd x) && snd (snd r')))
                  end) ch;
      if Nat.ltb (List.length (app_occ nd)) (List.length (fst l)) then fail OutOfBounds
      else dom c <- reads (fun s => miss_chk (set_apps nd (fst l)) s);
           dom x <- eg_add (set_apps nd (fst l));
           ret (x, match c with
                   | None => snd l
                   | Some ok => (S (fst (snd l)), snd (snd l) && ok)
                   end)
  end.

Fixpoint add_all_nh (ts : list rterm) : M (nat * bool) :=
  match ts with
  | [] => ret (0%nat, true)
  | t :: r => dom x <- add_expr_nh t; dom l <- add_all_nh r;
              ret ((fst (snd x) + fst l)%nat, snd (snd x) && snd l)
  end.

Module ExNoHit.
  Import Sem.Fp Sem.FpRewriteRun EGraph.RewriteSoundRun EGraph.Rewrite.
  (* classes with a redundant slot (x + 3 = 5 forgets x), with a symmetry (x + y = y + x), and both under binders *)
  Definition base : list rterm :=
    [rterm_of (TAdd (TVar 4) (TNum 3)); rterm_of (TNum 5);
     rterm_of (TAdd (TVar 4) (TVar 8)); rterm_of (TAdd (TVar 8) (TVar 4));
     rterm_of (TSum 12 (TMul (TVar 12) (TVar 16)))].
  Definition ops : list rop := [RAdd 0; RAdd 1; RAdd 2; RAdd 3; RAdd 4; RUnion 0 1; RUnion 2 3].
  Definition later : list rterm :=
    [rterm_of (TMul (TAdd (TVar 4) (TNum 3)) (TVar 8));
     rterm_of (TMul (TAdd (TVar 20) (TNum 3)) (TAdd (TVar 24) (TNum 3)));
     rterm_of (TMul (TAdd (TVar 4) (TVar 8)) (TVar 4));
     rterm_of (TMul (TAdd (TVar 8) (TVar 4)) (TAdd (TVar 4) (TVar 8)));
     rterm_of (TSum 4 (TMul (TAdd (TVar 4) (TNum 3)) (TAdd (TVar 4) (TVar 8))));
     rterm_of (TLet 8 (TAdd (TVar 8) (TVar 4)) (TSum 4 (TMul (TVar 4) (TAdd (TVar 4) (TNum 3)))));
     rterm_of (TSum 12 (TMul (TVar 12) (TAdd (TVar 12) (TVar 12))))].
  Definition run : option (nat * bool) :=
    match run_rops base ops [] [] empty_egraph with
    | Ok (_, _, s) => match add_all_nh later s with Ok (r, _) => Some r | Err _ => None end
    | Err _ => None
    end.
  Definition run_gx : option (nat * bool) :=
    match LeafHit.ExFp.gx_state LeafHit.ExFp.gx_ops_rew with
    | Some s => match add_all_nh (later ++ LeafHit.ExFp.later) s with Ok (r, _) => Some r | Err _ => None end
    | None => None
    end.
End ExNoHit.
Example nohit_run_redundant_symmetric : ExNoHit.run = Some (12%nat, true).
Proof. vm_compute. reflexivity. Qed.
Example nohit_run_after_rewrite : ExNoHit.run_gx = Some (21%nat, true).
Proof. vm_compute. reflexivity. Qed.

Print Assumptions new_shape_is_old.
Print Assumptions new_shape_is_old_nodup.
Print Assumptions nohit_core.
Print Assumptions add_miss_pre.
Print Assumptions add_miss_nohit.
Print Assumptions add_miss_nohit_lookup.
Print Assumptions nohit_run_redundant_symmetric.
