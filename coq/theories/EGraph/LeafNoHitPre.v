(* EGraph/LeafNoHitPre.v — on a lookup miss, eg_add reaches the rebuild inside mk_singleton_class in a state s5 that
   satisfies `pre_rebuild` (LeafFrameDefs.v), together with the walk and the connection between s and s5. *)
From SE Require Import Slots.SlotMapFacts Lang.LangFacts Lang.ShapeFacts Lang.RenameFacts
  EGraph.Model EGraph.ModelFacts EGraph.ModelMachine EGraph.UnionFindFacts EGraph.InvariantFacts
  EGraph.RewriteFacts EGraph.RepFacts.
From SE Require Import EGraph.AddCoversFacts EGraph.HashconsAbs EGraph.HashconsFacts EGraph.SoundAddNew.
From SE Require Import EGraph.UnionInvariantFacts EGraph.MatchDefs EGraph.KidsFacts EGraph.HashconsShape EGraph.NoErrorShape EGraph.NoErrorAddS.
From SE Require Import EGraph.LeafHit EGraph.LeafFrameDefs.
Require Import ZArith Lia ZifyBool ZifyN ZifyNat List. Import ListNotations.

Local Notation ectr := Model.ctr.
Local Notation inv := inverse_nocheck.

(* ------------------------------------------------------------------ *)
(* 1. the usages iteration leaves a class that is not iterated over alone *)

Lemma usages_iter_class_other : forall (F : list node -> list node) l s x s' i,
  iterM (fun r => upd_class r (fun c => with_usages c (F (c_usages c)))) l s = Ok (x, s') ->
  ~ In i l -> get_class s' i = get_class s i.
Proof.
  intros F. induction l as [|r t IH]; intros s x s' i H Hn; cbn [iterM] in H.
  - inversion H. reflexivity.
  - apply mbind_inv in H. destruct H as (u & s1 & H1 & H).
    destruct (upd_class_views _ _ _ _ _ H1) as (c & _ & _ & Ho & _).
    rewrite (IH _ _ _ i H); [|intros Hi; apply Hn; right; exact Hi].
    apply Ho. intros ->. apply Hn. left. reflexivity.
Qed.

Lemma raw_add_exact : forall id sh bij src s x s', raw_add_to_class id (sh, bij) src s = Ok (x, s') ->
  ~ In id (node_ids sh) ->
  unionfind s' = unionfind s /\
  exists c, get_class s id = Ok c /\ get_class s' id = Ok (with_nodes c (na_set (c_nodes c) sh (bij, src))).
Proof.
  intros id sh bij src s x s' H Hn. unfold raw_add_to_class in H.
  apply mbind_inv in H. destruct H as (u1 & s1 & H1 & H).
  destruct (upd_class_views _ _ _ _ _ H1) as (c & Hc & Hc' & _ & U1 & _).
  apply mbind_inv in H. destruct H as (u2 & s2 & H2 & H). inversion H2; subst u2 s2; clear H2.
  pose proof (usages_iter_class_other (fun u => ns_add u sh) _ _ _ _ id H Hn) as G.
  apply (usages_iter_views (fun u => ns_add u sh)) in H. destruct H as (U & _).
  cbn [unionfind set_hashcons] in U. split; [congruence|].
  exists c. split; [exact Hc|]. rewrite G. exact Hc'.
Qed.

(* synify_enode keeps the class ids of the children *)
Lemma synify_enode_ids : forall n s n' s', synify_enode n s = Ok (n', s') -> node_ids n' = node_ids n.
Proof.
  intros n s n' s' H. unfold synify_enode in H.
  apply mbind_inv in H. destruct H as (l & s1 & H1 & H). inversion H; subst n' s1; clear H.
  pose proof (mapM_synify_agree _ _ _ _ H1) as A.
  pose proof (Forall2_length' _ _ _ A) as Ln.
  unfold node_ids. rewrite (app_occ_set_apps n l Ln).
  clear H1 Ln. induction A as [|a a' l0 r Haa _ IH]; [reflexivity|].
  cbn [map]. rewrite IH. f_equal. exact (proj1 Haa).
Qed.

(* ------------------------------------------------------------------ *)
(* 2. the theorem *)

Theorem add_miss_pre : forall m b s s',
  inv3 s -> pending s = [] -> hc_ok s -> ectr s mod 4 = 1 -> node_pre s m ->
  eg_lookup s m = Ok None -> eg_add m s = Ok (b, s') ->
  exists i shm bij0 s5,
    rebuild rebuild_fuel s5 = Ok (tt, s') /\ pre_rebuild i shm bij0 s5 /\ i = N.of_nat (lc s) /\
    (forall sh0 e, leaf_entry s sh0 = Some e -> leaf_entry s5 sh0 = Some e /\ fst (fst e) <> i) /\
    (* the walk *)
    (exists t en1 c1 en2 en3 s3 f2o c2 synf,
       shape s m = Ok t /\ na_get (hashcons s) (fst t) = None /\
       refresh_private (fst t) (ectr s) = (Ok en1, c1) /\ apply_slotmap false (snd t) en1 = Ok en2 /\
       synify_enode en2 (set_ctr s c1) = Ok (en3, s3) /\
       bijection_from_fresh_to (slots en3) (ectr s3) = (f2o, c2) /\
       apply_slotmap_fresh false (inverse_nocheck f2o) en3 c2 = (synf, c2) /\
       wshape synf = Ok (shm, bij0)) /\
    (* connection between s and s5 *)
    na_get (hashcons s) shm = None /\
    hashcons s5 = na_set (hashcons s) shm i /\
    (exists e, unionfind s5 = unionfind s ++ [e]) /\
    List.length (unionfind s) = lc s /\
    (forall j, j <> i -> cgroup s5 j = cgroup s j) /\
    (forall j, In j (node_ids shm) -> (N.to_nat j < lc s)%nat).
Proof.
  intros m b s s' I3 Pe Hs M4 NP Miss H.
  pose proof (hc_ok_canon s Hs Pe) as HC.
  pose proof NP as (Cov & Old & ND).
  assert (Wf : lu s = lc s) by exact (uso_wf _ (ei_slots _ (proj1 (proj1 I3)))).
  pose proof (ei_uf _ (proj1 (proj1 I3))) as Hok.
  unfold eg_add in H. apply bind_reads_inv in H. destruct H as (t & Ht & H).
  unfold eg_lookup in Miss. rewrite Ht in Miss. cbn [bind] in Miss.
  assert (Habs : na_get (hashcons s) (fst t) = None).
  { destruct t as [sh bij]. exact (lookup_none_absent s sh bij Miss). }
  destruct (add_internal_walk t s b s' I3 Miss H) as (en1 & c1 & en2 & en3 & s3 & syn & RP & AS & SY & MK & _ & I1 & _ & I3' & _ & Hb).
  cbv zeta in *.
  destruct (mk_singleton_walk en3 s3 syn s' I3' Hb MK) as (f2o & c2 & synf & s3a & sh & bij & s4 & s5 & BF & ASF & AL & WS & RA & PI & RB & _).
  cbv zeta in *.
  assert (Abs : na_get (hashcons s) sh = None).
  { exact (add_shape_absent_nodup s m t en1 c1 en2 en3 s3 f2o c2 synf c2 sh bij I3 HC Cov M4 Old ND Ht Habs RP AS SY BF ASF WS). }
  (* the ids of the new shape are old classes *)
  assert (Ids : forall j, In j (node_ids sh) -> (N.to_nat j < lc s)%nat).
  { intros j Hj.
    pose proof Ht as Ht'. unfold shape in Ht'. destruct (pre_shape s m) as [p|] eqn:Pp; cbn [bind] in Ht'; [|discriminate].
    assert (Kp : Forall (kid_ok s) (app_occ p)) by (eapply pre_shape_kids; [exact I3|exact Cov|exact Pp]).
    apply (kids_lt s p Kp j).
    destruct t as [sht bt]. cbn [fst snd] in *.
    rewrite <- (HashconsFacts.wshape_ids _ _ _ Ht').
    destruct (refresh_private_spec _ _ _ _ RP) as (Sk1 & _ & _).
    rewrite <- (skel_ids _ _ Sk1).
    rewrite <- (NoErrorShape.apply_slotmap_ids _ _ _ AS).
    rewrite <- (synify_enode_ids _ _ _ _ SY).
    pose proof (fresh_rename_spec en3 (ectr s3) f2o c2 Hb BF) as R. cbv zeta in R. rewrite ASF in R. cbn [fst snd] in R.
    rewrite <- (skel_ids _ _ (proj1 (proj2 R))).
    rewrite <- (HashconsFacts.wshape_ids _ _ _ WS). exact Hj. }
  assert (CO : ctr_only (set_ctr s c1) s3).
  { apply (pres_synify_enode ctr_only ctr_only_refl ctr_only_trans) in SY; [assumption|].
    intros s0 y s0' H0. inversion H0. eexists; reflexivity. }
  assert (WALK : exists t en1 c1 en2 en3 s3 f2o c2 synf,
       shape s m = Ok t /\ na_get (hashcons s) (fst t) = None /\
       refresh_private (fst t) (ectr s) = (Ok en1, c1) /\ apply_slotmap false (snd t) en1 = Ok en2 /\
       synify_enode en2 (set_ctr s c1) = Ok (en3, s3) /\
       bijection_from_fresh_to (slots en3) (ectr s3) = (f2o, c2) /\
       apply_slotmap_fresh false (inverse_nocheck f2o) en3 c2 = (synf, c2) /\
       wshape synf = Ok (sh, bij)).
  { exists t, en1, c1, en2, en3, s3, f2o, c2, synf. repeat split; assumption. }
  clear SY BF I3' MK.
  destruct CO as [c3 ->].
  set (s2 := set_ctr (set_ctr (set_ctr (set_ctr s c1) c3) c2) c2) in *.
  cbn [classes set_ctr] in AL, RA.
  set (i := N.of_nat (lc s)) in *.
  destruct (alloc_eclass_exact _ _ _ _ _ AL) as (Hi & U3 & C & Hh & P3 & _).
  set (cn := {| c_nodes := []; c_slots := values (inv f2o); c_usages := [];
                c_group := Grp (identity (values (inv f2o))) None; c_syn := synf |}) in *.
  assert (U2 : unionfind s2 = unionfind s) by reflexivity.
  assert (C2 : classes s2 = classes s) by reflexivity.
  assert (H2 : hashcons s2 = hashcons s) by reflexivity.
  assert (P2 : pending s2 = pending s) by reflexivity.
  rewrite U2 in U3. rewrite C2 in C. rewrite H2 in Hh. rewrite P2 in P3.
  assert (Hnew : get_class s3a i = Ok cn).
  { unfold get_class, i. rewrite C, Nat2N.id, nth_opt_app_last. reflexivity. }
  assert (OldC : forall j, j <> i -> get_class s3a j = get_class s j).
  { intros j Hj. unfold get_class. rewrite C, nth_opt_app_other; [reflexivity|]. unfold i in Hj. lia. }
  assert (Ni : ~ In i (node_ids sh)).
  { intros Hin. pose proof (Ids i Hin) as L. unfold i in L. lia. }
  destruct (raw_add_exact _ _ _ _ _ _ _ RA Ni) as (U4 & c0 & Hc0 & Hc4).
  rewrite Hnew in Hc0. inversion Hc0; subst c0; clear Hc0.
  destruct (raw_add_views _ _ _ _ _ _ _ RA) as (Hh4 & P4 & Un4 & _).
  unfold pending_insert, modify in PI. inversion PI; subst s5; clear PI.
  set (s5 := set_pending s4 (na_set (pending s4) sh true)) in *.
  assert (U5 : unionfind s5 = unionfind s ++ [{| aid := i; am := identity (slots synf) |}]).
  { unfold s5. cbn [unionfind set_pending]. rewrite U4. exact U3. }
  assert (Hh5 : hashcons s5 = na_set (hashcons s) sh i).
  { unfold s5. cbn [hashcons set_pending]. rewrite Hh4, Hh. reflexivity. }
  assert (G5 : forall j, get_class s5 j = get_class s4 j) by reflexivity.
  assert (HcOther : forall sh0 j, na_get (hashcons s) sh0 = Some j -> j <> i).
  { intros sh0 j Hj. destruct (tb_fwd s (proj1 Hs) sh0 j Hj) as [p Sp].
    destruct (stored_class _ _ _ _ Sp) as (cj & Hcj & _). pose proof (get_class_lt _ _ _ Hcj) as L.
    unfold i. lia. }
  exists i, sh, bij, s5.
  split; [exact RB|]. split.
  { (* pre_rebuild *)
    unfold pre_rebuild. split.
    { unfold s5. cbn [pending set_pending]. rewrite P4, P3, Pe. reflexivity. }
    split. { rewrite Hh5. apply na_get_set_same. }
    split. { exists (with_nodes cn (na_set (c_nodes cn) sh (bij, i))). split; [rewrite G5; exact Hc4|]. split; reflexivity. }
    split.
    { exists {| aid := i; am := identity (slots synf) |}. split; [|reflexivity]. unfold uentry. rewrite U5.
      replace (N.to_nat i) with (List.length (unionfind s)) by (unfold i; lia). apply nth_opt_app_last. }
    split.
    { intros j e Hj He. rewrite U5 in He. rewrite uentry_app_other in He by (unfold i in Hj; lia).
      pose proof (ufl_bound _ Hok _ _ He) as L. unfold i. lia. }
    split; [exact Ni|].
    intros sh0 j Hj Hne. rewrite Hh5 in Hj. rewrite na_get_set_other in Hj by exact Hne.
    exact (HcOther sh0 j Hj). }
  split; [reflexivity|]. split.
  { (* the entries read by the lookups of the old shapes *)
    intros sh0 e E.
    destruct (leaf_entry_hc _ _ _ E) as (j & cj & Hj & Hcj).
    pose proof (HcOther _ _ Hj) as Nj.
    assert (Ne : sh <> sh0) by (intros ->; rewrite Hj in Abs; discriminate).
    split.
    - assert (E3 : leaf_entry s3a sh0 = Some e) by (eapply ext_classes_entry; eauto).
      assert (Hj3 : na_get (hashcons s3a) sh0 = Some j) by (rewrite Hh; exact Hj).
      assert (E4 : leaf_entry s4 sh0 = Some e).
      { rewrite <- E3. apply (raw_add_entry _ _ _ _ _ _ _ sh0 j RA); [intros ->; apply Ne; reflexivity|exact Hj3|exact Nj]. }
      rewrite <- E4. apply frame_entry; reflexivity.
    - unfold leaf_entry in E. rewrite Hj, Hcj in E.
      destruct (na_get (c_nodes cj) sh0) as [[b0 src0]|]; [|discriminate].
      inversion E; subst e. cbn [fst]. exact Nj. }
  split; [exact WALK|].
  split; [exact Abs|]. split; [exact Hh5|].
  split; [eexists; exact U5|]. split; [exact Wf|]. split; [|exact Ids].
  intros j Hj. unfold cgroup. rewrite G5.
  pose proof (proj2 (Un4 j)) as G4. unfold cgroup in G4. rewrite G4. rewrite (OldC j Hj). reflexivity.
Qed.

Print Assumptions add_miss_pre.
