(* EGraph/MatchAll.v — assembly of MatchFacts.v (the matcher returns covering substitutions) and KidsFacts.v
   (`kids_ok` is kept by every operation, by the applier phase of rewriting, and holds in reachable states): the
   runner statement of C15 WITHOUT the searchers premise and without any remaining hypothesis.

   `good2 rs s` (MatchFacts.v) = inv3 s /\ pending s = [] /\ kids_ok s /\ m4 s /\ rules_below (ectr s) rs
   (`rules_below`: every slot name of both sides of every rule is older than the counter).
   - `kids_step_all`, `good2_apply_total_all`, `good2_steps_all`: good2 is closed under apply_rewrites_sched for every
     schedule that only reorders / drops substitutions (`sched_sub`), for ALL rules (PSubst included).
   - `run_saturated_same_graph_all_rules`: a run of the runner from a good2 state that stops as Saturated ends in a
     state whose graph is literally the graph of its predecessor (same node count, `obs_same`).
   - `apply_rewrites_false_unchanged_good2`: one call.
   - `good2_intro` / `good2_reachable`: how a good2 state is obtained: a state reached by `run_ops` from the empty
     e-graph with well-formed terms whose slots are not fresh-slot names (`rt_wf`, `rt_pre 1`), nothing pending,
     rules below the counter.
   - the variants for rules without PSubst (`*_nosubst`) and the form conditional on `SES_holds` are kept. *)
From SE Require Import Parse.Parser EGraph.Model EGraph.ModelFacts EGraph.ModelMachine EGraph.AddCoversFacts EGraph.Mod4Facts
  EGraph.Rewrite EGraph.RewriteFacts EGraph.ProgressFacts EGraph.MatchDefs EGraph.MatchFacts EGraph.KidsFacts.
From SE Require Run.Runner.
Require Import ZArith Lia.

Local Notation ectr := Model.ctr.

Definition rule_nosubst (r : rule) : Prop := nosubst (r_lhs r) = true /\ nosubst (r_rhs r) = true.
Definition rule_nosubstb (r : rule) : bool := nosubst (r_lhs r) && nosubst (r_rhs r).

Lemma rules_nosubstb_sound : forall rs, forallb rule_nosubstb rs = true -> Forall rule_nosubst rs.
Proof.
  intros rs H. apply Forall_forall. intros r Hr. rewrite forallb_forall in H. specialize (H r Hr).
  unfold rule_nosubstb in H. apply andb_true_iff in H. exact H.
Qed.

Lemma appliers_keep_kids_for_nosubst : appliers_keep_kids_for rule_nosubst.
Proof. exact appliers_keep_kids_nosubst. Qed.

Lemma good2_intro : forall rs s, inv3 s -> pending s = [] -> kids_okb s = true -> m4b s = true ->
  rules_belowb (ectr s) rs = true -> good2 rs s.
Proof.
  intros rs s I3 Pd K M RB. split; [exact I3|]. split; [exact Pd|]. split; [apply kids_okb_sound; exact K|].
  split; [apply m4b_sound; exact M|apply rules_belowb_sound; exact RB].
Qed.

Section Final.
  Variable sched : nat -> list subst -> list subst.
  Variable rs : list rule.
  Hypothesis SS : sched_sub sched.
  Variable nodes : egraph -> nat.
  Variable nclasses : egraph -> nat.
  Variable hook : nat -> egraph -> option nat.
  Variable late : nat -> bool.

  Theorem kids_step_nosubst : Forall rule_nosubst rs -> forall s b s', good2 rs s ->
    apply_rewrites_sched sched rs s = Ok (b, s') -> kids_ok s'.
  Proof. intros NS. exact (kids_step_proved sched rs rule_nosubst SS appliers_keep_kids_for_nosubst NS). Qed.

  Theorem good2_steps_nosubst : Forall rule_nosubst rs -> forall k s, good2 rs s ->
    good2 rs (Run.Runner.steps egraph (apply_total sched rs) k s).
  Proof. intros NS. exact (good2_steps_final sched rs rule_nosubst SS appliers_keep_kids_for_nosubst NS). Qed.

  Theorem run_saturated_same_graph_nosubst : Forall rule_nosubst rs -> forall lim fuel s r sf, good2 rs s ->
    Run.Runner.runner_run egraph (apply_total sched rs) nodes nclasses hook late lim fuel s = Some (r, sf) ->
    Run.Runner.stop_reason r = Run.Runner.Saturated ->
    exists s_prev, s_prev = Run.Runner.steps egraph (apply_total sched rs) (Run.Runner.iterations r - 1) s /\
      sf = snd (apply_total sched rs s_prev) /\
      same_graph s_prev sf /\ total_number_of_nodes sf = total_number_of_nodes s_prev /\ obs_same s_prev sf.
  Proof.
    intros NS.
    exact (run_saturated_same_graph_final sched rs rule_nosubst SS appliers_keep_kids_for_nosubst NS nodes nclasses hook late).
  Qed.

  Theorem run_saturated_same_graph_ses : SES_holds -> forall lim fuel s r sf, good2 rs s ->
    Run.Runner.runner_run egraph (apply_total sched rs) nodes nclasses hook late lim fuel s = Some (r, sf) ->
    Run.Runner.stop_reason r = Run.Runner.Saturated ->
    exists s_prev, s_prev = Run.Runner.steps egraph (apply_total sched rs) (Run.Runner.iterations r - 1) s /\
      sf = snd (apply_total sched rs s_prev) /\
      same_graph s_prev sf /\ total_number_of_nodes sf = total_number_of_nodes s_prev /\ obs_same s_prev sf.
  Proof.
    intros SES.
    refine (run_saturated_same_graph_final sched rs (fun _ => True) SS
              (appliers_keep_kids_any (appliers_keep_kids_cond SES)) _ nodes nclasses hook late).
    apply Forall_forall. intros r _. exact I.
  Qed.
  (* ---- all rules ---- *)
  Theorem kids_step_all : forall s b s', good2 rs s -> apply_rewrites_sched sched rs s = Ok (b, s') -> kids_ok s'.
  Proof.
    refine (kids_step_proved sched rs (fun _ => True) SS (appliers_keep_kids_any appliers_keep_kids_proved) _).
    apply Forall_forall. intros r _. exact I.
  Qed.

  Theorem good2_apply_total_all : forall s, good2 rs s -> good2 rs (snd (apply_total sched rs s)).
  Proof. exact (good2_apply_total sched rs SS kids_step_all). Qed.

  Theorem good2_steps_all : forall k s, good2 rs s -> good2 rs (Run.Runner.steps egraph (apply_total sched rs) k s).
  Proof. exact (good2_steps sched rs SS kids_step_all). Qed.

  Theorem apply_rewrites_false_unchanged_good2 : forall s s', good2 rs s ->
    apply_rewrites_sched sched rs s = Ok (false, s') ->
    same_graph s s' /\ total_number_of_nodes s' = total_number_of_nodes s /\ obs_same s s'.
  Proof. exact (apply_rewrites_false_unchanged_good sched rs SS). Qed.

  Theorem run_saturated_same_graph_all_rules : forall lim fuel s r sf, good2 rs s ->
    Run.Runner.runner_run egraph (apply_total sched rs) nodes nclasses hook late lim fuel s = Some (r, sf) ->
    Run.Runner.stop_reason r = Run.Runner.Saturated ->
    exists s_prev, s_prev = Run.Runner.steps egraph (apply_total sched rs) (Run.Runner.iterations r - 1) s /\
      sf = snd (apply_total sched rs s_prev) /\
      same_graph s_prev sf /\ total_number_of_nodes sf = total_number_of_nodes s_prev /\ obs_same s_prev sf.
  Proof. exact (run_saturated_same_graph_all sched rs SS kids_step_all nodes nclasses hook late). Qed.
End Final.

(* a good2 state from a history: run_ops from the empty e-graph *)
Theorem good2_reachable : forall terms ops hs s rs,
  Forall (fun t => SoundAddExpr.rt_wf t /\ rt_pre 1 t) terms ->
  run_ops terms ops [] empty_egraph = Ok (hs, s) ->
  pending s = [] -> rules_below (ectr s) rs -> good2 rs s.
Proof.
  intros terms ops hs s rs HT H Pd RB. destruct (reachable_kinv terms ops hs s HT H) as [(I3 & M & K) _].
  split; [exact I3|]. split; [exact Pd|]. split; [exact K|]. split; [exact M|exact RB].
Qed.

Print Assumptions kids_step_nosubst.
Print Assumptions run_saturated_same_graph_nosubst.
Print Assumptions run_saturated_same_graph_ses.
Print Assumptions kids_step_all.
Print Assumptions good2_apply_total_all.
Print Assumptions good2_steps_all.
Print Assumptions apply_rewrites_false_unchanged_good2.
Print Assumptions run_saturated_same_graph_all_rules.
Print Assumptions good2_reachable.
