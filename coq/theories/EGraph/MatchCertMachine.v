(* EGraph/MatchCertMachine.v — machine `eg5c`: for one eg5 case, evaluate on the state after the history the
   verified checker MatchLookup.matches_okb for every single pattern of the case (matches_okb_sound: every returned
   substitution's instance is found by the read-only lookup and is equal to the class the match was found in), and
   the executable invariants the matcher theorems assume (kids_okb, pattern slot names below the counter). *)
From SE Require Import Parse.Parser EGraph.ModelMachine EGraph.MatchMachine EGraph.MatchDefs EGraph.MatchFacts EGraph.MatchLookup.

Definition run_eg5c (args : list sexp) : sexp :=
  match args with
  | _ :: Lst (Sym "terms" :: ts) :: Lst (Sym "ops" :: os) :: _ :: Lst (Sym "pats" :: ps) :: _ =>
      match dec_rterms ts, dec_hops os, dec_texts ps with
      | Some rts, Some ops, Some texts =>
          match run_ops rts ops [] empty_egraph with
          | Err e => Lst [Sym "cert"; Sym "history-error"]
          | Ok (hs, s) =>
              match parse_pats {| fresh_idx := Model.ctr s; named_vec := [] |} texts with
              | Err e => Lst [Sym "cert"; Sym "rules-error"]
              | Ok (pats, tbl) =>
                  let s := set_ctr s (fresh_idx tbl) in
                  Lst [Sym "cert"; Lst [Sym "kids"; sbool (kids_okb s)];
                       Lst [Sym "pats-pre"; sbool (forallb (pat_preb (Model.ctr s)) pats)];
                       Lst [Sym "matches"; sbool (forallb (matches_okb s) pats)]]
              end
          end
      | _, _, _ => Sym "bad-case"
      end
  | _ => Sym "bad-case"
  end.
