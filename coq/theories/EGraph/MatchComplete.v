(* EGraph/MatchComplete.v — C04 on the model: COMPLETENESS of the e-matcher ("every represented instance of a
   rule's left side is matched, and the rule fires on it").

   STATEMENT (section 0).  An instance of a pattern p is (theta, zeta): theta a slot map on the pattern's slot names,
   zeta a substitution for its variables; it is represented by a when `lookup_pat s (pren theta p) zeta = Ok (Some a)`.
   `describes s' p theta zeta a r` (r : mrec, a match returned by `ematch_all_r` = `ematch_all` with provenance):
   ONE slot map sigma with is_bijection sigma, sigma = theta on the pattern's slot names, for every variable v
   `eg_eq s' (rn sigma (mr_sb r v)) (zeta v) = Ok true`, `mr_id r = aid a` and `eg_eq s' (rn sigma (mr_root r)) a = Ok true`.
   `complete_for s p theta zeta` := represented by a  ->  ematch_all_r p s = Ok (l, s')  ->  exists r in l describing it
   (`complete_for_ematch_all`: the same for `ematch_all`).

   CHECKER (sections 1-3), validated BEFORE proving.  `complete_forb` (any pattern, explicit instance; sigma is searched
   over the class groups), `complete_forb_sound : complete_forb s p theta zeta = true -> complete_for s p theta zeta`;
   `complete_okb s nd vs` (depth one: all instances among `d1_candidates s` = every group variant of every listed node
   of every live class, renamed to user slot names, + the same nodes with children given through dead class ids),
   `complete_okb_sound`.  vm_compute: `d1_complete_checked` / `d1_complete_okb_checked`: 14 states (9 with a redundant
   slot, symmetric classes as children, binders, balanced unions, one violating hc_ok) x 12 depth-one patterns: every
   instance is represented and matched.  In particular NO restriction to states without redundant slots is needed for
   depth-one patterns with pairwise distinct variables.
   COUNTEREXAMPLES (scope): `redundant_nested_incomplete` (redundant slot + nesting + repeated variable: the library's
   redundancy_matching_bug2/3: represented, not matched), `bound_twice_incomplete` (a bound slot name bound twice,
   depth one: represented, not matched; library's redundancy_matching_bug), `bound_and_free_incomplete` (a bound name
   also used free).

   PROVED (closed under the global context):
   - `d1_forward` (matcher side): for p = PNode nd (map PVarP vs), NoDup vs: for every live class i there are a state t
     (sg_ge s t) and the list nns = enodes_applied (identity invocation of i) at t such that EVERY weak variant n2 of
     every nn in nns whose skeleton has the weak shape of nd and whose positional slot correspondence is a bijection m'
     yields a returned match r with mr_id r = i, substitution/final map = final_go_m (combine vs (app_occ n2)) m'.
   - `d1_complete_from_repr`: NoDup vs, arity, pat_below (ctr s) p, `instance_of nd n = Some theta` (n has the variant
     and the skeleton weak shape of nd and theta is the bijective positional correspondence), and `repr_hyp s n`
     give `complete_for s p theta (combine vs (app_occ n))`.   sigma = inverse(final map) ** rho.
   - FIRING: `union_instantiations_fires`, `apply_substs_fires`, `apply_rewrites_fires`: for a rule without condition,
     inv3/kids_ok/m4, left side below the counter: `apply_rewrites [rl] s = Ok (_, s1)` -> for EVERY sb returned by
     `ematch_all (r_lhs rl) s` both `pattern_subst` calls succeeded (in a state t with qstep s t), their handles a, b
     cover their classes in s1 and `eg_eq s1 a b = Ok true` (eg_union_establishes + persistence along the later
     applications).  `d1_complete_and_fires`: both halves for a represented depth-one instance.
   REMAINING HYPOTHESIS (the e-graph side, no matcher involved), `repr_hyp s n`:
     eg_lookup s n = Ok (Some a) -> In (aid a) (ids s) /\ exists c, get_class s (aid a) = Ok c /\
     forall t nns t', sg_ge s t -> enodes_applied {| aid := aid a; am := identity (c_slots c) |} t = Ok (nns, t') ->
     exists nn vs' n2 rho, In nn nns /\ weak_variants s nn = Ok vs' /\ In n2 vs' /\ repr_witness s n a c nn n2 rho
   (`repr_witness`: same variant; child maps of n2 sorted; rho sorted, injective, `ren_ok`, defined on the skeleton
   slots of n2; ren rho (nullify n2) = nullify n; children pairwise `eg_eq s (rn rho .) .`; every class slot occurs in
   n2; `eg_eq s (rn rho (identity invocation)) a`).  Tested at t = s by `repr_okb` on all candidates of all 14 states:
   `repr_hyp_checked`.  Route: eg_lookup = shape + hashcons hit (hc_ok: stored in class aid a, class live); `shape s n`
   = weak shape of the minimal group variant of `find_enode s n`; the listed node nn has the same shape
   (`applied_shape`), so n is a renaming of a group variant of nn up to find (orbit_same_set, shape_ren); the weak
   variant kept by `weak_variants` differs from it by a renaming fixing the skeleton slots.
   NOT DONE: nested patterns and repeated variables (item 3): false with redundant slots (counterexamples above). *)
From SE Require Import Slots.SlotMapFacts Group.GroupSound Lang.LangFacts Lang.ShapeFacts Lang.RenameFacts
  Base.TextFacts Parse.Parser EGraph.Model EGraph.ModelFacts EGraph.ModelMachine EGraph.UnionFindFacts
  EGraph.InvariantFacts EGraph.UnionInvariantFacts EGraph.AddCoversFacts EGraph.HashconsShape EGraph.Mod4Facts
  EGraph.HashconsAbs EGraph.HashconsFacts EGraph.Rewrite EGraph.RewriteFacts EGraph.MatchDefs EGraph.MatchMachine
  EGraph.ProgressFacts EGraph.MatchFacts EGraph.SoundUnion EGraph.MonotoneFacts EGraph.MatchLookup.
Require Import ZArith Lia ZifyBool ZifyN ZifyNat.

Local Notation "a ** b" := (compose_partial a b) (at level 40, left associativity).

(* ------------------------------------------------------------------ *)
(* 0. THE STATEMENT *)

(* an instance of a pattern p is given by
     theta : the pattern's slot names -> slots   (a slot map, injective, defined on all slot names of p)
     zeta  : the pattern's variables  -> invocations
   it is REPRESENTED in s when the bottom-up lookup of p[theta][zeta] hits: `lookup_pat s (pren theta p) zeta = Ok (Some a)`
   (for p = PNode nd (map PVarP vs) this is `eg_lookup s (set_apps (ren theta nd) (map zeta vs))`: `lookup_pat_vars`). *)
Fixpoint pren (theta : slotmap) (p : pattern) {struct p} : pattern :=
  match p with
  | PVarP v => PVarP v
  | PNode n ch =>
      PNode (RenameFacts.ren (g_of theta) n)
            ((fix go (l : list pattern) : list pattern := match l with [] => [] | c :: t => pren theta c :: go t end) ch)
  | PSubst b x t => PSubst (pren theta b) (pren theta x) (pren theta t)
  end.

Lemma pren_node : forall theta n ch, pren theta (PNode n ch) = PNode (RenameFacts.ren (g_of theta) n) (map (pren theta) ch).
Proof.
  intros theta n ch. reflexivity.
Qed.

(* an invocation seen through a slot renaming *)
Definition rn (sigma : slotmap) (a : appid) : appid := {| aid := aid a; am := am a ** sigma |}.

(* the match r (class mr_id r, substitution mr_sb r, root invocation mr_root r over the pattern's / the fresh slots)
   DESCRIBES the instance (theta, zeta) represented by a: one injective slot renaming sigma, extending theta on the
   pattern's slot names, carries every variable binding of the match to an invocation equal (in the e-graph) to the
   instance's binding, and the root of the match to the class the instance is represented by. *)
Definition describes (s' : egraph) (p : pattern) (theta : slotmap) (zeta : subst) (a : appid) (r : mrec) : Prop :=
  exists sigma : slotmap,
    is_bijection sigma = true /\
    (forall x, In x (pslots p) -> exists y, get theta x = Some y /\ get sigma x = Some y) /\
    (forall v, In v (pat_vars p) -> exists b c, sub_get (mr_sb r) v = Some b /\ sub_get zeta v = Some c /\
                                               eg_eq s' (rn sigma b) c = Ok true) /\
    mr_id r = aid a /\ eg_eq s' (rn sigma (mr_root r)) a = Ok true.

(* completeness of the matcher at one instance *)
Definition complete_for (s : egraph) (p : pattern) (theta : slotmap) (zeta : subst) : Prop :=
  forall a, lookup_pat s (pren theta p) zeta = Ok (Some a) ->
  forall l s', ematch_all_r p s = Ok (l, s') -> exists r, In r l /\ describes s' p theta zeta a r.

(* in terms of `ematch_all` itself *)
Lemma complete_for_ematch_all : forall s p theta zeta, complete_for s p theta zeta ->
  forall a, lookup_pat s (pren theta p) zeta = Ok (Some a) ->
  forall l s', ematch_all p s = Ok (l, s') ->
  exists sb r, In sb l /\ mr_sb r = sb /\ describes s' p theta zeta a r.
Proof.
  intros s p theta zeta H a Ha l s' E. rewrite ematch_all_r_spec in E.
  destruct (ematch_all_r p s) as [[lr s1]|e] eqn:Er; cbn [mmap] in E; [|discriminate].
  inversion E; subst l s1. destruct (H a Ha lr s' Er) as (r & Hr & D).
  exists (mr_sb r), r. split; [apply in_map; exact Hr|]. split; [reflexivity|exact D].
Qed.

(* ------------------------------------------------------------------ *)
(* 1. THE EXECUTABLE CHECKER *)

(* the pairs sigma must contain so that fb ** sigma = pp ** fc *)
Definition kid_pairs (fb fc : appid) (pp : perm) : list (slot * slot) :=
  flat_map (fun xy : slot * slot =>
              match get pp (fst xy) with
              | Some z => match get (am fc) z with Some w => [(snd xy, w)] | None => [] end
              | None => []
              end) (am fb).

Fixpoint tdedup (l : list text) (seen : list text) : list text :=
  match l with
  | [] => []
  | v :: t => if existsb (text_eqb v) seen then tdedup t seen else v :: tdedup t (v :: seen)
  end.

(* candidate renamings: theta on the pattern's slots + for every variable one element of the class group *)
Definition sigma_cands (s' : egraph) (p : pattern) (theta : slotmap) (sb zeta : subst) : res (list slotmap) :=
  do per <- mapr (fun v =>
                    match sub_get sb v, sub_get zeta v with
                    | Some b, Some c =>
                        do fb <- find_applied_id s' b;
                        do fc <- find_applied_id s' c;
                        if negb (aid fb =? aid fc) then Ok [] else
                        do cl <- get_class s' (aid fb);
                        do G <- gall_perms false (c_group cl);
                        Ok (map (kid_pairs fb fc) G)
                    | _, _ => Ok []
                    end) (tdedup (pat_vars p) []);
  let base := flat_map (fun x => match get theta x with Some y => [(x, y)] | None => [] end) (pslots p) in
  Ok (flat_map (fun choice => match insert_all_bij (base ++ concat choice) [] with Some sg => [sg] | None => [] end)
               (cartesian per)).

Definition eq_trueb (r : res bool) : bool := match r with Ok true => true | _ => false end.

Definition sigma_okb (s' : egraph) (p : pattern) (theta : slotmap) (zeta : subst) (a : appid) (r : mrec) (sigma : slotmap) : bool :=
  is_bijection sigma &&
  forallb (fun x => match get theta x, get sigma x with Some y, Some z => y =? z | _, _ => false end) (pslots p) &&
  forallb (fun v => match sub_get (mr_sb r) v, sub_get zeta v with
                    | Some b, Some c => eq_trueb (eg_eq s' (rn sigma b) c)
                    | _, _ => false
                    end) (pat_vars p) &&
  (mr_id r =? aid a) && eq_trueb (eg_eq s' (rn sigma (mr_root r)) a).

Definition describes_b (s' : egraph) (p : pattern) (theta : slotmap) (zeta : subst) (a : appid) (r : mrec) : bool :=
  match sigma_cands s' p theta (mr_sb r) zeta with
  | Ok cs => existsb (sigma_okb s' p theta zeta a r) cs
  | Err _ => false
  end.

(* per instance: Some (represented, matched) *)
Definition complete_report (s : egraph) (p : pattern) (theta : slotmap) (zeta : subst) : option (bool * bool) :=
  match lookup_pat s (pren theta p) zeta with
  | Ok (Some a) =>
      match ematch_all_r p s with
      | Ok (l, s') => Some (true, existsb (describes_b s' p theta zeta a) l)
      | Err _ => None
      end
  | Ok None => Some (false, true)
  | Err _ => None
  end.

Definition complete_forb (s : egraph) (p : pattern) (theta : slotmap) (zeta : subst) : bool :=
  match complete_report s p theta zeta with Some (_, m) => m | None => false end.

Lemma eq_trueb_true : forall r, eq_trueb r = true -> r = Ok true.
Proof. intros [[|]|e] H; try discriminate. reflexivity. Qed.

Lemma sigma_okb_sound : forall s' p theta zeta a r sigma, sigma_okb s' p theta zeta a r sigma = true ->
  describes s' p theta zeta a r.
Proof.
  intros s' p theta zeta a r sigma H. unfold sigma_okb in H.
  apply andb_true_iff in H. destruct H as [H H5]. apply andb_true_iff in H. destruct H as [H H4].
  apply andb_true_iff in H. destruct H as [H H3]. apply andb_true_iff in H. destruct H as [H1 H2].
  exists sigma. split; [exact H1|]. split; [|split; [|split]].
  - intros x Hx. rewrite forallb_forall in H2. specialize (H2 x Hx).
    destruct (get theta x) as [y|]; [|discriminate]. destruct (get sigma x) as [z|]; [|discriminate].
    apply N.eqb_eq in H2. subst z. exists y. split; reflexivity.
  - intros v Hv. rewrite forallb_forall in H3. specialize (H3 v Hv).
    destruct (sub_get (mr_sb r) v) as [b|]; [|discriminate]. destruct (sub_get zeta v) as [c|]; [|discriminate].
    exists b, c. split; [reflexivity|]. split; [reflexivity|]. apply eq_trueb_true. exact H3.
  - apply N.eqb_eq. exact H4.
  - apply eq_trueb_true. exact H5.
Qed.

Lemma describes_b_sound : forall s' p theta zeta a r, describes_b s' p theta zeta a r = true -> describes s' p theta zeta a r.
Proof.
  intros s' p theta zeta a r H. unfold describes_b in H.
  destruct (sigma_cands s' p theta (mr_sb r) zeta) as [cs|e]; [|discriminate].
  apply existsb_exists in H. destruct H as (sigma & _ & H). eapply sigma_okb_sound. exact H.
Qed.

(* SOUNDNESS OF THE PER-INSTANCE CHECKER *)
Theorem complete_forb_sound : forall s p theta zeta, complete_forb s p theta zeta = true -> complete_for s p theta zeta.
Proof.
  intros s p theta zeta H a Ha l s' E. unfold complete_forb, complete_report in H. rewrite Ha, E in H.
  apply existsb_exists in H. destruct H as (r & Hr & H). exists r. split; [exact Hr|]. apply describes_b_sound. exact H.
Qed.

(* ------------------------------------------------------------------ *)
(* 2. DEPTH ONE: the instances taken from the stored nodes of s *)

(* scope of the property: distinct variables (one per child position), every bound slot name of nd bound once and not
   used free *)
Definition d1_scopeb (nd : node) (vs : list text) : bool :=
  Nat.eqb (List.length vs) (List.length (app_occ nd)) &&
  Nat.eqb (List.length (tdedup vs [])) (List.length vs) &&
  nodupb (binders nd) &&
  forallb (fun x => negb (existsb (N.eqb x) (binders nd))) (pub_occ nd).

(* n is an instance of nd: same weak shape of the skeletons, the positional slot correspondence is a bijection *)
Definition instance_of (nd n : node) : option slotmap :=
  if negb (Nat.eqb (nvar nd) (nvar n)) then None else
  match wshape nd, wshape (nullify n) with
  | Ok a, Ok b =>
      if node_eqb (fst a) (fst b) then insert_all_bij (combine (all_occ nd) (all_occ (nullify n))) [] else None
  | _, _ => None
  end.

(* renaming a listed node into user slot names (residue 2 mod 4, disjoint from all fresh slots) *)
Definition to_user (n : node) : node := RenameFacts.ren (fun _ x => 4 * x + 2) n.

(* every group variant of every listed node of every live class, with user slot names *)
Definition stored_instances (s : egraph) : res (list node) :=
  do per <- mapr (fun i =>
                    do c <- get_class s i;
                    match enodes_applied {| aid := i; am := identity (c_slots c) |} s with
                    | Err e => Err e
                    | Ok (nns, _) => do vs <- mapr (variants s) nns; Ok (map to_user (concat vs))
                    end) (ids s);
  Ok (concat per).

(* the same node with children given through a dead class id (a non-canonical invocation of the same class) *)
Definition dead_ids (s : egraph) : list N :=
  filter (fun j => negb (existsb (N.eqb j) (ids s))) (map N.of_nat (seq 0 (List.length (unionfind s)))).

Definition decanon_kid (s : egraph) (j : N) (a : appid) : appid :=
  match unionfind_get s j with
  | Ok e => if (aid e =? aid a) && negb (aid a =? j)
            then {| aid := j; am := inverse_nocheck (am e) ** am a |} else a
  | Err _ => a
  end.

Definition decanon_instances (s : egraph) (l : list node) : list node :=
  flat_map (fun j => flat_map (fun n =>
                                 let n' := set_apps n (map (decanon_kid s j) (app_occ n)) in
                                 if node_eqb n n' then [] else [n']) l) (dead_ids s).

Definition d1_pat (nd : node) (vs : list text) : pattern := PNode nd (map PVarP vs).

(* per candidate node: None = not an instance of nd; Some (represented, matched) *)
Definition d1_report_node (s : egraph) (nd : node) (vs : list text) (n : node) : option (option (bool * bool)) :=
  match instance_of nd n with
  | None => None
  | Some theta => Some (complete_report s (d1_pat nd vs) theta (combine vs (app_occ n)))
  end.

Definition d1_candidates (s : egraph) : list node :=
  match stored_instances s with
  | Ok l => l ++ decanon_instances s l
  | Err _ => []
  end.

(* (number of candidate nodes that are instances, of those represented, of those matched) *)
Definition complete_counts (s : egraph) (nd : node) (vs : list text) : nat * nat * nat :=
  let rs := flat_map (fun n => match d1_report_node s nd vs n with Some r => [r] | None => [] end) (d1_candidates s) in
  (List.length rs,
   List.length (filter (fun r => match r with Some (true, _) => true | _ => false end) rs),
   List.length (filter (fun r => match r with Some (true, true) => true | _ => false end) rs)).

Definition complete_okb (s : egraph) (nd : node) (vs : list text) : bool :=
  match stored_instances s with
  | Ok l =>
      forallb (fun n => match instance_of nd n with
                        | None => true
                        | Some theta => complete_forb s (d1_pat nd vs) theta (combine vs (app_occ n))
                        end) (l ++ decanon_instances s l)
  | Err _ => false
  end.

Theorem complete_okb_sound : forall s nd vs, complete_okb s nd vs = true ->
  forall n theta, In n (d1_candidates s) -> instance_of nd n = Some theta ->
  complete_for s (d1_pat nd vs) theta (combine vs (app_occ n)).
Proof.
  intros s nd vs H n theta Hn Hi. unfold complete_okb in H. unfold d1_candidates in Hn.
  destruct (stored_instances s) as [l|e]; [|contradiction].
  rewrite forallb_forall in H. specialize (H n Hn). rewrite Hi in H. apply complete_forb_sound. exact H.
Qed.

(* ------------------------------------------------------------------ *)
(* 3. EVALUATION *)

(* states with a redundant slot *)
Definition rT1 := [xs2 2 2 6; xs2 2 2 10; xun 3 (xs2 2 2 6); xbin 4 (xs2 2 2 6) (xs2 2 6 2)].
Definition rO1 := [HAdd 0; HAdd 1; HAdd 2; HAdd 3; xU 0 1].
(* arith2: sub = 4, var = 7, zero = 5, f = 8:  (sub (var x) (var x)) = zero *)
Definition rT2 := [xbin 4 (xs1 7 2) (xs1 7 2); xc0 5; xbin 8 (xc0 5) (xc0 5); xbin 8 (xs1 7 2) (xc0 5); xs1 7 2].
Definition rO2 := [HAdd 0; HAdd 1; HAdd 2; HAdd 3; HAdd 4; xU 0 1].

Definition c_states : list egraph := test_states ++ [st_of rT1 rO1; st_of rT2 rO2; st_of xT5 (firstn 10 xO5); st_of xT2 (firstn 7 xO2)].

Definition redundant_flags := Eval vm_compute in map has_redundant c_states.
Definition valid_flags := Eval vm_compute in map valid_stateb c_states.

Definition d1_test_pats : list (node * list text) :=
  [ (nd_un 3, [[120]]); (nd_bin 4, [[120]; [121]]); (nd_s2 2 2 6, []); (nd_s2 2 6 6, []); (nd_lam 2, [[120]]);
    (nd_un 6, [[120]]); (nd_s3 2 2 6 10, []); (nd_s3 8 2 6 10, []); (nd_c 5, []); (nd_s1 7 2, []); (nd_s2 9 2 6, []);
    (nd_bin 8, [[120]; [121]]) ].

Definition counts := Eval vm_compute in map (fun s => map (fun q => complete_counts s (fst q) (snd q)) d1_test_pats) c_states.

(* every candidate that is an instance is represented, and matched: on all 14 states (9 of them with a redundant slot,
   one of them (index 6) violating hc_ok), for all 12 depth-one patterns *)
Example d1_complete_checked :
  forallb (forallb (fun c : nat * nat * nat => let '(i, r, m) := c in Nat.eqb i r && Nat.eqb r m)) counts = true.
Proof. vm_compute. reflexivity. Qed.
Example d1_complete_okb_checked :
  map (fun s => forallb (fun q => complete_okb s (fst q) (snd q)) d1_test_pats) c_states = repeat true 14.
Proof. vm_compute. reflexivity. Qed.
Example d1_scope_checked : forallb (fun q => d1_scopeb (fst q) (snd q)) d1_test_pats = true.
Proof. vm_compute. reflexivity. Qed.

(* explicit instances (theta, zeta) of arbitrary patterns *)
Definition hnd (s : egraph) (t : rterm) : appid := match lookup_rec s t with Ok (Some a) => a | _ => null_appid end.

(* (a) redundant slot + nesting + repeated variable (tests/arith2 redundancy_matching_bug2/3 of the library):
   zero = (sub (var x) (var x)); the instances f(sub(v,v), sub(v,v)) and f(v, sub(v,v)) for v = (var $2) are
   represented (as f(zero, zero), f(v, zero)) and NOT matched: each visit of the class of zero draws its own fresh
   name for the redundant slot. *)
Definition s_r2 : egraph := st_of rT2 rO2.
Definition p_special : pattern := PNode (nd_bin 8) [PNode (nd_bin 4) [vx; vx]; PNode (nd_bin 4) [vx; vx]].
Definition p_special2 : pattern := PNode (nd_bin 8) [vx; PNode (nd_bin 4) [vx; vx]].
Definition p_subxx : pattern := PNode (nd_bin 4) [vx; vx].
Example redundant_nested_incomplete :
  valid_stateb s_r2 = true /\ has_redundant s_r2 = Ok true /\
  complete_report s_r2 p_special [] [([120], hnd s_r2 (xs1 7 2))] = Some (true, false) /\
  complete_report s_r2 p_special2 [] [([120], hnd s_r2 (xs1 7 2))] = Some (true, false) /\
  (* the depth-one pattern with a repeated variable is matched on this state *)
  complete_report s_r2 p_subxx [] [([120], hnd s_r2 (xs1 7 2))] = Some (true, true).
Proof. vm_compute. repeat split; reflexivity. Qed.

(* (b) a bound slot name bound twice (tests/lambda redundancy_matching_bug): K(lam $2 ?x, lam $2 ?y) *)
Definition nd_k2 : node := {| nvar := 10; nargs := [ABind 2 xph; ABind 2 xph] |}.
Definition kT := [RT nd_k2 [xs1 7 2; xs1 7 2]; xs1 7 2;
                  RT {| nvar := 11; nargs := [ASlot 2; ABind 2 xph] |} [xs1 7 2];
                  RT {| nvar := 10; nargs := [ABind 2 xph; ABind 6 xph] |} [xs1 7 2; xs1 7 6] ].
Definition s_k : egraph := st_of kT [HAdd 0; HAdd 1; HAdd 2].
Example bound_twice_incomplete :
  valid_stateb s_k = true /\ has_redundant s_k = Ok false /\
  complete_report s_k (d1_pat nd_k2 [[120]; [121]]) [(2, 2)] [([120], hnd s_k (xs1 7 2)); ([121], hnd s_k (xs1 7 2))]
    = Some (true, false) /\
  (* with two names the same instance is matched *)
  complete_report s_k (d1_pat {| nvar := 10; nargs := [ABind 2 xph; ABind 6 xph] |} [[120]; [121]]) [(2, 2); (6, 6)]
    [([120], hnd s_k (xs1 7 2)); ([121], hnd s_k (xs1 7 6))] = Some (true, true).
Proof. vm_compute. repeat split; reflexivity. Qed.

(* (c) a bound slot name also used free: K'($2, lam $2 ?x) *)
Definition nd_k3 : node := {| nvar := 11; nargs := [ASlot 2; ABind 2 xph] |}.
Example bound_and_free_incomplete :
  d1_scopeb nd_k3 [[120]] = false /\ d1_scopeb nd_k2 [[120]; [121]] = false /\
  complete_report s_k (d1_pat nd_k3 [[120]]) [(2, 2)] [([120], hnd s_k (xs1 7 2))] = Some (true, false).
Proof. vm_compute. repeat split; reflexivity. Qed.

(* ------------------------------------------------------------------ *)
(* 4. THE MATCHER SIDE (forward direction): every candidate the loops of `ematch_all` visit whose skeleton matches
      the pattern node yields a returned match *)

Section Fwd.
  Variable R : egraph -> egraph -> Prop.
  Hypothesis R_refl : forall a, R a a.
  Hypothesis R_trans : forall a b c, R a b -> R b c -> R a c.

  Lemma flat_mapM_fwd : forall A C (f : A -> M (list C)) l, (forall x, pres R (f x)) ->
    forall s r s', flat_mapM f l s = Ok (r, s') ->
    forall x, In x l -> exists s1 r1 s2, R s s1 /\ f x s1 = Ok (r1, s2) /\ R s2 s' /\ incl r1 r.
  Proof.
    intros A C f l Hf. induction l as [|x0 t IH]; intros s r s' H x Hx; [contradiction|]. cbn [flat_mapM] in H.
    apply mbind_inv in H. destruct H as (r1 & s1 & H1 & H).
    apply mbind_inv in H. destruct H as (r2 & s2 & H2 & H).
    apply ret_inv in H. destruct H as [Hr Hs]. subst r s'.
    assert (P2 : R s1 s2).
    { revert H2. clear -Hf R_refl R_trans. revert s1 r2 s2. induction t as [|y t IH]; intros s1 r2 s2 H; cbn [flat_mapM] in H.
      - apply ret_inv in H. destruct H as [_ ->]. apply R_refl.
      - apply mbind_inv in H. destruct H as (a & sa & Ha & H). apply mbind_inv in H. destruct H as (b & sb & Hb & H).
        apply ret_inv in H. destruct H as [_ ->]. eapply R_trans; [exact (Hf y _ _ _ Ha)|exact (IH _ _ _ Hb)]. }
    destruct Hx as [<-|Hx].
    - exists s, r1, s1. split; [apply R_refl|]. split; [exact H1|]. split; [exact P2|]. apply incl_appl, incl_refl.
    - destruct (IH _ _ _ H2 x Hx) as (sa & ra & sb & Ra & Fa & Rb & Ia).
      exists sa, ra, sb. split; [eapply R_trans; [exact (Hf x0 _ _ _ H1)|exact Ra]|]. split; [exact Fa|].
      split; [exact Rb|]. apply incl_appr. exact Ia.
  Qed.

  Lemma mapM_fwd : forall A C (f : A -> M C) l, (forall x, pres R (f x)) ->
    forall s r s', mapM f l s = Ok (r, s') ->
    forall x, In x l -> exists s1 y s2, R s s1 /\ f x s1 = Ok (y, s2) /\ In y r.
  Proof.
    intros A C f l Hf. induction l as [|x0 t IH]; intros s r s' H x Hx; [contradiction|]. cbn [mapM] in H.
    apply mbind_inv in H. destruct H as (y1 & s1 & H1 & H).
    apply mbind_inv in H. destruct H as (r2 & s2 & H2 & H).
    apply ret_inv in H. destruct H as [Hr Hs]. subst r s'.
    destruct Hx as [<-|Hx].
    - exists s, y1, s1. split; [apply R_refl|]. split; [exact H1|left; reflexivity].
    - destruct (IH _ _ _ H2 x Hx) as (sa & y & sb & Ra & Fa & Iy).
      exists sa, y, sb. split; [eapply R_trans; [exact (Hf x0 _ _ _ H1)|exact Ra]|]. split; [exact Fa|right; exact Iy].
  Qed.
End Fwd.

Lemma pres_sg_ge : forall A (m : M A), pres same_graph m -> pres ctr_le m -> pres sg_ge m.
Proof. intros A m H1 H2 s x s' H. split; [exact (H1 _ _ _ H)|exact (H2 _ _ _ H)]. Qed.

Lemma sg_final_go_m : forall l m, pres same_graph (final_go_m l m).
Proof.
  induction l as [|[v a] t IH]; intros m; cbn [final_go_m]; [apply (pres_ret same_graph same_graph_refl)|].
  apply (pres_bind same_graph same_graph_trans); [apply sg_extend_fresh|]. intros m'.
  apply (pres_bind same_graph same_graph_trans); [apply IH|]. intros r. apply (pres_ret same_graph same_graph_refl).
Qed.

Lemma c_final_go_m : forall l m, pres ctr_le (final_go_m l m).
Proof.
  assert (Rr : forall a, ctr_le a a) by (intros a; unfold ctr_le; lia).
  assert (Rt : forall a b c, ctr_le a b -> ctr_le b c -> ctr_le a c) by (unfold ctr_le; intros; lia).
  induction l as [|[v a] t IH]; intros m; cbn [final_go_m]; [apply (pres_ret ctr_le Rr)|].
  apply (pres_bind ctr_le Rt); [exact (c_extend_fresh _ _)|]. intros m'.
  apply (pres_bind ctr_le Rt); [apply IH|]. intros r. apply (pres_ret ctr_le Rr).
Qed.

Theorem d1_forward : forall s nd vs l s',
  NoDup vs -> List.length vs = List.length (app_occ nd) ->
  ematch_all_r (d1_pat nd vs) s = Ok (l, s') ->
  forall i c, In i (ids s) -> get_class s i = Ok c ->
  exists t nns t', sg_ge s t /\ enodes_applied {| aid := i; am := identity (c_slots c) |} t = Ok (nns, t') /\
    forall nn vs' n2 n_sh c_sh m', In nn nns -> nvar nd = nvar nn -> weak_variants s nn = Ok vs' -> In n2 vs' ->
      wshape nd = Ok n_sh -> wshape (nullify n2) = Ok c_sh -> node_eqb (fst n_sh) (fst c_sh) = true ->
      insert_all_bij (combine (all_occ (nullify n2)) (all_occ nd)) [] = Some m' ->
      exists r t3 t4, In r l /\ mr_id r = i /\ mr_sl r = c_slots c /\ sg_ge s t3 /\
        final_go_m (combine vs (app_occ n2)) m' t3 = Ok ((mr_sb r, mr_fin r), t4).
Proof.
  intros s nd vs l s' Hnd Hlen H i c Hi Hc. unfold ematch_all_r in H.
  apply mbind_inv in H. destruct H as (live & s0 & Hl & H). unfold gets in Hl. inversion Hl; subst live s0. clear Hl.
  assert (Pi : forall q st j, pres sg_ge (ematch_impl q st j)).
  { intros q st j. apply pres_sg_ge; [apply sg_ematch_impl|exact (c_ematch_impl q st j)]. }
  assert (Pfin : forall (sl : sset) (j : N) st, pres sg_ge
            (dom r <- final_go_m (partial_subst st) (partial_slotmap st);
             ret {| mr_id := j; mr_sl := sl; mr_st := st; mr_sb := fst r; mr_fin := snd r |})).
  { intros sl j st. apply (pres_bind sg_ge sg_ge_trans); [apply pres_sg_ge; [apply sg_final_go_m|apply c_final_go_m]|].
    intros r. apply (pres_ret sg_ge sg_ge_refl). }
  match type of H with flat_mapM ?f _ _ = _ => assert (Pf : forall x, pres sg_ge (f x)) end.
  { intros j. apply (pres_bind sg_ge sg_ge_trans); [apply pres_reads; exact sg_ge_refl|]. intros sl.
    apply (pres_bind sg_ge sg_ge_trans); [apply Pi|]. intros sts.
    apply pres_mapM; [exact sg_ge_refl|exact sg_ge_trans|]. intros st. apply Pfin. }
  destruct (flat_mapM_fwd sg_ge sg_ge_refl sg_ge_trans _ _ _ _ Pf _ _ _ H i Hi) as (s1 & r1 & s2 & R1 & Hf & _ & I1).
  clear H Pf.
  apply mbind_inv in Hf. destruct Hf as (sl & sx & Hsl & H). apply reads_inv in Hsl. destruct Hsl as [Hsl ->].
  assert (Hc1 : get_class s1 i = Ok c).
  { destruct R1 as ((_ & E2 & _) & _). unfold get_class in *. rewrite E2. exact Hc. }
  unfold class_slots in Hsl. rewrite Hc1 in Hsl. cbn [bind] in Hsl. inversion Hsl; subst sl. clear Hsl.
  apply mbind_inv in H. destruct H as (sts & s3 & Hm & Hfin).
  pose proof (Pi _ _ _ _ _ _ Hm) as R13.
  unfold d1_pat in Hm. rewrite ematch_impl_node in Hm.
  apply mbind_inv in Hm. destruct Hm as (nns & sa & Hen & Hm).
  exists s1, nns, sa. split; [exact R1|]. split; [exact Hen|].
  intros nn vs' n2 n_sh c_sh m' Hnn Hv Hwv Hn2 Hw1 Hw2 He Hib.
  match type of Hm with flat_mapM ?f _ _ = _ => assert (Pf : forall x, pres same_graph (f x)) end.
  { intros x. cbv beta. destruct (negb (Nat.eqb (nvar nd) (nvar x))); [apply (pres_ret same_graph same_graph_refl)|].
    apply (pres_bind same_graph same_graph_trans); [apply pres_reads; exact same_graph_refl|]. intros ws.
    apply sg_flat_mapM. intros y.
    apply (pres_bind same_graph same_graph_trans); [apply pres_lift; exact same_graph_refl|]. intros a1.
    apply (pres_bind same_graph same_graph_trans); [apply pres_lift; exact same_graph_refl|]. intros a2.
    destruct (negb (node_eqb (fst a1) (fst a2))); [apply (pres_ret same_graph same_graph_refl)|].
    destruct (insert_all_bij (combine (all_occ (nullify y)) _) _) as [mm|]; [|apply (pres_ret same_graph same_graph_refl)].
    apply sg_ematch_kids. apply Forall_forall. intros q _. apply sg_ematch_impl. }
  destruct (flat_mapM_fwd same_graph same_graph_refl same_graph_trans _ _ _ _ Pf _ _ _ Hm nn Hnn)
    as (sb & ra & sc & Rb & Hg & _ & Ia). clear Hm Pf.
  cbv beta in Hg. rewrite Hv, Nat.eqb_refl in Hg. cbn [negb] in Hg.
  apply mbind_inv in Hg. destruct Hg as (ws & sd & Hws & Hg). apply reads_inv in Hws. destruct Hws as [Hws ->].
  assert (SGb : same_graph s sb).
  { eapply same_graph_trans; [exact (proj1 R1)|]. eapply same_graph_trans; [exact (sg_enodes_applied _ _ _ _ Hen)|exact Rb]. }
  rewrite (weak_variants_sg s sb nn SGb), Hwv in Hws. inversion Hws; subst ws. clear Hws.
  match type of Hg with flat_mapM ?f _ _ = _ => assert (Pf : forall x, pres same_graph (f x)) end.
  { intros y.
    apply (pres_bind same_graph same_graph_trans); [apply pres_lift; exact same_graph_refl|]. intros a1.
    apply (pres_bind same_graph same_graph_trans); [apply pres_lift; exact same_graph_refl|]. intros a2.
    destruct (negb (node_eqb (fst a1) (fst a2))); [apply (pres_ret same_graph same_graph_refl)|].
    destruct (insert_all_bij (combine (all_occ (nullify y)) _) _) as [mm|]; [|apply (pres_ret same_graph same_graph_refl)].
    apply sg_ematch_kids. apply Forall_forall. intros q _. apply sg_ematch_impl. }
  destruct (flat_mapM_fwd same_graph same_graph_refl same_graph_trans _ _ _ _ Pf _ _ _ Hg n2 Hn2)
    as (se & rb & sf & _ & Hh & _ & Ib). clear Hg Pf.
  apply mbind_inv in Hh. destruct Hh as (a1 & sg & Ha1 & Hh). apply lift_inv in Ha1. destruct Ha1 as [Ha1 ->].
  rewrite Hw1 in Ha1. inversion Ha1; subst a1. clear Ha1.
  apply mbind_inv in Hh. destruct Hh as (a2 & sg & Ha2 & Hh). apply lift_inv in Ha2. destruct Ha2 as [Ha2 ->].
  rewrite Hw2 in Ha2. inversion Ha2; subst a2. clear Ha2.
  rewrite He in Hh. cbn [negb partial_slotmap partial_subst estate0] in Hh. rewrite Hib in Hh.
  pose proof (matched_app_len _ _ _ _ Hw1 Hw2 He) as L.
  rewrite ematch_kids_vars in Hh; [| exact Hnd | intros; reflexivity | lia].
  inversion Hh; subst rb sf. clear Hh. cbn [partial_subst partial_slotmap app] in Ib.
  set (st1 := {| partial_subst := combine vs (app_occ n2); partial_slotmap := m' |}) in *.
  assert (Hst : In st1 sts) by (apply Ia, Ib; left; reflexivity).
  destruct (mapM_fwd sg_ge sg_ge_refl sg_ge_trans _ _ _ _ (Pfin (c_slots c) i) _ _ _ Hfin st1 Hst) as (t3 & y & t4 & R3 & Hy & Iy).
  apply mbind_inv in Hy. destruct Hy as (rr & t5 & Hrr & Hy). apply ret_inv in Hy. destruct Hy as [-> ->].
  destruct rr as [sbf mf].
  eexists _, t3, t5. split; [apply I1; exact Iy|]. cbn [mr_id mr_sl mr_sb mr_fin fst snd].
  split; [reflexivity|]. split; [reflexivity|]. split; [|exact Hrr].
  eapply sg_ge_trans; [exact R1|]. eapply sg_ge_trans; [exact R13|exact R3].
Qed.
Print Assumptions d1_forward.

(* ------------------------------------------------------------------ *)
(* 5. slot-map algebra, `insert_all_bij` succeeds on a consistent pair list, the final map of `final_subst` *)

Lemma insert_all_bij_ok : forall (f : slot -> slot) (D : list slot), inj_on f D ->
  forall ps m, wf m -> (forall x y, In (x, y) ps -> y = f x /\ In x D) ->
  (forall k v, get m k = Some v -> v = f k /\ In k D) ->
  exists m', insert_all_bij ps m = Some m'.
Proof.
  intros f D Inj. induction ps as [|[x y] t IH]; intros m W Hps Hm; cbn [insert_all_bij]; [eexists; reflexivity|].
  destruct (Hps x y (or_introl eq_refl)) as [Ey Dx].
  assert (B : is_bijection (insert x y m) = true).
  { apply is_bijection_injective; [apply insert_wf; exact W|].
    intros k1 k2 v G1 G2. rewrite get_insert_any in G1, G2.
    assert (F : forall k, (if k =? x then Some y else get m k) = Some v -> v = f k /\ In k D).
    { intros k G. destruct (k =? x) eqn:E; [|exact (Hm k v G)]. apply N.eqb_eq in E. subst k. inversion G; subst v. auto. }
    destruct (F k1 G1) as [E1 D1]. destruct (F k2 G2) as [E2 D2]. apply Inj; [exact D1|exact D2|congruence]. }
  assert (T : try_insert_bij x y m = Some (insert x y m)).
  { unfold try_insert_bij. destruct (get m x) as [vo|] eqn:G.
    - destruct (Hm x vo G) as [Ev _]. replace (vo =? y) with true by (symmetry; apply N.eqb_eq; congruence).
      rewrite B. reflexivity.
    - rewrite B. reflexivity. }
  rewrite T. apply IH; [apply insert_wf; exact W| |].
  - intros x' y' Hin. apply Hps. right; exact Hin.
  - intros k v G. rewrite get_insert_any in G. destruct (k =? x) eqn:E; [|exact (Hm k v G)].
    apply N.eqb_eq in E. subst k. inversion G; subst v. auto.
Qed.

Lemma in_combine_swap_map : forall {A C D} (h : A -> D) (X : list A) (P : list C) x p,
  In (x, p) (combine X P) -> In (p, h x) (combine P (map h X)).
Proof.
  intros A C D h. induction X as [|a t IH]; intros [|b u] x p H; cbn [combine map] in *; try contradiction.
  destruct H as [H|H]; [inversion H; subst; left; reflexivity|right; apply IH; exact H].
Qed.

Lemma in_combine_r_ex' : forall {A C} (l : list A) (l' : list C) y, List.length l = List.length l' -> In y l' ->
  exists x, In (x, y) (combine l l').
Proof.
  induction l as [|a t IH]; intros [|b u] y L Hy; try discriminate; [contradiction|]. cbn [combine].
  destruct Hy as [<-|Hy]; [exists a; left; reflexivity|].
  destruct (IH u y) as (x & Hx); [cbn [List.length] in L; lia|exact Hy|]. exists x. right; exact Hx.
Qed.

(* (A ** M) ** (inv M ** R) = A ** R when M is an injective map defined on the values of A *)
Lemma cancel_mid : forall A Mm Rr, wf A -> wf Mm -> is_bijection Mm = true ->
  (forall x, In x (values_vec A) -> get Mm x <> None) ->
  (A ** Mm) ** (inverse_nocheck Mm ** Rr) = A ** Rr.
Proof.
  intros A Mm Rr WA WM BM Def. apply ext_eq; try apply compose_partial_wf. intros k.
  rewrite (get_compose_partial (A ** Mm)) by apply compose_partial_wf.
  rewrite !(get_compose_partial A) by exact WA.
  destruct (get A k) as [y|] eqn:G; [|reflexivity].
  destruct (get Mm y) as [z|] eqn:Gz; [|exfalso; exact (Def y (get_values_vec _ _ _ G) Gz)].
  rewrite get_compose_partial by apply inverse_wf.
  rewrite (proj2 (get_inverse Mm z y WM BM) Gz). reflexivity.
Qed.

Lemma inv_comp_bij : forall Mm Rr, wf Mm -> is_bijection Mm = true -> injective Rr ->
  is_bijection (inverse_nocheck Mm ** Rr) = true.
Proof.
  intros Mm Rr WM BM IR. apply is_bijection_injective; [apply compose_partial_wf|].
  intros k1 k2 v G1 G2. rewrite get_compose_partial in G1, G2 by apply inverse_wf.
  destruct (get (inverse_nocheck Mm) k1) as [y1|] eqn:E1; [|discriminate].
  destruct (get (inverse_nocheck Mm) k2) as [y2|] eqn:E2; [|discriminate].
  assert (y1 = y2) by (eapply IR; eauto). subst y2.
  apply (get_inverse Mm _ _ WM BM) in E1. apply (get_inverse Mm _ _ WM BM) in E2. congruence.
Qed.

Lemma extend_fresh_wf : forall l m s m' s', extend_fresh l m s = Ok (m', s') -> wf m -> wf m'.
Proof.
  induction l as [|x t IH]; intros m s m' s' H W; cbn [extend_fresh] in H.
  - inversion H; subst. exact W.
  - destruct (contains_key m x); [exact (IH _ _ _ _ H W)|].
    apply mbind_inv in H. destruct H as (f & s1 & _ & H). eapply IH; [exact H|apply insert_wf; exact W].
Qed.

Lemma final_go_m_spec : forall l m t sb mf t', final_go_m l m t = Ok ((sb, mf), t') ->
  wf m -> injective m -> (forall k v, get m k = Some v -> v < Model.ctr t) ->
  Forall (fun va : text * appid => wf (am (snd va))) l ->
  wf mf /\ injective mf /\ (forall k v, get m k = Some v -> get mf k = Some v) /\
  sb = map (fun va => (fst va, out_of mf (snd va))) l /\
  (forall va x, In va l -> In x (values_vec (am (snd va))) -> get mf x <> None).
Proof.
  induction l as [|[v a] r IH]; intros m t sb mf t' H Wm Inj V W; cbn [final_go_m] in H.
  - apply ret_inv in H. destruct H as [E _]. inversion E; subst sb mf.
    split; [exact Wm|]. split; [exact Inj|]. split; [auto|]. split; [reflexivity|]. intros va x [].
  - apply mbind_inv in H. destruct H as (m1 & t1 & He & H). apply mbind_inv in H. destruct H as ([r1 mf1] & t2 & Hr & H).
    apply ret_inv in H. destruct H as [E _]. cbn [fst snd] in E. inversion E; subst sb mf1. clear E.
    inversion W as [|? ? Wa Wr]; subst. cbn [snd] in Wa.
    destruct (extend_fresh_specL _ _ _ _ _ He Inj V) as (Inj1 & V1 & Mono1 & Def1).
    pose proof (extend_fresh_wf _ _ _ _ _ He Wm) as Wm1.
    destruct (IH _ _ _ _ _ Hr Wm1 Inj1 V1 Wr) as (Wf & Injf & Monof & Hmap & Deff).
    assert (DefA : forall x, In x (values_vec (am a)) -> get m1 x <> None).
    { intros x Hx. apply Def1. apply (values_spec _ _ Wa). unfold values_vec in Hx. apply in_map_iff in Hx.
      destruct Hx as ([k x'] & <- & Hk). exists k. apply in_get; assumption. }
    split; [exact Wf|]. split; [exact Injf|]. split; [intros k w G; apply Monof, Mono1, G|]. split.
    + cbn [map fst snd]. rewrite Hmap. f_equal. f_equal. unfold out_of. cbn [aid am]. f_equal. apply compose_ext_on.
      intros [k x] Hp. cbn [snd].
      assert (Hx : In x (values_vec (am a))) by (unfold values_vec; change x with (snd (k, x)); apply in_map; exact Hp).
      destruct (get m1 x) as [z|] eqn:G; [|exfalso; exact (DefA x Hx G)]. symmetry. exact (Monof _ _ G).
    + intros va x [<-|Hin] Hx; [|exact (Deff va x Hin Hx)]. cbn [snd] in Hx.
      destruct (get m1 x) as [z|] eqn:G; [|exfalso; exact (DefA x Hx G)]. rewrite (Monof _ _ G). discriminate.
Qed.

Lemma eg_eq_sg : forall s t a b, same_graph s t -> eg_eq t a b = eg_eq s a b.
Proof. intros s t a b H. rewrite (sg_set_ctr s t H). reflexivity. Qed.

Lemma sub_get_combine2 : forall (Q : appid -> appid -> Prop) vs l1 l2, NoDup vs -> Forall2 Q l1 l2 ->
  List.length vs = List.length l1 -> forall v, In v vs ->
  exists b c, sub_get (combine vs l1) v = Some b /\ sub_get (combine vs l2) v = Some c /\ Q b c.
Proof.
  intros Q. induction vs as [|w vs' IH]; intros l1 l2 Hnd F L v Hv; [contradiction|].
  destruct F as [|b c l1' l2' Hq F']; [discriminate|]. cbn [combine sub_get].
  inversion Hnd as [|? ? Hnotin Hnd']; subst.
  destruct (text_eqb w v) eqn:E.
  - exists b, c. auto.
  - destruct Hv as [->|Hv]; [rewrite text_eqb_refl in E; discriminate|].
    apply (IH l1' l2' Hnd' F'); [cbn [List.length] in L; lia|exact Hv].
Qed.

Lemma pat_vars_d1 : forall nd vs, pat_vars (d1_pat nd vs) = vs.
Proof.
  intros nd vs. unfold d1_pat. cbn [pat_vars]. induction vs as [|v t IH]; [reflexivity|]. cbn [map pat_vars app]. rewrite IH. reflexivity.
Qed.

Lemma pslots_d1 : forall nd vs, pslots (d1_pat nd vs) = all_occ nd.
Proof.
  intros nd vs. unfold d1_pat. rewrite pslots_node.
  assert (E : flat_map pslots (map PVarP vs) = []) by (induction vs as [|v t IH]; [reflexivity|cbn [map flat_map pslots app]; exact IH]).
  rewrite E. apply app_nil_r.
Qed.

(* what `instance_of` says *)
Lemma instance_of_spec : forall nd n theta, instance_of nd n = Some theta ->
  nvar nd = nvar n /\ (exists a b, wshape nd = Ok a /\ wshape (nullify n) = Ok b /\ fst a = fst b) /\
  skel (nullify n) = skel nd /\
  insert_all_bij (combine (all_occ nd) (all_occ (nullify n))) [] = Some theta /\
  RenameFacts.ren (g_of theta) nd = nullify n.
Proof.
  intros nd n theta H. unfold instance_of in H.
  destruct (Nat.eqb (nvar nd) (nvar n)) eqn:Ev; cbn [negb] in H; [|discriminate]. apply Nat.eqb_eq in Ev.
  destruct (wshape nd) as [[sh1 b1]|] eqn:W1; [|discriminate].
  destruct (wshape (nullify n)) as [[sh2 b2]|] eqn:W2; [|discriminate]. cbn [fst] in H.
  destruct (node_eqb sh1 sh2) eqn:E; [|discriminate]. apply node_eqb_iff in E. subst sh2.
  assert (Sk : skel (nullify n) = skel nd).
  { destruct (node_equiv_shape _ _ _ W1) as [S1 _]. destruct (node_equiv_shape _ _ _ W2) as [S2 _]. congruence. }
  split; [exact Ev|]. split; [exists (sh1, b1), (sh1, b2); auto|]. split; [exact Sk|]. split; [exact H|].
  apply skel_occ_inj; [rewrite ren_skel; symmetry; exact Sk|].
  rewrite (all_occ_ren_flagless (g_of theta true) (g_of theta) nd (fun _ _ => eq_refl)).
  apply map_combine_eq; [symmetry; apply skel_occ_len; exact Sk|].
  intros x y Hxy. unfold g_of. rewrite (insert_all_bij_get _ _ _ H x y Hxy). reflexivity.
Qed.

(* ------------------------------------------------------------------ *)
(* 6. DEPTH-ONE COMPLETENESS from the matcher side (d1_forward) and the e-graph side (`repr_witness`) *)

(* the e-graph side: the represented node n is, up to an injective slot renaming rho and e-graph equality of the
   children, a weak variant n2 of a node nn that `enodes_applied` lists for the class of a *)
Record repr_witness (s : egraph) (n : node) (a : appid) (c : eclass) (nn n2 : node) (rho : slotmap) : Prop := {
  rw_var : nvar nn = nvar n;
  rw_wfk : wfk n2;
  rw_wf : wf rho;
  rw_inj : injective rho;
  rw_ok : ren_ok (g_of rho) (nullify n2);
  rw_skel : RenameFacts.ren (g_of rho) (nullify n2) = nullify n;
  rw_def : forall x, In x (all_occ (nullify n2)) -> get rho x <> None;
  rw_kids : Forall2 (fun b c0 => eg_eq s (rn rho b) c0 = Ok true) (app_occ n2) (app_occ n);
  rw_slots : forall x, In x (c_slots c) ->
               In x (all_occ (nullify n2)) \/ exists k, In k (app_occ n2) /\ In x (values_vec (am k));
  rw_root : eg_eq s (rn rho {| aid := aid a; am := identity (c_slots c) |}) a = Ok true }.

Definition repr_hyp (s : egraph) (n : node) : Prop :=
  forall a, eg_lookup s n = Ok (Some a) ->
  In (aid a) (ids s) /\ exists c, get_class s (aid a) = Ok c /\
  forall t nns t', sg_ge s t -> enodes_applied {| aid := aid a; am := identity (c_slots c) |} t = Ok (nns, t') ->
  exists nn vs' n2 rho, In nn nns /\ weak_variants s nn = Ok vs' /\ In n2 vs' /\ repr_witness s n a c nn n2 rho.

Lemma map_combine_snd : forall {A C D} (g : C -> D) (l : list A) (l' : list C),
  map (fun va => (fst va, g (snd va))) (combine l l') = combine l (map g l').
Proof.
  intros A C D g. induction l as [|x t IH]; intros [|y u]; cbn [combine map fst snd]; try reflexivity. rewrite IH. reflexivity.
Qed.

Theorem d1_complete_from_repr : forall s nd vs n theta,
  NoDup vs -> List.length vs = List.length (app_occ nd) -> pat_below (Model.ctr s) (d1_pat nd vs) ->
  instance_of nd n = Some theta -> repr_hyp s n ->
  complete_for s (d1_pat nd vs) theta (combine vs (app_occ n)).
Proof.
  intros s nd vs n theta Hnd Hlen Hpb Hinst Hrep a Ha l s' E.
  destruct (instance_of_spec _ _ _ Hinst) as (Ev & (sa & sb0 & W1 & W2 & Efst) & Sk & Hth & Eren).
  assert (Ln : List.length (app_occ n) = List.length (app_occ nd)).
  { apply (matched_app_len nd n sa sb0 W1 W2). rewrite Efst. apply node_eqb_refl. }
  (* the premise is the lookup of n *)
  unfold d1_pat in Ha. rewrite pren_node, map_map in Ha.
  change (map (fun x => pren theta (PVarP x)) vs) with (map PVarP vs) in Ha. rewrite Eren in Ha.
  rewrite (lookup_pat_vars s (nullify n) vs (combine vs (app_occ n)) Hnd) in Ha;
    [| apply map_fst_combine_len; lia | rewrite nullify_app_len; lia].
  rewrite map_snd_combine_len in Ha by lia. rewrite set_apps_nullify in Ha.
  destruct (Hrep a Ha) as (Hi & c & Hc & Hall).
  destruct (d1_forward s nd vs l s' Hnd Hlen E (aid a) c Hi Hc) as (t & nns & t' & Rt & Hen & Hfw).
  destruct (Hall t nns t' Rt Hen) as (nn & vs' & n2 & rho & Hnn & Hwv & Hn2 & Wt).
  destruct Wt as [Wvar Wk Wrho Irho Wok Wskel Wdef Wkids Wslots Wroot].
  (* the skeleton of n2 has the weak shape of the pattern node *)
  destruct (weak_shape_total false (nullify n2)) as (sh2 & b2 & W3).
  destruct (ren_ok_same_wshape (g_of rho) (nullify n2) Wok sh2 b2 W3) as (b' & W4). rewrite Wskel, W2 in W4.
  inversion W4; subst sb0. cbn [fst] in Efst. clear W4.
  assert (He : node_eqb (fst sa) (fst (sh2, b2)) = true) by (cbn [fst]; rewrite Efst; apply node_eqb_refl).
  assert (Sk2 : skel (nullify n2) = skel nd).
  { destruct sa as [sh1 b1]. cbn [fst] in Efst. subst sh1.
    destruct (node_equiv_shape _ _ _ W1) as [S1 _]. destruct (node_equiv_shape _ _ _ W3) as [S2 _]. congruence. }
  pose proof (skel_occ_len _ _ Sk2) as Len.
  set (X := all_occ (nullify n2)) in *. set (P := all_occ nd) in *. set (h := g_of rho true).
  assert (HX : all_occ (nullify n) = map h X).
  { rewrite <- Wskel. apply (all_occ_ren_flagless h (g_of rho) (nullify n2)). reflexivity. }
  assert (Wth : wf theta) by (eapply insert_all_bij_wf; [exact Hth|exact I]).
  assert (Bth : is_bijection theta = true) by (eapply insert_all_bij_bij; [exact Hth|reflexivity]).
  set (f := fun x => match get (inverse_nocheck theta) (h x) with Some p => p | None => 0 end).
  assert (Hrho : forall x, In x X -> get rho x = Some (h x)).
  { intros x Hx. unfold h, g_of. destruct (get rho x) as [y|] eqn:G; [reflexivity|exfalso; exact (Wdef x Hx G)]. }
  assert (Hpair : forall x p, In (x, p) (combine X P) -> get theta p = Some (h x) /\ f x = p).
  { intros x p Hxp. pose proof (in_combine_swap_map h X P x p Hxp) as Hs. rewrite <- HX in Hs.
    pose proof (insert_all_bij_get _ _ _ Hth p (h x) Hs) as G. split; [exact G|].
    unfold f. rewrite (proj2 (get_inverse theta (h x) p Wth Bth) G). reflexivity. }
  assert (Hinj : inj_on h X).
  { intros x y Hx Hy Exy. eapply Irho; [exact (Hrho x Hx)|rewrite Exy; exact (Hrho y Hy)]. }
  destruct (insert_all_bij_ok f X) with (ps := combine X P) (m := @nil (slot * slot)) as (m' & Hib).
  { intros x y Hx Hy Exy. destruct (in_combine_l_ex X P x Len Hx) as (p & Hp). destruct (in_combine_l_ex X P y Len Hy) as (q & Hq).
    destruct (Hpair x p Hp) as [G1 F1]. destruct (Hpair y q Hq) as [G2 F2].
    apply Hinj; [exact Hx|exact Hy|]. assert (p = q) by congruence. subst q. congruence. }
  { exact I. }
  { intros x p Hxp. split; [symmetry; exact (proj2 (Hpair x p Hxp))|exact (in_combine_l _ _ _ _ Hxp)]. }
  { intros k v G. discriminate G. }
  assert (Hvnn : nvar nd = nvar nn) by congruence.
  destruct (Hfw nn vs' n2 sa (sh2, b2) m' Hnn Hvnn Hwv Hn2 W1 W3 He Hib) as (r & t3 & t4 & Hr & Hid & Hsl & R3 & Hfin).
  assert (Lk : List.length vs = List.length (app_occ n2)).
  { pose proof (matched_app_len _ _ _ _ W1 W3 He). lia. }
  assert (Wm' : wf m') by (eapply insert_all_bij_wf; [exact Hib|exact I]).
  assert (Im' : injective m') by (apply is_bijection_inj; eapply insert_all_bij_bij; [exact Hib|reflexivity]).
  destruct (final_go_m_spec _ _ _ _ _ _ Hfin Wm' Im') as (Wf & Injf & Monof & Hsb & Deff).
  { intros k v G. destruct (insert_all_bij_src _ _ _ Hib k v G) as [G0|Hin]; [discriminate G0|].
    assert (v < Model.ctr s). { apply Hpb. rewrite pslots_d1. exact (in_combine_r _ _ _ _ Hin). }
    destruct R3 as [_ R3]. lia. }
  { apply Forall_forall. intros [v b0] Hin. cbn [snd]. apply in_combine_r in Hin.
    exact (proj1 (Forall_forall _ _) Wk b0 Hin). }
  set (mf := mr_fin r) in *.
  assert (Bf : is_bijection mf = true) by (apply is_bijection_injective; assumption).
  assert (DefX : forall x, In x X -> exists p, In (x, p) (combine X P) /\ get mf x = Some p).
  { intros x Hx. destruct (in_combine_l_ex X P x Len Hx) as (p & Hp). exists p. split; [exact Hp|].
    apply Monof. exact (insert_all_bij_get _ _ _ Hib x p Hp). }
  assert (DefK : forall b0 x, In b0 (app_occ n2) -> In x (values_vec (am b0)) -> get mf x <> None).
  { intros b0 x Hb Hx. destruct (in_combine_r_ex' vs (app_occ n2) b0 Lk Hb) as (v & Hv). exact (Deff (v, b0) x Hv Hx). }
  assert (SG : same_graph s s').
  { apply (ematch_all_state (d1_pat nd vs) s (map mr_sb l) s'). rewrite ematch_all_r_spec, E. reflexivity. }
  set (sigma := inverse_nocheck mf ** rho).
  exists r. split; [exact Hr|]. exists sigma. split; [apply inv_comp_bij; assumption|]. split; [|split; [|split]].
  - intros x Hx. rewrite pslots_d1 in Hx. destruct (in_combine_r_ex' X P x Len Hx) as (x0 & Hx0).
    destruct (Hpair x0 x Hx0) as [G _]. exists (h x0). split; [exact G|].
    unfold sigma. rewrite get_compose_partial by apply inverse_wf.
    assert (Gm : get mf x0 = Some x) by (apply Monof; exact (insert_all_bij_get _ _ _ Hib x0 x Hx0)).
    rewrite (proj2 (get_inverse mf x x0 Wf Bf) Gm). apply Hrho. exact (in_combine_l _ _ _ _ Hx0).
  - intros v Hv. rewrite pat_vars_d1 in Hv. rewrite Hsb, map_combine_snd.
    apply (sub_get_combine2 (fun b c0 => eg_eq s' (rn sigma b) c0 = Ok true)); [exact Hnd| |rewrite map_length; exact Lk|exact Hv].
    assert (G : forall l1 l2, Forall2 (fun b c0 => eg_eq s (rn rho b) c0 = Ok true) l1 l2 ->
                (forall b0, In b0 l1 -> rn sigma (out_of mf b0) = rn rho b0) ->
                Forall2 (fun b c0 => eg_eq s' (rn sigma b) c0 = Ok true) (map (out_of mf) l1) l2).
    { intros l1 l2 F. induction F as [|b0 c0 l1' l2' Hq F' IH]; intros Heq; cbn [map]; constructor.
      - rewrite (eg_eq_sg s s' _ _ SG), (Heq b0 (or_introl eq_refl)). exact Hq.
      - apply IH. intros b1 Hb1. apply Heq. right; exact Hb1. }
    apply G; [exact Wkids|]. intros b0 Hb0. unfold rn, out_of, sigma. cbn [aid am]. f_equal.
    apply cancel_mid; [exact (proj1 (Forall_forall _ _) Wk b0 Hb0)|exact Wf|exact Bf|exact (fun x Hx => DefK b0 x Hb0 Hx)].
  - exact Hid.
  - rewrite (eg_eq_sg s s' _ _ SG). unfold mr_root, rn. cbn [aid am]. rewrite Hid, Hsl. fold mf.
    unfold sigma. rewrite cancel_mid; [exact Wroot|apply identity_wf|exact Wf|exact Bf|].
    intros x Hx. unfold values_vec in Hx. apply in_map_iff in Hx. destruct Hx as ([k x'] & <- & Hkx).
    apply in_identity in Hkx. destruct Hkx as [<- Hk]. cbn [snd].
    destruct (Wslots k Hk) as [HxX|(b0 & Hb0 & Hxb)].
    + destruct (DefX k HxX) as (p & _ & G). rewrite G. discriminate.
    + exact (DefK b0 k Hb0 Hxb).
Qed.
Print Assumptions d1_complete_from_repr.

(* ------------------------------------------------------------------ *)
(* 7. FIRING: every substitution the searcher returns is applied: both sides are inserted, and the two handles are
      equal at the end of `apply_rewrites` (unions made for later substitutions do not undo it) *)

Lemma qstep_eqmono : forall s s' a b, qstep s s' -> covers s a -> covers s b -> eg_eq s a b = Ok true -> eg_eq s' a b = Ok true.
Proof. intros s s' a b (_ & (_ & _ & (_ & M) & _) & _) Ca Cb H. exact (M a b Ca Cb H). Qed.

(* one application *)
Lemma union_instantiations_fires : forall fp tp sb s x s', inv3 s -> sub_cov s sb ->
  union_instantiations fp tp sb s = Ok (x, s') ->
  qstep s s' /\ exists a b s1 s2, pattern_subst fp sb s = Ok (a, s1) /\ pattern_subst tp sb s1 = Ok (b, s2) /\
    covers s' a /\ covers s' b /\ eg_eq s' a b = Ok true.
Proof.
  intros fp tp sb s x s' I3 SC H. split; [exact (q_union_instantiations fp tp sb s x s' I3 SC H)|].
  unfold union_instantiations in H.
  apply mbind_inv in H. destruct H as (a & s1 & H1 & H). destruct (q_pattern_subst fp sb s a s1 I3 SC H1) as [Q1 C1].
  apply mbind_inv in H. destruct H as (b & s2 & H2 & H).
  destruct (q_pattern_subst tp sb s1 b s2 (proj1 Q1) (sub_cov_qstep _ _ _ Q1 SC) H2) as [Q2 C2].
  change (eg_union a b s2 = Ok (x, s')) in H.
  pose proof (qstep_pext_cov _ _ _ Q2 C1) as C1'.
  pose proof (qstep_eg_union a b s2 x s' (proj1 Q2) C1' C2 H) as Q3.
  exists a, b, s1, s2. split; [exact H1|]. split; [exact H2|].
  split; [exact (qstep_pext_cov _ _ _ Q3 C1')|]. split; [exact (qstep_pext_cov _ _ _ Q3 C2)|].
  exact (eg_union_establishes a b s2 x s' (proj1 Q2) C1' C2 H).
Qed.

(* all applications of one rule without condition *)
Lemma apply_substs_fires : forall rl, r_cond rl = None -> forall substs s x s', inv3 s -> Forall (sub_cov s) substs ->
  apply_substs_cond rl substs s = Ok (x, s') ->
  forall sb, In sb substs ->
  exists t a b t1 t2, qstep s t /\ pattern_subst (r_lhs rl) sb t = Ok (a, t1) /\ pattern_subst (r_rhs rl) sb t1 = Ok (b, t2) /\
    covers s' a /\ covers s' b /\ eg_eq s' a b = Ok true.
Proof.
  intros rl Hc. induction substs as [|sb0 t IH]; intros s x s' I3 SC H sb Hin; [contradiction|].
  pose proof H as Hall. unfold apply_substs_cond in H. cbn [iterM] in H.
  apply mbind_inv in H. destruct H as (u & s1 & H1 & H).
  apply mbind_inv in H1. destruct H1 as (cnd & s0 & Hcd & H1). apply lift_inv in Hcd. destruct Hcd as [Hcd ->].
  rewrite Hc in Hcd. cbn [cond_holds] in Hcd. inversion Hcd; subst cnd. clear Hcd.
  apply mbind_inv in H1. destruct H1 as (b0 & s2 & H2 & H1). apply ret_inv in H1. destruct H1 as [_ E1]. subst s2.
  destruct (union_instantiations_fires _ _ _ _ _ _ I3 (Forall_inv SC) H2) as (Q1 & a & b & t1 & t2 & Ha & Hb & Ca & Cb & E).
  assert (SC1 : Forall (sub_cov s1) t).
  { apply Forall_inv_tail in SC. revert SC. apply Forall_impl. intros sb'. apply sub_cov_qstep. exact Q1. }
  change (apply_substs_cond rl t s1 = Ok (x, s')) in H.
  pose proof (q_apply_substs_cond rl t s1 x s' (proj1 Q1) SC1 H) as Q2.
  destruct Hin as [<-|Hin].
  - exists s, a, b, t1, t2. split; [apply qstep_refl; exact I3|]. split; [exact Ha|]. split; [exact Hb|].
    split; [exact (qstep_pext_cov _ _ _ Q2 Ca)|]. split; [exact (qstep_pext_cov _ _ _ Q2 Cb)|].
    exact (qstep_eqmono _ _ _ _ Q2 Ca Cb E).
  - destruct (IH s1 x s' (proj1 Q1) SC1 H sb Hin) as (t0 & a' & b' & t1' & t2' & Q0 & Ha' & Hb' & R).
    exists t0, a', b', t1', t2'. split; [eapply qstep_trans; eauto|]. split; [exact Ha'|]. split; [exact Hb'|exact R].
Qed.

(* `apply_rewrites [rl]`: every substitution found for the left side fires *)
Theorem apply_rewrites_fires : forall rl s b1 s1,
  inv3 s -> kids_ok s -> m4 s -> pat_below (Model.ctr s) (r_lhs rl) -> r_cond rl = None ->
  apply_rewrites [rl] s = Ok (b1, s1) ->
  exists l s', ematch_all (r_lhs rl) s = Ok (l, s') /\
  forall sb, In sb l ->
  exists t a b t1 t2, qstep s t /\
    pattern_subst (r_lhs rl) sb t = Ok (a, t1) /\ pattern_subst (r_rhs rl) sb t1 = Ok (b, t2) /\
    covers s1 a /\ covers s1 b /\ eg_eq s1 a b = Ok true.
Proof.
  intros rl s b1 s1 I3 K M4 Hpb Hc H. unfold apply_rewrites, apply_rewrites_sched in H.
  apply mbind_inv in H. destruct H as (p0 & s0 & Hp0 & H). apply reads_inv in Hp0. destruct Hp0 as [_ E0]. subst s0.
  apply mbind_inv in H. destruct H as (ts & s' & Hts & H). cbn [mapM] in Hts.
  apply mbind_inv in Hts. destruct Hts as (l & s2 & Hl & Hts).
  apply mbind_inv in Hts. destruct Hts as (r0 & s3 & Hr0 & Hts). apply ret_inv in Hr0. destruct Hr0 as [E1 E2]. subst r0 s3.
  apply ret_inv in Hts. destruct Hts as [E1 E2]. subst ts s'.
  exists l, s2. split; [exact Hl|]. intros sb Hin.
  cbn [mapi_from combine iterM] in H.
  apply mbind_inv in H. destruct H as (u & s4 & Happ & H).
  apply mbind_inv in Happ. destruct Happ as (u' & s5 & Happ & Hr). apply ret_inv in Hr. destruct Hr as [_ E1]. subst s4.
  cbn [fst snd] in Happ.
  apply mbind_inv in H. destruct H as (p1 & s6 & Hp1 & H). apply reads_inv in Hp1. destruct Hp1 as [_ E1]. subst s6.
  apply ret_inv in H. destruct H as [_ E1]. subst s1.
  pose proof (ematch_all_state _ _ _ _ Hl) as SG.
  pose proof (ematch_all_ctr _ _ _ _ Hl) as CL.
  pose proof (qstep_sg s s2 I3 SG CL) as Q0.
  pose proof (proj1 (Forall_and_inv _ _ (ematch_all_covers_below _ _ _ _ I3 K M4 Hpb Hl))) as SC.
  destruct (apply_substs_fires rl Hc l s2 u' s5 (proj1 Q0) SC Happ sb Hin) as (t & a & b & t1 & t2 & Q & R).
  exists t, a, b, t1, t2. split; [eapply qstep_trans; eauto|exact R].
Qed.
Print Assumptions apply_rewrites_fires.

(* ------------------------------------------------------------------ *)
(* 8. the two halves together *)
Theorem d1_complete_and_fires : forall s rl nd vs n theta b1 s1,
  inv3 s -> kids_ok s -> m4 s ->
  r_lhs rl = d1_pat nd vs -> r_cond rl = None ->
  NoDup vs -> List.length vs = List.length (app_occ nd) -> pat_below (Model.ctr s) (d1_pat nd vs) ->
  instance_of nd n = Some theta -> repr_hyp s n ->
  forall a0, eg_lookup s n = Ok (Some a0) ->
  apply_rewrites [rl] s = Ok (b1, s1) ->
  exists l s' sb r, ematch_all (d1_pat nd vs) s = Ok (l, s') /\ In sb l /\ mr_sb r = sb /\
    describes s' (d1_pat nd vs) theta (combine vs (app_occ n)) a0 r /\
    exists t a b t1 t2, qstep s t /\
      pattern_subst (d1_pat nd vs) sb t = Ok (a, t1) /\ pattern_subst (r_rhs rl) sb t1 = Ok (b, t2) /\
      covers s1 a /\ covers s1 b /\ eg_eq s1 a b = Ok true.
Proof.
  intros s rl nd vs n theta b1 s1 I3 K M4 Hl Hc Hnd Hlen Hpb Hinst Hrep a0 Ha0 Happ.
  destruct (apply_rewrites_fires rl s b1 s1 I3 K M4) as (l & s' & Hm & Hf); [rewrite Hl; exact Hpb|exact Hc|exact Happ|].
  rewrite Hl in Hm, Hf.
  pose proof (d1_complete_from_repr s nd vs n theta Hnd Hlen Hpb Hinst Hrep) as C.
  assert (Hlk : lookup_pat s (pren theta (d1_pat nd vs)) (combine vs (app_occ n)) = Ok (Some a0)).
  { destruct (instance_of_spec _ _ _ Hinst) as (Ev & (sa & sb0 & W1 & W2 & Efst) & Sk & Hth & Eren).
    assert (Ln : List.length (app_occ n) = List.length (app_occ nd)).
    { apply (matched_app_len nd n sa sb0 W1 W2). rewrite Efst. apply node_eqb_refl. }
    unfold d1_pat. rewrite pren_node, map_map.
    change (map (fun x => pren theta (PVarP x)) vs) with (map PVarP vs). rewrite Eren.
    rewrite (lookup_pat_vars s (nullify n) vs (combine vs (app_occ n)) Hnd);
      [| apply map_fst_combine_len; lia | rewrite nullify_app_len; lia].
    rewrite map_snd_combine_len by lia. rewrite set_apps_nullify. exact Ha0. }
  destruct (complete_for_ematch_all _ _ _ _ C a0 Hlk l s' Hm) as (sb & r & Hin & Hr & D).
  exists l, s', sb, r. split; [exact Hm|]. split; [exact Hin|]. split; [exact Hr|]. split; [exact D|].
  exact (Hf sb Hin).
Qed.
Print Assumptions d1_complete_and_fires.

(* ------------------------------------------------------------------ *)
(* 9. executable test of the remaining hypothesis `repr_hyp` (at t = s): the witness (nn, n2, rho) is searched *)
Definition rho_cands (s : egraph) (n n2 : node) : list slotmap :=
  match mapr (fun bc : appid * appid =>
                do fb <- find_applied_id s (fst bc);
                do fc <- find_applied_id s (snd bc);
                if negb (aid fb =? aid fc) then Ok [] else
                do cl <- get_class s (aid fb);
                do G <- gall_perms false (c_group cl);
                Ok (map (kid_pairs fb fc) G)) (combine (app_occ n2) (app_occ n)) with
  | Ok per =>
      flat_map (fun choice =>
                  match insert_all_bij (combine (all_occ (nullify n2)) (all_occ (nullify n)) ++ concat choice) [] with
                  | Some rho => [rho] | None => [] end) (cartesian per)
  | Err _ => []
  end.

Definition witness_okb (s : egraph) (n : node) (a : appid) (c : eclass) (nn n2 : node) (rho : slotmap) : bool :=
  Nat.eqb (nvar nn) (nvar n) && forallb (fun k => sortedb (am k)) (app_occ n2) && sortedb rho && is_bijection rho &&
  ren_okb (g_of rho) (nullify n2) && node_eqb (RenameFacts.ren (g_of rho) (nullify n2)) (nullify n) &&
  forallb (fun x => is_some (get rho x)) (all_occ (nullify n2)) &&
  forallb2 (fun b c0 => eq_trueb (eg_eq s (rn rho b) c0)) (app_occ n2) (app_occ n) &&
  forallb (fun x => existsb (N.eqb x) (all_occ (nullify n2)) ||
                    existsb (fun k => existsb (N.eqb x) (values_vec (am k))) (app_occ n2)) (c_slots c) &&
  eq_trueb (eg_eq s (rn rho {| aid := aid a; am := identity (c_slots c) |}) a).

Definition repr_okb (s : egraph) (n : node) : bool :=
  match eg_lookup s n with
  | Ok (Some a) =>
      existsb (N.eqb (aid a)) (ids s) &&
      match get_class s (aid a) with
      | Ok c =>
          match enodes_applied {| aid := aid a; am := identity (c_slots c) |} s with
          | Ok (nns, _) =>
              existsb (fun nn => match weak_variants s nn with
                                 | Ok vs' => existsb (fun n2 => existsb (witness_okb s n a c nn n2) (rho_cands s n n2)) vs'
                                 | Err _ => false
                                 end) nns
          | Err _ => false
          end
      | Err _ => false
      end
  | _ => true
  end.

(* on every candidate node (stored instances in user slot names + non-canonical children) of the 13 states with hc_ok *)
Example repr_hyp_checked :
  map (fun s => forallb (repr_okb s) (d1_candidates s)) c_states
  = [true; true; true; true; true; true; true; true; true; true; true; true; true; true].
Proof. vm_compute. reflexivity. Qed.

Print Assumptions complete_forb_sound.
Print Assumptions complete_okb_sound.
Print Assumptions complete_for_ematch_all.
Print Assumptions d1_complete_checked.
Print Assumptions redundant_nested_incomplete.
Print Assumptions bound_twice_incomplete.
Print Assumptions bound_and_free_incomplete.
Print Assumptions repr_hyp_checked.
