(* EGraph/MatchCompleteAll.v — C04 on the model: COMPLETENESS OF THE E-MATCHER FOR NESTED PATTERNS in e-graphs
   without redundant slots ("every represented instance of a rule's left side is reported, and the rule fires").

   STRUCTURE.  The proof splits at the predicate `emb_root s theta zeta p a` of MatchEmbedDefs.v ("the instance
   (theta, zeta) of p represented by a is EMBEDDED at the identity invocation of the live class of a": a statement
   about the e-graph's own enumeration functions `enodes_applied` / `weak_variants`, the matcher does not occur in it;
   it is the generalisation of `repr_hyp` of MatchComplete.v to arbitrary depth, arbitrary invocations and a given
   slot correspondence).
   (A) THE MATCHER SIDE, PROVED (MatchEmbed.v, closed under the global context): `ematch_impl_found` (the invariant of
       `ematch_impl p st i` started from an arbitrary state st whose slot map is a bijection compatible with theta and
       whose bindings agree with zeta; by induction on the pattern; repeated variables through `eg_eq_via`,
       MatchEmbedEq.v) and `emb_complete`: emb_root -> ematch_all_r reports a match that `describes` the instance.
       No premise on redundant slots, no `ss_ok`: they are not needed on the matcher side.
   (B) THE E-GRAPH SIDE, NOT PROVED: `repr_emb s` (below) = "every represented instance in scope is embedded".  It is
       the ONE Section hypothesis `H_emb : match_inv s -> ss_ok s -> no_redundant s -> repr_emb s` of Section Cond;
       validated executably in MatchEmbedCheck.v BEFORE any proof attempt: `emb_rootb` (an instance-driven search for
       the embedding that threads rho and the state through the children and checks EVERY conjunct of `emb_root` /
       `emb`, `adm` of the threaded rho included) is true for all 8768 + 1304 + 1208 = 11280 represented instances
       of lin_pats / rep_pats / rep1_pats on the 213 states without a redundant slot (`B_nonred_lin`, `B_nonred_rep`,
       `B_nonred_rep1`; no backtracking ever needed: `B_nonred_diag`), also when rho is first extended by an unrelated
       admissible pair and the counter advanced at every node (`B_nonred_junk`: `emb` quantifies over all admissible
       rho and all t).  On the 55 states WITH a redundant slot it fails for 7234 of 8813 / 3200 of 4550 / 3 of 1853
       represented instances and never holds where the matcher misses the instance (`B_red_counts`, `B_red_cross`,
       `B_known_counterexamples`: CE1-CE4).  `binder_clash`: the premise `fresh_binders` is NECESSARY: for
       bin4 (lam $2. ?x) ?y with ?x, ?y := s1 $2 (the image of the bound name occurs free in the binding of ?y) the
       instance is represented and `complete_report` = (true, false): no BIJECTIVE sigma exists; the alpha-renamed
       instance (theta 2 = 6) is matched.
       What its proof needs (by induction on p): `repr_hyp_reachable` at the root node (depth one), equivariance of
       `enodes_applied` under the invocation (the listed nodes of an invocation b are the listed nodes of the identity
       invocation renamed by `am b`, fresh binder names aside), the choice of the group variant of the listed node
       whose children are EXACTLY (not only up to the class group) the invocations the sub-instances are embedded at
       (all group variants are enumerated by `variants`), `ss_ok` for the variant that `weak_variants` keeps in its
       place (the renaming between two variants with one weak shape is a self-symmetry, hence in the group of the
       class), and `no_redundant` (every slot of a listed node is a slot of the invocation or a binder, so the
       correspondence on the public slots is determined by the invocation; violated by CE1-CE3 of MatchReprDeep.v).

   THEOREMS (Section Cond, hypothesis H_emb only):
     nested_complete           : match_inv s -> ss_ok s -> no_redundant s -> pat_ok s p -> inst_ok s p theta zeta ->
                                 complete_for s p theta zeta                    (arbitrary depth, repeated variables, binders)
     nested_complete_ematch_all: the same in terms of `ematch_all`
     nested_complete_reachable : for every state of a run over static terms (`Forall term_static terms`) without
                                 redundant slot
     nested_complete_and_fires : + `apply_rewrites [rl]` unions both sides of the rule for the reported substitution
   `pat_ok s p`: p is a node pattern (for a bare variable bound to an invocation of a DEAD class id the matcher answers
   in the leader class and `describes` demands `mr_id r = aid a`: `bare_variable_dead_class`), `bind_scopeb p` (every bound name bound once in the pattern and used only below its binder; no
   PSubst is implied by the lookup succeeding) and `pat_below (ctr s) p`.  `inst_ok s p theta zeta a`: theta sorted and
   bijective, every binding of zeta covers its class, and the images of the pattern's bound names do not occur among
   the slots of the root handle a (`fresh_binders`: a represented term whose bound name also occurs free elsewhere in
   the instance has no BIJECTIVE sigma in `describes`; alpha-renaming the instance restores it). *)
From SE Require Import Slots.SlotMapFacts Group.GroupSound Lang.LangFacts Lang.ShapeFacts Lang.RenameFacts
  Base.TextFacts Parse.Parser EGraph.Model EGraph.ModelFacts EGraph.ModelMachine EGraph.UnionFindFacts
  EGraph.InvariantFacts EGraph.UnionInvariantFacts EGraph.AddCoversFacts EGraph.HashconsShape EGraph.Mod4Facts
  EGraph.HashconsAbs EGraph.HashconsFacts EGraph.Rewrite EGraph.RewriteFacts EGraph.MatchDefs EGraph.MatchMachine
  EGraph.ProgressFacts EGraph.MatchFacts EGraph.SoundUnion EGraph.MonotoneFacts EGraph.MatchLookup EGraph.MatchComplete
  EGraph.CongruenceFacts EGraph.MatchReprFacts EGraph.MatchReprDeep EGraph.SelfSymFacts EGraph.OpsPreFacts
  EGraph.MatchEmbedDefs EGraph.MatchEmbedEq EGraph.MatchEmbed.
Require Import ZArith Lia ZifyBool ZifyN ZifyNat.

(* ------------------------------------------------------------------ *)
(* 1. scope *)

Definition is_node (p : pattern) : Prop := match p with PNode _ _ => True | _ => False end.
Definition pat_ok (s : egraph) (p : pattern) : Prop := is_node p /\ bind_scopeb p = true /\ pat_below (Model.ctr s) p.
Definition pat_below_of : forall s p, pat_ok s p -> pat_below (Model.ctr s) p := fun s p H => proj2 (proj2 H).

(* the images of the bound names of p are not slots of the handle a that represents the instance *)
Definition fresh_binders (p : pattern) (theta : slotmap) (a : appid) : Prop :=
  forall x y, In x (pbinders p) -> get theta x = Some y -> ~ In y (values_vec (am a)).

Definition inst_ok (s : egraph) (p : pattern) (theta : slotmap) (zeta : subst) : Prop :=
  wf theta /\ is_bijection theta = true /\ (forall v c, sub_get zeta v = Some c -> covers s c).

(* THE E-GRAPH SIDE: every represented instance in scope is embedded *)
Definition repr_emb (s : egraph) : Prop :=
  forall p theta zeta a, pat_ok s p -> inst_ok s p theta zeta -> fresh_binders p theta a ->
    lookup_pat s (pren theta p) zeta = Ok (Some a) -> emb_root s theta zeta p a.

(* completeness with the freshness premise made explicit *)
Definition complete_fresh (s : egraph) (p : pattern) (theta : slotmap) (zeta : subst) : Prop :=
  forall a, lookup_pat s (pren theta p) zeta = Ok (Some a) -> fresh_binders p theta a ->
  forall l s', ematch_all_r p s = Ok (l, s') -> exists r, In r l /\ describes s' p theta zeta a r.

Lemma complete_fresh_nobinders : forall s p theta zeta, pbinders p = [] ->
  complete_fresh s p theta zeta -> complete_for s p theta zeta.
Proof.
  intros s p theta zeta Hb H a Ha. apply (H a Ha). intros x y Hx. rewrite Hb in Hx. contradiction.
Qed.

Lemma pat_ok_nodup : forall s p, pat_ok s p -> NoDup (pbinders p).
Proof.
  intros s p (_ & H & _). unfold bind_scopeb in H. apply andb_true_iff in H. destruct H as [H _].
  apply andb_true_iff in H. destruct H as [H _]. apply nodupb_NoDup. exact H.
Qed.

(* scope: a bare variable bound to a covering invocation of a dead class id is represented, not `describes`-matched *)
Definition s_dead : egraph := st_of dT2 dO2.
Example bare_variable_dead_class :
  valid_stateb s_dead = true /\ has_redundant s_dead = Ok false /\ dead_ids s_dead = [2; 5] /\
  coversb s_dead {| aid := 2; am := [(17, 13); (21, 9)] |} = true /\
  complete_report s_dead (PVarP [120]) [] [([120], {| aid := 2; am := [(17, 13); (21, 9)] |})] = Some (true, false).
Proof. vm_compute. repeat split; reflexivity. Qed.

(* ------------------------------------------------------------------ *)
(* 2. from the e-graph side to completeness (uses only the matcher-side theorem `emb_complete`) *)

Theorem complete_from_repr_emb : forall s p theta zeta, match_inv s -> repr_emb s ->
  pat_ok s p -> inst_ok s p theta zeta -> complete_fresh s p theta zeta.
Proof.
  intros s p theta zeta MI HE PO IO a Ha Fr l s' E.
  destruct MI as [I3 K0 M4 Hhc Hpe Hlv]. pose proof I3 as [[Hs _] _].
  destruct IO as (Wth & Bth & Zc).
  apply (emb_complete s theta zeta Hs Wth Bth Zc p a (pat_ok_nodup s p PO) (pat_below_of s p PO)); [| |exact E].
  - intros i c z Hc Hz. exact (proj2 (class_facts s I3 (m4_cls4 _ M4) i c Hc) z Hz).
  - apply HE; try assumption. split; [exact Wth|]. split; [exact Bth|exact Zc].
Qed.

(* ------------------------------------------------------------------ *)
(* 3. THE CONDITIONAL THEOREMS *)

Section Cond.
  (* the e-graph side; validated executably in MatchEmbedCheck.v *)
  Hypothesis H_emb : forall s, match_inv s -> ss_ok s -> no_redundant s -> repr_emb s.

  Theorem nested_complete : forall s p theta zeta, match_inv s -> ss_ok s -> no_redundant s ->
    pat_ok s p -> inst_ok s p theta zeta -> complete_fresh s p theta zeta.
  Proof.
    intros s p theta zeta MI SS NR. apply complete_from_repr_emb; [exact MI|exact (H_emb s MI SS NR)].
  Qed.

  (* in terms of `ematch_all` *)
  Corollary nested_complete_ematch_all : forall s p theta zeta, match_inv s -> ss_ok s -> no_redundant s ->
    pat_ok s p -> inst_ok s p theta zeta ->
    forall a, lookup_pat s (pren theta p) zeta = Ok (Some a) -> fresh_binders p theta a ->
    forall l s', ematch_all p s = Ok (l, s') ->
    exists sb r, In sb l /\ mr_sb r = sb /\ describes s' p theta zeta a r.
  Proof.
    intros s p theta zeta MI SS NR PO IO a Ha Fr l s' E. rewrite ematch_all_r_spec in E.
    destruct (ematch_all_r p s) as [[lr s1]|e] eqn:Er; cbn [mmap] in E; [|discriminate].
    inversion E; subst l s1. destruct (nested_complete s p theta zeta MI SS NR PO IO a Ha Fr lr s' Er) as (r & Hr & D).
    exists (mr_sb r), r. split; [apply in_map; exact Hr|]. split; [reflexivity|exact D].
  Qed.

  (* patterns without binders: `complete_for` itself *)
  Corollary nested_complete_nobinders : forall s p theta zeta, match_inv s -> ss_ok s -> no_redundant s ->
    pat_ok s p -> inst_ok s p theta zeta -> pbinders p = [] -> complete_for s p theta zeta.
  Proof.
    intros s p theta zeta MI SS NR PO IO Hb. apply complete_fresh_nobinders; [exact Hb|].
    apply nested_complete; assumption.
  Qed.

  (* every state of a run over static terms *)
  Corollary nested_complete_reachable : forall terms ops hs s p theta zeta, Forall term_static terms ->
    run_ops terms ops [] empty_egraph = Ok (hs, s) -> no_redundant s ->
    pat_ok s p -> inst_ok s p theta zeta -> complete_fresh s p theta zeta.
  Proof.
    intros terms ops hs s p theta zeta HT Hrun NR.
    apply nested_complete; [exact (match_inv_reachable_static terms ops hs s HT Hrun)|
                            exact (ss_ok_reachable_static terms ops hs s HT Hrun)|exact NR].
  Qed.

  (* completeness AND firing *)
  Theorem nested_complete_and_fires : forall s rl theta zeta b1 s1, match_inv s -> ss_ok s -> no_redundant s ->
    pat_ok s (r_lhs rl) -> inst_ok s (r_lhs rl) theta zeta -> r_cond rl = None ->
    forall a0, lookup_pat s (pren theta (r_lhs rl)) zeta = Ok (Some a0) -> fresh_binders (r_lhs rl) theta a0 ->
    apply_rewrites [rl] s = Ok (b1, s1) ->
    exists l s' sb r, ematch_all (r_lhs rl) s = Ok (l, s') /\ In sb l /\ mr_sb r = sb /\
      describes s' (r_lhs rl) theta zeta a0 r /\
      exists t a b t1 t2, qstep s t /\
        pattern_subst (r_lhs rl) sb t = Ok (a, t1) /\ pattern_subst (r_rhs rl) sb t1 = Ok (b, t2) /\
        covers s1 a /\ covers s1 b /\ eg_eq s1 a b = Ok true.
  Proof.
    intros s rl theta zeta b1 s1 MI SS NR PO IO Hc a0 Ha0 Fr Happ.
    pose proof MI as [I3 K0 M4 Hhc Hpe Hlv].
    destruct (apply_rewrites_fires rl s b1 s1 I3 K0 M4 (pat_below_of _ _ PO) Hc Happ) as (l & s' & Hm & Hf).
    destruct (nested_complete_ematch_all s (r_lhs rl) theta zeta MI SS NR PO IO a0 Ha0 Fr l s' Hm) as (sb & r & Hin & Hr & D).
    exists l, s', sb, r. split; [exact Hm|]. split; [exact Hin|]. split; [exact Hr|]. split; [exact D|exact (Hf sb Hin)].
  Qed.

  Corollary nested_complete_and_fires_reachable : forall terms ops hs s rl theta zeta b1 s1, Forall term_static terms ->
    run_ops terms ops [] empty_egraph = Ok (hs, s) -> no_redundant s ->
    pat_ok s (r_lhs rl) -> inst_ok s (r_lhs rl) theta zeta -> r_cond rl = None ->
    forall a0, lookup_pat s (pren theta (r_lhs rl)) zeta = Ok (Some a0) -> fresh_binders (r_lhs rl) theta a0 ->
    apply_rewrites [rl] s = Ok (b1, s1) ->
    exists l s' sb r, ematch_all (r_lhs rl) s = Ok (l, s') /\ In sb l /\ mr_sb r = sb /\
      describes s' (r_lhs rl) theta zeta a0 r /\
      exists t a b t1 t2, qstep s t /\
        pattern_subst (r_lhs rl) sb t = Ok (a, t1) /\ pattern_subst (r_rhs rl) sb t1 = Ok (b, t2) /\
        covers s1 a /\ covers s1 b /\ eg_eq s1 a b = Ok true.
  Proof.
    intros terms ops hs s rl theta zeta b1 s1 HT Hrun NR.
    apply nested_complete_and_fires; [exact (match_inv_reachable_static terms ops hs s HT Hrun)|
                                      exact (ss_ok_reachable_static terms ops hs s HT Hrun)|exact NR].
  Qed.
End Cond.

Print Assumptions bare_variable_dead_class.
Print Assumptions complete_from_repr_emb.
Print Assumptions nested_complete.
Print Assumptions nested_complete_ematch_all.
Print Assumptions nested_complete_nobinders.
Print Assumptions nested_complete_reachable.
Print Assumptions nested_complete_and_fires.
Print Assumptions nested_complete_and_fires_reachable.
