(* EGraph/MatchDefs.v — definitions shared by MatchFacts.v (the matcher returns covering substitutions) and
   KidsFacts.v (the invariant `kids_ok` is kept by the operations).

   `kids_ok s`: for every stored entry `sh |-> (bij, src)` of every class: all slot names of the shape sh are
   0 mod 4 (it is a weak shape), and every child invocation OF THE SHAPE covers its class and has a sorted map.
   `kids_okb`: executable form.  `pslots p`: all slot names of the nodes of a pattern. *)
From SE Require Import Slots.SlotMapFacts Lang.LangFacts Lang.ShapeFacts Lang.RenameFacts Parse.Parser
  EGraph.Model EGraph.ModelFacts EGraph.UnionFindFacts EGraph.InvariantFacts EGraph.UnionInvariantFacts
  EGraph.AddCoversFacts EGraph.Mod4Facts EGraph.Rewrite.
Require Import ZArith Lia.

Definition kid_ok (s : egraph) (a : appid) : Prop := covers s a /\ wf (am a).

Definition kentry_ok (s : egraph) (sh : node) : Prop :=
  (forall x, In x (all_occ sh) -> x mod 4 = 0) /\ Forall (kid_ok s) (app_occ sh).

Definition kids_ok (s : egraph) : Prop :=
  forall i c e, get_class s i = Ok c -> In e (c_nodes c) -> kentry_ok s (fst e).

Definition kid_okb (s : egraph) (a : appid) : bool := coversb s a && sortedb (am a).
Definition kentry_okb (s : egraph) (sh : node) : bool :=
  forallb (fun x => x mod 4 =? 0) (all_occ sh) && forallb (kid_okb s) (app_occ sh).
Definition kids_okb (s : egraph) : bool :=
  forallb (fun c => forallb (fun e : node * (slotmap * N) => kentry_okb s (fst e)) (c_nodes c)) (classes s).

Lemma kid_okb_sound : forall s a, kid_okb s a = true -> kid_ok s a.
Proof.
  intros s a H. unfold kid_okb in H. apply andb_true_iff in H. destruct H as [H1 H2].
  split; [apply coversb_sound; exact H1|apply sortedb_wf; exact H2].
Qed.

Lemma kentry_okb_sound : forall s sh, kentry_okb s sh = true -> kentry_ok s sh.
Proof.
  intros s sh H. unfold kentry_okb in H. apply andb_true_iff in H. destruct H as [H1 H2]. split.
  - intros x Hx. rewrite forallb_forall in H1. apply N.eqb_eq. exact (H1 x Hx).
  - apply Forall_forall. intros a Ha. rewrite forallb_forall in H2. apply kid_okb_sound. exact (H2 a Ha).
Qed.

Theorem kids_okb_sound : forall s, kids_okb s = true -> kids_ok s.
Proof.
  intros s H i c e Hc He. unfold kids_okb in H. rewrite forallb_forall in H.
  pose proof (H c (get_class_in _ _ _ Hc)) as Hcl. rewrite forallb_forall in Hcl.
  apply kentry_okb_sound. exact (Hcl e He).
Qed.

(* kids_ok depends on the class table only *)
Lemma covers_same_classes : forall s s' a, classes s' = classes s -> covers s a -> covers s' a.
Proof.
  intros s s' a E (c & Hc & R). exists c. split; [|exact R]. unfold get_class in *. rewrite E. exact Hc.
Qed.

Lemma kids_ok_same_classes : forall s s', classes s' = classes s -> kids_ok s -> kids_ok s'.
Proof.
  intros s s' E K i c e Hc He.
  assert (Hc' : get_class s i = Ok c) by (unfold get_class in *; rewrite <- E; exact Hc).
  destruct (K i c e Hc' He) as [M F]. split; [exact M|].
  revert F. apply Forall_impl. intros a [C W]. split; [eapply covers_same_classes; eauto|exact W].
Qed.

(* all slot names of the nodes of a pattern *)
Fixpoint pslots (p : pattern) : list slot :=
  match p with
  | PVarP _ => []
  | PNode n ch => all_occ n ++ (fix go (l : list pattern) : list slot :=
                                  match l with [] => [] | c :: t => pslots c ++ go t end) ch
  | PSubst b x t => pslots b ++ pslots x ++ pslots t
  end.

Lemma pslots_node : forall n ch, pslots (PNode n ch) = all_occ n ++ flat_map pslots ch.
Proof.
  intros n ch. cbn [pslots]. apply f_equal. induction ch as [|c t IH]; cbn [flat_map]; [reflexivity|]. rewrite IH. reflexivity.
Qed.

(* every slot name of the pattern is older than the counter B *)
Definition pat_below (B : N) (p : pattern) : Prop := forall x, In x (pslots p) -> x < B.
Definition pat_belowb (B : N) (p : pattern) : bool := forallb (fun x => x <? B) (pslots p).

Lemma pat_belowb_sound : forall B p, pat_belowb B p = true -> pat_below B p.
Proof. intros B p H x Hx. unfold pat_belowb in H. rewrite forallb_forall in H. apply N.ltb_lt. exact (H x Hx). Qed.

Print Assumptions kids_okb_sound.
