(* EGraph/MatchEmbed.v — C04, nested patterns, THE MATCHER SIDE (ingredient (iii) of MatchReprDeep.v): the matcher
   invariant for `ematch_impl p st i` started from an ARBITRARY state st.

   `found_ok p` (`ematch_impl_found`, by induction on the pattern): if the instance (theta, zeta) of p is embedded at
   the invocation i through rho0 (`emb`, MatchEmbedDefs.v), rho is an admissible extension of rho0, the matcher state
   st is related to rho (`st_inv`: the partial slot map is a bijection, below the counter, and pm e = x implies
   rho e = theta x; every binding b of a variable v is a covering leader invocation, rho is defined on its slots and
   `eg_eq s (rn rho b) (zeta v)`), then `ematch_impl p st i` returns a state st' and there is an admissible extension
   rho' of rho (`out_ok`): st' is related to rho', extends st (slot map and bindings), names every slot name of p,
   binds every variable of p, and covers every slot of i (by a key of the slot map or a slot of a binding); the new
   values of rho' are images of bound names of p.
   `emb_complete`: from `emb_root` (the instance is embedded at the identity invocation of the live class of a)
   `ematch_all_r p s` returns a match r with `describes s' p theta zeta a r`:  sigma = inverse(final map) ** rho'.
   Premises on the pattern: NoDup (pbinders p) (every bound name bound once), pat_below (ctr s) p; on the instance:
   theta sorted and bijective, every binding of zeta covers its class.  No premise on redundant slots here: they only
   matter for establishing `emb_root` (the e-graph side). *)
From SE Require Import Slots.SlotMapFacts Group.GroupSound Lang.LangFacts Lang.ShapeFacts Lang.RenameFacts
  Base.TextFacts Parse.Parser EGraph.Model EGraph.ModelFacts EGraph.ModelMachine EGraph.UnionFindFacts
  EGraph.InvariantFacts EGraph.UnionInvariantFacts EGraph.AddCoversFacts EGraph.HashconsShape EGraph.Mod4Facts
  EGraph.HashconsAbs EGraph.HashconsFacts EGraph.Rewrite EGraph.RewriteFacts EGraph.MatchDefs EGraph.MatchMachine
  EGraph.ProgressFacts EGraph.MatchFacts EGraph.SoundUnion EGraph.MonotoneFacts EGraph.MatchLookup EGraph.MatchComplete
  EGraph.MatchReprDeep EGraph.MatchEmbedDefs EGraph.MatchEmbedEq.
Require Import ZArith Lia ZifyBool ZifyN ZifyNat.

Local Notation "a ** b" := (compose_partial a b) (at level 40, left associativity).

(* ------------------------------------------------------------------ *)
(* 0. small facts *)

Lemma pat_vars_node : forall n ch, pat_vars (PNode n ch) = flat_map pat_vars ch.
Proof.
  intros n ch. cbn [pat_vars]. induction ch as [|c t IH]; cbn [flat_map]; [reflexivity|]. rewrite IH. reflexivity.
Qed.

Lemma rn_ext : forall rho rho' b, ext rho rho' -> (forall x, In x (values_vec (am b)) -> get rho x <> None) ->
  rn rho' b = rn rho b.
Proof.
  intros rho rho' b E D. unfold rn. f_equal. apply compose_ext_on. intros p Hp.
  assert (Hx : In (snd p) (values_vec (am b))) by (unfold values_vec; apply in_map; exact Hp).
  destruct (get rho (snd p)) as [y|] eqn:G; [|exfalso; exact (D _ Hx G)]. exact (E _ _ G).
Qed.

Lemma sub_get_in_key : forall (l : subst) v a, sub_get l v = Some a -> In (v, a) l.
Proof.
  induction l as [|[k x] t IH]; intros v a H; cbn [sub_get] in H; [discriminate|].
  destruct (text_eqb k v) eqn:E.
  - apply text_eqb_eq in E. subst k. inversion H; subst. left; reflexivity.
  - right. apply IH. exact H.
Qed.

Lemma sub_get_some_in : forall (l : subst) v a, In (v, a) l -> sub_get l v <> None.
Proof.
  induction l as [|[k x] t IH]; intros v a H; [contradiction|]. cbn [sub_get].
  destruct (text_eqb k v) eqn:E; [discriminate|]. destruct H as [H|H].
  - inversion H; subst. rewrite text_eqb_refl in E. discriminate.
  - eapply IH; eauto.
Qed.

Lemma sub_get_map_out : forall mf (l : subst) v b, sub_get l v = Some b ->
  sub_get (map (fun va : text * appid => (fst va, out_of mf (snd va))) l) v = Some (out_of mf b).
Proof.
  intros mf. induction l as [|[k x] t IH]; intros v b H; cbn [sub_get map fst snd] in *; [discriminate|].
  destruct (text_eqb k v); [inversion H; subst; reflexivity|apply IH; exact H].
Qed.

(* `insert_all_bij` succeeds on a pair list consistent with an injective function (predicate form of
   `insert_all_bij_ok` of MatchComplete.v) *)
Lemma insert_all_bij_okP : forall (f : slot -> slot) (D : slot -> Prop),
  (forall x y, D x -> D y -> f x = f y -> x = y) ->
  forall ps m, wf m -> (forall x y, In (x, y) ps -> y = f x /\ D x) ->
  (forall k v, get m k = Some v -> v = f k /\ D k) ->
  exists m', insert_all_bij ps m = Some m'.
Proof.
  intros f D Inj. induction ps as [|[x y] t IH]; intros m W Hps Hm; cbn [insert_all_bij]; [eexists; reflexivity|].
  destruct (Hps x y (or_introl eq_refl)) as [Ey Dx].
  assert (B : is_bijection (insert x y m) = true).
  { apply is_bijection_injective; [apply insert_wf; exact W|].
    intros k1 k2 v G1 G2. rewrite get_insert_any in G1, G2.
    assert (F : forall k, (if k =? x then Some y else get m k) = Some v -> v = f k /\ D k).
    { intros k G. destruct (k =? x) eqn:E; [|exact (Hm k v G)]. apply N.eqb_eq in E. subst k. inversion G; subst v. auto. }
    destruct (F k1 G1) as [E1 D1]. destruct (F k2 G2) as [E2 D2]. apply Inj; [exact D1|exact D2|congruence]. }
  assert (T : try_insert_bij x y m = Some (insert x y m)).
  { unfold try_insert_bij. destruct (get m x) as [vo|] eqn:G.
    - destruct (Hm x vo G) as [Ev _]. replace (vo =? y) with true by (symmetry; apply N.eqb_eq; congruence).
      rewrite B. reflexivity.
    - rewrite B. reflexivity. }
  rewrite T. apply IH; [apply insert_wf; exact W| |].
  - intros x' y' Hin. apply Hps. right; exact Hin.
  - intros k v G. rewrite get_insert_any in G. destruct (k =? x) eqn:E; [|exact (Hm k v G)].
    apply N.eqb_eq in E. subst k. inversion G; subst v. auto.
Qed.

Lemma nodup_app_l : forall {A} (a b : list A), NoDup (a ++ b) -> NoDup a.
Proof.
  intros A a b. induction a as [|x t IH]; intros H; [constructor|]. cbn [app] in H. inversion H as [|? ? Hn Ht]; subst.
  constructor; [intros Hx; apply Hn; apply in_or_app; left; exact Hx|apply IH; exact Ht].
Qed.
Lemma nodup_app_r : forall {A} (a b : list A), NoDup (a ++ b) -> NoDup b.
Proof. intros A a b. induction a as [|x t IH]; intros H; [exact H|]. cbn [app] in H. inversion H; subst. apply IH. assumption. Qed.
Lemma nodup_app_dis : forall {A} (a b : list A), NoDup (a ++ b) -> forall x, In x a -> In x b -> False.
Proof.
  intros A a b. induction a as [|y t IH]; intros H x Ha Hb; [contradiction|]. cbn [app] in H. inversion H as [|? ? Hn Ht]; subst.
  destruct Ha as [<-|Ha]; [apply Hn; apply in_or_app; right; exact Hb|exact (IH Ht x Ha Hb)].
Qed.

Lemma sgge_impl : forall q st j, pres sg_ge (ematch_impl q st j).
Proof. intros q st j. apply pres_sg_ge; [apply sg_ematch_impl|exact (c_ematch_impl q st j)]. Qed.

Lemma sgge_kids : forall ch subs acc, pres sg_ge (ematch_kids ch subs acc).
Proof.
  intros ch subs acc. apply pres_sg_ge.
  - apply sg_ematch_kids. apply Forall_forall. intros p _. apply sg_ematch_impl.
  - apply (c_ematch_kids ch). apply Forall_forall. intros p _. exact (c_ematch_impl p).
Qed.

Lemma sgge_enodes : forall i, pres sg_ge (enodes_applied i).
Proof. intros i. apply pres_sg_ge; [apply sg_enodes_applied|exact (c_enodes_applied i)]. Qed.

Lemma sgge_flat_mapM : forall A C (f : A -> M (list C)) l, (forall x, pres sg_ge (f x)) -> pres sg_ge (flat_mapM f l).
Proof.
  intros A C f l Hf. induction l as [|x t IH]; cbn [flat_mapM]; [apply (pres_ret sg_ge sg_ge_refl)|].
  apply (pres_bind sg_ge sg_ge_trans); [apply Hf|]. intros y. apply (pres_bind sg_ge sg_ge_trans); [apply IH|]. intros r.
  apply (pres_ret sg_ge sg_ge_refl).
Qed.

Lemma sgge_ctr : forall a b, sg_ge a b -> Model.ctr a <= Model.ctr b.
Proof. intros a b [_ H]. exact H. Qed.

(* ------------------------------------------------------------------ *)
(* 1. the matcher invariant *)

Section Found.
  Variable s : egraph.
  Variable theta : slotmap.
  Variable zeta : subst.
  Hypothesis Hs : eg_inv s.
  Hypothesis Wth : wf theta.
  Hypothesis Bth : is_bijection theta = true.
  Hypothesis Zcov : forall v c, sub_get zeta v = Some c -> covers s c.

  Let Ith : injective theta := is_bijection_inj theta Bth.

  Record st_inv (rho : slotmap) (st : estate) : Prop := {
    si_wf : wf (partial_slotmap st);
    si_bij : is_bijection (partial_slotmap st) = true;
    si_low : forall e x, get (partial_slotmap st) e = Some x -> x < Model.ctr s;
    si_pm : forall e x, get (partial_slotmap st) e = Some x -> exists y, get rho e = Some y /\ get theta x = Some y;
    si_sub : forall v b, In (v, b) (partial_subst st) -> exists c, sub_get zeta v = Some c /\ kid_ok s b /\ lkid s b /\
               (forall x, In x (values_vec (am b)) -> get rho x <> None) /\ eg_eq s (rn rho b) c = Ok true }.

  Lemma st_inv_ext : forall rho rho' st, st_inv rho st -> ext rho rho' -> st_inv rho' st.
  Proof.
    intros rho rho' st [A B C D E] X. constructor; try assumption.
    - intros e x G. destruct (D e x G) as (y & G1 & G2). exists y. split; [exact (X _ _ G1)|exact G2].
    - intros v b Hin. destruct (E v b Hin) as (c & Z & K & L & Df & Q). exists c. split; [exact Z|]. split; [exact K|].
      split; [exact L|]. split.
      + intros x Hx. destruct (get rho x) as [y|] eqn:G; [rewrite (X _ _ G); discriminate|exfalso; exact (Df x Hx G)].
      + rewrite (rn_ext rho rho' b X Df). exact Q.
  Qed.

  (* what a successful call returns *)
  Record out_ok (sls : list slot) (vars : list text) (bds : list slot) (isl : list slot)
                (rho : slotmap) (st : estate) (t' : egraph) (rho' : slotmap) (st' : estate) : Prop := {
    oo_ext : ext rho rho';
    oo_wf : wf rho';
    oo_inj : injective rho';
    oo_key : forall k v, get rho' k = Some v -> k < Model.ctr t';
    oo_new : forall k v, get rho' k = Some v -> get rho k = Some v \/ exists x, In x bds /\ get theta x = Some v;
    oo_inv : st_inv rho' st';
    oo_sl : forall x, In x sls -> exists e, get (partial_slotmap st') e = Some x;
    oo_var : forall v, In v vars -> sub_get (partial_subst st') v <> None;
    oo_pm : forall e x, get (partial_slotmap st) e = Some x -> get (partial_slotmap st') e = Some x;
    oo_sub : exists extra, partial_subst st' = partial_subst st ++ extra;
    oo_cov : forall x, In x isl -> get (partial_slotmap st') x <> None \/
               exists v b, In (v, b) (partial_subst st') /\ In x (values_vec (am b)) }.

  Definition found_ok (p : pattern) : Prop :=
    forall st i rho0 rho t l t',
      NoDup (pbinders p) -> pat_below (Model.ctr s) p ->
      emb s theta zeta p i rho0 -> ext rho0 rho -> kid_ok s i -> lkid s i -> sg_ge s t ->
      adm theta (pbinders p) t rho -> st_inv rho st ->
      ematch_impl p st i t = Ok (l, t') ->
      exists st' rho', In st' l /\ out_ok (pslots p) (pat_vars p) (pbinders p) (values_vec (am i)) rho st t' rho' st'.

  (* composition of two steps *)
  Lemma out_ok_comp : forall A1 A2 V1 V2 B1 B2 I1 I2 rho st t1 rho1 st1 t2 rho2 st2,
    out_ok A1 V1 B1 I1 rho st t1 rho1 st1 -> out_ok A2 V2 B2 I2 rho1 st1 t2 rho2 st2 ->
    out_ok (A1 ++ A2) (V1 ++ V2) (B1 ++ B2) (I1 ++ I2) rho st t2 rho2 st2.
  Proof.
    intros A1 A2 V1 V2 B1 B2 I1 I2 rho st t1 rho1 st1 t2 rho2 st2 [a1 a2 a3 a4 a5 a6 a7 a8 a9 a10 a11] [b1 b2 b3 b4 b5 b6 b7 b8 b9 b10 b11].
    destruct a10 as (e1 & E1). destruct b10 as (e2 & E2).
    constructor; try assumption.
    - eapply ext_trans; eauto.
    - intros k v G. destruct (b5 k v G) as [G1|(x & Hx & Gx)].
      + destruct (a5 k v G1) as [G0|(x & Hx & Gx)]; [left; exact G0|right; exists x; split; [apply in_or_app; left; exact Hx|exact Gx]].
      + right. exists x. split; [apply in_or_app; right; exact Hx|exact Gx].
    - intros x Hx. apply in_app_or in Hx. destruct Hx as [Hx|Hx]; [|exact (b7 x Hx)].
      destruct (a7 x Hx) as (e & G). exists e. exact (b9 e x G).
    - intros v Hv. apply in_app_or in Hv. destruct Hv as [Hv|Hv]; [|exact (b8 v Hv)].
      rewrite E2, sub_get_app. destruct (sub_get (partial_subst st1) v) as [b|] eqn:G; [discriminate|]. exfalso. exact (a8 v Hv G).
    - intros e x G. exact (b9 e x (a9 e x G)).
    - exists (e1 ++ e2). rewrite E2, E1, app_assoc. reflexivity.
    - intros x Hx. apply in_app_or in Hx. destruct Hx as [Hx|Hx]; [|exact (b11 x Hx)].
      destruct (a11 x Hx) as [G|(v & b & Hin & Hb)].
      + left. destruct (get (partial_slotmap st1) x) as [y|] eqn:Gy; [rewrite (b9 _ _ Gy); discriminate|congruence].
      + right. exists v, b. split; [rewrite E2; apply in_or_app; left; exact Hin|exact Hb].
  Qed.

  (* the children loop *)
  Lemma kids_found : forall ch, Forall found_ok ch ->
    forall subs rho0 acc t l t' st rho,
      NoDup (flat_map pbinders ch) -> (forall x, In x (flat_map pslots ch) -> x < Model.ctr s) ->
      embl_of (fun c b => emb s theta zeta c b rho0) ch subs -> Forall (fun b => kid_ok s b /\ lkid s b) subs ->
      ext rho0 rho -> sg_ge s t -> adm theta (flat_map pbinders ch) t rho -> st_inv rho st -> In st acc ->
      ematch_kids ch subs acc t = Ok (l, t') ->
      exists st' rho', In st' l /\
        out_ok (flat_map pslots ch) (flat_map pat_vars ch) (flat_map pbinders ch)
               (flat_map (fun b => values_vec (am b)) subs) rho st t' rho' st'.
  Proof.
    intros ch Hch. induction Hch as [|c ch' Hc _ IH]; intros subs rho0 acc t l t' st rho ND PB E K X R A SI Hin H.
    - destruct subs as [|b subs']; [|contradiction]. cbn [ematch_kids] in H. apply ret_inv in H. destruct H as [-> ->].
      exists st, rho. split; [exact Hin|]. destruct A as (Wr & Ir & Kr & _). cbn [flat_map].
      constructor; try assumption.
      + apply ext_refl.
      + intros k v G. left; exact G.
      + intros x [].
      + intros v [].
      + auto.
      + exists []. rewrite app_nil_r. reflexivity.
      + intros x [].
    - destruct subs as [|b subs']; [contradiction|]. cbn [embl_of] in E. destruct E as [Ec Er].
      cbn [ematch_kids] in H. apply mbind_inv in H. destruct H as (next & t1 & Hn & H).
      cbn [flat_map] in ND, PB, A.
      destruct (flat_mapM_fwd sg_ge sg_ge_refl sg_ge_trans _ _ _ _ (fun a => sgge_impl c a b) _ _ _ Hn st Hin)
        as (ta & r1 & tb & Ra & Hm & Rb & I1).
      destruct A as (Wr & Ir & Kr & Av).
      pose proof (Forall_inv K) as [Kb Lb]. pose proof (Forall_inv_tail K) as K'.
      destruct (Hc st b rho0 rho ta r1 tb) as (st1 & rho1 & Hst1 & O1); try assumption.
      { exact (nodup_app_l _ _ ND). }
      { intros x Hx. apply PB. apply in_or_app. left; exact Hx. }
      { eapply sg_ge_trans; eauto. }
      { split; [exact Wr|]. split; [exact Ir|]. split.
        - intros k v G. pose proof (Kr k v G). pose proof (sgge_ctr _ _ Ra). lia.
        - intros k v x G Hx. apply (Av k v x G). apply in_or_app. left; exact Hx. }
      pose proof (sgge_impl c st b _ _ _ Hm) as Rab.
      destruct (IH subs' rho0 next t1 l t' st1 rho1) as (st2 & rho2 & Hst2 & O2); try assumption.
      { exact (nodup_app_r _ _ ND). }
      { intros x Hx. apply PB. apply in_or_app. right; exact Hx. }
      { eapply ext_trans; [exact X|exact (oo_ext _ _ _ _ _ _ _ _ _ O1)]. }
      { eapply sg_ge_trans; [exact R|]. eapply sg_ge_trans; [exact Ra|]. eapply sg_ge_trans; [exact Rab|exact Rb]. }
      { split; [exact (oo_wf _ _ _ _ _ _ _ _ _ O1)|]. split; [exact (oo_inj _ _ _ _ _ _ _ _ _ O1)|]. split.
        - intros k v G. pose proof (oo_key _ _ _ _ _ _ _ _ _ O1 k v G). pose proof (sgge_ctr _ _ Rb). lia.
        - intros k v x G Hx Gx. destruct (oo_new _ _ _ _ _ _ _ _ _ O1 k v G) as [G0|(x' & Hx' & Gx')].
          + apply (Av k v x G0); [apply in_or_app; right; exact Hx|exact Gx].
          + assert (x' = x) by (eapply Ith; eauto). subst x'.
            exact (nodup_app_dis _ _ ND x Hx' Hx). }
      { exact (oo_inv _ _ _ _ _ _ _ _ _ O1). }
      { apply I1. exact Hst1. }
      exists st2, rho2. split; [exact Hst2|]. cbn [flat_map]. eapply out_ok_comp; eauto.
  Qed.

  (* THE MATCHER INVARIANT *)
  Theorem ematch_impl_found : forall p, found_ok p.
  Proof.
    induction p as [v|n ch IH|pb px pt _ _ _] using pattern_ind2; intros st i rho0 rho t l t' ND PB E X Ki Li R A SI H.
    - (* variable *)
      cbn [emb] in E. destruct E as (c & Zc & Df0 & Q0).
      assert (Df : forall x, In x (values_vec (am i)) -> get rho x <> None).
      { intros x Hx. destruct (get rho0 x) as [y|] eqn:G; [rewrite (X _ _ G); discriminate|exfalso; exact (Df0 x Hx G)]. }
      assert (Q : eg_eq s (rn rho i) c = Ok true) by (rewrite (rn_ext rho0 rho i X Df0); exact Q0).
      destruct A as (Wr & Ir & Kr & Av).
      cbn [ematch_impl] in H. destruct (sub_get (partial_subst st) v) as [j|] eqn:G.
      + apply mbind_inv in H. destruct H as (e & t1 & He & H). apply reads_inv in He. destruct He as [He ->].
        pose proof (sub_get_in_key _ _ _ G) as Hin.
        destruct (si_sub _ _ SI v j Hin) as (c' & Zc' & Kj & Lj & Dj & Qj). rewrite Zc in Zc'. inversion Zc'; subst c'.
        assert (Eij : eg_eq s i j = Ok true).
        { exact (eg_eq_via s rho i j c Hs Wr Ir Ki Kj (Zcov v c Zc) Df Dj Q Qj). }
        rewrite (eg_eq_sg s t i j (proj1 R)), Eij in He. inversion He; subst e.
        apply ret_inv in H. destruct H as [-> ->].
        exists st, rho. split; [left; reflexivity|]. cbn [pslots pat_vars pbinders].
        constructor; try assumption.
        * apply ext_refl.
        * intros k w Gk. left; exact Gk.
        * intros x [].
        * intros w [<-|[]]. rewrite G. discriminate.
        * auto.
        * exists []. rewrite app_nil_r. reflexivity.
        * intros x Hx. right. exists v, j. split; [exact Hin|]. exact (eg_eq_values_sub s i j Hs Li Lj Eij x Hx).
      + apply ret_inv in H. destruct H as [-> ->].
        exists {| partial_subst := partial_subst st ++ [(v, i)]; partial_slotmap := partial_slotmap st |}, rho.
        split; [left; reflexivity|]. cbn [pslots pat_vars pbinders].
        destruct SI as [a1 a2 a3 a4 a5].
        constructor; cbn [partial_subst partial_slotmap]; try assumption.
        * apply ext_refl.
        * intros k w Gk. left; exact Gk.
        * constructor; cbn [partial_subst partial_slotmap]; try assumption.
          intros w b Hin. apply in_app_or in Hin. destruct Hin as [Hin|[Hin|[]]]; [exact (a5 w b Hin)|].
          inversion Hin; subst w b. exists c. split; [exact Zc|]. split; [exact Ki|]. split; [exact Li|]. split; [exact Df|exact Q].
        * intros x [].
        * intros w [<-|[]]. rewrite sub_get_app, G. cbn [sub_get]. rewrite text_eqb_refl. discriminate.
        * auto.
        * exists [(v, i)]. reflexivity.
        * intros x Hx. right. exists v, i. split; [apply in_or_app; right; left; reflexivity|exact Hx].
    - (* node *)
      pose proof A as A0. rewrite pbinders_node in ND, A. destruct A as (Wr & Ir & Kr & Av).
      assert (PBn : forall x, In x (all_occ n) -> x < Model.ctr s).
      { intros x Hx. apply PB. rewrite pslots_node. apply in_or_app. left; exact Hx. }
      assert (PBc : forall x, In x (flat_map pslots ch) -> x < Model.ctr s).
      { intros x Hx. apply PB. rewrite pslots_node. apply in_or_app. right; exact Hx. }
      rewrite ematch_impl_node in H. apply mbind_inv in H. destruct H as (nns & ta & Hen & H).
      rewrite emb_node in E.
      destruct (E rho t nns ta X A0 R Hen)
        as (nn & vs' & n2 & rho1 & sa & sb & Hnn & Hv & Hwv & Hn2 & W1 & W2 & Efst & X1 & Wr1 & Ir1 & Hnew & Hpos & Hkids & Hcov & Hembl).
      pose proof (sgge_enodes i _ _ _ Hen) as Rta.
      match type of H with flat_mapM ?f _ _ = _ => assert (Pf : forall x, pres sg_ge (f x)) end.
      { intros x. cbv beta. destruct (negb (Nat.eqb (nvar n) (nvar x))); [apply (pres_ret sg_ge sg_ge_refl)|].
        apply (pres_bind sg_ge sg_ge_trans); [apply pres_reads; exact sg_ge_refl|]. intros ws.
        apply sgge_flat_mapM. intros y.
        apply (pres_bind sg_ge sg_ge_trans); [apply pres_lift; exact sg_ge_refl|]. intros a1.
        apply (pres_bind sg_ge sg_ge_trans); [apply pres_lift; exact sg_ge_refl|]. intros a2.
        destruct (negb (node_eqb (fst a1) (fst a2))); [apply (pres_ret sg_ge sg_ge_refl)|].
        destruct (insert_all_bij (combine (all_occ (nullify y)) _) _) as [mm|]; [|apply (pres_ret sg_ge sg_ge_refl)].
        apply sgge_kids. }
      destruct (flat_mapM_fwd sg_ge sg_ge_refl sg_ge_trans _ _ _ _ Pf _ _ _ H nn Hnn)
        as (tb & ra & tc & Rb & Hg & Rc & Ia). clear H Pf.
      cbv beta in Hg. rewrite Hv, Nat.eqb_refl in Hg. cbn [negb] in Hg.
      apply mbind_inv in Hg. destruct Hg as (ws & td & Hws & Hg). apply reads_inv in Hws. destruct Hws as [Hws ->].
      assert (Rtb : sg_ge s tb).
      { eapply sg_ge_trans; [exact R|]. eapply sg_ge_trans; [exact Rta|exact Rb]. }
      rewrite (weak_variants_sg s tb nn (proj1 Rtb)), Hwv in Hws. inversion Hws; subst ws. clear Hws.
      match type of Hg with flat_mapM ?f _ _ = _ => assert (Pf : forall x, pres sg_ge (f x)) end.
      { intros y.
        apply (pres_bind sg_ge sg_ge_trans); [apply pres_lift; exact sg_ge_refl|]. intros a1.
        apply (pres_bind sg_ge sg_ge_trans); [apply pres_lift; exact sg_ge_refl|]. intros a2.
        destruct (negb (node_eqb (fst a1) (fst a2))); [apply (pres_ret sg_ge sg_ge_refl)|].
        destruct (insert_all_bij (combine (all_occ (nullify y)) _) _) as [mm|]; [|apply (pres_ret sg_ge sg_ge_refl)].
        apply sgge_kids. }
      destruct (flat_mapM_fwd sg_ge sg_ge_refl sg_ge_trans _ _ _ _ Pf _ _ _ Hg n2 Hn2)
        as (te & rb & tf & Re & Hh & Rf & Ib). clear Hg Pf.
      apply mbind_inv in Hh. destruct Hh as (a1 & tg & Ha1 & Hh). apply lift_inv in Ha1. destruct Ha1 as [Ha1 ->].
      rewrite W1 in Ha1. inversion Ha1; subst a1. clear Ha1.
      apply mbind_inv in Hh. destruct Hh as (a2 & tg & Ha2 & Hh). apply lift_inv in Ha2. destruct Ha2 as [Ha2 ->].
      rewrite W2 in Ha2. inversion Ha2; subst a2. clear Ha2.
      rewrite Efst, node_eqb_refl in Hh. cbn [negb] in Hh.
      assert (Rte : sg_ge s te) by (eapply sg_ge_trans; [exact Rtb|exact Re]).
      (* the slot map extends *)
      set (ps := combine (all_occ (nullify n2)) (all_occ n)) in *.
      set (f := fun e => match get rho1 e with
                         | Some y => match get (inverse_nocheck theta) y with Some x => x | None => 0 end
                         | None => 0 end).
      set (D := fun e => exists y x, get rho1 e = Some y /\ get theta x = Some y).
      assert (Ff : forall e y x, get rho1 e = Some y -> get theta x = Some y -> f e = x).
      { intros e y x G1 G2. unfold f. rewrite G1, (proj2 (get_inverse theta y x Wth Bth) G2). reflexivity. }
      destruct (insert_all_bij_okP f D) with (ps := ps) (m := partial_slotmap st) as (m' & Hib).
      { intros e1 e2 (y1 & x1 & G1 & T1) (y2 & x2 & G2 & T2) Ef.
        rewrite (Ff _ _ _ G1 T1), (Ff _ _ _ G2 T2) in Ef. subst x2. rewrite T1 in T2. inversion T2; subst y2.
        eapply Ir1; eauto. }
      { exact (si_wf _ _ SI). }
      { intros e x Hex. destruct (Hpos e x Hex) as (y & G1 & G2). split; [symmetry; exact (Ff _ _ _ G1 G2)|exists y, x; auto]. }
      { intros k v G. destruct (si_pm _ _ SI k v G) as (y & G1 & G2). pose proof (X1 _ _ G1) as G1'.
        split; [symmetry; exact (Ff _ _ _ G1' G2)|exists y, v; auto]. }
      rewrite Hib in Hh.
      set (st0 := {| partial_subst := partial_subst st; partial_slotmap := m' |}) in *.
      assert (SI0 : st_inv rho1 st0).
      { pose proof (st_inv_ext _ _ _ SI X1) as [b1 b2 b3 b4 b5]. constructor; cbn [partial_subst partial_slotmap st0].
        - eapply insert_all_bij_wf; eauto.
        - eapply insert_all_bij_bij; eauto.
        - intros e x G. destruct (insert_all_bij_src _ _ _ Hib e x G) as [G0|Hin]; [exact (b3 e x G0)|].
          apply PBn. exact (in_combine_r _ _ _ _ Hin).
        - intros e x G. destruct (insert_all_bij_src _ _ _ Hib e x G) as [G0|Hin]; [exact (b4 e x G0)|exact (Hpos e x Hin)].
        - exact b5. }
      assert (A1 : adm theta (flat_map pbinders ch) te rho1).
      { split; [exact Wr1|]. split; [exact Ir1|]. split.
        - intros k v G. pose proof (sgge_ctr _ _ Rta). pose proof (sgge_ctr _ _ Rb). pose proof (sgge_ctr _ _ Re).
          destruct (Hnew k v G) as [G0|(_ & L2 & _)]; [pose proof (Kr k v G0)|]; lia.
        - intros k v x G Hx Gx. destruct (Hnew k v G) as [G0|(_ & _ & x' & Hx' & Gx')].
          + apply (Av k v x G0); [apply in_or_app; right; exact Hx|exact Gx].
          + assert (x' = x) by (eapply Ith; eauto). subst x'. exact (nodup_app_dis _ _ ND x Hx' Hx). }
      destruct (kids_found ch IH (app_occ n2) rho1 [st0] te rb tf st0 rho1) as (st' & rho' & Hst' & O); try assumption.
      { exact (nodup_app_r _ _ ND). }
      { apply ext_refl. }
      { left; reflexivity. }
      exists st', rho'. split; [apply Ia, Ib; exact Hst'|].
      assert (Sk2 : skel (nullify n2) = skel n).
      { destruct sa as [sh1 b1], sb as [sh2 b2]. cbn [fst] in Efst. subst sh2.
        destruct (node_equiv_shape _ _ _ W1) as [S1 _]. destruct (node_equiv_shape _ _ _ W2) as [S2 _]. congruence. }
      pose proof (skel_occ_len _ _ Sk2) as Len.
      destruct O as [o1 o2 o3 o4 o5 o6 o7 o8 o9 o10 o11]. cbn [partial_subst partial_slotmap st0] in o9, o10.
      constructor; try assumption.
      + eapply ext_trans; eauto.
      + intros k v G. pose proof (o4 k v G). pose proof (sgge_ctr _ _ Rf). pose proof (sgge_ctr _ _ Rc). lia.
      + intros k v G. rewrite pbinders_node. destruct (o5 k v G) as [G1|(x & Hx & Gx)].
        * destruct (Hnew k v G1) as [G0|(_ & _ & x & Hx & Gx)]; [left; exact G0|].
          right. exists x. split; [apply in_or_app; left; exact Hx|exact Gx].
        * right. exists x. split; [apply in_or_app; right; exact Hx|exact Gx].
      + intros x Hx. rewrite pslots_node in Hx. apply in_app_or in Hx. destruct Hx as [Hx|Hx]; [|exact (o7 x Hx)].
        destruct (in_combine_r_ex' _ _ x Len Hx) as (e & He). exists e. apply o9. exact (insert_all_bij_get _ _ _ Hib e x He).
      + intros e x G. apply o9. exact (insert_all_bij_mono _ _ _ Hib e x G).
      + intros x Hx. destruct (Hcov x Hx) as [Hs2|(k & Hk & Hxk)].
        * left. destruct (MatchLookup.in_combine_l_ex _ (all_occ n) x Len Hs2) as (q & Hq).
          rewrite (o9 _ _ (insert_all_bij_get _ _ _ Hib x q Hq)). discriminate.
        * apply o11. apply in_flat_map. exists k. split; assumption.
    - cbn [emb] in E. contradiction.
  Qed.

  (* FROM THE ROOT EMBEDDING TO A DESCRIBING MATCH *)
  Theorem emb_complete : forall p a, NoDup (pbinders p) -> pat_below (Model.ctr s) p ->
    (forall i c z, get_class s i = Ok c -> In z (c_slots c) -> z < Model.ctr s) ->
    emb_root s theta zeta p a ->
    forall l s', ematch_all_r p s = Ok (l, s') -> exists r, In r l /\ describes s' p theta zeta a r.
  Proof.
    intros p a ND PB Below (Hi & c & rho0 & Hc & Wr0 & Ir0 & Kr0 & Dr0 & Av0 & Qroot & Lroot & E) l s' H.
    set (idc := {| aid := aid a; am := identity (c_slots c) |}) in *.
    assert (SG : same_graph s s').
    { apply (ematch_all_state p s (map mr_sb l) s'). rewrite ematch_all_r_spec, H. reflexivity. }
    unfold ematch_all_r in H.
    apply mbind_inv in H. destruct H as (live & s0 & Hl & H). unfold gets in Hl. inversion Hl; subst live s0. clear Hl.
    assert (Pfin : forall (sl : sset) (j : N) st, pres sg_ge
              (dom r <- final_go_m (partial_subst st) (partial_slotmap st);
               ret {| mr_id := j; mr_sl := sl; mr_st := st; mr_sb := fst r; mr_fin := snd r |})).
    { intros sl j st. apply (pres_bind sg_ge sg_ge_trans); [apply pres_sg_ge; [apply sg_final_go_m|apply c_final_go_m]|].
      intros r. apply (pres_ret sg_ge sg_ge_refl). }
    match type of H with flat_mapM ?f _ _ = _ => assert (Pf : forall x, pres sg_ge (f x)) end.
    { intros j. apply (pres_bind sg_ge sg_ge_trans); [apply pres_reads; exact sg_ge_refl|]. intros sl.
      apply (pres_bind sg_ge sg_ge_trans); [apply sgge_impl|]. intros sts.
      apply pres_mapM; [exact sg_ge_refl|exact sg_ge_trans|]. intros st. apply Pfin. }
    destruct (flat_mapM_fwd sg_ge sg_ge_refl sg_ge_trans _ _ _ _ Pf _ _ _ H (aid a) Hi) as (s1 & r1 & s2 & R1 & Hf & _ & I1).
    clear H Pf.
    apply mbind_inv in Hf. destruct Hf as (sl & sx & Hsl & Hf). apply reads_inv in Hsl. destruct Hsl as [Hsl ->].
    assert (Hc1 : get_class s1 (aid a) = Ok c).
    { destruct R1 as ((_ & E2 & _) & _). unfold get_class in *. rewrite E2. exact Hc. }
    unfold class_slots in Hsl. rewrite Hc1 in Hsl. cbn [bind] in Hsl. inversion Hsl; subst sl. clear Hsl.
    apply mbind_inv in Hf. destruct Hf as (sts & s3 & Hm & Hfin).
    fold idc in Hm.
    assert (Kid : kid_ok s idc) by (split; [apply covers_identity; exact Hc|apply identity_wf]).
    assert (Adm : adm theta (pbinders p) s1 rho0).
    { split; [exact Wr0|]. split; [exact Ir0|]. split; [|exact Av0].
      intros k v G. pose proof (Below _ _ k Hc (Kr0 k v G)). pose proof (sgge_ctr _ _ R1). lia. }
    assert (SI0 : st_inv rho0 estate0).
    { constructor; cbn [estate0 partial_subst partial_slotmap].
      - exact I.
      - reflexivity.
      - intros e x G. discriminate G.
      - intros e x G. discriminate G.
      - intros v b []. }
    destruct (ematch_impl_found p estate0 idc rho0 rho0 s1 sts s3 ND PB E (ext_refl _) Kid Lroot R1 Adm SI0 Hm)
      as (st' & rho' & Hst' & O).
    pose proof (sgge_impl _ _ _ _ _ _ Hm) as R13.
    destruct (mapM_fwd sg_ge sg_ge_refl sg_ge_trans _ _ _ _ (Pfin (c_slots c) (aid a)) _ _ _ Hfin st' Hst') as (t3 & y & t4 & R3 & Hy & Iy).
    apply mbind_inv in Hy. destruct Hy as (rr & t5 & Hrr & Hy). apply ret_inv in Hy. destruct Hy as [-> ->].
    destruct rr as [sbf mf]. cbn [fst snd] in *.
    destruct O as [o1 o2 o3 o4 o5 o6 o7 o8 o9 o10 o11]. destruct o6 as [i1 i2 i3 i4 i5].
    assert (Rs3 : sg_ge s t3).
    { eapply sg_ge_trans; [exact R1|]. eapply sg_ge_trans; [exact R13|exact R3]. }
    destruct (final_go_m_spec _ _ _ _ _ _ Hrr i1 (is_bijection_inj _ i2)) as (Wf & Injf & Monof & Hsb & Deff).
    { intros k v G. pose proof (i3 k v G). pose proof (sgge_ctr _ _ Rs3). lia. }
    { apply Forall_forall. intros [v b] Hin. cbn [snd]. destruct (i5 v b Hin) as (_ & _ & Kb & _). exact (proj2 Kb). }
    assert (Bf : is_bijection mf = true) by (apply is_bijection_injective; assumption).
    set (sigma := inverse_nocheck mf ** rho').
    eexists. split; [apply I1; exact Iy|]. exists sigma. cbn [mr_id mr_sb mr_root mr_sl mr_fin].
    split; [apply inv_comp_bij; assumption|]. split; [|split; [|split]].
    - intros x Hx. destruct (o7 x Hx) as (e & G). destruct (i4 e x G) as (y & G1 & G2). exists y. split; [exact G2|].
      unfold sigma. rewrite get_compose_partial by apply inverse_wf.
      rewrite (proj2 (get_inverse mf x e Wf Bf) (Monof _ _ G)). exact G1.
    - intros v Hv. destruct (sub_get (partial_subst st') v) as [b|] eqn:G; [|exfalso; exact (o8 v Hv G)].
      pose proof (sub_get_in_key _ _ _ G) as Hin.
      destruct (i5 v b Hin) as (c0 & Zc & Kb & Lb & Db & Qb).
      exists (out_of mf b), c0. split; [rewrite Hsb; apply sub_get_map_out; exact G|]. split; [exact Zc|].
      rewrite (eg_eq_sg s s' _ _ SG).
      assert (Er : rn sigma (out_of mf b) = rn rho' b).
      { unfold rn, out_of, sigma. cbn [aid am]. f_equal.
        apply cancel_mid; [exact (proj2 Kb)|exact Wf|exact Bf|]. intros x Hx. exact (Deff (v, b) x Hin Hx). }
      rewrite Er. exact Qb.
    - reflexivity.
    - rewrite (eg_eq_sg s s' _ _ SG). unfold mr_root, rn. cbn [aid am mr_id mr_sl mr_fin]. unfold sigma.
      rewrite cancel_mid; [|apply identity_wf|exact Wf|exact Bf|].
      + change (eg_eq s (rn rho' idc) a = Ok true). rewrite (rn_ext rho0 rho' idc o1); [exact Qroot|].
        intros x Hx. unfold values_vec in Hx. apply in_map_iff in Hx. destruct Hx as ([k x'] & <- & Hkx).
        apply in_identity in Hkx. destruct Hkx as [<- Hk]. cbn [snd]. exact (Dr0 k Hk).
      + intros x Hx. destruct (o11 x Hx) as [G|(v & b & Hin & Hb)].
        * destruct (get (partial_slotmap st') x) as [q|] eqn:Gq; [|congruence]. rewrite (Monof _ _ Gq). discriminate.
        * exact (Deff (v, b) x Hin Hb).
  Qed.
End Found.

Print Assumptions ematch_impl_found.
Print Assumptions emb_complete.
