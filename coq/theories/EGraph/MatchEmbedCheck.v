(* EGraph/MatchEmbedCheck.v — C04, nested patterns: EXECUTABLE TEST of the e-graph-side hypothesis (B)
     "no redundant slot, the instance (theta, zeta) of p is represented by a  ==>  emb_root s theta zeta p a"
   (`emb`, `emb_root`: MatchEmbedDefs.v) on the test universe of MatchReprDeep.v, BEFORE anyone proves it.
   Nothing here is proved for all states: every claim is a checked Example (vm_compute).

   `embb F s theta zeta p i rho t` searches a witness of `emb` at the rho and the state t THE MATCHER WOULD USE: rho and t
   are threaded sequentially through the children (child k starts from what child k-1 returned), FIRST success over the
   listed nodes nn and their weak variants n2 (`embl`: the same with full backtracking over all successes).  All
   decidable conjuncts of the PNode clause are checked: variant, weak shape of the skeleton, rho' built from rho by the
   positional pairs (an old key must agree; a NEW key must be a fresh name of [ctr t, ctr t'), the pattern name a binder
   of the node, the value new: injectivity), `kid_okb` and `lkidb` of the children of n2, the occurrence conjunct
   (every slot of the invocation occurs in the skeleton of n2 or in a child), arity; with `f_adm`: `adm` of the current
   rho (sorted, injective, keys below ctr t, range disjoint from the images of the bound names of the subpattern) is
   REQUIRED at every node (so the test also shows that the rho the matcher arrives with is admissible); with `f_junk`
   (adversarial, because `emb` quantifies over all admissible extensions rho and all t of the same graph): at every node
   rho is first extended by an unrelated pair (smallest unused key below the counter, new value) and ctr t advanced.
   `emb_rootb`: the class of a live, `lkidb` of the identity invocation, some rho0 = g ** am (find a), g in the class
   group (these are ALL rho0 with `eg_eq s (rn rho0 idinv) a`), sorted, bijective, keys = class slots,
   `avoids theta (pbinders p) rho0`, and `embb F_all ... idinv rho0 s` succeeds.  (`grp_ok` of `lkid` is not tested.)

   RESULTS (represented instances, of those emb_rootb = true):
     nonred_prefixes (213 states):  lin_pats 8768/8768   rep_pats 1304/1304   rep1_pats 1208/1208
        the same with F_junk (adversarial rho / t): 8768/8768, 1304/1304, 1208/1208; diagnosis code 0 everywhere:
        first success suffices (no backtracking across siblings or candidates is ever needed), `adm` holds at every
        node, every conjunct of the strengthened `emb` (lkid, occurrence) holds.  The instance premise
        `inst_premb` (theta injective, images of the bound names not among the slots of the root handle a) holds for
        every represented instance of the universe: the universe has NO binder clash (theta is one bijection of all
        positional pairs of a ground term whose bound names are not reused free).
     red_prefixes (55 states): lin 1579/8813, rep 1350/4550, rep1 1850/1853.  Cross table with `complete_report`
        (matched&emb, matched&not emb, NOT matched&emb, not matched&not emb): lin (1579,5430,0,1804),
        rep (1350,2858,0,342), rep1 (1850,3,0,0): emb_rootb never holds where the matcher misses the instance; it fails
        much more often (a fresh name drawn for a redundant slot is a new key whose pattern name is not a binder: code 7
        = succeeds only with the loose flags; code 8: injectivity / undefined at a variable).
     BINDER CLASH (`binder_clash`): state s_c (no redundant slot, valid), p = bin4(lam $2. ?x, ?y) (and the mirrored
        bin4(?y, lam $2. ?x)), instance theta 2 = 2, ?x := s1 $2, ?y := s1 $2 (the image of the bound name occurs free
        in the binding of ?y, outside the binder's scope): REPRESENTED (a = class 2 with slot 2) but
        complete_report = (true, FALSE): the match binds ?y to a fresh name and sigma would have to send both the
        pattern name 2 and that fresh name to 2: no bijective sigma.  emb_rootb = false, code 4 (`avoids` at the root;
        without `avoids` the binder's new value violates injectivity).  The alpha-renamed instance (theta 2 = 6,
        ?x := s1 $6): (true, true), emb_rootb = true.
   CONSEQUENCE for the theorem (B) / the final theorem: besides `no_redundant s`, `bind_scopeb p`, theta injective on
   the slot names of p, it needs the instance premise
        forall x, In x (pbinders p) -> forall k, get (am a) k <> get theta x      (images of bound names not slots of a)
   (= `avoids theta (pbinders p) (am a)`; in a state without redundant slots every slot that is free in the instance
   outside its binder is a slot of a, and a clash cannot be hidden under another binder because theta is injective).
   The definitions of `emb` / `emb_root` need NO correction on the universe: `avoids` is already a conjunct of
   `emb_root`, and it is exactly the conjunct the clash violates. *)
From SE Require Import Slots.SlotMapFacts Group.GroupSound Lang.LangFacts Lang.ShapeFacts Lang.RenameFacts
  Base.TextFacts Parse.Parser EGraph.Model EGraph.ModelFacts EGraph.ModelMachine EGraph.UnionFindFacts
  EGraph.InvariantFacts EGraph.UnionInvariantFacts EGraph.AddCoversFacts EGraph.HashconsShape EGraph.Mod4Facts
  EGraph.HashconsAbs EGraph.HashconsFacts EGraph.Rewrite EGraph.RewriteFacts EGraph.MatchDefs EGraph.MatchMachine
  EGraph.ProgressFacts EGraph.MatchFacts EGraph.SoundUnion EGraph.MonotoneFacts EGraph.MatchLookup EGraph.MatchComplete
  EGraph.MatchReprDeep EGraph.MatchEmbedDefs.
Require Import ZArith Lia ZifyBool ZifyN ZifyNat.

Local Notation "a ** b" := (compose_partial a b) (at level 40, left associativity).

(* ------------------------------------------------------------------ *)
(* 1. boolean forms of the side conditions *)

Definition first_some {A B} (f : A -> option B) : list A -> option B :=
  fix go (l : list A) : option B :=
    match l with [] => None | x :: t => match f x with Some y => Some y | None => go t end end.

Definition memb (x : slot) (l : list slot) : bool := existsb (N.eqb x) l.

Definition avoidsb (theta : slotmap) (bs : list slot) (rho : slotmap) : bool :=
  forallb (fun x => match get theta x with Some y => negb (memb y (values_vec rho)) | None => true end) bs.

Definition admb (theta : slotmap) (bs : list slot) (t : egraph) (rho : slotmap) : bool :=
  sortedb rho && is_bijection rho && forallb (fun kv : slot * slot => fst kv <? Model.ctr t) rho && avoidsb theta bs rho.

Definition lkidb (s : egraph) (a : appid) : bool :=
  match uentry (unionfind s) (aid a), get_class s (aid a) with
  | Some e, Ok c =>
      (aid e =? aid a) && sset_eqb (keys (am e)) (c_slots c) && sortedb (am a) &&
      forallb (fun kv : slot * slot => sset_mem (fst kv) (c_slots c)) (am a)
  | _, _ => false
  end.

(* the positional pairs (e-graph-side name e, pattern name x): rho' from rho.
   strict = true: a NEW key must be a fresh name of the interval [lo, hi) and x a binder of the node (as in `emb`);
   strict = false: any new key is accepted (diagnosis only) *)
Fixpoint step_pairs (strict : bool) (theta : slotmap) (bn : list slot) (lo hi : N) (ps : list (slot * slot)) (rho : slotmap)
  : option slotmap :=
  match ps with
  | [] => Some rho
  | (e, x) :: r =>
      match get theta x with
      | None => None
      | Some y =>
          match get rho e with
          | Some y' => if y' =? y then step_pairs strict theta bn lo hi r rho else None
          | None =>
              if (negb strict || ((lo <=? e) && (e <? hi) && memb x bn)) && negb (memb y (values_vec rho))
              then step_pairs strict theta bn lo hi r (insert e y rho) else None
          end
      end
  end.

(* every slot of the invocation occurs in the skeleton of n2 or in one of its children *)
Definition occ_okb (i : appid) (n2 : node) : bool :=
  forallb (fun x => memb x (all_occ (nullify n2)) || existsb (fun k : appid => memb x (values_vec (am k))) (app_occ n2))
          (values_vec (am i)).

Record flags := { f_adm : bool;      (* require `adm` of the current rho at every node *)
                  f_strict : bool;   (* new keys only fresh names bound by a binder *)
                  f_lkid : bool;     (* require `lkid` of the children *)
                  f_occ : bool;      (* require the occurrence conjunct *)
                  f_junk : bool }.   (* adversarial: at every node first extend rho by an unrelated pair (smallest unused
                                        key below the counter, new value) and advance the counter of t by 4: `emb`
                                        quantifies over ALL admissible extensions rho and all t of the same graph *)
Definition F_all : flags := {| f_adm := true; f_strict := true; f_lkid := true; f_occ := true; f_junk := false |}.
Definition F_old : flags := {| f_adm := false; f_strict := true; f_lkid := false; f_occ := false; f_junk := false |}.   (* first version of `emb` *)
Definition F_noadm : flags := {| f_adm := false; f_strict := true; f_lkid := true; f_occ := true; f_junk := false |}.
Definition F_junk : flags := {| f_adm := true; f_strict := true; f_lkid := true; f_occ := true; f_junk := true |}.
Definition F_loose : flags := {| f_adm := false; f_strict := false; f_lkid := false; f_occ := false; f_junk := false |}.

Definition junk_rho (t : egraph) (rho : slotmap) : slotmap :=
  match first_some (fun k => if contains_key rho k then None else Some k) (map N.of_nat (seq 0 (N.to_nat (Model.ctr t)))) with
  | Some k => insert k (4003 + 4 * N.of_nat (List.length rho)) rho
  | None => rho
  end.
Definition junk_t (t : egraph) : egraph := set_ctr t (Model.ctr t + 4).

(* ------------------------------------------------------------------ *)
(* 2. the search: FIRST success, rho and the state threaded through the children *)
Fixpoint embb (F : flags) (s : egraph) (theta : slotmap) (zeta : subst) (p : pattern) (i : appid) (rho : slotmap) (t : egraph)
  {struct p} : option (slotmap * egraph) :=
  match p with
  | PVarP v =>
      match sub_get zeta v with
      | Some c => if forallb (contains_key rho) (values_vec (am i)) && eq_trueb (eg_eq s (rn rho i) c) then Some (rho, t) else None
      | None => None
      end
  | PNode n ch =>
      let rho := if f_junk F then junk_rho t rho else rho in
      let t := if f_junk F then junk_t t else t in
      if f_adm F && negb (admb theta (pbinders (PNode n ch)) t rho) then None else
      match enodes_applied i t with
      | Ok (nns, t') =>
          first_some (fun nn =>
            if negb (Nat.eqb (nvar n) (nvar nn)) then None else
            match weak_variants s nn with
            | Ok vs =>
                first_some (fun n2 =>
                  match wshape n, wshape (nullify n2) with
                  | Ok sa, Ok sb =>
                      if negb (node_eqb (fst sa) (fst sb)) then None else
                      match step_pairs (f_strict F) theta (binders n) (Model.ctr t) (Model.ctr t')
                                       (combine (all_occ (nullify n2)) (all_occ n)) rho with
                      | None => None
                      | Some rho' =>
                          if forallb (kid_okb s) (app_occ n2) &&
                             (negb (f_lkid F) || forallb (lkidb s) (app_occ n2)) &&
                             (negb (f_occ F) || occ_okb i n2) &&
                             Nat.eqb (List.length ch) (List.length (app_occ n2))
                          then
                            (fix kids (ch : list pattern) (subs : list appid) (r : slotmap) (u : egraph) {struct ch}
                               : option (slotmap * egraph) :=
                               match ch, subs with
                               | [], [] => Some (r, u)
                               | c :: ch', b :: subs' =>
                                   match embb F s theta zeta c b r u with
                                   | Some (r1, u1) => kids ch' subs' r1 u1
                                   | None => None
                                   end
                               | _, _ => None
                               end) ch (app_occ n2) rho' t'
                          else None
                      end
                  | _, _ => None
                  end) vs
            | Err _ => None
            end) nns
      | Err _ => None
      end
  | PSubst _ _ _ => None
  end.

(* the same with FULL backtracking (all successes of every child are tried by the next sibling) *)
Fixpoint embl (F : flags) (s : egraph) (theta : slotmap) (zeta : subst) (p : pattern) (i : appid) (rho : slotmap) (t : egraph)
  {struct p} : list (slotmap * egraph) :=
  match p with
  | PVarP v =>
      match sub_get zeta v with
      | Some c => if forallb (contains_key rho) (values_vec (am i)) && eq_trueb (eg_eq s (rn rho i) c) then [(rho, t)] else []
      | None => []
      end
  | PNode n ch =>
      let rho := if f_junk F then junk_rho t rho else rho in
      let t := if f_junk F then junk_t t else t in
      if f_adm F && negb (admb theta (pbinders (PNode n ch)) t rho) then [] else
      match enodes_applied i t with
      | Ok (nns, t') =>
          flat_map (fun nn =>
            if negb (Nat.eqb (nvar n) (nvar nn)) then [] else
            match weak_variants s nn with
            | Ok vs =>
                flat_map (fun n2 =>
                  match wshape n, wshape (nullify n2) with
                  | Ok sa, Ok sb =>
                      if negb (node_eqb (fst sa) (fst sb)) then [] else
                      match step_pairs (f_strict F) theta (binders n) (Model.ctr t) (Model.ctr t')
                                       (combine (all_occ (nullify n2)) (all_occ n)) rho with
                      | None => []
                      | Some rho' =>
                          if forallb (kid_okb s) (app_occ n2) &&
                             (negb (f_lkid F) || forallb (lkidb s) (app_occ n2)) &&
                             (negb (f_occ F) || occ_okb i n2) &&
                             Nat.eqb (List.length ch) (List.length (app_occ n2))
                          then
                            (fix kids (ch : list pattern) (subs : list appid) (acc : list (slotmap * egraph)) {struct ch}
                               : list (slotmap * egraph) :=
                               match ch, subs with
                               | [], [] => acc
                               | c :: ch', b :: subs' =>
                                   kids ch' subs' (flat_map (fun ru : slotmap * egraph => embl F s theta zeta c b (fst ru) (snd ru)) acc)
                               | _, _ => []
                               end) ch (app_occ n2) [(rho', t')]
                          else []
                      end
                  | _, _ => []
                  end) vs
            | Err _ => []
            end) nns
      | Err _ => []
      end
  | PSubst _ _ _ => []
  end.

(* ------------------------------------------------------------------ *)
(* 3. the root *)
Definition idinv (a : appid) (c : eclass) : appid := {| aid := aid a; am := identity (c_slots c) |}.

(* all rho0 with `eg_eq s (rn rho0 (identity invocation)) a`: g ** am (find a), g in the class group *)
Definition root_cands (s : egraph) (a : appid) : list slotmap :=
  match get_class s (aid a), find_applied_id s a with
  | Ok c, Ok fa => match gall_perms false (c_group c) with Ok G => map (fun g => g ** am fa) G | Err _ => [] end
  | _, _ => []
  end.

(* the decidable conjuncts of emb_root that do not mention theta *)
Definition root_structb (s : egraph) (a : appid) (c : eclass) (rho0 : slotmap) : bool :=
  sortedb rho0 && is_bijection rho0 && sset_eqb (keys_vec rho0) (c_slots c) &&
  eq_trueb (eg_eq s (rn rho0 (idinv a c)) a).

Definition emb_rootb_gen (backtrack : bool) (avoid : bool) (F : flags) (s : egraph) (theta : slotmap) (zeta : subst) (p : pattern) (a : appid) : bool :=
  memb (aid a) (ids s) &&
  match get_class s (aid a) with
  | Ok c =>
      (negb (f_lkid F) || lkidb s (idinv a c)) &&
      existsb (fun rho0 =>
                 root_structb s a c rho0 && (negb avoid || avoidsb theta (pbinders p) rho0) &&
                 (if backtrack then match embl F s theta zeta p (idinv a c) rho0 s with [] => false | _ => true end
                  else match embb F s theta zeta p (idinv a c) rho0 s with Some _ => true | None => false end))
              (root_cands s a)
  | Err _ => false
  end.

Definition emb_rootb := emb_rootb_gen false true F_all.

(* which conjunct fails: 0 = holds; 1 = class not live; 2 = lkid of the root; 3 = no candidate rho0 passes the
   structural conjuncts; 4 = no structural candidate passes `avoids`; 5 = embb fails on all remaining candidates but
   the full-backtracking search succeeds; 6 = also the full-backtracking search fails, but succeeds without `adm`;
   7 = succeeds only with the loose flags; 8 = fails even with the loose flags *)
Definition emb_root_diag (s : egraph) (theta : slotmap) (zeta : subst) (p : pattern) (a : appid) : nat :=
  if negb (memb (aid a) (ids s)) then 1%nat else
  match get_class s (aid a) with
  | Ok c =>
      if negb (lkidb s (idinv a c)) then 2%nat else
      let c1 := filter (root_structb s a c) (root_cands s a) in
      match c1 with [] => 3%nat | _ =>
        let c2 := filter (avoidsb theta (pbinders p)) c1 in
        match c2 with [] => 4%nat | _ =>
          if emb_rootb_gen false true F_all s theta zeta p a then 0%nat
          else if emb_rootb_gen true true F_all s theta zeta p a then 5%nat
          else if emb_rootb_gen true true F_noadm s theta zeta p a then 6%nat
          else if emb_rootb_gen true true F_loose s theta zeta p a then 7%nat
          else 8%nat
        end
      end
  | Err _ => 1%nat
  end.

(* ------------------------------------------------------------------ *)
(* 4. counting over the test universe *)
Definition sum2 (l : list (nat * nat)) : nat * nat :=
  fold_right (fun a b => (fst a + fst b, snd a + snd b)%nat) (0, 0)%nat l.

(* (represented instances, of those with E true) *)
Definition emb_state_counts (E : egraph -> slotmap -> subst -> pattern -> appid -> bool) (ps : list pattern)
    (h : list rterm * list hop) : nat * nat :=
  let s := st_of (fst h) (snd h) in
  let P := pool s (fst h) in
  sum2 (map (fun p => if pat_belowb (Model.ctr s) p then
                        let l := flat_map (fun tz : slotmap * subst =>
                                             match lookup_pat s (pren (fst tz) p) (snd tz) with
                                             | Ok (Some a) => [E s (fst tz) (snd tz) p a]
                                             | _ => []
                                             end) (insts_of s P p) in
                        (List.length l, List.length (filter (fun b : bool => b) l))
                      else (0, 0)%nat) ps).

Definition emb_counts E ps hs : nat * nat := sum2 (map (emb_state_counts E ps) hs).

(* the failing instances of a state *)
Definition emb_state_fails (E : egraph -> slotmap -> subst -> pattern -> appid -> bool) (ps : list pattern)
    (h : list rterm * list hop) : list (pattern * slotmap * subst * appid) :=
  let s := st_of (fst h) (snd h) in
  let P := pool s (fst h) in
  flat_map (fun p => if pat_belowb (Model.ctr s) p then
                        flat_map (fun tz : slotmap * subst =>
                                    match lookup_pat s (pren (fst tz) p) (snd tz) with
                                    | Ok (Some a) => if E s (fst tz) (snd tz) p a then [] else [(p, fst tz, snd tz, a)]
                                    | _ => []
                                    end) (insts_of s P p)
                      else []) ps.

(* histogram of the diagnosis codes 0..8 *)
Definition diag_state_hist (ps : list pattern) (h : list rterm * list hop) : list nat :=
  let s := st_of (fst h) (snd h) in
  let P := pool s (fst h) in
  let codes := flat_map (fun p => if pat_belowb (Model.ctr s) p then
                        flat_map (fun tz : slotmap * subst =>
                                    match lookup_pat s (pren (fst tz) p) (snd tz) with
                                    | Ok (Some a) => [emb_root_diag s (fst tz) (snd tz) p a]
                                    | _ => []
                                    end) (insts_of s P p)
                      else []) ps in
  map (fun k => List.length (filter (Nat.eqb k) codes)) (seq 0 9).
Definition addl (a b : list nat) : list nat := map (fun xy : nat * nat => (fst xy + snd xy)%nat) (combine a b).
Definition diag_hist ps hs : list nat := fold_right (fun h acc => addl (diag_state_hist ps h) acc) (repeat O 9) hs.

(* cross table with the matcher's report on the represented instances:
   (matched & emb, matched & not emb, not matched & emb, not matched & not emb) *)
Definition cross_state (E : egraph -> slotmap -> subst -> pattern -> appid -> bool) (ps : list pattern)
    (h : list rterm * list hop) : nat * nat * nat * nat :=
  let s := st_of (fst h) (snd h) in
  let P := pool s (fst h) in
  sum4 (map (fun p => if pat_belowb (Model.ctr s) p then
                        let insts := insts_of s P p in
                        let l := flat_map (fun tzr : (slotmap * subst) * option (bool * bool) =>
                                             match lookup_pat s (pren (fst (fst tzr)) p) (snd (fst tzr)), snd tzr with
                                             | Ok (Some a), Some (true, m) => [(m, E s (fst (fst tzr)) (snd (fst tzr)) p a)]
                                             | _, _ => []
                                             end) (combine insts (report_many s p insts)) in
                        (List.length (filter (fun x : bool * bool => fst x && snd x) l),
                         List.length (filter (fun x : bool * bool => fst x && negb (snd x)) l),
                         List.length (filter (fun x : bool * bool => negb (fst x) && snd x) l),
                         List.length (filter (fun x : bool * bool => negb (fst x) && negb (snd x)) l))
                      else (0, 0, 0, 0)%nat) ps).
Definition cross E ps hs := sum4 (map (cross_state E ps) hs).

(* the instance premise: theta injective, the images of the bound names are not slots of the root handle *)
Definition inst_premb (s : egraph) (theta : slotmap) (zeta : subst) (p : pattern) (a : appid) : bool :=
  is_bijection theta && avoidsb theta (pbinders p) (am a).

(* ------------------------------------------------------------------ *)
(* 5. EVALUATION *)

(* (a) no redundant slot: every represented instance is embedded at the root *)
Example B_nonred_lin : emb_counts emb_rootb lin_pats nonred_prefixes = (8768, 8768)%nat.
Proof. vm_compute. reflexivity. Qed.
Example B_nonred_rep : emb_counts emb_rootb rep_pats nonred_prefixes = (1304, 1304)%nat.
Proof. vm_compute. reflexivity. Qed.
Example B_nonred_rep1 : emb_counts emb_rootb rep1_pats nonred_prefixes = (1208, 1208)%nat.
Proof. vm_compute. reflexivity. Qed.
(* adversarial extensions of rho and later states t *)
Example B_nonred_junk :
  emb_counts (emb_rootb_gen false true F_junk) lin_pats nonred_prefixes = (8768, 8768)%nat /\
  emb_counts (emb_rootb_gen false true F_junk) rep_pats nonred_prefixes = (1304, 1304)%nat /\
  emb_counts (emb_rootb_gen false true F_junk) rep1_pats nonred_prefixes = (1208, 1208)%nat.
Proof. vm_compute. repeat split; reflexivity. Qed.
(* the diagnosis code is 0 for every instance; the instance premise holds on the whole universe *)
Example B_nonred_diag :
  diag_hist (lin_pats ++ rep_pats ++ rep1_pats) nonred_prefixes = [11280; 0; 0; 0; 0; 0; 0; 0; 0]%nat /\
  emb_counts inst_premb (lin_pats ++ rep_pats ++ rep1_pats) nonred_prefixes = (11280, 11280)%nat.
Proof. vm_compute. split; reflexivity. Qed.

(* (b) states with a redundant slot *)
Example B_red_counts :
  emb_counts emb_rootb lin_pats red_prefixes = (8813, 1579)%nat /\
  emb_counts emb_rootb rep_pats red_prefixes = (4550, 1350)%nat /\
  emb_counts emb_rootb rep1_pats red_prefixes = (1853, 1850)%nat /\
  diag_hist lin_pats red_prefixes = [1579; 0; 0; 0; 0; 0; 0; 5422; 1812]%nat /\
  diag_hist rep_pats red_prefixes = [1350; 0; 0; 0; 0; 0; 0; 2856; 344]%nat /\
  diag_hist rep1_pats red_prefixes = [1850; 0; 0; 0; 0; 0; 0; 0; 3]%nat.
Proof. vm_compute. repeat split; reflexivity. Qed.
Example B_red_cross :
  cross emb_rootb lin_pats red_prefixes = (1579, 5430, 0, 1804)%nat /\
  cross emb_rootb rep_pats red_prefixes = (1350, 2858, 0, 342)%nat /\
  cross emb_rootb rep1_pats red_prefixes = (1850, 3, 0, 0)%nat.
Proof. vm_compute. repeat split; reflexivity. Qed.

Definition dg (s : egraph) (p : pattern) (theta : slotmap) (zeta : subst) : option nat :=
  match lookup_pat s (pren theta p) zeta with Ok (Some a) => Some (emb_root_diag s theta zeta p a) | _ => None end.
(* the counterexamples CE1-CE4 of MatchReprDeep.v (redundant slot): not embedded (code 8); P1 (no redundancy): embedded *)
Example B_known_counterexamples :
  dg s_x4 p_lam_use id26 [] = Some 8%nat /\ dg s_r1 p_shared id26 [] = Some 8%nat /\
  dg s_r1 p_linear id26 [([120], hnd s_r1 (xs2 2 2 6))] = Some 8%nat /\
  dg s_r2 p_special [] [([120], hnd s_r2 (xs1 7 2))] = Some 8%nat /\
  dg s_d1 p_rep_nested [] [([120], hnd s_d1 (xs1 7 2))] = Some 0%nat /\
  dg (st_of xT4 (firstn 9 xO4)) p_lam_use id26 [] = Some 0%nat.
Proof. vm_compute. repeat split; reflexivity. Qed.

(* (c) BINDER CLASH: bin4(lam $2. ?x, ?y), the image of the bound name free in the binding of ?y *)
Definition cT : list rterm :=
  [ xs1 7 2; xbin 4 (xlam 2 (xs1 7 2)) (xs1 7 2); xbin 4 (xlam 6 (xs1 7 6)) (xs1 7 2);
    xbin 4 (xs1 7 2) (xlam 2 (xs1 7 2)); xlam 2 (xs1 7 2) ].
Definition cO : list hop := [HAdd 0; HAdd 1; HAdd 3].
Definition s_c : egraph := st_of cT cO.
Definition p_c1 : pattern := PNode (nd_bin 4) [PNode (nd_lam 2) [vx]; vy].
Definition p_c2 : pattern := PNode (nd_bin 4) [vy; PNode (nd_lam 2) [vx]].
Definition z_clash : subst := [([120], hnd s_c (xs1 7 2)); ([121], hnd s_c (xs1 7 2))].
Definition z_fresh : subst := [([120], hnd s_c (xs1 7 6)); ([121], hnd s_c (xs1 7 2))].
(* (emb_rootb, code, full backtracking WITHOUT `avoids` at the root, the instance premise) *)
Definition er (s : egraph) (p : pattern) (theta : slotmap) (zeta : subst) : option (bool * nat * bool * bool) :=
  match lookup_pat s (pren theta p) zeta with
  | Ok (Some a) => Some (emb_rootb s theta zeta p a, emb_root_diag s theta zeta p a,
                         emb_rootb_gen true false F_noadm s theta zeta p a, inst_premb s theta zeta p a)
  | _ => None
  end.
Example binder_clash :
  valid_stateb s_c = true /\ has_redundant s_c = Ok false /\ bind_scopeb p_c1 = true /\ bind_scopeb p_c2 = true /\
  lookup_pat s_c (pren [(2, 2)] p_c1) z_clash = Ok (Some {| aid := 2; am := [(9, 2)] |}) /\
  lookup_pat s_c (pren [(2, 6)] p_c1) z_fresh = Ok (Some {| aid := 2; am := [(9, 2)] |}) /\
  complete_report s_c p_c1 [(2, 2)] z_clash = Some (true, false) /\
  complete_report s_c p_c1 [(2, 6)] z_fresh = Some (true, true) /\
  complete_report s_c p_c2 [(2, 2)] z_clash = Some (true, false) /\
  complete_report s_c p_c2 [(2, 6)] z_fresh = Some (true, true) /\
  er s_c p_c1 [(2, 2)] z_clash = Some (false, 4%nat, false, false) /\
  er s_c p_c1 [(2, 6)] z_fresh = Some (true, 0%nat, true, true) /\
  er s_c p_c2 [(2, 2)] z_clash = Some (false, 4%nat, false, false) /\
  er s_c p_c2 [(2, 6)] z_fresh = Some (true, 0%nat, true, true).
Proof. vm_compute. repeat split; reflexivity. Qed.

Print Assumptions B_nonred_lin.
Print Assumptions B_nonred_rep.
Print Assumptions B_nonred_rep1.
Print Assumptions B_nonred_junk.
Print Assumptions B_nonred_diag.
Print Assumptions B_red_counts.
Print Assumptions B_red_cross.
Print Assumptions B_known_counterexamples.
Print Assumptions binder_clash.
