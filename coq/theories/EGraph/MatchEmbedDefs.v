(* EGraph/MatchEmbedDefs.v — C04, nested patterns: the definitions shared by the matcher side (MatchEmbed.v), the
   executable validation (MatchEmbedCheck.v) and the final theorem (MatchCompleteAll.v).

   `no_redundant s`: every stored e-node of every live class, seen through its stored bijection, only has public
   slots of the class (boolean form: `has_redundant s = Ok false` of MatchMachine.v: `has_redundant_false`).

   `emb s theta zeta p i rho0` (the instance (theta, zeta) of p is EMBEDDED at the invocation i through the slot
   correspondence rho0 : e-graph-side slot names -> instance slot names).  A statement about the e-graph only (the
   matcher does not occur in it; `enodes_applied` and `weak_variants` are the e-graph's enumeration functions, as in
   `repr_hyp` of MatchComplete.v):
     p = ?v       : zeta v = c, rho0 is defined on the slots of i and `eg_eq s (rn rho0 i) c`.
     p = n(ch)    : for EVERY admissible extension rho of rho0 (`adm`: sorted, injective, keys older than the counter
                    of t, range disjoint from the images of the pattern's bound names) and every state t of the same
                    graph: `enodes_applied i t` lists a node nn, with a weak variant n2, and an extension rho' of rho
                    (new keys: fresh names of t, new values: images of the binders of n) such that the skeleton of n2
                    has the weak shape of n, rho' relates the slot occurrences of n2 and n positionally through theta,
                    the children of n2 are covering leader invocations with sorted maps (`kid_ok`, `lkid`), every slot
                    of i occurs in the skeleton of n2 or in a child of n2, and every child pattern is embedded at the
                    corresponding child of n2 through rho'.
   The universal quantification over the extensions rho makes `emb` monotone in rho0 by construction: this is what the
   sequential threading of the matcher state through the children needs. *)
From SE Require Import Slots.SlotMapFacts Group.GroupSound Lang.LangFacts Lang.ShapeFacts Lang.RenameFacts
  Base.TextFacts Parse.Parser EGraph.Model EGraph.ModelFacts EGraph.ModelMachine EGraph.UnionFindFacts
  EGraph.InvariantFacts EGraph.UnionInvariantFacts EGraph.AddCoversFacts EGraph.HashconsShape EGraph.Mod4Facts
  EGraph.HashconsAbs EGraph.HashconsFacts EGraph.Rewrite EGraph.RewriteFacts EGraph.MatchDefs EGraph.MatchMachine
  EGraph.ProgressFacts EGraph.MatchFacts EGraph.SoundUnion EGraph.MonotoneFacts EGraph.MatchLookup EGraph.MatchComplete
  EGraph.MatchReprDeep.
Require Import ZArith Lia ZifyBool ZifyN ZifyNat.

Local Notation "a ** b" := (compose_partial a b) (at level 40, left associativity).

(* ------------------------------------------------------------------ *)
(* 1. no redundant slot *)
Definition no_redundant (s : egraph) : Prop :=
  forall i c e n, In i (ids s) -> get_class s i = Ok c -> In e (c_nodes c) ->
    apply_slotmap false (fst (snd e)) (fst e) = Ok n -> sset_subset (slots n) (c_slots c) = true.

Definition no_redundantb (s : egraph) : bool := match has_redundant s with Ok false => true | _ => false end.

Lemma mapr_in_ok : forall {A B} (f : A -> res B) l r, mapr f l = Ok r -> forall x, In x l -> exists y, f x = Ok y /\ In y r.
Proof.
  intros A B f. induction l as [|a t IH]; intros r H x Hx; [contradiction|]. cbn [mapr] in H.
  destruct (f a) as [y|] eqn:Fa; cbn [bind] in H; [|discriminate].
  destruct (mapr f t) as [r'|] eqn:Ft; cbn [bind] in H; [|discriminate]. inversion H; subst r.
  destruct Hx as [<-|Hx]; [exists y; split; [exact Fa|left; reflexivity]|].
  destruct (IH r' eq_refl x Hx) as (z & Fz & Hz). exists z. split; [exact Fz|right; exact Hz].
Qed.

Lemma existsb_false_in : forall {A} (f : A -> bool) l, existsb f l = false -> forall x, In x l -> f x = false.
Proof.
  intros A f l H x Hx. destruct (f x) eqn:E; [|reflexivity].
  assert (existsb f l = true) by (apply existsb_exists; exists x; auto). congruence.
Qed.

Theorem no_redundantb_sound : forall s, no_redundantb s = true -> no_redundant s.
Proof.
  intros s H i c e n Hi Hc He Hn. unfold no_redundantb, has_redundant in H.
  destruct (mapr (get_class s) (ids s)) as [cls|] eqn:E1; cbn [bind] in H; [|discriminate].
  match type of H with match (do fl <- mapr ?f cls; _) with _ => _ end = _ => destruct (mapr f cls) as [fl|] eqn:E2 end;
    cbn [bind] in H; [|discriminate].
  destruct (existsb (fun b : bool => b) fl) eqn:E3; [discriminate|].
  destruct (mapr_in_ok _ _ _ E1 i Hi) as (c' & Hc' & Hin). rewrite Hc in Hc'. inversion Hc'; subst c'.
  destruct (mapr_in_ok _ _ _ E2 c Hin) as (b & Hb & Hbin). cbv beta in Hb.
  pose proof (existsb_false_in _ _ E3 b Hbin) as Eb. cbv beta in Eb. subst b.
  destruct (mapr (fun e0 : node * (slotmap * N) => apply_slotmap false (fst (snd e0)) (fst e0)) (c_nodes c)) as [ns|] eqn:E4;
    cbn [bind] in Hb; [|discriminate].
  inversion Hb as [Hb']. destruct (mapr_in_ok _ _ _ E4 e He) as (n' & Hn' & Hnin). cbv beta in Hn'.
  rewrite Hn in Hn'. inversion Hn'; subst n'.
  pose proof (existsb_false_in _ _ Hb' n Hnin) as En. cbv beta in En. apply negb_false_iff in En. exact En.
Qed.

(* ------------------------------------------------------------------ *)
(* 2. the embedding of an instance *)

Definition ext (rho rho' : slotmap) : Prop := forall k v, get rho k = Some v -> get rho' k = Some v.

Lemma ext_refl : forall r, ext r r.
Proof. intros r k v G. exact G. Qed.
Lemma ext_trans : forall a b c, ext a b -> ext b c -> ext a c.
Proof. intros a b c H1 H2 k v G. apply H2, H1, G. Qed.

Lemma pbinders_node : forall n ch, pbinders (PNode n ch) = binders n ++ flat_map pbinders ch.
Proof.
  intros n ch. cbn [pbinders]. apply f_equal. induction ch as [|c t IH]; cbn [flat_map]; [reflexivity|]. rewrite IH. reflexivity.
Qed.

(* the range of rho avoids the images (under theta) of the slot names in bs *)
Definition avoids (theta : slotmap) (bs : list slot) (rho : slotmap) : Prop :=
  forall k v x, get rho k = Some v -> In x bs -> get theta x <> Some v.

(* rho is an admissible current correspondence at state t, for a (sub)pattern with bound names bs *)
Definition adm (theta : slotmap) (bs : list slot) (t : egraph) (rho : slotmap) : Prop :=
  wf rho /\ injective rho /\ (forall k v, get rho k = Some v -> k < Model.ctr t) /\ avoids theta bs rho.

Definition embl_of (E : pattern -> appid -> Prop) : list pattern -> list appid -> Prop :=
  fix go (ch : list pattern) (subs : list appid) {struct ch} : Prop :=
    match ch, subs with
    | [], [] => True
    | c :: ch', b :: subs' => E c b /\ go ch' subs'
    | _, _ => False
    end.

Fixpoint emb (s : egraph) (theta : slotmap) (zeta : subst) (p : pattern) (i : appid) (rho0 : slotmap) {struct p} : Prop :=
  match p with
  | PVarP v => exists c, sub_get zeta v = Some c /\ (forall x, In x (values_vec (am i)) -> get rho0 x <> None) /\
                         eg_eq s (rn rho0 i) c = Ok true
  | PNode n ch =>
      forall rho t nns t', ext rho0 rho -> adm theta (pbinders (PNode n ch)) t rho -> sg_ge s t ->
        enodes_applied i t = Ok (nns, t') ->
        exists nn vs' n2 rho' sa sb,
          In nn nns /\ nvar n = nvar nn /\ weak_variants s nn = Ok vs' /\ In n2 vs' /\
          wshape n = Ok sa /\ wshape (nullify n2) = Ok sb /\ fst sa = fst sb /\
          ext rho rho' /\ wf rho' /\ injective rho' /\
          (forall k v, get rho' k = Some v ->
             get rho k = Some v \/
             (Model.ctr t <= k /\ k < Model.ctr t' /\ exists x, In x (binders n) /\ get theta x = Some v)) /\
          (forall e x, In (e, x) (combine (all_occ (nullify n2)) (all_occ n)) ->
             exists y, get rho' e = Some y /\ get theta x = Some y) /\
          Forall (fun b => kid_ok s b /\ lkid s b) (app_occ n2) /\
          (forall x, In x (values_vec (am i)) ->
             In x (all_occ (nullify n2)) \/ exists k, In k (app_occ n2) /\ In x (values_vec (am k))) /\
          (fix go (ch : list pattern) (subs : list appid) {struct ch} : Prop :=
             match ch, subs with
             | [], [] => True
             | c :: ch', b :: subs' => emb s theta zeta c b rho' /\ go ch' subs'
             | _, _ => False
             end) ch (app_occ n2)
  | PSubst _ _ _ => False
  end.

Lemma emb_node : forall s theta zeta n ch i rho0,
  emb s theta zeta (PNode n ch) i rho0 =
  (forall rho t nns t', ext rho0 rho -> adm theta (pbinders (PNode n ch)) t rho -> sg_ge s t ->
     enodes_applied i t = Ok (nns, t') ->
     exists nn vs' n2 rho' sa sb,
       In nn nns /\ nvar n = nvar nn /\ weak_variants s nn = Ok vs' /\ In n2 vs' /\
       wshape n = Ok sa /\ wshape (nullify n2) = Ok sb /\ fst sa = fst sb /\
       ext rho rho' /\ wf rho' /\ injective rho' /\
       (forall k v, get rho' k = Some v ->
          get rho k = Some v \/
          (Model.ctr t <= k /\ k < Model.ctr t' /\ exists x, In x (binders n) /\ get theta x = Some v)) /\
       (forall e x, In (e, x) (combine (all_occ (nullify n2)) (all_occ n)) ->
          exists y, get rho' e = Some y /\ get theta x = Some y) /\
       Forall (fun b => kid_ok s b /\ lkid s b) (app_occ n2) /\
       (forall x, In x (values_vec (am i)) ->
          In x (all_occ (nullify n2)) \/ exists k, In k (app_occ n2) /\ In x (values_vec (am k))) /\
       embl_of (fun c b => emb s theta zeta c b rho') ch (app_occ n2)).
Proof. intros. reflexivity. Qed.

(* the root premise the final theorem needs: the instance represented by a is embedded at the identity invocation
   of the (live) class of a, through a correspondence rho0 on the class slots that carries the identity invocation
   to a *)
Definition emb_root (s : egraph) (theta : slotmap) (zeta : subst) (p : pattern) (a : appid) : Prop :=
  In (aid a) (ids s) /\ exists c rho0, get_class s (aid a) = Ok c /\
    wf rho0 /\ injective rho0 /\ (forall k v, get rho0 k = Some v -> In k (c_slots c)) /\
    (forall k, In k (c_slots c) -> get rho0 k <> None) /\ avoids theta (pbinders p) rho0 /\
    eg_eq s (rn rho0 {| aid := aid a; am := identity (c_slots c) |}) a = Ok true /\
    lkid s {| aid := aid a; am := identity (c_slots c) |} /\
    emb s theta zeta p {| aid := aid a; am := identity (c_slots c) |} rho0.

Print Assumptions no_redundantb_sound.
