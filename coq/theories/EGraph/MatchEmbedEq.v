(* EGraph/MatchEmbedEq.v — `eg_eq` is invariant under an injective renaming of the user slots that is defined on the
   slots the two invocations use: `eg_eq s (rn rho i) (rn rho j) = eg_eq s i j` (the direction from the renamed
   invocations back to the originals is the one MonotoneFacts.eg_eq_rename does not give). *)
From SE Require Import Slots.SlotMapFacts Group.GroupSound Lang.LangFacts Lang.ShapeFacts Lang.RenameFacts
  Base.TextFacts Parse.Parser EGraph.Model EGraph.ModelFacts EGraph.ModelMachine EGraph.UnionFindFacts
  EGraph.InvariantFacts EGraph.UnionInvariantFacts EGraph.AddCoversFacts EGraph.HashconsShape EGraph.Mod4Facts
  EGraph.HashconsAbs EGraph.HashconsFacts EGraph.Rewrite EGraph.RewriteFacts EGraph.MatchDefs EGraph.MatchMachine
  EGraph.ProgressFacts EGraph.MatchFacts EGraph.SoundUnion EGraph.MonotoneFacts EGraph.MatchLookup EGraph.MatchComplete.
Require Import ZArith Lia ZifyBool ZifyN ZifyNat.
Local Notation "a ** b" := (compose_partial a b) (at level 40, left associativity).

(* the values of the canonical form are values of the invocation *)
Lemma find_values_sub : forall s a a' k y, uf_ok s -> find_applied_id s a = Ok a' ->
  get (am a') k = Some y -> In y (values_vec (am a)).
Proof.
  intros s a a' k y Hok Fa G. unfold find_applied_id in Fa.
  destruct (unionfind_get s (aid a)) as [p|] eqn:Hp; cbn [bind] in Fa; [|discriminate].
  inversion Fa; subst a'. cbn [am] in G.
  rewrite get_compose_partial in G by (eapply unionfind_get_wf; [exact Hok|exact Hp]).
  destruct (get (am p) k) as [x|]; [|discriminate]. eapply get_values_vec; exact G.
Qed.

(* an injective renaming defined on the values reflects equality of the value sets *)
Lemma values_compose_reflect : forall a b sg, wf a -> wf b -> injective sg ->
  (forall k y, get a k = Some y -> get sg y <> None) ->
  (forall k y, get b k = Some y -> get sg y <> None) ->
  values (a ** sg) = values (b ** sg) -> values a = values b.
Proof.
  intros a b sg Wa Wb Is Da Db V.
  assert (Half : forall a0 b0, wf a0 -> wf b0 -> (forall k y, get a0 k = Some y -> get sg y <> None) ->
            values (a0 ** sg) = values (b0 ** sg) -> forall v, In v (values a0) -> In v (values b0)).
  { intros a0 b0 Wa0 Wb0 Da0 V0 v Hv. pose proof Hv as Hv'. apply values_spec in Hv'; [|exact Wa0].
    destruct Hv' as (k & Gk). destruct (get sg v) as [z|] eqn:Gz; [|exfalso; eapply Da0; eauto].
    assert (Hz : In z (values (a0 ** sg))) by (apply values_compose_in; [exact Wa0|]; exists v; auto).
    rewrite V0 in Hz. apply values_compose_in in Hz; [|exact Wb0]. destruct Hz as (y & Hy & Gy).
    pose proof (Is _ _ _ Gz Gy) as E. subst y. exact Hy. }
  apply sset_ext; try apply sset_of_list_spec. intros v. split.
  - apply (Half a b Wa Wb Da V).
  - apply (Half b a Wb Wa Db (eq_sym V)).
Qed.

Lemma values_compose_eqb : forall a b sg, wf a -> wf b -> injective sg ->
  (forall k y, get a k = Some y -> get sg y <> None) ->
  (forall k y, get b k = Some y -> get sg y <> None) ->
  sset_eqb (values (a ** sg)) (values (b ** sg)) = sset_eqb (values a) (values b).
Proof.
  intros a b sg Wa Wb Is Da Db.
  destruct (sset_eqb (values a) (values b)) eqn:E.
  - apply sset_eqb_eq in E. apply sset_eqb_eq. apply values_compose_congr; assumption.
  - destruct (sset_eqb (values (a ** sg)) (values (b ** sg))) eqn:E2; [|reflexivity].
    apply sset_eqb_eq in E2. apply (values_compose_reflect a b sg Wa Wb Is Da Db) in E2.
    apply sset_eqb_eq in E2. congruence.
Qed.

(* premises used: eg_inv, injective rho, kid_ok i, kid_ok j, rho defined on the values of i and of j
   (`wf rho` is not needed) *)
Lemma eg_eq_rn_cancel : forall s rho i j, eg_inv s -> injective rho ->
  kid_ok s i -> kid_ok s j ->
  (forall x, In x (values_vec (am i)) -> get rho x <> None) ->
  (forall x, In x (values_vec (am j)) -> get rho x <> None) ->
  eg_eq s (rn rho i) (rn rho j) = eg_eq s i j.
Proof.
  intros s rho [ii mi] [ij mj] Hs Ir [Ci Wi] [Cj Wj] Di Dj. cbn [aid am] in *.
  destruct (covers_find_ok s _ (ei_uf _ Hs) (ei_slots _ Hs) Ci) as (i' & Fi & Ni).
  destruct (covers_find_ok s _ (ei_uf _ Hs) (ei_slots _ Hs) Cj) as (j' & Fj & Nj).
  destruct (canon_parts _ _ Ni) as (Wi' & Bi' & _). destruct (canon_parts _ _ Nj) as (Wj' & Bj' & _).
  pose proof (find_compose s ii mi rho i' (ei_uf _ Hs) Wi Fi) as Fi2.
  pose proof (find_compose s ij mj rho j' (ei_uf _ Hs) Wj Fj) as Fj2.
  assert (Vi : forall k y, get (am i') k = Some y -> get rho y <> None).
  { intros k y G. apply Di. exact (find_values_sub s _ i' k y (ei_uf _ Hs) Fi G). }
  assert (Vj : forall k y, get (am j') k = Some y -> get rho y <> None).
  { intros k y G. apply Dj. exact (find_values_sub s _ j' k y (ei_uf _ Hs) Fj G). }
  unfold rn, eg_eq. cbn [aid am]. rewrite Fi2, Fj2, Fi, Fj. cbn [bind aid am].
  destruct (aid i' =? aid j'); cbn [negb]; [|reflexivity].
  rewrite (values_compose_eqb (am i') (am j') rho Wi' Wj' Ir Vi Vj).
  destruct (sset_eqb (values (am i')) (values (am j'))); cbn [negb]; [|reflexivity].
  rewrite (quot_rename (am i') (am j') rho Wi' Wj' Bi' Bj' Ir Vi). reflexivity.
Qed.

Lemma eg_eq_rn_cancel_true : forall s rho i j, eg_inv s -> injective rho ->
  kid_ok s i -> kid_ok s j ->
  (forall x, In x (values_vec (am i)) -> get rho x <> None) ->
  (forall x, In x (values_vec (am j)) -> get rho x <> None) ->
  eg_eq s (rn rho i) (rn rho j) = Ok true -> eg_eq s i j = Ok true.
Proof.
  intros s rho i j Hs Ir Ki Kj Di Dj H. rewrite <- (eg_eq_rn_cancel s rho i j Hs Ir Ki Kj Di Dj). exact H.
Qed.

Lemma covers_rn : forall s rho a, covers s a -> wf (am a) -> wf rho -> injective rho ->
  (forall x, In x (values_vec (am a)) -> get rho x <> None) -> covers s (rn rho a).
Proof.
  intros s rho a (c & Hc & Ia & Sa) Wa _ Ir Da. exists c. unfold rn. cbn [aid am].
  split; [exact Hc|]. split; [apply compose_injective; assumption|].
  intros k Hk. rewrite get_compose_partial by exact Wa.
  destruct (get (am a) k) as [y|] eqn:E; [|exfalso; exact (Sa k Hk E)].
  apply Da. eapply get_values_vec; exact E.
Qed.

Lemma eg_eq_via : forall s rho i j c, eg_inv s -> wf rho -> injective rho -> kid_ok s i -> kid_ok s j -> covers s c ->
  (forall x, In x (values_vec (am i)) -> get rho x <> None) ->
  (forall x, In x (values_vec (am j)) -> get rho x <> None) ->
  eg_eq s (rn rho i) c = Ok true -> eg_eq s (rn rho j) c = Ok true -> eg_eq s i j = Ok true.
Proof.
  intros s rho i j c Hs Wr Ir Ki Kj Cc Di Dj Hi Hj.
  pose proof (covers_rn s rho i (proj1 Ki) (proj2 Ki) Wr Ir Di) as Ci.
  pose proof (covers_rn s rho j (proj1 Kj) (proj2 Kj) Wr Ir Dj) as Cj.
  apply (eg_eq_rn_cancel_true s rho i j Hs Ir Ki Kj Di Dj).
  apply (eg_eq_trans_true s (rn rho i) c (rn rho j) Hs Ci Cc Cj Hi).
  apply (eg_eq_sym_true s (rn rho j) c Hs Cj Cc Hj).
Qed.

(* equal leader invocations use the same slots *)
Lemma eg_eq_values_sub : forall s i j, eg_inv s -> lkid s i -> lkid s j -> eg_eq s i j = Ok true ->
  forall x, In x (values_vec (am i)) -> In x (values_vec (am j)).
Proof.
  intros s i j Hs Li Lj H x Hx.
  destruct (eg_eq_true_inv _ _ _ H) as (i' & j' & c & Fi & Fj & _ & V & _ & _).
  rewrite (lkid_fixed s i (ei_uf _ Hs) Li) in Fi. rewrite (lkid_fixed s j (ei_uf _ Hs) Lj) in Fj.
  inversion Fi; subst i'. inversion Fj; subst j'.
  apply (proj2 (sset_of_list_spec (values_vec (am j)))). fold (values (am j)). rewrite <- V.
  unfold values. apply (proj2 (sset_of_list_spec (values_vec (am i)))). exact Hx.
Qed.

Print Assumptions eg_eq_rn_cancel.
Print Assumptions eg_eq_rn_cancel_true.
Print Assumptions covers_rn.
Print Assumptions eg_eq_via.
Print Assumptions eg_eq_values_sub.
