(* EGraph/MatchEmbedRepr.v — C04, nested patterns: THE E-GRAPH SIDE PROVED, and the unconditional theorems.

   0. `H_emb` of Section Cond (MatchCompleteAll.v) is FALSE as stated (MatchEmbedReprCE.v: `H_emb_false`): `inst_ok` does
      not demand that theta is defined on the slot names of the pattern (and nothing demands that the nodes of the pattern
      carry null children, which `emb` / the matcher compare by weak shape).  The two premises are added here:
        inst_ok2 s p theta zeta := inst_ok s p theta zeta /\ forall x, In x (pslots p) -> get theta x <> None
        pat_null p              := every node n of p satisfies nullify n = n
      and `stored2 s` (SoundStruct.v: the stored bijections are total on the public slots of their shape; a run invariant
      without premises: `reachable_stored2`; without it `no_redundant s` is vacuous for an entry whose bijection is partial).
   1. `emb_gen` (by induction on the pattern): if the instance of p is represented by a (the bottom-up lookup hits) then
      there is a canonical leader invocation j with eg_eq s j a such that the instance is embedded at EVERY (i, rho0) with
      rn rho0 i = j (`emb_at`, MatchEmbedReprNode.v).  j is computed as in MatchEmbedReprChk.v (`jof`; validated there on
      all 11280 represented instances of the 213 states without redundant slot before this proof was written).
      Variable: j = find (zeta v).  Node: IH gives js for the children; N' = (ren theta n)[js] is found by the lookup
      (`lookup_kid_eq`), is clean (no redundant slot: every public slot of N' is a slot of the result, `lookup_pub_values`,
      and the images of the bound names are not: the premise `Fr`, threaded downwards), `lookup_node_data`, `node_at`;
      eg_eq s (rn tau a') a' because a' = lookup (ren tau u) = rn tau (lookup u) and lookup u is eg_eq to a' (u is a group
      variant of N').
   2. `repr_emb_proved`, `nested_complete_proved`, `nested_complete_reachable_proved`, `nested_complete_and_fires_proved`,
      `nested_complete_and_fires_reachable_proved`. *)
From SE Require Import Slots.SlotMapFacts Group.GroupSound Lang.LangFacts Lang.ShapeFacts Lang.RenameFacts
  Base.TextFacts Parse.Parser EGraph.Model EGraph.ModelFacts EGraph.ModelMachine EGraph.UnionFindFacts
  EGraph.InvariantFacts EGraph.UnionInvariantFacts EGraph.AddCoversFacts EGraph.HashconsShape EGraph.Mod4Facts
  EGraph.HashconsAbs EGraph.HashconsFacts EGraph.Rewrite EGraph.RewriteFacts EGraph.MatchDefs EGraph.MatchMachine
  EGraph.ProgressFacts EGraph.MatchFacts EGraph.SoundUnion EGraph.MonotoneFacts EGraph.MatchLookup
  EGraph.NodeCong EGraph.KidEqFacts EGraph.ShapeCong EGraph.CongruenceFacts EGraph.MatchComplete
  EGraph.MatchReprFix EGraph.MatchReprAlg EGraph.StoredLive EGraph.KidsFacts EGraph.PendingFacts EGraph.SoundAddExpr
  EGraph.MatchReprFacts EGraph.MatchReprDeep EGraph.MatchReprAllDefs EGraph.MatchReprAllRen EGraph.MatchReprAllK1
  EGraph.MatchReprAllTop EGraph.SelfSymFacts EGraph.OpsPreFacts EGraph.StaticFacts EGraph.SoundStruct EGraph.RepFacts
  EGraph.MatchEmbedDefs EGraph.MatchEmbedEq EGraph.MatchEmbed EGraph.MatchCompleteAll
  EGraph.MatchEmbedReprWv EGraph.MatchEmbedReprListed EGraph.MatchEmbedReprLk EGraph.MatchEmbedReprExt
  EGraph.MatchEmbedReprData EGraph.MatchEmbedReprNode.
Require Import ZArith Lia ZifyBool ZifyN ZifyNat.

Local Notation "a ** b" := (compose_partial a b) (at level 40, left associativity).

(* ------------------------------------------------------------------ *)
(* 0. the premises on the pattern *)

Fixpoint pat_null (p : pattern) : Prop :=
  match p with
  | PNode n ch => nullify n = n /\ (fix go (l : list pattern) : Prop := match l with [] => True | c :: t => pat_null c /\ go t end) ch
  | _ => True
  end.

Lemma pat_null_node : forall n ch, pat_null (PNode n ch) -> nullify n = n /\ Forall pat_null ch.
Proof.
  intros n ch [H1 H2]. split; [exact H1|]. induction ch as [|c t IH]; [constructor|]. destruct H2 as [Hc Ht].
  constructor; [exact Hc|exact (IH Ht)].
Qed.

Lemma node_scopeb_node : forall n ch, node_scopeb (PNode n ch) = true ->
  (forall x, In x (pub_occ n) -> ~ In x (binders n)) /\ Forall (fun c => node_scopeb c = true) ch.
Proof.
  intros n ch H. cbn [node_scopeb] in H. apply andb_true_iff in H. destruct H as [H1 H2]. split.
  - intros x Hx Hb. rewrite forallb_forall in H1. specialize (H1 x Hx). apply negb_true_iff in H1.
    assert (existsb (N.eqb x) (binders n) = true) by (apply existsb_exists; exists x; split; [exact Hb|apply N.eqb_refl]). congruence.
  - induction ch as [|c t IH]; [constructor|]. apply andb_true_iff in H2. destruct H2 as [Hc Ht]. constructor; [exact Hc|exact (IH Ht)].
Qed.

Lemma lookup_kids_inv : forall s sb ch l, lookup_kids s sb ch = Ok (Some l) ->
  Forall2 (fun p a => lookup_pat s p sb = Ok (Some a)) ch l.
Proof.
  intros s sb. induction ch as [|c t IH]; intros l H; cbn [lookup_kids] in H.
  - inversion H; subst. constructor.
  - destruct (lookup_pat s c sb) as [[a|]|e] eqn:E; cbn [bind] in H; try discriminate.
    destruct (lookup_kids s sb t) as [[r|]|e] eqn:E2; cbn [bind] in H; try discriminate.
    inversion H; subst. constructor; [exact E|apply IH; reflexivity].
Qed.

Lemma Forall2_in_l : forall {A B} (R : A -> B -> Prop) l1 l2 x, Forall2 R l1 l2 -> In x l1 -> exists y, In y l2 /\ R x y.
Proof.
  intros A B R l1 l2 x F. induction F as [|a b t1 t2 Hab _ IH]; intros H; [contradiction|].
  destruct H as [<-|H]; [exists b; split; [left; reflexivity|exact Hab]|].
  destruct (IH H) as (y & Hy & Ry). exists y. split; [right; exact Hy|exact Ry].
Qed.

Lemma F2_len : forall {A B} {R : A -> B -> Prop} {l1 l2}, Forall2 R l1 l2 -> List.length l1 = List.length l2.
Proof. intros A B R l1 l2 F. induction F; cbn [List.length]; [reflexivity|]. f_equal. assumption. Qed.

Lemma F2_flip : forall {A B} {R : A -> B -> Prop} {l1 l2}, Forall2 R l1 l2 -> Forall2 (fun b a => R a b) l2 l1.
Proof. intros A B R l1 l2 F. induction F; constructor; assumption. Qed.

Lemma id_compose_keys : forall (S : sset) m, wf m -> keys m = S -> identity S ** m = m.
Proof.
  intros S m W K. apply ext_eq; [apply compose_partial_wf|exact W|]. intros k.
  rewrite get_compose_partial by apply identity_wf. rewrite get_identity.
  destruct (sset_mem k S) eqn:E; [reflexivity|].
  destruct (get m k) as [v|] eqn:G; [|reflexivity]. exfalso.
  assert (Hk : In k (keys m)) by (apply keys_spec; congruence). rewrite K in Hk. apply (proj2 (sset_mem_in _ _)) in Hk. congruence.
Qed.

(* ------------------------------------------------------------------ *)
(* 1. the induction *)

Section Gen.
  Variable s : egraph.
  Hypothesis MI : match_inv s.
  Hypothesis SS : ss_ok s.
  Hypothesis S2 : stored2 s.
  Hypothesis NR : no_redundant s.
  Variable theta : slotmap.
  Variable zeta : subst.
  Hypothesis Wth : wf theta.
  Hypothesis Bth : is_bijection theta = true.
  Hypothesis Zcov : forall v c, sub_get zeta v = Some c -> covers s c.

  Let Ith : injective theta := is_bijection_inj theta Bth.

  Definition Fr (p : pattern) (a : appid) : Prop :=
    forall x y, In x (pbinders p) -> get theta x = Some y -> ~ In y (values_vec (am a)).

  Lemma good_s : good s.
  Proof. destruct MI as [I3 K0 M4 Hhc Hpe Hlv]. split; [split; [exact I3|split; [exact Hpe|split; [exact Hhc|exact M4]]]|exact SS]. Qed.

  Lemma EIs : eg_inv s.
  Proof. destruct MI as [I3 _ _ _ _ _]. destruct I3 as [[EI _] _]. exact EI. Qed.

  (* a represented node pattern is represented by a canonical leader invocation of a live class *)
  Lemma lookup_pat_ckid : forall n ch a, lookup_pat s (PNode n ch) zeta = Ok (Some a) -> In (aid a) (ids s) /\ ckid s a.
  Proof.
    intros n ch a H. rewrite lookup_pat_node in H. destruct (negb _); [discriminate|].
    destruct (lookup_kids s zeta ch) as [[l|]|e]; cbn [bind] in H; try discriminate.
    exact (lookup_ckid s _ a MI H).
  Qed.

  Lemma lookup_pat_covers : forall q c, lookup_pat s (pren theta q) zeta = Ok (Some c) -> covers s c.
  Proof.
    intros [n ch|v|b x t] c H.
    - rewrite pren_node in H. exact (canon_covers _ _ (proj2 (proj2 (lookup_pat_ckid _ _ _ H)))).
    - cbn [pren lookup_pat] in H. inversion H as [G]. exact (Zcov v c G).
    - cbn [pren lookup_pat] in H. discriminate.
  Qed.

  Lemma ckid_find : forall c, ckid s c -> find_applied_id s c = Ok c.
  Proof. intros c [Lc _]. exact (lkid_fixed s c (ei_uf _ EIs) Lc). Qed.

  (* canonical forms of the children *)
  Lemma finds : forall cs, Forall (covers s) cs ->
    exists js0, Forall2 (fun c j => find_applied_id s c = Ok j /\ ckid s j) cs js0.
  Proof.
    induction cs as [|c t IH]; intros F; [exists []; constructor|]. inversion F as [|? ? Cc Ct]; subst.
    destruct (IH Ct) as (r & Hr).
    destruct (covers_find_ok s c (ei_uf _ EIs) (ei_slots _ EIs) Cc) as (j & Fj & Nj).
    exists (j :: r). constructor; [|exact Hr]. split; [exact Fj|]. split; [exact (found_lkid s c j EIs Fj)|exact Nj].
  Qed.

  Lemma ckid_kid_ok : forall a, ckid s a -> kid_ok s a.
  Proof. intros a [_ Ca]. split; [exact (canon_covers _ _ Ca)|exact (proj1 (canon_parts _ _ Ca))]. Qed.

  Lemma ckid_eq_values : forall a b, ckid s a -> ckid s b -> eg_eq s a b = Ok true ->
    forall x, In x (values_vec (am a)) -> In x (values_vec (am b)).
  Proof. intros a b [La _] [Lb _] E. exact (eg_eq_values_sub s a b EIs La Lb E). Qed.

  (* rn tau a is again a canonical leader invocation *)
  Lemma ckid_rn : forall tau a, ckid s a -> wf tau -> injective tau ->
    (forall x, In x (values_vec (am a)) -> get tau x <> None) -> ckid s (rn tau a).
  Proof.
    intros tau a [La Ca] Wt It Dt. apply lkid_covers_ckid.
    - destruct La as (e & c & He & Hae & Hc & Hg & Ke & Wa & Ka). exists e, c. unfold rn. cbn [aid am].
      split; [exact He|]. split; [exact Hae|]. split; [exact Hc|]. split; [exact Hg|]. split; [exact Ke|].
      split; [apply compose_partial_wf|]. intros k Hk. apply Ka. rewrite get_compose_partial in Hk by exact Wa.
      destruct (get (am a) k); [discriminate|exact Hk].
    - apply covers_rn; [exact (canon_covers _ _ Ca)|exact (proj1 (canon_parts _ _ Ca))|exact Wt|exact It|exact Dt].
  Qed.

  (* THE THEOREM *)
  Definition gen_ok (p : pattern) : Prop :=
    pat_null p -> node_scopeb p = true -> NoDup (pbinders p) -> (forall x, In x (pslots p) -> get theta x <> None) ->
    forall a, lookup_pat s (pren theta p) zeta = Ok (Some a) -> Fr p a ->
    exists j, ckid s j /\ eg_eq s j a = Ok true /\ emb_at s theta zeta p j.

  (* the children *)
  Lemma kids_gen : forall ch cs, Forall gen_ok ch ->
    Forall pat_null ch -> Forall (fun c => node_scopeb c = true) ch -> NoDup (flat_map pbinders ch) ->
    (forall x, In x (flat_map pslots ch) -> get theta x <> None) ->
    Forall2 (fun q c => lookup_pat s (pren theta q) zeta = Ok (Some c)) ch cs ->
    (forall q c, In q ch -> In c cs -> lookup_pat s (pren theta q) zeta = Ok (Some c) -> Fr q c) ->
    exists js, Forall2 (fun c j => ckid s j /\ eg_eq s j c = Ok true) cs js /\ Forall2 (emb_at s theta zeta) ch js.
  Proof.
    intros ch cs IH. revert cs. induction IH as [|q ch' Hq _ IHl]; intros cs PN NS ND DT FL H8.
    - inversion FL; subst. exists []. split; constructor.
    - inversion FL as [|? c ? cs' Hqc FL']; subst. cbn [flat_map] in ND, DT.
      inversion PN as [|? ? PNq PNt]; subst. inversion NS as [|? ? NSq NSt]; subst.
      destruct (Hq PNq NSq (nodup_app_l _ _ ND) (fun x Hx => DT x (in_or_app _ _ _ (or_introl Hx))) c Hqc
                  (H8 q c (or_introl eq_refl) (or_introl eq_refl) Hqc)) as (j & Cj & Ej & Aj).
      destruct (IHl cs' PNt NSt (nodup_app_r _ _ ND) (fun x Hx => DT x (in_or_app _ _ _ (or_intror Hx))) FL') as (js & F1 & F2).
      { intros q' c' Hq' Hc' L'. exact (H8 q' c' (or_intror Hq') (or_intror Hc') L'). }
      exists (j :: js). split; constructor; auto.
  Qed.

  Theorem emb_gen : forall p, gen_ok p.
  Proof.
    induction p as [v|n ch IH|pb px pt _ _ _] using pattern_ind2; intros PN NS ND DT a L FR.
    - (* variable *)
      cbn [pren lookup_pat] in L. inversion L as [G]. pose proof (Zcov v a G) as Ca.
      destruct (covers_find_ok s a (ei_uf _ EIs) (ei_slots _ EIs) Ca) as (j & Fj & Nj).
      pose proof (kid_eq_find s a j EIs Ca Fj) as (_ & Cj & Eaj).
      pose proof (eg_eq_sym_true s a j EIs Ca Cj Eaj) as Eja.
      exists j. split; [split; [exact (found_lkid s a j EIs Fj)|exact Nj]|]. split; [exact Eja|].
      intros i rho0 Cki Def Ej. cbn [emb]. exists a. split; [exact G|]. split; [exact Def|]. rewrite Ej. exact Eja.
    - (* node *)
      pose proof MI as [I3 K0 M4f Hhc Hpe Hlv].
      destruct (pat_null_node n ch PN) as [Nul PNc]. destruct (node_scopeb_node n ch NS) as [Sepn NSc].
      rewrite pbinders_node in ND. rewrite pslots_node in DT.
      assert (Dth : forall x, In x (all_occ n) -> get theta x <> None).
      { intros x Hx. apply DT. apply in_or_app. left; exact Hx. }
      assert (NDn : NoDup (binders n)) by exact (nodup_app_l _ _ ND).
      rewrite pren_node, lookup_pat_node in L.
      destruct (negb (Nat.eqb (List.length (map (pren theta) ch)) (List.length (app_occ (RenameFacts.ren (g_of theta) n))))) eqn:El;
        [discriminate|].
      apply negb_false_iff, Nat.eqb_eq in El. rewrite map_length, app_occ_ren_len in El.
      destruct (lookup_kids s zeta (map (pren theta) ch)) as [[cs|]|e] eqn:Lk; cbn [bind] in L; try discriminate.
      pose proof (Forall2_map_l _ _ _ _ (lookup_kids_inv _ _ _ _ Lk)) as FL. cbv beta in FL.
      pose proof (F2_len FL) as Lcs.
      set (M := RenameFacts.ren (g_of theta) n) in *.
      assert (LM : List.length (app_occ M) = List.length (app_occ n)) by (unfold M; apply app_occ_ren_len).
      assert (EbM : binders M = map (g_of theta false) (binders n)) by (unfold M; apply ren_binders).
      assert (Ccs : Forall (covers s) cs).
      { apply Forall_forall. intros c Hc. destruct (Forall2_in_l _ _ _ _ (F2_flip FL) Hc) as (q & _ & Hq).
        exact (lookup_pat_covers q c Hq). }
      assert (NDM : NoDup (binders M)).
      { rewrite EbM. apply NoDup_map_inj_on; [|exact NDn]. intros x y Hx Hy E.
        destruct (get theta x) as [u|] eqn:Gx; [|exfalso; exact (Dth x (binders_all_occ _ _ Hx) Gx)].
        destruct (get theta y) as [w|] eqn:Gy; [|exfalso; exact (Dth y (binders_all_occ _ _ Hy) Gy)].
        rewrite (g_of_some _ _ _ _ Gx), (g_of_some _ _ _ _ Gy) in E. subst w. exact (Ith _ _ _ Gx Gy). }
      pose proof (lookup_ckid s _ a MI L) as [Hia Cka].
      (* (a) canonical children: the public slots of the looked-up node are slots of a *)
      destruct (finds cs Ccs) as (js0 & Fjs0).
      assert (PubA : forall l, List.length l = List.length cs -> Forall (ckid s) l ->
                Forall2 (fun c j => eg_eq s c j = Ok true) cs l ->
                exists a', MatchMachine.eg_lookup s (set_apps M l) = Ok (Some a') /\ ckid s a' /\ eg_eq s a a' = Ok true /\
                  (forall y, In y (values_vec (am a')) -> In y (values_vec (am a))) /\
                  (forall y, In y (pub_occ (set_apps M l)) -> In y (values_vec (am a)))).
      { intros l Ll Kl El2.
        assert (KE : Forall2 (kid_eq s) (app_occ (set_apps M cs)) l).
        { rewrite app_occ_set_apps by lia. clear - El2 Ccs Kl. induction El2 as [|c j t1 t2 Hcj _ IHe]; [constructor|].
          inversion Ccs; subst. inversion Kl as [|? ? [_ Kj] Kt]; subst.
          constructor; [split; [assumption|split; [exact (canon_covers _ _ Kj)|exact Hcj]]|apply IHe; assumption]. }
        destruct (lookup_kid_eq s (set_apps M cs) l a good_s) as (a' & La' & Eaa').
        { rewrite binders_set_apps by lia. exact NDM. }
        { exact KE. }
        { exact L. }
        rewrite set_apps_twice in La' by lia.
        pose proof (lookup_ckid s _ a' MI La') as [_ Cka'].
        exists a'. split; [exact La'|]. split; [exact Cka'|]. split; [exact Eaa'|].
        assert (V : forall y, In y (values_vec (am a')) -> In y (values_vec (am a))).
        { apply ckid_eq_values; [exact Cka'|exact Cka|].
          apply eg_eq_sym_true; [exact EIs|exact (canon_covers _ _ (proj2 Cka))|exact (canon_covers _ _ (proj2 Cka'))|exact Eaa']. }
        split; [exact V|]. intros y Hy. apply V.
        apply (lookup_pub_values s (set_apps M l) a' MI S2 NR); [|exact La'|exact Hy].
        intros b Hb. rewrite app_occ_set_apps in Hb by lia. exact (proj1 (Forall_forall _ _) Kl b Hb). }
      destruct (PubA js0) as (a0 & La0 & Cka0 & Ea0 & _ & Pub0).
      { symmetry. exact (F2_len Fjs0). }
      { apply Forall_forall. intros j Hj. destruct (Forall2_in_l _ _ _ _ (F2_flip Fjs0) Hj) as (c & _ & _ & Kj). exact Kj. }
      { pose proof EIs as EI0. clear - Fjs0 Ccs EI0. induction Fjs0 as [|c j t1 t2 [Fj _] _ IHf]; [constructor|]. inversion Ccs; subst.
        constructor; [exact (proj2 (proj2 (kid_eq_find s c j EI0 ltac:(assumption) Fj)))|apply IHf; assumption]. }
      (* (b) the premise Fr for the children *)
      assert (H8 : forall q c, In q ch -> In c cs -> lookup_pat s (pren theta q) zeta = Ok (Some c) -> Fr q c).
      { intros q c Hq Hc Lq x y Hx Gx Hy.
        destruct q as [nq chq|v|b1 b2 b3]; [|contradiction|contradiction].
        rewrite pren_node in Lq. destruct (lookup_pat_ckid _ _ _ Lq) as [_ Ckc].
        destruct (Forall2_in_l _ _ _ _ Fjs0 Hc) as (j & Hj & Fj & _). rewrite (ckid_find c Ckc) in Fj. inversion Fj; subst j.
        assert (Hall : In y (all_occ (set_apps M js0))).
        { apply (all_occ_app_val _ c y); [|exact Hy]. rewrite app_occ_set_apps; [exact Hj|].
          rewrite <- (F2_len Fjs0). lia. }
        destruct (all_occ_pub_or_binder _ _ Hall) as [Hp|Hb].
        - apply (FR x y); [rewrite pbinders_node; apply in_or_app; right; apply in_flat_map; exists (PNode nq chq); split; [exact Hq|exact Hx]
                          |exact Gx|exact (Pub0 y Hp)].
        - rewrite binders_set_apps in Hb by (rewrite <- (F2_len Fjs0); lia). rewrite EbM in Hb.
          apply in_map_iff in Hb. destruct Hb as (b & Eb & Hb).
          destruct (get theta b) as [w|] eqn:Gb; [|exact (Dth b (binders_all_occ _ _ Hb) Gb)].
          rewrite (g_of_some _ _ _ _ Gb) in Eb. subst w. pose proof (Ith _ _ _ Gx Gb) as E. subst b.
          apply (nodup_app_dis _ _ ND x Hb). apply in_flat_map. exists (PNode nq chq). split; [exact Hq|exact Hx]. }
      (* (c) the induction hypothesis for the children *)
      destruct (kids_gen ch cs IH PNc NSc (nodup_app_r _ _ ND) (fun x Hx => DT x (in_or_app _ _ _ (or_intror Hx))) FL H8)
        as (js & Fjs & Fem).
      pose proof (F2_len Fjs) as Ljs.
      assert (Kjs : Forall (ckid s) js).
      { apply Forall_forall. intros j Hj. destruct (Forall2_in_l _ _ _ _ (F2_flip Fjs) Hj) as (c & _ & Kj & _). exact Kj. }
      destruct (PubA js) as (a' & La' & Cka' & Ea' & Va' & Pub').
      { lia. }
      { exact Kjs. }
      { pose proof EIs as EI0. clear - Fjs Ccs EI0. induction Fjs as [|c j t1 t2 [Kj Ej] _ IHf]; [constructor|]. inversion Ccs; subst.
        constructor; [|apply IHf; assumption].
        apply eg_eq_sym_true; [exact EI0|exact (canon_covers _ _ (proj2 Kj))|assumption|exact Ej]. }
      set (N' := set_apps M js) in *.
      assert (EbN : binders N' = binders M) by (unfold N'; apply binders_set_apps; lia).
      assert (CN : cleanp N').
      { split; [rewrite EbN; exact NDM|]. intros y Hp Hb. rewrite EbN, EbM in Hb.
        apply in_map_iff in Hb. destruct Hb as (b & Eb & Hb).
        destruct (get theta b) as [w|] eqn:Gb; [|exact (Dth b (binders_all_occ _ _ Hb) Gb)].
        rewrite (g_of_some _ _ _ _ Gb) in Eb. subst w.
        apply (FR b y); [rewrite pbinders_node; apply in_or_app; left; exact Hb|exact Gb|exact (Pub' y Hp)]. }
      assert (KN : forall b, In b (app_occ N') -> ckid s b).
      { intros b Hb. unfold N' in Hb. rewrite app_occ_set_apps in Hb by lia. exact (proj1 (Forall_forall _ _) Kjs b Hb). }
      destruct (lookup_node_data s N' a' MI KN CN La')
        as (sh & bn & c & cb & src & p & V2 & wv & u & shu & shN & tau & Hca & Hin & Wa & Ham & Hval & _ & Wp & Cp & Kp & Fp & Bp & Bu &
            HV2 & HNV & HuV & Ppu & Hwv & Hu & Wu & WN & Efst & Cu & Htau & Etau).
      destruct shu as [shu bu], shN as [shN bN]. cbn [fst] in Efst. subst shN.
      pose proof (same_ws_skel _ _ _ _ _ Wu WN) as Sku.
      pose proof (node_at s MI SS S2 NR theta zeta Ith n ch js N' a' sh bn c cb src p V2 wv u tau
                    Nul Dth Sepn ltac:(lia) eq_refl Hca Hin Wa Ham Wp Cp Bp Bu HV2 Hwv Hu Htau Sku Etau Fem) as AT.
      destruct (pos_facts u N' tau Htau Sku) as (Wt & Bt & It & Deft).
      assert (Dta : forall x, In x (values_vec (am a')) -> get tau x <> None).
      { intros x Hx. unfold values_vec in Hx. apply in_map_iff in Hx. destruct Hx as ([k x'] & Ex & Hkx). cbn [snd] in Ex. subst x'.
        destruct (Hval k x (in_get _ _ _ Wa Hkx)) as [_ Hp]. destruct (Deft x (pub_occ_all_occ _ _ (Ppu x Hp))) as (z & Gz).
        rewrite Gz. discriminate. }
      pose proof (ckid_rn tau a' Cka' Wt It Dta) as Ckj.
      exists (rn tau a'). split; [exact Ckj|]. split; [|exact AT].
      (* eg_eq s (rn tau a') a *)
      assert (Cov' : covers s a') by exact (canon_covers _ _ (proj2 Cka')).
      assert (Cova : covers s a) by exact (canon_covers _ _ (proj2 Cka)).
      assert (Covj : covers s (rn tau a')) by exact (canon_covers _ _ (proj2 Ckj)).
      apply (eg_eq_trans_true s (rn tau a') a' a EIs Covj Cov' Cova);
        [|apply eg_eq_sym_true; [exact EIs|exact Cova|exact Cov'|exact Ea']].
      (* u is a group variant of N': its lookup is eg_eq to a', and a' = rn tau (lookup u) *)
      assert (FN : find_enode s N' = Ok N').
      { unfold find_enode. rewrite (mapr_id (find_applied_id s) (app_occ N')).
        - cbn [bind]. rewrite set_apps_self. reflexivity.
        - intros b Hb. exact (ckid_find b (KN b Hb)). }
      destruct (orbit_same_set s p V2 N' EIs Fp HV2 HNV) as (_ & V3 & HV3 & Hset).
      pose proof (proj1 (Hset u) HuV) as HuV3.
      destruct (variants_kid_eq s N' V3 u EIs (fun b Hb => conj (proj2 (KN b Hb)) (proj1 (KN b Hb))) HV3 HuV3) as (Eu & Lenu & Ku).
      destruct (lookup_kid_eq s N' (app_occ u) a' good_s) as (au & Lau & Eau).
      { rewrite EbN. exact NDM. }
      { exact Ku. }
      { exact La'. }
      rewrite <- Eu in Lau.
      pose proof (lookup_ckid s u au MI Lau) as [_ Ckau].
      assert (Dtu : forall x, In x (values_vec (am au)) -> get tau x <> None).
      { intros x Hx. apply Dta. apply (ckid_eq_values au a' Ckau Cka'); [|exact Hx].
        apply eg_eq_sym_true; [exact EIs|exact Cov'|exact (canon_covers _ _ (proj2 Ckau))|exact Eau]. }
      assert (ROu : ren_ok (g_of tau) u).
      { apply ren_ok_flagless; [exact It| |exact (proj2 Cu)].
        intros x Hx. destruct (Deft x Hx) as (z & Gz). rewrite Gz. discriminate. }
      destruct (lookup_ren_out s tau u au ROu Dtu Lau) as (a2 & La2 & Ea2). rewrite Etau, La' in La2.
      assert (Ea'' : a' = rn tau au) by (change (rn tau au) with (out_of tau au); congruence). rewrite Ea'' at 2.
      rewrite (eg_eq_rn_cancel s tau a' au EIs It (ckid_kid_ok _ Cka') (ckid_kid_ok _ Ckau) Dta Dtu). exact Eau.
    - (* PSubst: never represented *)
      cbn [pren lookup_pat] in L. discriminate.
  Qed.
End Gen.

(* ------------------------------------------------------------------ *)
(* 2. the root: `repr_emb` with the two missing premises *)

Definition inst_ok2 (s : egraph) (p : pattern) (theta : slotmap) (zeta : subst) : Prop :=
  inst_ok s p theta zeta /\ forall x, In x (pslots p) -> get theta x <> None.

Definition repr_emb2 (s : egraph) : Prop :=
  forall p theta zeta a, pat_ok s p -> pat_null p -> inst_ok2 s p theta zeta -> fresh_binders p theta a ->
    lookup_pat s (pren theta p) zeta = Ok (Some a) -> emb_root s theta zeta p a.

Theorem repr_emb_proved : forall s, match_inv s -> stored2 s -> ss_ok s -> no_redundant s -> repr_emb2 s.
Proof.
  intros s MI S2 SS NR p theta zeta a PO PN [(Wth & Bth & Zc) DT] FB L.
  pose proof MI as [I3 K0 M4f Hhc Hpe Hlv]. pose proof (m4_cls4 _ M4f) as M4.
  assert (EI : eg_inv s) by (destruct I3 as [[EI _] _]; exact EI).
  destruct PO as (Hnode & BS & PB). unfold bind_scopeb in BS. apply andb_true_iff in BS. destruct BS as [BS _].
  apply andb_true_iff in BS. destruct BS as [ND NS]. apply nodupb_NoDup in ND.
  destruct (emb_gen s MI SS S2 NR theta zeta Bth Zc p PN NS ND DT a L) as (j & Ckj & Eja & AT).
  { intros x y Hx Gx. exact (FB x y Hx Gx). }
  destruct p as [n ch|v|b1 b2 b3]; try contradiction. rewrite pren_node in L.
  destruct (lookup_pat_ckid s MI zeta _ _ a L) as [Hia Cka].
  pose proof Ckj as [Lj Cj]. pose proof Cj as (c & Hcj & Gc & Wj & Bj & Kj).
  assert (Eid : aid j = aid a).
  { destruct (eg_eq_true_inv _ _ _ Eja) as (j' & a' & c' & Fj & Fa & Eid & _).
    rewrite (lkid_fixed s j (ei_uf _ EI) Lj) in Fj. rewrite (lkid_fixed s a (ei_uf _ EI) (proj1 Cka)) in Fa.
    inversion Fj; inversion Fa; subst. exact Eid. }
  assert (Hc : get_class s (aid a) = Ok c) by (rewrite <- Eid; exact Hcj).
  assert (Ij : injective (am j)) by exact (proj2 (proj2 (canon_parts _ _ Cj))).
  assert (Erj : rn (am j) {| aid := aid a; am := identity (c_slots c) |} = j).
  { unfold rn. cbn [aid am]. rewrite (id_compose_keys _ _ Wj Kj), <- Eid. destruct j; reflexivity. }
  destruct (root_inv_i s s (aid a) c I3 M4 Hia Hc (sg_ge_refl s)) as [Ckid _].
  split; [exact Hia|]. exists c, (am j). split; [exact Hc|]. split; [exact Wj|]. split; [exact Ij|]. split.
  { intros k v G. rewrite <- Kj. apply keys_spec. rewrite G. discriminate. }
  split.
  { intros k Hk. apply keys_spec. rewrite Kj. exact Hk. }
  split.
  { intros k v x G Hx Gx. apply (FB x v Hx Gx).
    apply (eg_eq_values_sub s j a EI Lj (proj1 Cka) Eja). exact (get_values_vec _ _ _ G). }
  split; [rewrite Erj; exact Eja|]. split; [exact (proj1 Ckid)|].
  apply (AT _ (am j) Ckid); [|exact Erj].
  cbn [am]. intros x Hx. unfold values_vec in Hx. apply in_map_iff in Hx. destruct Hx as ([k x'] & Ex & Hkx).
  apply in_identity in Hkx. destruct Hkx as [<- Hk]. cbn [snd] in Ex. subst x. apply keys_spec. rewrite Kj. exact Hk.
Qed.

(* ------------------------------------------------------------------ *)
(* 3. THE UNCONDITIONAL THEOREMS *)

Theorem nested_complete_proved : forall s p theta zeta, match_inv s -> stored2 s -> ss_ok s -> no_redundant s ->
  pat_ok s p -> pat_null p -> inst_ok2 s p theta zeta -> complete_fresh s p theta zeta.
Proof.
  intros s p theta zeta MI S2 SS NR PO PN IO a Ha Fr l s' E.
  pose proof MI as [I3 K0 M4 Hhc Hpe Hlv]. pose proof I3 as [[Hs _] _].
  pose proof IO as [(Wth & Bth & Zc) _].
  apply (emb_complete s theta zeta Hs Wth Bth Zc p a (pat_ok_nodup s p PO) (pat_below_of s p PO)); [| |exact E].
  - intros i c z Hc Hz. exact (proj2 (class_facts s I3 (m4_cls4 _ M4) i c Hc) z Hz).
  - exact (repr_emb_proved s MI S2 SS NR p theta zeta a PO PN IO Fr Ha).
Qed.

Corollary nested_complete_ematch_all_proved : forall s p theta zeta, match_inv s -> stored2 s -> ss_ok s -> no_redundant s ->
  pat_ok s p -> pat_null p -> inst_ok2 s p theta zeta ->
  forall a, lookup_pat s (pren theta p) zeta = Ok (Some a) -> fresh_binders p theta a ->
  forall l s', ematch_all p s = Ok (l, s') ->
  exists sb r, In sb l /\ mr_sb r = sb /\ describes s' p theta zeta a r.
Proof.
  intros s p theta zeta MI S2 SS NR PO PN IO a Ha Fr l s' E. rewrite ematch_all_r_spec in E.
  destruct (ematch_all_r p s) as [[lr s1]|e] eqn:Er; cbn [mmap] in E; [|discriminate].
  inversion E; subst l s1.
  destruct (nested_complete_proved s p theta zeta MI S2 SS NR PO PN IO a Ha Fr lr s' Er) as (r & Hr & D).
  exists (mr_sb r), r. split; [apply in_map; exact Hr|]. split; [reflexivity|exact D].
Qed.

(* every state of a run over static terms without redundant slot *)
Corollary nested_complete_reachable_proved : forall terms ops hs s p theta zeta, Forall term_static terms ->
  run_ops terms ops [] empty_egraph = Ok (hs, s) -> no_redundant s ->
  pat_ok s p -> pat_null p -> inst_ok2 s p theta zeta -> complete_fresh s p theta zeta.
Proof.
  intros terms ops hs s p theta zeta HT Hrun NR.
  apply nested_complete_proved; [exact (match_inv_reachable_static terms ops hs s HT Hrun)|
                                 exact (reachable_stored2 terms ops hs s Hrun)|
                                 exact (ss_ok_reachable_static terms ops hs s HT Hrun)|exact NR].
Qed.

(* completeness AND firing *)
Theorem nested_complete_and_fires_proved : forall s rl theta zeta b1 s1, match_inv s -> stored2 s -> ss_ok s -> no_redundant s ->
  pat_ok s (r_lhs rl) -> pat_null (r_lhs rl) -> inst_ok2 s (r_lhs rl) theta zeta -> r_cond rl = None ->
  forall a0, lookup_pat s (pren theta (r_lhs rl)) zeta = Ok (Some a0) -> fresh_binders (r_lhs rl) theta a0 ->
  apply_rewrites [rl] s = Ok (b1, s1) ->
  exists l s' sb r, ematch_all (r_lhs rl) s = Ok (l, s') /\ In sb l /\ mr_sb r = sb /\
    describes s' (r_lhs rl) theta zeta a0 r /\
    exists t a b t1 t2, qstep s t /\
      pattern_subst (r_lhs rl) sb t = Ok (a, t1) /\ pattern_subst (r_rhs rl) sb t1 = Ok (b, t2) /\
      covers s1 a /\ covers s1 b /\ eg_eq s1 a b = Ok true.
Proof.
  intros s rl theta zeta b1 s1 MI S2 SS NR PO PN IO Hc a0 Ha0 Fr Happ.
  pose proof MI as [I3 K0 M4 Hhc Hpe Hlv].
  destruct (apply_rewrites_fires rl s b1 s1 I3 K0 M4 (pat_below_of _ _ PO) Hc Happ) as (l & s' & Hm & Hf).
  destruct (nested_complete_ematch_all_proved s (r_lhs rl) theta zeta MI S2 SS NR PO PN IO a0 Ha0 Fr l s' Hm) as (sb & r & Hin & Hr & D).
  exists l, s', sb, r. split; [exact Hm|]. split; [exact Hin|]. split; [exact Hr|]. split; [exact D|exact (Hf sb Hin)].
Qed.

Corollary nested_complete_and_fires_reachable_proved : forall terms ops hs s rl theta zeta b1 s1, Forall term_static terms ->
  run_ops terms ops [] empty_egraph = Ok (hs, s) -> no_redundant s ->
  pat_ok s (r_lhs rl) -> pat_null (r_lhs rl) -> inst_ok2 s (r_lhs rl) theta zeta -> r_cond rl = None ->
  forall a0, lookup_pat s (pren theta (r_lhs rl)) zeta = Ok (Some a0) -> fresh_binders (r_lhs rl) theta a0 ->
  apply_rewrites [rl] s = Ok (b1, s1) ->
  exists l s' sb r, ematch_all (r_lhs rl) s = Ok (l, s') /\ In sb l /\ mr_sb r = sb /\
    describes s' (r_lhs rl) theta zeta a0 r /\
    exists t a b t1 t2, qstep s t /\
      pattern_subst (r_lhs rl) sb t = Ok (a, t1) /\ pattern_subst (r_rhs rl) sb t1 = Ok (b, t2) /\
      covers s1 a /\ covers s1 b /\ eg_eq s1 a b = Ok true.
Proof.
  intros terms ops hs s rl theta zeta b1 s1 HT Hrun NR.
  apply nested_complete_and_fires_proved; [exact (match_inv_reachable_static terms ops hs s HT Hrun)|
                                           exact (reachable_stored2 terms ops hs s Hrun)|
                                           exact (ss_ok_reachable_static terms ops hs s HT Hrun)|exact NR].
Qed.

Print Assumptions emb_gen.
Print Assumptions repr_emb_proved.
Print Assumptions nested_complete_proved.
Print Assumptions nested_complete_ematch_all_proved.
Print Assumptions nested_complete_reachable_proved.
Print Assumptions nested_complete_and_fires_proved.
Print Assumptions nested_complete_and_fires_reachable_proved.
