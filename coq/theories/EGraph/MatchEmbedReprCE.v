(* EGraph/MatchEmbedReprCE.v — the Section hypothesis `H_emb` of MatchCompleteAll.v (Section Cond) is FALSE AS STATED.

   `inst_ok s p theta zeta` does not demand that theta is DEFINED on the slot names of the pattern (`pslots p`).
   `pren theta p` renames through `g_of theta`, the identity where theta is undefined; so with theta = [] the lookup of
   the pattern itself can hit (the instance is "represented"), while `describes` (MatchComplete.v) demands
       forall x, In x (pslots p) -> exists y, get theta x = Some y /\ get sigma x = Some y,
   which no match can satisfy for theta = [] and a pattern with a slot name.

   COUNTEREXAMPLE: the one-node e-graph s_ce = st_of [s1_7 $2] [HAdd 0] (static term, no redundant slot, ctr = 5),
   p_ce = PNode (nd_s1 7 2) []  (the leaf "s1_7 $2"; pslots = [2], no binder, no variable), theta = [], zeta = [].
   lookup_pat s_ce (pren [] p_ce) [] = Ok (Some {| aid := 0; am := [(1, 2)] |}), ematch_all_r reports one match, and
   `describes _ p_ce [] [] _ _` is unsatisfiable (get [] 2 = None).
   `H_emb_false` derives False from H_emb through `nested_complete_reachable` (so every conditional theorem of
   Section Cond is vacuous until `inst_ok` demands theta defined on `pslots p`).
   CROSS-CHECK `theta_defined_ok`: with theta = [(2, 2)] DEFINED on pslots p_ce the same instance on the same state
   is represented and matched (`complete_report` = Some (true, true)); with theta = [] it is (true, false). *)
From SE Require Import Slots.SlotMapFacts Group.GroupSound Lang.LangFacts Lang.ShapeFacts Lang.RenameFacts
  Base.TextFacts Parse.Parser EGraph.Model EGraph.ModelFacts EGraph.ModelMachine EGraph.UnionFindFacts
  EGraph.InvariantFacts EGraph.UnionInvariantFacts EGraph.AddCoversFacts EGraph.HashconsShape EGraph.Mod4Facts
  EGraph.HashconsAbs EGraph.HashconsFacts EGraph.Rewrite EGraph.RewriteFacts EGraph.MatchDefs EGraph.MatchMachine
  EGraph.ProgressFacts EGraph.MatchFacts EGraph.SoundUnion EGraph.MonotoneFacts EGraph.MatchLookup EGraph.MatchComplete
  EGraph.CongruenceFacts EGraph.MatchReprFacts EGraph.MatchReprDeep EGraph.SelfSymFacts EGraph.OpsPreFacts
  EGraph.MatchEmbedDefs EGraph.MatchEmbedEq EGraph.MatchEmbed EGraph.MatchCompleteAll EGraph.MatchEmbedCheck
  EGraph.StaticFacts.
Require Import ZArith Lia ZifyBool ZifyN ZifyNat.

(* ------------------------------------------------------------------ *)
(* 1. the concrete run, pattern and instance *)

Definition T_ce : list rterm := [xs1 7 2].
Definition O_ce : list hop := [HAdd 0].
Definition s_ce : egraph := Eval vm_compute in MatchLookup.st_of T_ce O_ce.
Definition hs_ce : list appid := [{| aid := 0; am := [(1, 2)] |}].
Definition p_ce : pattern := PNode (nd_s1 7 2) [].
Definition a_ce : appid := {| aid := 0; am := [(1, 2)] |}.

Example s_ce_is_st_of : s_ce = MatchLookup.st_of T_ce O_ce.
Proof. vm_compute. reflexivity. Qed.

Example run_ce : run_ops T_ce O_ce [] empty_egraph = Ok (hs_ce, s_ce).
Proof. vm_compute. reflexivity. Qed.

Example static_ce : Forall term_static T_ce.
Proof.
  apply Forall_forall. intros t Ht. apply term_staticb_sound.
  assert (F : forallb term_staticb T_ce = true) by (vm_compute; reflexivity).
  exact (proj1 (forallb_forall _ _) F t Ht).
Qed.

Example nonred_ce : no_redundant s_ce.
Proof. apply no_redundantb_sound. vm_compute. reflexivity. Qed.

Example pat_ok_ce : pat_ok s_ce p_ce.
Proof.
  split; [exact I|]. split; [vm_compute; reflexivity|].
  apply pat_belowb_sound. vm_compute. reflexivity.
Qed.

(* theta = [] is sorted and bijective; NOTHING forces it to be defined on pslots p_ce = [2] *)
Example inst_ok_ce : inst_ok s_ce p_ce [] [].
Proof.
  split; [exact I|]. split; [reflexivity|].
  intros v c Hv. cbn [sub_get] in Hv. discriminate.
Qed.

Example lookup_ce : lookup_pat s_ce (pren [] p_ce) [] = Ok (Some a_ce).
Proof. vm_compute. reflexivity. Qed.

Example fresh_ce : fresh_binders p_ce [] a_ce.
Proof. intros x y Hx. vm_compute in Hx. contradiction. Qed.

Example pslots_ce : pslots p_ce = [2].
Proof. vm_compute. reflexivity. Qed.

(* no match describes an instance whose theta is undefined on a slot name of the pattern *)
Lemma describes_undefined : forall s' p theta zeta a r x, In x (pslots p) -> get theta x = None ->
  ~ describes s' p theta zeta a r.
Proof.
  intros s' p theta zeta a r x Hx Hg (sigma & _ & Hsl & _).
  destruct (Hsl x Hx) as (y & Hy & _). rewrite Hg in Hy. discriminate.
Qed.

(* ------------------------------------------------------------------ *)
(* 2. H_emb is false *)

(* `complete_fresh` fails at this instance *)
Theorem complete_fresh_ce_false : ~ complete_fresh s_ce p_ce [] [].
Proof.
  intros C.
  destruct (ematch_all_r p_ce s_ce) as [[l s']|e] eqn:E; [|vm_compute in E; discriminate].
  destruct (C a_ce lookup_ce fresh_ce l s' E) as (r & _ & D).
  apply (describes_undefined s' p_ce [] [] a_ce r 2); [rewrite pslots_ce; left; reflexivity|reflexivity|exact D].
Qed.

Theorem H_emb_false : ~ (forall s, match_inv s -> ss_ok s -> no_redundant s -> repr_emb s).
Proof.
  intros H. apply complete_fresh_ce_false.
  exact (nested_complete_reachable H T_ce O_ce hs_ce s_ce p_ce [] [] static_ce run_ce nonred_ce pat_ok_ce inst_ok_ce).
Qed.

(* directly: the state satisfies all three premises of H_emb and `repr_emb s_ce` is false *)
Theorem repr_emb_ce_false : match_inv s_ce /\ ss_ok s_ce /\ no_redundant s_ce /\ ~ repr_emb s_ce.
Proof.
  pose proof (match_inv_reachable_static T_ce O_ce hs_ce s_ce static_ce run_ce) as MI.
  split; [exact MI|]. split; [exact (ss_ok_reachable_static T_ce O_ce hs_ce s_ce static_ce run_ce)|].
  split; [exact nonred_ce|]. intros HE. apply complete_fresh_ce_false.
  exact (complete_from_repr_emb s_ce p_ce [] [] MI HE pat_ok_ce inst_ok_ce).
Qed.

(* ------------------------------------------------------------------ *)
(* 3. cross-check: with theta DEFINED on pslots p_ce the instance is matched on the same state *)

Example theta_defined_ok :
  valid_stateb s_ce = true /\ has_redundant s_ce = Ok false /\
  lookup_pat s_ce (pren [(2, 2)] p_ce) [] = Ok (Some a_ce) /\
  complete_report s_ce p_ce [(2, 2)] [] = Some (true, true) /\
  complete_report s_ce p_ce [] [] = Some (true, false).
Proof. vm_compute. repeat split; reflexivity. Qed.

Print Assumptions H_emb_false.
Print Assumptions complete_fresh_ce_false.
Print Assumptions repr_emb_ce_false.
Print Assumptions describes_undefined.
Print Assumptions theta_defined_ok.
