(* EGraph/MatchEmbedReprChk.v — C04 nested, e-graph side: EXECUTABLE VALIDATION of the generalisation that
   MatchEmbedRepr.v proves by induction on the pattern.

   `jof s theta zeta p` computes, bottom-up, THE invocation j (over the instance's slot names) at which the instance of
   p is embedded:
     p = ?v     : find (zeta v)
     p = n(ch)  : js := jof of the children; N' := (ren theta n)[js]; a' := eg_lookup s N'; p' := pre_shape s N';
                  u' := the weak variant of p' that `weak_variants` keeps for the weak shape of N' itself;
                  tau := the positional renaming u' -> N';  j := rn tau a'.
   Claim validated here (and proved in MatchEmbedRepr.v): j is eg_eq to the lookup result a of the instance, and the
   instance is embedded at EVERY (i, rho0) with rn rho0 i = j; tested at i = the identity invocation, rho0 = am j
   (this ONE candidate instead of the search over all root candidates of `emb_rootb`), plain and adversarial flags. *)
From SE Require Import Slots.SlotMapFacts Group.GroupSound Lang.LangFacts Lang.ShapeFacts Lang.RenameFacts
  Base.TextFacts Parse.Parser EGraph.Model EGraph.ModelFacts EGraph.ModelMachine EGraph.UnionFindFacts
  EGraph.InvariantFacts EGraph.UnionInvariantFacts EGraph.AddCoversFacts EGraph.HashconsShape EGraph.Mod4Facts
  EGraph.HashconsAbs EGraph.HashconsFacts EGraph.Rewrite EGraph.RewriteFacts EGraph.MatchDefs EGraph.MatchMachine
  EGraph.ProgressFacts EGraph.MatchFacts EGraph.SoundUnion EGraph.MonotoneFacts EGraph.MatchLookup EGraph.MatchComplete
  EGraph.MatchReprDeep EGraph.MatchEmbedDefs EGraph.MatchEmbedCheck.
Require Import ZArith Lia ZifyBool ZifyN ZifyNat.

Local Notation "a ** b" := (compose_partial a b) (at level 40, left associativity).

Definition keptb (w2 : node) (u : node) : bool :=
  match wshape u with Ok sh => node_eqb (fst sh) w2 | Err _ => false end.

Definition jnode (s : egraph) (N' : node) : option appid :=
  match MatchMachine.eg_lookup s N', pre_shape s N', wshape N' with
  | Ok (Some a'), Ok p', Ok shN =>
      match weak_variants s p' with
      | Ok wvs =>
          match find (keptb (fst shN)) wvs with
          | Some u' =>
              match insert_all_bij (combine (all_occ u') (all_occ N')) [] with
              | Some tau => Some (rn tau a')
              | None => None
              end
          | None => None
          end
      | Err _ => None
      end
  | _, _, _ => None
  end.

Fixpoint jof (s : egraph) (theta : slotmap) (zeta : subst) (p : pattern) {struct p} : option appid :=
  match p with
  | PVarP v => match sub_get zeta v with
               | Some c => match find_applied_id s c with Ok j => Some j | Err _ => None end
               | None => None
               end
  | PNode n ch =>
      match (fix go (l : list pattern) : option (list appid) :=
               match l with
               | [] => Some []
               | c :: t => match jof s theta zeta c, go t with Some j, Some r => Some (j :: r) | _, _ => None end
               end) ch with
      | Some js => jnode s (set_apps (RenameFacts.ren (g_of theta) n) js)
      | None => None
      end
  | PSubst _ _ _ => None
  end.

(* the instance is embedded at the identity invocation of the class of j through rho0 = am j *)
Definition emb_jb (F : flags) (s : egraph) (theta : slotmap) (zeta : subst) (p : pattern) (a : appid) : bool :=
  match jof s theta zeta p with
  | Some j =>
      (aid j =? aid a) && eq_trueb (eg_eq s j a) &&
      match get_class s (aid j) with
      | Ok c =>
          root_structb s a c (am j) && avoidsb theta (pbinders p) (am j) &&
          match embb F s theta zeta p (idinv a c) (am j) s with Some _ => true | None => false end
      | Err _ => false
      end
  | None => false
  end.

Example J_nonred_lin : emb_counts (emb_jb F_all) lin_pats nonred_prefixes = (8768, 8768)%nat.
Proof. vm_compute. reflexivity. Qed.
Example J_nonred_rep : emb_counts (emb_jb F_all) rep_pats nonred_prefixes = (1304, 1304)%nat.
Proof. vm_compute. reflexivity. Qed.
Example J_nonred_rep1 : emb_counts (emb_jb F_all) rep1_pats nonred_prefixes = (1208, 1208)%nat.
Proof. vm_compute. reflexivity. Qed.
Example J_nonred_junk :
  emb_counts (emb_jb F_junk) lin_pats nonred_prefixes = (8768, 8768)%nat /\
  emb_counts (emb_jb F_junk) rep_pats nonred_prefixes = (1304, 1304)%nat /\
  emb_counts (emb_jb F_junk) rep1_pats nonred_prefixes = (1208, 1208)%nat.
Proof. vm_compute. repeat split; reflexivity. Qed.

Print Assumptions J_nonred_lin.
Print Assumptions J_nonred_junk.
