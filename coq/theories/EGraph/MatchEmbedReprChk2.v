(* EGraph/MatchEmbedReprChk2.v — the FALSE formulation, executably: "eg_eq s (rn rho0 i) a  ==>  emb s theta zeta p i rho0"
   (a precondition up to the class group only).  `all_candsb`: EVERY root candidate rho0 (all rho0 with
   eg_eq s (rn rho0 idinv) a that pass the structural conjuncts and `avoids`) embeds the instance.  On the 213 states
   without redundant slot this fails for some represented instances (counts below), while the ONE candidate `am j` of
   MatchEmbedReprChk.v always succeeds: `emb` is not invariant under the class group, the induction must carry the exact
   invocation (`emb_at`, MatchEmbedReprNode.v). *)
From SE Require Import Slots.SlotMapFacts Group.GroupSound Lang.LangFacts Lang.ShapeFacts Lang.RenameFacts
  Base.TextFacts Parse.Parser EGraph.Model EGraph.ModelFacts EGraph.ModelMachine EGraph.UnionFindFacts
  EGraph.InvariantFacts EGraph.UnionInvariantFacts EGraph.AddCoversFacts EGraph.HashconsShape EGraph.Mod4Facts
  EGraph.HashconsAbs EGraph.HashconsFacts EGraph.Rewrite EGraph.RewriteFacts EGraph.MatchDefs EGraph.MatchMachine
  EGraph.ProgressFacts EGraph.MatchFacts EGraph.SoundUnion EGraph.MonotoneFacts EGraph.MatchLookup EGraph.MatchComplete
  EGraph.MatchReprDeep EGraph.MatchEmbedDefs EGraph.MatchEmbedCheck.
Require Import ZArith Lia ZifyBool ZifyN ZifyNat.

Definition all_candsb (s : egraph) (theta : slotmap) (zeta : subst) (p : pattern) (a : appid) : bool :=
  match get_class s (aid a) with
  | Ok c =>
      forallb (fun rho0 =>
                 negb (root_structb s a c rho0 && avoidsb theta (pbinders p) rho0) ||
                 match embb F_all s theta zeta p (idinv a c) rho0 s with Some _ => true | None => false end)
              (root_cands s a)
  | Err _ => false
  end.

Definition cnt2 := (emb_counts all_candsb lin_pats nonred_prefixes, emb_counts all_candsb rep_pats nonred_prefixes,
                    emb_counts all_candsb rep1_pats nonred_prefixes).
(* (represented instances, of those with ALL candidates embedding): 3267 of 8768 / 684 of 1304 instances have a root
   candidate rho0 with eg_eq s (rn rho0 idinv) a at which the instance is NOT embedded *)
Example group_precondition_false : cnt2 = ((8768, 5501), (1304, 620), (1208, 1208))%nat.
Proof. vm_compute. reflexivity. Qed.
Print Assumptions group_precondition_false.
