(* EGraph/MatchEmbedReprData.v -- all the data of a hit of the read-only lookup `MatchMachine.eg_lookup s N = Ok (Some a)`
   on a clean node N with canonical children (`lookup_node_data`): the stored entry (sh, (cb, src)) of the class of a,
   the pre-shape p of N (a group variant of N, fixed by find_enode, same variants as N), the invocation
   am a = (inverse cb ** bn) filtered to the class slots, a weak variant u of p with the weak shape of N, and the
   positional renaming tau of u onto N. *)
From SE Require Import Slots.SlotMapFacts Group.GroupSound Lang.LangFacts Lang.ShapeFacts Lang.RenameFacts
  Base.TextFacts Parse.Parser EGraph.Model EGraph.ModelFacts EGraph.ModelMachine EGraph.UnionFindFacts
  EGraph.InvariantFacts EGraph.UnionInvariantFacts EGraph.AddCoversFacts EGraph.HashconsShape EGraph.Mod4Facts
  EGraph.HashconsAbs EGraph.HashconsFacts EGraph.Rewrite EGraph.RewriteFacts EGraph.MatchDefs EGraph.MatchMachine
  EGraph.ProgressFacts EGraph.MatchFacts EGraph.SoundUnion EGraph.MonotoneFacts EGraph.MatchLookup
  EGraph.NodeCong EGraph.KidEqFacts EGraph.ShapeCong EGraph.CongruenceFacts EGraph.MatchComplete
  EGraph.MatchReprFix EGraph.MatchReprAlg EGraph.StoredLive EGraph.KidsFacts EGraph.PendingFacts EGraph.SoundAddExpr
  EGraph.MatchReprFacts EGraph.MatchReprAllDefs EGraph.MatchEmbedDefs EGraph.SoundStruct EGraph.MatchEmbedReprWv
  EGraph.MatchEmbedReprLk.
Require Import ZArith Lia ZifyBool ZifyN ZifyNat.

Local Notation "a ** b" := (compose_partial a b) (at level 40, left associativity).

(* the children of every group variant of a node with canonical children are canonical *)
Lemma variants_ckid : forall s N vs v, (forall a, In a (app_occ N) -> ckid s a) -> variants s N = Ok vs -> In v vs ->
  forall a, In a (app_occ v) -> ckid s a.
Proof.
  intros s N vs v Ck V Hv.
  destruct (variants_inv s N vs Ck V) as (cls & Ec & [(Tr & Eq)|(Tr & groups & Eg & KC & Eq)]).
  - rewrite Eq in Hv. destruct Hv as [<-|[]]. exact Ck.
  - rewrite Eq in Hv. apply in_map_iff in Hv. destruct Hv as (l & El & Hl'). apply cart_in in Hl'.
    destruct (orbit_sk s _ _ l KC Hl') as (SK & CK).
    assert (KG : Forall2 (kid_grp s) (app_occ N) groups).
    { revert KC. apply Forall2_imp. intros a G0. apply kid_cg_grp. }
    destruct (orbit_lkid s (app_occ N) groups l KG Hl') as (_ & Al).
    assert (Len : List.length (zip_with gvar (app_occ N) l) = List.length (app_occ N)).
    { rewrite <- (map_length aid (zip_with gvar (app_occ N) l)), Al, map_length. reflexivity. }
    intros a Ha. rewrite <- El in Ha. rewrite (app_occ_set_apps N _ Len) in Ha.
    exact (proj1 (Forall_forall _ _) CK a Ha).
Qed.

Lemma lookup_node_data : forall s N a, match_inv s -> (forall b, In b (app_occ N) -> ckid s b) -> cleanp N ->
  MatchMachine.eg_lookup s N = Ok (Some a) ->
  exists sh bn c cb src p V2 wv u shu shN tau,
    get_class s (aid a) = Ok c /\ In (sh, (cb, src)) (c_nodes c) /\ wf (am a) /\
    (forall k m, get cb m = Some k -> In k (c_slots c) -> get (am a) k = get bn m) /\
    (forall k y, get (am a) k = Some y -> In k (c_slots c) /\ In y (pub_occ p)) /\
    (stored2 s -> no_redundant s -> forall y, In y (pub_occ N) -> exists k, In k (c_slots c) /\ get (am a) k = Some y) /\
    wshape p = Ok (sh, bn) /\ cleanp p /\ (forall b, In b (app_occ p) -> ckid s b) /\ find_enode s p = Ok p /\
    binders p = binders N /\ binders u = binders N /\
    variants s p = Ok V2 /\ In N V2 /\ In u V2 /\
    (forall x, In x (pub_occ p) -> In x (pub_occ u)) /\
    weak_variants s p = Ok wv /\ In u wv /\ wshape u = Ok shu /\ wshape N = Ok shN /\ fst shu = fst shN /\ cleanp u /\
    insert_all_bij (combine (all_occ u) (all_occ N)) [] = Some tau /\ RenameFacts.ren (g_of tau) u = N.
Proof.
  intros s N a MI CkN CN H.
  pose proof MI as [I3 K0 M4 Hhc Hpe Hl].
  assert (EI : eg_inv s) by (destruct I3 as [[EI _] _]; exact EI).
  destruct (lookup_hit_inv s N a H) as (sh & bn & i & c & cb & src & Hsh & Hh & Hc & Hn & Ea).
  pose proof (na_get_in _ _ _ Hn) as Hin.
  destruct I3 as [I2 NO]. destruct (NO i c _ Hc Hin) as (Wcb & Icb & Kcb & Scb). cbn [fst snd] in Wcb, Icb, Kcb, Scb.
  assert (Bcb : is_bijection cb = true) by (apply (is_bijection_injective cb Wcb); exact Icb).
  (* N is fixed by find_enode *)
  assert (Fn : find_enode s N = Ok N).
  { unfold find_enode. rewrite (mapr_id (find_applied_id s) (app_occ N)).
    - cbn [bind]. rewrite set_apps_self. reflexivity.
    - intros a0 Ha. apply lkid_fixed; [apply (ei_uf _ EI)|exact (proj1 (CkN a0 Ha))]. }
  unfold shape, pre_shape in Hsh. rewrite Fn in Hsh. cbn [bind] in Hsh.
  destruct (variants s N) as [vsN|] eqn:V; cbn [bind] in Hsh; [|discriminate].
  destruct (min_variant vsN None) as [p|] eqn:P; cbn [bind] in Hsh; [|discriminate].
  apply min_variant_in in P. destruct P as [P|[k0 P]]; [|discriminate].
  destruct (variants_head s N vsN (fun a0 Ha => proj1 (CkN a0 Ha)) V) as (tlN & EvsN).
  assert (HN : In N vsN) by (rewrite EvsN; left; reflexivity).
  destruct (orbit_same_set s N vsN p EI Fn V P) as (Fp & V2 & Hv2 & Hset).
  pose proof (proj1 (Hset N) HN) as HN2.
  pose proof (variants_ckid s N vsN p CkN V P) as Ckp.
  destruct (variants_head s p V2 (fun a0 Ha => proj1 (Ckp a0 Ha)) Hv2) as (tlp & EV2).
  assert (Hp2 : In p V2) by (rewrite EV2; left; reflexivity).
  destruct (variants_sub s N vsN p V P) as (Bp & Pp).
  destruct (variants_sub s p V2 N Hv2 HN2) as (_ & PN).
  assert (Cp : cleanp p).
  { split; [rewrite Bp; exact (proj1 CN)|]. intros x Hx Hb. rewrite Bp in Hb. exact (proj2 CN x (Pp x Hx) Hb). }
  (* the weak variant u of p with the weak shape of N *)
  destruct (weak_variants_total s p V2 Hv2) as (wv & Hwv).
  destruct (weak_shape_total false N) as (shN1 & bN & WN0).
  assert (WN : wshape N = Ok (shN1, bN)) by exact WN0.
  destruct (weak_variants_keeps s p V2 wv N (shN1, bN) Hv2 Hwv HN2 WN) as (u & [shu1 bu] & Hu & Wu & Efst).
  cbn [fst] in Efst.
  destruct (weak_variants_sub s p wv Hwv) as (all & Hall & Hsub).
  rewrite Hv2 in Hall. inversion Hall; subst all; clear Hall.
  pose proof (Hsub u Hu) as Hu2.
  destruct (variants_sub s p V2 u Hv2 Hu2) as (Bu & Pu).
  destruct (orbit_same_set s p V2 u EI Fp Hv2 Hu2) as (Fu & V3 & Hv3 & Hset3).
  destruct (variants_sub s u V3 p Hv3 (proj1 (Hset3 p) Hp2)) as (_ & Ppu).
  assert (BuN : binders u = binders N) by (rewrite Bu; exact Bp).
  assert (Cu : cleanp u).
  { split; [rewrite BuN; exact (proj1 CN)|]. intros x Hx Hb. rewrite BuN in Hb.
    exact (proj2 CN x (Pp x (Pu x Hx)) Hb). }
  subst shu1.
  destruct (same_wshape_rho u N shN1 bu bN Wu WN Cu CN) as (tau & Htau & Eren).
  (* the invocation *)
  destruct (shape_bij p sh bn Hsh) as (SB1 & SB2 & _).
  assert (Ham : forall k m, get cb m = Some k -> In k (c_slots c) -> get (am a) k = get bn m).
  { subst a. cbn [am]. intros k m G Hk. rewrite (get_filter_key (fun k => sset_mem k (c_slots c))).
    rewrite (proj2 (sset_mem_in _ _) Hk). rewrite get_compose_partial by apply inverse_wf.
    rewrite (proj2 (get_inverse cb k m Wcb Bcb) G). reflexivity. }
  exists sh, bn, c, cb, src, p, V2, wv, u, (shN1, bu), (shN1, bN), tau.
  split; [subst a; exact Hc|]. split; [exact Hin|]. split.
  { subst a. cbn [am]. apply (filter_key_wf (fun k => sset_mem k (c_slots c))), compose_partial_wf. }
  split; [exact Ham|]. split.
  { subst a. cbn [am]. intros k y G. rewrite (get_filter_key (fun k => sset_mem k (c_slots c))) in G.
    destruct (sset_mem k (c_slots c)) eqn:Em; [|discriminate]. apply sset_mem_in in Em. split; [exact Em|].
    rewrite get_compose_partial in G by apply inverse_wf.
    destruct (get (inverse_nocheck cb) k) as [m|]; [|discriminate].
    apply (proj1 (SB1 y)). exists m. exact G. }
  split.
  { intros S2 NR y Hy. pose proof (PN y Hy) as Hyp. destruct (proj2 (SB1 y) Hyp) as (m & Gm).
    assert (Hm : In m (pub_occ sh)) by (apply (proj1 (SB2 m)); rewrite Gm; discriminate).
    assert (Hc' : get_class s i = Ok c) by exact Hc.
    destruct (nr_entry_pub s i c sh cb src MI S2 NR Hc' Hin m Hm) as (k & Gk & Hk).
    exists k. split; [exact Hk|]. rewrite (Ham k m Gk Hk). exact Gm. }
  split; [exact Hsh|]. split; [exact Cp|]. split; [exact Ckp|]. split; [exact Fp|].
  split; [exact Bp|]. split; [exact BuN|]. split; [exact Hv2|]. split; [exact HN2|]. split; [exact Hu2|].
  split; [exact Ppu|]. split; [exact Hwv|]. split; [exact Hu|]. split; [exact Wu|]. split; [exact WN|].
  split; [reflexivity|]. split; [exact Cu|]. split; [exact Htau|exact Eren].
Qed.

(* the no_redundant clause, without `cleanp N` *)
Lemma lookup_pub_values : forall s N a, match_inv s -> stored2 s -> no_redundant s -> (forall b, In b (app_occ N) -> ckid s b) ->
  MatchMachine.eg_lookup s N = Ok (Some a) -> forall y, In y (pub_occ N) -> In y (values_vec (am a)).
Proof.
  intros s N a MI S2 NR CkN H y Hy.
  pose proof MI as [I3 K0 M4 Hhc Hpe Hl].
  assert (EI : eg_inv s) by (destruct I3 as [[EI _] _]; exact EI).
  destruct (lookup_hit_inv s N a H) as (sh & bn & i & c & cb & src & Hsh & Hh & Hc & Hn & Ea).
  pose proof (na_get_in _ _ _ Hn) as Hin.
  destruct I3 as [I2 NO]. destruct (NO i c _ Hc Hin) as (Wcb & Icb & Kcb & Scb). cbn [fst snd] in Wcb, Icb, Kcb, Scb.
  assert (Bcb : is_bijection cb = true) by (apply (is_bijection_injective cb Wcb); exact Icb).
  assert (Fn : find_enode s N = Ok N).
  { unfold find_enode. rewrite (mapr_id (find_applied_id s) (app_occ N)).
    - cbn [bind]. rewrite set_apps_self. reflexivity.
    - intros a0 Ha. apply lkid_fixed; [apply (ei_uf _ EI)|exact (proj1 (CkN a0 Ha))]. }
  unfold shape, pre_shape in Hsh. rewrite Fn in Hsh. cbn [bind] in Hsh.
  destruct (variants s N) as [vsN|] eqn:V; cbn [bind] in Hsh; [|discriminate].
  destruct (min_variant vsN None) as [p|] eqn:P; cbn [bind] in Hsh; [|discriminate].
  apply min_variant_in in P. destruct P as [P|[k0 P]]; [|discriminate].
  destruct (variants_head s N vsN (fun a0 Ha => proj1 (CkN a0 Ha)) V) as (tlN & EvsN).
  assert (HN : In N vsN) by (rewrite EvsN; left; reflexivity).
  destruct (orbit_same_set s N vsN p EI Fn V P) as (Fp & V2 & Hv2 & Hset).
  pose proof (proj1 (Hset N) HN) as HN2.
  destruct (variants_sub s p V2 N Hv2 HN2) as (_ & PN).
  destruct (shape_bij p sh bn Hsh) as (SB1 & SB2 & _).
  pose proof (PN y Hy) as Hyp. destruct (proj2 (SB1 y) Hyp) as (m & Gm).
  assert (Hm : In m (pub_occ sh)) by (apply (proj1 (SB2 m)); rewrite Gm; discriminate).
  destruct (nr_entry_pub s i c sh cb src MI S2 NR Hc Hin m Hm) as (k & Gk & Hk).
  apply (get_values_vec (am a) k y).
  subst a. cbn [am]. rewrite (get_filter_key (fun k => sset_mem k (c_slots c))).
  rewrite (proj2 (sset_mem_in _ _) Hk). rewrite get_compose_partial by apply inverse_wf.
  rewrite (proj2 (get_inverse cb k m Wcb Bcb) Gk). exact Gm.
Qed.

Print Assumptions variants_ckid.
Print Assumptions lookup_node_data.
Print Assumptions lookup_pub_values.
