(* EGraph/MatchEmbedReprEx.v — NON-VACUITY of the unconditional C04 theorems of MatchEmbedRepr.v: all premises of
   `nested_complete_reachable_proved` hold for the NESTED pattern with a BINDER  bin4 (lam $2. ?x) ?y  on the state s_c of
   MatchEmbedCheck.v (run of static terms, no redundant slot), instance theta 2 = 6, ?x := s1 $6, ?y := s1 $2; the
   theorem yields a match that `describes` the instance (no evaluation of the matcher is used for the conclusion).
   Also: the premise `pat_null` cannot be dropped (`pat_null_needed`): a pattern node whose child placeholder is not the
   null invocation is "represented" (the lookup replaces the children) but never matched. *)
From SE Require Import Slots.SlotMapFacts Group.GroupSound Lang.LangFacts Lang.ShapeFacts Lang.RenameFacts
  Base.TextFacts Parse.Parser EGraph.Model EGraph.ModelFacts EGraph.ModelMachine EGraph.UnionFindFacts
  EGraph.InvariantFacts EGraph.UnionInvariantFacts EGraph.AddCoversFacts EGraph.HashconsShape EGraph.Mod4Facts
  EGraph.HashconsAbs EGraph.HashconsFacts EGraph.Rewrite EGraph.RewriteFacts EGraph.MatchDefs EGraph.MatchMachine
  EGraph.ProgressFacts EGraph.MatchFacts EGraph.SoundUnion EGraph.MonotoneFacts EGraph.MatchLookup EGraph.MatchComplete
  EGraph.CongruenceFacts EGraph.MatchReprFacts EGraph.MatchReprDeep EGraph.SelfSymFacts EGraph.OpsPreFacts
  EGraph.MatchEmbedDefs EGraph.MatchEmbedEq EGraph.MatchEmbed EGraph.MatchCompleteAll EGraph.MatchEmbedCheck
  EGraph.StaticFacts EGraph.MatchEmbedReprNode EGraph.MatchEmbedRepr.
Require Import ZArith Lia ZifyBool ZifyN ZifyNat.

Definition hs_c : list appid := Eval vm_compute in match run_ops cT cO [] empty_egraph with Ok (h, _) => h | Err _ => [] end.
Definition a_c : appid := {| aid := 2; am := [(9, 2)] |}.
Definition th_c : slotmap := [(2, 6)].

Example run_c : run_ops cT cO [] empty_egraph = Ok (hs_c, s_c).
Proof. vm_compute. reflexivity. Qed.
Example static_c : Forall term_static cT.
Proof.
  apply Forall_forall. intros t Ht. apply term_staticb_sound.
  assert (F : forallb term_staticb cT = true) by (vm_compute; reflexivity).
  exact (proj1 (forallb_forall _ _) F t Ht).
Qed.
Example nonred_c : no_redundant s_c.
Proof. apply no_redundantb_sound. vm_compute. reflexivity. Qed.
Example pat_ok_c : pat_ok s_c p_c1.
Proof. split; [exact I|]. split; [vm_compute; reflexivity|]. apply pat_belowb_sound. vm_compute. reflexivity. Qed.
Example pat_null_c : pat_null p_c1.
Proof. cbn [pat_null p_c1 vx vy]. repeat split; vm_compute; reflexivity. Qed.
Example inst_ok2_c : inst_ok2 s_c p_c1 th_c z_fresh.
Proof.
  split; [split; [vm_compute; repeat split|split; [reflexivity|]]|].
  - intros v c Hv. apply coversb_sound.
    assert (F : forallb (fun vc : text * appid => coversb s_c (snd vc)) z_fresh = true) by (vm_compute; reflexivity).
    exact (proj1 (forallb_forall _ _) F (v, c) (sub_get_in_key _ _ _ Hv)).
  - intros x Hx. vm_compute in Hx. destruct Hx as [<-|[]]. vm_compute. discriminate.
Qed.
Example lookup_c : lookup_pat s_c (pren th_c p_c1) z_fresh = Ok (Some a_c).
Proof. vm_compute. reflexivity. Qed.
Example fresh_c : fresh_binders p_c1 th_c a_c.
Proof.
  intros x y Hx Gx Hy. vm_compute in Hx. destruct Hx as [<-|[]]. vm_compute in Gx. inversion Gx; subst y.
  vm_compute in Hy. destruct Hy as [Hy|[]]. discriminate.
Qed.

(* the theorem applies: the nested instance with a binder is reported by the matcher *)
Theorem nested_binder_instance_matched : forall l s', ematch_all_r p_c1 s_c = Ok (l, s') ->
  exists r, In r l /\ describes s' p_c1 th_c z_fresh a_c r.
Proof.
  intros l s' E.
  exact (nested_complete_reachable_proved cT cO hs_c s_c p_c1 th_c z_fresh static_c run_c nonred_c pat_ok_c pat_null_c inst_ok2_c
           a_c lookup_c fresh_c l s' E).
Qed.

(* `pat_null` is needed: the same pattern with a non-null placeholder child in the root node *)
Definition nd_bad : node := set_apps (nd_bin 4) [{| aid := 0; am := [(1, 10)] |}; null_appid].
Definition p_bad : pattern := PNode nd_bad [PNode (nd_lam 2) [vx]; vy].
Definition th_bad : slotmap := [(2, 6); (10, 10)].
Definition chk_bad :=
  (bind_scopeb p_bad, pat_belowb (Model.ctr s_c) p_bad, lookup_pat s_c (pren th_bad p_bad) z_fresh,
   match ematch_all_r p_bad s_c with Ok (l, _) => Some (List.length l) | Err _ => None end,
   match ematch_all_r p_c1 s_c with Ok (l, _) => Some (List.length l) | Err _ => None end).
(* bind_scopeb, pat_below hold, theta is defined on all slot names, the instance is "represented" (the lookup replaces
   the children), but the matcher reports NOTHING for p_bad (one match for the well-formed p_c1) *)
Example pat_null_needed :
  chk_bad = (true, true, Ok (Some a_c), Some 0%nat, Some 1%nat) /\ (nullify nd_bad = nd_bad -> False).
Proof. split; [vm_compute; reflexivity|]. vm_compute. discriminate. Qed.
Print Assumptions nested_binder_instance_matched.
Print Assumptions pat_null_needed.
