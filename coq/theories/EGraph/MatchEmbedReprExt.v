(* EGraph/MatchEmbedReprExt.v — pure slot-map lemma: extend rho by the bindings of sg on the keys bs. *)
From SE Require Import Slots.SlotMapFacts Group.GroupSound Lang.LangFacts Lang.ShapeFacts Lang.RenameFacts
  Base.TextFacts Parse.Parser EGraph.Model EGraph.ModelFacts EGraph.ModelMachine EGraph.UnionFindFacts
  EGraph.InvariantFacts EGraph.UnionInvariantFacts EGraph.AddCoversFacts EGraph.HashconsShape EGraph.Mod4Facts
  EGraph.HashconsAbs EGraph.HashconsFacts EGraph.Rewrite EGraph.RewriteFacts EGraph.MatchDefs EGraph.MatchMachine
  EGraph.ProgressFacts EGraph.MatchFacts EGraph.SoundUnion EGraph.MonotoneFacts EGraph.MatchLookup EGraph.MatchComplete
  EGraph.MatchReprDeep EGraph.MatchEmbedDefs EGraph.MatchEmbedEq.
Require Import ZArith Lia ZifyBool ZifyN ZifyNat.

Lemma existsb_eqb_In : forall (bs : list slot) k, existsb (N.eqb k) bs = true <-> In k bs.
Proof.
  intros bs k. rewrite existsb_exists. split.
  - intros [x [Hx E]]. apply N.eqb_eq in E. subst. exact Hx.
  - intros Hk. exists k. split; [exact Hk|apply N.eqb_refl].
Qed.

Lemma ext_by : forall (rho sg : slotmap) (bs : list slot),
  wf rho -> wf sg -> injective rho -> injective sg ->
  (forall b, In b bs -> get rho b = None) ->
  (forall b k v, In b bs -> get rho k = Some v -> get sg b <> Some v) ->
  exists rho', ext rho rho' /\ wf rho' /\ injective rho' /\
    (forall k v, get rho' k = Some v -> get rho k = Some v \/ (In k bs /\ get sg k = Some v)) /\
    (forall b, In b bs -> get rho' b = get sg b).
Proof.
  intros rho sg bs Wr Ws Ir Is Hn Hd.
  set (P := fun k : slot => existsb (N.eqb k) bs).
  set (F := filter (fun p : slot * slot => P (fst p)) sg).
  assert (WF : wf F) by (apply filter_key_wf; exact Ws).
  assert (GF : forall k, get F k = if P k then get sg k else None) by (intro k; apply get_filter_key).
  assert (G : forall k, get (union_nocheck F rho) k =
                        match get rho k with Some v => Some v | None => if P k then get sg k else None end).
  { intro k. rewrite get_union by assumption. rewrite GF. reflexivity. }
  assert (C : forall k v, get (union_nocheck F rho) k = Some v ->
                          get rho k = Some v \/ (get rho k = None /\ In k bs /\ get sg k = Some v)).
  { intros k v H. rewrite G in H. destruct (get rho k) as [w|] eqn:E; [left; exact H|].
    destruct (P k) eqn:EP; [|discriminate]. right. split; [reflexivity|]. split; [|exact H].
    apply existsb_eqb_In. exact EP. }
  exists (union_nocheck F rho). split; [|split; [|split; [|split]]].
  - intros k v H. rewrite G, H. reflexivity.
  - unfold union_nocheck. apply from_iter_onto_wf. exact WF.
  - intros k1 k2 v H1 H2. apply C in H1. apply C in H2.
    destruct H1 as [H1|[_ [B1 H1]]]; destruct H2 as [H2|[_ [B2 H2]]].
    + exact (Ir _ _ _ H1 H2).
    + exfalso. exact (Hd _ _ _ B2 H1 H2).
    + exfalso. exact (Hd _ _ _ B1 H2 H1).
    + exact (Is _ _ _ H1 H2).
  - intros k v H. apply C in H. destruct H as [H|[_ H]]; [left; exact H|right; exact H].
  - intros b Hb. rewrite G, (Hn b Hb).
    assert (EP : P b = true) by (apply existsb_eqb_In; exact Hb). rewrite EP. reflexivity.
Qed.

Print Assumptions ext_by.
