(* EGraph/MatchEmbedReprListed.v -- forward direction of `enodes_applied` for an ARBITRARY invocation:
   every entry of the class yields a listed node (facts of `ea_entry_gen`), whose binders are fresh names
   drawn during the call (`ea_entry_binders`). *)
From SE Require Import Slots.SlotMapFacts Group.GroupSound Lang.LangFacts Lang.ShapeFacts Lang.RenameFacts
  Base.TextFacts Parse.Parser EGraph.Model EGraph.ModelFacts EGraph.ModelMachine EGraph.UnionFindFacts
  EGraph.InvariantFacts EGraph.UnionInvariantFacts EGraph.AddCoversFacts EGraph.HashconsShape EGraph.Mod4Facts
  EGraph.HashconsAbs EGraph.HashconsFacts EGraph.Rewrite EGraph.RewriteFacts EGraph.MatchDefs EGraph.MatchMachine
  EGraph.ProgressFacts EGraph.MatchFacts EGraph.SoundUnion EGraph.MonotoneFacts EGraph.MatchLookup
  EGraph.NodeCong EGraph.KidEqFacts EGraph.ShapeCong EGraph.CongruenceFacts EGraph.MatchComplete
  EGraph.MatchReprFix EGraph.MatchReprAlg EGraph.StoredLive EGraph.KidsFacts EGraph.PendingFacts EGraph.SoundAddExpr
  EGraph.MatchReprFacts EGraph.MatchReprAllDefs EGraph.MatchReprAllK1.
Require Import ZArith Lia ZifyBool ZifyN ZifyNat.

Local Notation "a ** b" := (compose_partial a b) (at level 40, left associativity).

Section ListedFwd.
  Variable s0 : egraph.
  Hypothesis I3 : inv3 s0.
  Hypothesis K0 : kids_ok s0.
  Hypothesis M4 : cls4 s0.
  Hypothesis Hhc : hc_ok s0.
  Hypothesis Hpe : pending s0 = [].

  Lemma ea_entry_binders : forall i c sh bij src s x2 s', Rel s0 s -> get_class s0 (aid i) = Ok c ->
    In (sh, (bij, src)) (c_nodes c) -> MatchFacts.cb s0 s i -> ea_entry i c (sh, (bij, src)) s = Ok (x2, s') ->
    forall b, In b (binders x2) -> Model.ctr s <= b /\ b < Model.ctr s'.
  Proof.
    intros i c sh bij src s x2 s' R Hc Hin Cbi H.
    destruct Cbi as [[Ci Wi] Vi].
    unfold ea_entry in H.
    destruct (class_facts s0 I3 M4 _ _ Hc) as [S1c Below].
    apply mbind_inv in H. destruct H as (x0 & s1 & H1 & H). apply lift_inv in H1. destruct H1 as [H1 ->].
    apply mbind_inv in H. destruct H as (x1 & s2 & H2 & H).
    apply mbind_inv in H. destruct H as (m & s3 & H3 & H). cbv zeta in H. apply lift_inv in H. destruct H as [H4 <-].
    pose proof (rn_trav (c_slots c) x0 (Model.ctr s)) as (RI & RG & RD).
    unfold with_ctr in H2. destruct (trav (rnF (c_slots c)) x0 ([], Model.ctr s)) as [x1' [rho c1]] eqn:T.
    inversion H2; subst x1' s2; clear H2. cbn [fst snd] in RI, RG, RD.
    destruct RI as (L1 & RV & RInj). cbn [fst snd] in L1, RV, RInj.
    destruct (fo_spec (am i) c1 _ _ _ _ _ H3) as (SG3 & L3 & (Wm & Im & Vm)).
    { cbn [Model.ctr set_ctr]. lia. }
    { split; [exact I|]. split; [intros k1 k2 v G; discriminate G|intros k v G; discriminate G]. }
    cbn [Model.ctr set_ctr] in L3.
    assert (Bx0 : binders x0 = binders sh) by (rewrite (apply_slotmap_ren _ _ _ H1); apply binders_asm).
    destruct (K0 (aid i) c _ Hc Hin) as [Sh4 _]. cbn [fst] in Sh4.
    assert (Bx1 : forall b, In b (binders x1) -> Model.ctr s <= b /\ b < c1).
    { intros b Hb. rewrite RG, ren_binders in Hb. apply in_map_iff in Hb. destruct Hb as (bb & <- & Hbb).
      rewrite Bx0 in Hbb. pose proof (Sh4 bb (binders_all_occ _ _ Hbb)) as Z0.
      assert (Hbb' : In bb (all_occ x0)) by (apply binders_all_occ; rewrite Bx0; exact Hbb).
      unfold rnG. cbn [fst].
      destruct (sset_mem bb (c_slots c)) eqn:Em.
      { apply sset_mem_in in Em. pose proof (S1c bb Em) as Z1. unfold ok1 in Z1. lia. }
      destruct (RD bb Hbb') as [D|D]; [congruence|]. cbn [fst] in D.
      destruct (get rho bb) as [v|] eqn:G; [|congruence]. exact (RV bb v G). }
    intros b Hb. rewrite (apply_slotmap_ren _ _ _ H4), binders_asm in Hb.
    pose proof (Bx1 b Hb). lia.
  Qed.

  Lemma mapM_entries_fwd : forall i c l s nns s', Rel s0 s -> get_class s0 (aid i) = Ok c -> incl l (c_nodes c) ->
    MatchFacts.cb s0 s i -> mapM (ea_entry i c) l s = Ok (nns, s') ->
    Model.ctr s <= Model.ctr s' /\
    forall sh bij src, In (sh, (bij, src)) l ->
    exists nn b_nn, In nn nns /\ clean nn /\ NoDup (binders nn) /\ wshape nn = Ok (sh, b_nn) /\
      (forall x y, In x (c_slots c) -> get (am i) x = Some y -> In y (pub_occ nn)) /\
      (forall k x y, In x (c_slots c) -> get bij k = Some x -> get (am i) x = Some y -> get b_nn k = Some y) /\
      (forall b, In b (binders nn) -> Model.ctr s <= b /\ b < Model.ctr s').
  Proof.
    intros i c. induction l as [|e t IH]; intros s nns s' R Hc Hl Ci H; cbn [mapM] in H.
    - inversion H; subst. split; [lia|]. intros sh bij src [].
    - apply mbind_inv in H. destruct H as (y & s1 & H1 & H). apply mbind_inv in H. destruct H as (r & s2 & H2 & H).
      inversion H; subst nns s2; clear H.
      destruct (ea_entry_kids s0 I3 K0 M4 i c e s y s1 R Hc (Hl e (or_introl eq_refl)) Ci H1) as (G1 & L1 & _).
      destruct (IH s1 r s' (Rel_step s0 _ _ R G1 L1) Hc (fun x Hx => Hl x (or_intror Hx)) (cb_mono s0 _ _ _ L1 Ci) H2)
        as (L2 & IH').
      split; [lia|].
      intros sh bij src [He|Hin].
      + subst e.
        destruct (ea_entry_gen s0 I3 K0 M4 Hhc Hpe i c sh bij src s y s1 R Hc (Hl _ (or_introl eq_refl)) Ci H1)
          as (Cl & Nd & b2 & W & P1 & P2).
        pose proof (ea_entry_binders i c sh bij src s y s1 R Hc (Hl _ (or_introl eq_refl)) Ci H1) as Bd.
        exists y, b2. split; [left; reflexivity|]. split; [exact Cl|]. split; [exact Nd|]. split; [exact W|].
        split; [exact P1|]. split; [exact P2|]. intros b Hb. pose proof (Bd b Hb). lia.
      + destruct (IH' sh bij src Hin) as (nn & b2 & Hnn & Cl & Nd & W & P1 & P2 & Bd).
        exists nn, b2. split; [right; exact Hnn|]. split; [exact Cl|]. split; [exact Nd|]. split; [exact W|].
        split; [exact P1|]. split; [exact P2|]. intros b Hb. pose proof (Bd b Hb). lia.
  Qed.

  Lemma listed_entry_gen : forall i c t nns t' sh bij src, Rel s0 t -> get_class s0 (aid i) = Ok c -> MatchFacts.cb s0 t i ->
    enodes_applied i t = Ok (nns, t') -> In (sh, (bij, src)) (c_nodes c) ->
    exists nn b_nn, In nn nns /\ clean nn /\ NoDup (binders nn) /\ wshape nn = Ok (sh, b_nn) /\
      (forall x y, In x (c_slots c) -> get (am i) x = Some y -> In y (pub_occ nn)) /\
      (forall k x y, In x (c_slots c) -> get bij k = Some x -> get (am i) x = Some y -> get b_nn k = Some y) /\
      (forall b, In b (binders nn) -> Model.ctr t <= b /\ b < Model.ctr t').
  Proof.
    intros i c t nns t' sh bij src R Hc Cbi Hen Hin.
    rewrite enodes_applied_eq in Hen.
    apply mbind_inv in Hen. destruct Hen as (c' & s1 & H1 & H). apply reads_inv in H1. destruct H1 as [Hc' ->].
    rewrite (Rel_class s0 _ _ R) in Hc'. rewrite Hc in Hc'. inversion Hc'; subst c'.
    exact (proj2 (mapM_entries_fwd i c (c_nodes c) t nns t' R Hc (incl_refl _) Cbi H) sh bij src Hin).
  Qed.
End ListedFwd.

Check ea_entry_binders.
Check listed_entry_gen.
Print Assumptions ea_entry_binders.
Print Assumptions listed_entry_gen.
