(* EGraph/MatchEmbedReprLk.v -- facts on a hit of the read-only lookup `MatchMachine.eg_lookup` and on the stored
   entries of a state without redundant slots.
   (3) `lookup_am`: the invocation found is (inverse cb ** bn) filtered to the class slots.
   (2) `lookup_ckid`: the invocation found is a canonical invocation (ckid) of a live class.
   (1) `nr_entry_pub_tot` / `nr_entry_pub_b`: in a state without redundant slots the stored bijection maps every public
       slot of the stored shape to a class slot.  NOTE: totality of the stored bijection on the public slots of the
       shape is NOT part of `match_inv` (nodes_ok only has keys cb <= pub_occ sh; totality is `stored2` of SoundStruct.v)
       and `no_redundant` is vacuous when `apply_slotmap` fails; so (1) is stated with the totality premise
       (`nr_entry_pub_tot`) or with the executable check `no_redundantb s = true` (`nr_entry_pub_b`), which forces
       every `apply_slotmap` to succeed (`nrb_total`). *)
From SE Require Import Slots.SlotMapFacts Group.GroupSound Lang.LangFacts Lang.ShapeFacts Lang.RenameFacts
  Base.TextFacts Parse.Parser EGraph.Model EGraph.ModelFacts EGraph.ModelMachine EGraph.UnionFindFacts
  EGraph.InvariantFacts EGraph.UnionInvariantFacts EGraph.AddCoversFacts EGraph.HashconsShape EGraph.Mod4Facts
  EGraph.HashconsAbs EGraph.HashconsFacts EGraph.Rewrite EGraph.RewriteFacts EGraph.MatchDefs EGraph.MatchMachine
  EGraph.ProgressFacts EGraph.MatchFacts EGraph.SoundUnion EGraph.MonotoneFacts EGraph.MatchLookup
  EGraph.NodeCong EGraph.KidEqFacts EGraph.ShapeCong EGraph.CongruenceFacts EGraph.MatchComplete
  EGraph.MatchReprFix EGraph.MatchReprAlg EGraph.StoredLive EGraph.KidsFacts EGraph.PendingFacts EGraph.SoundAddExpr
  EGraph.MatchReprFacts EGraph.MatchReprAllDefs EGraph.MatchEmbedDefs EGraph.SoundStruct.
Require Import ZArith Lia ZifyBool ZifyN ZifyNat.

Local Notation "a ** b" := (compose_partial a b) (at level 40, left associativity).

(* ------------------------------------------------------------------ *)
(* (3) *)

Lemma lookup_am : forall s n a, match_inv s -> MatchMachine.eg_lookup s n = Ok (Some a) ->
  exists sh bn c cb src, shape s n = Ok (sh, bn) /\ get_class s (aid a) = Ok c /\ In (sh, (cb, src)) (c_nodes c) /\
    wf (am a) /\ (forall k m, get cb m = Some k -> In k (c_slots c) -> get (am a) k = get bn m).
Proof.
  intros s n a [I3 K0 M4 Hhc Hpe Hl] H.
  destruct (lookup_hit_inv s n a H) as (sh & bn & i & c & cb & src & Hsh & Hh & Hc & Hn & Ea).
  pose proof (na_get_in _ _ _ Hn) as Hin.
  destruct I3 as [I2 NO]. destruct (NO i c _ Hc Hin) as (Wcb & Icb & Kcb & Scb). cbn [fst snd] in Wcb, Icb, Kcb, Scb.
  assert (Bcb : is_bijection cb = true) by (apply (is_bijection_injective cb Wcb); exact Icb).
  subst a. cbn [aid am]. exists sh, bn, c, cb, src.
  split; [exact Hsh|]. split; [exact Hc|]. split; [exact Hin|]. split.
  - apply (filter_key_wf (fun k => sset_mem k (c_slots c))), compose_partial_wf.
  - intros k m G Hk. rewrite (get_filter_key (fun k => sset_mem k (c_slots c))).
    rewrite (proj2 (sset_mem_in _ _) Hk). rewrite get_compose_partial by apply inverse_wf.
    rewrite (proj2 (get_inverse cb k m Wcb Bcb) G). reflexivity.
Qed.

(* ------------------------------------------------------------------ *)
(* (2) *)

Lemma lookup_ckid : forall s n a, match_inv s -> MatchMachine.eg_lookup s n = Ok (Some a) ->
  In (aid a) (ids s) /\ ckid s a.
Proof.
  intros s n a [I3 K0 M4 Hhc Hpe Hl] H.
  destruct (lookup_hit_inv s n a H) as (sh & bn & i & c & cb & src & Hsh & Hh & Hc & Hn & Ea).
  pose proof (na_get_in _ _ _ Hn) as Hin.
  assert (St : stored s i sh (cb, src)) by (unfold stored, cnodes; rewrite Hc; exact Hn).
  pose proof (stored_live_ids s sh i _ Hl St) as Hi.
  destruct I3 as [[EI _] NO]. destruct (NO i c _ Hc Hin) as (Wcb & Icb & Kcb & Scb). cbn [fst snd] in Wcb, Icb, Kcb, Scb.
  assert (Bcb : is_bijection cb = true) by (apply (is_bijection_injective cb Wcb); exact Icb).
  destruct (ei_cls s EI i c Hc) as (Sw & Hg & _).
  unfold shape in Hsh. destruct (pre_shape s n) as [p|] eqn:P; cbn [bind] in Hsh; [|discriminate].
  destruct (shape_bij _ _ _ Hsh) as (_ & Kbn & _).
  pose proof (shape_bij_inj _ _ _ Hsh) as Ibn.
  subst a. cbn [aid].
  set (mb := filter (fun p0 : slot * slot => sset_mem (fst p0) (c_slots c)) (inverse_nocheck cb ** bn)).
  assert (Wmb : wf mb).
  { unfold mb. apply (filter_key_wf (fun k => sset_mem k (c_slots c))), compose_partial_wf. }
  assert (Gmb : forall k, get mb k = if sset_mem k (c_slots c) then
              match get (inverse_nocheck cb) k with Some y => get bn y | None => None end else None).
  { intros k. unfold mb. rewrite (get_filter_key (fun k => sset_mem k (c_slots c))).
    rewrite get_compose_partial by apply inverse_wf. reflexivity. }
  assert (Kin : forall k, get mb k <> None -> In k (c_slots c)).
  { intros k Hk. rewrite Gmb in Hk. destruct (sset_mem k (c_slots c)) eqn:Em; [|congruence].
    apply sset_mem_in. exact Em. }
  split; [exact Hi|]. split.
  - apply ids_leader in Hi. destruct Hi as (e & He & Hae).
    exists e, c. cbn [aid am]. split; [exact He|]. split; [exact Hae|]. split; [exact Hc|]. split; [exact Hg|].
    split; [exact (uso_leader s (ei_slots s EI) i e c He Hae Hc)|]. split; [exact Wmb|exact Kin].
  - exists c. cbn [aid am]. split; [exact Hc|]. split; [exact Hg|]. split; [exact Wmb|]. split.
    + apply (is_bijection_injective mb Wmb). intros k1 k2 v G1 G2. rewrite Gmb in G1, G2.
      destruct (sset_mem k1 (c_slots c)); [|discriminate]. destruct (sset_mem k2 (c_slots c)); [|discriminate].
      destruct (get (inverse_nocheck cb) k1) as [m1|] eqn:E1; [|discriminate].
      destruct (get (inverse_nocheck cb) k2) as [m2|] eqn:E2; [|discriminate].
      apply (get_inverse cb k1 m1 Wcb Bcb) in E1. apply (get_inverse cb k2 m2 Wcb Bcb) in E2.
      pose proof (Ibn m1 m2 v G1 G2) as Em. subst m2. congruence.
    + apply sset_ext; [apply sset_of_list_spec|exact Sw|].
      intros x. rewrite keys_spec. split; [exact (Kin x)|].
      intros Hx. destruct (Scb x Hx) as (m & Gm). rewrite Gmb. rewrite (proj2 (sset_mem_in _ _) Hx).
      rewrite (proj2 (get_inverse cb x m Wcb Bcb) Gm).
      apply (proj2 (Kbn m)). apply Kcb. congruence.
Qed.

(* ------------------------------------------------------------------ *)
(* (1) *)

Lemma nr_entry_pub_tot : forall s i c sh cb src, match_inv s -> no_redundant s -> get_class s i = Ok c ->
  In (sh, (cb, src)) (c_nodes c) -> (forall m, In m (pub_occ sh) -> get cb m <> None) ->
  forall m, In m (pub_occ sh) -> exists k, get cb m = Some k /\ In k (c_slots c).
Proof.
  intros s i c sh cb src [I3 K0 M4 Hhc Hpe Hl] NR Hc Hin Tot m Hm.
  pose proof (in_stored s Hhc _ _ _ _ Hc Hin) as St.
  pose proof (stored_live_ids s sh i _ Hl St) as Hi.
  destruct I3 as [_ NO]. destruct (NO i c _ Hc Hin) as (Wb & Inj & Kb & Sb). cbn [fst snd] in Wb, Inj, Kb, Sb.
  destruct (K0 i c _ Hc Hin) as [Sh4 _]. cbn [fst] in Sh4.
  pose proof (cls4_bij4 _ (m4_cls4 _ M4)) as B4.
  assert (R0 : ren_ok (asm_g cb) sh).
  { split; [|split].
    - intros x y _ _ E. exact E.
    - intros x b Hx Hb E. unfold asm_g in E. destruct (get cb x) as [y|] eqn:G; [|apply (Tot x Hx); exact G].
      pose proof (B4 i c sh cb src x y Hc Hin G) as Y1. pose proof (Sh4 b (binders_all_occ _ _ Hb)) as Y0. subst y. lia.
    - intros x y Hx Hy E. unfold asm_g in E.
      destruct (get cb x) as [u|] eqn:Gx; [|exfalso; apply (Tot x Hx); exact Gx].
      destruct (get cb y) as [v|] eqn:Gy; [|exfalso; apply (Tot y Hy); exact Gy]. subst v. eapply Inj; eauto. }
  pose proof (apply_slotmap_ok cb sh Tot) as Hn0.
  pose proof (NR i c (sh, (cb, src)) _ Hi Hc Hin Hn0) as Sub.
  destruct (get cb m) as [k|] eqn:G; [|exfalso; exact (Tot m Hm G)]. exists k. split; [reflexivity|].
  pose proof (ren_ok_pub (asm_g cb) sh m R0 Hm) as Pk.
  assert (Ek : asm_g cb true m = k) by (unfold asm_g; rewrite G; reflexivity). rewrite Ek in Pk.
  unfold sset_subset in Sub. rewrite forallb_forall in Sub. apply sset_mem_in. apply Sub.
  unfold slots. apply (proj2 (sset_of_list_spec _)). exact Pk.
Qed.

Lemma nr_entry_pub : forall s i c sh cb src, match_inv s -> stored2 s -> no_redundant s -> get_class s i = Ok c ->
  In (sh, (cb, src)) (c_nodes c) -> forall m, In m (pub_occ sh) -> exists k, get cb m = Some k /\ In k (c_slots c).
Proof.
  intros s i c sh cb src MI S2 NR Hc Hin.
  apply (nr_entry_pub_tot s i c sh cb src MI NR Hc Hin).
  destruct (S2 i c _ Hc Hin) as [_ Tot]. cbn [fst snd] in Tot. exact Tot.
Qed.

Lemma nrb_total : forall s i c sh cb src, no_redundantb s = true -> In i (ids s) -> get_class s i = Ok c ->
  In (sh, (cb, src)) (c_nodes c) -> forall m, In m (pub_occ sh) -> get cb m <> None.
Proof.
  intros s i c sh cb src H Hi Hc He. unfold no_redundantb, has_redundant in H.
  destruct (mapr (get_class s) (ids s)) as [cls|] eqn:E1; cbn [bind] in H; [|discriminate].
  match type of H with match (do fl <- mapr ?f cls; _) with _ => _ end = _ => destruct (mapr f cls) as [fl|] eqn:E2 end;
    cbn [bind] in H; [|discriminate].
  destruct (mapr_in_ok _ _ _ E1 i Hi) as (c' & Hc' & Hin). rewrite Hc in Hc'. inversion Hc'; subst c'.
  destruct (mapr_in_ok _ _ _ E2 c Hin) as (b & Hb & _). cbv beta in Hb.
  destruct (mapr (fun e0 : node * (slotmap * N) => apply_slotmap false (fst (snd e0)) (fst e0)) (c_nodes c)) as [ns|] eqn:E4;
    cbn [bind] in Hb; [|discriminate].
  destruct (mapr_in_ok _ _ _ E4 _ He) as (n' & Hn' & _). cbn [fst snd] in Hn'.
  exact (apply_slotmap_total _ _ _ Hn').
Qed.

Lemma nr_entry_pub_b : forall s i c sh cb src, match_inv s -> no_redundantb s = true -> get_class s i = Ok c ->
  In (sh, (cb, src)) (c_nodes c) -> forall m, In m (pub_occ sh) -> exists k, get cb m = Some k /\ In k (c_slots c).
Proof.
  intros s i c sh cb src MI NRb Hc Hin.
  assert (Hi : In i (ids s)).
  { destruct MI as [I3 K0 M4 Hhc Hpe Hl]. exact (stored_live_ids s sh i _ Hl (in_stored s Hhc _ _ _ _ Hc Hin)). }
  apply (nr_entry_pub_tot s i c sh cb src MI (no_redundantb_sound s NRb) Hc Hin).
  exact (nrb_total s i c sh cb src NRb Hi Hc Hin).
Qed.

Print Assumptions lookup_am.
Print Assumptions lookup_ckid.
Print Assumptions nr_entry_pub_tot.
Print Assumptions nr_entry_pub.
Print Assumptions nr_entry_pub_b.
