(* EGraph/MatchEmbedReprNode.v — C04, nested patterns, THE E-GRAPH SIDE: the step at one pattern node.

   `emb_at s theta zeta p j`: the instance (theta, zeta) of p is embedded at EVERY canonical leader invocation i through
   EVERY correspondence rho0 (defined on the slots of i) with `rn rho0 i = j` EXACTLY (not only up to the class group:
   `emb` is not invariant under `eg_eq`, the matcher repairs this by the choice of the group variant one level up).
   `node_at`: given the data of the lookup of N = (ren theta n)[js] (`lookup_node_data`, MatchEmbedReprData.v: the class
   entry the lookup hits, the pre-shape p' of N, the weak variant u that `weak_variants` keeps for the weak shape of N
   itself, the positional renaming tau : u -> N) and `emb_at` of the child patterns at the children js of N:
       emb_at (PNode n ch) (rn tau a)          where a is the lookup result of N.
   Proof: for an invocation i with rn rho i = rn tau a, the listed node nn of the entry (`listed_entry_gen`) is a
   renaming of p' (`same_wshape_rho`, rho1), the variants and weak variants of p' are those of nn renamed by rho1
   (`variants_ren`, `weak_variants_ren`), so u = ren rho1 v' for a weak variant v' of nn; rho' := rho + (binders of nn
   |-> rho1 ; tau) satisfies ren rho' v' = N (rho1 ; tau agrees with rho on the public slots: no redundant slot, so
   every public slot of nn is a value of `am i`), hence the children of v' are carried by rho' EXACTLY to js. *)
From SE Require Import Slots.SlotMapFacts Group.GroupSound Lang.LangFacts Lang.ShapeFacts Lang.RenameFacts
  Base.TextFacts Parse.Parser EGraph.Model EGraph.ModelFacts EGraph.ModelMachine EGraph.UnionFindFacts
  EGraph.InvariantFacts EGraph.UnionInvariantFacts EGraph.AddCoversFacts EGraph.HashconsShape EGraph.Mod4Facts
  EGraph.HashconsAbs EGraph.HashconsFacts EGraph.Rewrite EGraph.RewriteFacts EGraph.MatchDefs EGraph.MatchMachine
  EGraph.ProgressFacts EGraph.MatchFacts EGraph.SoundUnion EGraph.MonotoneFacts EGraph.MatchLookup
  EGraph.NodeCong EGraph.KidEqFacts EGraph.ShapeCong EGraph.CongruenceFacts EGraph.MatchComplete
  EGraph.MatchReprFix EGraph.MatchReprAlg EGraph.StoredLive EGraph.KidsFacts EGraph.PendingFacts EGraph.SoundAddExpr
  EGraph.MatchReprFacts EGraph.MatchReprAllDefs EGraph.MatchReprAllK1 EGraph.SelfSymReadd EGraph.SoundStruct
  EGraph.MatchEmbedDefs EGraph.MatchEmbedEq EGraph.MatchEmbed
  EGraph.MatchEmbedReprWv EGraph.MatchEmbedReprListed EGraph.MatchEmbedReprLk EGraph.MatchEmbedReprExt.
Require Import ZArith Lia ZifyBool ZifyN ZifyNat.

Local Notation "a ** b" := (compose_partial a b) (at level 40, left associativity).

(* ------------------------------------------------------------------ *)
(* 0. small facts *)

Lemma all_occ_pub_or_binder : forall n x, In x (all_occ n) -> In x (pub_occ n) \/ In x (binders n).
Proof.
  intros n x H. destruct (all_occ_flag n x H) as ([|] & Hf).
  - left. apply occ_flags_true_pub. exact Hf.
  - right. apply occ_flags_false_binders. exact Hf.
Qed.

Lemma map_eq_combine : forall {A B C} (f : A -> C) (g : B -> C) l1 l2, map f l1 = map g l2 ->
  forall a b, In (a, b) (combine l1 l2) -> f a = g b.
Proof.
  intros A B C f g. induction l1 as [|x t IH]; intros [|y u] E a b H; cbn [combine] in H; try contradiction.
  cbn [map] in E. inversion E as [[E1 E2]]. destruct H as [H|H].
  - inversion H; subst. exact E1.
  - exact (IH u E2 a b H).
Qed.

Lemma all_occ_ren_g_of : forall m n, all_occ (RenameFacts.ren (g_of m) n) = map (g_of m true) (all_occ n).
Proof. intros m n. apply all_occ_ren_flagless. intros b x. reflexivity. Qed.

Lemma g_of_some : forall m b x y, get m x = Some y -> g_of m b x = y.
Proof. intros m b x y G. unfold g_of. rewrite G. reflexivity. Qed.

Lemma zip_with_len : forall {A C D} (f : A -> C -> D) l l', List.length l = List.length l' ->
  List.length (zip_with f l l') = List.length l'.
Proof.
  intros A C D f. induction l as [|x t IH]; intros [|y u] L; cbn [zip_with List.length] in *; try discriminate; [reflexivity|].
  rewrite IH; [reflexivity|lia].
Qed.

Lemma app_occ_ren_len : forall g n, List.length (app_occ (RenameFacts.ren g n)) = List.length (app_occ n).
Proof. intros g n. rewrite HashconsShape.app_occ_ren. apply zip_with_len. apply abounds_length. Qed.

Lemma nvar_skel : forall a b, skel a = skel b -> nvar a = nvar b.
Proof. intros a b H. apply (f_equal nvar) in H. exact H. Qed.

(* the positional bijection of `same_wshape_rho` *)
Lemma pos_facts : forall A B rho, insert_all_bij (combine (all_occ A) (all_occ B)) [] = Some rho ->
  skel A = skel B ->
  wf rho /\ is_bijection rho = true /\ injective rho /\ (forall x, In x (all_occ A) -> exists y, get rho x = Some y).
Proof.
  intros A B rho H Sk.
  assert (W : wf rho) by (eapply insert_all_bij_wf; [exact H|exact I]).
  assert (Bj : is_bijection rho = true) by (eapply insert_all_bij_bij; [exact H|reflexivity]).
  split; [exact W|]. split; [exact Bj|]. split; [apply is_bijection_inj; exact Bj|].
  intros x Hx. pose proof (skel_occ_len _ _ Sk) as Len.
  destruct (in_combine_l_ex _ (all_occ B) x Len Hx) as (y & Hy). exists y.
  exact (insert_all_bij_get _ _ _ H x y Hy).
Qed.

Lemma same_ws_skel : forall A B sh bA bB, wshape A = Ok (sh, bA) -> wshape B = Ok (sh, bB) -> skel A = skel B.
Proof.
  intros A B sh bA bB WA WB.
  destruct (node_equiv_shape _ _ _ WA) as [S1 _]. destruct (node_equiv_shape _ _ _ WB) as [S2 _]. congruence.
Qed.

(* ------------------------------------------------------------------ *)
(* 1. the strengthened induction predicate *)

Definition emb_at (s : egraph) (theta : slotmap) (zeta : subst) (p : pattern) (j : appid) : Prop :=
  forall i rho0, ckid s i -> (forall x, In x (values_vec (am i)) -> get rho0 x <> None) -> rn rho0 i = j ->
    emb s theta zeta p i rho0.

(* ------------------------------------------------------------------ *)
(* 2. the node step *)

Section NodeAt.
  Variable s : egraph.
  Hypothesis MI : match_inv s.
  Hypothesis SS : ss_ok s.
  Hypothesis S2 : stored2 s.
  Hypothesis NR : no_redundant s.
  Variable theta : slotmap.
  Variable zeta : subst.
  Hypothesis Ith : injective theta.

  Lemma node_at : forall n ch js N a sh bn c cb src p V2 wv u tau,
    (* the pattern node *)
    nullify n = n -> (forall x, In x (all_occ n) -> get theta x <> None) ->
    (forall x, In x (pub_occ n) -> ~ In x (binders n)) ->
    List.length js = List.length (app_occ n) ->
    N = set_apps (RenameFacts.ren (g_of theta) n) js ->
    (* the lookup data of N *)
    get_class s (aid a) = Ok c -> In (sh, (cb, src)) (c_nodes c) -> wf (am a) ->
    (forall k m, get cb m = Some k -> In k (c_slots c) -> get (am a) k = get bn m) ->
    wshape p = Ok (sh, bn) -> cleanp p -> binders p = binders N -> binders u = binders N ->
    variants s p = Ok V2 -> weak_variants s p = Ok wv -> In u wv ->
    insert_all_bij (combine (all_occ u) (all_occ N)) [] = Some tau -> skel u = skel N ->
    RenameFacts.ren (g_of tau) u = N ->
    (* the children *)
    Forall2 (emb_at s theta zeta) ch js ->
    emb_at s theta zeta (PNode n ch) (rn tau a).
  Proof.
    intros n ch js N a sh bn c cb src p V2 wv u tau Nul Dth Sepn Ljs EN Hca Hin Wa Ham Wp Cp Bp Bu HV2 Hwv Hu Htau Sku Etau IHk.
    intros i rho0 Cki Def0 Ej. rewrite emb_node. intros rho t nns t' X A R Hen.
    pose proof MI as [I3 K0 M4f Hhc Hpe Hlv]. pose proof (m4_cls4 _ M4f) as M4.
    assert (EI : eg_inv s) by (destruct I3 as [[EI _] _]; exact EI).
    pose proof A as (Wr & Ir & Kr & Av).
    destruct (pos_facts u N tau Htau Sku) as (Wt & Bt & It & Deft).
    (* rho on the invocation *)
    assert (Def : forall x, In x (values_vec (am i)) -> get rho x <> None).
    { intros x Hx. destruct (get rho0 x) as [y|] eqn:G; [rewrite (X _ _ G); discriminate|exfalso; exact (Def0 x Hx G)]. }
    assert (Erho : rn rho i = rn tau a) by (rewrite (rn_ext rho0 rho i X Def0); exact Ej).
    assert (Vi : forall v, In v (values_vec (am i)) -> v < Model.ctr t).
    { intros v Hv. destruct (get rho v) as [y|] eqn:G; [exact (Kr v y G)|exfalso; exact (Def v Hv G)]. }
    pose proof Cki as [Li Ci]. pose proof Ci as (ci & Hci & Gci & Wi & Bi & Ki).
    assert (Eid : aid i = aid a) by (apply (f_equal aid) in Erho; exact Erho).
    assert (Hc : get_class s (aid i) = Ok c) by (rewrite Eid; exact Hca).
    rewrite Hc in Hci. inversion Hci; subst ci. clear Hci.
    assert (Eam : am i ** rho = am a ** tau) by (apply (f_equal am) in Erho; exact Erho).
    assert (Ii : inv_i s t i) by (split; [exact Cki|exact Vi]).
    assert (Cbi : MatchFacts.cb s t i).
    { split; [split; [exact (canon_covers _ _ Ci)|exact Wi]|exact Vi]. }
    assert (R' : Rel s t) by exact R.
    (* the listed node of the entry *)
    destruct (listed_entry_gen s I3 K0 M4 Hhc Hpe i c t nns t' sh cb src R' Hc Cbi Hen Hin)
      as (nn & b_nn & Hnn & Clnn & NDnn & Wnn & Pub & Bnn & Fresh).
    destruct (listed_gen s I3 K0 M4 Hhc Hpe i c t nns t' nn R' Hc Cbi Hen Hnn) as (Rt' & Fcb & Ck & _).
    assert (Cnn : cleanp nn) by (split; [exact NDnn|exact (proj1 Clnn)]).
    destruct (same_wshape_rho nn p sh b_nn bn Wnn Wp Cnn Cp) as (rho1 & Hrho1 & Eren1).
    destruct (pos_facts nn p rho1 Hrho1 (same_ws_skel _ _ _ _ _ Wnn Wp)) as (W1 & B1 & I1 & Def1).
    assert (Def1' : forall x, In x (all_occ nn) -> get rho1 x <> None).
    { intros x Hx. destruct (Def1 x Hx) as (y & Gy). rewrite Gy. discriminate. }
    assert (RO1 : ren_ok (g_of rho1) nn) by (apply ren_ok_flagless; [exact I1|exact Def1'|exact (proj1 Clnn)]).
    (* the variants of p are the variants of nn renamed *)
    destruct (variants s nn) as [all|e] eqn:Hall.
    2:{ pose proof (variants_ren_err s (g_of rho1) nn e Hall) as Bad. rewrite Eren1, HV2 in Bad. discriminate. }
    pose proof (variants_ren s (g_of rho1) nn all Hall) as HV2'. rewrite Eren1, HV2 in HV2'. inversion HV2' as [EV2]. clear HV2'.
    assert (ROall : forall v, In v all -> ren_ok (g_of rho1) v).
    { intros v Hv. destruct (variants_sub s nn all v Hall Hv) as (Bv & Pv). exact (ren_ok_sub _ nn v Bv Pv RO1). }
    destruct (weak_variants_total s nn all Hall) as (wvn & Hwvn).
    pose proof (weak_variants_ren s (g_of rho1) nn all wvn Hall ROall Hwvn) as Hwv'. rewrite Eren1, Hwv in Hwv'.
    inversion Hwv' as [Ewv]. clear Hwv'.
    rewrite Ewv in Hu. apply in_map_iff in Hu. destruct Hu as (v' & Ev' & Hv').
    destruct (weak_variants_sub _ _ _ Hwvn) as (all' & Hall' & Hsub). rewrite Hall in Hall'. inversion Hall'; subst all'. clear Hall'.
    pose proof (Hsub _ Hv') as Hv'a.
    destruct (variants_sub s nn all v' Hall Hv'a) as (Bv' & Pv').
    (* K1 *)
    destruct (variant_lookup s MI SS i t nns t' nn wvn v' R Ii Hen Hnn Hwvn Hv')
      as (Cl2 & ND2 & Kids2 & Pub2 & _).
    (* no redundant slot: the public slots of nn are values of the invocation, and rho1 ; tau agrees with rho on them *)
    set (sg := rho1 ** tau).
    assert (Wsg : wf sg) by apply compose_partial_wf.
    assert (Isg : injective sg) by (apply compose_injective; assumption).
    assert (Gsg : forall x, get sg x = match get rho1 x with Some y => get tau y | None => None end).
    { intros x. unfold sg. rewrite get_compose_partial by exact W1. reflexivity. }
    assert (AgP : forall x, In x (pub_occ nn) -> get sg x = get rho x /\ get rho x <> None).
    { intros x Hx. destruct (shape_bij _ _ _ Wnn) as (Sb & Kb & _).
      assert (Hm : exists m, In m (pub_occ sh) /\ get b_nn m = Some x).
      { destruct (proj2 (Sb x) Hx) as (m & Gm). exists m. split; [|exact Gm]. apply Kb. rewrite Gm. discriminate. }
      destruct Hm as (m & Hm & Gm).
      destruct (nr_entry_pub s (aid i) c sh cb src MI S2 NR Hc Hin m Hm) as (k & Gk & Hk).
      assert (Gik : exists y, get (am i) k = Some y).
      { destruct (get (am i) k) as [y|] eqn:G; [exists y; reflexivity|]. exfalso.
        assert (Hk' : In k (keys (am i))) by (rewrite Ki; exact Hk). apply keys_spec in Hk'. contradiction. }
      destruct Gik as (y & Gy). pose proof (Bnn m k y Hk Gk Gy) as Gm'. rewrite Gm in Gm'. inversion Gm'; subst y.
      assert (Wp' : wshape (RenameFacts.ren (g_of rho1) nn) = Ok (sh, bn)) by (rewrite Eren1; exact Wp).
      pose proof (ws_ren_get (g_of rho1) nn sh b_nn bn RO1 Wnn Wp' m) as Gbn. rewrite Gm in Gbn. cbn [option_map] in Gbn.
      destruct (Def1 x (pub_occ_all_occ _ _ Hx)) as (y1 & Gy1). rewrite (g_of_some _ _ _ _ Gy1) in Gbn.
      pose proof (Ham k m Gk Hk) as Gak. rewrite Gbn in Gak.
      pose proof (f_equal (fun mm => get mm k) Eam) as Ek. cbv beta in Ek.
      rewrite (get_compose_partial (am i) rho k Wi), (get_compose_partial (am a) tau k Wa), Gy, Gak in Ek.
      rewrite Gsg, Gy1. split; [symmetry; exact Ek|]. apply Def. exact (get_values_vec _ _ _ Gy). }
    (* the images of the binders *)
    assert (EbN : binders N = map (g_of theta false) (binders n)).
    { rewrite EN, binders_set_apps by (rewrite app_occ_ren_len; exact Ljs). apply ren_binders. }
    assert (BindImg : forall b v, In b (binders nn) -> get sg b = Some v -> exists x, In x (binders n) /\ get theta x = Some v).
    { intros b v Hb G. rewrite Gsg in G. destruct (get rho1 b) as [y1|] eqn:G1; [|discriminate].
      assert (Hy1 : In y1 (binders u)).
      { rewrite Bu, <- Bp, <- Eren1, ren_binders. apply in_map_iff. exists b. split; [exact (g_of_some _ _ _ _ G1)|exact Hb]. }
      assert (Hv : In v (binders N)).
      { rewrite <- Etau at 1. rewrite ren_binders. apply in_map_iff. exists y1. split; [exact (g_of_some _ _ _ _ G)|exact Hy1]. }
      rewrite EbN in Hv. apply in_map_iff in Hv. destruct Hv as (x & Ex & Hx). exists x. split; [exact Hx|].
      destruct (get theta x) as [y|] eqn:Gt; [|exfalso; exact (Dth x (binders_all_occ _ _ Hx) Gt)].
      rewrite (g_of_some _ _ _ _ Gt) in Ex. congruence. }
    assert (DefB : forall b, In b (binders nn) -> get sg b <> None).
    { intros b Hb. rewrite Gsg. destruct (Def1 b (binders_all_occ _ _ Hb)) as (y1 & G1). rewrite G1.
      assert (Hy1 : In y1 (binders u)).
      { rewrite Bu, <- Bp, <- Eren1, ren_binders. apply in_map_iff. exists b. split; [exact (g_of_some _ _ _ _ G1)|exact Hb]. }
      destruct (Deft y1 (binders_all_occ _ _ Hy1)) as (z & Gz). rewrite Gz. discriminate. }
    (* rho' *)
    destruct (ext_by rho sg (binders nn) Wr Wsg Ir Isg) as (rho' & X1 & Wr' & Ir' & Hnew & Hb').
    { intros b Hb. destruct (get rho b) as [y|] eqn:G; [|reflexivity]. pose proof (Kr b y G). pose proof (Fresh b Hb). lia. }
    { intros b k v Hb G Gs. destruct (BindImg b v Hb Gs) as (x & Hx & Gx).
      apply (Av k v x G); [rewrite pbinders_node; apply in_or_app; left; exact Hx|exact Gx]. }
    assert (Ag : forall x, In x (all_occ v') -> get rho' x = get sg x /\ get sg x <> None).
    { intros x Hx. destruct (all_occ_pub_or_binder v' x Hx) as [Hp|Hbd].
      - destruct (AgP x (Pv' x Hp)) as [E1 E2]. split; [|rewrite E1; exact E2].
        destruct (get rho x) as [y|] eqn:G; [|contradiction]. rewrite E1. exact (X1 _ _ G).
      - rewrite Bv' in Hbd. split; [exact (Hb' x Hbd)|exact (DefB x Hbd)]. }
    assert (Defr' : forall x, In x (all_occ v') -> get rho' x <> None).
    { intros x Hx. destruct (Ag x Hx) as [E1 E2]. rewrite E1. exact E2. }
    (* ren rho' v' = N *)
    assert (RenEq : RenameFacts.ren (g_of rho') v' = N).
    { transitivity (RenameFacts.ren (comp2 (g_of tau) (g_of rho1)) v').
      - apply ren_ext. intros x b Hxb.
        assert (Hx : In x (all_occ v')) by (rewrite <- flags_all; apply in_map_iff; exists (x, b); split; [reflexivity|exact Hxb]).
        destruct (Ag x Hx) as [E1 E2]. unfold comp2. rewrite Gsg in E1, E2.
        destruct (get rho1 x) as [y1|] eqn:G1; [|contradiction].
        destruct (get tau y1) as [z|] eqn:Gz; [|contradiction].
        rewrite (g_of_some _ _ _ _ E1), (g_of_some _ _ _ _ G1), (g_of_some _ _ _ _ Gz). reflexivity.
      - rewrite <- ren_ren; [rewrite Ev'; exact Etau|]. exact (proj1 (proj2 (ROall v' Hv'a))). }
    (* the skeleton *)
    assert (ENul : RenameFacts.ren (g_of rho') (nullify v') = RenameFacts.ren (g_of theta) n).
    { rewrite <- nullify_ren, RenEq, EN, nullify_set_apps, nullify_ren, Nul. reflexivity. }
    assert (RO' : ren_ok (g_of rho') (nullify v')).
    { apply ren_ok_flagless; [exact Ir'| |].
      - intros x Hx. apply Defr'. apply all_occ_nullify. exact Hx.
      - intros x Hx Hbd. rewrite binders_nullify in Hbd. exact (proj1 Cl2 x (pub_occ_nullify _ _ Hx) Hbd). }
    assert (ROth : ren_ok (g_of theta) n) by (apply ren_ok_flagless; [exact Ith|exact Dth|exact Sepn]).
    destruct (weak_shape_total false n) as (sha & ba & Wsa). change (wshape n = Ok (sha, ba)) in Wsa.
    destruct (weak_shape_total false (nullify v')) as (shb & bb & Wsb). change (wshape (nullify v') = Ok (shb, bb)) in Wsb.
    destruct (ren_ok_same_wshape _ _ ROth sha ba Wsa) as (ba' & Wsa').
    destruct (ren_ok_same_wshape _ _ RO' shb bb Wsb) as (bb' & Wsb'). rewrite ENul, Wsa' in Wsb'.
    inversion Wsb' as [[Esh Ebb]].
    exists nn, wvn, v', rho', (sha, ba), (shb, bb).
    split; [exact Hnn|]. split.
    { pose proof (variants_skel s nn all v' Ck Hall Hv'a) as Sk. apply nvar_skel in Sk. rewrite <- Sk.
      apply (f_equal nvar) in RenEq. rewrite EN in RenEq. exact (eq_sym RenEq). }
    split; [exact Hwvn|]. split; [exact Hv'|]. split; [exact Wsa|]. split; [exact Wsb|]. split; [exact Esh|].
    split; [exact X1|]. split; [exact Wr'|]. split; [exact Ir'|]. split.
    { intros k v G. destruct (Hnew k v G) as [G0|[Hk Gs]]; [left; exact G0|right].
      pose proof (Fresh k Hk). split; [lia|]. split; [lia|]. exact (BindImg k v Hk Gs). }
    split.
    { intros e x Hex.
      assert (El : map (g_of rho' true) (all_occ (nullify v')) = map (g_of theta true) (all_occ n)).
      { rewrite <- !all_occ_ren_g_of, ENul. reflexivity. }
      pose proof (map_eq_combine _ _ _ _ El e x Hex) as E.
      destruct (get rho' e) as [y|] eqn:Ge.
      2:{ exfalso. apply (Defr' e); [apply all_occ_nullify; exact (in_combine_l _ _ _ _ Hex)|exact Ge]. }
      destruct (get theta x) as [y'|] eqn:Gx; [|exfalso; exact (Dth x (in_combine_r _ _ _ _ Hex) Gx)].
      rewrite (g_of_some _ _ _ _ Ge), (g_of_some _ _ _ _ Gx) in E. subst y'. exists y. split; reflexivity. }
    split.
    { apply Forall_forall. intros b Hb. destruct (Kids2 b Hb) as [[Lb Cb] _].
      split; [split; [exact (canon_covers _ _ Cb)|exact (proj1 (canon_parts _ _ Cb))]|exact Lb]. }
    split.
    { intros x Hx. apply all_occ_split. apply pub_occ_all_occ. exact (Pub2 x Hx). }
    (* the children *)
    assert (Ekids : js = map (rn rho') (app_occ v')).
    { assert (E1 : app_occ N = js) by (rewrite EN; apply app_occ_set_apps; rewrite app_occ_ren_len; exact Ljs).
      rewrite <- E1, <- RenEq, HashconsShape.app_occ_ren. symmetry. apply map_zip_with_l; [apply abounds_length|].
      intros bd b Hb. unfold rn, rv. f_equal. rewrite ren_vals_mapv.
      rewrite (compose_total_mapv (am b) rho' (proj1 (Forall_forall _ _) (proj2 Cl2) b Hb)); [reflexivity|].
      intros x Hx. apply Defr'. exact (all_occ_app_val v' b x Hb Hx). }
    rewrite Ekids in IHk.
    assert (Hsub2 : forall b, In b (app_occ v') -> ckid s b /\ forall x, In x (values_vec (am b)) -> get rho' x <> None).
    { intros b Hb. split; [exact (proj1 (Kids2 b Hb))|]. intros x Hx. apply Defr'. exact (all_occ_app_val v' b x Hb Hx). }
    clear - IHk Hsub2. revert IHk Hsub2. generalize (app_occ v'). induction ch as [|q ch' IH]; intros [|b subs] F H2; cbn [map] in F.
    - exact I.
    - inversion F.
    - inversion F.
    - inversion F as [|? ? ? ? Hq Ft]; subst. cbn [embl_of]. split.
      + destruct (H2 b (or_introl eq_refl)) as [Cb Db]. exact (Hq b rho' Cb Db eq_refl).
      + apply IH; [exact Ft|]. intros b' Hb'. apply H2. right; exact Hb'.
  Qed.
End NodeAt.

Print Assumptions node_at.
