(* EGraph/MatchEmbedReprWv.v — facts on `weak_variants` (Rewrite.v) through `wv_go` (MatchReprFacts.v):
   totality, every weak shape of a variant is kept by some weak variant, and commutation with a renaming that is
   `ren_ok` on every variant. *)
From SE Require Import Slots.SlotMapFacts Group.GroupSound Lang.LangFacts Lang.ShapeFacts Lang.RenameFacts
  Base.TextFacts Parse.Parser EGraph.Model EGraph.ModelFacts EGraph.ModelMachine EGraph.UnionFindFacts
  EGraph.InvariantFacts EGraph.UnionInvariantFacts EGraph.AddCoversFacts EGraph.HashconsShape EGraph.Mod4Facts
  EGraph.HashconsAbs EGraph.HashconsFacts EGraph.Rewrite EGraph.RewriteFacts EGraph.MatchDefs EGraph.MatchMachine
  EGraph.ProgressFacts EGraph.MatchFacts EGraph.SoundUnion EGraph.MonotoneFacts EGraph.MatchLookup
  EGraph.NodeCong EGraph.KidEqFacts EGraph.ShapeCong EGraph.CongruenceFacts EGraph.MatchComplete
  EGraph.MatchReprFix EGraph.MatchReprAlg EGraph.StoredLive EGraph.KidsFacts EGraph.PendingFacts EGraph.SoundAddExpr
  EGraph.MatchReprFacts EGraph.MatchReprAllDefs.
Require Import ZArith Lia ZifyBool ZifyN ZifyNat.

Local Notation "a ** b" := (compose_partial a b) (at level 40, left associativity).

Lemma weak_variants_total : forall s n vs, variants s n = Ok vs -> exists wv, weak_variants s n = Ok wv.
Proof.
  intros s n vs V. rewrite weak_variants_go, V. cbn [bind]. apply wv_go_total.
Qed.

Lemma wv_go_keeps : forall l shapes r x shx,
  wv_go l shapes = Ok r -> In x l -> wshape x = Ok shx ->
  existsb (node_eqb (fst shx)) shapes = true \/
  exists x' shx', In x' r /\ wshape x' = Ok shx' /\ fst shx' = fst shx.
Proof.
  induction l as [|a t IH]; intros shapes r x shx H Hx W; [destruct Hx|].
  cbn [wv_go] in H.
  destruct (wshape a) as [sha|e] eqn:Wa; cbn [bind] in H; [|discriminate].
  destruct (existsb (node_eqb (fst sha)) shapes) eqn:Ex.
  - destruct Hx as [Hx|Hx].
    + subst x. rewrite W in Wa. inversion Wa; subst sha. left. exact Ex.
    + exact (IH shapes r x shx H Hx W).
  - destruct (wv_go t (fst sha :: shapes)) as [r0|e] eqn:Er; cbn [bind] in H; [|discriminate].
    inversion H; subst r.
    destruct Hx as [Hx|Hx].
    + subst x. right. exists a, sha. split; [left; reflexivity|]. split; [exact Wa|].
      rewrite W in Wa. inversion Wa; reflexivity.
    + destruct (IH (fst sha :: shapes) r0 x shx Er Hx W) as [Hin|(x' & shx' & Hx' & Wx' & Ef)].
      * cbn [existsb] in Hin. apply Bool.orb_true_iff in Hin. destruct Hin as [Hin|Hin].
        -- apply node_eqb_iff in Hin. right. exists a, sha. split; [left; reflexivity|]. split; [exact Wa|].
           symmetry. exact Hin.
        -- left. exact Hin.
      * right. exists x', shx'. split; [right; exact Hx'|]. split; assumption.
Qed.

Lemma weak_variants_keeps : forall s n vs wv x shx, variants s n = Ok vs -> weak_variants s n = Ok wv -> In x vs -> wshape x = Ok shx ->
  exists x' shx', In x' wv /\ wshape x' = Ok shx' /\ fst shx' = fst shx.
Proof.
  intros s n vs wv x shx V H Hx W. rewrite weak_variants_go, V in H. cbn [bind] in H.
  destruct (wv_go_keeps vs [] wv x shx H Hx W) as [Hf|Hr]; [cbn [existsb] in Hf; discriminate|exact Hr].
Qed.

Lemma wv_go_ren : forall g l shapes r,
  (forall v, In v l -> ren_ok g v) -> wv_go l shapes = Ok r ->
  wv_go (map (RenameFacts.ren g) l) shapes = Ok (map (RenameFacts.ren g) r).
Proof.
  intros g. induction l as [|a t IH]; intros shapes r R H.
  - cbn [wv_go] in H. inversion H; subst r. reflexivity.
  - cbn [map wv_go] in *.
    destruct (wshape a) as [[sh b]|e] eqn:Wa; cbn [bind] in H; [|discriminate].
    destruct (ren_ok_same_wshape g a (R a (or_introl eq_refl)) sh b Wa) as (b' & Wa').
    rewrite Wa'. cbn [bind fst] in *.
    assert (Rt : forall v, In v t -> ren_ok g v) by (intros v Hv; apply R; right; exact Hv).
    destruct (existsb (node_eqb sh) shapes) eqn:Ex.
    + exact (IH shapes r Rt H).
    + destruct (wv_go t (sh :: shapes)) as [r0|e] eqn:Er; cbn [bind] in H; [|discriminate].
      inversion H; subst r.
      rewrite (IH (sh :: shapes) r0 Rt Er). cbn [bind map]. reflexivity.
Qed.

Lemma weak_variants_ren : forall s g n vs wv, variants s n = Ok vs -> (forall v, In v vs -> ren_ok g v) -> weak_variants s n = Ok wv ->
  weak_variants s (RenameFacts.ren g n) = Ok (map (RenameFacts.ren g) wv).
Proof.
  intros s g n vs wv V R H. rewrite weak_variants_go, V in H. cbn [bind] in H.
  rewrite weak_variants_go, (variants_ren s g n vs V). cbn [bind].
  exact (wv_go_ren g vs [] wv R H).
Qed.

Print Assumptions weak_variants_total.
Print Assumptions weak_variants_keeps.
Print Assumptions weak_variants_ren.
